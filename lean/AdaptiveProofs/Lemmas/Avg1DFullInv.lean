import AdaptiveProofs.Lemmas.Avg1DFullResc

/-!
Helper lemmas for the full AverageLearner1D model, part 3: the invariant behind
`rescaled_error[x] = error[x] / min(neighbouring distances)`.
-/
set_option linter.unusedSectionVars false
set_option linter.unusedVariables false
set_option linter.unusedSimpArgs false
set_option linter.unusedTactic false
set_option linter.unreachableTactic false

namespace L1D
variable {α : Type} [LinearOrder α]

/-! ### neighbours in a strictly sorted list -/

theorem rightOf_of_leftOf {l : List α} (h : l.Pairwise (· < ·)) {x a : α} (hx : x ∈ l)
    (ha : leftOf x l = some a) : rightOf a l = some x := by
  obtain ⟨h1, h2, h3⟩ := (leftOf_eq_some h).1 ha
  refine (rightOf_eq_some h).2 ⟨hx, h2, ?_⟩
  intro z hz haz
  by_contra hlt
  exact absurd (h3 z hz (not_le.1 hlt)) (not_le.2 haz)

theorem leftOf_of_rightOf {l : List α} (h : l.Pairwise (· < ·)) {x b : α} (hx : x ∈ l)
    (hb : rightOf x l = some b) : leftOf b l = some x := by
  obtain ⟨h1, h2, h3⟩ := (rightOf_eq_some h).1 hb
  refine (leftOf_eq_some h).2 ⟨hx, h2, ?_⟩
  intro z hz hzb
  by_contra hlt
  exact absurd (h3 z hz (not_le.1 hlt)) (not_le.2 hzb)

theorem leftOf_mem {l : List α} (h : l.Pairwise (· < ·)) {x a : α} (ha : leftOf x l = some a) : a ∈ l :=
  ((leftOf_eq_some h).1 ha).1

theorem rightOf_mem {l : List α} (h : l.Pairwise (· < ·)) {x b : α} (hb : rightOf x l = some b) : b ∈ l :=
  ((rightOf_eq_some h).1 hb).1

theorem leftOf_lt {l : List α} (h : l.Pairwise (· < ·)) {x a : α} (ha : leftOf x l = some a) : a < x :=
  ((leftOf_eq_some h).1 ha).2.1

theorem rightOf_gt {l : List α} (h : l.Pairwise (· < ·)) {x b : α} (hb : rightOf x l = some b) : x < b :=
  ((rightOf_eq_some h).1 hb).2.1

/-- inserting `x` does not change the left neighbour of `z`, unless `z` is the right neighbour of `x` -/
theorem leftOf_sinsert_other {l : List α} (h : l.Pairwise (· < ·)) {x z : α} (hz : z ∈ l)
    (hx : x ∉ l) (hr : rightOf x l ≠ some z) : leftOf z (sinsert x l) = leftOf z l := by
  have hxz : x ≠ z := fun e => hx (e ▸ hz)
  -- `x < z` forces an element of `l` strictly between
  have key : x < z → ∃ w ∈ l, x < w ∧ w < z := by
    intro hlt
    by_contra hno
    apply hr
    refine (rightOf_eq_some h).2 ⟨hz, hlt, ?_⟩
    intro w hw hxw
    by_contra hwz
    exact hno ⟨w, hw, hxw, not_le.1 hwz⟩
  apply Option.ext
  intro a
  rw [leftOf_eq_some h, leftOf_eq_some (sorted_sinsert h)]
  simp only [mem_sinsert]
  constructor
  · rintro ⟨h1, h2, h3⟩
    rcases h1 with rfl | h1
    · obtain ⟨w, hw, hxw, hwz⟩ := key h2
      exact absurd (h3 w (Or.inr hw) hwz) (not_le.2 hxw)
    · exact ⟨h1, h2, fun w hw => h3 w (Or.inr hw)⟩
  · rintro ⟨h1, h2, h3⟩
    refine ⟨Or.inr h1, h2, ?_⟩
    rintro w (rfl | hw) hwz
    · obtain ⟨v, hv, hxv, hvz⟩ := key hwz
      exact le_of_lt (lt_of_lt_of_le hxv (h3 v hv hvz))
    · exact h3 w hw hwz

theorem rightOf_sinsert_other {l : List α} (h : l.Pairwise (· < ·)) {x z : α} (hz : z ∈ l)
    (hx : x ∉ l) (hl : leftOf x l ≠ some z) : rightOf z (sinsert x l) = rightOf z l := by
  have hxz : x ≠ z := fun e => hx (e ▸ hz)
  have key : z < x → ∃ w ∈ l, z < w ∧ w < x := by
    intro hlt
    by_contra hno
    apply hl
    refine (leftOf_eq_some h).2 ⟨hz, hlt, ?_⟩
    intro w hw hwx
    by_contra hwz
    exact hno ⟨w, hw, not_le.1 hwz, hwx⟩
  apply Option.ext
  intro a
  rw [rightOf_eq_some h, rightOf_eq_some (sorted_sinsert h)]
  simp only [mem_sinsert]
  constructor
  · rintro ⟨h1, h2, h3⟩
    rcases h1 with rfl | h1
    · obtain ⟨w, hw, hzw, hwx⟩ := key h2
      exact absurd (h3 w (Or.inr hw) hzw) (not_le.2 hwx)
    · exact ⟨h1, h2, fun w hw => h3 w (Or.inr hw)⟩
  · rintro ⟨h1, h2, h3⟩
    refine ⟨Or.inr h1, h2, ?_⟩
    rintro w (rfl | hw) hzw
    · obtain ⟨v, hv, hzv, hvx⟩ := key hzw
      exact le_of_lt (lt_of_le_of_lt (h3 v hv hzv) hvx)
    · exact h3 w hw hzw

/-- the pairs containing `x` are exactly `(left x, x)` and `(x, right x)` -/
theorem pairs_left_iff {l : List α} (h : l.Pairwise (· < ·)) {x a : α} (hx : x ∈ l) :
    (a, x) ∈ pairs l ↔ leftOf x l = some a := by
  rw [mem_pairs_iff_adj h, leftOf_eq_some h]
  constructor
  · rintro ⟨h1, _, h3, h4⟩
    refine ⟨h1, h3, fun z hz hzx => ?_⟩
    rcases h4 z hz with h5 | h5
    · exact h5
    · exact absurd hzx (not_lt.2 h5)
  · rintro ⟨h1, h2, h3⟩
    refine ⟨h1, hx, h2, fun z hz => ?_⟩
    rcases lt_or_ge z x with h5 | h5
    · exact Or.inl (h3 z hz h5)
    · exact Or.inr h5

theorem pairs_right_iff {l : List α} (h : l.Pairwise (· < ·)) {x b : α} (hx : x ∈ l) :
    (x, b) ∈ pairs l ↔ rightOf x l = some b := by
  rw [mem_pairs_iff_adj h, rightOf_eq_some h]
  constructor
  · rintro ⟨_, h1, h3, h4⟩
    refine ⟨h1, h3, fun z hz hzx => ?_⟩
    rcases h4 z hz with h5 | h5
    · exact absurd hzx (not_lt.2 h5)
    · exact h5
  · rintro ⟨h1, h2, h3⟩
    refine ⟨hx, h1, h2, fun z hz => ?_⟩
    rcases lt_or_ge x z with h5 | h5
    · exact Or.inr (h3 z hz h5)
    · exact Or.inl h5

theorem pairs_mem_left {l : List α} (h : l.Pairwise (· < ·)) {a b : α} (hab : (a, b) ∈ pairs l) : a ∈ l :=
  ((mem_pairs_iff_adj h).1 hab).1

theorem pairs_mem_right {l : List α} (h : l.Pairwise (· < ·)) {a b : α} (hab : (a, b) ∈ pairs l) : b ∈ l :=
  ((mem_pairs_iff_adj h).1 hab).2.1

end L1D

namespace Avg1D
variable {α : Type} [Field α] [LinearOrder α] [IsStrictOrderedRing α]

/-! ### a tell at `x` leaves every other abscissa of the sampling model alone -/

theorem find?_list_updatePt_ne (p' : Pt α) (z : α) (hz : p'.x ≠ z) (l : List (Pt α)) :
    (updatePt p' l).find? (fun q => q.x = z) = l.find? (fun q => q.x = z) := by
  induction l with
  | nil => rfl
  | cons q r ih =>
    unfold updatePt at ih ⊢
    simp only [List.map_cons, List.find?_cons]
    by_cases hq : q.x = p'.x
    · have hqz : ¬ q.x = z := by rw [hq]; exact hz
      simp only [hq, if_true, hz, hqz, decide_false]
      exact ih
    · simp only [hq, if_false]
      by_cases hqz : q.x = z
      · simp [hqz]
      · simp only [hqz, decide_false]
        exact ih

theorem find?_list_insertPt_ne (p' : Pt α) (z : α) (hz : p'.x ≠ z) (l : List (Pt α)) :
    (insertPt p' l).find? (fun q => q.x = z) = l.find? (fun q => q.x = z) := by
  induction l with
  | nil => simp [insertPt, hz]
  | cons q r ih =>
    unfold insertPt
    split
    · simp [List.find?_cons, hz]
    · simp only [List.find?_cons]
      by_cases hqz : q.x = z
      · simp [hqz]
      · simp only [hqz, decide_false]
        exact ih

theorem find?_tell_other (sqrt : α → α) (tq : Nat → α) (s : State α) (seed : Nat) (x y z : α)
    (hz : x ≠ z) : find? (tell sqrt tq s seed x y) z = find? s z := by
  cases hf : find? s x with
  | none =>
    rw [tell_new sqrt tq s seed x y hf]
    unfold find?
    exact find?_list_insertPt_ne (newPt x seed y) z hz s.pts
  | some p =>
    by_cases hk : seed ∈ p.samples.map Prod.fst
    · rw [tell_known sqrt tq s seed x y p hf hk]
    · obtain ⟨u, -, e⟩ := tell_resample sqrt tq s seed x y p hf hk
      rw [e]
      unfold find?
      have hpx : (resamplePt sqrt tq p seed y).x = x := (find?_some hf).2
      exact find?_list_updatePt_ne _ z (by rw [hpx]; exact hz) s.pts

theorem find?_tell_isSome (sqrt : α → α) (tq : Nat → α) (s : State α) (seed : Nat) (x y : α) :
    (find? (tell sqrt tq s seed x y) x).isSome = true := by
  cases hf : find? s x with
  | none => rw [find?_tell_new sqrt tq s seed x y hf]; rfl
  | some p =>
    by_cases hk : seed ∈ p.samples.map Prod.fst
    · rw [tell_known sqrt tq s seed x y p hf hk, hf]; rfl
    · rw [find?_tell_resample sqrt tq s seed x y p hf hk]; rfl

theorem find?_batchState (sqrt : α → α) (tq : Nat → α) (s : State α) (x : α) (p : Pt α)
    (m : List (Nat × α)) (hf : find? s x = some p) :
    find? (batchState sqrt tq s x p m) x = some (batchPt sqrt tq p m) := by
  unfold find? at hf ⊢
  exact find?_list_updatePt (batchPt sqrt tq p m) x (find?_some hf).2 s.pts p hf

theorem find?_batchState_other (sqrt : α → α) (tq : Nat → α) (s : State α) (x z : α) (p : Pt α)
    (m : List (Nat × α)) (hf : find? s x = some p) (hz : x ≠ z) :
    find? (batchState sqrt tq s x p m) z = find? s z := by
  unfold find?
  have hpx : (batchPt sqrt tq p m).x = x := (find?_some hf).2
  exact find?_list_updatePt_ne _ z (by rw [hpx]; exact hz) s.pts

theorem find?_tellMany_other (sqrt : α → α) (tq : Nat → α) (s : State α) (x z : α)
    (m : List (Nat × α)) (hz : x ≠ z) : find? (tellManyAtPoint sqrt tq s x m) z = find? s z := by
  cases m with
  | nil => rw [tellMany_nil]
  | cons kv rest =>
    cases hf : find? s x with
    | some p =>
      rw [tellMany_some_cons sqrt tq s x p kv rest hf]
      exact find?_batchState_other sqrt tq s x z p _ hf hz
    | none =>
      obtain ⟨seed, y⟩ := kv
      rw [tellMany_none_cons sqrt tq s x seed y rest hf]
      have h1 := find?_tell_new sqrt tq s seed x y hf
      cases rest with
      | nil => rw [tellMany_nil]; exact find?_tell_other sqrt tq s seed x y z hz
      | cons kv2 rest2 =>
        rw [tellMany_some_cons sqrt tq _ x _ kv2 rest2 h1,
          find?_batchState_other sqrt tq _ x z _ _ h1 hz]
        exact find?_tell_other sqrt tq s seed x y z hz

end Avg1D

namespace Avg1DFull
open L1D (Loss Ival)
variable {α : Type} [Field α] [LinearOrder α] [IsStrictOrderedRing α]

/-! ### `_distances` -/

theorem dget_cons (a : α) (e : α × α) (r : List (α × α)) :
    dget a (e :: r) = if e.1 = a then some e.2 else dget a r := by
  unfold dget
  by_cases h : e.1 = a
  · simp [List.find?_cons, h]
  · simp [List.find?_cons, h]

theorem dget_nil (a : α) : dget a ([] : List (α × α)) = none := rfl

theorem dget_map_set (k v a : α) (d : List (α × α)) :
    dget a (d.map (fun e => if e.1 = k then (k, v) else e)) =
      if a = k then (dget k d).map (fun _ => v) else dget a d := by
  induction d with
  | nil => simp [dget_nil]
  | cons e r ih =>
    rw [List.map_cons, dget_cons, ih, dget_cons, dget_cons]
    by_cases he : e.1 = k
    · by_cases ha : a = k
      · subst ha; simp [he]
      · have hka : ¬ k = a := fun h => ha h.symm
        have hea : ¬ e.1 = a := fun h => ha (h.symm.trans he)
        simp [he, ha, hka, hea]
    · by_cases ha : a = k
      · subst ha; simp [he]
      · simp [he, ha]

theorem dget_append_single (k v a : α) (d : List (α × α)) :
    dget a (d ++ [(k, v)]) = match dget a d with
      | some w => some w
      | none => if k = a then some v else none := by
  induction d with
  | nil => simp [dget_cons, dget_nil]
  | cons e r ih =>
    rw [List.cons_append, dget_cons, dget_cons, ih]
    by_cases he : e.1 = a <;> simp [he]

theorem dget_dset (k v a : α) (d : List (α × α)) :
    dget a (dset k v d) = if a = k then some v else dget a d := by
  unfold dset
  by_cases hk : (dget k d).isSome = true
  · rw [if_pos hk, dget_map_set]
    by_cases ha : a = k
    · rw [if_pos ha, if_pos ha]
      obtain ⟨w, hw⟩ := Option.isSome_iff_exists.1 hk
      rw [hw]; rfl
    · rw [if_neg ha, if_neg ha]
  · rw [if_neg hk, dget_append_single]
    have hnone : dget k d = none := by
      cases h : dget k d with
      | none => rfl
      | some v => rw [h] at hk; simp at hk
    by_cases ha : a = k
    · subst ha; simp [hnone]
    · have hka : ¬ k = a := fun h => ha h.symm
      rw [if_neg ha]
      cases dget a d <;> simp [hka]

theorem dgetD_dset (k v a : α) (d : List (α × α)) :
    dgetD (dset k v d) a = if a = k then v else dgetD d a := by
  unfold dgetD
  rw [dget_dset]
  split <;> rfl

theorem minA_self (a : α) : minA a a = a := by
  unfold minA; simp

theorem minA_eq_min (a b : α) : minA a b = min a b := by
  unfold minA
  rcases lt_or_ge b a with h | h
  · rw [if_pos h, min_eq_right (le_of_lt h)]
  · rw [if_neg (not_lt.2 h), min_eq_left h]

/-! ### what `rescaled_error[x]` has to be -/

/-- `error[x]` divided by the smaller of the distances to the two neighbouring means (by the one
distance when there is one neighbour; infinite for the only abscissa): the recorded distances -/
def rescSpec (s : State α) (x : α) : Loss α :=
  match nbrs s x with
  | (none, none) => .inf
  | (some l, none) => errDiv (errOf s x) (dgetD s.dist l)
  | (none, some _) => errDiv (errOf s x) (dgetD s.dist x)
  | (some l, some _) => errDiv (errOf s x) (minA (dgetD s.dist l) (dgetD s.dist x))

/-- `rescSpec` only looks at the neighbours of `x`, its error, and the distances stored at `x`
and at its left neighbour -/
theorem rescSpec_local {s s' : State α} {x : α} (hn : nbrs s' x = nbrs s x)
    (he : errOf s' x = errOf s x) (hd : dgetD s'.dist x = dgetD s.dist x)
    (hl : ∀ l, (nbrs s x).1 = some l → dgetD s'.dist l = dgetD s.dist l) :
    rescSpec s' x = rescSpec s x := by
  unfold rescSpec
  rw [hn, he, hd]
  rcases hnb : nbrs s x with ⟨_ | l, _ | r⟩
  · rfl
  · rfl
  · dsimp only; rw [hl l (by rw [hnb])]
  · dsimp only; rw [hl l (by rw [hnb])]

theorem rescSpec_congr {s s' : State α} (hx : s'.base.xs = s.base.xs) (hs : s'.samp = s.samp)
    (hd : s'.dist = s.dist) (x : α) : rescSpec s' x = rescSpec s x := by
  unfold rescSpec nbrs errOf
  rw [hx, hs, hd]

theorem rescSpec_err_none {s : State α} {x : α} (h : errOf s x = none) : rescSpec s x = .inf := by
  unfold rescSpec
  rw [h]
  rcases nbrs s x with ⟨_ | l, _ | r⟩ <;> rfl

/-! ### `_update_rescaled_error_in_mean` in three independent assignments -/

/-- the value written for the left neighbour `l` -/
def valL (s : State α) (l : α) : Loss α :=
  errDiv (errOf s l) (match (nbrs s l).1 with
    | none => dgetD s.dist l
    | some ll => minA (dgetD s.dist ll) (dgetD s.dist l))

/-- the value written for the right neighbour `r` (`x` is the abscissa being told) -/
def valR (s : State α) (x r : α) : Loss α :=
  errDiv (errOf s r) (match (nbrs s r).2 with
    | none => dgetD s.dist x
    | some _ => minA (dgetD s.dist x) (dgetD s.dist r))

/-- the value written for `x` itself -/
def valX (s : State α) (x : α) : Loss α :=
  match nbrs s x with
  | (none, none) => .inf
  | (some l, none) => errDiv (errOf s x) (minA (dgetD s.dist l) (dgetD s.dist l))
  | (none, some _) => errDiv (errOf s x) (minA (dgetD s.dist x) (dgetD s.dist x))
  | (some l, some _) => errDiv (errOf s x) (minA (dgetD s.dist l) (dgetD s.dist x))

/-- `if k in d: d[k] = v` -/
def setIfPresent (k : Option α) (v : α → Loss α) (l : List (α × Loss α)) : List (α × Loss α) :=
  match k with
  | none => l
  | some k => if (rget k l).isSome then rset k (v k) l else l

theorem errOf_resc (s : State α) (R : List (α × Loss α)) (x : α) :
    errOf { s with resc := R } x = errOf s x := rfl

theorem nbrs_resc (s : State α) (R : List (α × Loss α)) (x : α) :
    nbrs { s with resc := R } x = nbrs s x := rfl

theorem updateRescaled_eq (s : State α) (x : α) (r : Bool) :
    updateRescaled s x r =
      if (nbrs s x).1 = none ∧ (nbrs s x).2 = none then s else
      { s with resc :=
          let l1 := setIfPresent (nbrs s x).1 (valL s) s.resc
          let l2 := setIfPresent (nbrs s x).2 (valR s x) l1
          if r then rset x (valX s x) l2 else l2 } := by
  unfold updateRescaled setIfPresent valL valR valX
  rcases hnb : nbrs s x with ⟨_ | l, _ | rr⟩
  · simp
  · simp only [reduceCtorEq, and_false, if_false, false_and, and_true]
    cases r <;> split_ifs <;> first | rfl | contradiction | (exfalso; simp_all)
  · simp only [reduceCtorEq, and_false, if_false, false_and, and_true]
    cases r <;> split_ifs <;> first | rfl | contradiction | (exfalso; simp_all)
  · simp only [reduceCtorEq, and_false, if_false, false_and, and_true]
    by_cases h1 : (rget l s.resc).isSome = true
    · simp only [h1, if_true, errOf_resc, nbrs_resc]
      cases r <;> split_ifs <;> first | rfl | contradiction | (exfalso; simp_all)
    · simp only [h1, if_false, Bool.false_eq_true]
      cases r <;> split_ifs <;> first | rfl | contradiction | (exfalso; simp_all)

theorem mem_setIfPresent {k : Option α} {v : α → Loss α} {l : List (α × Loss α)} {f : α × Loss α}
    (h : f ∈ setIfPresent k v l) :
    (∃ a, k = some a ∧ f = (a, v a)) ∨ (f ∈ l ∧ ∀ a, k = some a → f.1 ≠ a) := by
  unfold setIfPresent at h
  cases k with
  | none => exact Or.inr ⟨h, fun a ha => by cases ha⟩
  | some a =>
    dsimp only at h
    by_cases hp : (rget a l).isSome = true
    · rw [if_pos hp] at h
      rcases mem_rset.1 h with h | ⟨h1, h2⟩
      · exact Or.inl ⟨a, rfl, h⟩
      · refine Or.inr ⟨h1, fun b hb => ?_⟩
        cases hb; exact h2
    · rw [if_neg hp] at h
      refine Or.inr ⟨h, fun b hb => ?_⟩
      cases hb
      intro he
      apply hp
      rw [rget_isSome]
      exact List.mem_map.2 ⟨f, h, he⟩

theorem mem_rkeys_setIfPresent {k : Option α} {v : α → Loss α} {l : List (α × Loss α)} {a : α} :
    a ∈ rkeys (setIfPresent k v l) ↔ a ∈ rkeys l := by
  unfold setIfPresent
  cases k with
  | none => rfl
  | some b =>
    dsimp only
    by_cases hp : (rget b l).isSome = true
    · rw [if_pos hp, mem_rkeys_rset]
      constructor
      · rintro (h | h)
        · rw [h]; exact rget_isSome.1 hp
        · exact h
      · exact Or.inr
    · rw [if_neg hp]

/-- keys after `_update_rescaled_error_in_mean(x, …)`: the old ones, and `x` if it was re-sampled
and has a neighbour -/
theorem mem_rkeys_updateRescaled {s : State α} {x a : α} {r : Bool}
    (h : a ∈ rkeys (updateRescaled s x r).resc) : a = x ∨ a ∈ rkeys s.resc := by
  rw [updateRescaled_eq] at h
  split at h
  · exact Or.inr h
  · dsimp only at h
    cases r with
    | false =>
      simp only [Bool.false_eq_true, if_false] at h
      exact Or.inr (mem_rkeys_setIfPresent.1 (mem_rkeys_setIfPresent.1 h))
    | true =>
      simp only [if_true] at h
      rcases mem_rkeys_rset.1 h with h | h
      · exact Or.inl h
      · exact Or.inr (mem_rkeys_setIfPresent.1 (mem_rkeys_setIfPresent.1 h))

theorem valL_eq {s : State α} (hs : s.base.xs.Pairwise (· < ·)) {x l : α} (hx : x ∈ s.base.xs)
    (hl : (nbrs s x).1 = some l) : valL s l = rescSpec s l := by
  have hr : (nbrs s l).2 = some x := L1D.rightOf_of_leftOf hs hx hl
  unfold valL rescSpec
  rcases hnb : nbrs s l with ⟨_ | ll, _ | rr⟩
  · rw [hnb] at hr; cases hr
  · rfl
  · rw [hnb] at hr; cases hr
  · rfl

theorem valR_eq {s : State α} (hs : s.base.xs.Pairwise (· < ·)) {x r : α} (hx : x ∈ s.base.xs)
    (hr : (nbrs s x).2 = some r) : valR s x r = rescSpec s r := by
  have hl : (nbrs s r).1 = some x := L1D.leftOf_of_rightOf hs hx hr
  unfold valR rescSpec
  rcases hnb : nbrs s r with ⟨_ | ll, _ | rr⟩
  · rw [hnb] at hl; cases hl
  · rw [hnb] at hl; cases hl
  · rw [hnb] at hl; cases hl; rfl
  · rw [hnb] at hl; cases hl; rfl

theorem valX_eq (s : State α) (x : α) : valX s x = rescSpec s x := by
  unfold valX rescSpec
  rcases nbrs s x with ⟨_ | l, _ | r⟩
  · rfl
  · dsimp only; rw [minA_self]
  · dsimp only; rw [minA_self]
  · rfl

/-- `_update_rescaled_error_in_mean(x, …)` repairs the entries of `x` and of its two neighbours:
if every other entry carries the right value, afterwards all do -/
theorem updateRescaled_spec {s : State α} (hs : s.base.xs.Pairwise (· < ·)) {x : α} (hx : x ∈ s.base.xs)
    (r : Bool)
    (H : ∀ e ∈ s.resc, (nbrs s x).1 = some e.1 ∨ (nbrs s x).2 = some e.1 ∨
      (e.1 = x ∧ r = true ∧ ¬((nbrs s x).1 = none ∧ (nbrs s x).2 = none)) ∨ e.2 = rescSpec s e.1) :
    ∀ e ∈ (updateRescaled s x r).resc, e.2 = rescSpec s e.1 := by
  intro e he
  rw [updateRescaled_eq] at he
  by_cases hnone : (nbrs s x).1 = none ∧ (nbrs s x).2 = none
  · rw [if_pos hnone] at he
    rcases H e he with h | h | h | h
    · rw [hnone.1] at h; cases h
    · rw [hnone.2] at h; cases h
    · exact absurd hnone h.2.2
    · exact h
  · rw [if_neg hnone] at he
    dsimp only at he
    -- entries of the list after the two neighbour assignments
    have key : ∀ f ∈ setIfPresent (nbrs s x).2 (valR s x) (setIfPresent (nbrs s x).1 (valL s) s.resc),
        f.2 = rescSpec s f.1 ∨ (f.1 = x ∧ r = true) := by
      intro f hf
      rcases mem_setIfPresent hf with ⟨a, ha, rfl⟩ | ⟨hf1, hne2⟩
      · exact Or.inl (valR_eq hs hx ha)
      · rcases mem_setIfPresent hf1 with ⟨a, ha, rfl⟩ | ⟨hf0, hne1⟩
        · exact Or.inl (valL_eq hs hx ha)
        · rcases H f hf0 with h | h | h | h
          · exact absurd rfl (hne1 _ h)
          · exact absurd rfl (hne2 _ h)
          · exact Or.inr ⟨h.1, h.2.1⟩
          · exact Or.inl h
    cases r with
    | false =>
      simp only [Bool.false_eq_true, if_false] at he
      rcases key e he with h | h
      · exact h
      · cases h.2
    | true =>
      simp only [if_true] at he
      rcases mem_rset.1 he with rfl | ⟨h1, h2⟩
      · exact valX_eq s x
      · rcases key e h1 with h | h
        · exact h
        · exact absurd h.1 h2

/-! ### `_update_distances` -/

section dist
variable (hypot : α → α → α)

theorem updateDistances_left {s : State α} (hs : s.base.xs.Pairwise (· < ·)) {x l : α}
    (hl : (nbrs s x).1 = some l) :
    dget l (updateDistances hypot s x).dist = some (hypot (x - l) (yOf s x - yOf s l)) := by
  have hlt : l < x := L1D.leftOf_lt hs hl
  have hne : l ≠ x := ne_of_lt hlt
  unfold updateDistances
  rcases hnb : nbrs s x with ⟨_ | l', _ | r⟩
  · rw [hnb] at hl; cases hl
  · rw [hnb] at hl; cases hl
  · rw [hnb] at hl; cases hl
    dsimp only
    rw [dget_dset, if_pos rfl]
  · rw [hnb] at hl; cases hl
    dsimp only
    rw [dget_dset, if_neg hne, dget_dset, if_pos rfl]

theorem updateDistances_self {s : State α} {x r : α} (hr : (nbrs s x).2 = some r) :
    dget x (updateDistances hypot s x).dist = some (hypot (r - x) (yOf s r - yOf s x)) := by
  unfold updateDistances
  rcases hnb : nbrs s x with ⟨_ | l', _ | r'⟩
  · rw [hnb] at hr; cases hr
  · rw [hnb] at hr; cases hr
    dsimp only
    rw [dget_dset, if_pos rfl]
  · rw [hnb] at hr; cases hr
  · rw [hnb] at hr; cases hr
    dsimp only
    rw [dget_dset, if_pos rfl]

theorem updateDistances_other {s : State α} {x a : α} (hax : a ≠ x) (hl : (nbrs s x).1 ≠ some a) :
    dget a (updateDistances hypot s x).dist = dget a s.dist := by
  unfold updateDistances
  rcases hnb : nbrs s x with ⟨_ | l', _ | r'⟩
  · rfl
  · dsimp only
    rw [dget_dset, if_neg hax]
  · dsimp only
    have : a ≠ l' := fun h => hl (by rw [hnb, h])
    rw [dget_dset, if_neg this]
  · dsimp only
    have : a ≠ l' := fun h => hl (by rw [hnb, h])
    rw [dget_dset, if_neg hax, dget_dset, if_neg this]

theorem updateDistances_dgetD_other {s : State α} {x a : α} (hax : a ≠ x) (hl : (nbrs s x).1 ≠ some a) :
    dgetD (updateDistances hypot s x).dist a = dgetD s.dist a := by
  unfold dgetD; rw [updateDistances_other hypot hax hl]

end dist

/-! ### `_update_distances(x)` followed by `_update_rescaled_error_in_mean(x, …)` repairs everything
that a change of `data[x]` / `error[x]` (or the insertion of `x`) can have invalidated -/

/-- all recorded distances are the distances between neighbouring means -/
def DistOK (hypot : α → α → α) (s : State α) : Prop :=
  ∀ a b, (a, b) ∈ L1D.pairs s.base.xs → dget a s.dist = some (hypot (b - a) (yOf s b - yOf s a))

/-- every entry of `rescaled_error` is `error / min(neighbouring distances)` -/
def RescOK (s : State α) : Prop := ∀ e ∈ s.resc, e.2 = rescSpec s e.1

theorem rescSpec_nonbr {s : State α} {x : α} (h : (nbrs s x).1 = none ∧ (nbrs s x).2 = none) :
    rescSpec s x = .inf := by
  unfold rescSpec
  rcases hnb : nbrs s x with ⟨_ | l, _ | r⟩
  · rfl
  · rw [hnb] at h; cases h.2
  · rw [hnb] at h; cases h.1
  · rw [hnb] at h; cases h.1

theorem repair (hypot : α → α → α) {s : State α} (hs : s.base.xs.Pairwise (· < ·)) {x : α}
    (hx : x ∈ s.base.xs) (r : Bool)
    (hK : ∀ e ∈ s.resc, e.1 ∈ s.base.xs)
    (hD : ∀ a b, (a, b) ∈ L1D.pairs s.base.xs → a ≠ x → b ≠ x →
      dget a s.dist = some (hypot (b - a) (yOf s b - yOf s a)))
    (hR1 : ∀ e ∈ s.resc, e.1 ≠ x → (nbrs s x).1 ≠ some e.1 → (nbrs s x).2 ≠ some e.1 →
      e.2 = rescSpec s e.1)
    (hR2 : ∀ e ∈ s.resc, e.1 = x →
      (r = true ∧ ¬((nbrs s x).1 = none ∧ (nbrs s x).2 = none)) ∨
      (e.2 = .inf ∧ (errOf s x = none ∨ ((nbrs s x).1 = none ∧ (nbrs s x).2 = none)))) :
    DistOK hypot (updateRescaled (updateDistances hypot s x) x r) ∧
    RescOK (updateRescaled (updateDistances hypot s x) x r) := by
  have hbase : (updateRescaled (updateDistances hypot s x) x r).base = s.base := by
    rw [updateRescaled_base]; rfl
  have hdist : (updateRescaled (updateDistances hypot s x) x r).dist = (updateDistances hypot s x).dist :=
    updateRescaled_dist _ _ _
  have hsamp : (updateRescaled (updateDistances hypot s x) x r).samp = s.samp := by
    rw [updateRescaled_samp]; rfl
  have hy : ∀ z, yOf (updateRescaled (updateDistances hypot s x) x r) z = yOf s z := by
    intro z; unfold yOf; rw [hbase]
  constructor
  · intro a b hab
    rw [hbase] at hab
    rw [hdist, hy, hy]
    have ha : a ∈ s.base.xs := L1D.pairs_mem_left hs hab
    have hb : b ∈ s.base.xs := L1D.pairs_mem_right hs hab
    by_cases hbx : b = x
    · subst hbx
      exact updateDistances_left hypot hs ((L1D.pairs_left_iff hs hx).1 hab)
    · by_cases hax : a = x
      · subst hax
        exact updateDistances_self hypot ((L1D.pairs_right_iff hs hx).1 hab)
      · rw [updateDistances_other hypot hax]
        · exact hD a b hab hax hbx
        · intro hl
          have h1 : L1D.rightOf a s.base.xs = some x := L1D.rightOf_of_leftOf hs hx hl
          have h2 : L1D.rightOf a s.base.xs = some b := (L1D.pairs_right_iff hs ha).1 hab
          rw [h1] at h2
          exact hbx (Option.some.inj h2).symm
  · have hspec : ∀ z, rescSpec (updateRescaled (updateDistances hypot s x) x r) z =
        rescSpec (updateDistances hypot s x) z :=
      rescSpec_congr (by rw [updateRescaled_base]) (by rw [updateRescaled_samp])
        (by rw [updateRescaled_dist])
    intro e he
    rw [hspec]
    refine updateRescaled_spec (s := updateDistances hypot s x) hs hx r ?_ e he
    intro f hf
    have hf' : f ∈ s.resc := hf
    by_cases h1 : (nbrs s x).1 = some f.1
    · exact Or.inl h1
    by_cases h2 : (nbrs s x).2 = some f.1
    · exact Or.inr (Or.inl h2)
    right; right
    by_cases hfx : f.1 = x
    · rcases hR2 f hf' hfx with h | ⟨h3, h4⟩
      · exact Or.inl ⟨hfx, h.1, h.2⟩
      · right
        rw [h3, hfx]
        rcases h4 with h4 | h4
        · exact (rescSpec_err_none (s := updateDistances hypot s x) h4).symm
        · exact (rescSpec_nonbr (s := updateDistances hypot s x) h4).symm
    · right
      rw [hR1 f hf' hfx h1 h2]
      symm
      have hfm : f.1 ∈ s.base.xs := hK f hf'
      apply rescSpec_local (s := s) (s' := updateDistances hypot s x) (x := f.1) rfl rfl
      · exact updateDistances_dgetD_other hypot hfx h1
      · intro ll hll
        have hll' : L1D.leftOf f.1 s.base.xs = some ll := hll
        apply updateDistances_dgetD_other hypot
        · intro hllx
          rw [hllx] at hll'
          exact h2 (L1D.rightOf_of_leftOf hs hfm hll')
        · intro hl
          have e1 : L1D.rightOf ll s.base.xs = some x := L1D.rightOf_of_leftOf hs hx hl
          have e2 : L1D.rightOf ll s.base.xs = some f.1 := L1D.rightOf_of_leftOf hs hfm hll'
          rw [e1] at e2
          exact hfx (Option.some.inj e2).symm

/-! ### `data` as a dict -/

theorem dataGet_cons (a : α) (e : α × List α) (r : List (α × List α)) :
    L1D.dataGet (e :: r) a = if e.1 = a then some e.2 else L1D.dataGet r a := by
  unfold L1D.dataGet
  by_cases h : e.1 = a
  · simp [List.find?_cons, h]
  · simp [List.find?_cons, h]

theorem dataGet_append_ne {x z : α} (v : List α) (d : List (α × List α)) (hz : z ≠ x) :
    L1D.dataGet (d ++ [(x, v)]) z = L1D.dataGet d z := by
  induction d with
  | nil =>
    have : ¬ x = z := fun h => hz h.symm
    rw [List.nil_append, dataGet_cons, if_neg this]
  | cons e r ih => rw [List.cons_append, dataGet_cons, dataGet_cons, ih]

theorem dataGet_append_self {x : α} (v : List α) (d : List (α × List α)) (h : L1D.dataGet d x = none) :
    L1D.dataGet (d ++ [(x, v)]) x = some v := by
  induction d with
  | nil => rw [List.nil_append, dataGet_cons, if_pos rfl]
  | cons e r ih =>
    rw [dataGet_cons] at h
    by_cases he : e.1 = x
    · rw [if_pos he] at h; cases h
    · rw [if_neg he] at h
      rw [List.cons_append, dataGet_cons, if_neg he, ih h]

theorem dataGet_map_set (k a : α) (v : List α) (d : List (α × List α)) :
    L1D.dataGet (d.map (fun e => if e.1 = k then (k, v) else e)) a =
      if a = k then (L1D.dataGet d k).map (fun _ => v) else L1D.dataGet d a := by
  induction d with
  | nil => unfold L1D.dataGet; simp
  | cons e r ih =>
    rw [List.map_cons, dataGet_cons, ih, dataGet_cons, dataGet_cons]
    by_cases he : e.1 = k
    · by_cases ha : a = k
      · subst ha; simp [he]
      · have hka : ¬ k = a := fun h => ha h.symm
        have hea : ¬ e.1 = a := fun h => ha (h.symm.trans he)
        simp [he, ha, hka, hea]
    · by_cases ha : a = k
      · subst ha; simp [he]
      · simp [he, ha]

theorem dataGet_dataPut_self (x : α) (v : List α) (d : List (α × List α)) :
    L1D.dataGet (dataPut d x v) x = some v := by
  unfold dataPut
  by_cases hk : (L1D.dataGet d x).isSome = true
  · rw [if_pos hk, dataGet_map_set, if_pos rfl]
    obtain ⟨w, hw⟩ := Option.isSome_iff_exists.1 hk
    rw [hw]; rfl
  · rw [if_neg hk]
    apply dataGet_append_self
    cases h : L1D.dataGet d x with
    | none => rfl
    | some w => rw [h] at hk; simp at hk

theorem dataGet_dataPut_ne {x z : α} (v : List α) (d : List (α × List α)) (hz : z ≠ x) :
    L1D.dataGet (dataPut d x v) z = L1D.dataGet d z := by
  unfold dataPut
  split
  · rw [dataGet_map_set, if_neg hz]
  · exact dataGet_append_ne v d hz

/-! ### the invariant -/

/-- the evaluated abscissae are sorted and are the abscissae of the sampling part, `data` holds
the running means, every recorded distance and every rescaled error is current, and an abscissa
listed in `rescaled_error` has fewer than `max_samples` samples (or its first one) -/
structure FInv (hypot : α → α → α) (s : State α) : Prop where
  xs_sorted : s.base.xs.Pairwise (· < ·)
  xs_mem : ∀ x, x ∈ s.base.xs ↔ (Avg1D.find? s.samp x).isSome = true
  data_sync : ∀ x, L1D.dataGet s.base.data x = (Avg1D.find? s.samp x).map (fun p => [p.mean])
  dist_ok : DistOK hypot s
  resc_mem : ∀ e ∈ s.resc, e.1 ∈ s.base.xs
  resc_ok : RescOK s
  resc_cnt : ∀ e ∈ s.resc, nOf s e.1 < s.samp.maxSamples ∨ nOf s e.1 = 1

theorem FInv.congr {hypot : α → α → α} {s s' : State α} (h : FInv hypot s)
    (h1 : s'.base.xs = s.base.xs) (h2 : s'.base.data = s.base.data) (h3 : s'.samp = s.samp)
    (h4 : s'.dist = s.dist) (h5 : s'.resc = s.resc) : FInv hypot s' := by
  have hy : ∀ z, yOf s' z = yOf s z := by intro z; unfold yOf; rw [h2]
  have hn : ∀ z, nOf s' z = nOf s z := by intro z; unfold nOf; rw [h3]
  refine ⟨by rw [h1]; exact h.xs_sorted, by rw [h1, h3]; exact h.xs_mem,
    by rw [h2, h3]; exact h.data_sync, ?_, by rw [h1, h5]; exact h.resc_mem, ?_, ?_⟩
  · intro a b hab
    rw [h1] at hab
    rw [h4, hy, hy]
    exact h.dist_ok a b hab
  · intro e he
    rw [h5] at he
    rw [rescSpec_congr h1 h3 h4]
    exact h.resc_ok e he
  · intro e he
    rw [h5] at he
    rw [hn, h3]
    exact h.resc_cnt e he

theorem mem_popCheck_resc {s : State α} {x : α} {e : α × Loss α} (h : e ∈ (popCheck s x).resc) :
    e ∈ s.resc ∧ (e.1 = x → nOf s x < s.samp.maxSamples) := by
  unfold popCheck at h
  dsimp only at h
  by_cases hm : s.samp.maxSamples ≤ nOf s x
  · simp only [hm, decide_true, Bool.or_true, if_true] at h
    have h' := mem_rerase.1 h
    exact ⟨h'.1, fun hx => absurd hx h'.2⟩
  · have hlt : nOf s x < s.samp.maxSamples := not_le.1 hm
    split_ifs at h
    · have h' := mem_rerase.1 h
      exact ⟨h'.1, fun _ => hlt⟩
    · exact ⟨h, fun _ => hlt⟩

section steps
variable (lossFn : List (Option α) → List (Option (List α)) → Loss α) (r12 : α → α)
variable (sqrt : α → α) (tq : Nat → α) (hypot : α → α → α)

/-- the state `afterResample` hands to `_update_distances` -/
def preResample (s : State α) (samp : Avg1D.State α) (x : α) : State α :=
  { s with base := { s.base with data := dataPut s.base.data x [meanIn samp x] }, samp := samp }

theorem finv_afterResample {s : State α} (h : FInv hypot s) (samp' : Avg1D.State α) (x : α) (ys : List α)
    (hx : (Avg1D.find? s.samp x).isSome = true)
    (hsome : (Avg1D.find? samp' x).isSome = true)
    (hother : ∀ z, x ≠ z → Avg1D.find? samp' z = Avg1D.find? s.samp z)
    (hmax : samp'.maxSamples = s.samp.maxSamples) :
    FInv hypot (afterResample lossFn r12 hypot s samp' x ys) := by
  have hxm : x ∈ s.base.xs := (h.xs_mem x).2 hx
  -- the state before the repair
  have hy1 : ∀ z, z ≠ x → yOf (preResample s samp' x) z = yOf s z := by
    intro z hz
    unfold yOf preResample
    dsimp only
    rw [dataGet_dataPut_ne _ _ hz]
  have he1 : ∀ z, z ≠ x → errOf (preResample s samp' x) z = errOf s z := by
    intro z hz
    unfold errOf preResample
    dsimp only
    rw [hother z (fun e => hz e.symm)]
  have hn1 : ∀ z, z ≠ x → nOf (preResample s samp' x) z = nOf s z := by
    intro z hz
    unfold nOf preResample
    dsimp only
    rw [hother z (fun e => hz e.symm)]
  have hspec1 : ∀ z, z ≠ x → rescSpec (preResample s samp' x) z = rescSpec s z := by
    intro z hz
    exact rescSpec_local (s := s) (s' := preResample s samp' x) rfl (he1 z hz) rfl (fun _ _ => rfl)
  obtain ⟨hD3, hR3⟩ := repair hypot (s := preResample s samp' x) h.xs_sorted hxm true h.resc_mem
    (by
      intro a b hab hax hbx
      rw [hy1 a hax, hy1 b hbx]
      exact h.dist_ok a b hab)
    (by
      intro e he hex _ _
      rw [hspec1 e.1 hex]
      exact h.resc_ok e he)
    (by
      intro e he hex
      by_cases hnone : (nbrs (preResample s samp' x) x).1 = none ∧ (nbrs (preResample s samp' x) x).2 = none
      · refine Or.inr ⟨?_, Or.inr hnone⟩
        rw [h.resc_ok e he, hex]
        exact rescSpec_nonbr (s := s) hnone
      · exact Or.inl ⟨rfl, hnone⟩)
  -- after the repair and the pop
  have h4 : FInv hypot (popCheck (updateRescaled (updateDistances hypot (preResample s samp' x) x) x true) x) := by
    have hb : (popCheck (updateRescaled (updateDistances hypot (preResample s samp' x) x) x true) x).base =
        (preResample s samp' x).base := by
      rw [popCheck_base, updateRescaled_base]; rfl
    have hsm : (popCheck (updateRescaled (updateDistances hypot (preResample s samp' x) x) x true) x).samp =
        samp' := by
      rw [popCheck_samp, updateRescaled_samp]; rfl
    have hdi : (popCheck (updateRescaled (updateDistances hypot (preResample s samp' x) x) x true) x).dist =
        (updateRescaled (updateDistances hypot (preResample s samp' x) x) x true).dist := popCheck_dist _ _
    have hbx : (updateRescaled (updateDistances hypot (preResample s samp' x) x) x true).base =
        (preResample s samp' x).base := by
      rw [updateRescaled_base]; rfl
    have hsx : (updateRescaled (updateDistances hypot (preResample s samp' x) x) x true).samp = samp' := by
      rw [updateRescaled_samp]; rfl
    refine ⟨?_, ?_, ?_, ?_, ?_, ?_, ?_⟩
    · rw [hb]; exact h.xs_sorted
    · intro z
      rw [hb, hsm]
      show z ∈ s.base.xs ↔ _
      by_cases hz : x = z
      · subst hz; exact ⟨fun _ => hsome, fun _ => hxm⟩
      · rw [hother z hz]; exact h.xs_mem z
    · intro z
      rw [hb, hsm]
      show L1D.dataGet (dataPut s.base.data x [meanIn samp' x]) z = _
      by_cases hz : z = x
      · subst hz
        rw [dataGet_dataPut_self]
        obtain ⟨p', hp'⟩ := Option.isSome_iff_exists.1 hsome
        unfold meanIn
        rw [hp']; rfl
      · rw [dataGet_dataPut_ne _ _ hz, hother z (fun e => hz e.symm)]
        exact h.data_sync z
    · intro a b hab
      rw [hb] at hab
      have := hD3 a b (by rw [hbx]; exact hab)
      rw [hdi]
      unfold yOf at this ⊢
      rw [hb]; rw [hbx] at this
      exact this
    · intro e he
      rw [hb]
      have he3 := (mem_popCheck_resc he).1
      rcases mem_rkeys_updateRescaled (List.mem_map.2 ⟨e, he3, rfl⟩) with h1 | h1
      · rw [h1]; exact hxm
      · obtain ⟨f, hf, hfe⟩ := List.mem_map.1 h1
        rw [← hfe]; exact h.resc_mem f hf
    · intro e he
      have he3 := (mem_popCheck_resc he).1
      rw [rescSpec_congr (s := updateRescaled (updateDistances hypot (preResample s samp' x) x) x true)
        (by rw [popCheck_base]) (by rw [popCheck_samp]) (by rw [popCheck_dist])]
      exact hR3 e he3
    · intro e he
      obtain ⟨he3, hpop⟩ := mem_popCheck_resc he
      have hnF : ∀ z, nOf (popCheck (updateRescaled (updateDistances hypot (preResample s samp' x) x) x true) x) z =
          nOf (preResample s samp' x) z := by
        intro z; unfold nOf; rw [hsm]; rfl
      rw [hnF, hsm, hmax]
      by_cases hex : e.1 = x
      · left
        have := hpop hex
        rw [hsx, hmax] at this
        rw [hex]
        have hn3 : nOf (updateRescaled (updateDistances hypot (preResample s samp' x) x) x true) x =
            nOf (preResample s samp' x) x := by unfold nOf; rw [hsx]; rfl
        rw [hn3] at this
        exact this
      · rw [hn1 e.1 hex]
        rcases mem_rkeys_updateRescaled (List.mem_map.2 ⟨e, he3, rfl⟩) with h1 | h1
        · exact absurd h1 hex
        · obtain ⟨f, hf, hfe⟩ := List.mem_map.1 h1
          rw [← hfe]; exact h.resc_cnt f hf
  refine h4.congr ?_ ?_ ?_ rfl rfl
  · rw [afterResample_xs, popCheck_base, updateRescaled_base]; rfl
  · rw [afterResample_data, popCheck_base, updateRescaled_base]; rfl
  · rw [afterResample_samp, popCheck_samp, updateRescaled_samp]; rfl

/-- the state `tellNew` hands to `_update_distances` -/
def preNew (s : State α) (seed : Nat) (x y : α) : State α :=
  { s with
    base := maybeRescaleLive lossFn r12 (L1D.updateLosses lossFn r12
      (L1D.updateScale { s.base with data := s.base.data ++ [(x, [y])],
                                      xsC := L1D.sinsert x s.base.xsC,
                                      xs := L1D.sinsert x s.base.xs } x [y]) x true),
    samp := Avg1D.tell sqrt tq s.samp seed x y,
    resc := rset x .inf s.resc }

theorem tellNew_eq (s : State α) (seed : Nat) (x y : α) :
    tellNew lossFn r12 sqrt tq hypot s seed x y =
      updateRescaled (updateDistances hypot (preNew lossFn r12 sqrt tq s seed x y) x) x false := rfl

theorem preNew_xs (s : State α) (seed : Nat) (x y : α) :
    (preNew lossFn r12 sqrt tq s seed x y).base.xs = L1D.sinsert x s.base.xs := by
  unfold preNew
  dsimp only
  rw [maybeRescaleLive_xs, updateLosses_xs]
  rfl

theorem preNew_data (s : State α) (seed : Nat) (x y : α) :
    (preNew lossFn r12 sqrt tq s seed x y).base.data = s.base.data ++ [(x, [y])] := by
  unfold preNew
  dsimp only
  rw [maybeRescaleLive_data, updateLosses_data]
  rfl

theorem tell_maxSamples (t : Avg1D.State α) (seed : Nat) (x y : α) :
    (Avg1D.tell sqrt tq t seed x y).maxSamples = t.maxSamples := by
  cases hf : Avg1D.find? t x with
  | none => rw [Avg1D.tell_new sqrt tq t seed x y hf]
  | some p =>
    by_cases hk : seed ∈ p.samples.map Prod.fst
    · rw [Avg1D.tell_known sqrt tq t seed x y p hf hk]
    · obtain ⟨u, -, e⟩ := Avg1D.tell_resample sqrt tq t seed x y p hf hk
      rw [e]

theorem tellMany_maxSamples (t : Avg1D.State α) (x : α) (m : List (Nat × α)) :
    (Avg1D.tellManyAtPoint sqrt tq t x m).maxSamples = t.maxSamples := by
  cases m with
  | nil => rw [Avg1D.tellMany_nil]
  | cons kv rest =>
    cases hf : Avg1D.find? t x with
    | some p => rw [Avg1D.tellMany_some_cons sqrt tq t x p kv rest hf]; rfl
    | none =>
      obtain ⟨seed, y⟩ := kv
      rw [Avg1D.tellMany_none_cons sqrt tq t x seed y rest hf]
      have h1 := Avg1D.find?_tell_new sqrt tq t seed x y hf
      cases rest with
      | nil => rw [Avg1D.tellMany_nil]; exact tell_maxSamples sqrt tq t seed x y
      | cons kv2 rest2 =>
        rw [Avg1D.tellMany_some_cons sqrt tq _ x _ kv2 rest2 h1]
        exact tell_maxSamples sqrt tq t seed x y

theorem finv_tellNew {s : State α} (h : FInv hypot s) (seed : Nat) (x y : α)
    (hnew : Avg1D.find? s.samp x = none) :
    FInv hypot (tellNew lossFn r12 sqrt tq hypot s seed x y) := by
  rw [tellNew_eq]
  have hxs : (preNew lossFn r12 sqrt tq s seed x y).base.xs = L1D.sinsert x s.base.xs :=
    preNew_xs lossFn r12 sqrt tq s seed x y
  have hdata : (preNew lossFn r12 sqrt tq s seed x y).base.data = s.base.data ++ [(x, [y])] :=
    preNew_data lossFn r12 sqrt tq s seed x y
  have hsamp : (preNew lossFn r12 sqrt tq s seed x y).samp = Avg1D.tell sqrt tq s.samp seed x y := rfl
  have hresc : (preNew lossFn r12 sqrt tq s seed x y).resc = rset x .inf s.resc := rfl
  have hdist : (preNew lossFn r12 sqrt tq s seed x y).dist = s.dist := rfl
  have hxn : x ∉ s.base.xs := by
    intro hx
    have := (h.xs_mem x).1 hx
    rw [hnew] at this; cases this
  have hsorted : (preNew lossFn r12 sqrt tq s seed x y).base.xs.Pairwise (· < ·) := by
    rw [hxs]; exact L1D.sorted_sinsert h.xs_sorted
  have hxm : x ∈ (preNew lossFn r12 sqrt tq s seed x y).base.xs := by
    rw [hxs]; exact L1D.mem_sinsert.2 (Or.inl rfl)
  have hnb : nbrs (preNew lossFn r12 sqrt tq s seed x y) x = nbrs s x := by
    unfold nbrs L1D.findNeighbors
    rw [hxs, L1D.leftOf_sinsert h.xs_sorted, L1D.rightOf_sinsert h.xs_sorted]
  have hfx : Avg1D.find? (preNew lossFn r12 sqrt tq s seed x y).samp x = some (Avg1D.newPt x seed y) := by
    rw [hsamp]; exact Avg1D.find?_tell_new sqrt tq s.samp seed x y hnew
  have hfo : ∀ z, z ≠ x → Avg1D.find? (preNew lossFn r12 sqrt tq s seed x y).samp z = Avg1D.find? s.samp z := by
    intro z hz
    rw [hsamp]; exact Avg1D.find?_tell_other sqrt tq s.samp seed x y z (fun e => hz e.symm)
  have hy1 : ∀ z, z ≠ x → yOf (preNew lossFn r12 sqrt tq s seed x y) z = yOf s z := by
    intro z hz
    unfold yOf
    rw [hdata, dataGet_append_ne _ _ hz]
  have he1 : ∀ z, z ≠ x → errOf (preNew lossFn r12 sqrt tq s seed x y) z = errOf s z := by
    intro z hz; unfold errOf; rw [hfo z hz]
  have hn1 : ∀ z, z ≠ x → nOf (preNew lossFn r12 sqrt tq s seed x y) z = nOf s z := by
    intro z hz; unfold nOf; rw [hfo z hz]
  have hex : errOf (preNew lossFn r12 sqrt tq s seed x y) x = none := by
    unfold errOf; rw [hfx]; rfl
  have hnx : nOf (preNew lossFn r12 sqrt tq s seed x y) x = 1 := by
    unfold nOf; rw [hfx]; rfl
  -- entries of the container before the repair
  have hmem1 : ∀ e ∈ (preNew lossFn r12 sqrt tq s seed x y).resc, e = (x, Loss.inf) ∨ (e ∈ s.resc ∧ e.1 ≠ x) := by
    intro e he; rw [hresc] at he; exact mem_rset.1 he
  have hK : ∀ e ∈ (preNew lossFn r12 sqrt tq s seed x y).resc, e.1 ∈ (preNew lossFn r12 sqrt tq s seed x y).base.xs := by
    intro e he
    rw [hxs]
    rcases hmem1 e he with rfl | ⟨h1, _⟩
    · exact L1D.mem_sinsert.2 (Or.inl rfl)
    · exact L1D.mem_sinsert.2 (Or.inr (h.resc_mem e h1))
  obtain ⟨hD3, hR3⟩ := repair hypot (s := preNew lossFn r12 sqrt tq s seed x y) hsorted hxm false hK
    (by
      intro a b hab hax hbx
      rw [hxs] at hab
      rcases (L1D.mem_pairs_sinsert' h.xs_sorted).1 hab with ⟨h1, _⟩ | ⟨_, h2⟩ | ⟨h2, _⟩
      · rw [hy1 a hax, hy1 b hbx, hdist]
        exact h.dist_ok a b h1
      · exact absurd h2 hbx
      · exact absurd h2 hax)
    (by
      intro e he hex' hl hr
      rcases hmem1 e he with rfl | ⟨h1, _⟩
      · exact absurd rfl hex'
      · have hem : e.1 ∈ s.base.xs := h.resc_mem e h1
        rw [h.resc_ok e h1]
        symm
        refine rescSpec_local (s := s) (s' := preNew lossFn r12 sqrt tq s seed x y) ?_ (he1 e.1 hex') rfl
          (fun _ _ => rfl)
        rw [hnb] at hr hl
        unfold nbrs L1D.findNeighbors
        rw [hxs, L1D.leftOf_sinsert_other h.xs_sorted hem hxn hr,
          L1D.rightOf_sinsert_other h.xs_sorted hem hxn hl])
    (by
      intro e he hex'
      rcases hmem1 e he with rfl | ⟨h1, h2⟩
      · exact Or.inr ⟨rfl, Or.inl hex⟩
      · exact absurd hex' h2)
  have hb3 : (updateRescaled (updateDistances hypot (preNew lossFn r12 sqrt tq s seed x y) x) x false).base =
      (preNew lossFn r12 sqrt tq s seed x y).base := by rw [updateRescaled_base]; rfl
  have hs3 : (updateRescaled (updateDistances hypot (preNew lossFn r12 sqrt tq s seed x y) x) x false).samp =
      Avg1D.tell sqrt tq s.samp seed x y := by rw [updateRescaled_samp]; rfl
  have hkeys : ∀ e ∈ (updateRescaled (updateDistances hypot (preNew lossFn r12 sqrt tq s seed x y) x) x false).resc,
      e.1 = x ∨ e.1 ∈ rkeys s.resc := by
    intro e he
    rcases mem_rkeys_updateRescaled (List.mem_map.2 ⟨e, he, rfl⟩) with h1 | h1
    · exact Or.inl h1
    · have h1' : e.1 ∈ rkeys (rset x Loss.inf s.resc) := h1
      rcases mem_rkeys_rset.1 h1' with h2 | h2
      · exact Or.inl h2
      · exact Or.inr h2
  refine ⟨?_, ?_, ?_, hD3, ?_, hR3, ?_⟩
  · rw [hb3]; exact hsorted
  · intro z
    rw [hb3, hs3, hxs, L1D.mem_sinsert]
    by_cases hz : z = x
    · subst hz
      exact ⟨fun _ => Avg1D.find?_tell_isSome sqrt tq s.samp seed z y, fun _ => Or.inl rfl⟩
    · rw [Avg1D.find?_tell_other sqrt tq s.samp seed x y z (fun e => hz e.symm), ← h.xs_mem z]
      exact ⟨fun h1 => h1.resolve_left hz, Or.inr⟩
  · intro z
    rw [hb3, hs3, hdata]
    by_cases hz : z = x
    · subst hz
      rw [dataGet_append_self, Avg1D.find?_tell_new sqrt tq s.samp seed z y hnew]
      · rfl
      · rw [h.data_sync z, hnew]; rfl
    · rw [dataGet_append_ne _ _ hz, Avg1D.find?_tell_other sqrt tq s.samp seed x y z (fun e => hz e.symm)]
      exact h.data_sync z
  · intro e he
    rw [hb3, hxs]
    rcases hkeys e he with h1 | h1
    · rw [h1]; exact L1D.mem_sinsert.2 (Or.inl rfl)
    · obtain ⟨f, hf, hfe⟩ := List.mem_map.1 h1
      rw [← hfe]; exact L1D.mem_sinsert.2 (Or.inr (h.resc_mem f hf))
  · intro e he
    have hnF : ∀ z, nOf (updateRescaled (updateDistances hypot (preNew lossFn r12 sqrt tq s seed x y) x) x false) z =
        nOf (preNew lossFn r12 sqrt tq s seed x y) z := by
      intro z; unfold nOf; rw [hs3]; rfl
    rw [hnF, hs3, tell_maxSamples]
    by_cases hex' : e.1 = x
    · right; rw [hex']; exact hnx
    · rw [hn1 e.1 hex']
      rcases hkeys e he with h1 | h1
      · exact absurd h1 hex'
      · obtain ⟨f, hf, hfe⟩ := List.mem_map.1 h1
        rw [← hfe]; exact h.resc_cnt f hf

theorem find?_tellMany_isSome (t : Avg1D.State α) (x : α) (m : List (Nat × α))
    (hf : (Avg1D.find? t x).isSome = true) :
    (Avg1D.find? (Avg1D.tellManyAtPoint sqrt tq t x m) x).isSome = true := by
  cases m with
  | nil => rw [Avg1D.tellMany_nil]; exact hf
  | cons kv rest =>
    obtain ⟨p, hp⟩ := Option.isSome_iff_exists.1 hf
    rw [Avg1D.tellMany_some_cons sqrt tq t x p kv rest hp, Avg1D.find?_batchState sqrt tq t x p _ hp]
    rfl

theorem finv_tell {s : State α} (h : FInv hypot s) (seed : Nat) (x y : α) :
    FInv hypot (tell lossFn r12 sqrt tq hypot s seed x y) := by
  unfold tell
  dsimp only
  cases hf : Avg1D.find? s.samp x with
  | none =>
    exact (finv_tellNew lossFn r12 sqrt tq hypot h seed x y hf).congr rfl rfl rfl rfl rfl
  | some p =>
    dsimp only
    by_cases hk : p.samples.any (fun sy => sy.1 == seed) = true
    · rw [if_pos hk]
      exact h.congr rfl rfl rfl rfl rfl
    · rw [if_neg hk]
      refine (finv_afterResample lossFn r12 hypot h (Avg1D.tell sqrt tq s.samp seed x y) x [y]
        (by rw [hf]; rfl) (Avg1D.find?_tell_isSome sqrt tq s.samp seed x y)
        (fun z hz => Avg1D.find?_tell_other sqrt tq s.samp seed x y z hz)
        (tell_maxSamples sqrt tq s.samp seed x y)).congr rfl rfl rfl rfl rfl

theorem finv_tellManyAtPoint {s : State α} (h : FInv hypot s) (x : α) (m : List (Nat × α)) :
    FInv hypot (tellManyAtPoint lossFn r12 sqrt tq hypot s x m) := by
  unfold tellManyAtPoint
  dsimp only
  have h0 : FInv hypot { s with pend := m.foldl (fun l kv => pendErase l kv.1 x) s.pend } :=
    h.congr rfl rfl rfl rfl rfl
  cases hf : Avg1D.find? s.samp x with
  | none =>
    cases m with
    | nil => exact h0
    | cons kv rest =>
      obtain ⟨seed, y⟩ := kv
      have h1 := finv_tellNew lossFn r12 sqrt tq hypot h0 seed x y hf
      cases rest with
      | nil => exact h1
      | cons kv2 rest2 =>
        dsimp only
        have hx1 : (Avg1D.find? (tellNew lossFn r12 sqrt tq hypot
            { s with pend := ((seed, y) :: kv2 :: rest2).foldl (fun l kv => pendErase l kv.1 x) s.pend }
            seed x y).samp x).isSome = true := by
          rw [tellNew_samp]; exact Avg1D.find?_tell_isSome sqrt tq s.samp seed x y
        exact finv_afterResample lossFn r12 hypot h1 _ x _ hx1
          (find?_tellMany_isSome sqrt tq _ x _ hx1)
          (fun z hz => Avg1D.find?_tellMany_other sqrt tq _ x z _ hz)
          (tellMany_maxSamples sqrt tq _ x _)
  | some p =>
    cases m with
    | nil => exact h0
    | cons kv rest =>
      dsimp only
      have hx0 : (Avg1D.find? ({ s with pend := (kv :: rest).foldl (fun l kv => pendErase l kv.1 x) s.pend } :
          State α).samp x).isSome = true := by
        show (Avg1D.find? s.samp x).isSome = true
        rw [hf]; rfl
      exact finv_afterResample lossFn r12 hypot h0 _ x _ hx0
        (find?_tellMany_isSome sqrt tq _ x _ hx0)
        (fun z hz => Avg1D.find?_tellMany_other sqrt tq _ x z _ hz)
        (tellMany_maxSamples sqrt tq _ x _)

theorem finv_tellPending {s : State α} (h : FInv hypot s) (seed : Nat) (x : α) :
    FInv hypot (tellPending lossFn r12 s seed x) :=
  h.congr (tellPending_xs lossFn r12 s seed x) (tellPending_data lossFn r12 s seed x)
    (tellPending_samp lossFn r12 s seed x) (tellPending_dist lossFn r12 s seed x)
    (tellPending_resc lossFn r12 s seed x)

theorem finv_foldl_tellPending (pts : List (Nat × α)) {s : State α} (h : FInv hypot s) :
    FInv hypot (pts.foldl (fun s p => tellPending lossFn r12 s p.1 p.2) s) := by
  induction pts generalizing s with
  | nil => exact h
  | cons p ps ih => exact ih (finv_tellPending lossFn r12 hypot h p.1 p.2)

theorem finv_step {s : State α} (h : FInv hypot s) (op : Op α) (hop : ∀ pts, op ≠ .tellMany pts) :
    FInv hypot (step lossFn r12 sqrt tq hypot s op) := by
  cases op with
  | tell seed x y => exact finv_tell lossFn r12 sqrt tq hypot h seed x y
  | tellPending seed x => exact finv_tellPending lossFn r12 hypot h seed x
  | tellMany pts => exact absurd rfl (hop pts)
  | tellManyAtPoint x m => exact finv_tellManyAtPoint lossFn r12 sqrt tq hypot h x m
  | removeUnfinished => exact h.congr rfl rfl rfl rfl rfl
  | ask n c commit =>
    show FInv hypot (match ask lossFn r12 sqrt s n c commit with
      | some r => r.2
      | none => s)
    unfold ask
    cases askPts r12 sqrt s n c with
    | none => exact h
    | some q =>
      dsimp only [Option.map_some]
      split
      · exact finv_foldl_tellPending lossFn r12 hypot _ h
      · exact h

theorem finv_run {s : State α} (h : FInv hypot s) (ops : List (Op α)) :
    FInv hypot (run lossFn r12 sqrt tq hypot s ops) := by
  rw [run_expandOps]
  have hn := noTellMany_expandOps ops
  generalize expandOps ops = l at hn
  induction l generalizing s with
  | nil => exact h
  | cons op l ih =>
    exact ih (finv_step lossFn r12 sqrt tq hypot h op (hn op List.mem_cons_self))
      (fun o ho => hn o (List.mem_cons_of_mem _ ho))

theorem finv_init (lo hi factor dxEps : α) (nn : Nat) (delta minError : α) (minS maxS : Nat) (ns : α) :
    FInv hypot (init lo hi factor dxEps nn delta minError minS maxS ns) := by
  refine ⟨List.Pairwise.nil, ?_, ?_, ?_, ?_, ?_, ?_⟩
  · intro x; simp [init, L1D.init, Avg1D.find?]
  · intro x; simp [init, L1D.init, Avg1D.find?, L1D.dataGet]
  · intro a b hab; simp [init, L1D.init, L1D.pairs] at hab
  · intro e he; simp [init] at he
  · intro e he; simp [init] at he
  · intro e he; simp [init] at he

/-- `error[x]` divided by the smaller of the distances (in the x–y plane, between the running
means) to the neighbouring evaluated abscissae; infinite for the only abscissa and while
`error[x]` is infinite (one sample) -/
def rescIdeal (s : State α) (x : α) : Loss α :=
  match nbrs s x with
  | (none, none) => .inf
  | (some l, none) => errDiv (errOf s x) (hypot (x - l) (yOf s x - yOf s l))
  | (none, some r) => errDiv (errOf s x) (hypot (r - x) (yOf s r - yOf s x))
  | (some l, some r) => errDiv (errOf s x)
      (min (hypot (x - l) (yOf s x - yOf s l)) (hypot (r - x) (yOf s r - yOf s x)))

theorem rescSpec_eq_ideal {s : State α} (h : FInv hypot s) {x : α} (hx : x ∈ s.base.xs) :
    rescSpec s x = rescIdeal hypot s x := by
  have hL : ∀ l, (nbrs s x).1 = some l → dgetD s.dist l = hypot (x - l) (yOf s x - yOf s l) := by
    intro l hl
    unfold dgetD
    rw [h.dist_ok l x ((L1D.pairs_left_iff h.xs_sorted hx).2 hl)]; rfl
  have hR : ∀ r, (nbrs s x).2 = some r → dgetD s.dist x = hypot (r - x) (yOf s r - yOf s x) := by
    intro r hr
    unfold dgetD
    rw [h.dist_ok x r ((L1D.pairs_right_iff h.xs_sorted hx).2 hr)]; rfl
  unfold rescSpec rescIdeal
  rcases hnb : nbrs s x with ⟨_ | l, _ | r⟩
  · rfl
  · dsimp only; rw [hR r (by rw [hnb])]
  · dsimp only; rw [hL l (by rw [hnb])]
  · dsimp only; rw [hL l (by rw [hnb]), hR r (by rw [hnb]), minA_eq_min]

end steps

end Avg1DFull
