import AdaptiveProofs.Lemmas.RunnerData
import AdaptiveProofs.Lemmas.RunnerExit
import AdaptiveProofs.Lemmas.RunnerLog
import AdaptiveProofs.Lemmas.SeqExt

/-!
Entry point for the runner properties (C05, C06, C19): the invariants of
`RunnerData` (bookkeeping), `RunnerBound` (in-flight bound), `RunnerExit` (exit) and
`RunnerLog` (log), and the consequences of the bookkeeping invariant used by C06.
-/
namespace Runner

variable {cfg : Cfg} {pend idp rty : List (Nat × Nat)} {tb : List Nat} {nid nfut : Nat}
  {tr : List Call}

theorem Core.pend_tell (h : Core cfg pend idp rty tb nid nfut tr) {pid : Nat}
    (hp : pid ∈ pend.map Prod.snd) : nTell pid tr = 0 := by
  obtain ⟨⟨f, p⟩, hm, rfl⟩ := List.mem_map.1 hp
  obtain ⟨_, x, hx, _⟩ := h.pend_spec f p hm
  exact h.tell_id p x hx

theorem Core.tell_of_isSome (h : Core cfg pend idp rty tb nid nfut tr) {pid : Nat}
    (hp : (aget pid idp).isSome = true) : nTell pid tr = 0 := by
  obtain ⟨x, hx⟩ := Option.isSome_iff_exists.1 hp
  exact h.tell_id pid x hx

/-- C06.a on the invariant -/
theorem Core.nSubmit_le (h : Core cfg pend idp rty tb nid nfut tr) (pid : Nat) :
    nSubmit pid tr ≤ cfg.retries + 1 := by
  have hc := h.count pid
  have hl := h.tell_le pid
  by_cases hp : pid ∈ pend.map Prod.snd
  · have ht := h.pend_tell hp
    obtain ⟨⟨f, p⟩, hm, e⟩ := List.mem_map.1 hp
    simp only at e; subst e
    have := (h.pend_fail hm).2
    simp only [hp, if_true] at hc
    omega
  · simp only [hp, if_false] at hc
    cases hr : aget pid rty with
    | some c =>
      obtain ⟨a, _, b, d⟩ := h.rty_spec pid c hr
      have := h.tell_of_isSome d
      omega
    | none =>
      rcases h.nr_spec pid hr with a | ⟨a, b⟩ | ⟨a, _, d⟩
      · omega
      · omega
      · have := h.tell_of_isSome d
        omega

theorem Core.nFail_le (h : Core cfg pend idp rty tb nid nfut tr) (pid : Nat) :
    nFail pid tr ≤ cfg.retries + 1 := by
  cases hr : aget pid rty with
  | some c =>
    obtain ⟨a, _, b, _⟩ := h.rty_spec pid c hr
    omega
  | none =>
    rcases h.nr_spec pid hr with a | ⟨_, b⟩ | ⟨a, _, _⟩ <;> omega

/-- C06.d on the invariant -/
theorem Core.failed_iff (h : Core cfg pend idp rty tb nid nfut tr) (pid : Nat) :
    (pid ∈ tb ∧ aget pid rty = none) ↔ cfg.retries < nFail pid tr := by
  rw [h.tb_spec pid]
  constructor
  · rintro ⟨⟨a, b⟩, hr⟩
    have := h.tell_of_isSome b
    rcases h.nr_spec pid hr with c | ⟨c, _⟩ | ⟨c, _, _⟩ <;> omega
  · intro hgt
    cases hr : aget pid rty with
    | some c =>
      obtain ⟨a, _, b, _⟩ := h.rty_spec pid c hr
      omega
    | none =>
      rcases h.nr_spec pid hr with c | ⟨_, c⟩ | ⟨c, _, d⟩
      · omega
      · omega
      · exact ⟨⟨by omega, d⟩, rfl⟩

theorem Core.failed_facts (h : Core cfg pend idp rty tb nid nfut tr) {pid : Nat}
    (ht : pid ∈ tb) (hr : aget pid rty = none) :
    (aget pid idp).isSome = true ∧ pid ∉ pend.map Prod.snd ∧ nTell pid tr = 0 := by
  obtain ⟨a, b⟩ := (h.tb_spec pid).1 ht
  have := h.tell_of_isSome b
  refine ⟨b, ?_, this⟩
  rcases h.nr_spec pid hr with c | ⟨c, _⟩ | ⟨_, c, _⟩
  · omega
  · omega
  · exact c

theorem mem_failed {s : State} {pid : Nat} :
    pid ∈ failed s ↔ pid ∈ s.tracebacks ∧ aget pid s.toRetry = none := by
  simp [failed, List.mem_filter]

end Runner
