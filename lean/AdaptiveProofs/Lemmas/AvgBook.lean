import AdaptiveProofs.Lemmas.Avg
import Mathlib.Data.List.Dedup

/-!
# AverageLearner model: telling is faithful bookkeeping (C10) and the data round trip (C13)

* B.1 `tell_known_noop`, `tellPending_known_noop`: `tell` / `tell_pending` on a seed that has a
      value change nothing; `tell_tellPending_tell`: neither does a re-tell after the seed was
      re-marked pending in between.
* B.2 `firstTold`, `data_is_first_told`, `hasKey_iff_told`, `npoints_eq_distinct_told`.
* B.3 `told_not_pending*` — for EVERY op list (invariant `PInv`: no seed is both in `data` and in
      `pending`).  Before the repair `fix: AverageLearner.tell_pending marked an already evaluated
      seed as pending` `tell_pending(n)` of the code was a bare `pending_points.add(n)`, an explicit
      `tell_pending` of a seed with a value made it pending-and-known for ever, and B.3 needed the
      proviso "valid history" (`ValidOp`/`ValidOps`, deleted now).  The former counterexample is a
      positive example below.
* B.4 `askCommit_marks_pending` (of the seeds without a value: `tell_pending` ignores the others),
      `ask_marks_pending` (whatever `ask` returns: `askPoints_valid`), `pending_stays_step`,
      `pending_stays_run`.
* B.5 `removeUnfinished_spec` (`sqrt` arbitrary).
* D   `getData`, `setData`, `setData_getData*`.
-/
set_option linter.unusedSectionVars false
namespace Avg
variable {α : Type}

/-- `data.get(k)` (the first entry of the key; keys are distinct in reachable states) -/
def dataGet (d : List (Nat × α)) (k : Nat) : Option α :=
  (d.find? (fun kv => kv.1 == k)).map Prod.snd

/-- the value an operation tells for seed `k` -/
def toldBy (k : Nat) : Op α → Option α
  | .tell k' v => if k' = k then some v else none
  | _ => none

/-- the value of the first `tell k _` along the op list -/
def firstTold : List (Op α) → Nat → Option α
  | [], _ => none
  | op :: ops, k => (toldBy k op).or (firstTold ops k)

/-- the told seeds along the op list, with repetitions -/
def toldSeeds : List (Op α) → List Nat
  | [] => []
  | .tell k _ :: ops => k :: toldSeeds ops
  | _ :: ops => toldSeeds ops

theorem dataGet_isSome (d : List (Nat × α)) (k : Nat) : (dataGet d k).isSome = hasKey k d := by
  unfold dataGet hasKey
  rw [Option.isSome_map, Bool.eq_iff_iff, List.find?_isSome, List.any_eq_true]

theorem dataGet_append (d e : List (Nat × α)) (k : Nat) :
    dataGet (d ++ e) k = (dataGet d k).or (dataGet e k) := by
  unfold dataGet
  rw [List.find?_append]
  cases d.find? (fun kv => kv.1 == k) <;> rfl

theorem dataGet_singleton (k k' : Nat) (v : α) :
    dataGet [(k', v)] k = if k' = k then some v else none := by
  unfold dataGet
  by_cases h : k' = k
  · simp [h]
  · simp [h]

theorem firstTold_isSome_iff (ops : List (Op α)) (k : Nat) :
    (firstTold ops k).isSome = true ↔ k ∈ toldSeeds ops := by
  induction ops with
  | nil => simp [firstTold, toldSeeds]
  | cons op ops ih =>
    cases op with
    | tell k' v =>
      simp only [firstTold, toldBy, toldSeeds, List.mem_cons]
      by_cases h : k' = k
      · simp [h]
      · rw [if_neg h, Option.none_or, ih]
        constructor
        · exact Or.inr
        · rintro (h' | h')
          · exact absurd h'.symm h
          · exact h'
    | tellPending k' => simpa [firstTold, toldBy, toldSeeds] using ih
    | removeUnfinished => simpa [firstTold, toldBy, toldSeeds] using ih
    | askCommit pts => simpa [firstTold, toldBy, toldSeeds] using ih

theorem mem_toldSeeds {ops : List (Op α)} {k : Nat} :
    k ∈ toldSeeds ops ↔ ∃ v, Op.tell k v ∈ ops := by
  induction ops with
  | nil => simp [toldSeeds]
  | cons op ops ih =>
    cases op with
    | tell k' v =>
      simp only [toldSeeds, List.mem_cons, ih]
      constructor
      · rintro (rfl | ⟨w, hw⟩)
        · exact ⟨v, Or.inl rfl⟩
        · exact ⟨w, Or.inr hw⟩
      · rintro ⟨w, hw | hw⟩
        · injection hw with h1 h2; exact Or.inl h1
        · exact Or.inr ⟨w, hw⟩
    | tellPending k' => simp [toldSeeds, ih]
    | removeUnfinished => simp [toldSeeds, ih]
    | askCommit pts => simp [toldSeeds, ih]

section ops
variable [Add α] [Mul α]

/-! ## B.1 -/

/-- telling a seed that already has a value — with the same or a different value — leaves the whole
state unchanged -/
theorem tell_known_noop {s : State α} {k : Nat} (v : α) (h : hasKey k s.data = true) :
    tell s k v = s := by
  unfold tell
  rw [if_pos h]

/-! ## the action of every operation on `data` and `pending` -/

theorem tell_data (s : State α) (k : Nat) (v : α) :
    (tell s k v).data = if hasKey k s.data then s.data else s.data ++ [(k, v)] := by
  unfold tell
  split <;> rfl

theorem tell_pending (s : State α) (k : Nat) (v : α) :
    (tell s k v).pending = if hasKey k s.data then s.pending else s.pending.erase k := by
  unfold tell
  split <;> rfl

/-- `tell_pending` of a seed that already has a value changes nothing -/
theorem tellPending_known_noop {s : State α} {k : Nat} (h : hasKey k s.data = true) :
    tellPending s k = s := by
  unfold tellPending
  rw [if_pos h]

theorem tellPending_data (s : State α) (k : Nat) : (tellPending s k).data = s.data := by
  unfold tellPending
  split
  · rfl
  · split <;> rfl

theorem foldl_tellPending_data (pts : List Nat) (s : State α) :
    (pts.foldl tellPending s).data = s.data := by
  induction pts generalizing s with
  | nil => rfl
  | cons p ps ih => rw [List.foldl_cons, ih, tellPending_data]

/-- the pending seeds after `tell_pending(k)`: `k` joins them iff it has no value -/
theorem mem_tellPending_pending (s : State α) (k j : Nat) :
    j ∈ (tellPending s k).pending ↔ (j = k ∧ hasKey k s.data = false) ∨ j ∈ s.pending := by
  unfold tellPending
  split
  · rename_i h
    constructor
    · exact Or.inr
    · rintro (⟨-, h'⟩ | h')
      · rw [h] at h'; exact absurd h' (by decide)
      · exact h'
  · rename_i h
    rw [Bool.not_eq_true] at h
    split
    · rename_i hk
      constructor
      · exact Or.inr
      · rintro (⟨rfl, -⟩ | h')
        · exact hk
        · exact h'
    · show j ∈ k :: s.pending ↔ _
      rw [List.mem_cons]
      constructor
      · rintro (h' | h')
        · exact Or.inl ⟨h', h⟩
        · exact Or.inr h'
      · rintro (⟨h', -⟩ | h')
        · exact Or.inl h'
        · exact Or.inr h'

/-- the pending seeds after a committing `ask` that returned `pts` (`tell_pending` never changes
`data`, so the test "has no value" refers to the state before) -/
theorem mem_foldl_tellPending_pending (pts : List Nat) (s : State α) (j : Nat) :
    j ∈ (pts.foldl tellPending s).pending ↔ (j ∈ pts ∧ hasKey j s.data = false) ∨ j ∈ s.pending := by
  induction pts generalizing s with
  | nil => simp
  | cons p ps ih =>
    rw [List.foldl_cons, ih, mem_tellPending_pending, tellPending_data, List.mem_cons]
    constructor
    · rintro (⟨h, hd⟩ | ⟨rfl, hd⟩ | h)
      · exact Or.inl ⟨Or.inr h, hd⟩
      · exact Or.inl ⟨Or.inl rfl, hd⟩
      · exact Or.inr h
    · rintro (⟨rfl | h, hd⟩ | h)
      · exact Or.inr (Or.inl ⟨rfl, hd⟩)
      · exact Or.inl ⟨h, hd⟩
      · exact Or.inr (Or.inr h)

theorem tellPending_nodup {s : State α} (h : s.pending.Nodup) (k : Nat) :
    (tellPending s k).pending.Nodup := by
  unfold tellPending
  split
  · exact h
  · split
    · exact h
    · rename_i hk; exact List.nodup_cons.2 ⟨hk, h⟩

theorem foldl_tellPending_nodup (pts : List Nat) {s : State α} (h : s.pending.Nodup) :
    (pts.foldl tellPending s).pending.Nodup := by
  induction pts generalizing s with
  | nil => exact h
  | cons p ps ih => exact ih (tellPending_nodup h p)

theorem hasKey_append_singleton (d : List (Nat × α)) (k j : Nat) (v : α) :
    hasKey j (d ++ [(k, v)]) = (hasKey j d || k == j) := by
  unfold hasKey
  rw [List.any_append]
  simp

theorem hasKey_tell_self (s : State α) (k : Nat) (v : α) : hasKey k (tell s k v).data = true := by
  rw [tell_data]
  split
  · assumption
  · rw [hasKey_append_singleton]; simp

/-- a re-tell after the seed was re-marked pending in between changes nothing either: for EVERY
state `s` (reachable or not), `tell_pending(k)` after `tell(k, v)` is ignored, and so is the second
`tell` -/
theorem tell_tellPending_tell (s : State α) (k : Nat) (v w : α) :
    tell (tellPending (tell s k v) k) k w = tell s k v := by
  rw [tellPending_known_noop (hasKey_tell_self s k v), tell_known_noop w (hasKey_tell_self s k v)]

/-! ## B.2 `data` holds the first value told for every seed -/

theorem dataGet_step (s : State α) (op : Op α) (k : Nat) :
    dataGet (step s op).data k = (dataGet s.data k).or (toldBy k op) := by
  cases op with
  | tell k' v =>
    show dataGet (tell s k' v).data k = _
    rw [tell_data]
    split
    · rename_i h
      show _ = (dataGet s.data k).or (if k' = k then some v else none)
      by_cases hk : k' = k
      · subst hk
        rw [← dataGet_isSome] at h
        obtain ⟨w, hw⟩ := Option.isSome_iff_exists.1 h
        rw [hw]; rfl
      · rw [if_neg hk, Option.or_none]
    · rw [dataGet_append, dataGet_singleton]; rfl
  | tellPending k' =>
    show dataGet (tellPending s k').data k = (dataGet s.data k).or none
    rw [tellPending_data, Option.or_none]
  | removeUnfinished =>
    show dataGet s.data k = (dataGet s.data k).or none
    rw [Option.or_none]
  | askCommit pts =>
    show dataGet (pts.foldl tellPending s).data k = (dataGet s.data k).or none
    rw [foldl_tellPending_data, Option.or_none]

/-- from any state: a stored value is kept, otherwise the first value told is stored -/
theorem dataGet_run (ops : List (Op α)) (s : State α) (k : Nat) :
    dataGet (run s ops).data k = (dataGet s.data k).or (firstTold ops k) := by
  induction ops generalizing s with
  | nil => show _ = (dataGet s.data k).or none; rw [Option.or_none]; rfl
  | cons op ops ih =>
    show dataGet (run (step s op) ops).data k = _
    rw [ih, dataGet_step, Option.or_assoc]; rfl

end ops

section field
variable [Field α] [LinearOrder α] [IsStrictOrderedRing α]

/-- **C10 / B.2**  After every run the value stored for seed `k` is the first value told for `k`. -/
theorem data_is_first_told (atol rtol : Option α) (m : Nat) (ops : List (Op α)) (k : Nat) :
    dataGet (run (init atol rtol m) ops).data k = firstTold ops k := by
  rw [dataGet_run]; rfl

/-- a seed has a value iff it was told at least once -/
theorem hasKey_iff_told (atol rtol : Option α) (m : Nat) (ops : List (Op α)) (k : Nat) :
    hasKey k (run (init atol rtol m) ops).data = true ↔ ∃ v, Op.tell k v ∈ ops := by
  rw [← dataGet_isSome, data_is_first_told, firstTold_isSome_iff, mem_toldSeeds]

/-- `npoints = len(data)` = the number of distinct told seeds -/
theorem npoints_eq_distinct_told (atol rtol : Option α) (m : Nat) (ops : List (Op α)) :
    (run (init atol rtol m) ops).npoints = (run (init atol rtol m) ops).data.length ∧
    (run (init atol rtol m) ops).data.length = (toldSeeds ops).dedup.length := by
  obtain ⟨-, -, h3, h4⟩ := momInv_run ops _ (momInv_init atol rtol m)
  refine ⟨h3, ?_⟩
  have hperm : ((run (init atol rtol m) ops).data.map Prod.fst).Perm (toldSeeds ops).dedup := by
    rw [List.perm_ext_iff_of_nodup h4 (List.nodup_dedup _)]
    intro k
    rw [List.mem_dedup, ← hasKey_iff, hasKey_iff_told, mem_toldSeeds]
  rw [← hperm.length_eq, List.length_map]

/-! ## B.3 a told seed is not pending — for every op list -/

/-- Before the repair `fix: AverageLearner.tell_pending marked an already evaluated seed as pending`
this history was the counterexample to B.3 (seed 0 ended up pending AND known, for ever): `tell`
returns early on a known seed, and `tell_pending(n)` was a bare `pending_points.add(n)`.  Now
`tell_pending` ignores a seed that has a value, and seed 0 is not pending at the end. -/
example :
    let s := run (init (none : Option Rat) none 2) [.tell 0 1, .tellPending 0, .tell 0 2]
    (0 ∉ s.pending ∧ hasKey 0 s.data = true ∧ s.pending = [] ∧ s.data = [(0, 1)]) := by decide

/-- whatever `ask(n)` returns are seeds without a value (and not pending) — used by B.4
(`ask_marks_pending`): `tell_pending` marks exactly such seeds -/
theorem askPoints_valid {s : State α} {n : Nat} {choice pts : List Nat}
    (h : askPoints s n choice = some pts) :
    ∀ p ∈ pts, hasKey p s.data = false ∧ p ∉ s.pending := by
  have hk : ∀ p ∈ pts, known s p = false := by
    unfold askPoints at h
    dsimp only at h
    split at h
    · split at h
      · rename_i hv
        injection h with h; subst h
        intro p hp
        exact mem_freeSeeds (((validChoice_iff s n choice).1 hv).2.2 p hp)
      · exact absurd h (by simp)
    · rename_i hn
      injection h with h; subst h
      intro p hp
      rw [Bool.not_eq_true, List.any_eq_false] at hn
      simpa using hn p hp
  intro p hp
  have := hk p hp
  unfold known at this
  rw [Bool.or_eq_false_iff] at this
  exact ⟨this.1, by simpa using this.2⟩

/-- no pending seed has a value; `pending` is duplicate-free -/
structure PInv (s : State α) : Prop where
  pend_nodata : ∀ k ∈ s.pending, hasKey k s.data = false
  pend_nodup : s.pending.Nodup

theorem pinv_init (atol rtol : Option α) (m : Nat) : PInv (init atol rtol m) :=
  ⟨fun _ hk => absurd hk List.not_mem_nil, List.nodup_nil⟩

theorem pinv_tell {s : State α} (h : PInv s) (k : Nat) (v : α) : PInv (tell s k v) := by
  unfold tell
  split
  · exact h
  · refine ⟨?_, h.pend_nodup.erase k⟩
    intro j hj
    have hj' : j ≠ k ∧ j ∈ s.pending := h.pend_nodup.mem_erase_iff.1 hj
    show hasKey j (s.data ++ [(k, v)]) = false
    rw [hasKey_append_singleton, h.pend_nodata j hj'.2]
    simpa using hj'.1.symm

/-- `tell_pending` keeps the invariant for EVERY seed: a seed that has a value is ignored -/
theorem pinv_tellPending {s : State α} (h : PInv s) (k : Nat) : PInv (tellPending s k) := by
  refine ⟨?_, tellPending_nodup h.pend_nodup k⟩
  intro j hj
  rw [tellPending_data]
  rcases (mem_tellPending_pending s k j).1 hj with ⟨rfl, hk⟩ | hj
  · exact hk
  · exact h.pend_nodata j hj

theorem pinv_foldl_tellPending (pts : List Nat) {s : State α} (h : PInv s) :
    PInv (pts.foldl tellPending s) := by
  induction pts generalizing s with
  | nil => exact h
  | cons p ps ih =>
    rw [List.foldl_cons]
    exact ih (pinv_tellPending h p)

theorem pinv_step {s : State α} (h : PInv s) (op : Op α) : PInv (step s op) := by
  cases op with
  | tell k v => exact pinv_tell h k v
  | tellPending k => exact pinv_tellPending h k
  | removeUnfinished => exact ⟨fun _ hk => absurd hk List.not_mem_nil, List.nodup_nil⟩
  | askCommit pts => exact pinv_foldl_tellPending pts h

theorem pinv_run : ∀ (ops : List (Op α)) (s : State α), PInv s → PInv (run s ops)
  | [], _, h => h
  | op :: ops, s, h => pinv_run ops (step s op) (pinv_step h op)

/-- no seed is both in `data` and in `pending`, read both ways -/
theorem told_not_pending {s : State α} (h : PInv s) :
    (∀ k ∈ s.pending, hasKey k s.data = false) ∧ (∀ k, hasKey k s.data = true → k ∉ s.pending) := by
  refine ⟨h.pend_nodata, ?_⟩
  intro k hk hp
  rw [h.pend_nodata k hp] at hk
  exact Bool.false_ne_true hk

/-- in every state reachable from `init` — by ANY op list — no pending seed has a value -/
theorem told_not_pending_run (atol rtol : Option α) (m : Nat) (ops : List (Op α)) :
    let s := run (init atol rtol m) ops
    (∀ k ∈ s.pending, hasKey k s.data = false) ∧ (∀ k, hasKey k s.data = true → k ∉ s.pending) :=
  told_not_pending (pinv_run ops _ (pinv_init atol rtol m))

/-- right after `tell k v` the seed `k` has a value and is not pending -/
theorem tell_not_pending {s : State α} (h : PInv s) (k : Nat) (v : α) :
    hasKey k (tell s k v).data = true ∧ k ∉ (tell s k v).pending := by
  refine ⟨hasKey_tell_self s k v, ?_⟩
  intro hp
  have := (pinv_tell h k v).pend_nodata k hp
  rw [hasKey_tell_self] at this
  exact Bool.false_ne_true this.symm

/-- … and in a state reachable from `init` the seed has a value and is not pending afterwards -/
theorem tell_tellPending_tell_run (atol rtol : Option α) (m : Nat) (ops : List (Op α))
    (k : Nat) (v w : α) :
    let s := run (init atol rtol m) ops
    let t := tell (tellPending (tell s k v) k) k w
    t = tell s k v ∧ hasKey k t.data = true ∧ k ∉ t.pending := by
  intro s t
  have ht : t = tell s k v := tell_tellPending_tell s k v w
  rw [ht]
  exact ⟨rfl, tell_not_pending (pinv_run ops _ (pinv_init atol rtol m)) k v⟩

/-! ## B.4 a committing `ask` marks its points pending, and they stay pending -/

/-- every point of a committing `ask` that has no value is pending afterwards (`tell_pending` ignores
a seed that has a value; the points `ask` returns never have one: `ask_marks_pending`) -/
theorem askCommit_marks_pending (s : State α) (pts : List Nat) :
    ∀ p ∈ pts, hasKey p s.data = false → p ∈ (step s (.askCommit pts)).pending :=
  fun p hp hd => (mem_foldl_tellPending_pending pts s p).2 (Or.inl ⟨hp, hd⟩)

/-- every point that `ask(n)` returns is pending after the commit (no hypothesis on the state) -/
theorem ask_marks_pending {s : State α} {n : Nat} {choice pts : List Nat}
    (h : askPoints s n choice = some pts) : ∀ p ∈ pts, p ∈ (step s (.askCommit pts)).pending :=
  fun p hp => askCommit_marks_pending s pts p hp (askPoints_valid h p hp).1

/-- the operation neither tells `k` nor is `remove_unfinished` -/
def KeepsPending (k : Nat) : Op α → Prop
  | .tell k' _ => k' ≠ k
  | .removeUnfinished => False
  | _ => True

theorem pending_stays_step {s : State α} {k : Nat} (hk : k ∈ s.pending) {op : Op α}
    (hop : KeepsPending k op) : k ∈ (step s op).pending := by
  cases op with
  | tell k' v =>
    show k ∈ (tell s k' v).pending
    rw [tell_pending]
    split
    · exact hk
    · exact (List.mem_erase_of_ne (Ne.symm hop)).2 hk
  | tellPending k' => exact (mem_tellPending_pending s k' k).2 (Or.inr hk)
  | removeUnfinished => exact absurd hop id
  | askCommit pts => exact (mem_foldl_tellPending_pending pts s k).2 (Or.inr hk)

theorem pending_stays_run {s : State α} {k : Nat} (hk : k ∈ s.pending) (ops : List (Op α))
    (hops : ∀ op ∈ ops, KeepsPending k op) : k ∈ (run s ops).pending := by
  induction ops generalizing s with
  | nil => exact hk
  | cons op ops ih =>
    exact ih (pending_stays_step hk (hops op List.mem_cons_self))
      (fun o ho => hops o (List.mem_cons_of_mem _ ho))

/-- **C10 / B.4**  every point of a committing `ask` (that has no value) is pending afterwards and stays
pending along any continuation that neither tells it nor calls `remove_unfinished` -/
theorem askCommit_pending_until_told (s : State α) (pts : List Nat) :
    ∀ p ∈ pts, hasKey p s.data = false → p ∈ (step s (.askCommit pts)).pending ∧
      ∀ ops : List (Op α), (∀ op ∈ ops, KeepsPending p op) →
        p ∈ (run (step s (.askCommit pts)) ops).pending :=
  fun p hp hd => ⟨askCommit_marks_pending s pts p hp hd,
    fun ops hops => pending_stays_run (askCommit_marks_pending s pts p hp hd) ops hops⟩

/-- **C10 / B.4**  the same for whatever `ask(n)` returned, in any state -/
theorem ask_pending_until_told {s : State α} {n : Nat} {choice pts : List Nat}
    (h : askPoints s n choice = some pts) :
    ∀ p ∈ pts, p ∈ (step s (.askCommit pts)).pending ∧
      ∀ ops : List (Op α), (∀ op ∈ ops, KeepsPending p op) →
        p ∈ (run (step s (.askCommit pts)) ops).pending :=
  fun p hp => askCommit_pending_until_told s pts p hp (askPoints_valid h p hp).1

/-! ## B.5 `remove_unfinished` -/

/-- `remove_unfinished` empties `pending`, makes `loss(real=False)` equal `loss(real=True)` (for
every `sqrt`), and keeps `data`, `npoints` and the moments -/
theorem removeUnfinished_spec (sqrt : α → α) (s : State α) :
    (removeUnfinished s).pending = [] ∧
    loss sqrt (removeUnfinished s) false = loss sqrt (removeUnfinished s) true ∧
    (removeUnfinished s).data = s.data ∧ (removeUnfinished s).npoints = s.npoints ∧
    (removeUnfinished s).sumF = s.sumF ∧ (removeUnfinished s).sumFsq = s.sumFsq := by
  refine ⟨rfl, ?_, rfl, rfl, rfl, rfl⟩
  unfold loss nRequested removeUnfinished
  simp

/-! ## D. the data round trip (C13) -/

/-- `_get_data`: `(self.data, self.npoints, self.sum_f, self.sum_f_sq)` -/
def getData (s : State α) : List (Nat × α) × Nat × α × α := (s.data, s.npoints, s.sumF, s.sumFsq)

/-- `_set_data`: `self.data, self.npoints, self.sum_f, self.sum_f_sq = data` -/
def setData (s : State α) (d : List (Nat × α) × Nat × α × α) : State α :=
  { s with data := d.1, npoints := d.2.1, sumF := d.2.2.1, sumFsq := d.2.2.2 }

/-- **C13**  the restored learner has the saved `data`, `npoints`, `sum_f`, `sum_f_sq` -/
theorem setData_getData (fresh s : State α) :
    (setData fresh (getData s)).data = s.data ∧
    (setData fresh (getData s)).npoints = s.npoints ∧
    (setData fresh (getData s)).sumF = s.sumF ∧
    (setData fresh (getData s)).sumFsq = s.sumFsq := ⟨rfl, rfl, rfl, rfl⟩

theorem setData_getData_mean (fresh s : State α) :
    mean (setData fresh (getData s)) = mean s := rfl

/-- same `std` when the two learners were constructed with the same `min_npoints` -/
theorem setData_getData_std (sqrt : α → α) (fresh s : State α)
    (hm : fresh.minNpoints = s.minNpoints) :
    std sqrt (setData fresh (getData s)) = std sqrt s := by
  unfold std varNumer mean setData getData
  simp only [hm]

/-- same `loss(n)` for every `n` when the two learners were constructed with the same parameters -/
theorem setData_getData_lossN (sqrt : α → α) (fresh s : State α)
    (hm : fresh.minNpoints = s.minNpoints) (ha : fresh.atol = s.atol) (hr : fresh.rtol = s.rtol)
    (n : Nat) :
    lossN sqrt (setData fresh (getData s)) n = lossN sqrt s n := by
  unfold lossN
  rw [setData_getData_std sqrt fresh s hm, setData_getData_mean]
  simp only [setData, hm, ha, hr]

/-- same real loss; the restored learner has no pending points, so its `loss(real=False)` is the
saved learner's real loss too -/
theorem setData_getData_loss (sqrt : α → α) (fresh s : State α)
    (hm : fresh.minNpoints = s.minNpoints) (ha : fresh.atol = s.atol) (hr : fresh.rtol = s.rtol) :
    loss sqrt (setData fresh (getData s)) true = loss sqrt s true ∧
    (fresh.pending = [] → loss sqrt (setData fresh (getData s)) false = loss sqrt s true) := by
  unfold loss
  refine ⟨setData_getData_lossN sqrt fresh s hm ha hr _, ?_⟩
  intro hp
  have : nRequested (setData fresh (getData s)) = s.npoints := by
    unfold nRequested setData getData
    simp [hp]
  simp only [this, Bool.false_eq_true, if_false, if_true]
  exact setData_getData_lossN sqrt fresh s hm ha hr _

/-- the construction parameters -/
def params (s : State α) : Nat × Option α × Option α := (s.minNpoints, s.atol, s.rtol)

theorem params_tellPending (t : State α) (k : Nat) : params (tellPending t k) = params t := by
  unfold tellPending
  split
  · rfl
  · split <;> rfl

theorem params_foldl_tellPending (pts : List Nat) (t : State α) :
    params (pts.foldl tellPending t) = params t := by
  induction pts generalizing t with
  | nil => rfl
  | cons p ps ih => rw [List.foldl_cons, ih, params_tellPending]

theorem params_step (t : State α) (op : Op α) : params (step t op) = params t := by
  cases op with
  | tell k v => show params (tell t k v) = _; unfold tell; split <;> rfl
  | tellPending k => exact params_tellPending t k
  | removeUnfinished => rfl
  | askCommit pts => exact params_foldl_tellPending pts t

theorem params_run (ops : List (Op α)) (t : State α) : params (run t ops) = params t := by
  induction ops generalizing t with
  | nil => rfl
  | cons op ops ih => show params (run (step t op) ops) = _; rw [ih, params_step]

/-- with a fresh learner made by `init` with the same parameters -/
theorem setData_getData_init (sqrt : α → α) (atol rtol : Option α) (m : Nat) (ops : List (Op α)) :
    let s := run (init atol rtol m) ops
    let s' := setData (init atol rtol m) (getData s)
    s'.data = s.data ∧ s'.npoints = s.npoints ∧ s'.sumF = s.sumF ∧ s'.sumFsq = s.sumFsq ∧
    mean s' = mean s ∧ std sqrt s' = std sqrt s ∧ loss sqrt s' true = loss sqrt s true ∧
    loss sqrt s' false = loss sqrt s true := by
  intro s s'
  have hp := params_run ops (init atol rtol m)
  simp only [params, Prod.mk.injEq] at hp
  obtain ⟨hm, ha, hr⟩ := hp
  obtain ⟨l1, l2⟩ := setData_getData_loss sqrt (init atol rtol m) s hm.symm ha.symm hr.symm
  exact ⟨rfl, rfl, rfl, rfl, rfl, setData_getData_std sqrt _ s hm.symm, l1, l2 rfl⟩

end field
end Avg
