import Mathlib.MeasureTheory.Integral.IntervalIntegral.Basic

/-!
Real-analysis helpers for C08 (IntegratorLearner: converged integrals are right).

Only the additive structure of the integral over a partition is used here; nothing about the quadrature rule.
-/
namespace IntegAnalysis
open MeasureTheory intervalIntegral

/-- triangle inequality for a sum of local deviations -/
lemma abs_sum_sub_le {n : ℕ} (I q e : ℕ → ℝ) (h : ∀ k < n, |I k - q k| ≤ e k) :
    |∑ k ∈ Finset.range n, I k - ∑ k ∈ Finset.range n, q k| ≤ ∑ k ∈ Finset.range n, e k := by
  rw [← Finset.sum_sub_distrib]
  refine (Finset.abs_sum_le_sum_abs _ _).trans ?_
  exact Finset.sum_le_sum fun k hk => h k (Finset.mem_range.mp hk)

/-- the integral over `[x 0, x n]` is the sum of the integrals over the adjacent pieces -/
lemma integral_eq_sum_pieces (f : ℝ → ℝ) (x : ℕ → ℝ) (n : ℕ)
    (hint : ∀ k < n, IntervalIntegrable f volume (x k) (x (k + 1))) :
    ∫ t in (x 0)..(x n), f t = ∑ k ∈ Finset.range n, ∫ t in (x k)..(x (k + 1)), f t :=
  (sum_integral_adjacent_intervals hint).symm

end IntegAnalysis
