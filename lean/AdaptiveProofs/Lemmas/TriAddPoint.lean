import AdaptiveProofs.Lemmas.TriLoops
import AdaptiveProofs.Lemmas.TriNoReject

/-! `bowyer_watson`, `_extend_hull` and `add_point` of the Triangulation model: invariant, exact report, rejections. -/
namespace Tri

theorem mem_facesOf {dim : Nat} {f : Simplex} {sx : List Simplex} :
    f ∈ facesOf dim sx ↔ ∃ t ∈ sx, f ∈ combos dim t := by
  simp [facesOf, List.mem_flatMap]

theorem ValidSimplex.mono {dim n m : Nat} {t : Simplex} (h : ValidSimplex dim n t) (hnm : n ≤ m) :
    ValidSimplex dim m t :=
  ⟨h.1, h.2.1, fun v hv => Nat.lt_of_lt_of_le (h.2.2 v hv) hnm⟩

/-- a facet of a valid simplex, all of whose vertices are below `pt`, extended by `pt` is a valid simplex -/
theorem face_append_valid {dim n pt m : Nat} {t f : Simplex} (ht : ValidSimplex dim n t) (hf : f ∈ combos dim t)
    (hlt : ∀ v ∈ f, v < pt) (hm : pt < m) : ValidSimplex dim m (f ++ [pt]) := by
  obtain ⟨hsub, hlen⟩ := combos_sublist dim t f hf
  refine ⟨by simp [hlen], ?_, ?_⟩
  · rw [List.pairwise_append]
    refine ⟨ht.2.1.sublist hsub, List.pairwise_singleton _ _, ?_⟩
    intro a ha b hb
    rw [List.mem_singleton] at hb
    subst hb
    exact hlt a ha
  · intro v hv
    rcases List.mem_append.mp hv with h | h
    · exact Nat.lt_trans (hlt v h) hm
    · rw [List.mem_singleton] at h; subst h; exact hm

/-- the state after `self.vertex_to_simplices.append(set())` and `self.vertices.append(point)` -/
theorem inv_push {s : State} (hI : Inv s) :
    Inv { s with vts := s.vts ++ [[]], nVerts := s.nVerts + 1 } := by
  refine ⟨by simp [hI.len], fun t ht => (hI.valid t ht).mono (Nat.le_succ _), ?_⟩
  intro v l hl u
  simp only at hl
  rcases Nat.lt_trichotomy v s.vts.length with h | h | h
  · rw [List.getElem?_append_left h] at hl
    exact hI.index v l hl u
  · subst h
    rw [List.getElem?_append_right (Nat.le_refl _)] at hl
    simp only [Nat.sub_self, List.getElem?_cons_zero, Option.some.injEq] at hl
    subst hl
    constructor
    · intro h; cases h
    · rintro ⟨hu, hv⟩
      have := (hI.valid u hu).2.2 _ hv
      rw [hI.len] at this
      exact absurd this (Nat.lt_irrefl _)
  · rw [List.getElem?_eq_none (by simp; omega)] at hl
    cases hl

theorem bowyerWatson_spec {s s2 : State} {pt : Nat} {start : Option Simplex} {circ fl fl2 : List (Simplex × Bool)}
    {del add : List Simplex} (hI : Inv s) (hpt : s.nVerts = pt + 1)
    (hstart : ∀ c, start = some c → c ∈ s.simplices)
    (hok : bowyerWatson s pt start circ fl = .ok (s2, del, add, fl2)) :
    Inv s2 ∧ s2.dim = s.dim ∧ s2.nVerts = s.nVerts ∧
    ∃ bad : List Simplex, (∀ u ∈ bad, u ∈ s.simplices) ∧
      (∀ u ∈ s.simplices, u ∉ bad → u ∈ s2.simplices) ∧
      (∀ u ∈ s2.simplices, (u ∈ s.simplices ∧ u ∉ bad) ∨ pt ∈ u) ∧
      (∀ u, u ∈ del ↔ (u ∈ bad ∧ ¬(u ∈ s2.simplices ∧ pt ∈ u))) ∧
      (∀ u, u ∈ add ↔ ((u ∈ s2.simplices ∧ pt ∈ u) ∧ u ∉ bad)) := by
  unfold bowyerWatson at hok
  simp only at hok
  split at hok
  · cases hok
  · rename_i queue hq
    have hqS : ∀ u ∈ queue, u ∈ s.simplices := by
      cases start with
      | none =>
        simp only at hq
        intro u hu
        exact ((hI.index pt queue hq u).mp hu).1
      | some c =>
        simp only [Option.some.injEq] at hq
        subst hq
        intro u hu
        rw [List.mem_singleton] at hu
        subst hu
        exact hstart u rfl
    split at hok
    · cases hok
    · rename_i s1 bad hbw
      obtain ⟨hI1, hd1, hn1, hsub1, hbad⟩ := bwLoop_spec s.dim circ s queue [] [] s1 bad hI hqS hbw
      have hbad' : ∀ u, u ∈ bad ↔ (u ∈ s.simplices ∧ u ∉ s1.simplices) := by
        intro u; rw [hbad u]; simp
      split at hok
      · cases hok
      · rename_i s2' fl' hh
        have hfaces : ∀ f ∈ List.filter (fun f => decide (List.count f (facesOf s1.dim bad) < 2)) (facesOf s1.dim bad),
            pt ∉ f → ValidSimplex s.dim s.nVerts (f ++ [pt]) := by
          intro f hf hptf
          obtain ⟨t, htb, hft⟩ := mem_facesOf.mp (List.mem_filter.mp hf).1
          have htv := hI.valid t ((hbad' t).mp htb).1
          rw [hd1] at hft
          refine face_append_valid htv hft ?_ (by omega)
          intro v hv
          have hvt : v ∈ t := (combos_sublist _ _ _ hft).1.subset hv
          have := htv.2.2 v hvt
          have hne : v ≠ pt := fun h => hptf (h ▸ hv)
          omega
        obtain ⟨hI2, hd2, hn2, hsub2, hsup2⟩ :=
          holeLoop_spec pt s.dim s.nVerts _ s1 fl s2' fl' hI1 hd1 hn1 hfaces hh
        split at hok
        · cases hok
        · rename_i newT hnt
          have hnew : ∀ u, u ∈ newT ↔ (u ∈ s2'.simplices ∧ pt ∈ u) := hI2.index pt newT hnt
          simp only [Except.ok.injEq, Prod.mk.injEq] at hok
          obtain ⟨rfl, rfl, rfl, rfl⟩ := hok
          refine ⟨hI2, hd2, hn2, bad, fun u hu => ((hbad' u).mp hu).1, ?_, ?_, ?_, ?_⟩
          · intro u hu hnb
            apply hsub2
            by_contra hc
            exact hnb ((hbad' u).mpr ⟨hu, hc⟩)
          · intro u hu
            rcases hsup2 u hu with h | h
            · exact Or.inl ⟨hsub1 u h, fun hb => ((hbad' u).mp hb).2 h⟩
            · exact Or.inr h
          · intro u; rw [mem_setDiff, hnew u]
          · intro u; rw [mem_setDiff, hnew u]

/-- `_extend_hull` on the state in which `add_point` calls it -/
theorem extendHull_spec {s : State} (hI : Inv s) {ori : List (Simplex × Int × Int)} {fl : List (Simplex × Bool)} :
    (∀ s2 temp fl', extendHull { s with vts := s.vts ++ [[]] } ori fl = .ok (s2, temp, fl') →
      Inv s2 ∧ s2.dim = s.dim ∧ s2.nVerts = s.nVerts + 1 ∧
      (∀ u, u ∈ s2.simplices ↔ (u ∈ s.simplices ∨ u ∈ temp)) ∧ (∀ u ∈ temp, s.nVerts ∈ u)) ∧
    (∀ w s', extendHull { s with vts := s.vts ++ [[]] } ori fl = .error (.reject w s') → s' = s) := by
  have hpush := inv_push hI
  have hfaces : ∀ f ∈ List.filter (fun f => decide (List.count f (facesOf s.dim s.simplices) = 1)) (facesOf s.dim s.simplices),
      ValidSimplex s.dim (s.nVerts + 1) (f ++ [s.nVerts]) := by
    intro f hf
    obtain ⟨t, hts, hft⟩ := mem_facesOf.mp (List.mem_filter.mp hf).1
    have htv := hI.valid t hts
    refine face_append_valid htv hft ?_ (Nat.lt_succ_self _)
    intro v hv
    exact htv.2.2 v ((combos_sublist _ _ _ hft).1.subset hv)
  constructor
  · intro s2 temp fl' hok
    unfold extendHull at hok
    simp only at hok
    split at hok
    · cases hok
    · split at hok
      · cases hok
      · rename_i s2' new ori' fl'' hh
        obtain ⟨hI2, hd2, hn2, hmem, hptm, _, _⟩ :=
          hullLoop_spec s.nVerts s.dim (s.nVerts + 1) _ _ [] ori fl s2' new ori' fl'' hpush rfl rfl hfaces
            (fun u hu => by cases hu) hh
        split at hok
        · cases hok
        · split at hok
          · split at hok
            · cases hok
            · split at hok
              · cases hok
              · split at hok <;> cases hok
          · simp only [Except.ok.injEq, Prod.mk.injEq] at hok
            obtain ⟨rfl, rfl, rfl⟩ := hok
            exact ⟨hI2, hd2, hn2, hmem, hptm⟩
  · intro w s' hok
    unfold extendHull at hok
    simp only at hok
    split at hok
    · cases hok
    · split at hok
      · rename_i e hh
        cases hok
        exact absurd hh (hullLoop_noReject _ _ _ _ _ _ _ _)
      · rename_i s2' new ori' fl'' hh
        obtain ⟨_, _, _, _, _, _, hnil⟩ :=
          hullLoop_spec s.nVerts s.dim (s.nVerts + 1) _ _ [] ori fl s2' new ori' fl'' hpush rfl rfl hfaces
            (fun u hu => by cases hu) hh
        split at hok
        · cases hok
        · split at hok
          · rename_i hnew
            have hs2 := hnil hnew
            subst hs2
            simp only at hok
            rw [show (s.vts ++ [[]])[s.nVerts]? = some [] by
              rw [← hI.len, List.getElem?_append_right (Nat.le_refl _)]; simp] at hok
            simp only [removeAll] at hok
            split at hok
            · cases hok
            · simp only [Except.error.injEq, Err.reject.injEq] at hok
              obtain ⟨_, rfl⟩ := hok
              have : (s.vts ++ [[]]).eraseIdx s.nVerts = s.vts := by
                rw [← hI.len]; exact eraseIdx_append_length _ _
              simp [this]
          · cases hok

end Tri
