import AdaptiveProofs.Lemmas.Avg1DLossValues

/-!
Helper lemmas for the full AverageLearner1D model, part 6: `FlatHist` is TRUE of every history from
`init` (discharge of the hypothesis of `c16l_values_exact`).

Invariant `FH`: the output bounding box `_bbox[1]`, once it exists, has one component `[a], [c]` with
`a ≤ c` and `_scale[1] = c - a`; while there is no box there are no data; when the box is degenerate
(`a = c`) every running mean (`data[x]` of the embedded Learner1D state and `data[x]` of the sampling
state) equals `a`.  It is inductive because every value that enters a mean passes through the box:
`tell` feeds the raw sample, `tell_many_at_point` feeds the minimum and the maximum of ALL samples at
the abscissa after `dict.update` — which contain every value of the mapping IF THE SEEDS OF THE MAPPING
ARE DISTINCT (`OpND`; a Python dict has no duplicate keys, so this guard is vacuous for the code; the
model takes a list).
-/
set_option linter.unusedSectionVars false
set_option linter.unusedVariables false
set_option linter.unusedSimpArgs false

namespace L1D
variable {α : Type} [Field α] [LinearOrder α] [IsStrictOrderedRing α]

/-! ### `minOfL`, `maxOfL` bound every element -/

theorem foldl_min_le (l : List α) (m : α) :
    l.foldl (fun m x => if x < m then x else m) m ≤ m := by
  induction l generalizing m with
  | nil => exact le_refl _
  | cons a r ih =>
    simp only [List.foldl_cons]
    split
    · exact le_trans (ih _) (le_of_lt ‹_›)
    · exact ih _

theorem foldl_min_le_mem (l : List α) (m : α) :
    ∀ x ∈ l, l.foldl (fun m x => if x < m then x else m) m ≤ x := by
  induction l generalizing m with
  | nil => intro x hx; simp at hx
  | cons a r ih =>
    intro x hx
    simp only [List.foldl_cons]
    rcases List.mem_cons.1 hx with hxa | hxr
    · rw [hxa]
      refine le_trans (foldl_min_le r _) ?_
      split
      · exact le_refl _
      · exact not_lt.1 ‹_›
    · exact ih _ x hxr

theorem minOfL_le {l : List α} {x : α} (hx : x ∈ l) : minOfL l ≤ x := by
  unfold minOfL
  exact foldl_min_le_mem l _ x hx

theorem le_maxOfL {l : List α} {x : α} (hx : x ∈ l) : x ≤ maxOfL l := by
  unfold maxOfL
  exact le_foldl_max l _ x hx

end L1D

namespace Avg1D
variable {α : Type}

/-! ### `dict.update` with distinct keys contains every item of the update -/

/-- one item of `dict.update` -/
def upd1 (d : List (Nat × α)) (kv : Nat × α) : List (Nat × α) :=
  if d.any (fun e => e.1 == kv.1) then d.map (fun e => if e.1 == kv.1 then kv else e) else d ++ [kv]

theorem dictUpdate_cons (d : List (Nat × α)) (kv : Nat × α) (m : List (Nat × α)) :
    dictUpdate d (kv :: m) = dictUpdate (upd1 d kv) m := rfl

theorem mem_upd1_self (d : List (Nat × α)) (kv : Nat × α) : kv ∈ upd1 d kv := by
  unfold upd1
  split
  · rename_i h
    obtain ⟨e, he, hek⟩ := List.any_eq_true.1 h
    exact List.mem_map.2 ⟨e, he, by rw [if_pos hek]⟩
  · simp

theorem mem_upd1_of_ne {d : List (Nat × α)} {kv e : Nat × α} (he : e ∈ d) (hne : e.1 ≠ kv.1) :
    e ∈ upd1 d kv := by
  unfold upd1
  split
  · refine List.mem_map.2 ⟨e, he, ?_⟩
    rw [if_neg]
    simpa using hne
  · exact List.mem_append_left _ he

theorem mem_dictUpdate_keep (m : List (Nat × α)) : ∀ (d : List (Nat × α)) {e : Nat × α}, e ∈ d →
    e.1 ∉ m.map Prod.fst → e ∈ dictUpdate d m := by
  induction m with
  | nil => intro d e he _; exact he
  | cons kv m ih =>
    intro d e he hne
    rw [dictUpdate_cons]
    simp only [List.map_cons, List.mem_cons, not_or] at hne
    exact ih _ (mem_upd1_of_ne he hne.1) hne.2

/-- every item of an update with DISTINCT keys is in the dict afterwards -/
theorem mem_dictUpdate_of_nodup (m : List (Nat × α)) : ∀ (d : List (Nat × α)),
    (m.map Prod.fst).Nodup → ∀ kv ∈ m, kv ∈ dictUpdate d m := by
  induction m with
  | nil => intro d _ kv hkv; simp at hkv
  | cons kv0 m ih =>
    intro d hnd kv hkv
    rw [dictUpdate_cons]
    simp only [List.map_cons, List.nodup_cons] at hnd
    rcases List.mem_cons.1 hkv with rfl | h
    · exact mem_dictUpdate_keep m _ (mem_upd1_self d kv) hnd.1
    · exact ih _ hnd.2 kv h

end Avg1D

namespace Avg1DFull
open L1D (Loss Ival)
variable {α : Type} [Field α] [LinearOrder α] [IsStrictOrderedRing α]
variable (lossFn : List (Option α) → List (Option (List α)) → Loss α) (r12 : α → α)
variable (sqrt : α → α) (tq : Nat → α) (hypot : α → α → α)

/-! ### the box -/

/-- the output box has one component, is ordered, and `_scale[1]` is its height -/
def Box1 (bb : Option (List α × List α)) (sy : α) : Prop :=
  ∀ b, bb = some b → ∃ a c, b = ([a], [c]) ∧ a ≤ c ∧ sy = c - a

/-- all running means (both copies) equal `a` -/
def FlatAt (d : List (α × List α)) (pts : List (Avg1D.Pt α)) (a : α) : Prop :=
  (∀ kv ∈ d, kv.2 = [a]) ∧ ∀ p ∈ pts, p.mean = a

/-- the invariant on `(data, sampling points, _bbox[1], _scale[1])` -/
structure FHv (d : List (α × List α)) (pts : List (Avg1D.Pt α)) (bb : Option (List α × List α))
    (sy : α) : Prop where
  ne : bb = none → d = [] ∧ pts = []
  box : Box1 bb sy
  flat : ∀ a, bb = some ([a], [a]) → FlatAt d pts a

/-- the box went from `(bb, sy)` to `(bb', sy')` by `_update_scale` calls fed with `ys`: the new box is
a one-component box, and if it is degenerate `[a], [a]`, the old one was absent or the same and every
value fed is `a` -/
def BoxStep (bb : Option (List α × List α)) (sy : α) (bb' : Option (List α × List α)) (sy' : α)
    (ys : List α) : Prop :=
  Box1 bb' sy' ∧ bb' ≠ none ∧
    ∀ a, bb' = some ([a], [a]) → (bb = none ∨ bb = some ([a], [a])) ∧ ∀ y ∈ ys, y = a

def updBox (bb : Option (List α × List α)) (y : α) : List α × List α :=
  match bb with
  | none => ([y], [y])
  | some (mn, mx) => (L1D.minL mn [y], L1D.maxL mx [y])

theorem updateScale_box (b : L1D.State α) (x y : α) :
    (L1D.updateScale b x [y]).bboxY = some (updBox b.bboxY y) ∧
    (L1D.updateScale b x [y]).scaleY =
      L1D.maxOf (List.zipWith (· - ·) (updBox b.bboxY y).2 (updBox b.bboxY y).1) ∧
    (L1D.updateScale b x [y]).data = b.data := by
  unfold L1D.updateScale updBox
  dsimp only
  cases b.bboxY with
  | none => exact ⟨rfl, rfl, rfl⟩
  | some q => exact ⟨rfl, rfl, rfl⟩

theorem maxOf_single (v : α) : L1D.maxOf [v] = v := by
  simp [L1D.maxOf]

theorem updBox_spec {bb : Option (List α × List α)} {sy : α} (hb : Box1 bb sy) (y : α) :
    ∃ a c, updBox bb y = ([a], [c]) ∧ a ≤ y ∧ y ≤ c ∧
      (a = c → bb = none ∨ bb = some ([a], [a])) := by
  cases bb with
  | none => exact ⟨y, y, rfl, le_refl _, le_refl _, fun _ => Or.inl rfl⟩
  | some q =>
    obtain ⟨a0, c0, rfl, hac, _⟩ := hb q rfl
    refine ⟨if y < a0 then y else a0, if c0 < y then y else c0, rfl, ?_, ?_, ?_⟩
    · split
      · exact le_refl _
      · exact not_lt.1 ‹_›
    · split
      · exact le_refl _
      · exact not_lt.1 ‹_›
    · intro h
      right
      by_cases h1 : y < a0 <;> by_cases h2 : c0 < y
      · exact absurd (lt_of_lt_of_le (lt_trans h2 h1) hac) (lt_irrefl _)
      · rw [if_pos h1, if_neg h2] at h
        rw [h] at h1
        exact absurd (lt_of_lt_of_le h1 hac) (lt_irrefl _)
      · rw [if_neg h1, if_pos h2] at h
        rw [← h] at h2
        exact absurd (lt_of_lt_of_le h2 hac) (lt_irrefl _)
      · rw [if_neg h1, if_neg h2] at h
        rw [if_neg h1, h]

theorem boxStep_updateScale {b : L1D.State α} (hb : Box1 b.bboxY b.scaleY) (x y : α) :
    BoxStep b.bboxY b.scaleY (L1D.updateScale b x [y]).bboxY (L1D.updateScale b x [y]).scaleY [y] := by
  obtain ⟨e1, e2, _⟩ := updateScale_box b x y
  obtain ⟨a, c, hu, hay, hyc, hdeg⟩ := updBox_spec hb y
  rw [e1, e2, hu]
  refine ⟨?_, by simp, ?_⟩
  · intro q hq
    cases hq
    refine ⟨a, c, rfl, le_trans hay hyc, ?_⟩
    show L1D.maxOf [c - a] = c - a
    exact maxOf_single _
  · intro a' h
    have h1 : a = a' := by cases h; rfl
    have h2 : c = a' := by cases h; rfl
    subst h1
    refine ⟨hdeg h2.symm, ?_⟩
    intro y' hy'
    rw [List.mem_singleton.1 hy']
    exact le_antisymm (h2 ▸ hyc) hay

theorem BoxStep.trans {bb bb1 bb2 : Option (List α × List α)} {sy sy1 sy2 : α} {ys1 ys2 : List α}
    (h1 : BoxStep bb sy bb1 sy1 ys1) (h2 : BoxStep bb1 sy1 bb2 sy2 ys2) :
    BoxStep bb sy bb2 sy2 (ys1 ++ ys2) := by
  refine ⟨h2.1, h2.2.1, ?_⟩
  intro a ha
  obtain ⟨hc, hy2⟩ := h2.2.2 a ha
  rcases hc with hc | hc
  · exact absurd hc h1.2.1
  · obtain ⟨hc1, hy1⟩ := h1.2.2 a hc
    refine ⟨hc1, ?_⟩
    intro y hy
    rcases List.mem_append.1 hy with h | h
    · exact hy1 y h
    · exact hy2 y h

theorem boxStep_foldl (x y : α) (ys : List α) : ∀ {b : L1D.State α}, Box1 b.bboxY b.scaleY →
    BoxStep b.bboxY b.scaleY ((y :: ys).foldl (fun b y => L1D.updateScale b x [y]) b).bboxY
      ((y :: ys).foldl (fun b y => L1D.updateScale b x [y]) b).scaleY (y :: ys) := by
  induction ys generalizing y with
  | nil => intro b hb; exact boxStep_updateScale hb x y
  | cons y2 ys ih =>
    intro b hb
    have h1 := boxStep_updateScale hb x y
    have h2 := ih y2 (b := L1D.updateScale b x [y]) h1.1
    exact h1.trans h2

/-- the invariant after the box moved, when the new means are flat whenever the values fed are -/
theorem fhv_of_step {d d' : List (α × List α)} {pts pts' : List (Avg1D.Pt α)}
    {bb bb' : Option (List α × List α)} {sy sy' : α} {ys : List α} (h : FHv d pts bb sy)
    (hs : BoxStep bb sy bb' sy' ys)
    (hfl : ∀ a, (∀ y ∈ ys, y = a) → ((d = [] ∧ pts = []) ∨ FlatAt d pts a) → FlatAt d' pts' a) :
    FHv d' pts' bb' sy' := by
  refine ⟨fun h0 => absurd h0 hs.2.1, hs.1, ?_⟩
  intro a ha
  obtain ⟨hc, hy⟩ := hs.2.2 a ha
  apply hfl a hy
  rcases hc with hc | hc
  · exact Or.inl (h.ne hc)
  · exact Or.inr (h.flat a hc)

/-- a degenerate box after the step: what was fed is one value, and the old means equal it -/
theorem flat_of_step {d : List (α × List α)} {pts : List (Avg1D.Pt α)}
    {bb bb' : Option (List α × List α)} {sy sy' : α} {ys : List α} (h : FHv d pts bb sy)
    (hs : BoxStep bb sy bb' sy' ys) (h0 : sy' = 0) :
    ∃ a, (∀ y ∈ ys, y = a) ∧ ((d = [] ∧ pts = []) ∨ FlatAt d pts a) := by
  cases hbb : bb' with
  | none => exact absurd hbb hs.2.1
  | some q =>
    obtain ⟨a, c, rfl, hac, hsy⟩ := hs.1 q hbb
    have hca : c = a := by
      have : c - a = 0 := by rw [← hsy, h0]
      exact sub_eq_zero.1 this
    subst hca
    obtain ⟨hc, hy⟩ := hs.2.2 c hbb
    refine ⟨c, hy, ?_⟩
    rcases hc with hc | hc
    · exact Or.inl (h.ne hc)
    · exact Or.inr (h.flat c hc)


/-! ### the two base-level steps -/

theorem newBase_view (b : L1D.State α) (x y : α) :
    (newBase lossFn r12 b x y).bboxY = (newPre b x y).bboxY ∧
    (newBase lossFn r12 b x y).scaleY = (newPre b x y).scaleY ∧
    (newBase lossFn r12 b x y).data = b.data ++ [(x, [y])] := by
  obtain ⟨_, _, _, m4, m5⟩ := maybeRescaleLive_static lossFn r12
    (L1D.updateLosses lossFn r12 (newPre b x y) x true)
  have hc := L1D.core_updateLosses lossFn r12 (newPre b x y) x true
  refine ⟨?_, ?_, (newBase_fields lossFn r12 b x y).2.2⟩
  · rw [newBase_eq, m4]
    have h := congrArg L1D.State.bboxY hc; exact h
  · rw [newBase_eq, m5]
    have h := congrArg L1D.State.scaleY hc; exact h

theorem resBase_view (b : L1D.State α) (m x : α) (ys : List α) :
    (resBase lossFn r12 b m x ys).bboxY = (resPre b m x ys).bboxY ∧
    (resBase lossFn r12 b m x ys).scaleY = (resPre b m x ys).scaleY ∧
    (resBase lossFn r12 b m x ys).data = dataPut b.data x [m] := by
  obtain ⟨_, _, _, m4, m5⟩ := maybeRescaleLive_static lossFn r12
    (updateLossesResampling lossFn r12 (resPre b m x ys) x true)
  have hc := core_updateLossesResampling lossFn r12 (resPre b m x ys) x true
  refine ⟨?_, ?_, (resBase_fields lossFn r12 b m x ys).2.2⟩
  · rw [resBase_eq, m4]
    have h := congrArg L1D.State.bboxY hc; exact h
  · rw [resBase_eq, m5]
    have h := congrArg L1D.State.scaleY hc; exact h

/-- the state `_update_scale` is applied to in `newPre` / `resPre` -/
def newPre0 (b : L1D.State α) (x y : α) : L1D.State α :=
  { b with data := b.data ++ [(x, [y])], xsC := L1D.sinsert x b.xsC, xs := L1D.sinsert x b.xs }

def resPre0 (b : L1D.State α) (m x : α) : L1D.State α :=
  { b with data := dataPut b.data x [m] }

theorem boxStep_newPre {b : L1D.State α} (hb : Box1 b.bboxY b.scaleY) (x y : α) :
    BoxStep b.bboxY b.scaleY (newPre b x y).bboxY (newPre b x y).scaleY [y] :=
  boxStep_updateScale (b := newPre0 b x y) hb x y

theorem boxStep_resPre {b : L1D.State α} (hb : Box1 b.bboxY b.scaleY) (m x y : α) (ys : List α) :
    BoxStep b.bboxY b.scaleY (resPre b m x (y :: ys)).bboxY (resPre b m x (y :: ys)).scaleY (y :: ys) :=
  boxStep_foldl x y ys (b := resPre0 b m x) hb

theorem mem_dataPut {d : List (α × List α)} {x : α} {v : List α} {kv : α × List α}
    (h : kv ∈ dataPut d x v) : kv ∈ d ∨ kv = (x, v) := by
  unfold dataPut at h
  split at h
  · obtain ⟨e, he, rfl⟩ := List.mem_map.1 h
    split
    · exact Or.inr rfl
    · exact Or.inl he
  · rcases List.mem_append.1 h with h | h
    · exact Or.inl h
    · exact Or.inr (List.mem_singleton.1 h)

/-! ### the state-level invariant -/

/-- THE INVARIANT behind `FlatHist` -/
def FH (s : State α) : Prop := FHv s.base.data s.samp.pts s.base.bboxY s.base.scaleY

theorem fh_init (lo hi factor dxEps : α) (nn : Nat) (delta minError : α) (minS maxS : Nat) (ns : α) :
    FH (init lo hi factor dxEps nn delta minError minS maxS ns) := by
  refine ⟨fun _ => ⟨rfl, rfl⟩, ?_, ?_⟩
  · intro q hq; simp [init, L1D.init] at hq
  · intro a ha; simp [init, L1D.init] at ha

theorem FH.constAtZero {s : State α} (h : FH s) : L1D.ConstAtZero s.base := by
  intro h0 kv hkv kv' hkv'
  cases hbb : s.base.bboxY with
  | none =>
    rw [(h.ne hbb).1] at hkv
    cases hkv
  | some q =>
    obtain ⟨a, c, rfl, hac, hsy⟩ := h.box q hbb
    have hca : c = a := by
      have : c - a = 0 := by rw [← hsy, h0]
      exact sub_eq_zero.1 this
    subst hca
    obtain ⟨hd, _⟩ := h.flat c hbb
    rw [hd kv hkv, hd kv' hkv']

theorem FH.opFlat {s : State α} (h : FH s) (op : Op α) : OpFlat s op := by
  unfold OpFlat
  split
  · rename_i x _ y _ _
    intro _ h0 kv hkv
    obtain ⟨a, hy, hc⟩ := flat_of_step h (boxStep_newPre h.box x y) h0
    have hya : y = a := hy y List.mem_cons_self
    rcases hc with hc | hc
    · rw [hc.1] at hkv; cases hkv
    · rw [hya]; exact hc.1 kv hkv
  · trivial

theorem fh_tellNew {s : State α} (h : FH s) (seed : Nat) {x : α} (y : α)
    (hf : Avg1D.find? s.samp x = none) : FH (tellNew lossFn r12 sqrt tq hypot s seed x y) := by
  unfold FH
  obtain ⟨v1, v2, v3⟩ := newBase_view lossFn r12 s.base x y
  rw [tellNew_base, tellNew_samp, v1, v2, v3, Avg1D.tell_new sqrt tq s.samp seed x y hf]
  apply fhv_of_step h (boxStep_newPre h.box x y)
  intro a hy hc
  have hya : y = a := hy y List.mem_cons_self
  have hold : FlatAt s.base.data s.samp.pts a := by
    rcases hc with hc | hc
    · rw [hc.1, hc.2]
      refine ⟨?_, ?_⟩ <;> intro _ hk <;> cases hk
    · exact hc
  refine ⟨?_, ?_⟩
  · intro kv hkv
    rcases List.mem_append.1 hkv with hk | hk
    · exact hold.1 kv hk
    · rw [List.mem_singleton.1 hk, hya]
  · intro p hp
    have hp' := (Avg1D.insertPt_perm (Avg1D.newPt x seed y) s.samp.pts).mem_iff.1 hp
    rcases List.mem_cons.1 hp' with hk | hk
    · rw [hk]; exact hya
    · exact hold.2 p hk

/-- the generic re-sample step: the sampling state is the old one with the point at `x` replaced by
`p'`, whose mean is the common value whenever everything fed to the box and the old mean are -/
theorem fh_afterResample {s : State α} (h : FH s) {x : α} {p : Avg1D.Pt α}
    (hf : Avg1D.find? s.samp x = some p) (samp' : Avg1D.State α) (p' : Avg1D.Pt α)
    (hpts : samp'.pts = Avg1D.updatePt p' s.samp.pts) (hx : p'.x = x) (y : α) (ys : List α)
    (hmean : ∀ a, (∀ z ∈ y :: ys, z = a) → p.mean = a → p'.mean = a) :
    FH (afterResample lossFn r12 hypot s samp' x (y :: ys)) := by
  unfold FH
  have hm : meanIn samp' x = p'.mean := by
    unfold meanIn Avg1D.find?
    rw [hpts, Avg1D.find?_list_updatePt p' x hx s.samp.pts p hf]
  obtain ⟨v1, v2, v3⟩ := resBase_view lossFn r12 s.base (meanIn samp' x) x (y :: ys)
  rw [afterResample_base, afterResample_samp, v1, v2, v3, hm, hpts]
  apply fhv_of_step h (boxStep_resPre h.box p'.mean x y ys)
  intro a hy hc
  have hpm := (Avg1D.find?_some hf).1
  have hold : FlatAt s.base.data s.samp.pts a := by
    rcases hc with hc | hc
    · rw [hc.2] at hpm; cases hpm
    · exact hc
  have hp'a : p'.mean = a := hmean a hy (hold.2 p hpm)
  refine ⟨?_, ?_⟩
  · intro kv hkv
    rcases mem_dataPut hkv with hk | hk
    · exact hold.1 kv hk
    · rw [hk, hp'a]
  · intro q hq
    rcases Avg1D.mem_updatePt hq with hk | hk
    · rw [hk]; exact hp'a
    · exact hold.2 q hk.1

theorem resample_mean_flat (a : α) (k : Nat) :
    a * (k : α) / ((k + 1 : Nat) : α) + a / ((k + 1 : Nat) : α) = a := by
  have hk : ((k + 1 : Nat) : α) ≠ 0 := Nat.cast_ne_zero.2 (Nat.succ_ne_zero k)
  rw [← add_div, div_eq_iff hk]
  push_cast
  ring

theorem sum_const {l : List α} {a : α} (h : ∀ y ∈ l, y = a) : l.sum = (l.length : α) * a := by
  induction l with
  | nil => simp
  | cons y l ih =>
    rw [List.sum_cons, ih (fun z hz => h z (List.mem_cons_of_mem _ hz)), h y List.mem_cons_self]
    simp only [List.length_cons]
    push_cast
    ring

theorem batch_mean_flat (a : α) (ys : List α) (hne : ys ≠ []) (h : ∀ y ∈ ys, y = a) (n : Nat) :
    (ys.foldl (· + ·) 0 / (ys.length : α) * (ys.length : α) + a * (n : α)) /
      ((ys.length + n : Nat) : α) = a := by
  have hl : 0 < ys.length := List.length_pos_iff.2 hne
  have h1 : (ys.length : α) ≠ 0 := Nat.cast_ne_zero.2 (by omega)
  have h2 : ((ys.length + n : Nat) : α) ≠ 0 := Nat.cast_ne_zero.2 (by omega)
  rw [Avg1D.foldl_add_zero, sum_const h, div_mul_cancel₀ _ h1, div_eq_iff h2]
  push_cast
  ring

theorem fh_tell {s : State α} (h : FH s) (seed : Nat) (x y : α) :
    FH (tell lossFn r12 sqrt tq hypot s seed x y) := by
  unfold tell
  dsimp only
  cases hf : Avg1D.find? s.samp x with
  | none => exact fh_tellNew lossFn r12 sqrt tq hypot h seed y hf
  | some p =>
    dsimp only
    split
    · exact h
    · rename_i hany
      have hk : seed ∉ p.samples.map Prod.fst := by
        intro hmem
        obtain ⟨e, he, rfl⟩ := List.mem_map.1 hmem
        exact hany (List.any_eq_true.2 ⟨e, he, by simp⟩)
      obtain ⟨u, _, e⟩ := Avg1D.tell_resample sqrt tq s.samp seed x y p hf hk
      show FH (afterResample lossFn r12 hypot s (Avg1D.tell sqrt tq s.samp seed x y) x [y])
      apply fh_afterResample lossFn r12 hypot h hf _ (Avg1D.resamplePt sqrt tq p seed y)
        (by rw [e]) (Avg1D.find?_some hf).2
      intro a hy hpa
      have hya : y = a := hy y List.mem_cons_self
      show p.mean * (p.samples.length : α) / ((p.samples.length + 1 : Nat) : α) +
        y / ((p.samples.length + 1 : Nat) : α) = a
      rw [hpa, hya]
      exact resample_mean_flat a _

/-- the batch part of `tell_many_at_point` at a known abscissa, seeds of the mapping distinct -/
theorem fh_batch {s : State α} (h : FH s) {x : α} {p : Avg1D.Pt α}
    (hf : Avg1D.find? s.samp x = some p) (kv : Nat × α) (rest : List (Nat × α))
    (hnd : ((kv :: rest).map Prod.fst).Nodup) :
    FH (afterResample lossFn r12 hypot s (Avg1D.tellManyAtPoint sqrt tq s.samp x (kv :: rest)) x
      [L1D.minOfL (samplesOf (Avg1D.tellManyAtPoint sqrt tq s.samp x (kv :: rest)) x),
       L1D.maxOfL (samplesOf (Avg1D.tellManyAtPoint sqrt tq s.samp x (kv :: rest)) x)]) := by
  rw [Avg1D.tellMany_some_cons sqrt tq s.samp x p kv rest hf]
  have hso : samplesOf (Avg1D.batchState sqrt tq s.samp x p (kv :: rest)) x =
      (Avg1D.dictUpdate p.samples (kv :: rest)).map Prod.snd := by
    unfold samplesOf
    rw [Avg1D.find?_batchState sqrt tq s.samp x p (kv :: rest) hf]
    rfl
  rw [hso]
  apply fh_afterResample lossFn r12 hypot h hf _ (Avg1D.batchPt sqrt tq p (kv :: rest)) rfl
    (Avg1D.find?_some hf).2
  intro a hy hpa
  have hmin := hy _ List.mem_cons_self
  have hmax := hy _ (List.mem_cons_of_mem _ List.mem_cons_self)
  have hall : ∀ z ∈ (kv :: rest).map Prod.snd, z = a := by
    intro z hz
    obtain ⟨e, he, rfl⟩ := List.mem_map.1 hz
    have hmem : e.2 ∈ (Avg1D.dictUpdate p.samples (kv :: rest)).map Prod.snd :=
      List.mem_map_of_mem (Avg1D.mem_dictUpdate_of_nodup _ _ hnd e he)
    exact le_antisymm (hmax ▸ L1D.le_maxOfL hmem) (hmin ▸ L1D.minOfL_le hmem)
  show (((kv :: rest).map Prod.snd).foldl (· + ·) 0 / (((kv :: rest).map Prod.snd).length : α) *
      (((kv :: rest).map Prod.snd).length : α) + p.mean * (p.n : α)) /
      ((((kv :: rest).map Prod.snd).length + p.n : Nat) : α) = a
  rw [hpa]
  exact batch_mean_flat a _ (by simp) hall _

/-- `tell_many_at_point` with distinct seeds -/
def OpND : Op α → Prop
  | .tellManyAtPoint _ m => (m.map Prod.fst).Nodup
  | _ => True

theorem fh_tellManyAtPoint {s : State α} (h : FH s) (x : α) (m : List (Nat × α))
    (hnd : (m.map Prod.fst).Nodup) : FH (tellManyAtPoint lossFn r12 sqrt tq hypot s x m) := by
  unfold tellManyAtPoint
  dsimp only
  cases m with
  | nil => cases Avg1D.find? s.samp x <;> exact h
  | cons kv rest =>
    cases hfx : Avg1D.find? s.samp x with
    | none =>
      obtain ⟨seed, y⟩ := kv
      have h0 : FH { s with pend := ((seed, y) :: rest).foldl (fun l kv => pendErase l kv.1 x) s.pend } := h
      have h1 := fh_tellNew lossFn r12 sqrt tq hypot h0 seed y hfx
      cases rest with
      | nil => exact h1
      | cons kv2 rest2 =>
        dsimp only
        have hf1 : Avg1D.find? (tellNew lossFn r12 sqrt tq hypot
            { s with pend := ((seed, y) :: kv2 :: rest2).foldl (fun l kv => pendErase l kv.1 x) s.pend }
            seed x y).samp x = some (Avg1D.newPt x seed y) := by
          rw [tellNew_samp]
          exact Avg1D.find?_tell_new sqrt tq s.samp seed x y hfx
        simp only [List.map_cons, List.nodup_cons] at hnd
        exact fh_batch lossFn r12 sqrt tq hypot h1 hf1 kv2 rest2
          (by simp only [List.map_cons, List.nodup_cons]; exact hnd.2)
    | some p =>
      dsimp only
      exact fh_batch lossFn r12 sqrt tq hypot (s := { s with pend := (kv :: rest).foldl (fun l kv => pendErase l kv.1 x) s.pend })
        h hfx kv rest hnd

theorem fh_tellPending {s : State α} (h : FH s) (seed : Nat) (x : α) :
    FH (tellPending lossFn r12 s seed x) := by
  unfold FH
  rw [tellPending_samp]
  unfold tellPending
  dsimp only
  split
  · exact h
  · have hc := L1D.core_updateLosses lossFn r12 { s.base with xsC := L1D.sinsert x s.base.xsC } x false
    have c1 := congrArg L1D.State.data hc
    have c2 := congrArg L1D.State.bboxY hc
    have c3 := congrArg L1D.State.scaleY hc
    show FHv (L1D.updateLosses lossFn r12 { s.base with xsC := L1D.sinsert x s.base.xsC } x false).data
      s.samp.pts (L1D.updateLosses lossFn r12 { s.base with xsC := L1D.sinsert x s.base.xsC } x false).bboxY
      (L1D.updateLosses lossFn r12 { s.base with xsC := L1D.sinsert x s.base.xsC } x false).scaleY
    have c1' : (L1D.updateLosses lossFn r12 { s.base with xsC := L1D.sinsert x s.base.xsC } x false).data = s.base.data := c1
    have c2' : (L1D.updateLosses lossFn r12 { s.base with xsC := L1D.sinsert x s.base.xsC } x false).bboxY = s.base.bboxY := c2
    have c3' : (L1D.updateLosses lossFn r12 { s.base with xsC := L1D.sinsert x s.base.xsC } x false).scaleY = s.base.scaleY := c3
    rw [c1', c2', c3']
    exact h

theorem fh_foldl_tellPending (pts : List (Nat × α)) {s : State α} (h : FH s) :
    FH (pts.foldl (fun s p => tellPending lossFn r12 s p.1 p.2) s) := by
  induction pts generalizing s with
  | nil => exact h
  | cons p ps ih => exact ih (fh_tellPending lossFn r12 h p.1 p.2)

theorem fh_step {s : State α} (h : FH s) (op : Op α) (hnd : OpND op) (hop : ∀ pts, op ≠ .tellMany pts) :
    FH (step lossFn r12 sqrt tq hypot s op) := by
  cases op with
  | tell seed x y => exact fh_tell lossFn r12 sqrt tq hypot h seed x y
  | tellPending seed x => exact fh_tellPending lossFn r12 h seed x
  | tellMany pts => exact absurd rfl (hop pts)
  | tellManyAtPoint x m => exact fh_tellManyAtPoint lossFn r12 sqrt tq hypot h x m hnd
  | removeUnfinished => exact h
  | ask n c commit =>
    show FH (match ask lossFn r12 sqrt s n c commit with
      | some r => r.2
      | none => s)
    unfold ask
    cases askPts r12 sqrt s n c with
    | none => exact h
    | some q =>
      dsimp only [Option.map_some]
      split
      · exact fh_foldl_tellPending lossFn r12 _ h
      · exact h

/-- `FlatHist` HOLDS along every history (without `tell_many`, which `expandOps` removes) whose
`tell_many_at_point` mappings have distinct seeds, from any state satisfying the invariant -/
theorem flatHist_of_fh (ops : List (Op α)) : ∀ {s : State α}, FH s → (∀ op ∈ ops, OpND op) →
    NoTellMany ops → FlatHist lossFn r12 sqrt tq hypot s ops := by
  induction ops with
  | nil => intro s _ _ _; trivial
  | cons op ops ih =>
    intro s h hnd hno
    refine ⟨h.constAtZero, h.opFlat op, ?_⟩
    exact ih (fh_step lossFn r12 sqrt tq hypot h op (hnd op List.mem_cons_self)
        (hno op List.mem_cons_self))
      (fun o ho => hnd o (List.mem_cons_of_mem _ ho)) (fun o ho => hno o (List.mem_cons_of_mem _ ho))

/-! ### the mappings `tell_many` builds have distinct seeds -/

theorem keys_upd1 {β : Type} (d : List (Nat × β)) (kv : Nat × β) (h : (d.map Prod.fst).Nodup) :
    ((Avg1D.upd1 d kv).map Prod.fst).Nodup := by
  unfold Avg1D.upd1
  split
  · have e : (d.map (fun e => if e.1 == kv.1 then kv else e)).map Prod.fst = d.map Prod.fst := by
      rw [List.map_map]
      apply List.map_congr_left
      intro e _
      simp only [Function.comp]
      split
      · rename_i hk
        exact (by simpa using hk : e.1 = kv.1).symm
      · rfl
    rw [e]; exact h
  · rename_i hany
    rw [List.map_append, List.nodup_append]
    refine ⟨h, by simp, ?_⟩
    intro a ha b hb
    simp only [List.map_cons, List.map_nil, List.mem_singleton] at hb
    subst hb
    intro hab
    subst hab
    obtain ⟨e, he, hek⟩ := List.mem_map.1 ha
    exact hany (List.any_eq_true.2 ⟨e, he, by simpa using hek⟩)

theorem groupPts_nodup (pts : List ((Nat × α) × α)) :
    ∀ g ∈ groupPts pts, (g.2.map Prod.fst).Nodup := by
  unfold groupPts
  have key : ∀ (l : List ((Nat × α) × α)) (m : List (α × List (Nat × α))),
      (∀ g ∈ m, (g.2.map Prod.fst).Nodup) →
      ∀ g ∈ l.foldl (fun m p =>
        if m.any (fun e => decide (e.1 = p.1.2)) then
          m.map (fun e => if e.1 = p.1.2 then (e.1, Avg1D.dictUpdate e.2 [(p.1.1, p.2)]) else e)
        else m ++ [(p.1.2, [(p.1.1, p.2)])]) m, (g.2.map Prod.fst).Nodup := by
    intro l
    induction l with
    | nil => intro m hm; exact hm
    | cons p l ih =>
      intro m hm
      rw [List.foldl_cons]
      apply ih
      intro g hg
      split at hg
      · obtain ⟨e, he, rfl⟩ := List.mem_map.1 hg
        split
        · exact keys_upd1 e.2 (p.1.1, p.2) (hm e he)
        · exact hm e he
      · rcases List.mem_append.1 hg with h | h
        · exact hm g h
        · rw [List.mem_singleton.1 h]; simp
  exact key pts [] (fun g hg => by cases hg)

theorem opND_groupOps (pts : List ((Nat × α) × α)) : ∀ op ∈ groupOps pts, OpND op := by
  intro op hop
  unfold groupOps at hop
  obtain ⟨g, hg, hgo⟩ := List.mem_filterMap.1 hop
  have hn := groupPts_nodup pts g hg
  unfold groupOp at hgo
  split at hgo
  · cases hgo
  · cases hgo; trivial
  · cases hgo; exact hn

theorem opND_expandOps {ops : List (Op α)} (h : ∀ op ∈ ops, OpND op) :
    ∀ op ∈ expandOps ops, OpND op := by
  intro op hop
  unfold expandOps at hop
  obtain ⟨o, ho, hoo⟩ := List.mem_flatMap.1 hop
  cases o with
  | tellMany pts => exact opND_groupOps pts op hoo
  | tell a b c => simp at hoo; subst hoo; trivial
  | tellPending a b => simp at hoo; subst hoo; trivial
  | tellManyAtPoint a b => simp at hoo; subst hoo; exact h _ ho
  | removeUnfinished => simp at hoo; subst hoo; trivial
  | ask a b c => simp at hoo; subst hoo; trivial

/-- `FlatHist` HOLDS along every history from `init` whose `tell_many_at_point` mappings have
distinct seeds (`tell_many` builds such mappings by itself) -/
theorem flatHist_init (lo hi factor dxEps : α) (nn : Nat) (delta minError : α) (minS maxS : Nat)
    (ns : α) (ops : List (Op α)) (hnd : ∀ op ∈ ops, OpND op) :
    FlatHist lossFn r12 sqrt tq hypot (init lo hi factor dxEps nn delta minError minS maxS ns)
      (expandOps ops) :=
  flatHist_of_fh lossFn r12 sqrt tq hypot _ (fh_init lo hi factor dxEps nn delta minError minS maxS ns)
    (opND_expandOps hnd) (noTellMany_expandOps ops)

/-- the invariant holds in every reachable state -/
theorem fh_run (ops : List (Op α)) : ∀ {s : State α}, FH s → (∀ op ∈ ops, OpND op) → NoTellMany ops →
    FH (run lossFn r12 sqrt tq hypot s ops) := by
  induction ops with
  | nil => intro s h _ _; exact h
  | cons op ops ih =>
    intro s h hnd hno
    exact ih (fh_step lossFn r12 sqrt tq hypot h op (hnd op List.mem_cons_self)
        (hno op List.mem_cons_self))
      (fun o ho => hnd o (List.mem_cons_of_mem _ ho)) (fun o ho => hno o (List.mem_cons_of_mem _ ho))

end Avg1DFull
