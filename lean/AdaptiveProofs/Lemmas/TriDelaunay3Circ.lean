import AdaptiveProofs.Lemmas.TriDelaunay3
import AdaptiveProofs.Props.C20

/-!
Bridge between the polynomial in-sphere predicate of `Lemmas/TriDelaunay3.lean` and the test the implementation
performs in dimension 3: `Triangulation.point_in_cicumcircle` computes `center, radius = circumsphere(vertices)` and
answers `norm(center - pt) < radius * (1 + eps)`, `eps = 1e-8`.  `circumsphere3` is the generated definition
(`AdaptiveModel/Gen/Prims.lean`, it is `fast_3d_circumcircle`), `sqrt` any function with `SqrtLaw` (exact square root
on non-negative arguments; IEEE rounding is outside).  For `eps = 0` and a non-degenerate tetrahedron the test IS the
polynomial predicate.
-/
namespace Tri
open Gen.Prims Prims
variable {α : Type} [Field α] [LinearOrder α] [IsStrictOrderedRing α]

/-- the implementation's test with tolerance `eps` (the code: `eps = 1e-8`), `norm = sqrt (dsq3 …)` -/
def sphTest (sqrt : α → α) (eps : α) (a b c d p : α × α × α) : Prop :=
  sqrt (dsq3 (circumsphere3 sqrt a.1 a.2.1 a.2.2 b.1 b.2.1 b.2.2 c.1 c.2.1 c.2.2 d.1 d.2.1 d.2.2).1.1
      (circumsphere3 sqrt a.1 a.2.1 a.2.2 b.1 b.2.1 b.2.2 c.1 c.2.1 c.2.2 d.1 d.2.1 d.2.2).1.2.1
      (circumsphere3 sqrt a.1 a.2.1 a.2.2 b.1 b.2.1 b.2.2 c.1 c.2.1 c.2.2 d.1 d.2.1 d.2.2).1.2.2 p.1 p.2.1 p.2.2)
    < (circumsphere3 sqrt a.1 a.2.1 a.2.2 b.1 b.2.1 b.2.2 c.1 c.2.1 c.2.2 d.1 d.2.1 d.2.2).2 * (1 + eps)

omit [LinearOrder α] [IsStrictOrderedRing α] in
theorem cross3_eq_sideP (a b c d : α × α × α) :
    cross3 a.1 a.2.1 a.2.2 b.1 b.2.1 b.2.2 c.1 c.2.1 c.2.2 d.1 d.2.1 d.2.2 = sideP a b c d := by
  obtain ⟨a1, a2, a3⟩ := a; obtain ⟨b1, b2, b3⟩ := b; obtain ⟨c1, c2, c3⟩ := c; obtain ⟨d1, d2, d3⟩ := d
  simp only [cross3, sideP, det3, Prod.mk_sub_mk]

/-- squared form: centre and radius of `circumsphere3`, `dist(center, p)² < radius²` ⟺ the polynomial predicate -/
theorem circumsphere3_sq_test_iff_inSphere (sqrt : α → α) (hs : SqrtLaw sqrt) (a b c d p : α × α × α)
    (h : sideP a b c d ≠ 0) :
    dsq3 (circumsphere3 sqrt a.1 a.2.1 a.2.2 b.1 b.2.1 b.2.2 c.1 c.2.1 c.2.2 d.1 d.2.1 d.2.2).1.1
        (circumsphere3 sqrt a.1 a.2.1 a.2.2 b.1 b.2.1 b.2.2 c.1 c.2.1 c.2.2 d.1 d.2.1 d.2.2).1.2.1
        (circumsphere3 sqrt a.1 a.2.1 a.2.2 b.1 b.2.1 b.2.2 c.1 c.2.1 c.2.2 d.1 d.2.1 d.2.2).1.2.2 p.1 p.2.1 p.2.2
      < (circumsphere3 sqrt a.1 a.2.1 a.2.2 b.1 b.2.1 b.2.2 c.1 c.2.1 c.2.2 d.1 d.2.1 d.2.2).2 *
        (circumsphere3 sqrt a.1 a.2.1 a.2.2 b.1 b.2.1 b.2.2 c.1 c.2.1 c.2.2 d.1 d.2.1 d.2.2).2
    ↔ InSphere a b c d p := by
  have hx : cross3 a.1 a.2.1 a.2.2 b.1 b.2.1 b.2.2 c.1 c.2.1 c.2.2 d.1 d.2.1 d.2.2 ≠ 0 := by
    rw [cross3_eq_sideP]; exact h
  obtain ⟨k1, k2, k3⟩ := C20.circ3_equidistant sqrt a.1 a.2.1 a.2.2 b.1 b.2.1 b.2.2 c.1 c.2.1 c.2.2 d.1 d.2.1 d.2.2 hx
  obtain ⟨_, k0⟩ := C20.circ3_radius sqrt hs a.1 a.2.1 a.2.2 b.1 b.2.1 b.2.2 c.1 c.2.1 c.2.2 d.1 d.2.1 d.2.2 hx
  simp only [C20.circumsphere3_eq]
  generalize fast_3d_circumcircle sqrt a.1 a.2.1 a.2.2 b.1 b.2.1 b.2.2 c.1 c.2.1 c.2.2 d.1 d.2.1 d.2.2 = r
    at k0 k1 k2 k3 ⊢
  rw [inSphere_iff_dist a b c d p r.1 (r.2 * r.2) h
    (by rw [k0]; simp only [dsq3, dist3]; ring) (by rw [k0, ← k1]; simp only [dsq3, dist3]; ring)
    (by rw [k0, ← k2]; simp only [dsq3, dist3]; ring) (by rw [k0, ← k3]; simp only [dsq3, dist3]; ring)]
  simp only [dsq3, dist3]
  constructor <;> intro h' <;> linarith

/-- THE TEST OF `point_in_cicumcircle` WITHOUT TOLERANCE IS THE POLYNOMIAL PREDICATE (dimension 3): for a non-degenerate
tetrahedron `norm(center - pt) < radius * (1 + 0)` ⟺ `pt` strictly inside the circumsphere (`InSphere`). -/
theorem sphTest_zero_iff_inSphere (sqrt : α → α) (hs : SqrtLaw sqrt) (a b c d p : α × α × α) (h : sideP a b c d ≠ 0) :
    sphTest sqrt 0 a b c d p ↔ InSphere a b c d p := by
  rw [← circumsphere3_sq_test_iff_inSphere sqrt hs a b c d p h]
  have hx : cross3 a.1 a.2.1 a.2.2 b.1 b.2.1 b.2.2 c.1 c.2.1 c.2.2 d.1 d.2.1 d.2.2 ≠ 0 := by
    rw [cross3_eq_sideP]; exact h
  obtain ⟨hr, _⟩ := C20.circ3_radius sqrt hs a.1 a.2.1 a.2.2 b.1 b.2.1 b.2.2 c.1 c.2.1 c.2.2 d.1 d.2.1 d.2.2 hx
  simp only [sphTest, C20.circumsphere3_eq, add_zero, mul_one]
  generalize fast_3d_circumcircle sqrt a.1 a.2.1 a.2.2 b.1 b.2.1 b.2.2 c.1 c.2.1 c.2.2 d.1 d.2.1 d.2.2 = r at hr ⊢
  have hd : 0 ≤ dsq3 r.1.1 r.1.2.1 r.1.2.2 p.1 p.2.1 p.2.2 :=
    add_nonneg (add_nonneg (mul_self_nonneg _) (mul_self_nonneg _)) (mul_self_nonneg _)
  obtain ⟨hn, hn2⟩ := hs _ hd
  rw [mul_self_lt_mul_self_iff hn hr, hn2]

/-- with a positive tolerance the test only gets weaker: strictly inside ⇒ the code answers `True` (the converse fails:
points outside but within the relative tolerance are reported inside — finding `C03.tiling:incircle_decided_by_eps`) -/
theorem inSphere_imp_sphTest (sqrt : α → α) (hs : SqrtLaw sqrt) (a b c d p : α × α × α) (h : sideP a b c d ≠ 0)
    (eps : α) (he : 0 ≤ eps) (hin : InSphere a b c d p) : sphTest sqrt eps a b c d p := by
  have h0 := (sphTest_zero_iff_inSphere sqrt hs a b c d p h).mpr hin
  have hx : cross3 a.1 a.2.1 a.2.2 b.1 b.2.1 b.2.2 c.1 c.2.1 c.2.2 d.1 d.2.1 d.2.2 ≠ 0 := by
    rw [cross3_eq_sideP]; exact h
  obtain ⟨hr, _⟩ := C20.circ3_radius sqrt hs a.1 a.2.1 a.2.2 b.1 b.2.1 b.2.2 c.1 c.2.1 c.2.2 d.1 d.2.1 d.2.2 hx
  simp only [sphTest, C20.circumsphere3_eq, add_zero, mul_one] at h0 hr ⊢
  have := mul_nonneg hr he
  linarith

end Tri
