import AdaptiveProofs.Lemmas.RunnerBasic

/-!
Frame facts of `Runner.step` (configuration never changes, `processFutures` only removes
pending futures) and the in-flight bound (C05.b, C05.c), retries first (C06.b).
-/
namespace Runner

/-! ### frame facts -/

theorem processOne_frame (s : State) (fut : Nat) (o : Outcome) :
    (processOne s fut o).1.cfg = s.cfg ∧
    (processOne s fut o).1.pending.length ≤ s.pending.length ∧
    ((processOne s fut o).1.phase = s.phase ∨ (processOne s fut o).1.phase = .stuck) := by
  cases h : aget fut s.pending with
  | none => simp [processOne_none h]
  | some pid =>
    have hl := length_aerase_le fut s.pending
    cases o with
    | ok y => simp [processOne_ok h, emit, hl]
    | fail =>
      rw [processOne_fail h]
      split
      · split <;> simp [hl]
      · simp [hl]

theorem processOne_length_lt {s : State} {fut : Nat} {o : Outcome}
    (hp : (processOne s fut o).1.phase ≠ .stuck) (_hs : s.phase ≠ .stuck) :
    (processOne s fut o).1.pending.length < s.pending.length := by
  cases h : aget fut s.pending with
  | none => simp [processOne_none h] at hp
  | some pid =>
    have hl := length_aerase h
    cases o with
    | ok y => simp [processOne_ok h, emit]; omega
    | fail =>
      rw [processOne_fail h]
      split
      · split <;> simp <;> omega
      · simp; omega

theorem processFutures_frame (l : List (Nat × Outcome)) (s : State) :
    (processFutures s l).1.cfg = s.cfg ∧
    (processFutures s l).1.pending.length ≤ s.pending.length ∧
    ((processFutures s l).1.phase = s.phase ∨ (processFutures s l).1.phase = .stuck) := by
  refine processFutures_induct
    (fun s' => s'.cfg = s.cfg ∧ s'.pending.length ≤ s.pending.length ∧
      (s'.phase = s.phase ∨ s'.phase = .stuck)) l ?_ s ⟨rfl, Nat.le_refl _, Or.inl rfl⟩
  intro s1 fut o _ ⟨a, b, c⟩
  obtain ⟨a', b', c'⟩ := processOne_frame s1 fut o
  refine ⟨a'.trans a, Nat.le_trans b' b, ?_⟩
  rcases c' with c' | c'
  · rw [c']; exact c
  · exact Or.inr c'

/-- a non-empty batch that is processed without getting stuck frees at least one slot -/
theorem processFutures_length_lt {l : List (Nat × Outcome)} {s : State} (hl : l ≠ [])
    (hs : s.phase ≠ .stuck) (hp : (processFutures s l).1.phase ≠ .stuck) :
    (processFutures s l).1.pending.length < s.pending.length := by
  cases l with
  | nil => exact absurd rfl hl
  | cons a r =>
    obtain ⟨fut, o⟩ := a
    unfold processFutures at hp ⊢
    split at hp
    · rename_i s' e heq
      simp only at hp ⊢
      have := @processOne_length_lt s fut o (by rw [heq]; exact hp) hs
      rw [heq] at this; exact this
    · rename_i s' heq
      split at hp
      · rename_i hst; exact absurd hst hp
      · rename_i hst
        rw [if_neg hst]
        have h1 := @processOne_length_lt s fut o (by rw [heq]; exact hst) hs
        rw [heq] at h1
        have h2 := (processFutures_frame r s').2.1
        simp only at h1
        omega

theorem beginGet_cfg (s : State) : (beginGet s).cfg = s.cfg := by
  unfold beginGet
  simp only []
  split <;> simp [submitAll_eq]

theorem finishAsk_cfg (s : State) (n : Nat) (pids pts : List Nat) :
    (finishAsk s n pids pts).cfg = s.cfg := by
  simp [finishAsk, submitAll_eq, emit]

theorem finishExit_cfg (s : State) (st : Status) (l : List (Nat × Outcome)) :
    (finishExit s st l).cfg = s.cfg := by
  unfold finishExit
  have := (processFutures_frame l s).1
  split
  · split
    · rename_i heq; rw [heq] at this; exact this
    · rename_i heq; rw [heq] at this
      split <;> exact this
  · rfl

theorem step_cfg (s : State) (e : Ev) : (step s e).cfg = s.cfg := by
  unfold step
  split
  · simp only []
    split
    · simp [beginExit_eq, emit]
    · simp [beginGet_cfg, emit]
  · exact finishAsk_cfg ..
  · split
    · rfl
    · rename_i l _ _
      have := (processFutures_frame l s).1
      split
      · rename_i heq; rw [heq] at this; simpa [beginExit_eq] using this
      · rename_i heq; rw [heq] at this
        split <;> exact this
  · split
    · rfl
    · simp [beginExit_eq]
  · exact finishExit_cfg ..
  · split <;> rfl
  · rfl
  · rfl

theorem run_cfg (evs : List Ev) : ∀ s : State, (run s evs).cfg = s.cfg := by
  induction evs with
  | nil => intro s; rfl
  | cons e es ih => intro s; simp only [run, List.foldl_cons]; exact (ih _).trans (step_cfg s e)

theorem run_cons (s : State) (e : Ev) (es : List Ev) : run s (e :: es) = run (step s e) es := rfl

theorem run_append (s : State) (es : List Ev) (e : Ev) : run s (es ++ [e]) = step (run s es) e := by
  simp [run, List.foldl_append]

/-! ### the in-flight bound -/

/-- at most `ntasks` futures in flight; inside `_ask` the request size is the number of free slots -/
def BoundInv (s : State) : Prop :=
  s.pending.length ≤ s.cfg.ntasks ∧
  ∀ n pids, s.phase = .asking n pids → n = s.cfg.ntasks - s.pending.length ∧ pids.length < n

theorem boundInv_init (cfg : Cfg) : BoundInv (init cfg) := by
  simp [BoundInv, init]

theorem beginGet_spec (s : State) :
    let n := s.cfg.ntasks - s.pending.length
    (retryPids s).length < n ∧
      beginGet s = { logIf s (.ask n) with phase := .asking n (retryPids s) } ∨
    n ≤ (retryPids s).length ∧
      beginGet s = { submitAll (logIf s (.ask n)) ((retryPids s).take n) with phase := .waiting } := by
  simp only [beginGet, logIf_cfg, logIf_pending, retryPids_logIf, List.length_take]
  by_cases h : (retryPids s).length < s.cfg.ntasks - s.pending.length
  · left
    refine ⟨h, ?_⟩
    rw [if_pos (by omega), List.take_of_length_le (by omega)]
  · right
    refine ⟨by omega, ?_⟩
    rw [if_neg (by omega)]

theorem boundInv_step {s : State} (h : BoundInv s) (e : Ev) (he : EvOK s e) :
    BoundInv (step s e) := by
  obtain ⟨hb, ha⟩ := h
  unfold step
  split
  · -- head, goal
    simp only []
    split
    · simp [BoundInv, beginExit_eq, emit, hb]
      split <;> simp
    · rcases beginGet_spec (emit s (.goal _)) with ⟨h1, h2⟩ | ⟨h1, h2⟩
      · rw [h2]
        simp only [emit] at h1 ⊢
        simp [BoundInv, hb, h1]
      · rw [h2]
        simp only [emit] at h1 ⊢
        simp [BoundInv, submitAll_eq, List.length_take]
        omega
  · -- asking, asked
    rename_i n pids pts hph
    obtain ⟨hn, hp⟩ := ha n pids hph
    simp only [EvOK, hph] at he
    simp [BoundInv, finishAsk, submitAll_eq, emit]
    omega
  · -- waiting, done
    split
    · simp [BoundInv, hb]
    · rename_i l hph _
      obtain ⟨a, b, c⟩ := processFutures_frame l s
      split
      · rename_i heq; rw [heq] at a b c; simp only at a b c
        simp [BoundInv, beginExit_eq, a]
        refine ⟨by omega, ?_⟩
        split <;> simp
      · rename_i heq; rw [heq] at a b c; simp only at a b c
        split
        · rename_i hst
          simp [BoundInv, a, hst]; omega
        · simp [BoundInv, a]; omega
  · split
    · simp [BoundInv, hb]
    · simp [BoundInv, beginExit_eq, hb]
      split <;> simp
  · -- exitWait, remaining
    rename_i st l hph
    unfold finishExit
    obtain ⟨a, b, c⟩ := processFutures_frame l s
    split
    · split
      · rename_i heq; rw [heq] at a b c; simp only at a b c
        simp [BoundInv, a]; omega
      · rename_i heq; rw [heq] at a b c; simp only at a b c
        split
        · rename_i hst; simp [BoundInv, a, hst]; omega
        · simp [BoundInv, a]; omega
    · simp [BoundInv, hb]
  · split <;> simp [BoundInv, hb]
  · exact ⟨hb, ha⟩
  · simp [BoundInv, hb]

theorem boundInv_run (evs : List Ev) : ∀ s : State, BoundInv s → EvsOK s evs → BoundInv (run s evs) := by
  induction evs with
  | nil => intro s h _; exact h
  | cons e es ih =>
    intro s h hok
    exact ih (step s e) (boundInv_step h e hok.1) hok.2

/-! ### `EvsOK` is decidable (for the concrete runs in the property files) -/

def evOKb (s : State) : Ev → Bool
  | .asked pts => match s.phase with
    | .asking n pids => decide (pts.length ≤ n - pids.length)
    | _ => true
  | _ => true

theorem evOKb_iff (s : State) (e : Ev) : evOKb s e = true ↔ EvOK s e := by
  cases e <;> simp only [evOKb, EvOK]
  cases s.phase <;> simp

def evsOKb (s : State) : List Ev → Bool
  | [] => true
  | e :: es => evOKb s e && evsOKb (step s e) es

theorem evsOKb_iff (evs : List Ev) : ∀ s : State, evsOKb s evs = true ↔ EvsOK s evs := by
  induction evs with
  | nil => intro s; simp [evsOKb, EvsOK]
  | cons e es ih => intro s; simp [evsOKb, EvsOK, evOKb_iff, ih]

instance (s : State) (evs : List Ev) : Decidable (EvsOK s evs) :=
  decidable_of_iff _ (evsOKb_iff evs s)

/-- C05.c, first half -/
theorem boundInv_asked_full {s : State} (h : BoundInv s) {n : Nat} {pids pts : List Nat}
    (hph : s.phase = .asking n pids) (hlen : pts.length = n - pids.length) :
    (step s (.asked pts)).phase = .waiting ∧ (step s (.asked pts)).pending.length = s.cfg.ntasks := by
  obtain ⟨hn, hp⟩ := h.2 n pids hph
  have hb := h.1
  unfold step
  simp [hph, finishAsk, submitAll_eq, emit]
  omega

/-- C05.c, second half -/
theorem boundInv_refill_full {s : State} (h : BoundInv s) (hph : s.phase = .head)
    (hw : (step s (.goal false)).phase = .waiting) :
    (step s (.goal false)).pending.length = s.cfg.ntasks := by
  have hb := h.1
  unfold step at hw ⊢
  simp only [hph] at hw ⊢
  rcases beginGet_spec (emit s (.goal false)) with ⟨h1, h2⟩ | ⟨h1, h2⟩
  · simp [h2] at hw
  · simp only [Bool.false_eq_true, if_false]
    rw [h2]
    simp only [emit] at h1 ⊢
    simp [submitAll_eq, List.length_take]
    omega

/-- C06.b -/
theorem retry_first_aux {s : State} {n : Nat} {pids : List Nat} (hph : s.phase = .head)
    (ha : (step s (.goal false)).phase = .asking n pids) :
    pids = retryPids s ∧
      ∀ pts, ∃ tr, (step (step s (.goal false)) (.asked pts)).trace =
        (step s (.goal false)).trace ++ Call.ask (n - pids.length) pts :: tr ∧
        (tr.take pids.length).map (fun c => match c with | .submit _ p _ => p | _ => 0) = pids := by
  have hstep : step s (.goal false) = beginGet (emit s (.goal false)) := by
    unfold step; simp [hph]
  rw [hstep] at ha ⊢
  rcases beginGet_spec (emit s (.goal false)) with ⟨h1, h2⟩ | ⟨h1, h2⟩
  · rw [h2] at ha ⊢
    simp only [Phase.asking.injEq] at ha
    obtain ⟨hn, hp⟩ := ha
    have hr : retryPids (emit s (.goal false)) = retryPids s := by simp [retryPids, emit]
    rw [hr] at hp
    refine ⟨hp.symm, ?_⟩
    intro pts
    rw [hr, hp, hn]
    unfold step
    simp only [finishAsk, submitAll_eq, emit, List.append_assoc, List.singleton_append]
    refine ⟨_, rfl, ?_⟩
    exact submitCalls_take_pids ..
  · simp [h2] at ha

end Runner
