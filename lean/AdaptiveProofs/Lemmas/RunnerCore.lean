import AdaptiveProofs.Lemmas.RunnerBasic

/-!
The bookkeeping invariant of the runner model, stated on the raw components of the state
(so that updates of unrelated fields are invisible), and its preservation by the primitive
transitions: an inert call, one `_submit`, one `learner.ask`, one processed result.
-/
namespace Runner

/-- same body as `TellsLegal` of `Props/C05.lean` -/
def TellsLegalL (tr : List Call) : Prop :=
  ∀ tr1 tr2 fut pid x y, tr = tr1 ++ Call.tell fut pid x y :: tr2 →
    Call.submit fut pid x ∈ tr1 ∧ (askedPts tr1)[pid]? = some x ∧ nTell pid tr1 = 0 ∧
    (∀ p x' y', Call.tell fut p x' y' ∉ tr1)

theorem tellsLegal_nil : TellsLegalL [] := by
  intro tr1 tr2 fut pid x y e
  simp at e

/-- the prefix property is stable under appending a call -/
theorem tellsLegal_snoc {tr : List Call} {c : Call} (h : TellsLegalL tr)
    (hc : ∀ fut pid x y, c = .tell fut pid x y →
      Call.submit fut pid x ∈ tr ∧ (askedPts tr)[pid]? = some x ∧ nTell pid tr = 0 ∧
      (∀ p x' y', Call.tell fut p x' y' ∉ tr)) : TellsLegalL (tr ++ [c]) := by
  intro tr1 tr2 fut pid x y e
  rcases List.eq_nil_or_concat tr2 with rfl | ⟨t, b, rfl⟩
  · obtain ⟨e1, e2⟩ := List.append_inj' e (by simp)
    subst e1
    simp only [List.cons.injEq, and_true] at e2
    exact hc fut pid x y e2
  · rw [List.concat_eq_append, ← List.cons_append, ← List.append_assoc] at e
    obtain ⟨e1, _⟩ := List.append_inj' e (by simp)
    exact h tr1 t fut pid x y e1

theorem getElem?_append_some {l l' : List Nat} {i x : Nat} (h : l[i]? = some x) :
    (l ++ l')[i]? = some x := by
  have hi : i < l.length := by
    rcases Nat.lt_or_ge i l.length with h' | h'
    · exact h'
    · rw [List.getElem?_eq_none h'] at h; cases h
  rw [List.getElem?_append_left hi]; exact h

theorem lt_of_getElem?_some {l : List Nat} {i x : Nat} (h : l[i]? = some x) : i < l.length := by
  rcases Nat.lt_or_ge i l.length with h' | h'
  · exact h'
  · rw [List.getElem?_eq_none h'] at h; cases h

theorem pids_inj {pend : List (Nat × Nat)} (h : (pend.map Prod.snd).Nodup) {f f' p : Nat}
    (h1 : (f, p) ∈ pend) (h2 : (f', p) ∈ pend) : f = f' := by
  induction pend with
  | nil => simp at h1
  | cons a r ih =>
    obtain ⟨a1, a2⟩ := a
    simp only [List.map_cons, List.nodup_cons, List.mem_map, Prod.exists, exists_eq_right,
      not_exists] at h
    simp only [List.mem_cons, Prod.mk.injEq] at h1 h2
    rcases h1 with ⟨rfl, rfl⟩ | h1 <;> rcases h2 with ⟨rfl, e⟩ | h2
    · rfl
    · exact absurd h2 (h.1 _)
    · subst e; exact absurd h1 (h.1 _)
    · exact ih h.2 h1 h2

theorem mem_pids_aerase {pend : List (Nat × Nat)} {fut pid : Nat}
    (h1 : (pend.map Prod.fst).Nodup) (h2 : (pend.map Prod.snd).Nodup)
    (h : aget fut pend = some pid) {p : Nat} :
    p ∈ (aerase fut pend).map Prod.snd ↔ p ∈ pend.map Prod.snd ∧ p ≠ pid := by
  have hm := mem_of_aget h
  simp only [List.mem_map, Prod.exists, exists_eq_right]
  constructor
  · rintro ⟨f, hf⟩
    rw [mem_aerase_iff h1] at hf
    refine ⟨⟨f, hf.2⟩, ?_⟩
    rintro rfl
    exact hf.1 (pids_inj h2 hf.2 hm)
  · rintro ⟨⟨f, hf⟩, hne⟩
    refine ⟨f, (mem_aerase_iff h1).2 ⟨?_, hf⟩⟩
    rintro rfl
    rw [aget_of_mem h1 hf] at h
    exact hne (Option.some.inj h)

theorem not_mem_futs_aerase {pend : List (Nat × Nat)} {fut : Nat}
    (h1 : (pend.map Prod.fst).Nodup) : fut ∉ (aerase fut pend).map Prod.fst :=
  aget_eq_none_iff.1 (aget_aerase_self h1)

structure Core (cfg : Cfg) (pend idp rty : List (Nat × Nat)) (tb : List Nat) (nid nfut : Nat)
    (tr : List Call) : Prop where
  pend_futs : (pend.map Prod.fst).Nodup
  pend_pids : (pend.map Prod.snd).Nodup
  pend_spec : ∀ fut pid, (fut, pid) ∈ pend →
    fut < nfut ∧ ∃ x, aget pid idp = some x ∧ Call.submit fut pid x ∈ tr
  id_keys : (idp.map Prod.fst).Nodup
  id_spec : ∀ pid x, aget pid idp = some x → (askedPts tr)[pid]? = some x
  asked_len : (askedPts tr).length = nid
  tell_le : ∀ pid, nTell pid tr ≤ 1
  tell_id : ∀ pid x, aget pid idp = some x → nTell pid tr = 0
  rty_keys : (rty.map Prod.fst).Nodup
  rty_spec : ∀ pid c, aget pid rty = some c →
    c = nFail pid tr ∧ 1 ≤ c ∧ c ≤ cfg.retries ∧ (aget pid idp).isSome = true
  count : ∀ pid, nSubmit pid tr =
    nFail pid tr + (if pid ∈ pend.map Prod.snd then 1 else 0) + nTell pid tr
  nr_spec : ∀ pid, aget pid rty = none →
    nFail pid tr = 0 ∨ (nTell pid tr = 1 ∧ nFail pid tr ≤ cfg.retries) ∨
    (nFail pid tr = cfg.retries + 1 ∧ pid ∉ pend.map Prod.snd ∧ (aget pid idp).isSome = true)
  tb_nodup : tb.Nodup
  tb_spec : ∀ pid, pid ∈ tb ↔ 0 < nFail pid tr ∧ (aget pid idp).isSome = true
  fresh : ∀ pid, nid ≤ pid → nFail pid tr = 0 ∧ nTell pid tr = 0
  tell_fut : ∀ fut p x y, Call.tell fut p x y ∈ tr → fut < nfut ∧ fut ∉ pend.map Prod.fst
  legal : TellsLegalL tr
  raise_spec : ∀ pid x, Call.raise pid x ∈ tr →
    cfg.raiseIf = true ∧ (askedPts tr)[pid]? = some x ∧ nFail pid tr = cfg.retries + 1

theorem core_init (cfg : Cfg) : Core cfg [] [] [] [] 0 0 [] := by
  constructor <;> simp [aget, tellsLegal_nil]

variable {cfg : Cfg} {pend idp rty : List (Nat × Nat)} {tb : List Nat} {nid nfut : Nat}
  {tr : List Call}

theorem Core.id_lt (h : Core cfg pend idp rty tb nid nfut tr) {pid x : Nat}
    (hx : aget pid idp = some x) : pid < nid := by
  have := lt_of_getElem?_some (h.id_spec pid x hx)
  rw [h.asked_len] at this; exact this

/-- a pid in flight has failed as often as `_to_retry` says, at most `retries` times -/
theorem Core.pend_fail (h : Core cfg pend idp rty tb nid nfut tr) {fut pid : Nat}
    (hm : (fut, pid) ∈ pend) :
    nFail pid tr = (aget pid rty).getD 0 ∧ nFail pid tr ≤ cfg.retries := by
  obtain ⟨_, x, hx, _⟩ := h.pend_spec fut pid hm
  have ht := h.tell_id pid x hx
  have hp : pid ∈ pend.map Prod.snd := List.mem_map.2 ⟨(fut, pid), hm, rfl⟩
  cases hr : aget pid rty with
  | some c =>
    obtain ⟨a, _, b, _⟩ := h.rty_spec pid c hr
    simp only [Option.getD_some]
    omega
  | none =>
    rcases h.nr_spec pid hr with a | ⟨a, _⟩ | ⟨_, a, _⟩
    · simp [a]
    · omega
    · exact absurd hp a

/-- calls that do not touch the bookkeeping -/
def Inert (c : Call) : Prop :=
  (∃ b, c = .goal b) ∨ c = .removeUnfinished ∨ (∃ f, c = .cancel f) ∨ (∃ p x, c = .raise p x)

theorem Core.snoc_inert (h : Core cfg pend idp rty tb nid nfut tr) {c : Call} (hc : Inert c)
    (hr : ∀ pid x, c = .raise pid x →
      cfg.raiseIf = true ∧ (askedPts tr)[pid]? = some x ∧ nFail pid tr = cfg.retries + 1) :
    Core cfg pend idp rty tb nid nfut (tr ++ [c]) := by
  have e1 : askedPts (tr ++ [c]) = askedPts tr := by
    rcases hc with ⟨_, rfl⟩ | rfl | ⟨_, rfl⟩ | ⟨_, _, rfl⟩ <;> simp
  have e2 : ∀ pid, nSubmit pid (tr ++ [c]) = nSubmit pid tr := by
    intro pid; rcases hc with ⟨_, rfl⟩ | rfl | ⟨_, rfl⟩ | ⟨_, _, rfl⟩ <;> simp
  have e3 : ∀ pid, nFail pid (tr ++ [c]) = nFail pid tr := by
    intro pid; rcases hc with ⟨_, rfl⟩ | rfl | ⟨_, rfl⟩ | ⟨_, _, rfl⟩ <;> simp
  have e4 : ∀ pid, nTell pid (tr ++ [c]) = nTell pid tr := by
    intro pid; rcases hc with ⟨_, rfl⟩ | rfl | ⟨_, rfl⟩ | ⟨_, _, rfl⟩ <;> simp
  have e5 : ∀ f p x, Call.submit f p x ∈ tr ++ [c] ↔ Call.submit f p x ∈ tr := by
    intro f p x; rcases hc with ⟨_, rfl⟩ | rfl | ⟨_, rfl⟩ | ⟨_, _, rfl⟩ <;> simp
  have e6 : ∀ f p x y, Call.tell f p x y ∈ tr ++ [c] ↔ Call.tell f p x y ∈ tr := by
    intro f p x y; rcases hc with ⟨_, rfl⟩ | rfl | ⟨_, rfl⟩ | ⟨_, _, rfl⟩ <;> simp
  refine ⟨h.pend_futs, h.pend_pids, ?_, h.id_keys, ?_, ?_, ?_, ?_, h.rty_keys, ?_, ?_, ?_,
    h.tb_nodup, ?_, ?_, ?_, ?_, ?_⟩
  · simpa only [e5] using h.pend_spec
  · simpa only [e1] using h.id_spec
  · simpa only [e1] using h.asked_len
  · simpa only [e4] using h.tell_le
  · simpa only [e4] using h.tell_id
  · simpa only [e3] using h.rty_spec
  · simpa only [e2, e3, e4] using h.count
  · simpa only [e3, e4] using h.nr_spec
  · simpa only [e3] using h.tb_spec
  · simpa only [e3, e4] using h.fresh
  · simpa only [e6] using h.tell_fut
  · refine tellsLegal_snoc h.legal ?_
    intro fut pid x y e
    rcases hc with ⟨_, rfl⟩ | rfl | ⟨_, rfl⟩ | ⟨_, _, rfl⟩ <;> cases e
  · intro pid x hm
    rw [e1, e3]
    rcases List.mem_append.1 hm with hm | hm
    · exact h.raise_spec pid x hm
    · exact hr pid x (List.mem_singleton.1 hm).symm

end Runner
