import AdaptiveProofs.Lemmas.RunnerBound

/-!
The log of the runner model under `log=True` without failing evaluations (C19).
-/
namespace Runner

/-- no evaluation of this event fails -/
def EvNoFail : Ev → Prop
  | .done l => ∀ fo ∈ l, fo.2 ≠ Outcome.fail
  | .remaining l => ∀ fo ∈ l, fo.2 ≠ Outcome.fail
  | _ => True

theorem noFail_cons {e : Ev} {es : List Ev} (h : noFail (e :: es) = true) :
    EvNoFail e ∧ noFail es = true := by
  cases e <;> simp_all [noFail, EvNoFail] <;> exact h.1

def CancelOrTell (c : Call) : Prop :=
  (∃ f, c = .cancel f) ∨ (∃ f p x y, c = .tell f p x y)

def IsTell (c : Call) : Prop := ∃ f p x y, c = .tell f p x y

@[simp] theorem logProj_snoc (tr : List Call) (c : Call) :
    logProj (tr ++ [c]) = logProj tr ++
      (match c with | .ask n _ => [.ask n] | .tell _ _ x y => [.tell x y] | _ => []) := by
  rw [logProj_append]; cases c <;> simp [logProj]

theorem logProj_cancels (l : List (Nat × Nat)) :
    logProj (l.map (fun fp => Call.cancel fp.1)) = [] := by
  induction l with
  | nil => rfl
  | cons a r ih => simp [logProj, ih]

theorem mem_submitCalls {idp : List (Nat × Nat)} {l : List Nat} :
    ∀ {nf : Nat} {c : Call}, c ∈ submitCalls idp nf l → ∃ f p x, c = .submit f p x := by
  induction l with
  | nil => intro nf c h; simp [submitCalls] at h
  | cons a r ih =>
    intro nf c h
    simp only [submitCalls, List.mem_cons] at h
    rcases h with rfl | h
    · exact ⟨_, _, _, rfl⟩
    · exact ih h

theorem logProj_submitCalls (idp : List (Nat × Nat)) (l : List Nat) :
    ∀ nf, logProj (submitCalls idp nf l) = [] := by
  induction l with
  | nil => intro nf; rfl
  | cons a r ih => intro nf; simp [submitCalls, logProj, ih]

theorem ask_not_mem_logProj_tells {tr : List Call} {k : Nat} (h : ∀ c ∈ tr, IsTell c) :
    LogEntry.ask k ∉ logProj tr := by
  induction tr with
  | nil => simp [logProj]
  | cons c r ih =>
    obtain ⟨_, _, _, _, rfl⟩ := h c (by simp)
    simp only [logProj, List.mem_cons, reduceCtorEq, false_or]
    exact ih (fun c hc => h c (by simp [hc]))

/-- with logging on, a successful result is logged as it is told -/
theorem processOne_ok_log {s : State} (hlog : s.cfg.doLog = true) (hr : s.toRetry = [])
    (fut : Nat) (y : Int) :
    (processOne s fut (.ok y)).2 = none ∧
    (processOne s fut (.ok y)).1.toRetry = [] ∧
    ∃ tr, (processOne s fut (.ok y)).1.trace = s.trace ++ tr ∧ (∀ c ∈ tr, IsTell c) ∧
      (processOne s fut (.ok y)).1.log = s.log ++ logProj tr := by
  cases hp : aget fut s.pending with
  | none =>
    rw [processOne_none hp]
    exact ⟨rfl, hr, [], by simp, by simp, by simp [logProj]⟩
  | some pid =>
    rw [processOne_ok hp]
    refine ⟨rfl, by simp [emit, hr, aerase],
      [Call.tell fut pid ((aget pid s.idToPoint).getD 0) y], by simp [emit], ?_, ?_⟩
    · intro c hc; simp only [List.mem_singleton] at hc; exact ⟨_, _, _, _, hc⟩
    · simp [emit, logIf_log, hlog, logProj]

theorem processFutures_ok_log (l : List (Nat × Outcome)) : ∀ {s : State},
    s.cfg.doLog = true → s.toRetry = [] → (∀ fo ∈ l, fo.2 ≠ Outcome.fail) →
    (processFutures s l).2 = none ∧
    (processFutures s l).1.toRetry = [] ∧
    ∃ tr, (processFutures s l).1.trace = s.trace ++ tr ∧ (∀ c ∈ tr, IsTell c) ∧
      (processFutures s l).1.log = s.log ++ logProj tr := by
  induction l with
  | nil => intro s _ hr _; exact ⟨rfl, hr, [], by simp [processFutures], by simp, by simp [processFutures, logProj]⟩
  | cons a r ih =>
    intro s hlog hr hl
    obtain ⟨fut, o⟩ := a
    have ho : o ≠ .fail := hl (fut, o) (by simp)
    cases o with
    | fail => exact absurd rfl ho
    | ok y =>
      obtain ⟨h1, h2, tr, h3, h4, h5⟩ := processOne_ok_log hlog hr fut y
      have hcfg := (processOne_frame s fut (.ok y)).1
      unfold processFutures
      split
      · rename_i heq; rw [heq] at h1; cases h1
      · rename_i s' heq
        rw [heq] at h2 h3 h5 hcfg
        simp only at h2 h3 h5 hcfg
        split
        · exact ⟨rfl, h2, tr, h3, h4, h5⟩
        · obtain ⟨i1, i2, tr', i3, i4, i5⟩ := @ih s' (by rw [hcfg]; exact hlog) h2
            (fun fo hfo => hl fo (by simp [hfo]))
          refine ⟨i1, i2, tr ++ tr', by rw [i3, h3, List.append_assoc], ?_, ?_⟩
          · intro c hc
            rcases List.mem_append.1 hc with x | x
            · exact h4 c x
            · exact i4 c x
          · rw [i5, h5, logProj_append, List.append_assoc]

structure LogInv (s : State) : Prop where
  rty : s.toRetry = []
  head : s.phase = .head → s.pending.length < s.cfg.ntasks
  log_eq : (∀ n pids, s.phase ≠ .asking n pids) → s.phase ≠ .stuck → s.log = logProj s.trace
  log_ask : ∀ n pids, s.phase = .asking n pids →
    s.log = logProj s.trace ++ [.ask n] ∧ pids = [] ∧ 1 ≤ n
  log_pos : ∀ k, LogEntry.ask k ∈ s.log → 1 ≤ k
  pre : (s.phase = .head ∨ s.phase = .waiting ∨ ∃ n pids, s.phase = .asking n pids) →
    Call.removeUnfinished ∉ s.trace
  post : ∀ st, (s.phase = .exitWait st ∨ s.phase = .stopped st) →
    ∃ tr1 tr2, s.trace = tr1 ++ Call.removeUnfinished :: tr2 ∧ Call.removeUnfinished ∉ tr1 ∧
      ∀ c ∈ tr2, CancelOrTell c

theorem logInv_init (cfg : Cfg) (hnt : 1 ≤ cfg.ntasks) : LogInv (init cfg) := by
  constructor <;> simp [init, logProj]
  omega

theorem logInv_beginExit {s : State} (st : Status) (hr : s.toRetry = [])
    (hlog : s.log = logProj s.trace) (hpos : ∀ k, LogEntry.ask k ∈ s.log → 1 ≤ k)
    (hpre : Call.removeUnfinished ∉ s.trace) : LogInv (beginExit s st) := by
  rw [beginExit_eq]
  have hph : ∀ ph, (if s.pending.isEmpty = true then Phase.stopped st else Phase.exitWait st) = ph →
      ph = .stopped st ∨ ph = .exitWait st := by
    intro ph e; subst e; split <;> simp
  refine ⟨hr, ?_, ?_, ?_, hpos, ?_, ?_⟩
  · intro h; rcases hph _ h with e | e <;> cases e
  · intro _ _
    simp only
    rw [logProj_append]
    simp [logProj, logProj_cancels, hlog]
  · intro n pids h; rcases hph _ h with e | e <;> cases e
  · intro h
    rcases h with h | h | ⟨n, pids, h⟩ <;> rcases hph _ h with e | e <;> cases e
  · intro st' _
    refine ⟨s.trace, _, rfl, hpre, ?_⟩
    intro c hc
    simp only [List.mem_map] at hc
    obtain ⟨fp, _, rfl⟩ := hc
    exact Or.inl ⟨_, rfl⟩

/-- a state that is stuck satisfies the phase-dependent parts trivially -/
theorem logInv_stuck {s : State} (hr : s.toRetry = []) (hpos : ∀ k, LogEntry.ask k ∈ s.log → 1 ≤ k)
    (hph : s.phase = .stuck) : LogInv s := by
  refine ⟨hr, ?_, ?_, ?_, hpos, ?_, ?_⟩
  · intro h; rw [hph] at h; cases h
  · intro _ h; exact absurd hph h
  · intro n pids h; rw [hph] at h; cases h
  · intro h; rw [hph] at h; rcases h with h | h | ⟨_, _, h⟩ <;> cases h
  · intro st h; rw [hph] at h; rcases h with h | h <;> cases h

theorem logInv_step {s : State} (h : LogInv s) (hb : BoundInv s) (hlog : s.cfg.doLog = true)
    (e : Ev) (hnf : EvNoFail e) : LogInv (step s e) := by
  have hstuck : LogInv { s with phase := .stuck } := logInv_stuck h.rty h.log_pos rfl
  unfold step
  split
  · -- head, goal
    rename_i b hph
    have hle := h.log_eq (by intro n pids; rw [hph]; simp) (by rw [hph]; simp)
    have hpre := h.pre (Or.inl hph)
    simp only []
    split
    · apply logInv_beginExit
      · exact h.rty
      · simpa [emit] using hle
      · exact h.log_pos
      · simpa [emit] using hpre
    · have hlt := h.head hph
      have hrp : retryPids (emit s (.goal b)) = [] := by simp [retryPids, emit, h.rty]
      rcases beginGet_spec (emit s (.goal b)) with ⟨_, e⟩ | ⟨h1, _⟩
      · rw [e, hrp]
        simp only [emit]
        refine ⟨by simp [h.rty], by simp, by simp, ?_, ?_, ?_, by simp⟩
        · intro n pids hp
          simp only [Phase.asking.injEq] at hp
          obtain ⟨rfl, rfl⟩ := hp
          simp [logIf_log, hlog, hle]
          omega
        · intro k hk
          simp only [logIf_log, hlog, if_true, List.mem_append, List.mem_singleton,
            LogEntry.ask.injEq] at hk
          rcases hk with hk | rfl
          · exact h.log_pos k hk
          · omega
        · intro _; simpa using hpre
      · rw [hrp] at h1
        simp only [emit, List.length_nil] at h1
        omega
  · -- asking, asked
    rename_i n pids pts hph
    obtain ⟨hl, rfl, hn⟩ := h.log_ask n pids hph
    have hpre := h.pre (Or.inr (Or.inr ⟨_, _, hph⟩))
    simp only [finishAsk, submitAll_eq, emit, List.nil_append, List.length_nil, Nat.sub_zero]
    refine ⟨h.rty, by simp, ?_, by simp, h.log_pos, ?_, by simp⟩
    · intro _ _
      simp only
      rw [logProj_append, logProj_submitCalls]
      simp [hl]
    · intro _
      simp only [List.mem_append, List.mem_singleton, reduceCtorEq, or_false, not_or]
      refine ⟨hpre, ?_⟩
      intro hm
      obtain ⟨_, _, _, e⟩ := mem_submitCalls hm
      cases e
  · -- waiting, done
    rename_i l hph
    have hle := h.log_eq (by intro n pids; rw [hph]; simp) (by rw [hph]; simp)
    have hpre := h.pre (Or.inr (Or.inl hph))
    split
    · exact hstuck
    · rename_i hne
      obtain ⟨h1, h2, tr, h3, h4, h5⟩ := processFutures_ok_log l hlog h.rty hnf
      have hlen := @processFutures_length_lt l s (by intro e; simp [e] at hne) (by rw [hph]; simp)
      obtain ⟨hcfg, _, _⟩ := processFutures_frame l s
      split
      · rename_i heq; rw [heq] at h1; cases h1
      · rename_i s' heq
        rw [heq] at h2 h3 h5 hlen hcfg
        simp only at h2 h3 h5 hlen hcfg
        have hpos : ∀ k, LogEntry.ask k ∈ s'.log → 1 ≤ k := by
          intro k hk
          rw [h5] at hk
          rcases List.mem_append.1 hk with hk | hk
          · exact h.log_pos k hk
          · exact absurd hk (ask_not_mem_logProj_tells h4)
        split
        · rename_i hst; exact logInv_stuck h2 hpos hst
        · rename_i hst
          refine ⟨h2, ?_, ?_, by simp, hpos, ?_, by simp⟩
          · intro _
            have := hlen hst
            have := hb.1
            simp only [hcfg]
            omega
          · intro _ _
            simp only
            rw [h5, h3, logProj_append, hle]
          · intro _
            simp only
            rw [h3]
            simp only [List.mem_append, not_or]
            refine ⟨hpre, ?_⟩
            intro hm
            obtain ⟨_, _, _, _, e⟩ := h4 _ hm
            cases e
  · -- waiting, cancel
    rename_i hph
    have hle := h.log_eq (by intro n pids; rw [hph]; simp) (by rw [hph]; simp)
    have hpre := h.pre (Or.inr (Or.inl hph))
    split
    · exact hstuck
    · exact logInv_beginExit _ h.rty hle h.log_pos hpre
  · -- exitWait, remaining
    rename_i st l hph
    have hle := h.log_eq (by intro n pids; rw [hph]; simp) (by rw [hph]; simp)
    obtain ⟨t1, t2, ht, ht1, ht2⟩ := h.post st (Or.inl hph)
    unfold finishExit
    split
    · obtain ⟨h1, h2, tr, h3, h4, h5⟩ := processFutures_ok_log l hlog h.rty hnf
      split
      · rename_i heq; rw [heq] at h1; cases h1
      · rename_i s' heq
        rw [heq] at h2 h3 h5
        simp only at h2 h3 h5
        have hpos : ∀ k, LogEntry.ask k ∈ s'.log → 1 ≤ k := by
          intro k hk
          rw [h5] at hk
          rcases List.mem_append.1 hk with hk | hk
          · exact h.log_pos k hk
          · exact absurd hk (ask_not_mem_logProj_tells h4)
        split
        · rename_i hst; exact logInv_stuck h2 hpos hst
        · refine ⟨h2, by simp, ?_, by simp, hpos, by simp, ?_⟩
          · intro _ _
            simp only
            rw [h5, h3, logProj_append, hle]
          · intro st' _
            refine ⟨t1, t2 ++ tr, by simp only; rw [h3, ht]; simp, ht1, ?_⟩
            intro c hc
            rcases List.mem_append.1 hc with x | x
            · exact ht2 c x
            · exact Or.inr (h4 c x)
    · refine ⟨h.rty, by simp, ?_, by simp, h.log_pos, by simp, ?_⟩
      · intro _ _; exact hle
      · intro st' _; exact ⟨t1, t2, ht, ht1, ht2⟩
  · -- exitWait, cancel
    rename_i st hph
    have hle := h.log_eq (by intro n pids; rw [hph]; simp) (by rw [hph]; simp)
    obtain ⟨t1, t2, ht, ht1, ht2⟩ := h.post st (Or.inl hph)
    split
    · exact hstuck
    · refine ⟨h.rty, by simp, ?_, by simp, h.log_pos, by simp, ?_⟩
      · intro _ _; exact hle
      · intro st' _; exact ⟨t1, t2, ht, ht1, ht2⟩
  · exact h
  · exact hstuck

theorem logInv_run (evs : List Ev) : ∀ s : State, LogInv s → BoundInv s → s.cfg.doLog = true →
    EvsOK s evs → noFail evs = true → LogInv (run s evs) := by
  induction evs with
  | nil => intro s h _ _ _ _; exact h
  | cons e es ih =>
    intro s h hb hlog hok hnf
    obtain ⟨hnf1, hnf2⟩ := noFail_cons hnf
    exact ih (step s e) (logInv_step h hb hlog e hnf1) (boundInv_step hb e hok.1)
      (by rw [step_cfg]; exact hlog) hok.2 hnf2

/-! ### replaying -/

theorem applyLog_append {σ : Type} (L : LearnerModel σ) (st : σ) (a b : List LogEntry) :
    applyLog L st (a ++ b) = applyLog L (applyLog L st a) b := by
  simp [applyLog, List.foldl_append]

theorem applyTrace_append {σ : Type} (L : LearnerModel σ) (st : σ) (a b : List Call) :
    applyTrace L st (a ++ b) = applyTrace L (applyTrace L st a) b := by
  simp [applyTrace, List.foldl_append]

/-- before the exit discard the learner has seen exactly the logged calls -/
theorem applyTrace_eq_applyLog {σ : Type} (L : LearnerModel σ) (tr : List Call) :
    ∀ st : σ, Call.removeUnfinished ∉ tr → applyTrace L st tr = applyLog L st (logProj tr) := by
  induction tr with
  | nil => intro st _; rfl
  | cons c r ih =>
    intro st h
    simp only [List.mem_cons, not_or] at h
    have ih' := fun st => ih st h.2
    cases c <;> simp_all [applyTrace, applyLog, logProj, applyCall]

theorem applyLog_pres {σ : Type} (L : LearnerModel σ) (P : σ → Prop)
    (hPask : ∀ s n, P s → P (L.ask s n).2) (hPtell : ∀ s x y, P s → P (L.tell s x y))
    (log : List LogEntry) : ∀ st, P st → P (applyLog L st log) := by
  induction log with
  | nil => intro st h; exact h
  | cons e r ih =>
    intro st h
    cases e with
    | ask n => exact ih _ (hPask st n h)
    | tell x y => exact ih _ (hPtell st x y h)

/-- late results commute with the exit discard -/
theorem remove_comm_tells {σ : Type} (L : LearnerModel σ) (P : σ → Prop)
    (hPtell : ∀ s x y, P s → P (L.tell s x y))
    (hcomm : ∀ s x y, P s → L.removeUnfinished (L.tell s x y) = L.tell (L.removeUnfinished s) x y)
    (tr : List Call) : ∀ st, P st → (∀ c ∈ tr, CancelOrTell c) →
      L.removeUnfinished (applyLog L st (logProj tr)) = applyTrace L (L.removeUnfinished st) tr := by
  induction tr with
  | nil => intro st _ _; rfl
  | cons c r ih =>
    intro st hP hc
    have hr : ∀ c ∈ r, CancelOrTell c := fun c' h' => hc c' (by simp [h'])
    rcases hc c (by simp) with ⟨f, rfl⟩ | ⟨f, p, x, y, rfl⟩
    · simpa [logProj, applyTrace, applyCall] using ih st hP hr
    · have := ih (L.tell st x y) (hPtell st x y hP) hr
      simp only [logProj, applyTrace, applyCall, List.foldl_cons, applyLog] at this ⊢
      rw [this, hcomm st x y hP]

theorem replay_aux {σ : Type} (L : LearnerModel σ) (P : σ → Prop) (s0 : σ) (hP0 : P s0)
    (hPask : ∀ s n, P s → P (L.ask s n).2) (hPtell : ∀ s x y, P s → P (L.tell s x y))
    (hcomm : ∀ s x y, P s → L.removeUnfinished (L.tell s x y) = L.tell (L.removeUnfinished s) x y)
    {s : State} (h : LogInv s) {st : Status} (hstop : s.phase = .stopped st) :
    L.removeUnfinished (applyLog L s0 s.log) = applyTrace L s0 s.trace := by
  have hle := h.log_eq (by intro n pids; rw [hstop]; simp) (by rw [hstop]; simp)
  obtain ⟨t1, t2, ht, ht1, ht2⟩ := h.post st (Or.inr hstop)
  rw [hle, ht, logProj_append, applyLog_append, applyTrace_append]
  have e1 : logProj (Call.removeUnfinished :: t2) = logProj t2 := rfl
  have e2 : applyTrace L (applyTrace L s0 t1) (Call.removeUnfinished :: t2) =
      applyTrace L (L.removeUnfinished (applyTrace L s0 t1)) t2 := rfl
  rw [e1, e2, applyTrace_eq_applyLog L t1 s0 ht1]
  exact remove_comm_tells L P hPtell hcomm t2 _ (applyLog_pres L P hPask hPtell _ s0 hP0) ht2

end Runner
