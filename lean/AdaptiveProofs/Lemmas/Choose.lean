import AdaptiveModel.Choose
import AdaptiveProofs.Props.C20
import Mathlib.Tactic.NormNum
import Mathlib.Tactic.FieldSimp

set_option linter.unusedSectionVars false
set_option linter.unusedVariables false
namespace Choose
open Gen.Prims Prims

section argmax
variable {α : Type} [LinearOrder α]

theorem argmaxFrom_spec (xs : List α) : ∀ (best : α) (bi i : Nat),
    (argmaxFrom best bi i xs = bi ∧ ∀ y ∈ xs, y ≤ best) ∨
    (∃ pre x post, xs = pre ++ x :: post ∧ argmaxFrom best bi i xs = i + pre.length ∧ best < x ∧
      (∀ y ∈ pre, y < x) ∧ (∀ y ∈ post, y ≤ x)) := by
  induction xs with
  | nil => intro best bi i; left; exact ⟨rfl, by simp⟩
  | cons x xs ih =>
    intro best bi i
    by_cases hx : x > best
    · have e : argmaxFrom best bi i (x :: xs) = argmaxFrom x i (i + 1) xs := by
        simp only [argmaxFrom, if_pos hx]
      rw [e]
      right
      rcases ih x i (i + 1) with ⟨h1, h2⟩ | ⟨pre, x', post, h1, h2, h3, h4, h5⟩
      · exact ⟨[], x, xs, rfl, by simpa using h1, hx, by simp, h2⟩
      · refine ⟨x :: pre, x', post, by rw [h1]; rfl, by rw [h2, List.length_cons]; omega, lt_trans hx h3, ?_, h5⟩
        intro y hy
        rcases List.mem_cons.1 hy with rfl | hy
        · exact h3
        · exact h4 y hy
    · have e : argmaxFrom best bi i (x :: xs) = argmaxFrom best bi (i + 1) xs := by
        simp only [argmaxFrom, if_neg hx]
      rw [e]
      have hx' : x ≤ best := not_lt.1 hx
      rcases ih best bi (i + 1) with ⟨h1, h2⟩ | ⟨pre, x', post, h1, h2, h3, h4, h5⟩
      · left
        refine ⟨h1, ?_⟩
        intro y hy
        rcases List.mem_cons.1 hy with rfl | hy
        · exact hx'
        · exact h2 y hy
      · right
        refine ⟨x :: pre, x', post, by rw [h1]; rfl, by rw [h2, List.length_cons]; omega, h3, ?_, h5⟩
        intro y hy
        rcases List.mem_cons.1 hy with rfl | hy
        · exact lt_of_le_of_lt hx' h3
        · exact h4 y hy

/-- `np.argmax`: the index of the first maximum -/
theorem argmax_spec (x : α) (xs : List α) :
    ∃ pre m post, x :: xs = pre ++ m :: post ∧ argmax (x :: xs) = pre.length ∧
      (∀ y ∈ pre, y < m) ∧ (∀ y ∈ post, y ≤ m) := by
  rcases argmaxFrom_spec xs x 0 1 with ⟨h1, h2⟩ | ⟨pre, x', post, h1, h2, h3, h4, h5⟩
  · exact ⟨[], x, xs, rfl, by simpa [argmax] using h1, by simp, h2⟩
  · refine ⟨x :: pre, x', post, by rw [h1]; rfl, by simp only [argmax]; rw [h2, List.length_cons]; omega, ?_, h5⟩
    intro y hy
    rcases List.mem_cons.1 hy with rfl | hy
    · exact h3
    · exact h4 y hy

/-- the argmax of the flattened symmetric 3×3 distance matrix with zero diagonal and non-negative entries:
flat index 0 (all distances zero), 1 (edge 01), 2 (edge 02) or 5 (edge 12) -/
theorem argmax9 [Zero α] (a b c : α) (ha : 0 ≤ a) (hb : 0 ≤ b) (hc : 0 ≤ c) :
    (argmax [0, a, b, a, 0, c, b, c, 0] = 0 ∧ a = 0 ∧ b = 0 ∧ c = 0) ∨
    (argmax [0, a, b, a, 0, c, b, c, 0] = 1 ∧ b ≤ a ∧ c ≤ a) ∨
    (argmax [0, a, b, a, 0, c, b, c, 0] = 2 ∧ a < b ∧ c ≤ b) ∨
    (argmax [0, a, b, a, 0, c, b, c, 0] = 5 ∧ a < c ∧ b < c) := by
  obtain ⟨pre, m, post, h1, h2, h3, h4⟩ := argmax_spec (0 : α) [a, b, a, 0, c, b, c, 0]
  rw [h2]
  rcases pre with _ | ⟨y0, _ | ⟨y1, _ | ⟨y2, _ | ⟨y3, _ | ⟨y4, _ | ⟨y5, _ | ⟨y6, _ | ⟨y7, _ | ⟨y8, pre⟩⟩⟩⟩⟩⟩⟩⟩⟩ <;>
    simp only [List.cons_append, List.nil_append, List.cons.injEq, List.length_cons, List.length_nil] at h1 ⊢
  · obtain ⟨rfl, rfl⟩ := h1
    simp only [List.mem_cons, List.not_mem_nil, or_false, forall_eq_or_imp, forall_eq] at h4
    left
    exact ⟨trivial, le_antisymm h4.1 ha, le_antisymm h4.2.1 hb, le_antisymm h4.2.2.2.2.1 hc⟩
  · obtain ⟨rfl, rfl, rfl⟩ := h1
    simp only [List.mem_cons, List.not_mem_nil, or_false, forall_eq_or_imp, forall_eq] at h4
    right; left
    exact ⟨trivial, h4.1, h4.2.2.2.1⟩
  · obtain ⟨rfl, rfl, rfl, rfl⟩ := h1
    simp only [List.mem_cons, List.not_mem_nil, or_false, forall_eq_or_imp, forall_eq] at h3 h4
    right; right; left
    exact ⟨trivial, h3.2, h4.2.2.1⟩
  · obtain ⟨rfl, rfl, rfl, rfl, rfl⟩ := h1
    simp only [List.mem_cons, List.not_mem_nil, or_false, forall_eq_or_imp, forall_eq] at h3
    exact absurd h3.2.1 (lt_irrefl _)
  · obtain ⟨rfl, rfl, rfl, rfl, rfl, rfl⟩ := h1
    simp only [List.mem_cons, List.not_mem_nil, or_false, forall_eq_or_imp, forall_eq] at h3
    exact absurd h3.1 (lt_irrefl _)
  · obtain ⟨rfl, rfl, rfl, rfl, rfl, rfl, rfl⟩ := h1
    simp only [List.mem_cons, List.not_mem_nil, or_false, forall_eq_or_imp, forall_eq] at h3
    right; right; right
    exact ⟨trivial, h3.2.1, h3.2.2.1⟩
  · obtain ⟨rfl, rfl, rfl, rfl, rfl, rfl, rfl, rfl⟩ := h1
    simp only [List.mem_cons, List.not_mem_nil, or_false, forall_eq_or_imp, forall_eq] at h3
    exact absurd h3.2.2.1 (lt_irrefl _)
  · obtain ⟨rfl, rfl, rfl, rfl, rfl, rfl, rfl, rfl, rfl⟩ := h1
    simp only [List.mem_cons, List.not_mem_nil, or_false, forall_eq_or_imp, forall_eq] at h3
    exact absurd h3.2.2.2.2.2.1 (lt_irrefl _)
  · obtain ⟨rfl, rfl, rfl, rfl, rfl, rfl, rfl, rfl, rfl, h⟩ := h1
    simp only [List.mem_cons, List.not_mem_nil, or_false, forall_eq_or_imp, forall_eq] at h3
    exact absurd h3.1 (lt_irrefl _)
  · obtain ⟨_, _, _, _, _, _, _, _, _, h⟩ := h1
    exact absurd h (by simp)

end argmax

section geom
variable {α : Type} [Field α] [LinearOrder α] [IsStrictOrderedRing α]

/-- midpoint of two points, as the code computes it: `(a + b) / 2` per coordinate -/
def mid (a b : P2 α) : P2 α := ((a.1 + b.1) / 2, (a.2 + b.2) / 2)
/-- squared distance of two points -/
def dsqP (a b : P2 α) : α := dsq2 a.1 a.2 b.1 b.2
/-- `m` is the midpoint of the edge `a b` of the triangle `a b c`, and no edge is longer than `a b` -/
def IsLongestEdgeMid (m a b c : P2 α) : Prop := m = mid a b ∧ dsqP a c ≤ dsqP a b ∧ dsqP b c ≤ dsqP a b
/-- the diagonal transform `diag(t0, t1)` applied to a point -/
def scaleT (t0 t1 : α) (p : P2 α) : P2 α := (p.1 * t0, p.2 * t1)
/-- twice the signed area of the triangle -/
def crossP (a b c : P2 α) : α := cross2 a.1 a.2 b.1 b.2 c.1 c.2

theorem dsqP_nonneg (a b : P2 α) : 0 ≤ dsqP a b := dsq2_nonneg _ _ _ _
theorem dsqP_comm (a b : P2 α) : dsqP a b = dsqP b a := by simp only [dsqP, dsq2]; ring
theorem dsqP_eq_zero {a b : P2 α} (h : dsqP a b = 0) : a = b := by
  simp only [dsqP, dsq2] at h
  have h1 : (a.1 - b.1) * (a.1 - b.1) = 0 := by nlinarith [mul_self_nonneg (a.1 - b.1), mul_self_nonneg (a.2 - b.2)]
  have h2 : (a.2 - b.2) * (a.2 - b.2) = 0 := by nlinarith [mul_self_nonneg (a.1 - b.1), mul_self_nonneg (a.2 - b.2)]
  exact Prod.ext (sub_eq_zero.1 (mul_self_eq_zero.1 h1)) (sub_eq_zero.1 (mul_self_eq_zero.1 h2))

theorem pdist2_eq (sqrt : α → α) (a b : P2 α) : pdist2 sqrt a b = sqrt (dsqP a b) := rfl

theorem sqrt_le_iff {sqrt : α → α} (hs : SqrtLaw sqrt) {x y : α} (hx : 0 ≤ x) (hy : 0 ≤ y) :
    sqrt x ≤ sqrt y ↔ x ≤ y := by
  obtain ⟨a0, a1⟩ := hs x hx
  obtain ⟨b0, b1⟩ := hs y hy
  rw [mul_self_le_mul_self_iff a0 b0, a1, b1]

theorem sqrt_lt_iff {sqrt : α → α} (hs : SqrtLaw sqrt) {x y : α} (hx : 0 ≤ x) (hy : 0 ≤ y) :
    sqrt x < sqrt y ↔ x < y := by
  rw [← not_le, ← not_le, sqrt_le_iff hs hy hx]

theorem sqrt_eq_zero {sqrt : α → α} (hs : SqrtLaw sqrt) {x : α} (hx : 0 ≤ x) (h : sqrt x = 0) : x = 0 := by
  obtain ⟨_, a1⟩ := hs x hx
  rw [← a1, h, mul_zero]

theorem dotDiag_eq (p : P2 α) (t0 t1 : α) : dotDiag p (t0, t1) = scaleT t0 t1 p := by
  simp only [dotDiag, scaleT, mul_zero, add_zero, zero_add]

/-- the `else` branch: the midpoint of an edge at least as long as the other two (first maximum of the distance
matrix; for three coinciding vertices the code takes `(v0 + v0) / 2`, which is the midpoint of every edge) -/
theorem longestEdgeMid_cases (sqrt : α → α) (hs : SqrtLaw sqrt) (s0 s1 s2 : P2 α) :
    IsLongestEdgeMid (longestEdgeMid sqrt s0 s1 s2) s0 s1 s2 ∨
    IsLongestEdgeMid (longestEdgeMid sqrt s0 s1 s2) s0 s2 s1 ∨
    IsLongestEdgeMid (longestEdgeMid sqrt s0 s1 s2) s1 s2 s0 := by
  have n01 := dsqP_nonneg s0 s1
  have n02 := dsqP_nonneg s0 s2
  have n12 := dsqP_nonneg s1 s2
  have key := argmax9 (pdist2 sqrt s0 s1) (pdist2 sqrt s0 s2) (pdist2 sqrt s1 s2)
    (hs _ n01).1 (hs _ n02).1 (hs _ n12).1
  simp only [pdist2_eq] at key
  rcases key with ⟨e, a, b, c⟩ | ⟨e, a, b⟩ | ⟨e, a, b⟩ | ⟨e, a, b⟩
  · left
    have e01 : s1 = s0 := (dsqP_eq_zero (sqrt_eq_zero hs n01 a)).symm
    have e02 : s2 = s0 := (dsqP_eq_zero (sqrt_eq_zero hs n02 b)).symm
    subst e01; subst e02
    refine ⟨?_, le_refl _, le_refl _⟩
    simp only [longestEdgeMid, distMatrix, pdist2_eq, e, Nat.zero_div, Nat.zero_mod, vtx, mid]
  · left
    refine ⟨?_, (sqrt_le_iff hs n02 n01).1 a, (sqrt_le_iff hs n12 n01).1 b⟩
    simp only [longestEdgeMid, distMatrix, pdist2_eq, e, Nat.reduceDiv, Nat.reduceMod, vtx, mid]
  · right; left
    refine ⟨?_, ((sqrt_lt_iff hs n01 n02).1 a).le, ?_⟩
    · simp only [longestEdgeMid, distMatrix, pdist2_eq, e, Nat.reduceDiv, Nat.reduceMod, vtx, mid]
    · rw [dsqP_comm s2 s1]; exact (sqrt_le_iff hs n12 n02).1 b
  · right; right
    refine ⟨?_, ?_, ?_⟩
    · simp only [longestEdgeMid, distMatrix, pdist2_eq, e, Nat.reduceDiv, Nat.reduceMod, vtx, mid]
    · rw [dsqP_comm s1 s0]; exact ((sqrt_lt_iff hs n01 n12).1 a).le
    · rw [dsqP_comm s2 s0]; exact ((sqrt_lt_iff hs n02 n12).1 b).le

/-- the point chosen in the transformed triangle: its centroid or the midpoint of a longest edge -/
theorem chooseCore_cases (sqrt : α → α) (hs : SqrtLaw sqrt) (eps : α) (s0 s1 s2 : P2 α) :
    chooseCore sqrt eps s0 s1 s2 = centroid s0 s1 s2 ∨
    IsLongestEdgeMid (chooseCore sqrt eps s0 s1 s2) s0 s1 s2 ∨
    IsLongestEdgeMid (chooseCore sqrt eps s0 s1 s2) s0 s2 s1 ∨
    IsLongestEdgeMid (chooseCore sqrt eps s0 s1 s2) s1 s2 s0 := by
  unfold chooseCore
  split
  · left; rfl
  · right; exact longestEdgeMid_cases sqrt hs s0 s1 s2

theorem scaleT_undoT (t0 t1 : α) (h0 : t0 ≠ 0) (h1 : t1 ≠ 0) (m : P2 α) :
    scaleT t0 t1 (undoT (some (t0, t1)) m) = m := by
  simp only [scaleT, undoT, div_mul_cancel₀ _ h0, div_mul_cancel₀ _ h1]

theorem choosePoint2_some (sqrt : α → α) (eps : α) (p0 p1 p2 : P2 α) (t0 t1 : α) :
    choosePoint2 sqrt eps p0 p1 p2 (some (t0, t1)) =
      undoT (some (t0, t1)) (chooseCore sqrt eps (scaleT t0 t1 p0) (scaleT t0 t1 p1) (scaleT t0 t1 p2)) := by
  simp only [choosePoint2, applyT, dotDiag_eq]

theorem choosePoint2_none (sqrt : α → α) (eps : α) (p0 p1 p2 : P2 α) :
    choosePoint2 sqrt eps p0 p1 p2 none = chooseCore sqrt eps p0 p1 p2 := rfl

/-- (a) C04 "its centroid, or the midpoint of its longest edge in normalised coordinates": with the transform
`diag(t0, t1)`, `t0, t1 ≠ 0`, the chosen point `q`, seen in transformed coordinates `(q.1 * t0, q.2 * t1)`, is the
centroid of the transformed triangle or the midpoint of an edge of the transformed triangle that is at least as long
as the other two. -/
theorem choose2_centroid_or_longest_edge_midpoint (sqrt : α → α) (hs : SqrtLaw sqrt) (eps : α) (p0 p1 p2 : P2 α)
    (t0 t1 : α) (h0 : t0 ≠ 0) (h1 : t1 ≠ 0) :
    scaleT t0 t1 (choosePoint2 sqrt eps p0 p1 p2 (some (t0, t1)))
      = centroid (scaleT t0 t1 p0) (scaleT t0 t1 p1) (scaleT t0 t1 p2) ∨
    IsLongestEdgeMid (scaleT t0 t1 (choosePoint2 sqrt eps p0 p1 p2 (some (t0, t1))))
      (scaleT t0 t1 p0) (scaleT t0 t1 p1) (scaleT t0 t1 p2) ∨
    IsLongestEdgeMid (scaleT t0 t1 (choosePoint2 sqrt eps p0 p1 p2 (some (t0, t1))))
      (scaleT t0 t1 p0) (scaleT t0 t1 p2) (scaleT t0 t1 p1) ∨
    IsLongestEdgeMid (scaleT t0 t1 (choosePoint2 sqrt eps p0 p1 p2 (some (t0, t1))))
      (scaleT t0 t1 p1) (scaleT t0 t1 p2) (scaleT t0 t1 p0) := by
  rw [choosePoint2_some, scaleT_undoT t0 t1 h0 h1]
  exact chooseCore_cases sqrt hs eps _ _ _

/-- (a) without a transform: the centroid or the midpoint of a longest edge of the triangle itself -/
theorem choose2_centroid_or_longest_edge_midpoint_none (sqrt : α → α) (hs : SqrtLaw sqrt) (eps : α) (p0 p1 p2 : P2 α) :
    choosePoint2 sqrt eps p0 p1 p2 none = centroid p0 p1 p2 ∨
    IsLongestEdgeMid (choosePoint2 sqrt eps p0 p1 p2 none) p0 p1 p2 ∨
    IsLongestEdgeMid (choosePoint2 sqrt eps p0 p1 p2 none) p0 p2 p1 ∨
    IsLongestEdgeMid (choosePoint2 sqrt eps p0 p1 p2 none) p1 p2 p0 :=
  chooseCore_cases sqrt hs eps _ _ _

/-! ### (b) the chosen point is a convex combination of the vertices, accepted by `point_in_simplex` -/

/-- the weights the code can produce: the centroid, or the midpoint of one of the three edges -/
def ChoiceWeights (l : α × α × α) : Prop :=
  l = (1 / 3, 1 / 3, 1 / 3) ∨ l = (1 / 2, 1 / 2, 0) ∨ l = (1 / 2, 0, 1 / 2) ∨ l = (0, 1 / 2, 1 / 2)

/-- the affine combination of three points with the given weights -/
def comb (l : α × α × α) (p0 p1 p2 : P2 α) : P2 α :=
  (l.1 * p0.1 + l.2.1 * p1.1 + l.2.2 * p2.1, l.1 * p0.2 + l.2.1 * p1.2 + l.2.2 * p2.2)

theorem ChoiceWeights.nonneg_sum {l : α × α × α} (h : ChoiceWeights l) :
    0 ≤ l.1 ∧ 0 ≤ l.2.1 ∧ 0 ≤ l.2.2 ∧ l.1 + l.2.1 + l.2.2 = 1 := by
  rcases h with rfl | rfl | rfl | rfl <;> norm_num

theorem chooseCore_weights (sqrt : α → α) (hs : SqrtLaw sqrt) (eps : α) (s0 s1 s2 : P2 α) :
    ∃ l : α × α × α, ChoiceWeights l ∧ chooseCore sqrt eps s0 s1 s2 = comb l s0 s1 s2 := by
  rcases chooseCore_cases sqrt hs eps s0 s1 s2 with h | ⟨h, _⟩ | ⟨h, _⟩ | ⟨h, _⟩
  · refine ⟨(1 / 3, 1 / 3, 1 / 3), Or.inl rfl, ?_⟩
    rw [h]; simp only [centroid, comb]; refine Prod.ext ?_ ?_ <;> simp only <;> ring
  · refine ⟨(1 / 2, 1 / 2, 0), Or.inr (Or.inl rfl), ?_⟩
    rw [h]; simp only [mid, comb]; refine Prod.ext ?_ ?_ <;> simp only <;> ring
  · refine ⟨(1 / 2, 0, 1 / 2), Or.inr (Or.inr (Or.inl rfl)), ?_⟩
    rw [h]; simp only [mid, comb]; refine Prod.ext ?_ ?_ <;> simp only <;> ring
  · refine ⟨(0, 1 / 2, 1 / 2), Or.inr (Or.inr (Or.inr rfl)), ?_⟩
    rw [h]; simp only [mid, comb]; refine Prod.ext ?_ ?_ <;> simp only <;> ring

theorem undoT_comb_scaleT (t0 t1 : α) (h0 : t0 ≠ 0) (h1 : t1 ≠ 0) (l : α × α × α) (p0 p1 p2 : P2 α) :
    undoT (some (t0, t1)) (comb l (scaleT t0 t1 p0) (scaleT t0 t1 p1) (scaleT t0 t1 p2)) = comb l p0 p1 p2 := by
  simp only [undoT, comb, scaleT]
  refine Prod.ext ?_ ?_ <;> simp only <;> field_simp

/-- (b, weights) for EVERY triangle (degenerate or not) and every transform `none` / `diag(t0, t1)` with non-zero
entries the chosen point is `1/3 p0 + 1/3 p1 + 1/3 p2` or the midpoint `1/2 v + 1/2 w` of two of the vertices:
a linear transform and its inverse cancel on an affine combination. -/
theorem choose2_weights (sqrt : α → α) (hs : SqrtLaw sqrt) (eps : α) (p0 p1 p2 : P2 α) (t : Option (P2 α))
    (ht : ∀ t0 t1, t = some (t0, t1) → t0 ≠ 0 ∧ t1 ≠ 0) :
    ∃ l : α × α × α, ChoiceWeights l ∧ choosePoint2 sqrt eps p0 p1 p2 t = comb l p0 p1 p2 := by
  rcases t with _ | ⟨t0, t1⟩
  · exact chooseCore_weights sqrt hs eps p0 p1 p2
  · obtain ⟨h0, h1⟩ := ht t0 t1 rfl
    obtain ⟨l, hl, e⟩ := chooseCore_weights sqrt hs eps (scaleT t0 t1 p0) (scaleT t0 t1 p1) (scaleT t0 t1 p2)
    exact ⟨l, hl, by rw [choosePoint2_some, e, undoT_comb_scaleT t0 t1 h0 h1]⟩

/-- (b) C04, the part of `ChooseGeom.inSimplex` about the chosen point: for a non-degenerate triangle (signed area
`≠ 0`) the point chosen by `choose_point_in_simplex` is accepted by `point_in_simplex` FOR ITS OWN SIMPLEX, for every
tolerance `eps' ≥ 0` (in particular the default `1e-8`), whatever tolerance `eps` the choice itself used. -/
theorem choose2_in_closed_triangle (sqrt : α → α) (hs : SqrtLaw sqrt) (eps : α) (p0 p1 p2 : P2 α) (t : Option (P2 α))
    (ht : ∀ t0 t1, t = some (t0, t1) → t0 ≠ 0 ∧ t1 ≠ 0) (hA : crossP p0 p1 p2 ≠ 0) (eps' : α) (he : 0 ≤ eps') :
    point_in_simplex2 (choosePoint2 sqrt eps p0 p1 p2 t).1 (choosePoint2 sqrt eps p0 p1 p2 t).2
      p0.1 p0.2 p1.1 p1.2 p2.1 p2.2 eps' = true := by
  obtain ⟨l, hl, e⟩ := choose2_weights sqrt hs eps p0 p1 p2 t ht
  obtain ⟨a, b, c, d⟩ := hl.nonneg_sum
  rw [C20.point_in_simplex2_eq]
  refine C20.point_in_simplex2_mono_eps _ _ _ _ _ _ _ _ 0 eps' he ?_
  rw [C20.point_in_simplex2_iff_convex _ _ _ _ _ _ _ _ hA]
  exact ⟨l.1, l.2.1, l.2.2, a, b, c, d, by rw [e]; rfl, by rw [e]; rfl⟩

/-! ### (c) equivariance under rescaling of the axes and under translations -/

/-- `s * p` -/
def smulP (s : α) (p : P2 α) : P2 α := (s * p.1, s * p.2)
/-- `p + v` -/
def addP (p v : P2 α) : P2 α := (p.1 + v.1, p.2 + v.2)

theorem undoT_div (t0 t1 s0 s1 : α) (m : P2 α) :
    undoT (some (t0 / s0, t1 / s1)) m = scaleT s0 s1 (undoT (some (t0, t1)) m) := by
  simp only [undoT, scaleT]
  refine Prod.ext ?_ ?_ <;> simp only <;> rw [div_div_eq_mul_div, mul_div_right_comm]

/-- (c, per axis; C12 for the N-D learner) rescaling the axes by `s0, s1 ≠ 0` while the transform goes from
`diag(t0, t1)` to `diag(t0 / s0, t1 / s1)` (as `LearnerND._transform = diag(1 / width)` does): the transformed triangle
is THE SAME, so the chosen point is the rescaled image of the chosen point.  No hypothesis on `sqrt`, `eps`, `t`, or
the triangle. -/
theorem choose2_scale_axes (sqrt : α → α) (eps : α) (p0 p1 p2 : P2 α) (t0 t1 s0 s1 : α) (h0 : s0 ≠ 0) (h1 : s1 ≠ 0) :
    choosePoint2 sqrt eps (scaleT s0 s1 p0) (scaleT s0 s1 p1) (scaleT s0 s1 p2) (some (t0 / s0, t1 / s1))
      = scaleT s0 s1 (choosePoint2 sqrt eps p0 p1 p2 (some (t0, t1))) := by
  have e : ∀ p : P2 α, scaleT (t0 / s0) (t1 / s1) (scaleT s0 s1 p) = scaleT t0 t1 p := by
    intro p; simp only [scaleT]
    refine Prod.ext ?_ ?_ <;> simp only <;> field_simp
  rw [choosePoint2_some, choosePoint2_some, e, e, e, undoT_div]

/-- (c) C12, common factor `s ≠ 0` on all axes: `choose(s·p0, s·p1, s·p2; diag(t0/s, t1/s)) = s · choose(p0, p1, p2;
diag(t0, t1))` -/
theorem choose2_scale (sqrt : α → α) (eps : α) (p0 p1 p2 : P2 α) (t0 t1 s : α) (h : s ≠ 0) :
    choosePoint2 sqrt eps (smulP s p0) (smulP s p1) (smulP s p2) (some (t0 / s, t1 / s))
      = smulP s (choosePoint2 sqrt eps p0 p1 p2 (some (t0, t1))) := by
  have e : ∀ p : P2 α, smulP s p = scaleT s s p := by intro p; simp only [smulP, scaleT, mul_comm]
  rw [e, e, e, e]
  exact choose2_scale_axes sqrt eps p0 p1 p2 t0 t1 s s h h

/-! without a transform the scaling has to go through every step of the code -/

/-- the circumcentre is homogeneous of degree one — also for a degenerate triangle (where the code divides by zero and
the field convention `x / 0 = 0` makes the centre `p0`) -/
theorem circ2_center_scale (sqrt : α → α) (k x0 y0 x1 y1 x2 y2 : α) (hk : k ≠ 0) :
    (fast_2d_circumcircle sqrt (k * x0) (k * y0) (k * x1) (k * y1) (k * x2) (k * y2)).1
      = (k * (fast_2d_circumcircle sqrt x0 y0 x1 y1 x2 y2).1.1, k * (fast_2d_circumcircle sqrt x0 y0 x1 y1 x2 y2).1.2) := by
  have e1 : c2dx (k * x0) (k * y0) (k * x1) (k * y1) (k * x2) (k * y2) = (k * k) * (k * c2dx x0 y0 x1 y1 x2 y2) := by
    simp only [c2dx]; ring
  have e2 : c2dy (k * x0) (k * y0) (k * x1) (k * y1) (k * x2) (k * y2) = (k * k) * (k * c2dy x0 y0 x1 y1 x2 y2) := by
    simp only [c2dy]; ring
  have e3 : 2 * cross2 (k * x0) (k * y0) (k * x1) (k * y1) (k * x2) (k * y2) = (k * k) * (2 * cross2 x0 y0 x1 y1 x2 y2) := by
    simp only [cross2]; ring
  have kk : k * k ≠ 0 := mul_ne_zero hk hk
  rw [circ2_closed, circ2_closed, e1, e2, e3, mul_div_mul_left _ _ kk, mul_div_mul_left _ _ kk]
  refine Prod.ext ?_ ?_ <;> simp only <;> ring

theorem centerInside_scale (sqrt : α → α) (eps k : α) (hk : k ≠ 0) (s0 s1 s2 : P2 α) :
    centerInside sqrt eps (smulP k s0) (smulP k s1) (smulP k s2) = centerInside sqrt eps s0 s1 s2 := by
  simp only [centerInside, smulP, C20.circumsphere2_eq, C20.point_in_simplex2_eq]
  rw [circ2_center_scale sqrt k _ _ _ _ _ _ hk]
  exact C20.point_in_simplex2_scale k _ _ _ _ _ _ _ _ eps hk

theorem argmaxFrom_scale {k : α} (hk : 0 < k) (xs : List α) : ∀ (best : α) (bi i : Nat),
    argmaxFrom (k * best) bi i (xs.map (fun x => k * x)) = argmaxFrom best bi i xs := by
  induction xs with
  | nil => intro best bi i; rfl
  | cons x xs ih =>
    intro best bi i
    simp only [List.map_cons, argmaxFrom, gt_iff_lt, mul_lt_mul_iff_right₀ hk]
    split
    · exact ih x i (i + 1)
    · exact ih best bi (i + 1)

theorem argmax_scale {k : α} (hk : 0 < k) (xs : List α) : argmax (xs.map (fun x => k * x)) = argmax xs := by
  cases xs with
  | nil => rfl
  | cons x xs => simp only [List.map_cons, argmax]; exact argmaxFrom_scale hk xs x 0 1

theorem pdist2_scale (sqrt : α → α) (hs : SqrtLaw sqrt) {k : α} (hk : 0 < k) (a b : P2 α) :
    pdist2 sqrt (smulP k a) (smulP k b) = k * pdist2 sqrt a b := by
  rw [pdist2_eq, pdist2_eq]
  have e : dsqP (smulP k a) (smulP k b) = k * k * dsqP a b := by simp only [dsqP, dsq2, smulP]; ring
  have n := dsqP_nonneg a b
  obtain ⟨a0, a1⟩ := hs _ n
  obtain ⟨b0, b1⟩ := hs (k * k * dsqP a b) (mul_nonneg (mul_self_nonneg k) n)
  rw [e]
  refine (mul_self_inj b0 (mul_nonneg hk.le a0)).1 ?_
  rw [b1, mul_mul_mul_comm, a1]

theorem vtx_smulP (k : α) (s0 s1 s2 : P2 α) (i : Nat) :
    vtx (smulP k s0) (smulP k s1) (smulP k s2) i = smulP k (vtx s0 s1 s2 i) := by
  unfold vtx; split <;> rfl

theorem longestEdgeMid_scale (sqrt : α → α) (hs : SqrtLaw sqrt) {k : α} (hk : 0 < k) (s0 s1 s2 : P2 α) :
    longestEdgeMid sqrt (smulP k s0) (smulP k s1) (smulP k s2) = smulP k (longestEdgeMid sqrt s0 s1 s2) := by
  have e : distMatrix sqrt (smulP k s0) (smulP k s1) (smulP k s2) = (distMatrix sqrt s0 s1 s2).map (fun x => k * x) := by
    simp only [distMatrix, pdist2_scale sqrt hs hk, List.map_cons, List.map_nil, mul_zero]
  simp only [longestEdgeMid, e, argmax_scale hk, vtx_smulP]
  simp only [smulP]
  refine Prod.ext ?_ ?_ <;> simp only <;> ring

/-- (c, no transform) `choose(s·p0, s·p1, s·p2) = s · choose(p0, p1, p2)` for `s > 0` (here the distances are
rescaled: `sqrt (s² x) = s sqrt x` from the law of `sqrt`; the tolerance of the barycentric test is relative) -/
theorem choose2_scale_none (sqrt : α → α) (hs : SqrtLaw sqrt) (eps : α) (p0 p1 p2 : P2 α) {s : α} (h : 0 < s) :
    choosePoint2 sqrt eps (smulP s p0) (smulP s p1) (smulP s p2) none
      = smulP s (choosePoint2 sqrt eps p0 p1 p2 none) := by
  simp only [choosePoint2_none, chooseCore, centerInside_scale sqrt eps s h.ne', longestEdgeMid_scale sqrt hs h]
  split
  · simp only [centroid, smulP]; refine Prod.ext ?_ ?_ <;> simp only <;> ring
  · rfl

/-! translations -/

theorem vtx_addP (v s0 s1 s2 : P2 α) (i : Nat) :
    vtx (addP s0 v) (addP s1 v) (addP s2 v) i = addP (vtx s0 s1 s2 i) v := by
  unfold vtx; split <;> rfl

theorem chooseCore_translate (sqrt : α → α) (eps : α) (s0 s1 s2 v : P2 α) :
    chooseCore sqrt eps (addP s0 v) (addP s1 v) (addP s2 v) = addP (chooseCore sqrt eps s0 s1 s2) v := by
  have ec : centerInside sqrt eps (addP s0 v) (addP s1 v) (addP s2 v) = centerInside sqrt eps s0 s1 s2 := by
    simp only [centerInside, addP, C20.circumsphere2_eq, C20.point_in_simplex2_eq]
    rw [C20.circ2_translate]
    exact C20.point_in_simplex2_translate _ _ _ _ _ _ _ _ _ _ eps
  have ed : ∀ a b : P2 α, pdist2 sqrt (addP a v) (addP b v) = pdist2 sqrt a b := by
    intro a b
    rw [pdist2_eq, pdist2_eq]
    congr 1
    simp only [dsqP, dsq2, addP]; ring
  have em : longestEdgeMid sqrt (addP s0 v) (addP s1 v) (addP s2 v) = addP (longestEdgeMid sqrt s0 s1 s2) v := by
    simp only [longestEdgeMid, distMatrix, ed, vtx_addP]
    simp only [addP]
    refine Prod.ext ?_ ?_ <;> simp only <;> ring
  simp only [chooseCore, ec, em]
  split
  · simp only [centroid, addP]; refine Prod.ext ?_ ?_ <;> simp only <;> ring
  · rfl

/-- (c) translating all vertices by `v` translates the chosen point by `v`: `transform = None` or `diag(t0, t1)` with
non-zero entries; every triangle, every `sqrt`, every tolerance -/
theorem choose2_translate (sqrt : α → α) (eps : α) (p0 p1 p2 v : P2 α) (t : Option (P2 α))
    (ht : ∀ t0 t1, t = some (t0, t1) → t0 ≠ 0 ∧ t1 ≠ 0) :
    choosePoint2 sqrt eps (addP p0 v) (addP p1 v) (addP p2 v) t = addP (choosePoint2 sqrt eps p0 p1 p2 t) v := by
  rcases t with _ | ⟨t0, t1⟩
  · exact chooseCore_translate sqrt eps p0 p1 p2 v
  · obtain ⟨h0, h1⟩ := ht t0 t1 rfl
    have e : ∀ p : P2 α, scaleT t0 t1 (addP p v) = addP (scaleT t0 t1 p) (scaleT t0 t1 v) := by
      intro p; simp only [scaleT, addP]; refine Prod.ext ?_ ?_ <;> simp only <;> ring
    rw [choosePoint2_some, choosePoint2_some, e, e, e, chooseCore_translate]
    simp only [undoT, addP, scaleT]
    refine Prod.ext ?_ ?_ <;> simp only <;> field_simp

/-! ### (d) which branch is taken -/

/-- no angle of the triangle `a b c` is obtuse: each squared edge length is at most the sum of the other two -/
def NotObtuse (a b c : P2 α) : Prop :=
  dsqP b c ≤ dsqP a c + dsqP a b ∧ dsqP a c ≤ dsqP b c + dsqP a b ∧ dsqP a b ≤ dsqP b c + dsqP a c

theorem chooseCore_of_inside {sqrt : α → α} {eps : α} {s0 s1 s2 : P2 α} (h : centerInside sqrt eps s0 s1 s2 = true) :
    chooseCore sqrt eps s0 s1 s2 = centroid s0 s1 s2 := by
  simp only [chooseCore, h, if_true]

theorem chooseCore_of_not_inside {sqrt : α → α} {eps : α} {s0 s1 s2 : P2 α} (h : centerInside sqrt eps s0 s1 s2 = false) :
    chooseCore sqrt eps s0 s1 s2 = longestEdgeMid sqrt s0 s1 s2 := by
  simp only [chooseCore, h, Bool.false_eq_true, if_false]

/-- the test of the `if`, tolerance `0`, non-degenerate (transformed) triangle: no angle is obtuse -/
theorem centerInside_iff_not_obtuse (sqrt : α → α) (s0 s1 s2 : P2 α) (h : crossP s0 s1 s2 ≠ 0) :
    centerInside sqrt 0 s0 s1 s2 = true ↔ NotObtuse s0 s1 s2 :=
  C20.circ2_inside_iff_not_obtuse sqrt _ _ _ _ _ _ h

/-- … hence with any tolerance `eps ≥ 0` a triangle without obtuse angle takes the centroid branch … -/
theorem centerInside_of_not_obtuse (sqrt : α → α) (eps : α) (he : 0 ≤ eps) (s0 s1 s2 : P2 α) (h : crossP s0 s1 s2 ≠ 0)
    (hn : NotObtuse s0 s1 s2) : centerInside sqrt eps s0 s1 s2 = true :=
  C20.point_in_simplex2_mono_eps _ _ _ _ _ _ _ _ 0 eps he ((centerInside_iff_not_obtuse sqrt s0 s1 s2 h).2 hn)

/-- … and the exact condition for a tolerance `eps` (`A, B, C` the squared lengths of the edges opposite `s0, s1, s2`,
`D = 4 cross² = 16 area²`): `A (B + C − A) ≥ −eps D`, `B (A + C − B) ≥ −eps D`, `C (A + B − C) ≥ −eps D` and
`B (A + C − B) ≤ (1 + eps) D` -/
theorem centerInside_iff_eps (sqrt : α → α) (eps : α) (s0 s1 s2 : P2 α) (h : crossP s0 s1 s2 ≠ 0) :
    centerInside sqrt eps s0 s1 s2 = true ↔
      -eps * (4 * (crossP s0 s1 s2 * crossP s0 s1 s2)) ≤ dsqP s1 s2 * (dsqP s0 s2 + dsqP s0 s1 - dsqP s1 s2) ∧
      -eps * (4 * (crossP s0 s1 s2 * crossP s0 s1 s2)) ≤ dsqP s0 s2 * (dsqP s1 s2 + dsqP s0 s1 - dsqP s0 s2) ∧
      -eps * (4 * (crossP s0 s1 s2 * crossP s0 s1 s2)) ≤ dsqP s0 s1 * (dsqP s1 s2 + dsqP s0 s2 - dsqP s0 s1) ∧
      dsqP s0 s2 * (dsqP s1 s2 + dsqP s0 s1 - dsqP s0 s2) ≤ (1 + eps) * (4 * (crossP s0 s1 s2 * crossP s0 s1 s2)) :=
  C20.circ2_inside_iff_eps sqrt _ _ _ _ _ _ eps h

/-- the centroid of a non-degenerate triangle is not the midpoint of an edge -/
theorem centroid_ne_mid (s0 s1 s2 : P2 α) (h : crossP s0 s1 s2 ≠ 0) :
    centroid s0 s1 s2 ≠ mid s0 s1 ∧ centroid s0 s1 s2 ≠ mid s0 s2 ∧ centroid s0 s1 s2 ≠ mid s1 s2 := by
  refine ⟨?_, ?_, ?_⟩ <;> intro e <;> apply h <;> simp only [centroid, mid, Prod.mk.injEq] at e <;>
    obtain ⟨e1, e2⟩ := e
  · have a : s2.1 = (s0.1 + s1.1) / 2 := by linarith
    have b : s2.2 = (s0.2 + s1.2) / 2 := by linarith
    simp only [crossP, cross2, a, b]; ring
  · have a : s1.1 = (s0.1 + s2.1) / 2 := by linarith
    have b : s1.2 = (s0.2 + s2.2) / 2 := by linarith
    simp only [crossP, cross2, a, b]; ring
  · have a : s0.1 = (s1.1 + s2.1) / 2 := by linarith
    have b : s0.2 = (s1.2 + s2.2) / 2 := by linarith
    simp only [crossP, cross2, a, b]; ring

/-- the result tells the branch (non-degenerate triangle): the centroid is returned exactly when the circumcentre
passes the test -/
theorem chooseCore_eq_centroid_iff (sqrt : α → α) (hs : SqrtLaw sqrt) (eps : α) (s0 s1 s2 : P2 α) (h : crossP s0 s1 s2 ≠ 0) :
    chooseCore sqrt eps s0 s1 s2 = centroid s0 s1 s2 ↔ centerInside sqrt eps s0 s1 s2 = true := by
  constructor
  · intro e
    by_contra hc
    rw [Bool.not_eq_true] at hc
    obtain ⟨n1, n2, n3⟩ := centroid_ne_mid s0 s1 s2 h
    rw [chooseCore_of_not_inside hc] at e
    rcases longestEdgeMid_cases sqrt hs s0 s1 s2 with ⟨k, _⟩ | ⟨k, _⟩ | ⟨k, _⟩
    · exact n1 (e.symm.trans k)
    · exact n2 (e.symm.trans k)
    · exact n3 (e.symm.trans k)
  · exact chooseCore_of_inside

theorem crossP_scaleT (t0 t1 : α) (p0 p1 p2 : P2 α) :
    crossP (scaleT t0 t1 p0) (scaleT t0 t1 p1) (scaleT t0 t1 p2) = t0 * t1 * crossP p0 p1 p2 := by
  simp only [crossP, cross2, scaleT]; ring

theorem undoT_centroid_scaleT (t0 t1 : α) (h0 : t0 ≠ 0) (h1 : t1 ≠ 0) (p0 p1 p2 : P2 α) :
    undoT (some (t0, t1)) (centroid (scaleT t0 t1 p0) (scaleT t0 t1 p1) (scaleT t0 t1 p2)) = centroid p0 p1 p2 := by
  simp only [undoT, centroid, scaleT]
  refine Prod.ext ?_ ?_ <;> simp only <;> field_simp

theorem undoT_injective (t0 t1 : α) (h0 : t0 ≠ 0) (h1 : t1 ≠ 0) {m m' : P2 α}
    (e : undoT (some (t0, t1)) m = undoT (some (t0, t1)) m') : m = m' := by
  have := congrArg (scaleT t0 t1) e
  rwa [scaleT_undoT t0 t1 h0 h1, scaleT_undoT t0 t1 h0 h1] at this

/-- (d) the centroid branch, with a transform `diag(t0, t1)` (`t0, t1 ≠ 0`), non-degenerate triangle: the chosen point
is the centroid OF THE ORIGINAL TRIANGLE (the transform cancels on the centroid) exactly when the circumcentre of the
TRANSFORMED triangle passes `point_in_simplex` with the tolerance `eps` for the transformed triangle … -/
theorem choose2_centroid_iff (sqrt : α → α) (hs : SqrtLaw sqrt) (eps : α) (p0 p1 p2 : P2 α) (t0 t1 : α)
    (h0 : t0 ≠ 0) (h1 : t1 ≠ 0) (hA : crossP p0 p1 p2 ≠ 0) :
    choosePoint2 sqrt eps p0 p1 p2 (some (t0, t1)) = centroid p0 p1 p2 ↔
      centerInside sqrt eps (scaleT t0 t1 p0) (scaleT t0 t1 p1) (scaleT t0 t1 p2) = true := by
  have hA' : crossP (scaleT t0 t1 p0) (scaleT t0 t1 p1) (scaleT t0 t1 p2) ≠ 0 := by
    rw [crossP_scaleT]; exact mul_ne_zero (mul_ne_zero h0 h1) hA
  rw [choosePoint2_some, ← chooseCore_eq_centroid_iff sqrt hs eps _ _ _ hA', ← undoT_centroid_scaleT t0 t1 h0 h1 p0 p1 p2]
  exact ⟨fun e => undoT_injective t0 t1 h0 h1 e, fun e => by rw [e]⟩

/-- (d) … which for the tolerance `0` says: the TRANSFORMED triangle has no obtuse angle; otherwise the result is the
midpoint of the longest edge of the transformed triangle, mapped back (`choose2_centroid_or_longest_edge_midpoint`) -/
theorem choose2_centroid_iff_not_obtuse (sqrt : α → α) (hs : SqrtLaw sqrt) (p0 p1 p2 : P2 α) (t0 t1 : α)
    (h0 : t0 ≠ 0) (h1 : t1 ≠ 0) (hA : crossP p0 p1 p2 ≠ 0) :
    choosePoint2 sqrt 0 p0 p1 p2 (some (t0, t1)) = centroid p0 p1 p2 ↔
      NotObtuse (scaleT t0 t1 p0) (scaleT t0 t1 p1) (scaleT t0 t1 p2) := by
  have hA' : crossP (scaleT t0 t1 p0) (scaleT t0 t1 p1) (scaleT t0 t1 p2) ≠ 0 := by
    rw [crossP_scaleT]; exact mul_ne_zero (mul_ne_zero h0 h1) hA
  rw [choose2_centroid_iff sqrt hs 0 p0 p1 p2 t0 t1 h0 h1 hA, centerInside_iff_not_obtuse sqrt _ _ _ hA']

/-- (d) for every tolerance `eps ≥ 0` (the code's `1e-8`): no obtuse angle in the transformed triangle ⇒ centroid -/
theorem choose2_centroid_of_not_obtuse (sqrt : α → α) (hs : SqrtLaw sqrt) (eps : α) (he : 0 ≤ eps) (p0 p1 p2 : P2 α)
    (t0 t1 : α) (h0 : t0 ≠ 0) (h1 : t1 ≠ 0) (hA : crossP p0 p1 p2 ≠ 0)
    (hn : NotObtuse (scaleT t0 t1 p0) (scaleT t0 t1 p1) (scaleT t0 t1 p2)) :
    choosePoint2 sqrt eps p0 p1 p2 (some (t0, t1)) = centroid p0 p1 p2 := by
  have hA' : crossP (scaleT t0 t1 p0) (scaleT t0 t1 p1) (scaleT t0 t1 p2) ≠ 0 := by
    rw [crossP_scaleT]; exact mul_ne_zero (mul_ne_zero h0 h1) hA
  exact (choose2_centroid_iff sqrt hs eps p0 p1 p2 t0 t1 h0 h1 hA).2 (centerInside_of_not_obtuse sqrt eps he _ _ _ hA' hn)

/-- (d) without a transform -/
theorem choose2_centroid_iff_none (sqrt : α → α) (hs : SqrtLaw sqrt) (eps : α) (p0 p1 p2 : P2 α) (hA : crossP p0 p1 p2 ≠ 0) :
    choosePoint2 sqrt eps p0 p1 p2 none = centroid p0 p1 p2 ↔ centerInside sqrt eps p0 p1 p2 = true :=
  chooseCore_eq_centroid_iff sqrt hs eps p0 p1 p2 hA

theorem choose2_centroid_iff_not_obtuse_none (sqrt : α → α) (hs : SqrtLaw sqrt) (p0 p1 p2 : P2 α) (hA : crossP p0 p1 p2 ≠ 0) :
    choosePoint2 sqrt 0 p0 p1 p2 none = centroid p0 p1 p2 ↔ NotObtuse p0 p1 p2 := by
  rw [choose2_centroid_iff_none sqrt hs 0 p0 p1 p2 hA, centerInside_iff_not_obtuse sqrt _ _ _ hA]

/-- in the edge branch (tolerance `eps ≥ 0`, non-degenerate transformed triangle) the triangle is obtuse, so ONE edge
is strictly longer than the other two: over an ordered field the first-maximum rule of `np.argmax` never has to break
a tie between different midpoints (ties of rounded distances are a floating-point matter) -/
theorem edge_branch_strict (sqrt : α → α) (eps : α) (he : 0 ≤ eps) (s0 s1 s2 : P2 α) (h : crossP s0 s1 s2 ≠ 0)
    (hc : centerInside sqrt eps s0 s1 s2 = false) :
    (dsqP s0 s2 < dsqP s1 s2 ∧ dsqP s0 s1 < dsqP s1 s2) ∨ (dsqP s1 s2 < dsqP s0 s2 ∧ dsqP s0 s1 < dsqP s0 s2) ∨
    (dsqP s1 s2 < dsqP s0 s1 ∧ dsqP s0 s2 < dsqP s0 s1) := by
  obtain ⟨pA, pB, pC⟩ := C20.dsq2_pos_of_cross2 _ _ _ _ _ _ h
  have hn : ¬ NotObtuse s0 s1 s2 := fun hn => by
    rw [centerInside_of_not_obtuse sqrt eps he s0 s1 s2 h hn] at hc; exact absurd hc (by simp)
  simp only [NotObtuse, dsqP] at hn ⊢
  by_cases a : dsq2 s1.1 s1.2 s2.1 s2.2 ≤ dsq2 s0.1 s0.2 s2.1 s2.2 + dsq2 s0.1 s0.2 s1.1 s1.2
  · by_cases b : dsq2 s0.1 s0.2 s2.1 s2.2 ≤ dsq2 s1.1 s1.2 s2.1 s2.2 + dsq2 s0.1 s0.2 s1.1 s1.2
    · have c : ¬ dsq2 s0.1 s0.2 s1.1 s1.2 ≤ dsq2 s1.1 s1.2 s2.1 s2.2 + dsq2 s0.1 s0.2 s2.1 s2.2 := fun c => hn ⟨a, b, c⟩
      right; right; constructor <;> linarith
    · right; left; constructor <;> linarith
  · left; constructor <;> linarith

end geom

/-! ### (e) non-vacuity: the model computes, every branch is reached (ℚ; `sqrt` only matters on the squared lengths
that occur, which are perfect squares here), the hypotheses are satisfiable, and the guards are needed -/
section examples

/-- a square root on the perfect squares the examples need -/
def sqT (x : ℚ) : ℚ := if x = 64 then 8 else if x = 25 then 5 else 0

/-- the law of `sqrt` is satisfiable (over ℝ), so (a)–(d) are not vacuous … -/
example : ∃ sqrt : ℝ → ℝ, SqrtLaw sqrt := ⟨Real.sqrt, C20.real_sqrt_law⟩
/-- … e.g. (b) at ℝ for the unit right triangle, LearnerND's kind of transform and the code's tolerance -/
example (t0 t1 : ℝ) (h0 : 0 < t0) (h1 : 0 < t1) :
    point_in_simplex2 (choosePoint2 Real.sqrt (1 / 100000000) (0, 0) (1, 0) (0, 1) (some (t0, t1))).1
      (choosePoint2 Real.sqrt (1 / 100000000) (0, 0) (1, 0) (0, 1) (some (t0, t1))).2 0 0 1 0 0 1 (1 / 100000000) = true :=
  choose2_in_closed_triangle Real.sqrt C20.real_sqrt_law _ (0, 0) (1, 0) (0, 1) _
    (by intro a b e; cases e; exact ⟨h0.ne', h1.ne'⟩) (by norm_num [crossP, cross2]) _ (by norm_num)

/-- acute triangle, no transform: the centroid -/
example : choosePoint2 id (1 / 100000000) ((0 : ℚ), 0) (4, 0) (2, 3) none = (2, 1) := by
  norm_num [choosePoint2, undoT, applyT, chooseCore, centerInside, circumsphere2, point_in_simplex2, centroid]
/-- right triangle: the circumcentre is the midpoint of the hypotenuse, ON the boundary, accepted even with
tolerance `0`: the centroid -/
example : choosePoint2 id 0 ((0 : ℚ), 0) (4, 0) (0, 3) none = (4 / 3, 1) := by
  norm_num [choosePoint2, undoT, applyT, chooseCore, centerInside, circumsphere2, point_in_simplex2, centroid]
example : (circumsphere2 id (0 : ℚ) 0 4 0 0 3).1 = (2, 3 / 2) := by norm_num [circumsphere2]
/-- obtuse triangle (edges 8, 5, 5), the three positions of the longest edge: flat argmax index 1, 2, 5 of the
distance matrix, and the midpoint of that edge is returned -/
example : argmax (distMatrix sqT ((-4 : ℚ), 0) (4, 0) (0, 3)) = 1 ∧
    choosePoint2 sqT (1 / 100000000) ((-4 : ℚ), 0) (4, 0) (0, 3) none = (0, 0) := by
  norm_num [choosePoint2, undoT, applyT, chooseCore, centerInside, circumsphere2, point_in_simplex2, centroid,
    longestEdgeMid, distMatrix, pdist2, sqT, argmax, argmaxFrom, vtx]
example : argmax (distMatrix sqT ((-4 : ℚ), 0) (0, 3) (4, 0)) = 2 ∧
    choosePoint2 sqT (1 / 100000000) ((-4 : ℚ), 0) (0, 3) (4, 0) none = (0, 0) := by
  norm_num [choosePoint2, undoT, applyT, chooseCore, centerInside, circumsphere2, point_in_simplex2, centroid,
    longestEdgeMid, distMatrix, pdist2, sqT, argmax, argmaxFrom, vtx]
example : argmax (distMatrix sqT ((0 : ℚ), 3) (-4, 0) (4, 0)) = 5 ∧
    choosePoint2 sqT (1 / 100000000) ((0 : ℚ), 3) (-4, 0) (4, 0) none = (0, 0) := by
  norm_num [choosePoint2, undoT, applyT, chooseCore, centerInside, circumsphere2, point_in_simplex2, centroid,
    longestEdgeMid, distMatrix, pdist2, sqT, argmax, argmaxFrom, vtx]
/-- the transform decides: the triangle `(-8,0) (8,0) (0,9)` is acute (centroid `(0, 3)` without a transform), its image
under `diag(1/2, 1/3)` is the obtuse triangle above: the midpoint of the long edge, mapped back -/
example : choosePoint2 sqT (1 / 100000000) ((-8 : ℚ), 0) (8, 0) (0, 9) none = (0, 3) ∧
    choosePoint2 sqT (1 / 100000000) ((-8 : ℚ), 0) (8, 0) (0, 9) (some (1 / 2, 1 / 3)) = (0, 0) := by
  norm_num [choosePoint2, undoT, applyT, dotDiag, chooseCore, centerInside, circumsphere2, point_in_simplex2, centroid,
    longestEdgeMid, distMatrix, pdist2, sqT, argmax, argmaxFrom, vtx]
/-- … and a transform under which the centroid branch is taken: the result is the centroid of the original triangle -/
example : choosePoint2 sqT (1 / 100000000) ((0 : ℚ), 0) (16, 0) (8, 9) (some (1 / 4, 1 / 3)) = (8, 3) := by
  norm_num [choosePoint2, undoT, applyT, dotDiag, chooseCore, centerInside, circumsphere2, point_in_simplex2, centroid]
/-- three coinciding vertices: every distance is `0`, the argmax is the flat index `0`, the "edge" is `(v0, v0)` -/
example : argmax (distMatrix sqT ((1 : ℚ), 1) (1, 1) (1, 1)) = 0 ∧ longestEdgeMid sqT ((1 : ℚ), 1) (1, 1) (1, 1) = (1, 1) := by
  norm_num [longestEdgeMid, distMatrix, pdist2, sqT, argmax, argmaxFrom, vtx]

/-- (d) is sharp only for tolerance `0`: with a tolerance (here `1/50`) a slightly obtuse triangle still takes the
centroid branch — kernel-checked counterexample to "`centerInside eps` iff not obtuse" for `eps > 0` -/
example : centerInside id (1 / 50) ((-100 : ℚ), 0) (100, 0) (0, 99) = true ∧ ¬ NotObtuse ((-100 : ℚ), 0) (100, 0) (0, 99) := by
  constructor
  · norm_num [centerInside, circumsphere2, point_in_simplex2]
  · norm_num [NotObtuse, dsqP, dsq2]

/-- DEGENERATE triangles (collinear vertices): the code divides by zero twice (`dx / a` in the circumcentre, `1 / (2 area)`
in the barycentric test).  Over a field `x / 0 = 0`, so the test ACCEPTS (`s = t = 0`) and the model takes the centroid —
here `(4/3, 0)` — whereas IEEE arithmetic produces `inf`/`nan`, every comparison with `nan` is false, the test REJECTS
and the real code returns the midpoint of the longest edge, `(3/2, 0)` (driver: `choose call2` on these bits, and
`corr_choose.py` category `degenerate`).  Hence every branch statement carries the guard `crossP ≠ 0`; (a), the weights
of (b) and the equivariances (c) hold for both branches and need no guard. -/
example : choosePoint2 sqT (1 / 100000000) ((0 : ℚ), 0) (1, 0) (3, 0) none = (4 / 3, 0) := by
  norm_num [choosePoint2, undoT, applyT, chooseCore, centerInside, circumsphere2, point_in_simplex2, centroid]

/-- the guard `crossP ≠ 0` of `chooseCore_eq_centroid_iff` / `choose2_centroid_iff` is needed: three coinciding vertices
and a negative tolerance: the test fails, the edge branch returns `(v0 + v0) / 2`, which IS the centroid -/
example : centerInside sqT (-1) ((1 : ℚ), 1) (1, 1) (1, 1) = false ∧
    chooseCore sqT (-1) ((1 : ℚ), 1) (1, 1) (1, 1) = centroid ((1 : ℚ), 1) (1, 1) (1, 1) := by
  norm_num [chooseCore, centerInside, circumsphere2, point_in_simplex2, centroid,
    longestEdgeMid, distMatrix, pdist2, sqT, argmax, argmaxFrom, vtx]

end examples
end Choose
