import AdaptiveProofs.Lemmas.TriCavity
import Mathlib.Tactic.Ring
import Mathlib.Tactic.Linarith
import Mathlib.Tactic.LinearCombination
import Mathlib.Tactic.FieldSimp
import Mathlib.Algebra.Order.Field.Basic

/-!
# The Delaunay cavity is star-shaped with respect to the new point (dimension 2, exact predicates)

What `Lemmas/TriCavity.lean` assumes (`hstar` of `cavity_conserved_2d`) is proved here from the in-circle test.

* `sideL a b x`   – the affine "signed side of the line `ab`" function (`= area2 a b x`);
* `diamC0 a b x`  – `(x - a) · (x - b)`: negative strictly inside the circle with diameter `ab`, zero on it;
* `circ a b lam x = diamC0 a b x + lam * sideL a b x` – the PENCIL of circles through `a` and `b`: every circle through
  `a`, `b` (`a ≠ b`) is the zero set of exactly one member (`circle_in_pencil`), its open disk is `circ … < 0`;
* `power a b c x = sideL a b c * diamC0 a b x - diamC0 a b c * sideL a b x` – the power of `x` with respect to the
  circumcircle of `a b c`, multiplied by the orientation determinant `sideL a b c` (no division: any commutative ring).
  It vanishes at `a`, `b`, `c`, it is the SAME quadratic for the three edges (`power_cycle`), it changes sign with the
  orientation (`power_swap`), it is minus the classical lifted in-circle determinant (`power_eq_neg_inCircleDet`);
* `InCircle a b c x := sideL a b c * power a b c x < 0` – `x` strictly inside the circumcircle, orientation-normalised
  (invariant under every permutation of `a b c`).

Key lemma `far_side_in_neighbour_circle`: `T = abc` and `T' = abd` on opposite sides of `ab`, `p` strictly inside
`circ T`, `d` NOT strictly inside `circ T` (local Delaunay), `p` strictly on the far side of `ab` ⇒ `p` strictly inside
`circ T'`.  Hence (`not_far_side`): if `T'` is not deleted, `p` is on the side of `c` (or on the line `ab`).
`cavity_star_2d`: the list-level statement in the vocabulary of `TriCavity.lean`.
-/
namespace Tri

/-! ## A. the predicates -/
section defs
variable {α : Type} [CommRing α]

/-- signed side of the line `ab`: the determinant of `(b - a, x - a)` -/
def sideL (a b x : α × α) : α := (b.1 - a.1) * (x.2 - a.2) - (b.2 - a.2) * (x.1 - a.1)

/-- `(x - a) · (x - b)`: the circle with diameter `ab` -/
def diamC0 (a b x : α × α) : α := (x.1 - a.1) * (x.1 - b.1) + (x.2 - a.2) * (x.2 - b.2)

/-- the member `lam` of the pencil of circles through `a` and `b` -/
def circ (a b : α × α) (lam : α) (x : α × α) : α := diamC0 a b x + lam * sideL a b x

/-- (orientation determinant) × (power of `x` with respect to the circumcircle of `a b c`) -/
def power (a b c x : α × α) : α := sideL a b c * diamC0 a b x - diamC0 a b c * sideL a b x

/-- the classical in-circle determinant: rows `(u - x, |u - x|²)` for `u = a, b, c` -/
def inCircleDet (a b c x : α × α) : α :=
  let a1 := a.1 - x.1; let a2 := a.2 - x.2
  let b1 := b.1 - x.1; let b2 := b.2 - x.2
  let c1 := c.1 - x.1; let c2 := c.2 - x.2
  a1 * (b2 * (c1 * c1 + c2 * c2) - (b1 * b1 + b2 * b2) * c2)
    - a2 * (b1 * (c1 * c1 + c2 * c2) - (b1 * b1 + b2 * b2) * c1)
    + (a1 * a1 + a2 * a2) * (b1 * c2 - b2 * c1)

theorem sideL_eq_area2 (a b x : α × α) : sideL a b x = area2 a b x := rfl

theorem sideL_left (a b : α × α) : sideL a b a = 0 := by simp only [sideL]; ring
theorem sideL_right (a b : α × α) : sideL a b b = 0 := by simp only [sideL]; ring
theorem diamC0_left (a b : α × α) : diamC0 a b a = 0 := by simp only [diamC0]; ring
theorem diamC0_right (a b : α × α) : diamC0 a b b = 0 := by simp only [diamC0]; ring

theorem sideL_swap (a b x : α × α) : sideL b a x = -sideL a b x := by simp only [sideL]; ring
theorem sideL_cycle (a b c : α × α) : sideL b c a = sideL a b c := by simp only [sideL]; ring
theorem diamC0_swap (a b x : α × α) : diamC0 b a x = diamC0 a b x := by simp only [diamC0]; ring

/-- every member of the pencil passes through `a` and `b` -/
theorem circ_left (a b : α × α) (lam : α) : circ a b lam a = 0 := by
  simp only [circ, diamC0_left, sideL_left]; ring
theorem circ_right (a b : α × α) (lam : α) : circ a b lam b = 0 := by
  simp only [circ, diamC0_right, sideL_right]; ring

/-- the power function vanishes at the three vertices: it IS (a multiple of) the circumcircle equation -/
theorem power_left (a b c : α × α) : power a b c a = 0 := by
  simp only [power, diamC0_left, sideL_left]; ring
theorem power_right (a b c : α × α) : power a b c b = 0 := by
  simp only [power, diamC0_right, sideL_right]; ring
theorem power_apex (a b c : α × α) : power a b c c = 0 := by
  simp only [power]; ring

/-- SYMMETRY IN THE ROLE OF THE EDGE: the same quadratic for the edge `bc` (apex `a`) … -/
theorem power_cycle (a b c x : α × α) : power b c a x = power a b c x := by
  simp only [power, sideL, diamC0]; ring
/-- … and for the edge `ca` (apex `b`) -/
theorem power_cycle' (a b c x : α × α) : power c a b x = power a b c x := by
  simp only [power, sideL, diamC0]; ring
/-- exchanging two vertices reverses the orientation factor -/
theorem power_swap (a b c x : α × α) : power b a c x = -power a b c x := by
  simp only [power, sideL, diamC0]; ring
theorem power_swap' (a b c x : α × α) : power a c b x = -power a b c x := by
  simp only [power, sideL, diamC0]; ring

/-- `power` is minus the classical (lifted) in-circle determinant -/
theorem power_eq_neg_inCircleDet (a b c x : α × α) : power a b c x = -inCircleDet a b c x := by
  simp only [power, sideL, diamC0, inCircleDet]; ring

/-- the quadratic part: `power a b c x = sideL a b c * |x|² + (affine in x)`; in particular, as a function of `x` it is
the equation of a circle whenever `sideL a b c ≠ 0` (centre form: `power_eq_dist`) -/
theorem power_eq_dist (a b c x m : α × α) (r2 : α)
    (ha : (a.1 - m.1) * (a.1 - m.1) + (a.2 - m.2) * (a.2 - m.2) = r2)
    (hb : (b.1 - m.1) * (b.1 - m.1) + (b.2 - m.2) * (b.2 - m.2) = r2)
    (hc : (c.1 - m.1) * (c.1 - m.1) + (c.2 - m.2) * (c.2 - m.2) = r2) :
    power a b c x = sideL a b c * ((x.1 - m.1) * (x.1 - m.1) + (x.2 - m.2) * (x.2 - m.2) - r2) := by
  simp only [power, sideL, diamC0]
  linear_combination
    (-((b.1 - x.1) * (c.2 - x.2) - (b.2 - x.2) * (c.1 - x.1))) * ha
    + (-((c.1 - x.1) * (a.2 - x.2) - (c.2 - x.2) * (a.1 - x.1))) * hb
    + (-((a.1 - x.1) * (b.2 - x.2) - (a.2 - x.2) * (b.1 - x.1))) * hc

/-- THE PENCIL IDENTITY: the circumcircles of `abc` and `abd` differ by a multiple of the line `ab`, and the multiple
is the power of `d` with respect to `abc`. -/
theorem power_pencil (a b c d x : α × α) :
    sideL a b d * power a b c x - sideL a b c * power a b d x = power a b c d * sideL a b x := by
  simp only [power]; ring

/-- the power function is the member `lam = -C0(c)/L(c)` of the pencil, multiplied through by `L(c)` -/
theorem power_eq_circ (a b c x : α × α) (lam : α) (h : lam * sideL a b c = -diamC0 a b c) :
    power a b c x = sideL a b c * circ a b lam x := by
  simp only [power, circ]
  linear_combination (-sideL a b x) * h

end defs

/-! ## B. order: the pencil lemma and the key lemma -/
section order
set_option linter.unusedSectionVars false
variable {α : Type} [CommRing α] [LinearOrder α] [IsStrictOrderedRing α]

/-- `x` is STRICTLY inside the circumcircle of the triangle `a b c` (orientation-normalised polynomial predicate) -/
def InCircle (a b c x : α × α) : Prop := sideL a b c * power a b c x < 0

instance (a b c x : α × α) : Decidable (InCircle a b c x) := by unfold InCircle; infer_instance

omit [LinearOrder α] [IsStrictOrderedRing α] in
theorem sideL_mul_power_cycle (a b c x : α × α) :
    sideL b c a * power b c a x = sideL a b c * power a b c x := by
  rw [power_cycle, sideL_cycle]
omit [LinearOrder α] [IsStrictOrderedRing α] in
theorem sideL_mul_power_swap (a b c x : α × α) :
    sideL b a c * power b a c x = sideL a b c * power a b c x := by
  rw [power_swap, sideL_swap]; ring

/-- the in-circle predicate does not depend on the order of the vertices -/
theorem inCircle_cycle (a b c x : α × α) : InCircle b c a x ↔ InCircle a b c x := by
  unfold InCircle; rw [sideL_mul_power_cycle]
theorem inCircle_swap (a b c x : α × α) : InCircle b a c x ↔ InCircle a b c x := by
  unfold InCircle; rw [sideL_mul_power_swap]

/-- a vertex is never strictly inside, and nothing is strictly inside a degenerate triangle -/
theorem not_inCircle_apex (a b c : α × α) : ¬ InCircle a b c c := by
  unfold InCircle; rw [power_apex, mul_zero]; exact lt_irrefl _
theorem not_inCircle_degenerate (a b c x : α × α) (h : sideL a b c = 0) : ¬ InCircle a b c x := by
  unfold InCircle; rw [h, zero_mul]; exact lt_irrefl _

/-- CENTRE FORM of the predicate: if `m` is at squared distance `r2` from the three vertices of a non-degenerate
triangle, `x` is strictly inside (polynomial predicate) iff its squared distance to `m` is smaller than `r2`. -/
theorem inCircle_iff_dist (a b c x m : α × α) (r2 : α) (hnd : sideL a b c ≠ 0)
    (ha : (a.1 - m.1) * (a.1 - m.1) + (a.2 - m.2) * (a.2 - m.2) = r2)
    (hb : (b.1 - m.1) * (b.1 - m.1) + (b.2 - m.2) * (b.2 - m.2) = r2)
    (hc : (c.1 - m.1) * (c.1 - m.1) + (c.2 - m.2) * (c.2 - m.2) = r2) :
    InCircle a b c x ↔ (x.1 - m.1) * (x.1 - m.1) + (x.2 - m.2) * (x.2 - m.2) < r2 := by
  unfold InCircle
  rw [power_eq_dist a b c x m r2 ha hb hc, ← mul_assoc]
  have h2 : 0 < sideL a b c * sideL a b c := mul_self_pos.mpr hnd
  constructor
  · intro h1
    by_contra h3
    have := mul_nonneg h2.le (sub_nonneg.mpr (not_lt.mp h3))
    linarith
  · intro h1
    exact mul_neg_of_pos_of_neg h2 (sub_neg.mpr h1)

/-- PENCIL LEMMA (ordering of the parameters from a witness).  Two circles `lam`, `mu` through `a` and `b`; a witness
`d` strictly on the negative side of `ab` that is on or inside the circle `mu` and not strictly inside the circle
`lam`: then `lam ≤ mu` … -/
theorem pencil_param_le {a b d : α × α} {lam mu : α} (hd : sideL a b d < 0)
    (hon : circ a b mu d ≤ 0) (hout : 0 ≤ circ a b lam d) : lam ≤ mu := by
  by_contra h
  have h' : 0 < lam - mu := sub_pos.mpr (not_le.mp h)
  have := mul_neg_of_pos_of_neg h' hd
  simp only [circ] at hon hout
  nlinarith

/-- … and then, on the closed negative side of `ab`, the disk of `lam` is contained in the disk of `mu` -/
theorem pencil_mono {a b p : α × α} {lam mu : α} (h : lam ≤ mu) (hp : sideL a b p ≤ 0) :
    circ a b mu p ≤ circ a b lam p := by
  simp only [circ]
  have := mul_nonneg_of_nonpos_of_nonpos (sub_nonpos.mpr h) hp
  nlinarith

/-- the key lemma in pencil form: `p` strictly inside the circle `lam` and on the closed negative side; `d` strictly on
the negative side, on the circle `mu`, not strictly inside the circle `lam` ⇒ `p` strictly inside the circle `mu` -/
theorem pencil_far_side {a b d p : α × α} {lam mu : α} (hd : sideL a b d < 0)
    (hon : circ a b mu d ≤ 0) (hout : 0 ≤ circ a b lam d) (hp : sideL a b p ≤ 0) (hin : circ a b lam p < 0) :
    circ a b mu p < 0 :=
  lt_of_le_of_lt (pencil_mono (pencil_param_le hd hon hout) hp) hin

/-- KEY LEMMA.  Triangles `abc` and `abd` on strictly opposite sides of their common edge `ab`; `p` strictly inside the
circumcircle of `abc`; `d` not strictly inside the circumcircle of `abc` (the pair is locally Delaunay); `p` strictly
on the far side of `ab` (the side of `d`).  Then `p` is strictly inside the circumcircle of `abd`. -/
theorem far_side_in_neighbour_circle {a b c d p : α × α}
    (hopp : sideL a b c * sideL a b d < 0) (hp : InCircle a b c p) (hdel : ¬ InCircle a b c d)
    (hfar : sideL a b c * sideL a b p < 0) : InCircle a b d p := by
  unfold InCircle at hp hdel ⊢
  have hid := power_pencil a b c d p
  have hQ : 0 ≤ sideL a b c * power a b c d := not_lt.mp hdel
  generalize sideL a b c = Lc at *
  generalize sideL a b d = Ld at *
  generalize sideL a b p = Lp at *
  generalize power a b c p = Pc at *
  generalize power a b d p = Pd at *
  generalize power a b c d = Q at *
  have hLc : Lc ≠ 0 := by rintro rfl; simp at hopp
  have hLd : Ld ≠ 0 := by rintro rfl; simp at hopp
  have hLc2 : 0 < Lc * Lc := mul_self_pos.mpr hLc
  have hLd2 : 0 < Ld * Ld := mul_self_pos.mpr hLd
  have h1 : 0 < Ld * Lp := by
    by_contra h
    have h2 := mul_nonpos_of_nonneg_of_nonpos hLc2.le (not_lt.mp h)
    have h3 := mul_pos_of_neg_of_neg hopp hfar
    have e : Lc * Ld * (Lc * Lp) = Lc * Lc * (Ld * Lp) := by ring
    linarith
  have h2 : 0 ≤ (Lc * Q) * (Ld * Lp) := mul_nonneg hQ h1.le
  have h3 : (Ld * Ld) * (Lc * Pc) < 0 := mul_neg_of_pos_of_neg hLd2 hp
  have e : (Lc * Lc) * (Ld * Pd) = (Ld * Ld) * (Lc * Pc) - (Lc * Q) * (Ld * Lp) := by
    linear_combination (-(Lc * Ld)) * hid
  have h4 : (Lc * Lc) * (Ld * Pd) < 0 := by rw [e]; linarith
  by_contra h
  have := mul_nonneg hLc2.le (not_lt.mp h)
  linarith

/-- COROLLARY (what Bowyer–Watson needs): if moreover `p` is NOT strictly inside the circumcircle of the neighbour `abd`
(the neighbour is not deleted), then `p` is not strictly on the far side of `ab`: it is on the side of `c`, or on the
line `ab`. -/
theorem not_far_side {a b c d p : α × α}
    (hopp : sideL a b c * sideL a b d < 0) (hp : InCircle a b c p) (hdel : ¬ InCircle a b c d)
    (hnp : ¬ InCircle a b d p) : 0 ≤ sideL a b c * sideL a b p :=
  not_lt.mp (fun hfar => hnp (far_side_in_neighbour_circle hopp hp hdel hfar))

/-- a point of the line `ab` that is strictly inside one circle through `a` and `b` is strictly inside every circle
through `a` and `b` (it is strictly between `a` and `b`) -/
theorem on_line_in_both {a b c d p : α × α} (hd : sideL a b d ≠ 0) (hl : sideL a b p = 0)
    (hp : InCircle a b c p) : InCircle a b d p := by
  unfold InCircle power at hp ⊢
  rw [hl, mul_zero, sub_zero, ← mul_assoc] at hp ⊢
  have hc : sideL a b c ≠ 0 := by rintro h; rw [h] at hp; simp at hp
  have h1 : 0 < sideL a b c * sideL a b c := mul_self_pos.mpr hc
  have h2 : 0 < sideL a b d * sideL a b d := mul_self_pos.mpr hd
  have h3 : diamC0 a b p < 0 := by
    by_contra h
    have := mul_nonneg h1.le (not_lt.mp h)
    linarith
  exact mul_neg_of_pos_of_neg h2 h3

/-- STRICT FORM: under the same hypotheses `p` is STRICTLY on the side of `c` – the new triangle `a b p` over a hole edge
that has a neighbour is never degenerate.  (Only hull edges can give a flat new triangle.) -/
theorem strictly_near_side {a b c d p : α × α}
    (hopp : sideL a b c * sideL a b d < 0) (hp : InCircle a b c p) (hdel : ¬ InCircle a b c d)
    (hnp : ¬ InCircle a b d p) : 0 < sideL a b c * sideL a b p := by
  refine lt_of_le_of_ne (not_far_side hopp hp hdel hnp) (fun h => ?_)
  have hd : sideL a b d ≠ 0 := by rintro h0; rw [h0, mul_zero] at hopp; exact lt_irrefl _ hopp
  rcases mul_eq_zero.mp h.symm with h0 | h0
  · rw [h0, zero_mul] at hopp; exact lt_irrefl _ hopp
  · exact hnp (on_line_in_both hd h0 hp)

end order

/-! ## C. the pencil over a field: every circle through `a` and `b` is a member, with the expected parameter -/
section field
variable {α : Type} [Field α] [LinearOrder α] [IsStrictOrderedRing α]

/-- EVERY circle (centre `m`, squared radius `r2`) through two different points `a`, `b` is the member
`lam = ((a + b - 2m) · n) / |b - a|²` (`n` the normal of `ab`) of the pencil: same equation, for all `x`. -/
theorem circle_in_pencil (a b m : α × α) (r2 : α) (hab : a ≠ b)
    (ha : (a.1 - m.1) * (a.1 - m.1) + (a.2 - m.2) * (a.2 - m.2) = r2)
    (hb : (b.1 - m.1) * (b.1 - m.1) + (b.2 - m.2) * (b.2 - m.2) = r2) :
    ∃ lam : α, ∀ x : α × α,
      (x.1 - m.1) * (x.1 - m.1) + (x.2 - m.2) * (x.2 - m.2) - r2 = circ a b lam x := by
  set n2 : α := (b.1 - a.1) * (b.1 - a.1) + (b.2 - a.2) * (b.2 - a.2) with hn2
  have hn : n2 ≠ 0 := by
    intro h0
    have h1 : (b.1 - a.1) * (b.1 - a.1) = 0 := by
      have := mul_self_nonneg (b.1 - a.1); have := mul_self_nonneg (b.2 - a.2)
      apply le_antisymm <;> linarith
    have h2 : (b.2 - a.2) * (b.2 - a.2) = 0 := by
      have := mul_self_nonneg (b.1 - a.1); have := mul_self_nonneg (b.2 - a.2)
      apply le_antisymm <;> linarith
    apply hab
    have e1 := sub_eq_zero.mp (mul_self_eq_zero.mp h1)
    have e2 := sub_eq_zero.mp (mul_self_eq_zero.mp h2)
    exact Prod.ext e1.symm e2.symm
  refine ⟨((a.1 + b.1 - 2 * m.1) * (-(b.2 - a.2)) + (a.2 + b.2 - 2 * m.2) * (b.1 - a.1)) / n2, fun x => ?_⟩
  have hl : ((a.1 + b.1 - 2 * m.1) * (-(b.2 - a.2)) + (a.2 + b.2 - 2 * m.2) * (b.1 - a.1)) / n2 * n2
      = (a.1 + b.1 - 2 * m.1) * (-(b.2 - a.2)) + (a.2 + b.2 - 2 * m.2) * (b.1 - a.1) := div_mul_cancel₀ _ hn
  generalize ((a.1 + b.1 - 2 * m.1) * (-(b.2 - a.2)) + (a.2 + b.2 - 2 * m.2) * (b.1 - a.1)) / n2 = lam at hl ⊢
  have hperp : (a.1 + b.1 - 2 * m.1) * (b.1 - a.1) + (a.2 + b.2 - 2 * m.2) * (b.2 - a.2) = 0 := by
    linear_combination hb - ha
  have key : n2 * ((x.1 - m.1) * (x.1 - m.1) + (x.2 - m.2) * (x.2 - m.2) - r2 - circ a b lam x) = 0 := by
    simp only [circ, diamC0, sideL, hn2] at hl ⊢
    linear_combination ((b.1 - a.1) * (b.1 - a.1) + (b.2 - a.2) * (b.2 - a.2)) * ha
      + (-((b.1 - a.1) * (x.2 - a.2) - (b.2 - a.2) * (x.1 - a.1))) * hl
      + ((b.1 - a.1) * (x.1 - a.1) + (b.2 - a.2) * (x.2 - a.2)) * hperp
  exact sub_eq_zero.mp ((mul_eq_zero.mp key).resolve_left hn)

/-- the circumcircle of a non-degenerate triangle `a b c` is the member `lam = -C0(c) / L(c)`; `x` is strictly inside
iff `circ … < 0` there -/
theorem inCircle_iff_circ (a b c x : α × α) (h : sideL a b c ≠ 0) :
    InCircle a b c x ↔ circ a b (-diamC0 a b c / sideL a b c) x < 0 := by
  unfold InCircle
  rw [power_eq_circ a b c x (-diamC0 a b c / sideL a b c) (div_mul_cancel₀ _ h), ← mul_assoc]
  have h2 : 0 < sideL a b c * sideL a b c := mul_self_pos.mpr h
  constructor
  · intro h1
    by_contra h3
    have := mul_nonneg h2.le (not_lt.mp h3)
    linarith
  · intro h1
    exact mul_neg_of_pos_of_neg h2 h1

end field

/-! ## D. the vocabulary of `TriCavity.lean`: triangles and edges as index lists -/
section lists
variable {α : Type} [CommRing α]

/-- the (orientation × power) function of the triangle with the vertex indices `t = [i, j, k]` -/
def pwT (x : Nat → α × α) (t : Simplex) (q : α × α) : α :=
  match t with
  | [i, j, k] => power (x i) (x j) (x k) q
  | _ => 0

/-- the same for the triangle over the edge `e = [a, b]` with apex `c` -/
def pwE (x : Nat → α × α) (e : Simplex) (c q : α × α) : α :=
  match e with
  | [a, b] => power (x a) (x b) c q
  | _ => 0

/-- the three (edge, opposite vertex) pairs of a sorted triangle -/
theorem tri_edge_cases {i j k : Nat} (hij : i < j) (hjk : j < k) {e : Simplex} (he : e ∈ combos 2 [i, j, k])
    {c : Nat} (hc : c ∈ [i, j, k]) (hce : c ∉ e) :
    (e = [i, j] ∧ c = k) ∨ (e = [i, k] ∧ c = j) ∨ (e = [j, k] ∧ c = i) := by
  simp only [combos, List.map_cons, List.map_nil, List.append_nil, List.cons_append, List.nil_append,
    List.mem_cons, List.not_mem_nil, or_false] at he hc
  rcases he with rfl | rfl | rfl <;> simp only [List.mem_cons, List.not_mem_nil, or_false, not_or] at hce
  · rcases hc with rfl | rfl | rfl
    · exact absurd rfl hce.1
    · exact absurd rfl hce.2
    · exact Or.inl ⟨rfl, rfl⟩
  · rcases hc with rfl | rfl | rfl
    · exact absurd rfl hce.1
    · exact Or.inr (Or.inl ⟨rfl, rfl⟩)
    · exact absurd rfl hce.2
  · rcases hc with rfl | rfl | rfl
    · exact Or.inr (Or.inr ⟨rfl, rfl⟩)
    · exact absurd rfl hce.1
    · exact absurd rfl hce.2

/-- every edge of a sorted triangle has an opposite vertex -/
theorem exists_apex {i j k : Nat} {e : Simplex} (hij : i < j) (hjk : j < k) (he : e ∈ combos 2 [i, j, k]) :
    ∃ c, c ∈ [i, j, k] ∧ c ∉ e := by
  simp only [combos, List.map_cons, List.map_nil, List.append_nil, List.cons_append, List.nil_append,
    List.mem_cons, List.not_mem_nil, or_false] at he
  rcases he with rfl | rfl | rfl
  · exact ⟨k, by simp, by simp; omega⟩
  · exact ⟨j, by simp, by simp; omega⟩
  · exact ⟨i, by simp, by simp; omega⟩

/-- a sorted triangle seen from one of its edges `e` with opposite vertex `c`: signed area and power function are
the parity `esign2 t e` times those of "`e` with apex `x c`" -/
theorem tri_edge_decomp (x : Nat → α × α) {i j k : Nat} (hij : i < j) (hjk : j < k) {e : Simplex}
    (he : e ∈ combos 2 [i, j, k]) {c : Nat} (hc : c ∈ [i, j, k]) (hce : c ∉ e) (q : α × α) :
    sv2 x [i, j, k] = esign2 [i, j, k] e * flux2 x e (x c) ∧
    pwT x [i, j, k] q = esign2 [i, j, k] e * pwE x e (x c) q := by
  have h1 : ¬ ([i, k] = [i, j]) := by simp; omega
  have h2 : ¬ ([j, k] = [i, j]) := by simp; omega
  have h3 : ¬ ([j, k] = [i, k]) := by simp; omega
  rcases tri_edge_cases hij hjk he hc hce with ⟨rfl, rfl⟩ | ⟨rfl, rfl⟩ | ⟨rfl, rfl⟩
  · simp [esign2, flux2, sv2, pwT, pwE]
  · constructor
    · simp only [esign2, flux2, sv2, h1, if_false, if_true, area2]; ring
    · simp only [esign2, pwT, pwE, h1, if_false, if_true]; rw [power_swap']; ring
  · constructor
    · simp only [esign2, flux2, sv2, h2, h3, if_false, if_true, area2]; ring
    · simp only [esign2, pwT, pwE, h2, h3, if_false, if_true]; rw [power_cycle (x c) (x j) (x k)]; ring

theorem unit_mul_mul {u : α} (hu : u = 1 ∨ u = -1) (f g : α) : (u * f) * (u * g) = f * g := by
  rcases hu with rfl | rfl <;> ring

end lists

section listsOrder
set_option linter.unusedSectionVars false
variable {α : Type} [CommRing α] [LinearOrder α] [IsStrictOrderedRing α]

/-- `q` is strictly inside the circumcircle of the triangle with the vertex indices `t` (any vertex order; `False` for a
degenerate triangle and for lists that are not triangles) -/
def InCircle2 (x : Nat → α × α) (t : Simplex) (q : α × α) : Prop := sv2 x t * pwT x t q < 0

instance (x : Nat → α × α) (t : Simplex) (q : α × α) : Decidable (InCircle2 x t q) := by
  unfold InCircle2; infer_instance

theorem inCircle2_triple (x : Nat → α × α) (i j k : Nat) (q : α × α) :
    InCircle2 x [i, j, k] q ↔ InCircle (x i) (x j) (x k) q := Iff.rfl

/-- the list-level predicate seen from an edge `[a, b]` of the (sorted) triangle, opposite vertex `c` -/
theorem inCircle2_edge (x : Nat → α × α) {i j k : Nat} (hij : i < j) (hjk : j < k) {a b : Nat}
    (he : [a, b] ∈ combos 2 [i, j, k]) {c : Nat} (hc : c ∈ [i, j, k]) (hce : c ∉ [a, b]) (q : α × α) :
    InCircle2 x [i, j, k] q ↔ InCircle (x a) (x b) (x c) q := by
  obtain ⟨e1, e2⟩ := tri_edge_decomp x hij hjk he hc hce q
  unfold InCircle2 InCircle
  rw [e1, e2, unit_mul_mul (esign2_unit he)]
  rfl

/-- `0 ≤ f * s` gives the `osign` form used by `cavity_conserved_2d` -/
theorem osign_mul_nonneg {s f : α} (h : 0 ≤ f * s) : 0 ≤ osign s * f := by
  unfold osign
  split
  · rename_i hs
    rw [one_mul]
    by_contra hf
    have := mul_neg_of_neg_of_pos (not_le.mp hf) hs
    linarith
  · split
    · rename_i hs
      rw [neg_one_mul]
      by_contra hf
      have hf' : 0 < f := by
        have := not_le.mp hf
        linarith
      have := mul_neg_of_pos_of_neg hf' hs
      linarith
    · rw [zero_mul]

/-- ONE HOLE EDGE.  `t` a sorted triangle with `x pt` strictly inside its circumcircle, `e` one of its edges, `t'` a
sorted triangle with the same edge whose third vertex is strictly on the other side of `e`, `x pt` not strictly inside
the circumcircle of `t'`, the third vertex of `t'` not strictly inside the circumcircle of `t`.  Then `x pt` is on the
inner side of `e` (in the very terms of `cavity_conserved_2d`). -/
theorem star_edge_2d (x : Nat → α × α) {t t' e : Simplex} (p : α × α)
    (hS : t.length = 3 ∧ t.Pairwise (· < ·)) (hS' : t'.length = 3 ∧ t'.Pairwise (· < ·))
    (he : e ∈ combos 2 t) (he' : e ∈ combos 2 t')
    (hopp : ∀ c' ∈ t', c' ∉ e → sve2 x t e (x c') * sv2 x t < 0)
    (hin : InCircle2 x t p) (hnin : ¬ InCircle2 x t' p)
    (hdel : ∀ c' ∈ t', c' ∉ e → ¬ InCircle2 x t (x c')) :
    0 ≤ sve2 x t e p * sv2 x t := by
  obtain ⟨i, j, k, rfl, hij, hjk⟩ := sorted3 hS
  obtain ⟨i', j', k', rfl, hij', hjk'⟩ := sorted3 hS'
  obtain ⟨c, hc, hce⟩ := exists_apex hij hjk he
  obtain ⟨c', hc', hce'⟩ := exists_apex hij' hjk' he'
  have hl := (combos_sublist 2 _ e he).2
  match e, hl with
  | [a, b], _ =>
    have hu := esign2_unit (α := α) he
    have h1 := (inCircle2_edge x hij hjk he hc hce p).mp hin
    have h2 := fun h => hnin ((inCircle2_edge x hij' hjk' he' hc' hce' p).mpr h)
    have h3 := fun h => hdel c' hc' hce' ((inCircle2_edge x hij hjk he hc hce (x c')).mpr h)
    have h4 := hopp c' hc' hce'
    obtain ⟨e1, _⟩ := tri_edge_decomp x hij hjk he hc hce p
    rw [sve2_eq, e1, unit_mul_mul hu] at h4 ⊢
    have h5 : sideL (x a) (x b) (x c) * sideL (x a) (x b) (x c') < 0 := by
      rw [mul_comm]; exact h4
    have := not_far_side h5 h1 h3 h2
    rw [mul_comm]; exact this

/-- THE DELAUNAY CAVITY IS STAR-SHAPED (dimension 2, exact predicates), in the vocabulary of `cavity_conserved_2d`.
`bad`: sorted triangles with `x pt` strictly inside each circumcircle.  For every hole edge `e` (owner `t ∈ bad`):
EITHER some sorted triangle `t'` (in the application: a triangle of the triangulation that is not deleted) has the
edge `e`, lies strictly on the other side of `e`, does not have `x pt` strictly inside its circumcircle, and its
third vertex is not strictly inside the circumcircle of `t` (locally Delaunay pair); OR (`e` on the convex hull)
`x pt` is not strictly outside `e`. -/
theorem cavity_star_2d (x : Nat → α × α) (bad : List Simplex) (pt : Nat)
    (hS : ∀ t ∈ bad, t.length = 3 ∧ t.Pairwise (· < ·))
    (hin : ∀ t ∈ bad, InCircle2 x t (x pt))
    (hedge : ∀ e ∈ hole 2 bad,
      (∃ t' : Simplex, (t'.length = 3 ∧ t'.Pairwise (· < ·)) ∧ e ∈ combos 2 t' ∧
        (∀ c' ∈ t', c' ∉ e → sve2 x (owner 2 bad e) e (x c') * sv2 x (owner 2 bad e) < 0) ∧
        ¬ InCircle2 x t' (x pt) ∧
        (∀ c' ∈ t', c' ∉ e → ¬ InCircle2 x (owner 2 bad e) (x c'))) ∨
      0 ≤ sve2 x (owner 2 bad e) e (x pt) * sv2 x (owner 2 bad e)) :
    ∀ e ∈ hole 2 bad, 0 ≤ osign (sv2 x (owner 2 bad e)) * sve2 x (owner 2 bad e) e (x pt) := by
  intro e he
  obtain ⟨ho, heo, _⟩ := mem_hole he
  apply osign_mul_nonneg
  rcases hedge e he with ⟨t', hS', he', hopp, hnin, hdel⟩ | h
  · exact star_edge_2d x (x pt) (hS _ ho) hS' heo he' hopp (hin _ ho) hnin hdel
  · exact h

end listsOrder

end Tri
