import AdaptiveProofs.Lemmas.LNDSound

/-! Queue soundness of the LearnerND model for entries of sub-simplices (C04, second half of
`lnd_queue_sound_statement`): a queue entry `(loss, simplex, subsimplex)` whose simplex is a current simplex of
the triangulation carries that simplex' current stored loss in proportion to the sub-simplex' volume. -/
set_option linter.unusedSectionVars false
set_option linter.unusedSimpArgs false
set_option linter.unusedVariables false
namespace LND
variable {α : Type} [Sub α] [Mul α] [Div α] [LT α] [DecidableLT α]

/-- truthful combinatorics of the sub-triangulations (C03 `tri_index_inv` / `tri_report_exact`): local vertex
indices are in range, and what `add_point` reports as added is present afterwards -/
structure SubIdxGeom (env : Env α) : Prop where
  subIdx : ∀ sv, ∀ ss ∈ env.subSimps sv, ∀ i ∈ ss, i < sv.length
  subIn : ∀ sv p D A, env.subAdd sv p = some (D, A) → ∀ ss ∈ A, ss ∈ env.subSimps (sv ++ [p])

/-- every queue entry for a SUB-simplex whose simplex currently is a simplex of the triangulation: that simplex
has a sub-triangulation, the entry's local indices are in range, and the entry carries the simplex' current stored
loss times vol(sub)/vol(simplex) (in the model's operation order) -/
def SubSound (env : Env α) (s : State α) : Prop :=
  ∀ vs, s.tri = some vs → ∀ e ∈ s.book.queue, ∀ ss, e.sub = some ss → e.simplex ∈ env.triSimps vs.length →
    ∃ sv L, get? e.simplex s.book.subs = some sv ∧ (∀ i ∈ ss, i < sv.length) ∧
      get? e.simplex s.losses = some L ∧
      e.loss = env.vol (ptsOf sv ss) * (L / env.vol (ptsOf vs e.simplex))

/-- `SubSound` on the components, relative to a set `T` of simplices -/
def SubQ (env : Env α) (vs : List Pt) (T : Simplex → Prop) (losses : List (Simplex × α))
    (subs : List (Simplex × List Pt)) (q : List (QE α)) : Prop :=
  ∀ e ∈ q, ∀ ss, e.sub = some ss → T e.simplex →
    ∃ sv L, get? e.simplex subs = some sv ∧ (∀ i ∈ ss, i < sv.length) ∧
      get? e.simplex losses = some L ∧
      e.loss = env.vol (ptsOf sv ss) * (L / env.vol (ptsOf vs e.simplex))

theorem ptsOf_append_of_lt {sv : List Pt} (l : List Pt) {ss : Simplex} (h : ∀ i ∈ ss, i < sv.length) :
    ptsOf (sv ++ l) ss = ptsOf sv ss := by
  unfold ptsOf
  apply List.map_congr_left
  intro i hi
  simp [List.getD_eq_getElem?_getD, List.getElem?_append_left (h i hi)]

/-- `_update_subsimplex_losses` with the values of the inserted entries -/
theorem updateSubLosses_val (env : Env α) (vs : List Pt) (losses : List (Simplex × α)) {b b' : Book α}
    (sx : Simplex) (news : List Simplex) (h : updateSubLosses env vs losses b sx news = .ok b') :
    ∃ L sv, get? sx losses = some L ∧ get? sx b.subs = some sv ∧ b'.subs = b.subs ∧
      ∀ x ∈ b'.queue, x ∈ b.queue ∨ ∃ ss ∈ news, x.simplex = sx ∧ x.sub = some ss ∧
        x.loss = env.vol (ptsOf sv ss) * (L / env.vol (ptsOf vs sx)) := by
  unfold updateSubLosses at h
  split at h
  · rename_i loss sv hl hs
    simp only [Except.ok.injEq] at h
    subst h
    refine ⟨loss, sv, hl, hs, rfl, ?_⟩
    intro x hx
    rcases (mem_foldl_qinsert env _ news b.queue x).1 hx with h | ⟨ss, hss, rfl⟩
    · exact Or.inl h
    · exact Or.inr ⟨ss, hss, rfl, rfl, rfl⟩
  · exact absurd h (by simp)

theorem tryAdd_subQ (env : Env α) (vs : List Pt) (T : Simplex → Prop) (losses : List (Simplex × α))
    {b b' : Book α} (p : Pt) (t : Simplex) {r : Option (List Simplex)} (h : tryAdd env vs b p t = .ok (b', r))
    (hq : SubQ env vs T losses b.subs b.queue) : SubQ env vs T losses b'.subs b'.queue := by
  obtain ⟨q1, _, hcase⟩ := tryAdd_spec env vs p t h
  rcases hcase with ⟨_, hb⟩ | ⟨D, A, _, _, hsubs⟩
  · rw [hb]; exact hq
  · rw [q1, hsubs]
    intro e he ss hsub hT
    obtain ⟨sv, L, g1, g2, g3, g4⟩ := hq e he ss hsub hT
    by_cases hx : e.simplex = t
    · have g1' : get? t b.subs = some sv := hx ▸ g1
      refine ⟨sv ++ [p], L, ?_, ?_, g3, ?_⟩
      · rw [hx, g1', Option.getD_some, get?_put_self]
      · intro i hi
        have := g2 i hi
        simp only [List.length_append, List.length_cons, List.length_nil]
        omega
      · rw [ptsOf_append_of_lt [p] g2]; exact g4
    · exact ⟨sv, L, by rw [get?_put_ne hx]; exact g1, g2, g3, g4⟩

theorem addPts_subQ (env : Env α) (vs : List Pt) (T : Simplex → Prop) (losses : List (Simplex × α))
    (sx : Simplex) (ps : List Pt) : ∀ {b b' : Book α}, addPts env vs sx b ps = .ok b' →
      SubQ env vs T losses b.subs b.queue → SubQ env vs T losses b'.subs b'.queue := by
  induction ps with
  | nil => intro b b' h hq; simp only [addPts, Except.ok.injEq] at h; subst h; exact hq
  | cons p ps ih =>
    intro b b' h hq
    unfold addPts at h
    split at h
    · exact absurd h (by simp)
    · rename_i b1 r h1
      exact ih h (tryAdd_subQ env vs T losses p sx h1 hq)

theorem updateSubLosses_subQ (env : Env α) (vs : List Pt) (T : Simplex → Prop) (losses : List (Simplex × α))
    {b b' : Book α} (sx : Simplex) (news : List Simplex) (h : updateSubLosses env vs losses b sx news = .ok b')
    (hq : SubQ env vs T losses b.subs b.queue)
    (hidx : ∀ sv, get? sx b.subs = some sv → ∀ ss ∈ news, ∀ i ∈ ss, i < sv.length) :
    SubQ env vs T losses b'.subs b'.queue := by
  obtain ⟨L, sv, hL, hsv, hsubs, hqq⟩ := updateSubLosses_val env vs losses sx news h
  rw [hsubs]
  intro e he ss hsub hT
  rcases hqq e he with h1 | ⟨ss', hss', h1, h2, h3⟩
  · exact hq e h1 ss hsub hT
  · rw [h2] at hsub
    simp only [Option.some.injEq] at hsub
    subst hsub
    exact ⟨sv, L, by rw [h1]; exact hsv, hidx sv hsv _ hss', by rw [h1]; exact hL, by rw [h3, h1]⟩

theorem pendLoop_subQ (env : Env α) (hS : SubIdxGeom env) (vs : List Pt) (losses : List (Simplex × α)) (p : Pt)
    (T : Simplex → Prop) (ts : List Simplex) : ∀ {b b' : Book α}, pendLoop env vs losses p b ts = .ok b' →
      SubQ env vs T losses b.subs b.queue → SubQ env vs T losses b'.subs b'.queue := by
  induction ts with
  | nil => intro b b' h hq; simp only [pendLoop, Except.ok.injEq] at h; subst h; exact hq
  | cons t ts ih =>
    intro b b' h hq
    unfold pendLoop at h
    split at h
    · exact absurd h (by simp)
    · rename_i b1 h1
      exact ih h (tryAdd_subQ env vs T losses p t h1 hq)
    · rename_i b1 A h1
      split at h
      · exact absurd h (by simp)
      · rename_i b2 h2
        have q1 := tryAdd_subQ env vs T losses p t h1 hq
        obtain ⟨_, _, hcase⟩ := tryAdd_spec env vs p t h1
        rcases hcase with ⟨hr, _⟩ | ⟨D, A', hr, hadd, hsubs⟩
        · exact absurd hr (by simp)
        · simp only [Option.some.injEq] at hr
          subst hr
          refine ih h (updateSubLosses_subQ env vs T losses t _ h2 q1 ?_)
          intro sv hsv ss hss
          rw [hsubs, get?_put_self] at hsv
          simp only [Option.some.injEq] at hsv
          subst hsv
          exact hS.subIdx _ ss (hS.subIn _ _ _ _ hadd ss hss)

/-- the loop of `_update_losses` / `_recompute_all_losses` keeps the sub-simplex entries sound, provided the
entries of the simplices still to be processed already refer to the loss that will be stored -/
theorem addLoop_subQ (env : Env α) (hS : SubIdxGeom env) (vs : List Pt) (m : α) (unb : List Pt)
    (T : Simplex → Prop) (A : List Simplex) :
    ∀ {losses l' : List (Simplex × α)} {b b' : Book α}, addLoop env vs m unb losses b A = .ok (l', b') →
      SubQ env vs T losses b.subs b.queue →
      (∀ e ∈ b.queue, e.sub ≠ none → e.simplex ∈ A →
        get? e.simplex losses = some (env.lossFn (ptsOf vs e.simplex) m)) →
      SubQ env vs T l' b'.subs b'.queue := by
  induction A with
  | nil =>
    intro losses l' b b' h hq _
    simp only [addLoop, Except.ok.injEq, Prod.mk.injEq] at h
    obtain ⟨h1, h2⟩ := h; subst h1 h2
    exact hq
  | cons sx rest ih =>
    intro losses l' b b' h hq hA
    unfold addLoop at h
    simp only at h
    split at h
    · exact absurd h (by simp)
    · rename_i b1 hb1
      have q1 := addPts_subQ env vs T losses sx unb hb1 hq
      obtain ⟨qeq, _, _⟩ := addPts_spec env vs sx unb hb1
      -- the stored loss of `sx` is replaced by the value the entries of `sx` already refer to
      have q2 : SubQ env vs T (put sx (env.lossFn (ptsOf vs sx) m) losses) b1.subs b1.queue := by
        intro e he ss hsub hT
        obtain ⟨sv, L, g1, g2, g3, g4⟩ := q1 e he ss hsub hT
        by_cases hx : e.simplex = sx
        · have h0 := hA e (qeq ▸ he) (by rw [hsub]; simp) (by rw [hx]; exact List.mem_cons_self ..)
          rw [g3] at h0
          simp only [Option.some.injEq] at h0
          rw [hx] at h0
          refine ⟨sv, L, g1, g2, ?_, g4⟩
          rw [hx, get?_put_self, h0]
        · exact ⟨sv, L, g1, g2, by rw [get?_put_ne hx]; exact g3, g4⟩
      have hA2 : ∀ e : QE α, (e ∈ b1.queue ∨ e.simplex = sx) → e.sub ≠ none → e.simplex ∈ rest →
          get? e.simplex (put sx (env.lossFn (ptsOf vs sx) m) losses) =
            some (env.lossFn (ptsOf vs e.simplex) m) := by
        intro e he hs hm
        by_cases hx : e.simplex = sx
        · rw [hx, get?_put_self]
        · rw [get?_put_ne hx]
          rcases he with he | he
          · exact hA e (qeq ▸ he) hs (List.mem_cons_of_mem _ hm)
          · exact absurd he hx
      split at h
      · refine ih h ?_ ?_
        · intro e he ss hsub hT
          rcases (mem_qinsert env _ e _).1 he with h3 | h3
          · subst h3; simp at hsub
          · exact q2 e h3 ss hsub hT
        · intro e he hs hm
          rcases (mem_qinsert env _ e _).1 he with h3 | h3
          · subst h3; exact absurd rfl hs
          · exact hA2 e (Or.inl h3) hs hm
      · rename_i sv hsome
        split at h
        · exact absurd h (by simp)
        · rename_i b2 h2
          have q3 := updateSubLosses_subQ env vs T _ sx _ h2 q2 (by
            intro sv' hsv' ss hss
            rw [hsome] at hsv'
            simp only [Option.some.injEq] at hsv'
            subst hsv'
            exact hS.subIdx _ ss hss)
          obtain ⟨_, _, _, _, _, u⟩ := updateSubLosses_spec env vs _ sx _ h2
          refine ih h q3 ?_
          intro e he hs hm
          rcases u e he with h3 | ⟨h3, _⟩
          · exact hA2 e (Or.inl h3) hs hm
          · exact hA2 e (Or.inr h3) hs hm

theorem updateLosses_subQ (env : Env α) (hS : SubIdxGeom env) {s s' : State α} {vs : List Pt}
    (D A : List Simplex) (T : Simplex → Prop) (ht : s.tri = some vs) (h : updateLosses env s D A = .ok s')
    (hq : ∀ e ∈ s.book.queue, ∀ ss, e.sub = some ss → T e.simplex → e.simplex ∉ D ∧
      ∃ sv L, get? e.simplex s.book.subs = some sv ∧ (∀ i ∈ ss, i < sv.length) ∧
        get? e.simplex s.losses = some L ∧
        e.loss = env.vol (ptsOf sv ss) * (L / env.vol (ptsOf vs e.simplex)))
    (hA : ∀ e ∈ s.book.queue, e.sub ≠ none → e.simplex ∉ A) :
    SubQ env vs T s'.losses s'.book.subs s'.book.queue := by
  unfold updateLosses at h
  rw [ht] at h
  simp only at h
  split at h
  · exact absurd h (by simp)
  · rename_i l b hl
    simp only [Except.ok.injEq] at h
    subst h
    refine addLoop_subQ env hS vs s.mult _ T A hl ?_ ?_
    · intro e he ss hsub hT
      have he' : e ∈ s.book.queue := he
      obtain ⟨hD, sv, L, g1, g2, g3, g4⟩ := hq e he' ss hsub hT
      obtain ⟨e1, e2⟩ := dropDeleted_get D s.losses s.book.subs [] _ hD
      exact ⟨sv, L, e2.trans g1, g2, e1.trans g3, g4⟩
    · intro e he hs hm
      have he' : e ∈ s.book.queue := he
      exact absurd hm (hA e he' hs)

theorem touchTri_subSound (env : Env α) (hS : SubIdxGeom env) {s s' : State α} (hr : RealSound env s)
    (hs : SubSound env s) (h : touchTri env s = .ok s') : SubSound env s' := by
  unfold touchTri at h
  cases ht : s.tri with
  | some vs => rw [ht] at h; simp only [Except.ok.injEq] at h; subst h; exact hs
  | none =>
    rw [ht] at h
    simp only at h
    split at h
    · obtain ⟨⟨_, _, c, _, _, _⟩, _⟩ :=
        updateLosses_spec (s := { s with tri := some s.data }) env [] (env.triSimps s.data.length) rfl h
      have c' : s'.tri = some s.data := c
      have hq : s.book.queue = [] := hr.1 ht
      intro vs hvs
      rw [c'] at hvs
      simp only [Option.some.injEq] at hvs
      subst hvs
      refine updateLosses_subQ (s := { s with tri := some s.data }) env hS [] _ _ rfl h ?_ ?_
      · intro e he
        have he' : e ∈ s.book.queue := he
        rw [hq] at he'; exact absurd he' (by simp)
      · intro e he
        have he' : e ∈ s.book.queue := he
        rw [hq] at he'; exact absurd he' (by simp)
    · simp only [Except.ok.injEq] at h; subst h; exact hs

theorem recomputeAll_subSound (env : Env α) (hS : SubIdxGeom env) {s s' : State α} (hr : RealSound env s)
    (hs : SubSound env s) (h : recomputeAll env s = .ok s') : SubSound env s' := by
  unfold recomputeAll at h
  split at h
  · exact absurd h (by simp)
  · rename_i s1 h1
    have k1 := touchTri_subSound env hS hr hs h1
    split at h
    · simp only [Except.ok.injEq] at h; subst h; exact k1
    · rename_i vs hvs
      split at h
      · exact absurd h (by simp)
      · rename_i l b hl
        simp only [Except.ok.injEq] at h; subst h
        intro vs' hvs'
        have hvs'' : s1.tri = some vs' := hvs'
        rw [hvs] at hvs''
        simp only [Option.some.injEq] at hvs''
        subst hvs''
        refine addLoop_subQ env hS vs s1.mult [] _ _ hl ?_ ?_
        · intro e he; exact absurd he (by simp)
        · intro e he; exact absurd he (by simp)

theorem updateRange_subSound (env : Env α) (hS : SubIdxGeom env) {s s' : State α} (a b : α)
    (hr : RealSound env s) (hs : SubSound env s) (h : updateRange env s a b = .ok s') : SubSound env s' := by
  obtain ⟨r, m, hf | hf⟩ := updateRange_form env s a b
  · rw [hf] at h
    exact recomputeAll_subSound env hS (s := { s with range := r, mult := m }) hr hs h
  · rw [hf] at h; simp only [Except.ok.injEq] at h; subst h; exact hs

theorem tellPending_subSound (env : Env α) (hS : SubIdxGeom env) {s s' : State α} (p : Pt)
    (hint : Option Simplex) (hr : RealSound env s) (hs : SubSound env s)
    (h : tellPending env s p hint = .ok s') : SubSound env s' := by
  rcases tellPending_form env p hint h with ⟨hin, rfl⟩ | ⟨hin, s1, b, h1, rfl, hb⟩
  · exact hs
  · have k1 : SubSound env s1 :=
      touchTri_subSound env hS (s := { s with pending := addPending s.pending p }) hr hs h1
    rcases hb with rfl | ⟨vs, sx, hvs, hb⟩
    · exact k1
    · intro vs' hvs'
      have hvs'' : s1.tri = some vs' := hvs'
      rw [hvs] at hvs''
      simp only [Option.some.injEq] at hvs''
      subst hvs''
      exact pendLoop_subQ env hS vs s1.losses p _ _ hb (k1 vs hvs)

theorem tell_subSound (env : Env α) (hT : TriGeom env) (hS : SubIdxGeom env) {s s' : State α} (p : Pt) (a b : α)
    (hr : RealSound env s) (hs : SubSound env s) (h : tell env s p a b = .ok s') : SubSound env s' := by
  rcases tell_form env p a b h with ⟨_, rfl⟩ | ⟨_, s1, h1, hcase⟩
  · exact hs
  · have r1 : RealSound env s1 :=
      touchTri_realSound env hT (s := { s with pending := s.pending.filter (· ≠ p) }) hr h1
    have k1 : SubSound env s1 :=
      touchTri_subSound env hS (s := { s with pending := s.pending.filter (· ≠ p) }) hr hs h1
    rcases hcase with ⟨_, rfl⟩ | ⟨_, s3, h3, hcase⟩
    · exact k1
    · have r3 : RealSound env s3 :=
        updateRange_realSound env hT (s := { s1 with data := s1.data ++ [p] }) a b r1 h3
      have k3 : SubSound env s3 :=
        updateRange_subSound env hS (s := { s1 with data := s1.data ++ [p] }) a b r1 k1 h3
      rcases hcase with ⟨_, rfl⟩ | ⟨vs, hint, D, A, hvs, hadd, hu⟩
      · exact k3
      · obtain ⟨_, _, _, f3⟩ := updateRange_frame env a b h3
        have t3 : s3.tri = some vs := by
          rcases f3 with f | ⟨f, _⟩
          · rw [f]; exact hvs
          · simp only [hvs] at f; exact absurd f (by simp)
        obtain ⟨⟨_, _, c, _, _, _⟩, _⟩ :=
          updateLosses_spec (s := { s3 with tri := some (vs ++ [p]) }) env D A rfl hu
        have c' : s'.tri = some (vs ++ [p]) := c
        obtain ⟨b1, _⟩ := r3.2 vs t3
        have hR := hT.report _ _ _ _ hadd
        have hlen : (vs ++ [p]).length = vs.length + 1 := by simp
        have hnA : ∀ e ∈ s3.book.queue, e.simplex ∉ A := by
          intro e he hc
          have m1 := hT.fresh _ _ _ _ hadd _ hc
          have m2 := b1 e he _ m1
          omega
        intro vs' hvs'
        rw [c'] at hvs'
        simp only [Option.some.injEq] at hvs'
        subst hvs'
        refine updateLosses_subQ (s := { s3 with tri := some (vs ++ [p]) }) env hS D A _ rfl hu ?_ ?_
        · intro e he ss hsub hmem
          have he' : e ∈ s3.book.queue := he
          rw [hlen] at hmem
          rcases (hR _).1 hmem with ⟨m1, m2⟩ | m
          · refine ⟨m2, ?_⟩
            obtain ⟨sv, L, g1, g2, g3, g4⟩ := k3 vs t3 e he' ss hsub m1
            refine ⟨sv, L, g1, g2, g3, ?_⟩
            rw [ptsOf_append_of_lt [p] (b1 e he')]
            exact g4
          · exact absurd m (hnA e he')
        · intro e he _
          exact hnA e he

theorem askBest_subSound (env : Env α) (hT : TriGeom env) (hS : SubIdxGeom env) {s s' : State α} {vs : List Pt}
    {r : Pt × α} (hr : RealSound env s) (hs : SubSound env s) (h : askBest env s vs = .ok (r, s')) :
    SubSound env s' := by
  obtain ⟨e, q, s2, hp, _, h2, rfl⟩ := askBest_form env h
  have rq : RealSound env
      { s with book := { s.book with queue := q, p2s := put r.1 e.simplex s.book.p2s } } :=
    RealSound.mono env hT hr rfl rfl (fun x hx => (popHighest_mem env _ _ hp).2 x hx)
  have kq : SubSound env
      { s with book := { s.book with queue := q, p2s := put r.1 e.simplex s.book.p2s } } := by
    intro vs' hvs' x hx ss hsub hmem
    exact hs vs' hvs' x ((popHighest_mem env _ _ hp).2 x hx) ss hsub hmem
  have k2 : SubSound env s2 := tellPending_subSound env hS r.1 (some e.simplex) rq kq h2
  exact k2

theorem askOne_subSound (env : Env α) (hT : TriGeom env) (hS : SubIdxGeom env) {s s' : State α} {r : Pt × α}
    (hr : RealSound env s) (hs : SubSound env s) (h : askOne env s = .ok (r, s')) : SubSound env s' := by
  rcases askOne_form env h with ⟨p, _, _, h1⟩ | ⟨_, s1, h1, hcase⟩
  · exact tellPending_subSound env hS p none hr hs h1
  · have r1 := touchTri_realSound env hT hr h1
    have k1 := touchTri_subSound env hS hr hs h1
    rcases hcase with ⟨_, _, h2⟩ | ⟨vs, _, h2⟩
    · exact tellPending_subSound env hS (s := { s1 with nrand := s1.nrand + 1 }) _ none r1 k1 h2
    · exact askBest_subSound env hT hS r1 k1 h2

theorem askLoop_subSound (env : Env α) (hT : TriGeom env) (hS : SubIdxGeom env) (n : Nat) :
    ∀ {s s' : State α} {rs : List (Pt × α)}, RealSound env s → SubSound env s →
      askLoop env n s = .ok (rs, s') → SubSound env s' := by
  induction n with
  | zero =>
    intro s s' rs hr hs h
    simp only [askLoop, Except.ok.injEq, Prod.mk.injEq] at h
    rw [← h.2]; exact hs
  | succ n ih =>
    intro s s' rs hr hs h
    unfold askLoop at h
    split at h
    · exact absurd h (by simp)
    · rename_i r s1 h1
      split at h
      · exact absurd h (by simp)
      · rename_i rs' s2 h2
        simp only [Except.ok.injEq, Prod.mk.injEq] at h
        rw [← h.2]
        exact ih (askOne_realSound env hT hr h1) (askOne_subSound env hT hS hr hs h1) h2

theorem ask_subSound (env : Env α) (hT : TriGeom env) (hS : SubIdxGeom env) {s s' : State α}
    {rs : List (Pt × α)} (n : Nat) (c : Bool) (hr : RealSound env s) (hs : SubSound env s)
    (h : ask env s n c = .ok (rs, s')) : SubSound env s' := by
  unfold ask at h
  split at h
  · exact absurd h (by simp)
  · rename_i rs' s1 h1
    simp only [Except.ok.injEq, Prod.mk.injEq] at h
    rw [← h.2]
    cases c
    · exact hs
    · exact askLoop_subSound env hT hS n hr hs h1

theorem lossOp_subSound (env : Env α) (hS : SubIdxGeom env) {s s' : State α} {v : α} (hr : RealSound env s)
    (hs : SubSound env s) (h : lossOp env s = .ok (v, s')) : SubSound env s' := by
  unfold lossOp at h
  split at h
  · exact absurd h (by simp)
  · rename_i s1 h1
    have k1 := touchTri_subSound env hS hr hs h1
    split at h <;> (simp only [Except.ok.injEq, Prod.mk.injEq] at h; rw [← h.2]; exact k1)

theorem init_subSound (env : Env α) : SubSound env (init env) := by
  intro vs hvs
  exact absurd hvs (by simp [init])

theorem step_subSound (env : Env α) (hT : TriGeom env) (hS : SubIdxGeom env) {s s' : State α} (op : Op α)
    (hr : RealSound env s) (hs : SubSound env s)
    (h : step env s op = .ok s') : SubSound env s' := by
  cases op with
  | tell p a b => exact tell_subSound env hT hS p a b hr hs h
  | tellPending p => exact tellPending_subSound env hS p none hr hs h
  | ask n c =>
    simp only [step] at h
    cases ha : ask env s n c with
    | error e => rw [ha] at h; simp [Except.map] at h
    | ok r =>
      rw [ha] at h
      simp only [Except.map, Except.ok.injEq] at h
      subst h
      exact ask_subSound env hT hS (rs := r.1) n c hr hs (by rw [ha])
  | removeUnfinished =>
    simp only [step, Except.ok.injEq] at h
    subst h
    intro vs _ e he ss hss _
    rw [removeUnfinished_queue] at he
    rw [he.1] at hss
    exact absurd hss (by simp)
  | loss =>
    simp only [step] at h
    cases ha : lossOp env s with
    | error e => rw [ha] at h; simp [Except.map] at h
    | ok r =>
      rw [ha] at h
      simp only [Except.map, Except.ok.injEq] at h
      subst h
      exact lossOp_subSound env hS (v := r.1) hr hs (by rw [ha])

theorem run_subSound (env : Env α) (hT : TriGeom env) (hS : SubIdxGeom env) (ops : List (Op α)) :
    ∀ {s s' : State α}, KeysInv env s → RealSound env s → SubSound env s → run env s ops = .ok s' →
      SubSound env s' := by
  induction ops with
  | nil => intro s s' _ _ hs h; simp only [run, Except.ok.injEq] at h; subst h; exact hs
  | cons op ops ih =>
    intro s s' hk hr hs h
    unfold run at h
    split at h
    · exact absurd h (by simp)
    · rename_i s1 h1
      exact ih (step_keys env hT.report op hk h1) (step_realSound env hT op hk hr h1)
        (step_subSound env hT hS op hr hs h1) h

end LND
