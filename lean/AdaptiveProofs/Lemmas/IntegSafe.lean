import AdaptiveProofs.Lemmas.IntegDefs
/-!
C07: no operation of any history of the IntegratorLearner model raises an internal error
(AssertionError / KeyError inside the class).
-/
set_option linter.unusedSectionVars false
namespace Integ
namespace Safe
variable {α : Type} [OfNat α 0] [DecidableEq α] [Div α] [OfNat α 2] [LT α] [DecidableLT α] [Sub α] [Mul α] [Add α] [Neg α]

/-- "not an internal error" -/
def NI (e : Option Err) : Prop := ∀ w, e ≠ some (Err.internal w)

theorem NI_none : NI none := by intro w h; cases h
theorem NI_fuel : NI (some Err.fuel) := by intro w h; cases h
theorem NI_div : NI (some Err.divergent) := by intro w h; cases h
theorem NI_value : NI (some Err.value) := by intro w h; cases h
theorem NI_runtime : NI (some Err.runtime) := by intro w h; cases h

/-- frame: `depthComplete` and `children` of every interval unchanged -/
def Fr (F F' : Forest α) : Prop :=
  ∀ j, (getI F' j).depthComplete = (getI F j).depthComplete ∧ (getI F' j).children = (getI F j).children

theorem Fr.refl (F : Forest α) : Fr F F := fun _ => ⟨rfl, rfl⟩
theorem Fr.trans {F G H : Forest α} (h1 : Fr F G) (h2 : Fr G H) : Fr F H :=
  fun j => ⟨(h2 j).1.trans (h1 j).1, (h2 j).2.trans (h1 j).2⟩

theorem getI_modAt (F : Forest α) (i j : Nat) (f : Ival α → Ival α) :
    getI (modAt F i f) j = if j = i ∧ i < F.length then f (getI F i) else getI F j := by
  induction F generalizing i j with
  | nil => simp [modAt, getI]
  | cons x r ih =>
    cases i with
    | zero =>
      cases j with
      | zero => simp [modAt, getI]
      | succ j => simp [modAt, getI]
    | succ i =>
      cases j with
      | zero => simp [modAt, getI]
      | succ j =>
        have := ih i j
        simp [getI] at this
        simp [modAt, getI, this]

theorem modAt_length {β : Type} (F : List β) (i : Nat) (f : β → β) : (modAt F i f).length = F.length := by
  induction F generalizing i with
  | nil => simp [modAt]
  | cons x r ih => cases i <;> simp [modAt, ih]

theorem modAt_fr (F : Forest α) (i : Nat) (f : Ival α → Ival α)
    (hf : ∀ I, (f I).depthComplete = I.depthComplete ∧ (f I).children = I.children) : Fr F (modAt F i f) := by
  intro j
  rw [getI_modAt]
  split
  · rename_i h
    rw [h.1]; exact hf _
  · exact ⟨rfl, rfl⟩

theorem foldl_inv {σ β : Type} (Q : σ → Prop) (g : σ → β → σ) (hg : ∀ s c, Q s → Q (g s c)) :
    ∀ (l : List β) (s : σ), Q s → Q (l.foldl g s)
  | [], _, h => h
  | x :: r, s, h => foldl_inv Q g hg r (g s x) (hg s x h)

theorem forEach_inv {σ β : Type} (Q : σ → Prop) (E : Option Err → Prop) (hE : E none)
    (f : σ → β → σ × Option Err) (hf : ∀ s x, Q s → Q (f s x).1 ∧ E (f s x).2) :
    ∀ (l : List β) (s : σ), Q s → Q (forEach f l s).1 ∧ E (forEach f l s).2
  | [], s, h => by simp only [forEach]; exact ⟨h, hE⟩
  | x :: r, s, h => by
    have h1 := hf s x h
    unfold forEach
    rcases hfx : f s x with ⟨s', _ | e⟩
    · rw [hfx] at h1
      exact forEach_inv Q E hE f hf r s' h1.1
    · rw [hfx] at h1
      exact h1

theorem updHeur_fr : ∀ (fuel : Nat) (F : Forest α) (j : Nat) (v : α), Fr F (updHeur fuel F j v)
  | 0, F, _, _ => by simp only [updHeur]; exact Fr.refl F
  | fuel + 1, F, j, v => by
    simp only [updHeur]
    refine foldl_inv (fun G => Fr F G) _ ?_ _ _ (modAt_fr _ _ _ (fun I => ⟨rfl, rfl⟩))
    intro G c hG
    split
    · exact hG
    · exact hG.trans (updHeur_fr fuel G c _)

theorem calcErr_fr (F : Forest α) (j : Nat) (e : α) : Fr F (calcErr F j e) := by
  simp only [calcErr]
  refine foldl_inv (fun G => Fr F G) _ ?_ _ _ (modAt_fr _ _ _ (fun I => ⟨rfl, rfl⟩))
  intro G c hG
  split
  · exact hG.trans (updHeur_fr _ G c _)
  · exact hG

theorem updNdivRec_spec (P : Params α) : ∀ (fuel : Nat) (F : Forest α) (j : Nat),
    Fr F (updNdivRec P fuel F j).1 ∧ NI (updNdivRec P fuel F j).2
  | 0, F, _ => by simp only [updNdivRec]; exact ⟨Fr.refl F, NI_fuel⟩
  | fuel + 1, F, j => by
    simp only [updNdivRec]
    have h0 : Fr F (modAt F j (fun I => { I with ndiv := I.ndiv + 1 })) := modAt_fr _ _ _ (fun I => ⟨rfl, rfl⟩)
    split
    · exact ⟨h0, NI_div⟩
    · exact forEach_inv (fun G => Fr F G) NI NI_none _
        (fun G c hG => ⟨hG.trans (updNdivRec_spec P fuel G c).1, (updNdivRec_spec P fuel G c).2⟩) _ _ h0

theorem calcNdiv_spec (P : Params α) (F : Forest α) (j : Nat) (dv : Bool) :
    Fr F (calcNdiv P F j dv).1 ∧ NI (calcNdiv P F j dv).2 := by
  have h0 : Fr F (modAt F j (fun I => { I with ndiv := I.ndiv + (if dv then 1 else 0) })) :=
    modAt_fr _ _ _ (fun I => ⟨rfl, rfl⟩)
  unfold calcNdiv
  by_cases hd : divergent P (getI (modAt F j (fun I => { I with ndiv := I.ndiv + (if dv then 1 else 0) })) j) = true
  · simp only [hd, if_true]
    exact ⟨h0, NI_div⟩
  · simp only [hd]
    cases dv
    · exact ⟨h0, NI_none⟩
    · exact forEach_inv (fun G => Fr F G) NI NI_none _
        (fun G c hG => ⟨hG.trans (updNdivRec_spec P _ G c).1, (updNdivRec_spec P _ G c).2⟩) _ _ h0

theorem walkStep_fr (F : Forest α) (p : Nat) (old : List Nat) (F' : Forest α) (old' : List Nat)
    (h : walkStep F p old = some (F', old')) : Fr F F' := by
  simp only [walkStep] at h
  split at h
  · simp only [Option.some.injEq, Prod.mk.injEq] at h
    rw [← h.1]
    refine Fr.trans ?_ (modAt_fr _ _ _ (fun I => ⟨rfl, rfl⟩))
    refine foldl_inv (fun (r : List Nat × Forest α) => Fr F r.2) _ ?_ _ _ (Fr.refl F)
    intro r c hr
    split
    · exact hr
    · exact Fr.trans hr (modAt_fr _ _ _ (fun I => ⟨rfl, rfl⟩))
  · cases h

theorem walkUp_fr : ∀ (fuel : Nat) (F : Forest α) (p : Option Nat) (old : List Nat), Fr F (walkUp fuel F p old)
  | 0, F, _, _ => by simp only [walkUp]; exact Fr.refl F
  | fuel + 1, F, none, _ => by simp only [walkUp]; exact Fr.refl F
  | fuel + 1, F, some p, old => by
    simp only [walkUp]
    split
    · exact Fr.refl F
    · rename_i F' old' h
      exact (walkStep_fr F p old F' old' h).trans (walkUp_fr fuel F' _ old')

theorem propagateDone_fr (F : Forest α) (i : Nat) : Fr F (propagateDone F i) := by
  simp only [propagateDone]
  split
  · refine Fr.trans ?_ (walkUp_fr _ _ _ _)
    exact modAt_fr _ _ _ (fun I => ⟨rfl, rfl⟩)
  · exact Fr.refl F

theorem cpChildren_spec (P : Params α) (o : CPOut α) : ∀ (l : List Nat) (k : Nat) (F : Forest α),
    Fr F (cpChildren P o l k F).1 ∧ NI (cpChildren P o l k F).2
  | [], _, F => by simp only [cpChildren]; exact ⟨Fr.refl F, NI_none⟩
  | c :: r, k, F => by
    simp only [cpChildren]
    have key : Fr F (if (getI F c).depthComplete.isSome then calcNdiv P F c (o.childDiv.getD k false) else (F, none)).1 ∧
        NI (if (getI F c).depthComplete.isSome then calcNdiv P F c (o.childDiv.getD k false) else (F, none)).2 := by
      split
      · exact calcNdiv_spec P F c _
      · exact ⟨Fr.refl F, NI_none⟩
    split
    · rename_i G e heq
      rw [heq] at key
      exact key
    · rename_i G heq
      rw [heq] at key
      have h2 : Fr F (if (getI G c).depthComplete = some 0 then calcErr G c (o.childErr.getD k 0) else G) := by
        split
        · exact key.1.trans (calcErr_fr _ _ _)
        · exact key.1
      have h3 := cpChildren_spec P o r (k + 1) (if (getI G c).depthComplete = some 0 then calcErr G c (o.childErr.getD k 0) else G)
      exact ⟨h2.trans h3.1, h3.2⟩

theorem removeDown_fr : ∀ (fuel : Nat) (F : Forest α) (j : Nat), Fr F (removeDown fuel F j).1
  | 0, F, _ => by simp only [removeDown]; exact Fr.refl F
  | fuel + 1, F, j => by
    simp only [removeDown]
    refine foldl_inv (fun (r : Forest α × List Nat) => Fr F r.1) _ ?_ _ _ (modAt_fr _ _ _ (fun I => ⟨rfl, rfl⟩))
    intro r c hr
    exact Fr.trans hr (removeDown_fr fuel r.1 c)

/-! ### `completeProcess` -/
/-- the `depth = 0` branch up to the `calc_ndiv` of the interval itself -/
def cpR1 (P : Params α) (o : CPOut α) (F : Forest α) (i : Nat) (par : Option Nat) : Forest α × Option Err :=
  match par with
  | none => (F, some (.internal "assert self.parent is not None"))
  | some p =>
    if (getI F p).depthComplete.isSome then calcNdiv P (calcErr F i o.selfErr) i o.selfDiv
    else (F, none)

def cpR (P : Params α) (o : CPOut α) (F : Forest α) (i d : Nat) (par : Option Nat) : Forest α × Option Err × Bool :=
  if d ≠ 0 then (calcErr F i o.selfErr, none, o.forceSplit)
  else
    match cpR1 P o F i par with
    | (F, some e) => (F, some e, false)
    | (F, none) =>
      let r2 := cpChildren P o (getI F i).children 0 F
      (r2.1, r2.2, false)

def cpFin (o : CPOut α) (i : Nat) (r : Forest α × Option Err × Bool) : CPRes α :=
  match r with
  | (F, some e, _) => { F := F, err := some e }
  | (F, none, fs) => { F := propagateDone F i, forceSplit := fs, remove := o.remove }

theorem completeProcess_eq (O : Oracle α) (P : Params α) (F : Forest α) (i d : Nat) :
    completeProcess O P F i d =
      if !((getI F i).depthComplete.isNone || (getI F i).depthComplete = some (d - 1) && d ≠ 0) then
        { F := F, err := some (.internal "assert self.depth_complete is None or self.depth_complete == depth - 1") }
      else if (getI F i).parent.isNone && d = 2 then
        { F := modAt F i (fun I => { I with depthComplete := some d }) }
      else cpFin (O.cp i d) i
        (cpR P (O.cp i d)
          (modAt (modAt F i (fun I => { I with depthComplete := some d })) i (fun I => { I with igral := (O.cp i d).igral }))
          i d (getI F i).parent) := rfl

theorem cpR1_spec (P : Params α) (o : CPOut α) (F : Forest α) (i : Nat) (par : Option Nat)
    (hp : par.isSome = true) : Fr F (cpR1 P o F i par).1 ∧ NI (cpR1 P o F i par).2 := by
  cases par with
  | none => cases hp
  | some p =>
    simp only [cpR1]
    split
    · exact ⟨(calcErr_fr _ _ _).trans (calcNdiv_spec P _ _ _).1, (calcNdiv_spec P _ _ _).2⟩
    · exact ⟨Fr.refl F, NI_none⟩

theorem cpR_spec (P : Params α) (o : CPOut α) (F : Forest α) (i d : Nat) (par : Option Nat)
    (hp : d = 0 → par.isSome = true) : Fr F (cpR P o F i d par).1 ∧ NI (cpR P o F i d par).2.1 := by
  unfold cpR
  by_cases hd : d = 0
  · have key := cpR1_spec P o F i par (hp hd)
    simp only [hd, ne_eq, not_true_eq_false, if_false]
    split
    · rename_i G e heq
      rw [heq] at key
      exact key
    · rename_i G heq
      rw [heq] at key
      exact ⟨key.1.trans (cpChildren_spec P o _ _ _).1, (cpChildren_spec P o _ _ _).2⟩
  · simp only [ne_eq, hd, not_false_eq_true, if_true]
    exact ⟨calcErr_fr _ _ _, NI_none⟩

theorem cpFin_spec (o : CPOut α) (i : Nat) (F : Forest α) (r : Forest α × Option Err × Bool)
    (h : Fr F r.1 ∧ NI r.2.1) : Fr F (cpFin o i r).F ∧ NI (cpFin o i r).err := by
  rcases r with ⟨G, _ | e, fs⟩
  · exact ⟨h.1.trans (propagateDone_fr _ _), NI_none⟩
  · exact h

/-- precondition of `completeProcess … i d` -/
def GoodF (F : Forest α) (i d : Nat) : Prop :=
  (getI F i).depthComplete = none ∨ ((getI F i).depthComplete = some (d - 1) ∧ d ≠ 0)

theorem cp_spec (O : Oracle α) (P : Params α) (F : Forest α) (i d : Nat)
    (hpre : GoodF F i d) (hpar : d = 0 → (getI F i).parent.isSome = true) :
    NI (completeProcess O P F i d).err ∧
    (∀ j, (getI (completeProcess O P F i d).F j).children = (getI F j).children) ∧
    ((getI (completeProcess O P F i d).F i).depthComplete = none ∨
      (getI (completeProcess O P F i d).F i).depthComplete = some d) := by
  have hc : (!((getI F i).depthComplete.isNone || (getI F i).depthComplete = some (d - 1) && d ≠ 0)) = false := by
    rcases hpre with h | ⟨h, h0⟩
    · simp [h]
    · simp [h, h0]
  have hmark : ∀ G, Fr (modAt F i (fun I => { I with depthComplete := some d })) G →
      (∀ j, (getI G j).children = (getI F j).children) ∧
      ((getI G i).depthComplete = none ∨ (getI G i).depthComplete = some d) := by
    intro G hG
    constructor
    · intro j
      rw [(hG j).2, getI_modAt]
      split
      · rename_i h; rw [h.1]
      · rfl
    · rw [(hG i).1, getI_modAt]
      split
      · right; rfl
      · rename_i h
        rcases hpre with h1 | ⟨h1, h0⟩
        · left; exact h1
        · left
          have : ¬ i < F.length := fun hh => h ⟨rfl, hh⟩
          have : getI F i = dummy := by
            simp only [getI, List.getD_eq_getElem?_getD]
            rw [List.getElem?_eq_none (by omega)]; rfl
          rw [this]; rfl
  rw [completeProcess_eq, hc]
  simp only [Bool.false_eq_true, if_false]
  split
  · exact ⟨NI_none, hmark _ (Fr.refl _)⟩
  · have h1 := cpFin_spec (O.cp i d) i _ _ (cpR_spec P (O.cp i d)
      (modAt (modAt F i (fun I => { I with depthComplete := some d })) i (fun I => { I with igral := (O.cp i d).igral }))
      i d (getI F i).parent hpar)
    have h2 := hmark _ (Fr.trans (modAt_fr _ i (fun I => { I with igral := (O.cp i d).igral }) (fun I => ⟨rfl, rfl⟩)) h1.1)
    exact ⟨h1.2, h2⟩

/-! ### the learner -/
/-- live intervals (and those in `X`) are childless -/
def Inv (X : Nat → Prop) (s : St α) : Prop := ∀ j, (j ∈ s.ivals ∨ X j) → (getI s.F j).children = []

theorem Inv.mono {X : Nat → Prop} {s s' : St α} (h : Inv X s)
    (hF : ∀ j, (getI s'.F j).children = (getI s.F j).children)
    (hi : ∀ j ∈ s'.ivals, j ∈ s.ivals ∨ X j) : Inv X s' := by
  intro j hj
  rw [hF j]
  rcases hj with hj | hj
  · exact h j (hi j hj)
  · exact h j (Or.inr hj)

theorem Inv.weaken {X : Nat → Prop} {s : St α} (h : Inv X s) : Inv (fun _ => False) s :=
  fun j hj => h j (hj.elim Or.inl False.elim)

theorem ns_mono (d : Nat) : ns d ≤ ns (d + 1) := by
  rcases d with _ | _ | _ | d <;> simp [ns]

theorem rc_mono (O : Oracle α) (hN : Nested O) (I : Ival α) (d : Nat)
    (h : refinementComplete O I (d + 1) = true) : refinementComplete O I d = true := by
  unfold refinementComplete at h ⊢
  split at h
  · cases h
  · rename_i hlen
    have := ns_mono d
    rw [if_neg (by omega)]
    rw [List.all_eq_true] at h ⊢
    intro p hp
    exact h p (hN _ _ _ p hp)

theorem rc_stuck (O : Oracle α) (hN : Nested O) (I : Ival α) (d : Nat)
    (h : refinementComplete O I d = false) : ∀ d', d ≤ d' → refinementComplete O I d' = false := by
  intro d' hle
  induction hle with
  | refl => exact h
  | @step m _ ih =>
    cases hh : refinementComplete O I (m + 1) with
    | false => rfl
    | true => rw [rc_mono O hN I m hh] at ih; cases ih

def Stuck (O : Oracle α) (F : Forest α) (i d : Nat) : Prop :=
  ∀ d', d ≤ d' → refinementComplete O (getI F i) d' = false

theorem depthStep_spec (O : Oracle α) (P : Params α) (hN : Nested O) (X : Nat → Prop) (i : Nat) (s : St α) (d : Nat)
    (hI : Inv X s) (hG : GoodF s.F i d ∨ Stuck O s.F i d) (hpar : d = 0 → (getI s.F i).parent.isSome = true) :
    Inv X (depthStep O P i s d).1 ∧ NI (depthStep O P i s d).2 ∧
    ((depthStep O P i s d).2 = none →
      GoodF (depthStep O P i s d).1.F i (d + 1) ∨ Stuck O (depthStep O P i s d).1.F i (d + 1)) := by
  unfold depthStep
  by_cases hrc : refinementComplete O (getI s.F i) d = true
  · simp only [hrc, if_true]
    have hGood : GoodF s.F i d := by
      rcases hG with h | h
      · exact h
      · have := h d (Nat.le_refl d); rw [hrc] at this; cases this
    obtain ⟨c1, c2, c3⟩ := cp_spec O P s.F i d hGood hpar
    generalize completeProcess O P s.F i d = r at c1 c2 c3
    rcases r with ⟨rF, rerr, rfs, rrm⟩
    simp only at c1 c2 c3 ⊢
    have hgood' : ∀ G, Fr rF G → GoodF G i (d + 1) := by
      intro G hG
      rcases c3 with c3 | c3
      · left; rw [(hG i).1]; exact c3
      · right; rw [(hG i).1]; exact ⟨by simpa using c3, Nat.succ_ne_zero d⟩
    cases rerr with
    | some e => exact ⟨hI.mono c2 (fun j hj => Or.inl hj), c1, fun h => by cases h⟩
    | none =>
      simp only
      split
      · refine ⟨?_, NI_none, fun _ => Or.inl (hgood' _ (removeDown_fr _ _ _))⟩
        refine hI.mono (fun j => ((removeDown_fr _ rF i j).2).trans (c2 j)) ?_
        intro j hj; exact Or.inl (List.mem_filter.mp hj).1
      · split
        · exact ⟨hI.mono c2 (fun j hj => Or.inl hj), NI_none, fun _ => Or.inl (hgood' _ (Fr.refl _))⟩
        · exact ⟨hI.mono c2 (fun j hj => Or.inl hj), NI_none, fun _ => Or.inl (hgood' _ (Fr.refl _))⟩
  · have hrc' : refinementComplete O (getI s.F i) d = false := by simpa using hrc
    simp only [hrc', Bool.false_eq_true, if_false]
    refine ⟨hI, NI_none, fun _ => Or.inr ?_⟩
    rcases hG with h | h
    · exact fun d' hd' => rc_stuck O hN _ d hrc' d' (by omega)
    · exact fun d' hd' => h d' (by omega)

theorem tell_loop (O : Oracle α) (P : Params α) (hN : Nested O) (X : Nat → Prop) (i : Nat) :
    ∀ (n d : Nat) (s : St α), Inv X s → (GoodF s.F i d ∨ Stuck O s.F i d) →
      (d = 0 → (getI s.F i).parent.isSome = true) →
      Inv X (forEach (depthStep O P i) (List.range' d n) s).1 ∧ NI (forEach (depthStep O P i) (List.range' d n) s).2
  | 0, d, s, hI, _, _ => by simp only [List.range'_zero, forEach]; exact ⟨hI, NI_none⟩
  | n + 1, d, s, hI, hG, hp => by
    obtain ⟨a1, a2, a3⟩ := depthStep_spec O P hN X i s d hI hG hp
    simp only [List.range'_succ, forEach]
    rcases hds : depthStep O P i s d with ⟨s', _ | e⟩
    · rw [hds] at a1 a2 a3
      exact tell_loop O P hN X i n (d + 1) s' a1 (a3 rfl) (fun h => by omega)
    · rw [hds] at a1 a2; exact ⟨a1, a2⟩

theorem tellIval_aux (O : Oracle α) (P : Params α) (hN : Nested O) (X : Nat → Prop) (s1 : St α) (i : Nat) (hI : Inv X s1) :
    let I := getI s1.F i
    let fromD := match I.depthComplete with
      | none => if I.parent.isSome then 0 else 2
      | some d => d + 1
    Inv X (forEach (depthStep O P i) (List.range' fromD (I.depth + 1 - fromD)) s1).1 ∧
      NI (forEach (depthStep O P i) (List.range' fromD (I.depth + 1 - fromD)) s1).2 := by
  intro I fromD
  have hcase : GoodF s1.F i fromD ∧ (fromD = 0 → (getI s1.F i).parent.isSome = true) := by
    simp only [fromD, I, GoodF]
    rcases (getI s1.F i).depthComplete with _ | d0
    · refine ⟨Or.inl rfl, fun h => ?_⟩
      by_cases hp : (getI s1.F i).parent.isSome = true
      · exact hp
      · simp [hp] at h
    · exact ⟨Or.inr ⟨by simp, by simp⟩, fun h => by simp at h⟩
  exact tell_loop O P hN X i _ _ s1 hI (Or.inl hcase.1) hcase.2

theorem tellIval_spec (O : Oracle α) (P : Params α) (hN : Nested O) (X : Nat → Prop) (x : α) (s : St α) (i : Nat)
    (hI : Inv X s) : Inv X (tellIval O P x s i).1 ∧ NI (tellIval O P x s i).2 := by
  have hfr : Fr s.F (modAt s.F i (fun I => { I with data := sadd x I.data })) :=
    modAt_fr _ _ _ (fun I => ⟨rfl, rfl⟩)
  have hI1 : Inv X { s with F := modAt s.F i (fun I => { I with data := sadd x I.data }) } :=
    hI.mono (fun j => (hfr j).2) (fun j hj => Or.inl hj)
  exact tellIval_aux O P hN X _ i hI1

theorem tell_spec (O : Oracle α) (P : Params α) (hN : Nested O) (X : Nat → Prop) (s : St α) (x : α)
    (hI : Inv X s) : Inv X (tell O P s x).1 ∧ NI (tell O P s x).2 := by
  unfold tell
  split
  · exact ⟨hI, NI_value⟩
  · exact forEach_inv (Inv X) NI NI_none _ (fun s' i h => tellIval_spec O P hN X x s' i h) _ _
      (fun j hj => hI j hj)

theorem addPoint_spec (O : Oracle α) (P : Params α) (hN : Nested O) (X : Nat → Prop) (i : Nat) (s : St α) (x : α)
    (hI : Inv X s) : Inv X (addPoint O P i s x).1 ∧ NI (addPoint O P i s x).2 := by
  unfold addPoint
  simp only
  split
  · exact tell_spec O P hN X _ x (fun j hj => hI j hj)
  · split
    · exact ⟨fun j hj => hI j hj, NI_none⟩
    · exact ⟨fun j hj => hI j hj, NI_none⟩

theorem mem_sadd {β : Type} [DecidableEq β] {x y : β} {l : List β} (h : y ∈ sadd x l) : y = x ∨ y ∈ l := by
  unfold sadd at h
  split at h
  · exact Or.inr h
  · rcases List.mem_append.mp h with h | h
    · exact Or.inr h
    · exact Or.inl (by simpa using h)

theorem addIval_spec (O : Oracle α) (P : Params α) (hN : Nested O) (X : Nat → Prop) (s : St α) (i : Nat)
    (hI : Inv X s) (hX : X i) : Inv X (addIval O P s i).1 ∧ NI (addIval O P s i).2 := by
  unfold addIval
  have key := forEach_inv (Inv X) NI NI_none (addPoint O P i) (fun s' x h => addPoint_spec O P hN X i s' x h)
    (O.pts (getI s.F i).a (getI s.F i).b (getI s.F i).depth) s hI
  simp only
  split
  · rename_i s' e heq; rw [heq] at key; exact key
  · rename_i s' heq; rw [heq] at key
    refine ⟨?_, NI_none⟩
    refine key.1.mono (fun _ => rfl) (fun j hj => ?_)
    rcases mem_sadd hj with h | h
    · exact Or.inr (h ▸ hX)
    · exact Or.inl h

/-! ### `fillStack` -/
theorem dropDead_last (ivals : List Nat) : ∀ (l : List Nat) (i : Nat), (dropDead ivals l).getLast? = some i → i ∈ ivals
  | [], i, h => by simp [dropDead] at h
  | a :: r, i, h => by
    simp only [dropDead] at h
    cases hdr : dropDead ivals r with
    | nil =>
      rw [hdr] at h
      simp only at h
      split at h
      · rename_i ha
        simp at h
        exact h ▸ ha
      · simp at h
    | cons b r' =>
      rw [hdr] at h
      simp only [List.getLast?_cons_cons] at h
      exact dropDead_last ivals r i (by rw [hdr]; exact h)

theorem foldl_pick_mem (g : Nat → Nat → Bool) : ∀ (r : List Nat) (m : Nat),
    r.foldl (fun m j => if g m j then j else m) m = m ∨ r.foldl (fun m j => if g m j then j else m) m ∈ r
  | [], m => Or.inl rfl
  | b :: r, m => by
    simp only [List.foldl_cons]
    rcases foldl_pick_mem g r (if g m b then b else m) with h | h
    · rw [h]
      split
      · exact Or.inr (List.mem_cons_self ..)
      · exact Or.inl rfl
    · exact Or.inr (List.mem_cons_of_mem _ h)

theorem argmax_mem (F : Forest α) (l : List Nat) (i : Nat) (h : argmax F l = some i) : i ∈ l := by
  cases l with
  | nil => simp [argmax] at h
  | cons a r =>
    simp only [argmax, Option.some.injEq] at h
    subst h
    rcases foldl_pick_mem (fun m j => keyLt (getI F m) (getI F j)) r a with h | h
    · rw [h]; exact List.mem_cons_self ..
    · exact List.mem_cons_of_mem _ h

theorem getI_append2 (G : Forest α) (a b : Ival α) (ha : a.children = []) (hb : b.children = []) (j : Nat) :
    (getI (G ++ [a, b]) j).children = [] ∨ (j < G.length ∧ getI (G ++ [a, b]) j = getI G j) := by
  by_cases h : j < G.length
  · right
    exact ⟨h, by simp only [getI, List.getD_eq_getElem?_getD]; rw [List.getElem?_append_left h]⟩
  · left
    simp only [getI, List.getD_eq_getElem?_getD]
    rw [List.getElem?_append_right (by omega)]
    rcases (j - G.length) with _ | _ | k
    · simpa using ha
    · simpa using hb
    · simp [dummy]

theorem split_inv (s : St α) (i : Nat) (pts : List α) (hI : Inv (fun _ => False) s) (hi : i ∉ s.ivals) :
    Inv (fun j => j = (split s i pts).2.1 ∨ j = (split s i pts).2.2) (split s i pts).1 := by
  simp only [split]
  intro j hj
  rcases getI_append2 (modAt s.F i (fun I => { I with children := [s.F.length, s.F.length + 1] }))
      { a := (getI s.F i).a, b := pts.getD (pts.length / 2) 0, depth := 0, rdepth := (getI s.F i).rdepth + 1,
        ndiv := (getI s.F i).ndiv, parent := some i, err := half (getI s.F i).err, igral := 0 }
      { a := pts.getD (pts.length / 2) 0, b := (getI s.F i).b, depth := 0, rdepth := (getI s.F i).rdepth + 1,
        ndiv := (getI s.F i).ndiv, parent := some i, err := half (getI s.F i).err, igral := 0 } rfl rfl j with h | ⟨hlt, h⟩
  · exact h
  · rw [modAt_length] at hlt
    rcases hj with hj | hj | hj
    · rw [h, getI_modAt]
      have hne : j ≠ i := fun e => hi (e ▸ hj)
      rw [if_neg (fun hh => hne hh.1)]
      exact hI j (Or.inl hj)
    · omega
    · omega

def fsR (O : Oracle α) (P : Params α) (s : St α) (i : Nat) (force : Bool) : St α × Option Err :=
  let I := getI s.F i
  let pts := O.pts I.a I.b I.depth
  if tooNarrow P pts then removeIval s i
  else if I.depth = 3 || force then
    match removeIval s i with
    | (s, some e) => (s, some e)
    | (s, none) =>
      let (s, l, r) := split s i pts
      match addIval O P s l with
      | (s, some e) => (s, some e)
      | (s, none) => addIval O P s r
  else addIval O P { s with F := modAt s.F i (fun I => { I with depth := I.depth + 1 }) } i

def fsFin (P : Params α) (r : St α × Option Err) : St α × Option Err :=
  match r with
  | (s, some e) => (s, some e)
  | (s, none) =>
    if s.ivals.length > P.maxIvals then
      match argmin s.F s.ivals with
      | some m => ({ s with ivals := s.ivals.filter (fun j => j ≠ m) }, none)
      | none => (s, some .value)
    else (s, none)

def fsBody (O : Oracle α) (P : Params α) (s : St α) (i : Nat) (force : Bool) : St α × Option Err :=
  if !(getI s.F i).children.isEmpty then (s, some (.internal "assert not ival.children"))
  else fsFin P (fsR O P s i force)

def fsPick (s : St α) : Option Nat × List Nat :=
  if !s.prio.isEmpty then (s.prio.getLast?, s.prio.dropLast) else (argmax s.F s.ivals, s.prio)

theorem fillStack_eq (O : Oracle α) (P : Params α) (s : St α) :
    fillStack O P s =
      match fsPick { s with prio := dropDead s.ivals s.prio } with
      | (none, _) => ({ s with prio := dropDead s.ivals s.prio }, some .value)
      | (some i, prio') => fsBody O P { s with prio := prio' } i (!(dropDead s.ivals s.prio).isEmpty) := rfl

theorem fsR_spec (O : Oracle α) (P : Params α) (hN : Nested O) (s : St α) (i : Nat) (force : Bool)
    (hI : Inv (fun _ => False) s) (hi : i ∈ s.ivals) :
    Inv (fun _ => False) (fsR O P s i force).1 ∧ NI (fsR O P s i force).2 := by
  have hrem : removeIval s i = ({ s with ivals := s.ivals.filter (fun j => j ≠ i) }, none) := by
    simp only [removeIval, hi, if_true]
  have hI2 : Inv (fun _ => False) { s with ivals := s.ivals.filter (fun j => j ≠ i) } :=
    hI.mono (fun _ => rfl) (fun j hj => Or.inl (List.mem_filter.mp hj).1)
  unfold fsR
  simp only
  split
  · rw [hrem]; exact ⟨hI2, NI_none⟩
  · split
    · rw [hrem]
      simp only
      have hni : i ∉ ({ s with ivals := s.ivals.filter (fun j => j ≠ i) } : St α).ivals := by
        simp [List.mem_filter]
      have b1 := split_inv _ i (O.pts (getI s.F i).a (getI s.F i).b (getI s.F i).depth) hI2 hni
      rcases hsp : split ({ s with ivals := s.ivals.filter (fun j => j ≠ i) } : St α) i
        (O.pts (getI s.F i).a (getI s.F i).b (getI s.F i).depth) with ⟨s3, l, r⟩
      rw [hsp] at b1
      simp only at b1 ⊢
      have c := addIval_spec O P hN _ s3 l b1 (Or.inl rfl)
      rcases had : addIval O P s3 l with ⟨s4, _ | e⟩
      · rw [had] at c
        simp only
        have c2 := addIval_spec O P hN _ s4 r c.1 (Or.inr rfl)
        exact ⟨c2.1.weaken, c2.2⟩
      · rw [had] at c
        exact ⟨c.1.weaken, c.2⟩
    · have hfr : Fr s.F (modAt s.F i (fun I => { I with depth := I.depth + 1 })) :=
        modAt_fr _ _ _ (fun I => ⟨rfl, rfl⟩)
      have hI3 : Inv (fun j => j ∈ s.ivals) { s with F := modAt s.F i (fun I => { I with depth := I.depth + 1 }) } := by
        intro j hj
        rw [(hfr j).2]
        exact hI j (Or.inl (hj.elim id id))
      have c := addIval_spec O P hN _ _ i hI3 hi
      exact ⟨c.1.weaken, c.2⟩

theorem fsFin_spec (P : Params α) (r : St α × Option Err) (h : Inv (fun _ => False) r.1 ∧ NI r.2) :
    Inv (fun _ => False) (fsFin P r).1 ∧ NI (fsFin P r).2 := by
  rcases r with ⟨s, _ | e⟩
  · simp only [fsFin]
    split
    · split
      · exact ⟨h.1.mono (fun _ => rfl) (fun j hj => Or.inl (List.mem_filter.mp hj).1), NI_none⟩
      · exact ⟨h.1, NI_value⟩
    · exact ⟨h.1, NI_none⟩
  · exact h

theorem fsBody_spec (O : Oracle α) (P : Params α) (hN : Nested O) (s : St α) (i : Nat) (force : Bool)
    (hI : Inv (fun _ => False) s) (hi : i ∈ s.ivals) :
    Inv (fun _ => False) (fsBody O P s i force).1 ∧ NI (fsBody O P s i force).2 := by
  have hc := hI i (Or.inl hi)
  unfold fsBody
  simp only [hc, List.isEmpty_nil, Bool.not_true, Bool.false_eq_true, if_false]
  exact fsFin_spec P _ (fsR_spec O P hN s i force hI hi)

theorem fillStack_spec (O : Oracle α) (P : Params α) (hN : Nested O) (s : St α) (hI : Inv (fun _ => False) s) :
    Inv (fun _ => False) (fillStack O P s).1 ∧ NI (fillStack O P s).2 := by
  rw [fillStack_eq]
  have hpick : ∀ i pr, fsPick { s with prio := dropDead s.ivals s.prio } = (some i, pr) → i ∈ s.ivals := by
    intro i pr h
    simp only [fsPick] at h
    split at h
    · simp only [Prod.mk.injEq] at h
      exact dropDead_last _ _ _ h.1
    · simp only [Prod.mk.injEq] at h
      exact argmax_mem _ _ _ h.1
  split
  · exact ⟨fun j hj => hI j hj, NI_value⟩
  · rename_i i pr heq
    exact fsBody_spec O P hN _ i _ (fun j hj => hI j hj) (hpick i pr heq)

/-! ### `ask` -/
theorem askLoop_spec (O : Oracle α) (P : Params α) (hN : Nested O) :
    ∀ (fuel : Nat) (s : St α) (nLeft : Nat) (pts imps : List α), Inv (fun _ => False) s →
      Inv (fun _ => False) (askLoop O P fuel s nLeft pts imps).1 ∧ NI (askLoop O P fuel s nLeft pts imps).2.1
  | 0, s, nLeft, pts, imps, hI => by
    simp only [askLoop]
    refine ⟨hI, ?_⟩
    split
    · exact NI_none
    · exact NI_fuel
  | fuel + 1, s, nLeft, pts, imps, hI => by
    simp only [askLoop]
    split
    · exact ⟨hI, NI_none⟩
    · have key := fillStack_spec O P hN s hI
      split
      · rename_i heq; rw [heq] at key; exact ⟨key.1, NI_runtime⟩
      · rename_i heq; rw [heq] at key; exact ⟨key.1, NI_runtime⟩
      · rename_i heq; rw [heq] at key; exact key
      · rename_i heq; rw [heq] at key
        simp only [popFromStack]
        exact askLoop_spec O P hN fuel _ _ _ _ (fun j hj => key.1 j hj)

theorem askCommit_spec (O : Oracle α) (P : Params α) (hN : Nested O) (fuel : Nat) (s : St α) (n : Nat)
    (hI : Inv (fun _ => False) s) :
    Inv (fun _ => False) (askCommit O P fuel s n).1 ∧ NI (askCommit O P fuel s n).2.1 := by
  simp only [askCommit, popFromStack]
  exact askLoop_spec O P hN fuel _ _ _ _ (fun j hj => hI j hj)

theorem ask_spec (O : Oracle α) (P : Params α) (hN : Nested O) (fuel : Nat) (s : St α) (n : Nat) (c : Bool)
    (hI : Inv (fun _ => False) s) :
    Inv (fun _ => False) (ask O P fuel s n c).1 ∧ NI (ask O P fuel s n c).2.1 := by
  have key := askCommit_spec O P hN fuel s n hI
  unfold ask
  split
  · rename_i heq; rw [heq] at key
    split
    · exact ⟨fun j hj => key.1 j hj, NI_none⟩
    · exact ⟨hI, NI_none⟩
  · rename_i heq; rw [heq] at key
    refine ⟨?_, key.2⟩
    split
    · exact key.1
    · exact hI

theorem reorder_spec (s : St α) (x : α) (ids : List Nat) (hI : Inv (fun _ => False) s) :
    Inv (fun _ => False) (reorder s x ids) := by
  unfold reorder
  split
  · exact hI
  · split
    · exact fun j hj => hI j hj
    · exact hI

/-! ### main statements -/
/-- invariant: live intervals are childless -/
structure SafeInv (s : St α) : Prop where
  live_childless : ∀ i ∈ s.ivals, (getI s.F i).children = []

theorem safeInv_iff (s : St α) : SafeInv s ↔ Inv (fun _ => False) s :=
  ⟨fun h j hj => h.live_childless j (hj.elim id False.elim), fun h => ⟨fun i hi => h i (Or.inl hi)⟩⟩

theorem init_spec (O : Oracle α) (P : Params α) (a b e : α) :
    Inv (fun j => j = 0) (init O P a b e).1 ∧ (init O P a b e).2 = none := by
  unfold init addIval
  have h0 : Inv (fun j => j = 0)
      ({ F := [{ a := a, b := b, depth := 2, rdepth := 1, err := e, igral := 0 }] } : St α) := by
    intro j hj
    rcases hj with hj | hj
    · cases hj
    · subst hj; rfl
  have key := forEach_inv (fun (s : St α) => Inv (fun j => j = 0) s ∧ s.data = []) (fun r => r = none) rfl
    (addPoint O P 0)
    (fun s x h => by
      unfold addPoint
      simp only [h.2, List.not_mem_nil, if_false]
      split
      · exact ⟨⟨fun j hj => h.1 j hj, rfl⟩, rfl⟩
      · exact ⟨⟨fun j hj => h.1 j hj, rfl⟩, rfl⟩)
    (O.pts a b 2) { F := [{ a := a, b := b, depth := 2, rdepth := 1, err := e, igral := 0 }] } ⟨h0, rfl⟩
  have hg : getI [({ a := a, b := b, depth := 2, rdepth := 1, err := e, igral := 0 } : Ival α)] 0 =
      { a := a, b := b, depth := 2, rdepth := 1, err := e, igral := 0 } := rfl
  simp only [hg]
  split
  · rename_i heq
    rw [heq] at key
    cases key.2
  · rename_i heq
    rw [heq] at key
    refine ⟨?_, rfl⟩
    refine key.1.1.mono (fun _ => rfl) (fun j hj => ?_)
    rcases mem_sadd hj with h | h
    · exact Or.inr h
    · exact Or.inl h

theorem safeInv_start (O : Oracle α) (P : Params α) (a b e : α) :
    SafeInv (start O P a b e) ∧ (init O P a b e).2 = none := by
  refine ⟨?_, (init_spec O P a b e).2⟩
  rw [safeInv_iff]
  exact (init_spec O P a b e).1.weaken

theorem safe_step (O : Oracle α) (P : Params α) (hN : Nested O) (s : St α) (op : Op α) (h : SafeInv s) :
    SafeInv (step O P s op) ∧ ∀ w, (stepE O P s op).2 ≠ some (Err.internal w) := by
  rw [safeInv_iff] at h ⊢
  cases op with
  | tell x => exact tell_spec O P hN _ s x h
  | ask fuel n c => exact ask_spec O P hN fuel s n c h
  | reorder x ids => exact ⟨reorder_spec s x ids h, NI_none⟩

theorem safe_trace (O : Oracle α) (P : Params α) (hN : Nested O) : ∀ (ops : List (Op α)) (s : St α), SafeInv s →
    ∀ r ∈ trace O P s ops, ∀ w, r ≠ some (Err.internal w)
  | [], _, _ => by intro r hr; simp [trace] at hr
  | op :: ops, s, h => by
    intro r hr
    simp only [trace, List.mem_cons] at hr
    rcases hr with hr | hr
    · rw [hr]; exact (safe_step O P hN s op h).2
    · exact safe_trace O P hN ops _ (safe_step O P hN s op h).1 r hr

theorem safeInv_run (O : Oracle α) (P : Params α) (hN : Nested O) : ∀ (ops : List (Op α)) (s : St α), SafeInv s →
    SafeInv (run O P s ops)
  | [], _, h => h
  | op :: ops, s, h => safeInv_run O P hN ops _ (safe_step O P hN s op h).1

theorem no_internal_main (O : Oracle α) (P : Params α) (hN : Nested O) (a b e : α) (ops : List (Op α)) :
    ∀ r ∈ trace O P (start O P a b e) ops, ∀ w, r ≠ some (Err.internal w) :=
  safe_trace O P hN ops _ (safeInv_start O P a b e).1

end Safe
end Integ
