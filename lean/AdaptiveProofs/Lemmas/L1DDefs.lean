import AdaptiveModel.L1D
import Mathlib.Algebra.Order.Field.Basic

/-! Statement-level definitions for the Learner1D theorems (C01, C02, C10, C12). -/
namespace L1D
variable {α : Type} [Field α] [LinearOrder α] [IsStrictOrderedRing α]

/-- structural invariant of the Learner1D model -/
structure Inv (s : State α) : Prop where
  xs_sorted : s.xs.Pairwise (· < ·)
  xsC_sorted : s.xsC.Pairwise (· < ·)
  xs_mem : ∀ x, x ∈ s.xs ↔ hasData s x = true
  xsC_mem : ∀ x, x ∈ s.xsC ↔ (hasData s x = true ∨ x ∈ s.pending)
  pend_nodata : ∀ x ∈ s.pending, hasData s x = false
  pend_nodup : s.pending.Nodup
  data_nodup : (s.data.map Prod.fst).Nodup
  losses_keys : ∀ iv, (lget iv s.losses).isSome = true ↔ iv ∈ pairs s.xs
  lossesC_keys : ∀ iv, (lget iv s.lossesC).isSome = true ↔ iv ∈ pairs s.xsC
  losses_nodup : (s.losses.map Prod.fst).Nodup
  lossesC_nodup : (s.lossesC.map Prod.fst).Nodup

/-- both loss tables are in `ItemSortedDict` order -/
def TablesSorted (r12 : α → α) (s : State α) : Prop :=
  s.losses.Pairwise (fun a b => keyLt r12 s.lossScale a b = true) ∧
  s.lossesC.Pairwise (fun a b => keyLt r12 s.lossScale a b = true)

end L1D
