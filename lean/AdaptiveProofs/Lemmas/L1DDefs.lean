import AdaptiveModel.L1D
import Mathlib.Algebra.Order.Field.Basic

/-! Statement-level definitions for the Learner1D theorems (C01, C02, C09–C13). -/
namespace L1D
variable {α : Type} [Field α] [LinearOrder α] [IsStrictOrderedRing α]

/-- keys of a loss table -/
def tkeys (l : List (Ival α × Loss α)) : List (Ival α) := l.map Prod.fst

/-- structural invariant of the Learner1D model: sorted neighbour lists, and one loss entry per
pair of neighbouring points (evaluated / evaluated-or-pending) -/
structure Inv (s : State α) : Prop where
  xs_sorted : s.xs.Pairwise (· < ·)
  xsC_sorted : s.xsC.Pairwise (· < ·)
  xs_mem : ∀ x, x ∈ s.xs ↔ hasData s x = true
  xsC_mem : ∀ x, x ∈ s.xsC ↔ (hasData s x = true ∨ x ∈ s.pending)
  pend_nodata : ∀ x ∈ s.pending, hasData s x = false
  pend_nodup : s.pending.Nodup
  data_nodup : (s.data.map Prod.fst).Nodup
  losses_keys : ∀ iv, iv ∈ tkeys s.losses ↔ iv ∈ pairs s.xs
  lossesC_keys : ∀ iv, iv ∈ tkeys s.lossesC ↔ iv ∈ pairs s.xsC
  losses_nodup : (tkeys s.losses).Nodup
  lossesC_nodup : (tkeys s.lossesC).Nodup

/-- a table is in `ItemSortedDict` order for the x-scale `sc` -/
def SortedT (r12 : α → α) (sc : α) (l : List (Ival α × Loss α)) : Prop :=
  l.Pairwise (fun a b => keyLt r12 sc a b = true)

/-- both loss tables are in `ItemSortedDict` order -/
def TablesSorted (r12 : α → α) (s : State α) : Prop :=
  SortedT r12 s.lossScale s.losses ∧ SortedT r12 s.lossScale s.lossesC

end L1D
