import AdaptiveProofs.Lemmas.LNDAccept
import AdaptiveProofs.Lemmas.ChooseGeom2

/-! The C04 queue theorems with the two state-level hypotheses of `Lemmas/ChooseGeom2.lean` DISCHARGED by the invariants
of `Lemmas/LNDAccept.lean`:

* (A) `SubVertsInOwner env` (universal over `env.subSimps`) becomes the state-relative `PendingInOwnerAt env s` /
  `SubVertsInOwnerAt env s`, derived from `SubsAccepted` (`pendingInOwnerAt_of_accepted`, `subVertsInOwnerAt_dim2`);
* (B) `ChosenInDomainAt env s` / `AskDom env ops` are derived from `VertsInDomain` (`chosenInDomainAt_of_inv`,
  `askDom_of_inDomain`).

`ChooseGeomAcc env` is `ChooseGeomDom env` with the geometric field `inOwner` only for vertex lists whose entries beyond
the first `dim+1` the owner accepts — which is what the run meets (`SubsAccepted`), and what dimension 2 proves
(`chooseGeomAcc_dim2_of_coords`: corners accepted + convexity of the barycentric test).  `run_cover_reach`,
`run_geomOK_reach`, `chosen_dead_acc` are the queue theorems for it, for every history whose told points lie in the
domain (`InDomain`) and in which `_ask_best_point` chose points without a value (`AskNew`). -/
set_option linter.unusedSectionVars false
set_option linter.unusedSimpArgs false
set_option linter.unusedVariables false
namespace LND
section reach
variable {α : Type} [Sub α] [Mul α] [Div α] [LT α] [DecidableLT α]

/-- (A), state-relative: every stored sub-triangulation has at least `dim+1` vertices and `point_in_simplex` accepts
every vertex beyond the first `dim+1` for the simplex spanned by the first `dim+1` (the owner) -/
def PendingInOwnerAt (env : Env α) (s : State α) : Prop :=
  ∀ vs x sv, s.tri = some vs → get? x s.book.subs = some sv →
    env.dim + 1 ≤ sv.length ∧ ∀ p ∈ sv.drop (env.dim + 1), env.pis p (sv.take (env.dim + 1)) = true

theorem pendingInOwnerAt_of_accepted {env : Env α} (hG : SubGeom env) {s : State α} (h : SubsAccepted env s) :
    PendingInOwnerAt env s := by
  intro vs x sv ht hx
  obtain ⟨_, hl, htk, hall⟩ := h.spec hG ht hx
  exact ⟨hl, by rw [htk]; exact hall⟩

/-- (B) from the invariant: the vertices of the (sub)simplex `_ask_best_point` pops are points of the domain (local
vertex indices of simplices / sub-simplices in range: `TriGeom.idx`, `SubIdxGeom.subIdx`) -/
theorem chosenInDomainAt_of_inv {env : Env α} (hT : TriGeom env)
    (hidx : ∀ sv, ∀ ss ∈ env.subSimps sv, ∀ i ∈ ss, i < sv.length) {s : State α} (h : VertsInDomain env s) :
    ChosenInDomainAt env s := by
  intro vs e q ht hp p hpm
  obtain ⟨_, _, hlive, _⟩ := popHighest_spec env _ _ hp
  rw [live_iff] at hlive
  obtain ⟨hmem, hls⟩ := hlive
  have hv : ∀ v ∈ vs, env.inside v = true := h.1.2.2 vs ht
  cases ho : e.sub with
  | none =>
    simp only [chosenPts, ho] at hpm
    exact hv p (mem_of_mem_ptsOf (hT.idx _ _ hmem) hpm)
  | some ss =>
    simp only [pairOf, ho, liveSub] at hls
    obtain ⟨sv, hsv, hss⟩ := hls
    simp only [chosenPts, ho, hsv, Option.getD_some] at hpm
    exact SubFormG.all env hT (h.2.2 vs ht) hv e.simplex sv hsv p (mem_of_mem_ptsOf (hidx sv ss hss) hpm)

/-- `ChooseGeomDom` with `inOwner` restricted to accepted vertex lists, plus the index range of sub-simplices -/
structure ChooseGeomAcc (env : Env α) : Prop where
  /-- the point chosen in a simplex with vertices in the domain lies in the domain -/
  inside : ∀ pts, pts.length = env.dim + 1 → (∀ p ∈ pts, env.inside p = true) → env.inside (env.choose pts) = true
  /-- `point_in_simplex` accepts the point chosen in a simplex for that simplex -/
  inSimplex : ∀ pts, pts.length = env.dim + 1 → env.pis (env.choose pts) pts = true
  /-- … and, chosen in a simplex of a sub-triangulation whose vertices beyond the owner's corners the owner accepts, for
  the owner -/
  inOwner : ∀ sv, env.dim + 1 ≤ sv.length →
    (∀ p ∈ sv.drop (env.dim + 1), env.pis p (sv.take (env.dim + 1)) = true) → ∀ ss ∈ env.subSimps sv,
    env.pis (env.choose (ptsOf sv ss)) (sv.take (env.dim + 1)) = true
  subSize : ∀ sv, ∀ ss ∈ env.subSimps sv, ss.length = env.dim + 1
  subIdx : ∀ sv, ∀ ss ∈ env.subSimps sv, ∀ i ∈ ss, i < sv.length
  split : ∀ sv, ∀ ss ∈ env.subSimps sv, ∀ D A, env.subAdd sv (env.choose (ptsOf sv ss)) = some (D, A) →
    ss ∉ env.subSimps (sv ++ [env.choose (ptsOf sv ss)])
  nodup : ∀ n, (env.triSimps n).Nodup

theorem ChooseGeomDom.toAcc {env : Env α} (hC : ChooseGeomDom env)
    (hidx : ∀ sv, ∀ ss ∈ env.subSimps sv, ∀ i ∈ ss, i < sv.length) : ChooseGeomAcc env :=
  ⟨hC.inside, hC.inSimplex, fun sv hl _ => hC.inOwner sv hl, hC.subSize, hidx, hC.split, hC.nodup⟩

/-- what `_ask_best_point` needs of the state it starts from, with `ChooseGeomAcc`: `AskOkAt` and the accepted
sub-vertices -/
def AskAccAt (env : Env α) (t : State α) : Prop := AskOkAt env t ∧ PendingInOwnerAt env t

/-- `chosen_dead` with `ChooseGeomAcc` -/
theorem chosen_dead_acc (env : Env α) (hG : SubGeom env) (hC : ChooseGeomAcc env) {s s2 : State α} {vs : List Pt}
    (ht : s.tri = some vs) (hv : SubVerts env s) {e : QE α} {q : List (QE α)} {p2s' : List (Pt × Simplex)}
    (hp : popHighest env (env.triSimps vs.length) s.book.subs s.book.queue = some (e, q))
    (hnew : env.choose (chosenPts vs s.book.subs e) ∉ s.data)
    (hdom : ∀ p ∈ chosenPts vs s.book.subs e, env.inside p = true)
    (hacc : PendingInOwnerAt env s)
    (h2 : tellPending env { s with book := { s.book with queue := q, p2s := p2s' } }
      (env.choose (chosenPts vs s.book.subs e)) (some e.simplex) = .ok s2) :
    live env (simplices env s2.tri) s2.book.subs e = false := by
  obtain ⟨_, _, hlive, _⟩ := popHighest_spec env _ _ hp
  rw [live_iff] at hlive
  obtain ⟨hmem, hls⟩ := hlive
  have hlen : e.simplex.length = env.dim + 1 := hG.size _ _ hmem
  have hne : e.simplex ≠ [] := by
    intro c; rw [c] at hlen; simp at hlen
  have hcl : (chosenPts vs s.book.subs e).length = env.dim + 1 := by
    cases ho : e.sub with
    | none => simp only [chosenPts, ho, ptsOf_length]; exact hlen
    | some ss =>
      simp only [pairOf, ho, liveSub] at hls
      obtain ⟨sv, hsv, hss⟩ := hls
      simp only [chosenPts, ho, hsv, Option.getD_some, ptsOf_length]
      exact hC.subSize sv ss hss
  obtain ⟨b, hloop, t2, hb⟩ :=
    tellPending_hint env (s := { s with book := { s.book with queue := q, p2s := p2s' } })
      (env.choose (chosenPts vs s.book.subs e)) e.simplex ht hnew (hC.inside _ hcl hdom) hne h2
  have hnb : e.simplex ∈ neighborsOf (env.triSimps vs.length) e.simplex := mem_neighborsOf_self hmem hne
  have hnd : (neighborsOf (env.triSimps vs.length) e.simplex).Nodup := (hC.nodup _).filter _
  rw [t2, hb]
  simp only [simplices]
  cases ho : e.sub with
  | none =>
    have hpis : env.pis (env.choose (chosenPts vs s.book.subs e)) (ptsOf vs e.simplex) = true := by
      simp only [chosenPts, ho]; exact hC.inSimplex _ (by rw [ptsOf_length]; exact hlen)
    obtain ⟨D, A, _, hget⟩ := pendLoop_hit env vs _ _ _ hnd hloop e.simplex hnb hpis
    simp [live, ho, hget]
  | some ss =>
    simp only [pairOf, ho, liveSub] at hls
    obtain ⟨sv, hsv, hss⟩ := hls
    obtain ⟨_, pend, hform⟩ := hv.2 vs ht e.simplex sv hsv
    have hcp : chosenPts vs s.book.subs e = ptsOf sv ss := by
      simp only [chosenPts, ho, hsv, Option.getD_some]
    have htake : sv.take (env.dim + 1) = ptsOf vs e.simplex := by
      rw [hform]
      exact List.take_left' (by rw [ptsOf_length]; exact hlen)
    obtain ⟨hsvl, haccsv⟩ := hacc vs e.simplex sv ht hsv
    have hpis : env.pis (env.choose (chosenPts vs s.book.subs e)) (ptsOf vs e.simplex) = true := by
      rw [hcp, ← htake]; exact hC.inOwner sv hsvl haccsv ss hss
    obtain ⟨D, A, hadd, hget⟩ := pendLoop_hit env vs _ _ _ hnd hloop e.simplex hnb hpis
    have hsv' : get? e.simplex
        ({ s with book := { s.book with queue := q, p2s := p2s' } } : State α).book.subs = some sv := hsv
    rw [hsv', Option.getD_some, hcp] at hadd hget
    have hsplit := hC.split sv ss hss D A hadd
    simp [live, ho, hget, hsplit]

theorem askBest_cover_acc (env : Env α) (hG : SubGeom env) (hC : ChooseGeomAcc env) {s s' : State α} {vs : List Pt}
    {r : Pt × α} (hN : AskAccAt env s) (ht : s.tri = some vs) (hv : SubVerts env s) (hc : Cover env s)
    (h : askBest env s vs = .ok (r, s')) : Cover env s' := by
  obtain ⟨e, q, s2, hp, _, h2, rfl⟩ := askBest_form env h
  have hr1 : r.1 = env.choose (chosenPts vs s.book.subs e) := askBest_point env hp h
  have hq0 : QCov env (env.triSimps vs.length) s.losses
      { s.book with queue := q, p2s := put r.1 e.simplex s.book.p2s } (some (pairOf e)) := by
    intro pr hpr hl hne
    have hne' : pr ≠ pairOf e := fun c => hne (by rw [c])
    have hcov := hc pr.1 (by simp only [ht, simplices]; exact hpr) pr.2 hl
    exact CovP_of_pop env hp pr hpr hl hne' hcov
  obtain ⟨t2, l2, _, hq2⟩ :=
    tellPending_cov_exc env hG (s := { s with book := { s.book with queue := q, p2s := put r.1 e.simplex s.book.p2s } })
      r.1 (some e.simplex) (some (pairOf e)) ht hq0 h2
  have hdead : live env (simplices env s2.tri) s2.book.subs e = false := by
    rw [hr1] at h2
    exact chosen_dead_acc env hG hC ht hv hp (hN.1.1 vs e q ht hp) (hN.1.2 vs e q ht hp) hN.2 h2
  intro x hx o hl
  simp only [t2, simplices] at hx hdead
  have hne : some (x, o) ≠ some (pairOf e) := by
    intro c
    simp only [Option.some.injEq] at c
    have hlive : live env (env.triSimps vs.length) s2.book.subs e = true := by
      have c1 : e.simplex = x := by
        have := congrArg Prod.fst c; simp only [pairOf] at this; exact this.symm
      rw [live_iff, ← c, c1]; exact ⟨hx, hl⟩
    rw [hlive] at hdead; exact absurd hdead (by simp)
  exact hq2 (x, o) hx hl hne

theorem qfull_preserved_acc (env : Env α) (hT : TriGeom env) (hG : SubGeom env) (hC : ChooseGeomAcc env) :
    PreservedIf env (AskAccAt env) (QFull env) where
  hTouch := fun hi h =>
    ⟨touchTri_keys env hi.1 h, touchTri_subVerts env hi.2.1 h, (touchTri_cover env hi.2.2 h).1⟩
  hPend := fun p hint hi h =>
    ⟨tellPending_keys env p hint hi.1 h, tellPending_subVerts env p hint hi.2.1 h,
      (tellPending_cover env hG p hint hi.2.2 h).1⟩
  hTell := fun p a b hi h =>
    ⟨tell_keys env hT.report p a b hi.1 h, tell_subVerts env hT p a b hi.2.1 h,
      (tell_cover env hT.report p a b hi.2.2 h).1⟩
  hBest := fun hN hi ht h =>
    ⟨askBest_keys env hi.1 h, askBest_subVerts env hi.2.1 h, askBest_cover_acc env hG hC hN ht hi.2.1 hi.2.2 h⟩
  hRemove := fun {s} hi =>
    ⟨hi.1, (subVerts_preserved env hT).hRemove hi.2.1, removeUnfinished_cover env s hi.1⟩
  hRand := fun hi => ⟨hi.1, ⟨hi.2.1.1, hi.2.1.2⟩, hi.2.2⟩

theorem askBest_geomOK_acc (env : Env α) (hG : SubGeom env) (hC : ChooseGeomAcc env) {s s' : State α} {vs : List Pt}
    {r : Pt × α} (hN : AskAccAt env s) (ht : s.tri = some vs) (hv : SubVerts env s)
    (h : askBest env s vs = .ok (r, s')) :
    s'.book.geomOK = s.book.geomOK := by
  obtain ⟨e, q, s2, hp, _, h2, rfl⟩ := askBest_form env h
  have hr1 : r.1 = env.choose (chosenPts vs s.book.subs e) := askBest_point env hp h
  have g2 : s2.book.geomOK = s.book.geomOK :=
    tellPending_geom env (s := { s with book := { s.book with queue := q, p2s := put r.1 e.simplex s.book.p2s } })
      _ _ h2
  have hdead : live env (simplices env s2.tri) s2.book.subs e = false := by
    rw [hr1] at h2
    exact chosen_dead_acc env hG hC ht hv hp (hN.1.1 vs e q ht hp) (hN.1.2 vs e q ht hp) hN.2 h2
  show (s2.book.geomOK && !(live env (simplices env s2.tri) s2.book.subs e)) = s.book.geomOK
  rw [hdead, g2]; simp

theorem qfullG_preserved_acc (env : Env α) (hT : TriGeom env) (hG : SubGeom env) (hC : ChooseGeomAcc env) :
    PreservedIf env (AskAccAt env) (QFullG env) where
  hTouch := fun hi h =>
    ⟨(qfull_preserved_acc env hT hG hC).hTouch hi.1 h, (touchTri_geom env h).trans hi.2⟩
  hPend := fun p hint hi h =>
    ⟨(qfull_preserved_acc env hT hG hC).hPend p hint hi.1 h, (tellPending_geom env p hint h).trans hi.2⟩
  hTell := fun p a b hi h =>
    ⟨(qfull_preserved_acc env hT hG hC).hTell p a b hi.1 h, (tell_cover env hT.report p a b hi.1.2.2 h).2.trans hi.2⟩
  hBest := fun hN hi ht h =>
    ⟨(qfull_preserved_acc env hT hG hC).hBest hN hi.1 ht h, (askBest_geomOK_acc env hG hC hN ht hi.1.2.1 h).trans hi.2⟩
  hRemove := fun hi => ⟨(qfull_preserved_acc env hT hG hC).hRemove hi.1, hi.2⟩
  hRand := fun hi => ⟨(qfull_preserved_acc env hT hG hC).hRand hi.1, hi.2⟩

/-- the state condition of `_ask_best_point` from the invariant and `ChooseNewAt` -/
theorem askAccAt_of_inv {env : Env α} (hT : TriGeom env) (hG : SubGeom env)
    (hidx : ∀ sv, ∀ ss ∈ env.subSimps sv, ∀ i ∈ ss, i < sv.length) {t : State α} (hi : VertsInDomain env t)
    (hn : ChooseNewAt env t) : AskAccAt env t :=
  ⟨⟨hn, chosenInDomainAt_of_inv hT hidx hi⟩, pendingInOwnerAt_of_accepted hG hi.subsAccepted⟩

/-- (A)+(B) along a history: for told points in the domain, `AskNew` alone gives the full state condition -/
theorem askAcc_of_askNew (env : Env α) (hT : TriGeom env) (hG : SubGeom env)
    (hidx : ∀ sv, ∀ ss ∈ env.subSimps sv, ∀ i ∈ ss, i < sv.length) (ops : List (Op α)) (hin : InDomain env ops)
    (hN : AskNew env ops) : AlongRun env (AskAccAt env) (init env) ops :=
  AlongRun.monoDom env (vertsInDomain_preserved env hT) (fun t hi hn => askAccAt_of_inv hT hG hidx hi hn) ops hin
    (init_vertsInDomain env) hN

/-- (B) `AskDom` is a THEOREM for histories whose told points lie in the domain, given `AskNew` -/
theorem askDom_of_inDomain (env : Env α) (hT : TriGeom env) (hG : SubGeom env)
    (hidx : ∀ sv, ∀ ss ∈ env.subSimps sv, ∀ i ∈ ss, i < sv.length) (ops : List (Op α)) (hin : InDomain env ops)
    (hN : AskNew env ops) : AskDom env ops :=
  AlongRun.mono' env (fun _ ht => ht.1) ops _ (askAcc_of_askNew env hT hG hidx ops hin hN)

/-- the queue is complete in every reachable state: `ChooseGeomAcc`, told points in the domain, `AskNew` -/
theorem run_cover_reach (env : Env α) (hT : TriGeom env) (hG : SubGeom env) (hC : ChooseGeomAcc env)
    (ops : List (Op α)) (hin : InDomain env ops) (hN : AskNew env ops) {s : State α}
    (h : run env (init env) ops = .ok s) : Cover env s :=
  (run_invIf env (qfull_preserved_acc env hT hG hC) ops (askAcc_of_askNew env hT hG hC.subIdx ops hin hN)
    (init_qfull env) h).2.2

/-- … and the ghost flag is true -/
theorem run_geomOK_reach (env : Env α) (hT : TriGeom env) (hG : SubGeom env) (hC : ChooseGeomAcc env)
    (ops : List (Op α)) (hin : InDomain env ops) (hN : AskNew env ops) {s : State α}
    (h : run env (init env) ops = .ok s) : s.book.geomOK = true :=
  (run_invIf env (qfullG_preserved_acc env hT hG hC) ops (askAcc_of_askNew env hT hG hC.subIdx ops hin hN)
    ⟨init_qfull env, rfl⟩ h).2

end reach

/-! ### dimension 2: `ChooseGeomAcc` from coordinates — no `SubVertsInOwner` -/
section dim2
open Choose Gen.Prims Prims
variable {α : Type} [Field α] [LinearOrder α] [IsStrictOrderedRing α] {β : Type}

/-- (A) for ONE vertex list: if the owner accepts the entries beyond its corners, it accepts every vertex of every
sub-simplex (corners: `pis_corner_dim2`; local indices in range).  `subVertsInOwner_of_pending`, localised. -/
theorem subVerts_of_pending_dim2 (env : Env β) (coord : Pt → P2 α) (eps' : α) (he : 0 ≤ eps') (hdim : env.dim = 2)
    (hpis : ∀ q a b c, env.pis q [a, b, c] = point_in_simplex2 (coord q).1 (coord q).2 (coord a).1 (coord a).2
      (coord b).1 (coord b).2 (coord c).1 (coord c).2 eps')
    (hidx : ∀ sv, ∀ ss ∈ env.subSimps sv, ∀ i ∈ ss, i < sv.length)
    (sv : List Pt) (hlen : env.dim + 1 ≤ sv.length)
    (hacc : ∀ p ∈ sv.drop (env.dim + 1), env.pis p (sv.take (env.dim + 1)) = true)
    (ss : Simplex) (hss : ss ∈ env.subSimps sv) :
    ∀ p ∈ ptsOf sv ss, env.pis p (sv.take (env.dim + 1)) = true := by
  intro p hp
  have hmem : p ∈ sv := mem_of_mem_ptsOf (hidx sv ss hss) hp
  rw [← List.take_append_drop (env.dim + 1) sv] at hmem
  rcases List.mem_append.1 hmem with h | h
  · rw [hdim] at h hlen ⊢
    rcases sv with _ | ⟨o0, _ | ⟨o1, _ | ⟨o2, rest⟩⟩⟩
    · simp at hlen
    · simp at hlen
    · simp at hlen
    · exact pis_corner_dim2 env coord eps' he hpis o0 o1 o2 _ h
  · exact hacc p h

/-- `ChooseGeomAcc` for a coordinate-computed 2-D environment over a rectangular domain: all three geometric fields
DERIVED; only combinatorial hypotheses left (sub-simplices are triangles with local indices in range, `split`, `nodup`)
— in particular NO `SubVertsInOwner` -/
theorem chooseGeomAcc_dim2_of_coords (env : Env β) (coord : Pt → P2 α) (sqrt : α → α) (eps eps' epsb : α)
    (t : Option (P2 α)) (a0 b0 a1 b1 : α) (hE : CoordEnv2 env coord sqrt eps eps' epsb t a0 b0 a1 b1)
    (hsize : ∀ sv, ∀ ss ∈ env.subSimps sv, ss.length = 3)
    (hidx : ∀ sv, ∀ ss ∈ env.subSimps sv, ∀ i ∈ ss, i < sv.length)
    (hsplit : ∀ sv, ∀ ss ∈ env.subSimps sv, ∀ D A, env.subAdd sv (env.choose (ptsOf sv ss)) = some (D, A) →
      ss ∉ env.subSimps (sv ++ [env.choose (ptsOf sv ss)]))
    (hnodup : ∀ n, (env.triSimps n).Nodup) : ChooseGeomAcc env where
  inside := by
    intro pts h3 hin
    rw [hE.hdim] at h3
    rcases pts with _ | ⟨a, _ | ⟨b, _ | ⟨c, _ | ⟨d, pts⟩⟩⟩⟩
    · simp at h3
    · simp at h3
    · simp at h3
    · exact chooseGeom_inside_rect_dim2 env coord sqrt hE.hsqrt eps t hE.ht a0 b0 a1 b1 epsb hE.hchoose hE.hinside a b c
        (hin a (by simp)) (hin b (by simp)) (hin c (by simp))
    · simp at h3
  inSimplex := by
    intro pts h3
    rw [hE.hdim] at h3
    rcases pts with _ | ⟨a, _ | ⟨b, _ | ⟨c, _ | ⟨d, pts⟩⟩⟩⟩
    · simp at h3
    · simp at h3
    · simp at h3
    · exact chooseGeom_inSimplex_dim2' env coord sqrt hE.hsqrt eps eps' hE.heps' t hE.ht hE.hchoose hE.hpis a b c
    · simp at h3
  inOwner := fun sv hlen hacc ss hss =>
    chooseGeom_inOwner_dim2 env coord sqrt hE.hsqrt eps eps' t hE.ht hE.hdim hE.hchoose hE.hpis sv
      (by rw [hE.hdim] at hlen; exact hlen) ss (hsize sv ss hss)
      (subVerts_of_pending_dim2 env coord eps' hE.heps' hE.hdim hE.hpis hidx sv hlen hacc ss hss)
  subSize := fun sv ss hss => by rw [hE.hdim]; exact hsize sv ss hss
  subIdx := hidx
  split := hsplit
  nodup := hnodup

end dim2

section dim2state
open Choose Gen.Prims Prims
variable {α : Type} [Field α] [LinearOrder α] [IsStrictOrderedRing α]
variable {β : Type} [Sub β] [Mul β] [Div β] [LT β] [DecidableLT β]

/-- (A), state-relative form of `SubVertsInOwner`: for every sub-triangulation STORED in the state, `point_in_simplex`
accepts every vertex of every sub-simplex for the owner -/
def SubVertsInOwnerAt (env : Env β) (s : State β) : Prop :=
  ∀ vs x sv, s.tri = some vs → get? x s.book.subs = some sv →
    ∀ ss ∈ env.subSimps sv, ∀ p ∈ ptsOf sv ss, env.pis p (sv.take (env.dim + 1)) = true

/-- (A) DERIVED in dimension 2 from the invariant `SubsAccepted` -/
theorem subVertsInOwnerAt_dim2 (env : Env β) (coord : Pt → P2 α) (eps' : α) (he : 0 ≤ eps') (hdim : env.dim = 2)
    (hpis : ∀ q a b c, env.pis q [a, b, c] = point_in_simplex2 (coord q).1 (coord q).2 (coord a).1 (coord a).2
      (coord b).1 (coord b).2 (coord c).1 (coord c).2 eps')
    (hidx : ∀ sv, ∀ ss ∈ env.subSimps sv, ∀ i ∈ ss, i < sv.length) (hG : SubGeom env) {s : State β}
    (h : SubsAccepted env s) : SubVertsInOwnerAt env s := by
  intro vs x sv ht hx ss hss
  obtain ⟨hl, hacc⟩ := pendingInOwnerAt_of_accepted hG h vs x sv ht hx
  exact subVerts_of_pending_dim2 env coord eps' he hdim hpis hidx sv hl hacc ss hss

end dim2state
end LND
