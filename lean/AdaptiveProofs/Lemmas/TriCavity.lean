import AdaptiveProofs.Lemmas.TriVolume
import AdaptiveProofs.Lemmas.TriBasic
import Mathlib.Tactic.Ring
import Mathlib.Tactic.Linarith
import Mathlib.Algebra.Order.Ring.Abs
import Mathlib.Algebra.BigOperators.Group.List.Basic
import Mathlib.Data.List.Nodup
import Mathlib.Data.List.Count
import Mathlib.Data.List.Perm.Basic

/-!
Conservation of volume by the cavity retriangulation of Bowyer–Watson (the algebraic core of the geometric half
of C03).  `bad` is the list of deleted simplices (sorted index tuples), `hole d bad` is EXACTLY the list of hole
faces computed by `Tri.bowyerWatson`.  Part A: list sums.  Part B: the abstract cancellation over a cavity (any
dimension).  Part C/D: dimension 2 (`area2`) and 3 (`vol6`).
-/
namespace Tri

/-! ## A. list sums -/
section sums
variable {α : Type} [AddCommMonoid α]

theorem sum_map_flatMap {β γ : Type} (l : List β) (g : β → List γ) (f : γ → α) :
    ((l.flatMap g).map f).sum = (l.map (fun b => ((g b).map f).sum)).sum := by
  induction l with
  | nil => rfl
  | cons b l ih => simp [List.flatMap_cons, ih]

theorem sum_map_filter_split {β : Type} (l : List β) (p : β → Bool) (f : β → α) :
    (l.map f).sum = ((l.filter p).map f).sum + ((l.filter (fun b => !p b)).map f).sum := by
  induction l with
  | nil => simp
  | cons b l ih =>
    cases hp : p b
    · simp [hp, ih, add_left_comm]
    · simp [hp, ih, add_assoc]

theorem sum_map_congr {β : Type} (l : List β) (f g : β → α) (h : ∀ b ∈ l, f b = g b) :
    (l.map f).sum = (l.map g).sum := by
  rw [List.map_congr_left h]

/-- a sum vanishes if it vanishes on every group of equal keys -/
theorem sum_eq_zero_of_groups {β κ : Type} [DecidableEq κ] (key : β → κ) (h : β → α) :
    ∀ (n : Nat) (L : List β), L.length ≤ n →
      (∀ k, ((L.filter (fun b => key b = k)).map h).sum = 0) → (L.map h).sum = 0
  | 0, L, hn, _ => by
    have : L = [] := List.length_eq_zero_iff.mp (Nat.le_zero.mp hn)
    subst this; rfl
  | n + 1, [], _, _ => rfl
  | n + 1, b :: L, hn, hz => by
    rw [sum_map_filter_split (b :: L) (fun c => key c = key b) h, hz (key b), zero_add]
    apply sum_eq_zero_of_groups key h n
    · have : ((b :: L).filter (fun c => !decide (key c = key b))).length < (b :: L).length := by
        rw [List.length_filter_lt_length_iff_exists]
        exact ⟨b, List.mem_cons_self, by simp⟩
      simp only [List.length_cons] at this hn
      omega
    · intro k
      rw [List.filter_filter]
      by_cases hk : k = key b
      · subst hk
        have : (b :: L).filter (fun a => decide (key a = key b) && !decide (key a = key b)) = [] := by
          rw [List.filter_eq_nil_iff]; intro a _; simp
        rw [this]; rfl
      · rw [← hz k]
        congr 2
        apply List.filter_congr
        intro a _
        by_cases ha : key a = k
        · subst ha
          simp [hk]
        · simp [ha]

end sums

/-! ## B. the cavity: hole faces, owners, abstract cancellation -/

/-- the hole faces of `bowyer_watson`, exactly as the model computes them -/
def hole (d : Nat) (bad : List Simplex) : List Simplex :=
  (facesOf d bad).filter (fun f => (facesOf d bad).count f < 2)

/-- the first simplex of `bad` that has the face `e` (for a hole face: the only one) -/
def owner (d : Nat) (bad : List Simplex) (e : Simplex) : Simplex :=
  (bad.find? (fun t => e ∈ combos d t)).getD []

/-- all (simplex, facet) incidences of the cavity -/
def incidences (d : Nat) (bad : List Simplex) : List (Simplex × Simplex) :=
  bad.flatMap (fun t => (combos d t).map (fun e => (t, e)))

theorem mem_incidences {d : Nat} {bad : List Simplex} {a : Simplex × Simplex} :
    a ∈ incidences d bad ↔ a.1 ∈ bad ∧ a.2 ∈ combos d a.1 := by
  obtain ⟨t, e⟩ := a
  simp only [incidences, List.mem_flatMap, List.mem_map, Prod.mk.injEq]
  constructor
  · rintro ⟨t', ht', e', he', rfl, rfl⟩; exact ⟨ht', he'⟩
  · rintro ⟨h1, h2⟩; exact ⟨t, h1, e, h2, rfl, rfl⟩

theorem incidences_snd (d : Nat) (bad : List Simplex) : (incidences d bad).map Prod.snd = facesOf d bad := by
  simp only [incidences, facesOf, List.map_flatMap, List.map_map]
  congr 1
  funext t
  simp [Function.comp_def]

theorem combos_nodup {β : Type} : ∀ (k : Nat) (l : List β), l.Nodup → (combos k l).Nodup
  | 0, l, _ => by simp [combos]
  | k + 1, [], _ => by simp [combos]
  | k + 1, x :: xs, h => by
    rw [List.nodup_cons] at h
    simp only [combos]
    rw [List.nodup_append]
    refine ⟨(combos_nodup k xs h.2).map (fun a b hab => by simpa using hab), combos_nodup (k + 1) xs h.2, ?_⟩
    intro a ha b hb hab
    subst hab
    obtain ⟨c, _, rfl⟩ := List.mem_map.mp ha
    exact h.1 ((combos_sublist _ _ _ hb).1.subset List.mem_cons_self)

theorem incidences_nodup {d : Nat} {bad : List Simplex} (hN : bad.Nodup) (hC : ∀ t ∈ bad, t.Nodup) :
    (incidences d bad).Nodup := by
  rw [incidences, List.nodup_flatMap]
  refine ⟨fun t ht => (combos_nodup d t (hC t ht)).map (fun a b hab => by simpa using hab), ?_⟩
  refine hN.imp ?_
  intro t t' hne
  simp only [Function.onFun]
  intro a ha ha'
  obtain ⟨_, _, rfl⟩ := List.mem_map.mp ha
  obtain ⟨_, _, h⟩ := List.mem_map.mp ha'
  exact hne (by simpa using (congrArg Prod.fst h).symm)

theorem sum_incidences {α : Type} [AddCommMonoid α] (d : Nat) (bad : List Simplex) (g : Simplex → Simplex → α) :
    ((incidences d bad).map (fun a => g a.1 a.2)).sum =
      (bad.map (fun t => ((combos d t).map (fun e => g t e)).sum)).sum := by
  rw [incidences, sum_map_flatMap]
  simp only [List.map_map, Function.comp_def]

theorem sum_incidences_filter {α : Type} [AddCommMonoid α] (d : Nat) (bad : List Simplex) (g : Simplex → Simplex → α)
    (c : Simplex → Bool) :
    (((incidences d bad).filter (fun a => c a.2)).map (fun a => g a.1 a.2)).sum =
      (bad.map (fun t => (((combos d t).filter c).map (fun e => g t e)).sum)).sum := by
  rw [incidences, List.filter_flatMap, sum_map_flatMap]
  simp only [List.filter_map, List.map_map, Function.comp_def]

theorem length_filter_incidences (d : Nat) (bad : List Simplex) (e : Simplex) :
    ((incidences d bad).filter (fun a => a.2 = e)).length = (facesOf d bad).count e := by
  rw [← incidences_snd, List.count_eq_countP, List.countP_map, List.countP_eq_length_filter]
  congr 2
  funext a
  by_cases h : a.2 = e
  · subst h; simp
  · simp [h]

/-- INTERIOR CANCELLATION, abstract form.  `w t e` is the weight with which the facet `e` is seen from the simplex
`t`; if the two simplices sharing an interior facet see it with opposite weights and no facet is in more than two
simplices, only the hole (boundary) facets contribute to the total. -/
theorem cavity_cancel {α : Type} [CommRing α] (d : Nat) (bad : List Simplex) (w : Simplex → Simplex → α)
    (fl : Simplex → α) (hN : bad.Nodup) (hC : ∀ t ∈ bad, t.Nodup) (h2 : ∀ e, (facesOf d bad).count e ≤ 2)
    (hD : ∀ t ∈ bad, ∀ t' ∈ bad, t ≠ t' → ∀ e, e ∈ combos d t → e ∈ combos d t' → w t e + w t' e = 0) :
    (bad.map (fun t => ((combos d t).map (fun e => w t e * fl e)).sum)).sum =
      (bad.map (fun t => (((combos d t).filter (fun e => (facesOf d bad).count e < 2)).map
        (fun e => w t e * fl e)).sum)).sum := by
  rw [← sum_incidences d bad (fun t e => w t e * fl e),
    ← sum_incidences_filter d bad (fun t e => w t e * fl e) (fun e => (facesOf d bad).count e < 2),
    sum_map_filter_split (incidences d bad) (fun a => (facesOf d bad).count a.2 < 2)]
  refine add_eq_left.mpr ?_
  apply sum_eq_zero_of_groups Prod.snd _ _ _ (Nat.le_refl _)
  intro e
  rw [List.filter_filter]
  by_cases hc : (facesOf d bad).count e < 2
  · have : (incidences d bad).filter (fun a => decide (a.2 = e) && !decide ((facesOf d bad).count a.2 < 2)) = [] := by
      rw [List.filter_eq_nil_iff]
      intro a _
      by_cases ha : a.2 = e
      · subst ha; simp [hc]
      · simp [ha]
    rw [this]; rfl
  · have hfe : (incidences d bad).filter (fun a => decide (a.2 = e) && !decide ((facesOf d bad).count a.2 < 2)) =
        (incidences d bad).filter (fun a => a.2 = e) := by
      apply List.filter_congr
      intro a _
      by_cases ha : a.2 = e
      · subst ha; simp [hc]
      · simp [ha]
    rw [hfe]
    have hlen : ((incidences d bad).filter (fun a => a.2 = e)).length = 2 := by
      rw [length_filter_incidences]
      have := h2 e
      omega
    have hnd : ((incidences d bad).filter (fun a => a.2 = e)).Nodup := (incidences_nodup hN hC).filter _
    have hmem : ∀ a ∈ (incidences d bad).filter (fun a => a.2 = e), a.1 ∈ bad ∧ e ∈ combos d a.1 ∧ a.2 = e := by
      intro a ha
      obtain ⟨h1, h2'⟩ := List.mem_filter.mp ha
      have h3 : a.2 = e := by simpa using h2'
      obtain ⟨h4, h5⟩ := mem_incidences.mp h1
      exact ⟨h4, h3 ▸ h5, h3⟩
    generalize (incidences d bad).filter (fun a => a.2 = e) = G at hlen hnd hmem
    match G, hlen, hnd, hmem with
    | [a, b], _, hnd, hmem =>
      obtain ⟨ha1, ha2, ha3⟩ := hmem a (by simp)
      obtain ⟨hb1, hb2, hb3⟩ := hmem b (by simp)
      have hne : a.1 ≠ b.1 := by
        intro h
        have : a = b := Prod.ext h (ha3.trans hb3.symm)
        subst this
        simp at hnd
      have := hD a.1 ha1 b.1 hb1 hne e ha2 hb2
      simp only [List.map_cons, List.map_nil, List.sum_cons, List.sum_nil, add_zero, ha3, hb3]
      rw [← add_mul, this, zero_mul]

theorem count_ge_two {d : Nat} {bad : List Simplex} {t t' e : Simplex} (ht : t ∈ bad) (ht' : t' ∈ bad)
    (hne : t ≠ t') (he : e ∈ combos d t) (he' : e ∈ combos d t') : 2 ≤ (facesOf d bad).count e := by
  have h1 : bad.Perm (t :: bad.erase t) := List.perm_cons_erase ht
  have ht'' : t' ∈ bad.erase t := (List.mem_erase_of_ne hne.symm).mpr ht'
  have h2 : bad.Perm (t :: t' :: (bad.erase t).erase t') := h1.trans ((List.perm_cons_erase ht'').cons t)
  have h3 := (h2.flatMap_right (combos d)).count_eq e
  rw [facesOf, h3]
  simp only [List.flatMap_cons, List.count_append]
  have := List.count_pos_iff.mpr he
  have := List.count_pos_iff.mpr he'
  omega

/-- a hole facet belongs to exactly one simplex of the cavity: its owner -/
theorem owner_eq {d : Nat} {bad : List Simplex} {t e : Simplex} (ht : t ∈ bad) (he : e ∈ combos d t)
    (hc : (facesOf d bad).count e < 2) : owner d bad e = t := by
  unfold owner
  cases hf : bad.find? (fun t => e ∈ combos d t) with
  | none =>
    have := List.find?_eq_none.mp hf t ht
    simp [he] at this
  | some t' =>
    have h1 := List.mem_of_find?_eq_some hf
    have h2 : e ∈ combos d t' := by simpa using List.find?_some hf
    simp only [Option.getD_some]
    by_contra hne
    have := count_ge_two ht h1 (fun h => hne h.symm) he h2
    omega

theorem mem_hole {d : Nat} {bad : List Simplex} {e : Simplex} (he : e ∈ hole d bad) :
    owner d bad e ∈ bad ∧ e ∈ combos d (owner d bad e) ∧ (facesOf d bad).count e < 2 := by
  obtain ⟨h1, h2⟩ := List.mem_filter.mp he
  have hc : (facesOf d bad).count e < 2 := by simpa using h2
  simp only [facesOf, List.mem_flatMap] at h1
  obtain ⟨t, ht, het⟩ := h1
  rw [owner_eq ht het hc]
  exact ⟨ht, het, hc⟩

theorem sum_hole {α : Type} [AddCommMonoid α] (d : Nat) (bad : List Simplex) (G : Simplex → Simplex → α) :
    ((hole d bad).map (fun e => G (owner d bad e) e)).sum =
      (bad.map (fun t => (((combos d t).filter (fun e => (facesOf d bad).count e < 2)).map
        (fun e => G t e)).sum)).sum := by
  rw [hole, facesOf, List.filter_flatMap, sum_map_flatMap]
  apply sum_map_congr
  intro t ht
  apply sum_map_congr
  intro e he
  obtain ⟨h1, h2⟩ := List.mem_filter.mp he
  rw [owner_eq ht h1 (by simpa [facesOf] using h2)]

theorem hole_nodup (d : Nat) (bad : List Simplex) : (hole d bad).Nodup := by
  rw [List.nodup_iff_count_le_one]
  intro e
  by_cases he : e ∈ hole d bad
  · have hc : (facesOf d bad).count e < 2 := by simpa using (List.mem_filter.mp he).2
    have hpos := List.count_pos_iff.mpr (List.mem_filter.mp he).1
    have : (hole d bad).count e ≤ (facesOf d bad).count e := List.Sublist.count_le _ List.filter_sublist
    have h1 : (facesOf d bad).count e = 1 := by omega
    omega
  · rw [List.count_eq_zero_of_not_mem he]; exact Nat.zero_le _

/-- "no facet in more than two simplices" only has to be checked for the facets that occur (decidable) -/
theorem count_le_two_of_mem {l : List Simplex} (h : ∀ e ∈ l, l.count e ≤ 2) : ∀ e, l.count e ≤ 2 := by
  intro e
  by_cases he : e ∈ l
  · exact h e he
  · rw [List.count_eq_zero_of_not_mem he]; exact Nat.zero_le _

/-! ### orientation sign -/
section osign
variable {α : Type} [CommRing α] [LinearOrder α] [IsStrictOrderedRing α]

/-- the orientation (sign) of a signed volume, as an element of the ring -/
def osign (a : α) : α := if 0 < a then 1 else if a < 0 then -1 else 0

theorem osign_mul_self (a : α) : osign a * a = |a| := by
  unfold osign
  split
  · rename_i h; rw [one_mul, abs_of_pos h]
  · split
    · rename_i h; rw [neg_one_mul, abs_of_neg h]
    · rename_i h1 h2
      have : a = 0 := le_antisymm (not_lt.mp h1) (not_lt.mp h2)
      simp [this]

omit [IsStrictOrderedRing α] in
theorem osign_unit {a : α} (h : a ≠ 0) : osign a = 1 ∨ osign a = -1 := by
  unfold osign
  split
  · exact Or.inl rfl
  · rename_i h1
    rw [if_pos (lt_of_le_of_ne (not_lt.mp h1) h)]
    exact Or.inr rfl

theorem osign_neg (a : α) : osign (-a) = -osign a := by
  unfold osign
  rcases lt_trichotomy a 0 with h | h | h
  · simp [h, not_lt.mpr h.le]
  · simp [h]
  · simp [h, not_lt.mpr h.le]

/-- strictly opposite signs -/
theorem osign_add_of_mul_neg {a b : α} (h : a * b < 0) : osign a + osign b = 0 := by
  unfold osign
  rcases lt_trichotomy a 0 with ha | ha | ha
  · have hb : 0 < b := by
      by_contra hb
      exact absurd h (not_lt.mpr (mul_nonneg_of_nonpos_of_nonpos ha.le (not_lt.mp hb)))
    simp [ha, hb, not_lt.mpr ha.le]
  · simp [ha] at h
  · have hb : b < 0 := by
      by_contra hb
      exact absurd h (not_lt.mpr (mul_nonneg ha.le (not_lt.mp hb)))
    simp [ha, hb, not_lt.mpr hb.le]

theorem unit_mul_eq_abs {u f : α} (hu : u = 1 ∨ u = -1) (h : 0 ≤ u * f) : u * f = |f| := by
  rcases hu with rfl | rfl
  · rw [one_mul] at h ⊢; exact (abs_of_nonneg h).symm
  · rw [neg_one_mul] at h ⊢; exact (abs_of_nonpos (by linarith)).symm

omit [LinearOrder α] [IsStrictOrderedRing α] in
theorem sum_map_mul_left' {β : Type} (l : List β) (r : α) (f : β → α) :
    (l.map (fun b => r * f b)).sum = r * (l.map f).sum := by
  induction l with
  | nil => simp
  | cons b l ih => simp [ih, mul_add]

/-- INTERIOR CANCELLATION (abstract, any dimension): the total unsigned volume of the cavity is the sum over the
hole facets of (orientation of the owner) × (signed volume of the owner with the opposite vertex replaced). -/
theorem cavity_abs_sum (d : Nat) (bad : List Simplex) (vol : Simplex → α) (es : Simplex → Simplex → α)
    (fl : Simplex → α) (hN : bad.Nodup) (hC : ∀ t ∈ bad, t.Nodup) (h2 : ∀ e, (facesOf d bad).count e ≤ 2)
    (hsplit : ∀ t ∈ bad, vol t = ((combos d t).map (fun e => es t e * fl e)).sum)
    (hopp : ∀ t ∈ bad, ∀ t' ∈ bad, t ≠ t' → ∀ e, e ∈ combos d t → e ∈ combos d t' →
      osign (vol t) * es t e + osign (vol t') * es t' e = 0) :
    (bad.map (fun t => |vol t|)).sum =
      ((hole d bad).map (fun e => osign (vol (owner d bad e)) * (es (owner d bad e) e * fl e))).sum := by
  rw [sum_hole d bad (fun t e => osign (vol t) * (es t e * fl e))]
  have h1 : (bad.map (fun t => |vol t|)).sum =
      (bad.map (fun t => ((combos d t).map (fun e => (osign (vol t) * es t e) * fl e)).sum)).sum := by
    apply sum_map_congr
    intro t ht
    rw [← osign_mul_self, hsplit t ht, ← sum_map_mul_left']
    simp only [mul_assoc]
  rw [h1, cavity_cancel d bad (fun t e => osign (vol t) * es t e) fl hN hC h2 hopp]
  simp only [mul_assoc]

/-- STAR-SHAPED CAVITY ⇒ VOLUME CONSERVED (abstract, any dimension). -/
theorem cavity_conserved (d : Nat) (bad : List Simplex) (vol : Simplex → α) (es : Simplex → Simplex → α)
    (fl : Simplex → α) (hN : bad.Nodup) (hC : ∀ t ∈ bad, t.Nodup) (h2 : ∀ e, (facesOf d bad).count e ≤ 2)
    (hsplit : ∀ t ∈ bad, vol t = ((combos d t).map (fun e => es t e * fl e)).sum)
    (hopp : ∀ t ∈ bad, ∀ t' ∈ bad, t ≠ t' → ∀ e, e ∈ combos d t → e ∈ combos d t' →
      osign (vol t) * es t e + osign (vol t') * es t' e = 0)
    (hnd : ∀ t ∈ bad, vol t ≠ 0)
    (hes : ∀ t ∈ bad, ∀ e ∈ combos d t, es t e = 1 ∨ es t e = -1)
    (hstar : ∀ e ∈ hole d bad, 0 ≤ osign (vol (owner d bad e)) * (es (owner d bad e) e * fl e)) :
    (bad.map (fun t => |vol t|)).sum = ((hole d bad).map (fun e => |fl e|)).sum := by
  rw [cavity_abs_sum d bad vol es fl hN hC h2 hsplit hopp]
  apply sum_map_congr
  intro e he
  obtain ⟨h1, h3, _⟩ := mem_hole he
  have hu : osign (vol (owner d bad e)) * es (owner d bad e) e = 1 ∨
      osign (vol (owner d bad e)) * es (owner d bad e) e = -1 := by
    rcases osign_unit (hnd _ h1) with h | h <;> rcases hes _ h1 e h3 with h' | h' <;> rw [h, h'] <;> simp
  have := hstar e he
  rw [← mul_assoc] at this ⊢
  exact unit_mul_eq_abs hu this

/-- the sign bookkeeping of two simplices sharing a facet: `s = vol t`, `σ' * f = vol t'` -/
theorem osign_cancel {σ σ' f s : α} (hσ : σ = 1 ∨ σ = -1) (hσ' : σ' = 1 ∨ σ' = -1) (h : σ * f * s < 0) :
    osign s * σ + osign (σ' * f) * σ' = 0 := by
  rcases hσ with rfl | rfl <;> rcases hσ' with rfl | rfl
  · have := osign_add_of_mul_neg (a := f) (b := s) (by linarith)
    simp only [one_mul, mul_one]; linarith
  · have := osign_add_of_mul_neg (a := f) (b := s) (by linarith)
    simp only [neg_one_mul, mul_neg_one, mul_one, osign_neg]; linarith
  · have := osign_add_of_mul_neg (a := -f) (b := s) (by linarith)
    rw [osign_neg] at this
    simp only [one_mul, mul_neg_one, mul_one]; linarith
  · have := osign_add_of_mul_neg (a := -f) (b := s) (by linarith)
    rw [osign_neg] at this
    simp only [neg_one_mul, mul_neg_one, osign_neg]; linarith

end osign

/-! ## C. dimension 2: triangles, `area2` -/

theorem sorted3 {t : Simplex} (h : t.length = 3 ∧ t.Pairwise (· < ·)) :
    ∃ i j k, t = [i, j, k] ∧ i < j ∧ j < k := by
  obtain ⟨hl, hp⟩ := h
  match t, hl, hp with
  | [i, j, k], _, hp =>
    simp only [List.pairwise_cons, List.mem_cons, List.not_mem_nil, or_false, forall_eq_or_imp, forall_eq,
      IsEmpty.forall_iff, implies_true, List.Pairwise.nil, and_true] at hp
    exact ⟨i, j, k, rfl, hp.1.1, hp.2⟩

section dim2
variable {α : Type} [CommRing α]

/-- twice the signed area of the triangle with the vertex indices `t = [i, j, k]` (coordinates `x`) -/
def sv2 (x : Nat → α × α) : Simplex → α
  | [i, j, k] => area2 (x i) (x j) (x k)
  | _ => 0

/-- twice the signed area of the triangle over the edge `e = [a, b]` with apex `p` -/
def flux2 (x : Nat → α × α) (e : Simplex) (p : α × α) : α :=
  match e with
  | [a, b] => area2 (x a) (x b) p
  | _ => 0

/-- `sv_e(t, p)`: the signed area of `t` with the vertex opposite to the edge `e` replaced IN PLACE by `p` -/
def sve2 (x : Nat → α × α) (t e : Simplex) (p : α × α) : α :=
  match t with
  | [i, j, k] =>
    if e = [i, j] then area2 (x i) (x j) p
    else if e = [i, k] then area2 (x i) p (x k)
    else if e = [j, k] then area2 p (x j) (x k)
    else 0
  | _ => 0

/-- the parity of the position of the vertex of `t` opposite to `e`: `+1` for the last and the first, `-1` for the
middle one -/
def esign2 (t e : Simplex) : α :=
  match t with
  | [i, j, k] => if e = [i, j] then 1 else if e = [i, k] then -1 else if e = [j, k] then 1 else 0
  | _ => 0

/-- replacing in place = parity × (apex appended to the edge) -/
theorem sve2_eq (x : Nat → α × α) (t e : Simplex) (p : α × α) : sve2 x t e p = esign2 t e * flux2 x e p := by
  unfold sve2 esign2
  split
  · split
    · rename_i h; subst h; simp [flux2]
    · split
      · rename_i h; subst h; simp only [flux2, area2]; ring
      · split
        · rename_i h; subst h; simp only [flux2, area2]; ring
        · simp
  · simp

theorem esign2_unit {i j k : Nat} {e : Simplex} (he : e ∈ combos 2 [i, j, k]) :
    (esign2 [i, j, k] e : α) = 1 ∨ (esign2 [i, j, k] e : α) = -1 := by
  simp only [combos, List.map_cons, List.map_nil, List.append_nil, List.cons_append, List.nil_append,
    List.mem_cons, List.not_mem_nil, or_false] at he
  unfold esign2
  simp only
  rcases he with rfl | rfl | rfl <;> split_ifs <;> simp_all

/-- (1a) the pieces over the three edges add up to the triangle, for every apex `p` (`simplex_split_volume_2d`) -/
theorem sv2_split (x : Nat → α × α) {i j k : Nat} (hij : i < j) (hjk : j < k) (p : α × α) :
    sv2 x [i, j, k] = ((combos 2 [i, j, k]).map (fun e => sve2 x [i, j, k] e p)).sum := by
  have h1 : ¬ ([i, k] = [i, j]) := by simp; omega
  have h2 : ¬ ([j, k] = [i, j]) := by simp; omega
  have h3 : ¬ ([j, k] = [i, k]) := by simp; omega
  simp only [combos, List.map_cons, List.map_nil, List.append_nil, List.cons_append, List.nil_append,
    List.sum_cons, List.sum_nil, sve2, sv2, if_true, h1, h2, h3, if_false, area2]
  ring

/-- (1b) two triangles sharing the edge `e`: the in-place replacements differ by the parity `ε = ±1`, for ALL `q` -/
theorem sve2_shared (x : Nat → α × α) {i j k : Nat} (t e : Simplex) (he : e ∈ combos 2 [i, j, k]) (q : α × α) :
    sve2 x t e q = (esign2 t e * esign2 [i, j, k] e) * sve2 x [i, j, k] e q := by
  rw [sve2_eq, sve2_eq x [i, j, k]]
  rcases esign2_unit (α := α) he with h | h <;> rw [h] <;> ring

/-- `e ++ [pt]` for an edge `e` is the triangle over `e` with apex `x pt` -/
theorem sv2_append (x : Nat → α × α) {t e : Simplex} (he : e ∈ combos 2 t) (pt : Nat) :
    sv2 x (e ++ [pt]) = flux2 x e (x pt) := by
  have hl := (combos_sublist 2 t e he).2
  match e, hl with
  | [a, b], _ => rfl

end dim2

section dim2o
variable {α : Type} [CommRing α] [LinearOrder α] [IsStrictOrderedRing α]

/-- (2) LOCAL TILING HYPOTHESIS on the cavity (truthful geometry of a valid triangulation, nothing about the code):
two different triangles of `bad` sharing an edge `e` have their third vertices STRICTLY on opposite sides of `e`
(`sv_e(t, third vertex of t')` and `sv t` have opposite signs — independent of the parity bookkeeping, because both
carry the same factor `esign2 t e`), and no edge belongs to more than two triangles of `bad`. -/
structure OppositeSides2 (x : Nat → α × α) (bad : List Simplex) : Prop where
  opposite : ∀ t ∈ bad, ∀ t' ∈ bad, t ≠ t' → ∀ e, e ∈ combos 2 t → e ∈ combos 2 t' →
    ∀ c' ∈ t', c' ∉ e → sve2 x t e (x c') * sv2 x t < 0
  atMostTwo : ∀ e, (facesOf 2 bad).count e ≤ 2

/-- the two triangles at an interior edge see it with opposite weights -/
theorem opposite_weights_2d (x : Nat → α × α) {bad : List Simplex}
    (hS : ∀ t ∈ bad, t.length = 3 ∧ t.Pairwise (· < ·)) (hO : OppositeSides2 x bad) :
    ∀ t ∈ bad, ∀ t' ∈ bad, t ≠ t' → ∀ e, e ∈ combos 2 t → e ∈ combos 2 t' →
      osign (sv2 x t) * esign2 t e + osign (sv2 x t') * esign2 t' e = 0 := by
  intro t ht t' ht' hne e he he'
  obtain ⟨i, j, k, rfl, hij, hjk⟩ := sorted3 (hS t ht)
  obtain ⟨i', j', k', rfl, hij', hjk'⟩ := sorted3 (hS t' ht')
  have hu := esign2_unit (α := α) he
  have hu' := esign2_unit (α := α) he'
  have hop := hO.opposite _ ht _ ht' hne e he he'
  have h1 : ¬ ([i', k'] = [i', j']) := by simp; omega
  have h2 : ¬ ([j', k'] = [i', j']) := by simp; omega
  have h3 : ¬ ([j', k'] = [i', k']) := by simp; omega
  simp only [combos, List.map_cons, List.map_nil, List.append_nil, List.cons_append, List.nil_append,
    List.mem_cons, List.not_mem_nil, or_false] at he'
  rcases he' with rfl | rfl | rfl
  · have h := hop k' (by simp) (by simp; omega)
    rw [sve2_eq] at h
    have hv : sv2 x [i', j', k'] = esign2 [i', j', k'] [i', j'] * flux2 x [i', j'] (x k') := by
      simp [esign2, flux2, sv2]
    rw [hv]
    exact osign_cancel hu hu' h
  · have h := hop j' (by simp) (by simp; omega)
    rw [sve2_eq] at h
    have hv : sv2 x [i', j', k'] = esign2 [i', j', k'] [i', k'] * flux2 x [i', k'] (x j') := by
      simp only [esign2, flux2, sv2, h1, if_false, if_true, area2]; ring
    rw [hv]
    exact osign_cancel hu hu' h
  · have h := hop i' (by simp) (by simp; omega)
    rw [sve2_eq] at h
    have hv : sv2 x [i', j', k'] = esign2 [i', j', k'] [j', k'] * flux2 x [j', k'] (x i') := by
      simp only [esign2, flux2, sv2, h2, h3, if_false, if_true, area2]; ring
    rw [hv]
    exact osign_cancel hu hu' h

/-- (3) INTERIOR CANCELLATION, dimension 2.  For EVERY apex `p`: the total area of the cavity is the sum over the
hole edges `e` of (orientation of the only bad triangle `t_e` with that edge) × (signed area of `t_e` with the vertex
opposite to `e` replaced by `p`).  `hole 2 bad` is the model's list of hole faces. -/
theorem interior_cancellation_2d (x : Nat → α × α) (bad : List Simplex) (hN : bad.Nodup)
    (hS : ∀ t ∈ bad, t.length = 3 ∧ t.Pairwise (· < ·)) (hO : OppositeSides2 x bad) (p : α × α) :
    (bad.map (fun t => |sv2 x t|)).sum =
      ((hole 2 bad).map (fun e => osign (sv2 x (owner 2 bad e)) * sve2 x (owner 2 bad e) e p)).sum := by
  have h := cavity_abs_sum 2 bad (sv2 x) esign2 (fun e => flux2 x e p) hN
    (fun t ht => ((hS t ht).2.imp (fun hab => Nat.ne_of_lt hab))) hO.atMostTwo
    (fun t ht => by
      obtain ⟨i, j, k, rfl, hij, hjk⟩ := sorted3 (hS t ht)
      rw [sv2_split x hij hjk p]
      simp only [sve2_eq])
    (opposite_weights_2d x hS hO)
  rw [h]
  simp only [sve2_eq]

/-- (4) STAR-SHAPED CAVITY ⇒ AREA CONSERVED, dimension 2.  If the triangles of the cavity are non-degenerate and the new
point `x pt` sees every hole edge from the inside, the triangles `e ++ [pt]` over the hole edges have exactly the total
area of the cavity. -/
theorem cavity_conserved_2d (x : Nat → α × α) (bad : List Simplex) (pt : Nat) (hN : bad.Nodup)
    (hS : ∀ t ∈ bad, t.length = 3 ∧ t.Pairwise (· < ·)) (hO : OppositeSides2 x bad)
    (hnd : ∀ t ∈ bad, sv2 x t ≠ 0)
    (hstar : ∀ e ∈ hole 2 bad, 0 ≤ osign (sv2 x (owner 2 bad e)) * sve2 x (owner 2 bad e) e (x pt)) :
    (bad.map (fun t => |sv2 x t|)).sum = ((hole 2 bad).map (fun e => |sv2 x (e ++ [pt])|)).sum := by
  have h := cavity_conserved 2 bad (sv2 x) esign2 (fun e => flux2 x e (x pt)) hN
    (fun t ht => ((hS t ht).2.imp (fun hab => Nat.ne_of_lt hab))) hO.atMostTwo
    (fun t ht => by
      obtain ⟨i, j, k, rfl, hij, hjk⟩ := sorted3 (hS t ht)
      rw [sv2_split x hij hjk (x pt)]
      simp only [sve2_eq])
    (opposite_weights_2d x hS hO) hnd
    (fun t ht e he => by
      obtain ⟨i, j, k, rfl, hij, hjk⟩ := sorted3 (hS t ht)
      exact esign2_unit he)
    (fun e he => by simpa only [sve2_eq] using hstar e he)
  rw [h]
  apply sum_map_congr
  intro e he
  rw [sv2_append x (mem_hole he).2.1]

end dim2o

/-! ## D. dimension 3: tetrahedra, `vol6` -/

theorem sorted4 {t : Simplex} (h : t.length = 4 ∧ t.Pairwise (· < ·)) :
    ∃ i j k l, t = [i, j, k, l] ∧ i < j ∧ j < k ∧ k < l := by
  obtain ⟨hl, hp⟩ := h
  match t, hl, hp with
  | [i, j, k, l], _, hp =>
    simp only [List.pairwise_cons, List.mem_cons, List.not_mem_nil, or_false, forall_eq_or_imp, forall_eq,
      IsEmpty.forall_iff, implies_true, List.Pairwise.nil, and_true] at hp
    exact ⟨i, j, k, l, rfl, hp.1.1, hp.2.1.1, hp.2.2⟩

section dim3
variable {α : Type} [CommRing α]

/-- six times the signed volume of the tetrahedron with the vertex indices `t = [i, j, k, l]` -/
def sv3 (x : Nat → α × α × α) : Simplex → α
  | [i, j, k, l] => vol6 (x i) (x j) (x k) (x l)
  | _ => 0

/-- six times the signed volume of the tetrahedron over the face `e = [a, b, c]` with apex `p` -/
def flux3 (x : Nat → α × α × α) (e : Simplex) (p : α × α × α) : α :=
  match e with
  | [a, b, c] => vol6 (x a) (x b) (x c) p
  | _ => 0

/-- `sv_e(t, p)`: the signed volume of `t` with the vertex opposite to the face `e` replaced IN PLACE by `p` -/
def sve3 (x : Nat → α × α × α) (t e : Simplex) (p : α × α × α) : α :=
  match t with
  | [i, j, k, l] =>
    if e = [i, j, k] then vol6 (x i) (x j) (x k) p
    else if e = [i, j, l] then vol6 (x i) (x j) p (x l)
    else if e = [i, k, l] then vol6 (x i) p (x k) (x l)
    else if e = [j, k, l] then vol6 p (x j) (x k) (x l)
    else 0
  | _ => 0

/-- the parity of the position of the vertex of `t` opposite to `e` (`+1` for positions 3 and 1, `-1` for 2 and 0) -/
def esign3 (t e : Simplex) : α :=
  match t with
  | [i, j, k, l] =>
    if e = [i, j, k] then 1 else if e = [i, j, l] then -1 else if e = [i, k, l] then 1
    else if e = [j, k, l] then -1 else 0
  | _ => 0

theorem sve3_eq (x : Nat → α × α × α) (t e : Simplex) (p : α × α × α) :
    sve3 x t e p = esign3 t e * flux3 x e p := by
  unfold sve3 esign3
  split
  · split
    · rename_i h; subst h; simp [flux3]
    · split
      · rename_i h; subst h; simp only [flux3, vol6]; ring
      · split
        · rename_i h; subst h; simp only [flux3, vol6]; ring
        · split
          · rename_i h; subst h; simp only [flux3, vol6]; ring
          · simp
  · simp

theorem esign3_unit {i j k l : Nat} {e : Simplex} (he : e ∈ combos 3 [i, j, k, l]) :
    (esign3 [i, j, k, l] e : α) = 1 ∨ (esign3 [i, j, k, l] e : α) = -1 := by
  simp only [combos, List.map_cons, List.map_nil, List.append_nil, List.cons_append, List.nil_append,
    List.mem_cons, List.not_mem_nil, or_false] at he
  unfold esign3
  simp only
  rcases he with rfl | rfl | rfl | rfl <;> split_ifs <;> simp_all

/-- (1a) the pieces over the four faces add up to the tetrahedron, for every apex `p` (`simplex_split_volume_3d`) -/
theorem sv3_split (x : Nat → α × α × α) {i j k l : Nat} (hij : i < j) (hjk : j < k) (hkl : k < l) (p : α × α × α) :
    sv3 x [i, j, k, l] = ((combos 3 [i, j, k, l]).map (fun e => sve3 x [i, j, k, l] e p)).sum := by
  have h1 : ¬ ([i, j, l] = [i, j, k]) := by simp; omega
  have h2 : ¬ ([i, k, l] = [i, j, k]) := by simp; omega
  have h3 : ¬ ([i, k, l] = [i, j, l]) := by simp; omega
  have h4 : ¬ ([j, k, l] = [i, j, k]) := by simp; omega
  have h5 : ¬ ([j, k, l] = [i, j, l]) := by simp; omega
  have h6 : ¬ ([j, k, l] = [i, k, l]) := by simp; omega
  simp only [combos, List.map_cons, List.map_nil, List.append_nil, List.cons_append, List.nil_append,
    List.sum_cons, List.sum_nil, sve3, sv3, if_true, h1, h2, h3, h4, h5, h6, if_false, vol6]
  ring

/-- (1b) two tetrahedra sharing the face `e`: the in-place replacements differ by the parity `ε = ±1`, for ALL `q` -/
theorem sve3_shared (x : Nat → α × α × α) {i j k l : Nat} (t e : Simplex) (he : e ∈ combos 3 [i, j, k, l])
    (q : α × α × α) :
    sve3 x t e q = (esign3 t e * esign3 [i, j, k, l] e) * sve3 x [i, j, k, l] e q := by
  rw [sve3_eq, sve3_eq x [i, j, k, l]]
  rcases esign3_unit (α := α) he with h | h <;> rw [h] <;> ring

/-- `e ++ [pt]` for a face `e` is the tetrahedron over `e` with apex `x pt` -/
theorem sv3_append (x : Nat → α × α × α) {t e : Simplex} (he : e ∈ combos 3 t) (pt : Nat) :
    sv3 x (e ++ [pt]) = flux3 x e (x pt) := by
  have hl := (combos_sublist 3 t e he).2
  match e, hl with
  | [a, b, c], _ => rfl

end dim3

section dim3o
variable {α : Type} [CommRing α] [LinearOrder α] [IsStrictOrderedRing α]

/-- (2) LOCAL TILING HYPOTHESIS in dimension 3: two different tetrahedra of `bad` sharing a face have their fourth
vertices strictly on opposite sides of it, and no face belongs to more than two tetrahedra of `bad`. -/
structure OppositeSides3 (x : Nat → α × α × α) (bad : List Simplex) : Prop where
  opposite : ∀ t ∈ bad, ∀ t' ∈ bad, t ≠ t' → ∀ e, e ∈ combos 3 t → e ∈ combos 3 t' →
    ∀ c' ∈ t', c' ∉ e → sve3 x t e (x c') * sv3 x t < 0
  atMostTwo : ∀ e, (facesOf 3 bad).count e ≤ 2

theorem opposite_weights_3d (x : Nat → α × α × α) {bad : List Simplex}
    (hS : ∀ t ∈ bad, t.length = 4 ∧ t.Pairwise (· < ·)) (hO : OppositeSides3 x bad) :
    ∀ t ∈ bad, ∀ t' ∈ bad, t ≠ t' → ∀ e, e ∈ combos 3 t → e ∈ combos 3 t' →
      osign (sv3 x t) * esign3 t e + osign (sv3 x t') * esign3 t' e = 0 := by
  intro t ht t' ht' hne e he he'
  obtain ⟨i, j, k, l, rfl, hij, hjk, hkl⟩ := sorted4 (hS t ht)
  obtain ⟨i', j', k', l', rfl, hij', hjk', hkl'⟩ := sorted4 (hS t' ht')
  have hu := esign3_unit (α := α) he
  have hu' := esign3_unit (α := α) he'
  have hop := hO.opposite _ ht _ ht' hne e he he'
  have h1 : ¬ ([i', j', l'] = [i', j', k']) := by simp; omega
  have h2 : ¬ ([i', k', l'] = [i', j', k']) := by simp; omega
  have h3 : ¬ ([i', k', l'] = [i', j', l']) := by simp; omega
  have h4 : ¬ ([j', k', l'] = [i', j', k']) := by simp; omega
  have h5 : ¬ ([j', k', l'] = [i', j', l']) := by simp; omega
  have h6 : ¬ ([j', k', l'] = [i', k', l']) := by simp; omega
  simp only [combos, List.map_cons, List.map_nil, List.append_nil, List.cons_append, List.nil_append,
    List.mem_cons, List.not_mem_nil, or_false] at he'
  rcases he' with rfl | rfl | rfl | rfl
  · have h := hop l' (by simp) (by simp; omega)
    rw [sve3_eq] at h
    have hv : sv3 x [i', j', k', l'] = esign3 [i', j', k', l'] [i', j', k'] * flux3 x [i', j', k'] (x l') := by
      simp [esign3, flux3, sv3]
    rw [hv]
    exact osign_cancel hu hu' h
  · have h := hop k' (by simp) (by simp; omega)
    rw [sve3_eq] at h
    have hv : sv3 x [i', j', k', l'] = esign3 [i', j', k', l'] [i', j', l'] * flux3 x [i', j', l'] (x k') := by
      simp only [esign3, flux3, sv3, h1, if_false, if_true, vol6]; ring
    rw [hv]
    exact osign_cancel hu hu' h
  · have h := hop j' (by simp) (by simp; omega)
    rw [sve3_eq] at h
    have hv : sv3 x [i', j', k', l'] = esign3 [i', j', k', l'] [i', k', l'] * flux3 x [i', k', l'] (x j') := by
      simp only [esign3, flux3, sv3, h2, h3, if_false, if_true, vol6]; ring
    rw [hv]
    exact osign_cancel hu hu' h
  · have h := hop i' (by simp) (by simp; omega)
    rw [sve3_eq] at h
    have hv : sv3 x [i', j', k', l'] = esign3 [i', j', k', l'] [j', k', l'] * flux3 x [j', k', l'] (x i') := by
      simp only [esign3, flux3, sv3, h4, h5, h6, if_false, if_true, vol6]; ring
    rw [hv]
    exact osign_cancel hu hu' h

/-- (3) INTERIOR CANCELLATION, dimension 3, for every apex `p`. -/
theorem interior_cancellation_3d (x : Nat → α × α × α) (bad : List Simplex) (hN : bad.Nodup)
    (hS : ∀ t ∈ bad, t.length = 4 ∧ t.Pairwise (· < ·)) (hO : OppositeSides3 x bad) (p : α × α × α) :
    (bad.map (fun t => |sv3 x t|)).sum =
      ((hole 3 bad).map (fun e => osign (sv3 x (owner 3 bad e)) * sve3 x (owner 3 bad e) e p)).sum := by
  have h := cavity_abs_sum 3 bad (sv3 x) esign3 (fun e => flux3 x e p) hN
    (fun t ht => ((hS t ht).2.imp (fun hab => Nat.ne_of_lt hab))) hO.atMostTwo
    (fun t ht => by
      obtain ⟨i, j, k, l, rfl, hij, hjk, hkl⟩ := sorted4 (hS t ht)
      rw [sv3_split x hij hjk hkl p]
      simp only [sve3_eq])
    (opposite_weights_3d x hS hO)
  rw [h]
  simp only [sve3_eq]

/-- (4) STAR-SHAPED CAVITY ⇒ VOLUME CONSERVED, dimension 3. -/
theorem cavity_conserved_3d (x : Nat → α × α × α) (bad : List Simplex) (pt : Nat) (hN : bad.Nodup)
    (hS : ∀ t ∈ bad, t.length = 4 ∧ t.Pairwise (· < ·)) (hO : OppositeSides3 x bad)
    (hnd : ∀ t ∈ bad, sv3 x t ≠ 0)
    (hstar : ∀ e ∈ hole 3 bad, 0 ≤ osign (sv3 x (owner 3 bad e)) * sve3 x (owner 3 bad e) e (x pt)) :
    (bad.map (fun t => |sv3 x t|)).sum = ((hole 3 bad).map (fun e => |sv3 x (e ++ [pt])|)).sum := by
  have h := cavity_conserved 3 bad (sv3 x) esign3 (fun e => flux3 x e (x pt)) hN
    (fun t ht => ((hS t ht).2.imp (fun hab => Nat.ne_of_lt hab))) hO.atMostTwo
    (fun t ht => by
      obtain ⟨i, j, k, l, rfl, hij, hjk, hkl⟩ := sorted4 (hS t ht)
      rw [sv3_split x hij hjk hkl (x pt)]
      simp only [sve3_eq])
    (opposite_weights_3d x hS hO) hnd
    (fun t ht e he => by
      obtain ⟨i, j, k, l, rfl, hij, hjk, hkl⟩ := sorted4 (hS t ht)
      exact esign3_unit he)
    (fun e he => by simpa only [sve3_eq] using hstar e he)
  rw [h]
  apply sum_map_congr
  intro e he
  rw [sv3_append x (mem_hole he).2.1]

end dim3o

end Tri
