import AdaptiveProofs.Lemmas.L1DValid
import AdaptiveProofs.Lemmas.L1DSorted

/-!
# C11 for Learner1D — auxiliary lemmas

1. strictly sorted lists / sorted loss tables are determined by their members / their key→value map;
2. `dataGet` and permutations of the data dict;
3. the output bounding box is the componentwise min/max FOLD over the stored values (`BoxVals`), the
   fold is invariant under permutations, and `BoxVals` holds along valid histories;
4. `nn`, `dxEps` never change;
5. what a history of `tell` / `tell_many` operations leaves in `data` and `pending`;
6. congruence of `askLoop` / `askPoints` / `loss` in the fields they read.
-/
set_option linter.unusedSectionVars false
set_option linter.unusedVariables false

namespace L1D
variable {α : Type} [Field α] [LinearOrder α] [IsStrictOrderedRing α]

/-! ## 1. sorted lists and sorted tables -/

/-- two strictly increasing lists with the same members are equal -/
theorem sorted_ext {l₁ l₂ : List α} (h₁ : l₁.Pairwise (· < ·)) (h₂ : l₂.Pairwise (· < ·))
    (hm : ∀ x, x ∈ l₁ ↔ x ∈ l₂) : l₁ = l₂ := by
  have n₁ : l₁.Nodup := h₁.imp ne_of_lt
  have n₂ : l₂.Nodup := h₂.imp ne_of_lt
  exact List.Perm.eq_of_pairwise (le := (· < ·))
    (fun a b _ _ hab hba => absurd hab (lt_asymm hba)) h₁ h₂
    ((List.perm_ext_iff_of_nodup n₁ n₂).2 hm)

/-- association lists with duplicate-free keys: lookup by `find?` is membership -/
theorem find_fst_eq_some_iff {K V : Type} [DecidableEq K] {l : List (K × V)}
    (hn : (l.map Prod.fst).Nodup) (k : K) (v : V) :
    (l.find? (fun e => decide (e.1 = k))).map Prod.snd = some v ↔ (k, v) ∈ l := by
  induction l with
  | nil => simp
  | cons e r ih =>
    simp only [List.map_cons, List.nodup_cons] at hn
    by_cases he : e.1 = k
    · simp only [List.find?_cons, he, decide_true, Option.map_some, Option.some.injEq,
        List.mem_cons]
      constructor
      · intro h; left; rw [← he, ← h]
      · rintro (h | h)
        · rw [← h]
        · exfalso; apply hn.1; rw [he]; exact List.mem_map.2 ⟨(k, v), h, rfl⟩
    · simp only [List.find?_cons, he, decide_false, List.mem_cons]
      rw [ih hn.2]
      constructor
      · exact Or.inr
      · rintro (h | h)
        · exfalso; apply he; rw [← h]
        · exact h

theorem mem_iff_lget {T : List (Ival α × Loss α)} (hn : (tkeys T).Nodup) (iv : Ival α)
    (v : Loss α) : (iv, v) ∈ T ↔ lget iv T = some v :=
  (find_fst_eq_some_iff hn iv v).symm

/-- two tables in `ItemSortedDict` order (for the same x-scale) with duplicate-free keys and the
same key→value map are EQUAL AS LISTS -/
theorem table_ext (r12 : α → α) (sc : α) {T₁ T₂ : List (Ival α × Loss α)}
    (s₁ : SortedT r12 sc T₁) (s₂ : SortedT r12 sc T₂)
    (n₁ : (tkeys T₁).Nodup) (n₂ : (tkeys T₂).Nodup)
    (h : ∀ iv, lget iv T₁ = lget iv T₂) : T₁ = T₂ := by
  have hm : ∀ e, e ∈ T₁ ↔ e ∈ T₂ := by
    rintro ⟨iv, v⟩
    rw [mem_iff_lget n₁, mem_iff_lget n₂, h]
  refine List.Perm.eq_of_pairwise (le := fun a b => keyLt r12 sc a b = true) ?_ s₁ s₂
    ((List.perm_ext_iff_of_nodup (List.Nodup.of_map _ n₁) (List.Nodup.of_map _ n₂)).2 hm)
  intro a b _ _ hab hba
  have := keyLt_trans r12 hab hba
  rw [keyLt_irrefl] at this
  exact absurd this (by simp)

/-! ## 2. the data dict -/

theorem mem_iff_dataGet {d : List (α × List α)} (hn : (dkeys d).Nodup) (x : α) (y : List α) :
    (x, y) ∈ d ↔ dataGet d x = some y :=
  (find_fst_eq_some_iff hn x y).symm

/-- with duplicate-free keys `dataGet` does not depend on the order of the dict -/
theorem dataGet_perm {d d' : List (α × List α)} (hn : (dkeys d).Nodup) (hp : d.Perm d') (x : α) :
    dataGet d x = dataGet d' x := by
  have hn' : (dkeys d').Nodup := (hp.map Prod.fst).nodup_iff.1 hn
  apply Option.ext
  intro y
  rw [← mem_iff_dataGet hn, ← mem_iff_dataGet hn']
  exact hp.mem_iff

/-- two dicts with duplicate-free keys and the same `dataGet` are permutations of each other -/
theorem perm_of_dataGet_eq {d d' : List (α × List α)} (hn : (dkeys d).Nodup)
    (hn' : (dkeys d').Nodup) (h : ∀ x, dataGet d x = dataGet d' x) : d.Perm d' := by
  rw [List.perm_ext_iff_of_nodup (List.Nodup.of_map _ hn) (List.Nodup.of_map _ hn')]
  rintro ⟨x, y⟩
  rw [mem_iff_dataGet hn, mem_iff_dataGet hn', h]

theorem hasData_eq_of_dataGet {s s' : State α} (h : ∀ x, dataGet s'.data x = dataGet s.data x)
    (x : α) : hasData s' x = hasData s x := by
  unfold hasData; rw [h]

/-! ## 3. the output bounding box is a fold over the stored values -/

theorem ite_lt_eq_min (x y : α) : (if y < x then y else x) = min x y := by
  split
  · rename_i h; exact (min_eq_right (le_of_lt h)).symm
  · rename_i h; exact (min_eq_left (not_lt.1 h)).symm

theorem ite_lt_eq_max (x y : α) : (if x < y then y else x) = max x y := by
  split
  · rename_i h; exact (max_eq_right (le_of_lt h)).symm
  · rename_i h; exact (max_eq_left (not_lt.1 h)).symm

theorem minL_eq (a b : List α) : minL a b = List.zipWith min a b := by
  unfold minL
  congr 1
  funext x y
  exact ite_lt_eq_min x y

theorem maxL_eq (a b : List α) : maxL a b = List.zipWith max a b := by
  unfold maxL
  congr 1
  funext x y
  exact ite_lt_eq_max x y

section zip
variable {γ : Type} (f : γ → γ → γ)

theorem zipWith_self_idem (hi : ∀ x, f x x = x) : ∀ a : List γ, List.zipWith f a a = a
  | [] => rfl
  | x :: a => by rw [List.zipWith_cons_cons, hi, zipWith_self_idem hi a]

theorem zipWith_comm' (hc : ∀ x y, f x y = f y x) :
    ∀ a b : List γ, List.zipWith f a b = List.zipWith f b a
  | [], b => by simp
  | _ :: _, [] => by simp
  | x :: a, y :: b => by rw [List.zipWith_cons_cons, List.zipWith_cons_cons, hc, zipWith_comm' hc a b]

theorem zipWith_right_comm' (hr : ∀ x y z, f (f x y) z = f (f x z) y) :
    ∀ a b c : List γ, List.zipWith f (List.zipWith f a b) c = List.zipWith f (List.zipWith f a c) b
  | [], _, _ => by simp
  | _ :: _, [], c => by simp
  | _ :: _, _ :: _, [] => by simp
  | x :: a, y :: b, z :: c => by
    simp only [List.zipWith_cons_cons]
    rw [hr, zipWith_right_comm' hr a b c]

theorem zipWith_absorb' (ha : ∀ x y, f (f x y) y = f x y) :
    ∀ a b : List γ, List.zipWith f (List.zipWith f a b) b = List.zipWith f a b
  | [], _ => by simp
  | _ :: _, [] => by simp
  | x :: a, y :: b => by
    simp only [List.zipWith_cons_cons]
    rw [ha, zipWith_absorb' ha a b]

end zip

/-- a fold with a right-commutative, absorbing operation does not change when an element of the
list is merged into the start value -/
theorem foldl_absorb {γ : Type} (f : γ → γ → γ) (hr : ∀ x y z, f (f x y) z = f (f x z) y)
    (ha : ∀ x y, f (f x y) y = f x y) {l : List γ} {w : γ} (hw : w ∈ l) (a : γ) :
    l.foldl f (f a w) = l.foldl f a := by
  classical
  have hp : l.Perm (w :: l.erase w) := List.perm_cons_erase hw
  rw [hp.foldl_eq' (fun x _ y _ z => hr z x y) (f a w), hp.foldl_eq' (fun x _ y _ z => hr z x y) a]
  simp only [List.foldl_cons]
  rw [ha]

/-- the fold "start with the head, merge everything in" does not depend on the order of the list -/
theorem foldl_head_perm {γ : Type} (f : γ → γ → γ) (hc : ∀ x y, f x y = f y x)
    (hr : ∀ x y z, f (f x y) z = f (f x z) y) (ha : ∀ x y, f (f x y) y = f x y)
    {a b : γ} {r r' : List γ} (hp : (a :: r).Perm (b :: r')) :
    (a :: r).foldl f a = (b :: r').foldl f b := by
  have hb : b ∈ a :: r := hp.symm.subset (List.mem_cons_self ..)
  have haa : a ∈ a :: r := List.mem_cons_self ..
  rw [← hp.foldl_eq' (fun x _ y _ z => hr z x y) b, ← foldl_absorb f hr ha hb a,
    ← foldl_absorb f hr ha haa b, hc a b]

/-- the bounding box of a list of values: `none` for no value, else the componentwise min / max
folds started with the first value (what `_update_scale` accumulates, and what the batch path of
`tell_many` computes from scratch) -/
def boxOf (vals : List (List α)) : Option (List α × List α) :=
  match vals with
  | [] => none
  | v :: _ => some (vals.foldl minL v, vals.foldl maxL v)

theorem minL_self (y : List α) : minL y y = y := by
  rw [minL_eq]; exact zipWith_self_idem min min_self y

theorem maxL_self (y : List α) : maxL y y = y := by
  rw [maxL_eq]; exact zipWith_self_idem max max_self y

theorem minL_fun_eq : (minL : List α → List α → List α) = List.zipWith min := by
  funext a b; exact minL_eq a b

theorem maxL_fun_eq : (maxL : List α → List α → List α) = List.zipWith max := by
  funext a b; exact maxL_eq a b

/-- C(iii), list level: the box does not depend on the order of the values -/
theorem boxOf_perm {v₁ v₂ : List (List α)} (hp : v₁.Perm v₂) : boxOf v₁ = boxOf v₂ := by
  cases v₁ with
  | nil => rw [hp.symm.eq_nil]
  | cons a r =>
    cases v₂ with
    | nil => exact absurd hp.eq_nil (by simp)
    | cons b r' =>
      unfold boxOf
      dsimp only
      rw [minL_fun_eq, maxL_fun_eq]
      have h1 := foldl_head_perm (List.zipWith (min : α → α → α))
        (zipWith_comm' min min_comm)
        (zipWith_right_comm' min (fun x y z => min_right_comm x y z))
        (zipWith_absorb' min (fun x y => by rw [min_assoc, min_self])) hp
      have h2 := foldl_head_perm (List.zipWith (max : α → α → α))
        (zipWith_comm' max max_comm)
        (zipWith_right_comm' max (fun x y z => max_right_comm x y z))
        (zipWith_absorb' max (fun x y => by rw [max_assoc, max_self])) hp
      rw [h1, h2]

/-- the stored bounding box is the box of the stored values -/
def BoxVals (s : State α) : Prop := s.bboxY = boxOf (s.data.map Prod.snd)


section boxvals
variable (lossFn : List (Option α) → List (Option (List α)) → Loss α) (r12 : α → α)

theorem sviewProp_boxVals : SViewProp (BoxVals (α := α)) := by
  intro s s' h hs
  simp only [sview, Prod.mk.injEq] at h
  obtain ⟨-, h2, h3, -, -⟩ := h
  unfold BoxVals
  rw [h2, h3]; exact hs

theorem fireProp_boxVals : FireProp (BoxVals (α := α)) := fun _ hu _ => hu

theorem boxVals_init (lo hi factor dxEps : α) (nn : Nat) : BoxVals (init lo hi factor dxEps nn) := rfl

theorem boxVals_tellPre {s : State α} (h : BoxVals s) (x : α) (y : List α) :
    BoxVals (tellPre s x y) := by
  unfold BoxVals at h ⊢
  have hd : (tellPre s x y).data = s.data ++ [(x, y)] := rfl
  have hb : (tellPre s x y).bboxY = some (match s.bboxY with
    | none => (y, y)
    | some (mn, mx) => (minL mn y, maxL mx y)) := rfl
  rw [hd, hb, h, List.map_append]
  cases hv : s.data.map Prod.snd with
  | nil =>
    simp only [boxOf, List.map_cons, List.map_nil, List.nil_append, List.foldl_cons, List.foldl_nil,
      minL_self, maxL_self]
  | cons v r =>
    simp only [boxOf, List.map_cons, List.map_nil, List.cons_append, List.foldl_cons,
      List.foldl_append, List.foldl_nil]

theorem boxVals_batchBase (s : State α) (pts : List (α × List α))
    (hne : (batchBase s pts).data ≠ []) : BoxVals (batchBase s pts) := by
  unfold BoxVals
  have hb : (batchBase s pts).bboxY =
      some (((batchBase s pts).data.map Prod.snd).foldl minL (((batchBase s pts).data.map Prod.snd).headD []),
        ((batchBase s pts).data.map Prod.snd).foldl maxL (((batchBase s pts).data.map Prod.snd).headD [])) := rfl
  rw [hb]
  cases hv : (batchBase s pts).data.map Prod.snd with
  | nil => exact absurd (List.map_eq_nil_iff.1 hv) hne
  | cons v r => rfl

theorem foldl_dataSet_ne_nil_oi (pts : List (α × List α)) (d : List (α × List α))
    (h : pts ≠ [] ∨ d ≠ []) : pts.foldl (fun d kv => dataSet d kv.1 kv.2) d ≠ [] := by
  induction pts generalizing d with
  | nil =>
    rcases h with h | h
    · exact absurd rfl h
    · exact h
  | cons p r ih =>
    rw [List.foldl_cons]
    apply ih
    right
    unfold dataSet
    split
    · rename_i hs
      intro hd; rw [hd] at hs; simp [dataGet] at hs
    · simp

theorem boxVals_tellMany {s : State α} (h : BoxVals s) {pts : List (α × List α)} {force : Bool}
    (hv : ValidOp s (.tellMany pts force)) : BoxVals (tellMany lossFn r12 s pts force) := by
  obtain ⟨_, hbatch⟩ := hv
  unfold tellMany
  split
  · exact foldl_tell_preserves lossFn r12 sviewProp_boxVals fireProp_boxVals pts
      (fun s' hs' kv _ => boxVals_tellPre hs' kv.1 kv.2) h
  · rename_i hc
    have hcond : force = true ∨ (s.data.length < 2 * pts.length ∧ 2 < pts.length) := by
      cases force with
      | true => exact Or.inl rfl
      | false => right; simpa using hc
    exact sviewProp_boxVals _ _ (sview_of_core (core_tellManyBatch lossFn r12 s pts))
      (boxVals_batchBase s pts (foldl_dataSet_ne_nil_oi pts s.data (Or.inl (hbatch hcond))))

theorem boxVals_step {s : State α} (h : BoxVals s) {op : Op α} (hv : ValidOp s op) :
    BoxVals (step lossFn r12 s op) := by
  cases op with
  | tell x y =>
    exact tell_preserves lossFn r12 sviewProp_boxVals fireProp_boxVals h (boxVals_tellPre h x y)
  | tellPending x => exact sviewProp_boxVals _ _ (sview_tellPending lossFn r12 s x) h
  | tellMany pts f => exact boxVals_tellMany lossFn r12 h hv
  | removeUnfinished => exact sviewProp_boxVals _ _ (sview_removeUnfinished s) h
  | ask n c => exact sviewProp_boxVals _ _ (sview_ask lossFn r12 s n c) h

theorem boxVals_run_of : ∀ (ops : List (Op α)) (s : State α), BoxVals s →
    ValidOps lossFn r12 s ops → BoxVals (run lossFn r12 s ops)
  | [], _, h, _ => h
  | op :: ops, s, h, hv =>
    boxVals_run_of ops (step lossFn r12 s op) (boxVals_step lossFn r12 h hv.1) hv.2

/-- along every valid history the output bounding box is the min/max fold over the stored values -/
theorem boxVals_run (lo hi factor dxEps : α) (nn : Nat) (ops : List (Op α))
    (hv : ValidOps lossFn r12 (init lo hi factor dxEps nn) ops) :
    BoxVals (run lossFn r12 (init lo hi factor dxEps nn) ops) :=
  boxVals_run_of lossFn r12 ops _ (boxVals_init lo hi factor dxEps nn) hv

/-! ## 4. `nn`, `dxEps` never change -/

/-- `(nn, dxEps)` -/
def kview (s : State α) : Nat × α := (s.nn, s.dxEps)

theorem kview_of_core {s s' : State α} (h : core s' = core s) : kview s' = kview s := by
  show kview (core s') = kview (core s)
  rw [h]

theorem kview_maybeRescale (s : State α) : kview (maybeRescale lossFn r12 s) = kview s := by
  have hc := core_maybeRescale lossFn r12 s
  split at hc
  · exact (kview_of_core hc).trans rfl
  · exact kview_of_core hc

theorem kview_tell (s : State α) (x : α) (y : List α) :
    kview (tell lossFn r12 s x y) = kview s := by
  rw [tell_eq]
  split
  · rfl
  · rw [kview_maybeRescale, kview_of_core (core_updateLosses lossFn r12 _ _ _)]; rfl

theorem kview_tellPending (s : State α) (x : α) :
    kview (tellPending lossFn r12 s x) = kview s := by
  have hc := core_tellPending lossFn r12 s x
  split at hc
  · exact kview_of_core hc
  · exact (kview_of_core hc).trans rfl

theorem kview_foldl {β : Type} (F : State α → β → State α) (hF : ∀ s b, kview (F s b) = kview s)
    (l : List β) (s : State α) : kview (l.foldl F s) = kview s := by
  induction l generalizing s with
  | nil => rfl
  | cons b bs ih => rw [List.foldl_cons, ih, hF]

theorem kview_step (s : State α) (op : Op α) : kview (step lossFn r12 s op) = kview s := by
  cases op with
  | tell x y => exact kview_tell lossFn r12 s x y
  | tellPending x => exact kview_tellPending lossFn r12 s x
  | tellMany pts f =>
    show kview (tellMany lossFn r12 s pts f) = _
    unfold tellMany
    split
    · exact kview_foldl _ (fun s kv => kview_tell lossFn r12 s _ _) _ _
    · exact (kview_of_core (core_tellManyBatch lossFn r12 s pts)).trans rfl
  | removeUnfinished => rfl
  | ask n c =>
    show kview (ask lossFn r12 s n c).2 = _
    unfold ask
    dsimp only
    split
    · exact kview_foldl _ (fun s x => kview_tellPending lossFn r12 s x) _ _
    · rfl

theorem run_nn (s : State α) (ops : List (Op α)) : (run lossFn r12 s ops).nn = s.nn :=
  congrArg Prod.fst (kview_foldl _ (kview_step lossFn r12) ops s)

theorem run_dxEps (s : State α) (ops : List (Op α)) : (run lossFn r12 s ops).dxEps = s.dxEps :=
  congrArg Prod.snd (kview_foldl _ (kview_step lossFn r12) ops s)

/-! ## 5. `data` and `pending` after a history of `tell` / `tell_many` -/

/-- `(data, pending)` -/
def dview (s : State α) : List (α × List α) × List α := (s.data, s.pending)

theorem dview_of_core {s s' : State α} (h : core s' = core s) : dview s' = dview s := by
  show dview (core s') = dview (core s)
  rw [h]

theorem dview_maybeRescale (s : State α) : dview (maybeRescale lossFn r12 s) = dview s := by
  have hc := core_maybeRescale lossFn r12 s
  split at hc
  · exact (dview_of_core hc).trans rfl
  · exact dview_of_core hc

theorem dview_tell (s : State α) (x : α) (y : List α) :
    dview (tell lossFn r12 s x y) =
      (dataSet s.data x y, if hasData s x then s.pending else s.pending.erase x) := by
  rw [tell_eq]
  unfold dataSet
  by_cases h : hasData s x = true
  · have h' : (dataGet s.data x).isSome = true := h
    rw [if_pos h, if_pos h, if_pos h']; rfl
  · have h' : ¬ (dataGet s.data x).isSome = true := h
    rw [if_neg h, if_neg h, if_neg h', dview_maybeRescale,
      dview_of_core (core_updateLosses lossFn r12 _ _ _)]
    rfl

/-- the told pairs of a list of operations, in order -/
def toldOf (ops : List (Op α)) : List (α × List α) := ops.flatMap tellsOf

/-- the operation is a `tell` or a `tell_many` -/
def IsTell : Op α → Prop
  | .tell _ _ => True
  | .tellMany _ _ => True
  | _ => False

theorem dview_foldl_tell (pts : List (α × List α)) (s : State α) (hp : s.pending = []) :
    dview (pts.foldl (fun s kv => tell lossFn r12 s kv.1 kv.2) s) =
      (pts.foldl (fun d kv => dataSet d kv.1 kv.2) s.data, []) := by
  induction pts generalizing s with
  | nil => show (s.data, s.pending) = _; rw [hp]; rfl
  | cons p r ih =>
    have h1 := dview_tell lossFn r12 s p.1 p.2
    have hp' : (tell lossFn r12 s p.1 p.2).pending = [] := by
      have := congrArg Prod.snd h1
      simp only [dview, hp, List.erase_nil, ite_self] at this
      exact this
    rw [List.foldl_cons, ih _ hp', List.foldl_cons]
    have hd : (tell lossFn r12 s p.1 p.2).data = dataSet s.data p.1 p.2 := congrArg Prod.fst h1
    rw [hd]

theorem dview_tellMany (s : State α) (pts : List (α × List α)) (f : Bool) (hp : s.pending = []) :
    dview (tellMany lossFn r12 s pts f) =
      (pts.foldl (fun d kv => dataSet d kv.1 kv.2) s.data, []) := by
  unfold tellMany
  split
  · exact dview_foldl_tell lossFn r12 pts s hp
  · rw [dview_of_core (core_tellManyBatch lossFn r12 s pts)]
    show ((batchBase s pts).data, (batchBase s pts).pending) = _
    have : (batchBase s pts).pending =
        s.pending.filter (fun p => !(pts.any (fun kv => decide (kv.1 = p)))) := rfl
    rw [this, hp]; rfl

/-- after a history consisting of `tell` / `tell_many` operations only (started with nothing
pending) the dict holds the told pairs in arrival order, first value per abscissa, and nothing is
pending -/
theorem dview_run_tells : ∀ (ops : List (Op α)) (s : State α), s.pending = [] →
    (∀ op ∈ ops, IsTell op) →
    dview (run lossFn r12 s ops) =
      ((toldOf ops).foldl (fun d kv => dataSet d kv.1 kv.2) s.data, [])
  | [], s, hp, _ => by show (s.data, s.pending) = _; rw [hp]; rfl
  | op :: ops, s, hp, ht => by
    have h1 : dview (step lossFn r12 s op) =
        ((tellsOf op).foldl (fun d kv => dataSet d kv.1 kv.2) s.data, []) := by
      cases op with
      | tell x y =>
        have := dview_foldl_tell lossFn r12 [(x, y)] s hp
        exact this
      | tellMany pts f => exact dview_tellMany lossFn r12 s pts f hp
      | tellPending x => exact absurd (ht _ (List.mem_cons_self ..)) (by simp [IsTell])
      | removeUnfinished => exact absurd (ht _ (List.mem_cons_self ..)) (by simp [IsTell])
      | ask n c => exact absurd (ht _ (List.mem_cons_self ..)) (by simp [IsTell])
    have ih := dview_run_tells ops (step lossFn r12 s op) (congrArg Prod.snd h1)
      (fun o ho => ht o (List.mem_cons_of_mem _ ho))
    have hd : (step lossFn r12 s op).data =
        (tellsOf op).foldl (fun d kv => dataSet d kv.1 kv.2) s.data := congrArg Prod.fst h1
    show dview (run lossFn r12 (step lossFn r12 s op) ops) = _
    rw [ih, hd]
    simp only [toldOf, List.flatMap_cons, List.foldl_append]

/-- pairs with pairwise distinct abscissae, none of them known: `data.update` appends them all -/
theorem foldl_dataSet_of_nodup (pts : List (α × List α)) (d : List (α × List α))
    (h : (dkeys (d ++ pts)).Nodup) :
    pts.foldl (fun d kv => dataSet d kv.1 kv.2) d = d ++ pts := by
  induction pts generalizing d with
  | nil => simp
  | cons p r ih =>
    have hp : p.1 ∉ dkeys d := by
      simp only [dkeys, List.map_append, List.map_cons] at h
      have := (List.nodup_append.1 h).2.2
      intro hm
      exact this p.1 hm p.1 (List.mem_cons_self ..) rfl
    have e : dataSet d p.1 p.2 = d ++ [p] := by
      unfold dataSet
      rw [if_neg (fun hs => hp (dataGet_isSome.1 hs))]
    rw [List.foldl_cons, e, ih]
    · simp
    · simpa using h

end boxvals

/-! ## 6. congruence of `ask` and `loss` -/

theorem ivalGeQual_congr (r12 : α → α) {s s' : State α} (h2 : s'.scaleX = s.scaleX)
    (e : Ival α × Loss α) (q : Qual α) : ivalGeQual r12 s' e q = ivalGeQual r12 s e q := by
  unfold ivalGeQual
  rw [h2]

theorem askLoop_congr (r12 : α → α) {s s' : State α} (h1 : s'.lossesC = s.lossesC)
    (h2 : s'.scaleX = s.scaleX) :
    ∀ (k i : Nat) (q : List (Qual α)), askLoop r12 s' k i q = askLoop r12 s k i q := by
  intro k
  induction k with
  | zero => intro i q; rfl
  | succ k ih =>
    intro i q
    simp only [askLoop, h1, h2, ih, ivalGeQual_congr r12 h2]

theorem minOfL_perm {l l' : List α} (hp : l.Perm l') : minOfL l = minOfL l' := by
  cases l with
  | nil => rw [hp.symm.eq_nil]
  | cons a r =>
    have hne : a :: r ≠ [] := by simp
    have hne' : l' ≠ [] := fun h => hne (by rw [h] at hp; exact hp.eq_nil)
    obtain ⟨m1, m2⟩ := minOfL_spec hne
    obtain ⟨n1, n2⟩ := minOfL_spec hne'
    exact le_antisymm (m2 _ (hp.symm.subset n1)) (n2 _ (hp.subset m1))

theorem maxOfL_perm {l l' : List α} (hp : l.Perm l') : maxOfL l = maxOfL l' := by
  cases l with
  | nil => rw [hp.symm.eq_nil]
  | cons a r =>
    have hne : a :: r ≠ [] := by simp
    have hne' : l' ≠ [] := fun h => hne (by rw [h] at hp; exact hp.eq_nil)
    obtain ⟨m1, m2⟩ := maxOfL_spec hne
    obtain ⟨n1, n2⟩ := maxOfL_spec hne'
    exact le_antisymm (n2 _ (hp.subset m1)) (m2 _ (hp.symm.subset n1))

/-- `_ask_points_without_adding` only reads the domain, the missing bounds, the number and the
extreme abscissae of the known points, `scaleX` and the combined loss table -/
theorem askPoints_congr (r12 : α → α) {s s' : State α} (hlo : s'.lo = s.lo) (hhi : s'.hi = s.hi)
    (hmb : missingBounds s' = missingBounds s)
    (hlen : s'.data.length + s'.pending.length = s.data.length + s.pending.length)
    (hmin : minOfL (s'.data.map Prod.fst ++ s'.pending) = minOfL (s.data.map Prod.fst ++ s.pending))
    (hmax : maxOfL (s'.data.map Prod.fst ++ s'.pending) = maxOfL (s.data.map Prod.fst ++ s.pending))
    (h1 : s'.lossesC = s.lossesC) (h2 : s'.scaleX = s.scaleX) (n : Nat) :
    askPoints r12 s' n = askPoints r12 s n := by
  have hl : askLoop r12 s' = askLoop r12 s := by
    funext k i q; exact askLoop_congr r12 h1 h2 k i q
  unfold askPoints
  simp only [hlo, hhi, hmb, hlen, hmin, hmax, h2, hl]

theorem missingBounds_congr {s s' : State α} (hlo : s'.lo = s.lo) (hhi : s'.hi = s.hi)
    (hd : ∀ x, dataGet s'.data x = dataGet s.data x) (hp : ∀ x, x ∈ s'.pending ↔ x ∈ s.pending) :
    missingBounds s' = missingBounds s := by
  unfold missingBounds
  rw [hlo, hhi]
  apply List.filter_congr
  intro b _
  rw [hasData_eq_of_dataGet hd b]
  congr 2
  rw [Bool.eq_iff_iff, List.contains_iff_mem, List.contains_iff_mem]
  exact hp b

theorem loss_congr {s s' : State α} (hmb : missingBounds s' = missingBounds s)
    (h1 : s'.losses = s.losses) (h2 : s'.lossesC = s.lossesC) (real : Bool) :
    loss s' real = loss s real := by
  unfold loss
  rw [hmb, h1, h2]

end L1D
