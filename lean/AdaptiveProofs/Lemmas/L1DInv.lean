import AdaptiveProofs.Lemmas.L1DInvLists

/-! The structural invariant `Inv` of the Learner1D model holds in every reachable state. -/
set_option linter.unusedSectionVars false

namespace L1D
variable {α : Type} [Field α] [LinearOrder α] [IsStrictOrderedRing α]
variable (lossFn : List (Option α) → List (Option (List α)) → Loss α) (r12 : α → α)

/-! ### splitting `Inv` into a point part and a table part -/

/-- keys of the data dict -/
def dkeys (d : List (α × List α)) : List α := d.map Prod.fst

theorem dataGet_isSome {d : List (α × List α)} {x : α} :
    (dataGet d x).isSome = true ↔ x ∈ dkeys d := by
  simp only [dataGet, Option.isSome_map, List.find?_isSome, decide_eq_true_eq, dkeys,
    List.mem_map]

theorem hasData_iff {s : State α} {x : α} : hasData s x = true ↔ x ∈ dkeys s.data := by
  unfold hasData; exact dataGet_isSome

theorem hasData_false_iff {s : State α} {x : α} : hasData s x = false ↔ x ∉ dkeys s.data := by
  rw [← hasData_iff]; simp

/-- the part of `Inv` about the points -/
structure PInv (xs xsC : List α) (data : List (α × List α)) (pending : List α) : Prop where
  xs_sorted : xs.Pairwise (· < ·)
  xsC_sorted : xsC.Pairwise (· < ·)
  xs_mem : ∀ x, x ∈ xs ↔ x ∈ dkeys data
  xsC_mem : ∀ x, x ∈ xsC ↔ (x ∈ dkeys data ∨ x ∈ pending)
  pend_nodata : ∀ x ∈ pending, x ∉ dkeys data
  pend_nodup : pending.Nodup
  data_nodup : (dkeys data).Nodup

/-- the part of `Inv` about the loss tables -/
structure TInv (xs xsC : List α) (losses lossesC : List (Ival α × Loss α)) : Prop where
  losses_keys : ∀ iv, iv ∈ tkeys losses ↔ iv ∈ pairs xs
  lossesC_keys : ∀ iv, iv ∈ tkeys lossesC ↔ iv ∈ pairs xsC
  losses_nodup : (tkeys losses).Nodup
  lossesC_nodup : (tkeys lossesC).Nodup

theorem inv_iff {s : State α} :
    Inv s ↔ PInv s.xs s.xsC s.data s.pending ∧ TInv s.xs s.xsC s.losses s.lossesC := by
  constructor
  · intro h
    refine ⟨⟨h.xs_sorted, h.xsC_sorted, ?_, ?_, ?_, h.pend_nodup, h.data_nodup⟩,
      ⟨h.losses_keys, h.lossesC_keys, h.losses_nodup, h.lossesC_nodup⟩⟩
    · intro x; rw [h.xs_mem, hasData_iff]
    · intro x; rw [h.xsC_mem, hasData_iff]
    · intro x hx; exact hasData_false_iff.1 (h.pend_nodata x hx)
  · rintro ⟨p, t⟩
    refine ⟨p.xs_sorted, p.xsC_sorted, ?_, ?_, ?_, p.pend_nodup, p.data_nodup,
      t.losses_keys, t.lossesC_keys, t.losses_nodup, t.lossesC_nodup⟩
    · intro x; rw [p.xs_mem, hasData_iff]
    · intro x; rw [p.xsC_mem, hasData_iff]
    · intro x hx; exact hasData_false_iff.2 (p.pend_nodata x hx)

theorem PInv.sub {xs xsC : List α} {data : List (α × List α)} {pending : List α}
    (p : PInv xs xsC data pending) : ∀ z ∈ xs, z ∈ xsC :=
  fun z hz => (p.xsC_mem z).2 (Or.inl ((p.xs_mem z).1 hz))

/-- `s'` has the same points as `s` -/
def Same (s s' : State α) : Prop :=
  s'.xs = s.xs ∧ s'.xsC = s.xsC ∧ s'.data = s.data ∧ s'.pending = s.pending

theorem Same.refl (s : State α) : Same s s := ⟨rfl, rfl, rfl, rfl⟩

theorem Same.trans {s t u : State α} (h1 : Same s t) (h2 : Same t u) : Same s u :=
  ⟨h2.1.trans h1.1, h2.2.1.trans h1.2.1, h2.2.2.1.trans h1.2.2.1, h2.2.2.2.trans h1.2.2.2⟩

/-- nodup part of the tables -/
def NodupT (s : State α) : Prop := (tkeys s.losses).Nodup ∧ (tkeys s.lossesC).Nodup

/-! ### `updInterp` and its folds -/

theorem same_updInterp (s : State α) (p q : α) : Same s (updInterp lossFn r12 s p q) :=
  ⟨rfl, rfl, rfl, rfl⟩

theorem mem_tkeys_updInterp_losses {s : State α} {p q : α} {k : Ival α} :
    k ∈ tkeys (updInterp lossFn r12 s p q).losses ↔ k = (p, q) ∨ k ∈ tkeys s.losses := by
  simp only [updInterp, mem_tkeys_lset]

theorem mem_tkeys_updInterp_lossesC {s : State α} {p q : α} {k : Ival α} :
    k ∈ tkeys (updInterp lossFn r12 s p q).lossesC ↔
      k ∈ pairs (between p q s.xsC) ∨ k ∈ tkeys s.lossesC := by
  simp only [updInterp]
  rw [mem_tkeys_foldl_lset r12 s.lossScale _ (fun ab => ab)]
  simp only [exists_eq_right', between]

theorem nodupT_updInterp {s : State α} {p q : α} (h : NodupT s) :
    NodupT (updInterp lossFn r12 s p q) := by
  refine ⟨?_, ?_⟩
  · simp only [updInterp]; exact nodup_tkeys_lset r12 _ h.1
  · simp only [updInterp]
    exact nodup_tkeys_foldl_lset r12 s.lossScale _ (fun ab => ab) _ _ h.2

/-- fold of `updInterp` over a list of intervals -/
def foldUpd (s : State α) (ivs : List (Ival α)) : State α :=
  ivs.foldl (fun s iv => updInterp lossFn r12 s iv.1 iv.2) s

theorem same_foldUpd (s : State α) (ivs : List (Ival α)) : Same s (foldUpd lossFn r12 s ivs) := by
  induction ivs generalizing s with
  | nil => exact Same.refl s
  | cons iv ivs ih => exact (same_updInterp lossFn r12 s iv.1 iv.2).trans (ih _)

theorem nodupT_foldUpd {s : State α} (ivs : List (Ival α)) (h : NodupT s) :
    NodupT (foldUpd lossFn r12 s ivs) := by
  induction ivs generalizing s with
  | nil => exact h
  | cons iv ivs ih => exact ih (nodupT_updInterp lossFn r12 h)

theorem mem_tkeys_foldUpd_losses {s : State α} {ivs : List (Ival α)} {k : Ival α} :
    k ∈ tkeys (foldUpd lossFn r12 s ivs).losses ↔ k ∈ ivs ∨ k ∈ tkeys s.losses := by
  induction ivs generalizing s with
  | nil => simp [foldUpd]
  | cons iv ivs ih =>
    have := @ih (updInterp lossFn r12 s iv.1 iv.2)
    simp only [foldUpd, List.foldl_cons] at this ⊢
    rw [this, mem_tkeys_updInterp_losses, List.mem_cons]
    tauto

theorem mem_tkeys_foldUpd_lossesC {s : State α} {ivs : List (Ival α)} {k : Ival α} :
    k ∈ tkeys (foldUpd lossFn r12 s ivs).lossesC ↔
      (∃ pq ∈ ivs, k ∈ pairs (between pq.1 pq.2 s.xsC)) ∨ k ∈ tkeys s.lossesC := by
  induction ivs generalizing s with
  | nil => simp [foldUpd]
  | cons iv ivs ih =>
    have := @ih (updInterp lossFn r12 s iv.1 iv.2)
    simp only [foldUpd, List.foldl_cons] at this ⊢
    rw [this, mem_tkeys_updInterp_lossesC, List.exists_mem_cons_iff]
    have e : (updInterp lossFn r12 s iv.1 iv.2).xsC = s.xsC := rfl
    rw [e]
    constructor
    · rintro (h | h | h)
      · exact Or.inl (Or.inr h)
      · exact Or.inl (Or.inl h)
      · exact Or.inr h
    · rintro ((h | h) | h)
      · exact Or.inr (Or.inl h)
      · exact Or.inl h
      · exact Or.inr (Or.inr h)

/-! ### the stages of `updateLosses` -/

/-- erase the combined interval that `x` splits -/
def ulErase (s : State α) (a b : Option α) : State α :=
  match a, b with
  | some a, some b => { s with lossesC := lerase (a, b) s.lossesC }
  | _, _ => s

/-- erase the real interval that `x` splits (from both tables) -/
def ulErase2 (s : State α) (xl xr : Option α) : State α :=
  match xl, xr with
  | some xl, some xr =>
    { s with losses := lerase (xl, xr) s.losses, lossesC := lerase (xl, xr) s.lossesC }
  | _, _ => s

/-- the `real = False` branch: interpolate the loss of the two halves -/
def ulPend (s : State α) (x : α) (xl xr a b : Option α) : State α :=
  match xl, xr, a, b with
  | some xl, some xr, some a, some b =>
    let dx := xr - xl
    let loss := (lget (xl, xr) s.losses).getD .inf
    let lc := lset r12 s.lossScale (a, x) (Loss.mulDiv (x - a) loss dx) s.lossesC
    let lc := lset r12 s.lossScale (x, b) (Loss.mulDiv (b - x) loss dx) lc
    { s with lossesC := lc }
  | _, _, _, _ => s

def ulLeft (s : State α) (x : α) (a : Option α) (unknown : Bool) : State α :=
  match a with
  | some a => if unknown then { s with lossesC := lset r12 s.lossScale (a, x) .inf s.lossesC } else s
  | none => s

def ulRight (s : State α) (x : α) (b : Option α) (unknown : Bool) : State α :=
  match b with
  | some b => if unknown then { s with lossesC := lset r12 s.lossScale (x, b) .inf s.lossesC } else s
  | none => s

theorem updateLosses_true_eq (s : State α) (x : α) :
    updateLosses lossFn r12 s x true =
      ulRight r12
        (ulLeft r12
          (ulErase2
            (foldUpd lossFn r12 (ulErase s (leftOf x s.xsC) (rightOf x s.xsC))
              (getIntervals (ulErase s (leftOf x s.xsC) (rightOf x s.xsC)) x))
            (leftOf x s.xs) (rightOf x s.xs))
          x (leftOf x s.xsC) ((leftOf x s.xs).isNone || (!true && (rightOf x s.xs).isNone)))
        x (rightOf x s.xsC) ((rightOf x s.xs).isNone || (!true && (leftOf x s.xs).isNone)) := by
  rfl

theorem updateLosses_false_eq (s : State α) (x : α) :
    updateLosses lossFn r12 s x false =
      ulRight r12
        (ulLeft r12
          (ulPend r12 (ulErase s (leftOf x s.xsC) (rightOf x s.xsC)) x
            (leftOf x s.xs) (rightOf x s.xs) (leftOf x s.xsC) (rightOf x s.xsC))
          x (leftOf x s.xsC) ((leftOf x s.xs).isNone || (!false && (rightOf x s.xs).isNone)))
        x (rightOf x s.xsC) ((rightOf x s.xs).isNone || (!false && (leftOf x s.xs).isNone)) := by
  rfl

/-! #### `ulErase` -/
theorem same_ulErase (s : State α) (a b : Option α) : Same s (ulErase s a b) := by
  unfold ulErase; split <;> exact ⟨rfl, rfl, rfl, rfl⟩

theorem ulErase_losses (s : State α) (a b : Option α) : (ulErase s a b).losses = s.losses := by
  unfold ulErase; split <;> rfl

theorem ulErase_nn (s : State α) (a b : Option α) : (ulErase s a b).nn = s.nn := by
  unfold ulErase; split <;> rfl

theorem mem_tkeys_ulErase {s : State α} {a b : Option α} {k : Ival α} :
    k ∈ tkeys (ulErase s a b).lossesC ↔
      k ∈ tkeys s.lossesC ∧ ¬(a = some k.1 ∧ b = some k.2) := by
  obtain ⟨u, v⟩ := k
  unfold ulErase
  split
  · simp only [mem_tkeys_lerase, ne_eq, Prod.mk.injEq, Option.some.injEq]
    constructor
    · rintro ⟨h1, h2⟩; exact ⟨h1, fun h => h2 ⟨h.1.symm, h.2.symm⟩⟩
    · rintro ⟨h1, h2⟩; exact ⟨h1, fun h => h2 ⟨h.1.symm, h.2.symm⟩⟩
  · rename_i hn
    constructor
    · intro h
      refine ⟨h, ?_⟩
      rintro ⟨rfl, rfl⟩
      exact hn _ _ rfl rfl
    · exact fun h => h.1

theorem nodupT_ulErase {s : State α} {a b : Option α} (h : NodupT s) : NodupT (ulErase s a b) := by
  unfold ulErase; split
  · exact ⟨h.1, nodup_tkeys_lerase h.2⟩
  · exact h

/-! #### `ulErase2` -/
theorem same_ulErase2 (s : State α) (a b : Option α) : Same s (ulErase2 s a b) := by
  unfold ulErase2; split <;> exact ⟨rfl, rfl, rfl, rfl⟩

theorem mem_tkeys_ulErase2_losses {s : State α} {a b : Option α} {k : Ival α} :
    k ∈ tkeys (ulErase2 s a b).losses ↔
      k ∈ tkeys s.losses ∧ ¬(a = some k.1 ∧ b = some k.2) := by
  obtain ⟨u, v⟩ := k
  unfold ulErase2
  split
  · simp only [mem_tkeys_lerase, ne_eq, Prod.mk.injEq, Option.some.injEq]
    constructor
    · rintro ⟨h1, h2⟩; exact ⟨h1, fun h => h2 ⟨h.1.symm, h.2.symm⟩⟩
    · rintro ⟨h1, h2⟩; exact ⟨h1, fun h => h2 ⟨h.1.symm, h.2.symm⟩⟩
  · rename_i hn
    constructor
    · intro h
      refine ⟨h, ?_⟩
      rintro ⟨rfl, rfl⟩
      exact hn _ _ rfl rfl
    · exact fun h => h.1

theorem mem_tkeys_ulErase2_lossesC {s : State α} {a b : Option α} {k : Ival α} :
    k ∈ tkeys (ulErase2 s a b).lossesC ↔
      k ∈ tkeys s.lossesC ∧ ¬(a = some k.1 ∧ b = some k.2) := by
  obtain ⟨u, v⟩ := k
  unfold ulErase2
  split
  · simp only [mem_tkeys_lerase, ne_eq, Prod.mk.injEq, Option.some.injEq]
    constructor
    · rintro ⟨h1, h2⟩; exact ⟨h1, fun h => h2 ⟨h.1.symm, h.2.symm⟩⟩
    · rintro ⟨h1, h2⟩; exact ⟨h1, fun h => h2 ⟨h.1.symm, h.2.symm⟩⟩
  · rename_i hn
    constructor
    · intro h
      refine ⟨h, ?_⟩
      rintro ⟨rfl, rfl⟩
      exact hn _ _ rfl rfl
    · exact fun h => h.1

theorem nodupT_ulErase2 {s : State α} {a b : Option α} (h : NodupT s) :
    NodupT (ulErase2 s a b) := by
  unfold ulErase2; split
  · exact ⟨nodup_tkeys_lerase h.1, nodup_tkeys_lerase h.2⟩
  · exact h

/-! #### `ulLeft`, `ulRight` -/
theorem same_ulLeft (s : State α) (x : α) (a : Option α) (u : Bool) :
    Same s (ulLeft r12 s x a u) := by
  unfold ulLeft; split
  · split <;> exact ⟨rfl, rfl, rfl, rfl⟩
  · exact ⟨rfl, rfl, rfl, rfl⟩

theorem ulLeft_losses (s : State α) (x : α) (a : Option α) (u : Bool) :
    (ulLeft r12 s x a u).losses = s.losses := by
  unfold ulLeft; split
  · split <;> rfl
  · rfl

theorem mem_tkeys_ulLeft {s : State α} {x : α} {a : Option α} {u : Bool} {k : Ival α} :
    k ∈ tkeys (ulLeft r12 s x a u).lossesC ↔
      (a = some k.1 ∧ k.2 = x ∧ u = true) ∨ k ∈ tkeys s.lossesC := by
  obtain ⟨p, q⟩ := k
  unfold ulLeft
  split
  · split
    · rename_i hu
      simp only [mem_tkeys_lset, Prod.mk.injEq, Option.some.injEq, hu, and_true]
      constructor
      · rintro (⟨rfl, rfl⟩ | h)
        · exact Or.inl ⟨rfl, rfl⟩
        · exact Or.inr h
      · rintro (⟨rfl, rfl⟩ | h)
        · exact Or.inl ⟨rfl, rfl⟩
        · exact Or.inr h
    · rename_i hu
      simp [hu]
  · simp

theorem nodupT_ulLeft {s : State α} {x : α} {a : Option α} {u : Bool} (h : NodupT s) :
    NodupT (ulLeft r12 s x a u) := by
  unfold ulLeft; split
  · split
    · exact ⟨h.1, nodup_tkeys_lset r12 _ h.2⟩
    · exact h
  · exact h

theorem same_ulRight (s : State α) (x : α) (b : Option α) (u : Bool) :
    Same s (ulRight r12 s x b u) := by
  unfold ulRight; split
  · split <;> exact ⟨rfl, rfl, rfl, rfl⟩
  · exact ⟨rfl, rfl, rfl, rfl⟩

theorem ulRight_losses (s : State α) (x : α) (b : Option α) (u : Bool) :
    (ulRight r12 s x b u).losses = s.losses := by
  unfold ulRight; split
  · split <;> rfl
  · rfl

theorem mem_tkeys_ulRight {s : State α} {x : α} {b : Option α} {u : Bool} {k : Ival α} :
    k ∈ tkeys (ulRight r12 s x b u).lossesC ↔
      (k.1 = x ∧ b = some k.2 ∧ u = true) ∨ k ∈ tkeys s.lossesC := by
  obtain ⟨p, q⟩ := k
  unfold ulRight
  split
  · split
    · rename_i hu
      simp only [mem_tkeys_lset, Prod.mk.injEq, Option.some.injEq, hu, and_true]
      constructor
      · rintro (⟨rfl, rfl⟩ | h)
        · exact Or.inl ⟨rfl, rfl⟩
        · exact Or.inr h
      · rintro (⟨rfl, rfl⟩ | h)
        · exact Or.inl ⟨rfl, rfl⟩
        · exact Or.inr h
    · rename_i hu
      simp [hu]
  · simp

theorem nodupT_ulRight {s : State α} {x : α} {b : Option α} {u : Bool} (h : NodupT s) :
    NodupT (ulRight r12 s x b u) := by
  unfold ulRight; split
  · split
    · exact ⟨h.1, nodup_tkeys_lset r12 _ h.2⟩
    · exact h
  · exact h

/-! #### `ulPend` -/
theorem same_ulPend (s : State α) (x : α) (xl xr a b : Option α) :
    Same s (ulPend r12 s x xl xr a b) := by
  unfold ulPend; split <;> exact ⟨rfl, rfl, rfl, rfl⟩

theorem ulPend_losses (s : State α) (x : α) (xl xr a b : Option α) :
    (ulPend r12 s x xl xr a b).losses = s.losses := by
  unfold ulPend; split <;> rfl

theorem mem_tkeys_ulPend {s : State α} {x : α} {xl xr a b : Option α} {k : Ival α} :
    k ∈ tkeys (ulPend r12 s x xl xr a b).lossesC ↔
      (xl.isSome ∧ xr.isSome ∧
        ((a = some k.1 ∧ k.2 = x ∧ b.isSome) ∨ (k.1 = x ∧ b = some k.2 ∧ a.isSome))) ∨
      k ∈ tkeys s.lossesC := by
  obtain ⟨p, q⟩ := k
  unfold ulPend
  split
  · simp only [mem_tkeys_lset, Prod.mk.injEq, Option.some.injEq, Option.isSome_some, and_true,
      true_and]
    constructor
    · rintro (⟨rfl, rfl⟩ | ⟨rfl, rfl⟩ | h)
      · exact Or.inl (Or.inr ⟨rfl, rfl⟩)
      · exact Or.inl (Or.inl ⟨rfl, rfl⟩)
      · exact Or.inr h
    · rintro ((⟨rfl, rfl⟩ | ⟨rfl, rfl⟩) | h)
      · exact Or.inr (Or.inl ⟨rfl, rfl⟩)
      · exact Or.inl ⟨rfl, rfl⟩
      · exact Or.inr (Or.inr h)
  · rename_i hn
    constructor
    · exact fun h => Or.inr h
    · rintro (⟨h1, h2, h3⟩ | h)
      · exfalso
        obtain ⟨xl', rfl⟩ := Option.isSome_iff_exists.1 h1
        obtain ⟨xr', rfl⟩ := Option.isSome_iff_exists.1 h2
        rcases h3 with ⟨rfl, _, h4⟩ | ⟨_, rfl, h4⟩
        · obtain ⟨b', rfl⟩ := Option.isSome_iff_exists.1 h4
          exact hn _ _ _ _ rfl rfl rfl rfl
        · obtain ⟨a', rfl⟩ := Option.isSome_iff_exists.1 h4
          exact hn _ _ _ _ rfl rfl rfl rfl
      · exact h

theorem nodupT_ulPend {s : State α} {x : α} {xl xr a b : Option α} (h : NodupT s) :
    NodupT (ulPend r12 s x xl xr a b) := by
  unfold ulPend; split
  · exact ⟨h.1, nodup_tkeys_lset r12 _ (nodup_tkeys_lset r12 _ h.2)⟩
  · exact h

/-! ### `getIntervals` -/

theorem getIntervals_sub {s : State α} {x : α} {iv : Ival α} (h : iv ∈ getIntervals s x) :
    iv ∈ pairs s.xs := pairs_window_subset h

theorem left_pair_of_leftOf {l : List α} (hs : l.Pairwise (· < ·)) {x w : α} (hx : x ∈ l)
    (h : leftOf x l = some w) : (w, x) ∈ pairs l := by
  rw [leftOf_eq_some hs] at h
  rw [mem_pairs_iff_adj hs]
  refine ⟨h.1, hx, h.2.1, ?_⟩
  intro z hz
  rcases lt_or_ge z x with h1 | h1
  · exact Or.inl (h.2.2 z hz h1)
  · exact Or.inr h1

theorem right_pair_of_rightOf {l : List α} (hs : l.Pairwise (· < ·)) {x w : α} (hx : x ∈ l)
    (h : rightOf x l = some w) : (x, w) ∈ pairs l := by
  rw [rightOf_eq_some hs] at h
  rw [mem_pairs_iff_adj hs]
  refine ⟨hx, h.1, h.2.1, ?_⟩
  intro z hz
  rcases lt_or_ge x z with h1 | h1
  · exact Or.inr (h.2.2 z hz h1)
  · exact Or.inl h1

/-- the window of `getIntervals` contains the interval to the left of `x` … -/
theorem left_mem_getIntervals {s : State α} (hs : s.xs.Pairwise (· < ·)) {x w : α}
    (hx : x ∈ s.xs) (h : leftOf x s.xs = some w) : (w, x) ∈ getIntervals s x := by
  obtain ⟨j, h1, h2⟩ := mem_pairs_iff_getElem?.1 (left_pair_of_leftOf hs hx h)
  have hlen : j + 1 < s.xs.length := (List.getElem?_eq_some_iff.1 h2).1
  unfold getIntervals
  simp only [sorted_findIdx hs h2]
  exact mem_pairs_window h1 h2 (by omega) (by omega)

/-- … and the interval to its right -/
theorem right_mem_getIntervals {s : State α} (hs : s.xs.Pairwise (· < ·)) {x w : α}
    (hx : x ∈ s.xs) (h : rightOf x s.xs = some w) : (x, w) ∈ getIntervals s x := by
  obtain ⟨j, h1, h2⟩ := mem_pairs_iff_getElem?.1 (right_pair_of_rightOf hs hx h)
  have hlen : j + 1 < s.xs.length := (List.getElem?_eq_some_iff.1 h2).1
  unfold getIntervals
  simp only [sorted_findIdx hs h1]
  exact mem_pairs_window h1 h2 (by omega) (by omega)

theorem getIntervals_congr {s s' : State α} (h1 : s'.xs = s.xs) (h2 : s'.nn = s.nn) (x : α) :
    getIntervals s' x = getIntervals s x := by
  unfold getIntervals; rw [h1, h2]

/-! ### `updateLosses` re-establishes the table invariant -/

/-- no pair of a sorted list containing `x` straddles `x` -/
theorem not_straddle {l : List α} (hs : l.Pairwise (· < ·)) {x u v : α} (hx : x ∈ l)
    (h : (u, v) ∈ pairs l) (hu : u < x) (hv : x < v) : False := by
  rcases ((mem_pairs_iff_adj hs).1 h).2.2.2 x hx with h1 | h1
  · exact absurd hu (not_lt.2 h1)
  · exact absurd hv (not_lt.2 h1)

theorem tinv_updateLosses_true {s : State α} {x : α} {xs0 xsC0 : List α}
    (h0 : xs0.Pairwise (· < ·)) (hC0 : xsC0.Pairwise (· < ·))
    (hxs : s.xs = sinsert x xs0) (hxsC : s.xsC = sinsert x xsC0)
    (hsub : ∀ z ∈ s.xs, z ∈ s.xsC)
    (hl : ∀ iv, iv ∈ tkeys s.losses ↔ iv ∈ pairs xs0)
    (hlC : ∀ iv, iv ∈ tkeys s.lossesC ↔ iv ∈ pairs xsC0)
    (hnd : NodupT s) :
    TInv s.xs s.xsC (updateLosses lossFn r12 s x true).losses
      (updateLosses lossFn r12 s x true).lossesC := by
  have hs : s.xs.Pairwise (· < ·) := hxs ▸ sorted_sinsert h0
  have hsC : s.xsC.Pairwise (· < ·) := hxsC ▸ sorted_sinsert hC0
  have hx : x ∈ s.xs := hxs ▸ mem_sinsert.2 (Or.inl rfl)
  have hxC : x ∈ s.xsC := hsub x hx
  rw [updateLosses_true_eq]
  have hgi := getIntervals_congr (same_ulErase s (leftOf x s.xsC) (rightOf x s.xsC)).1
    (ulErase_nn s (leftOf x s.xsC) (rightOf x s.xsC)) x
  have hxC1 : (ulErase s (leftOf x s.xsC) (rightOf x s.xsC)).xsC = s.xsC :=
    (same_ulErase s _ _).2.1
  refine ⟨?_, ?_, ?_, ?_⟩
  · rintro ⟨u, v⟩
    rw [ulRight_losses, ulLeft_losses, mem_tkeys_ulErase2_losses, mem_tkeys_foldUpd_losses,
      ulErase_losses, hl, hgi]
    have E := mem_pairs_sinsert h0 (x := x) (u := u) (v := v)
    rw [← hxs] at E
    rw [E]
    constructor
    · rintro ⟨h1 | h1, h2⟩
      · exact E.1 (getIntervals_sub h1)
      · exact Or.inl ⟨h1, h2⟩
    · rintro (⟨h1, h2⟩ | ⟨h1, rfl⟩ | ⟨rfl, h1⟩)
      · exact ⟨Or.inr h1, h2⟩
      · refine ⟨Or.inl (left_mem_getIntervals hs hx h1), ?_⟩
        rintro ⟨_, h3⟩
        exact lt_irrefl _ ((rightOf_eq_some hs).1 h3).2.1
      · refine ⟨Or.inl (right_mem_getIntervals hs hx h1), ?_⟩
        rintro ⟨h3, _⟩
        exact lt_irrefl _ ((leftOf_eq_some hs).1 h3).2.1
  · rintro ⟨u, v⟩
    rw [mem_tkeys_ulRight, mem_tkeys_ulLeft, mem_tkeys_ulErase2_lossesC,
      mem_tkeys_foldUpd_lossesC, mem_tkeys_ulErase, hlC, hgi, hxC1]
    have E := mem_pairs_sinsert hC0 (x := x) (u := u) (v := v)
    rw [← hxsC] at E
    -- no pair of the new `xsC` is the real interval split by `x`
    have F4 : (u, v) ∈ pairs s.xsC → ¬(leftOf x s.xs = some u ∧ rightOf x s.xs = some v) := by
      rintro hT ⟨h3, h4⟩
      exact not_straddle hsC hxC hT ((leftOf_eq_some hs).1 h3).2.1 ((rightOf_eq_some hs).1 h4).2.1
    simp only [Bool.not_true, Bool.false_and, Bool.or_false, Option.isNone_iff_eq_none]
    constructor
    · rintro (⟨h1, h2, _⟩ | ⟨h1, h2, _⟩ | ⟨h1 | h1, _⟩)
      · exact E.2 (Or.inr (Or.inr ⟨h1, h2⟩))
      · exact E.2 (Or.inr (Or.inl ⟨h1, h2⟩))
      · obtain ⟨pq, _, h3⟩ := h1
        exact ((mem_pairs_between hsC).1 h3).1
      · exact E.2 (Or.inl h1)
    · intro hT
      rcases E.1 hT with ⟨h1, h2⟩ | ⟨h1, rfl⟩ | ⟨rfl, h1⟩
      · exact Or.inr (Or.inr ⟨Or.inr ⟨h1, h2⟩, F4 hT⟩)
      · cases hxl : leftOf v s.xs with
        | none => exact Or.inr (Or.inl ⟨h1, rfl, rfl⟩)
        | some w =>
          refine Or.inr (Or.inr ⟨Or.inl ⟨(w, v), left_mem_getIntervals hs hx hxl, ?_⟩, hxl ▸ F4 hT⟩)
          rw [mem_pairs_between hsC]
          refine ⟨hT, ?_, le_refl _⟩
          have hw := (leftOf_eq_some hs).1 hxl
          exact ((leftOf_eq_some hsC).1 h1).2.2 w (hsub w hw.1) hw.2.1
      · cases hxr : rightOf u s.xs with
        | none => exact Or.inl ⟨rfl, h1, rfl⟩
        | some w =>
          refine Or.inr (Or.inr ⟨Or.inl ⟨(u, w), right_mem_getIntervals hs hx hxr, ?_⟩, hxr ▸ F4 hT⟩)
          rw [mem_pairs_between hsC]
          refine ⟨hT, le_refl _, ?_⟩
          have hw := (rightOf_eq_some hs).1 hxr
          exact ((rightOf_eq_some hsC).1 h1).2.2 w (hsub w hw.1) hw.2.1
  · exact (nodupT_ulRight r12 (nodupT_ulLeft r12 (nodupT_ulErase2
      (nodupT_foldUpd lossFn r12 _ (nodupT_ulErase hnd))))).1
  · exact (nodupT_ulRight r12 (nodupT_ulLeft r12 (nodupT_ulErase2
      (nodupT_foldUpd lossFn r12 _ (nodupT_ulErase hnd))))).2

theorem tinv_updateLosses_false {s : State α} {x : α} {xsC0 : List α}
    (hC0 : xsC0.Pairwise (· < ·))
    (hxsC : s.xsC = sinsert x xsC0)
    (hsub : ∀ z ∈ s.xs, z ∈ s.xsC)
    (hl : ∀ iv, iv ∈ tkeys s.losses ↔ iv ∈ pairs s.xs)
    (hlC : ∀ iv, iv ∈ tkeys s.lossesC ↔ iv ∈ pairs xsC0)
    (hnd : NodupT s) :
    TInv s.xs s.xsC (updateLosses lossFn r12 s x false).losses
      (updateLosses lossFn r12 s x false).lossesC := by
  rw [updateLosses_false_eq]
  refine ⟨?_, ?_, ?_, ?_⟩
  · intro iv
    rw [ulRight_losses, ulLeft_losses, ulPend_losses, ulErase_losses, hl]
  · rintro ⟨u, v⟩
    rw [mem_tkeys_ulRight, mem_tkeys_ulLeft, mem_tkeys_ulPend, mem_tkeys_ulErase, hlC]
    have E := mem_pairs_sinsert hC0 (x := x) (u := u) (v := v)
    rw [← hxsC] at E
    rw [E]
    have F5 : (rightOf x s.xs).isSome → (rightOf x s.xsC).isSome := by
      rw [rightOf_isSome, rightOf_isSome]
      rintro ⟨z, hz, hxz⟩; exact ⟨z, hsub z hz, hxz⟩
    have F6 : (leftOf x s.xs).isSome → (leftOf x s.xsC).isSome := by
      rw [leftOf_isSome, leftOf_isSome]
      rintro ⟨z, hz, hxz⟩; exact ⟨z, hsub z hz, hxz⟩
    simp only [Bool.not_false, Bool.true_and]
    constructor
    · rintro (⟨h1, h2, _⟩ | ⟨h1, h2, _⟩ | ⟨_, _, ⟨h1, h2, _⟩ | ⟨h1, h2, _⟩⟩ | h)
      · exact Or.inr (Or.inr ⟨h1, h2⟩)
      · exact Or.inr (Or.inl ⟨h1, h2⟩)
      · exact Or.inr (Or.inl ⟨h1, h2⟩)
      · exact Or.inr (Or.inr ⟨h1, h2⟩)
      · exact Or.inl h
    · rintro (h | ⟨h1, h2⟩ | ⟨h1, h2⟩)
      · exact Or.inr (Or.inr (Or.inr h))
      · cases hxl : leftOf x s.xs with
        | none => exact Or.inr (Or.inl ⟨h1, h2, by simp⟩)
        | some w =>
          cases hxr : rightOf x s.xs with
          | none => exact Or.inr (Or.inl ⟨h1, h2, by simp⟩)
          | some w' =>
            exact Or.inr (Or.inr (Or.inl ⟨rfl, rfl, Or.inl ⟨h1, h2, F5 (by simp [hxr])⟩⟩))
      · cases hxl : leftOf x s.xs with
        | none => exact Or.inl ⟨h1, h2, by simp⟩
        | some w =>
          cases hxr : rightOf x s.xs with
          | none => exact Or.inl ⟨h1, h2, by simp⟩
          | some w' =>
            exact Or.inr (Or.inr (Or.inl ⟨rfl, rfl, Or.inr ⟨h1, h2, F6 (by simp [hxl])⟩⟩))
  · exact (nodupT_ulRight r12 (nodupT_ulLeft r12 (nodupT_ulPend r12 (nodupT_ulErase hnd)))).1
  · exact (nodupT_ulRight r12 (nodupT_ulLeft r12 (nodupT_ulPend r12 (nodupT_ulErase hnd)))).2

theorem same_updateLosses (s : State α) (x : α) (real : Bool) :
    Same s (updateLosses lossFn r12 s x real) := by
  cases real
  · rw [updateLosses_false_eq]
    exact (((same_ulErase s _ _).trans (same_ulPend r12 _ _ _ _ _ _)).trans
      (same_ulLeft r12 _ _ _ _)).trans (same_ulRight r12 _ _ _ _)
  · rw [updateLosses_true_eq]
    exact ((((same_ulErase s _ _).trans (same_foldUpd lossFn r12 _ _)).trans
      (same_ulErase2 _ _ _)).trans (same_ulLeft r12 _ _ _ _)).trans (same_ulRight r12 _ _ _ _)

/-! ### preservation by the operations -/

theorem inv_of_same {s s' : State α} (h : Same s s') (hl : s'.losses = s.losses)
    (hlC : s'.lossesC = s.lossesC) (hi : Inv s) : Inv s' := by
  rw [inv_iff] at hi ⊢
  rw [h.1, h.2.1, h.2.2.1, h.2.2.2, hl, hlC]
  exact hi

theorem inv_updInterp {s : State α} {p q : α} (hi : Inv s) (hpq : (p, q) ∈ pairs s.xs) :
    Inv (updInterp lossFn r12 s p q) := by
  rw [inv_iff] at hi ⊢
  obtain ⟨hp, ht⟩ := hi
  refine ⟨hp, ?_, ?_, ?_, ?_⟩
  · intro k
    show k ∈ tkeys (updInterp lossFn r12 s p q).losses ↔ k ∈ pairs s.xs
    rw [mem_tkeys_updInterp_losses, ht.losses_keys]
    constructor
    · rintro (rfl | h)
      · exact hpq
      · exact h
    · exact Or.inr
  · rintro ⟨u, v⟩
    show (u, v) ∈ tkeys (updInterp lossFn r12 s p q).lossesC ↔ (u, v) ∈ pairs s.xsC
    rw [mem_tkeys_updInterp_lossesC, ht.lossesC_keys, mem_pairs_between hp.xsC_sorted]
    constructor
    · rintro (h | h)
      · exact h.1
      · exact h
    · exact Or.inr
  · exact (nodupT_updInterp lossFn r12 ⟨ht.losses_nodup, ht.lossesC_nodup⟩).1
  · exact (nodupT_updInterp lossFn r12 ⟨ht.losses_nodup, ht.lossesC_nodup⟩).2

theorem inv_foldUpd {s : State α} {ivs : List (Ival α)} (hi : Inv s)
    (h : ∀ iv ∈ ivs, iv ∈ pairs s.xs) : Inv (foldUpd lossFn r12 s ivs) := by
  induction ivs generalizing s with
  | nil => exact hi
  | cons iv ivs ih =>
    exact ih (inv_updInterp lossFn r12 hi (h iv (List.mem_cons_self ..)))
      (fun k hk => h k (List.mem_cons_of_mem _ hk))

theorem inv_maybeRescale {s : State α} (hi : Inv s) : Inv (maybeRescale lossFn r12 s) := by
  unfold maybeRescale
  split
  · have h1 : Inv (foldUpd lossFn r12 s (s.losses.map Prod.fst).reverse) := by
      apply inv_foldUpd lossFn r12 hi
      intro iv hiv
      rw [List.mem_reverse] at hiv
      exact (hi.losses_keys iv).1 hiv
    exact inv_of_same (s := foldUpd lossFn r12 s (s.losses.map Prod.fst).reverse)
      ⟨rfl, rfl, rfl, rfl⟩ rfl rfl h1
  · exact hi

theorem inv_tell {s : State α} (hi : Inv s) (x : α) (y : List α) :
    Inv (tell lossFn r12 s x y) := by
  unfold tell
  split
  · exact hi
  · rename_i hx
    have hxd : x ∉ dkeys s.data := by
      rw [← hasData_iff]; exact hx
    obtain ⟨hp, ht⟩ := inv_iff.1 hi
    apply inv_maybeRescale
    rw [inv_iff]
    have hsame := same_updateLosses lossFn r12
      (updateScale { s with data := s.data ++ [(x, y)], pending := s.pending.erase x,
                            xsC := sinsert x s.xsC, xs := sinsert x s.xs } x y) x true
    rw [hsame.1, hsame.2.1, hsame.2.2.1, hsame.2.2.2]
    have hp' : PInv (sinsert x s.xs) (sinsert x s.xsC) (s.data ++ [(x, y)]) (s.pending.erase x) := by
      refine ⟨sorted_sinsert hp.xs_sorted, sorted_sinsert hp.xsC_sorted, ?_, ?_, ?_,
        hp.pend_nodup.erase x, ?_⟩
      · intro z
        simp only [mem_sinsert, dkeys, List.map_append, List.mem_append, List.map_cons,
          List.map_nil, List.mem_singleton]
        rw [hp.xs_mem z]; exact or_comm
      · intro z
        simp only [mem_sinsert, dkeys, List.map_append, List.mem_append, List.map_cons,
          List.map_nil, List.mem_singleton]
        rw [hp.xsC_mem z, hp.pend_nodup.mem_erase_iff]
        by_cases hz : z = x
        · simp [hz]
        · simp [hz, dkeys]
      · intro z hz
        rw [hp.pend_nodup.mem_erase_iff] at hz
        simp only [dkeys, List.map_append, List.mem_append, List.map_cons, List.map_nil,
          List.mem_singleton, not_or]
        exact ⟨hp.pend_nodata z hz.2, hz.1⟩
      · simp only [dkeys, List.map_append, List.map_cons, List.map_nil]
        rw [List.nodup_append]
        refine ⟨hp.data_nodup, by simp, ?_⟩
        intro a ha b hb
        simp only [List.mem_singleton] at hb
        subst hb
        rintro rfl
        exact hxd ha
    refine ⟨hp', ?_⟩
    exact tinv_updateLosses_true lossFn r12 (xs0 := s.xs) (xsC0 := s.xsC) hp.xs_sorted
      hp.xsC_sorted rfl rfl hp'.sub ht.losses_keys ht.lossesC_keys
      ⟨ht.losses_nodup, ht.lossesC_nodup⟩

theorem inv_tellPending {s : State α} (hi : Inv s) (x : α) :
    Inv (tellPending lossFn r12 s x) := by
  unfold tellPending
  split
  · exact hi
  · rename_i hx
    have hxd : x ∉ dkeys s.data := by
      rw [← hasData_iff]; exact hx
    obtain ⟨hp, ht⟩ := inv_iff.1 hi
    rw [inv_iff]
    have hsame := same_updateLosses lossFn r12
      { s with pending := if x ∈ s.pending then s.pending else x :: s.pending,
               xsC := sinsert x s.xsC } x false
    rw [hsame.1, hsame.2.1, hsame.2.2.1, hsame.2.2.2]
    have hp' : PInv s.xs (sinsert x s.xsC) s.data
        (if x ∈ s.pending then s.pending else x :: s.pending) := by
      refine ⟨hp.xs_sorted, sorted_sinsert hp.xsC_sorted, hp.xs_mem, ?_, ?_, ?_, hp.data_nodup⟩
      · intro z
        rw [mem_sinsert, hp.xsC_mem z]
        split
        · rename_i hxp
          constructor
          · rintro (rfl | h)
            · exact Or.inr hxp
            · exact h
          · exact Or.inr
        · simp only [List.mem_cons]; tauto
      · intro z hz
        split at hz
        · exact hp.pend_nodata z hz
        · rcases List.mem_cons.1 hz with rfl | hz
          · exact hxd
          · exact hp.pend_nodata z hz
      · split
        · exact hp.pend_nodup
        · rename_i hxp; exact List.nodup_cons.2 ⟨hxp, hp.pend_nodup⟩
    refine ⟨hp', ?_⟩
    exact tinv_updateLosses_false lossFn r12 (xsC0 := s.xsC) hp.xsC_sorted rfl hp'.sub
      ht.losses_keys ht.lossesC_keys ⟨ht.losses_nodup, ht.lossesC_nodup⟩

theorem inv_removeUnfinished {s : State α} (hi : Inv s) : Inv (removeUnfinished s) := by
  obtain ⟨hp, ht⟩ := inv_iff.1 hi
  rw [inv_iff]
  refine ⟨⟨hp.xs_sorted, hp.xs_sorted, hp.xs_mem, ?_, ?_, List.nodup_nil, hp.data_nodup⟩,
    ⟨ht.losses_keys, ht.losses_keys, ht.losses_nodup, ht.losses_nodup⟩⟩
  · intro z
    show z ∈ s.xs ↔ z ∈ dkeys s.data ∨ z ∈ []
    rw [hp.xs_mem z]; simp
  · intro z hz
    exact absurd hz List.not_mem_nil

theorem inv_foldl_tellPending {s : State α} (hi : Inv s) (pts : List α) :
    Inv (pts.foldl (tellPending lossFn r12) s) := by
  induction pts generalizing s with
  | nil => exact hi
  | cons p pts ih => exact ih (inv_tellPending lossFn r12 hi p)

theorem inv_ask {s : State α} (hi : Inv s) (n : Nat) (c : Bool) :
    Inv (ask lossFn r12 s n c).2 := by
  unfold ask
  dsimp only
  split
  · exact inv_foldl_tellPending lossFn r12 hi _
  · exact hi

theorem inv_init (lo hi factor dxEps : α) (nn : Nat) : Inv (init lo hi factor dxEps nn) := by
  rw [inv_iff]
  refine ⟨⟨List.Pairwise.nil, List.Pairwise.nil, ?_, ?_, ?_, List.nodup_nil, List.nodup_nil⟩,
    ⟨?_, ?_, List.nodup_nil, List.nodup_nil⟩⟩ <;> simp [init, dkeys, tkeys, pairs]

theorem inv_foldl_tell {s : State α} (hi : Inv s) (pts : List (α × List α)) :
    Inv (pts.foldl (fun s kv => tell lossFn r12 s kv.1 kv.2) s) := by
  induction pts generalizing s with
  | nil => exact hi
  | cons p pts ih => exact ih (inv_tell lossFn r12 hi p.1 p.2)

/-! ### the batch path of `tell_many` -/

theorem dkeys_dataSet (d : List (α × List α)) (x : α) (y : List α) :
    dkeys (dataSet d x y) = if x ∈ dkeys d then dkeys d else dkeys d ++ [x] := by
  unfold dataSet
  by_cases hx : x ∈ dkeys d
  · rw [if_pos (dataGet_isSome.2 hx), if_pos hx]
  · rw [if_neg (fun h => hx (dataGet_isSome.1 h)), if_neg hx]; simp [dkeys]

theorem mem_dkeys_dataSet {d : List (α × List α)} {x z : α} {y : List α} :
    z ∈ dkeys (dataSet d x y) ↔ z = x ∨ z ∈ dkeys d := by
  rw [dkeys_dataSet]
  split
  · rename_i h
    constructor
    · exact Or.inr
    · rintro (rfl | h')
      · exact h
      · exact h'
  · simp only [List.mem_append, List.mem_singleton]; exact or_comm

theorem nodup_dkeys_dataSet {d : List (α × List α)} {x : α} {y : List α}
    (h : (dkeys d).Nodup) : (dkeys (dataSet d x y)).Nodup := by
  rw [dkeys_dataSet]
  split
  · exact h
  · rename_i hx
    rw [List.nodup_append]
    refine ⟨h, by simp, ?_⟩
    intro a ha b hb
    simp only [List.mem_singleton] at hb
    subst hb
    rintro rfl
    exact hx ha

theorem dkeys_foldl_dataSet (pts : List (α × List α)) (d : List (α × List α))
    (h : (dkeys d).Nodup) :
    (dkeys (pts.foldl (fun d kv => dataSet d kv.1 kv.2) d)).Nodup ∧
      ∀ z, z ∈ dkeys (pts.foldl (fun d kv => dataSet d kv.1 kv.2) d) ↔
        z ∈ dkeys pts ∨ z ∈ dkeys d := by
  induction pts generalizing d with
  | nil => exact ⟨h, by simp [dkeys]⟩
  | cons p pts ih =>
    obtain ⟨h1, h2⟩ := ih (dataSet d p.1 p.2) (nodup_dkeys_dataSet h)
    refine ⟨h1, ?_⟩
    intro z
    simp only [List.foldl_cons]
    rw [h2 z, mem_dkeys_dataSet]
    simp only [dkeys, List.map_cons, List.mem_cons]
    tauto

/-- the state the batch path starts its loss computation from -/
def batchInit (s : State α) (pts : List (α × List α)) : State α :=
  let data := pts.foldl (fun d kv => dataSet d kv.1 kv.2) s.data
  let pending := s.pending.filter (fun p => !(pts.any (fun kv => decide (kv.1 = p))))
  let xs := sortList (data.map Prod.fst)
  let xsC := sortList (pending ++ data.map Prod.fst)
  let bx : α × α := (if s.lo < xsC.headD 0 then s.lo else xsC.headD 0,
                    if xsC.getLastD 0 < s.hi then s.hi else xsC.getLastD 0)
  let vals := data.map Prod.snd
  let mn := vals.foldl minL (vals.headD [])
  let mx := vals.foldl maxL (vals.headD [])
  let scaleX := bx.2 - bx.1
  let scaleY := maxOf (List.zipWith (· - ·) mx mn)
  { s with data := data, pending := pending, xs := xs, xsC := xsC, bboxX := bx,
           bboxY := some (mn, mx), scaleX := scaleX, scaleY := scaleY, oldScaleY := scaleY,
           lossScale := scaleX, losses := [], lossesC := [] }

def batchLoss (s : State α) (ivs : List (Ival α)) : State α :=
  ivs.foldl
    (fun s iv => { s with losses := lset r12 s.lossScale iv (getLoss lossFn s iv.1 iv.2) s.losses }) s

def batchStepC (acc : State α × List (Ival α)) (iv : Ival α) : State α × List (Ival α) :=
  let (s, ti) := acc
  match lget iv s.losses with
  | some v => ({ s with lossesC := lset r12 s.lossScale iv v s.lossesC }, ti)
  | none =>
    let s := { s with lossesC := lset r12 s.lossScale iv .inf s.lossesC }
    match ti.getLast? with
    | some (a, b) =>
      if b = iv.1 ∧ !(hasData s b) then (s, ti.dropLast ++ [(a, iv.2)])
      else (s, ti ++ [iv])
    | none => (s, ti ++ [iv])

def batchInterp (s : State α) (ti : List (Ival α)) : State α :=
  ti.foldl
    (fun s iv => if (lget iv s.losses).isSome then updInterp lossFn r12 s iv.1 iv.2 else s) s

theorem tellManyBatch_eq (s : State α) (pts : List (α × List α)) :
    tellManyBatch lossFn r12 s pts =
      batchInterp lossFn r12
        ((pairs (batchInit s pts).xsC).foldl (batchStepC r12)
          (batchLoss lossFn r12 (batchInit s pts) (pairs (batchInit s pts).xs), [])).1
        ((pairs (batchInit s pts).xsC).foldl (batchStepC r12)
          (batchLoss lossFn r12 (batchInit s pts) (pairs (batchInit s pts).xs), [])).2 := by
  rfl

theorem batchLoss_spec (s : State α) (ivs : List (Ival α)) :
    Same s (batchLoss lossFn r12 s ivs) ∧ (batchLoss lossFn r12 s ivs).lossesC = s.lossesC ∧
      (∀ k, k ∈ tkeys (batchLoss lossFn r12 s ivs).losses ↔ k ∈ ivs ∨ k ∈ tkeys s.losses) ∧
      ((tkeys s.losses).Nodup → (tkeys (batchLoss lossFn r12 s ivs).losses).Nodup) := by
  induction ivs generalizing s with
  | nil => exact ⟨Same.refl s, rfl, by simp [batchLoss], id⟩
  | cons iv ivs ih =>
    obtain ⟨h1, h2, h3, h4⟩ := ih
      { s with losses := lset r12 s.lossScale iv (getLoss lossFn s iv.1 iv.2) s.losses }
    refine ⟨h1, h2, ?_, ?_⟩
    · intro k
      have := h3 k
      simp only [batchLoss, List.foldl_cons] at this ⊢
      rw [this, mem_tkeys_lset, List.mem_cons]
      tauto
    · intro hn
      exact h4 (nodup_tkeys_lset r12 _ hn)

theorem batchStepC_fst (s : State α) (ti : List (Ival α)) (iv : Ival α) :
    (batchStepC r12 (s, ti) iv).1 =
      { s with lossesC := lset r12 s.lossScale iv ((lget iv s.losses).getD .inf) s.lossesC } := by
  unfold batchStepC
  dsimp only
  split
  · rename_i v hv; rw [hv]; rfl
  · rename_i hv; rw [hv]
    split
    · split <;> rfl
    · rfl

theorem batchC_spec (ivs : List (Ival α)) (acc : State α × List (Ival α)) :
    Same acc.1 (ivs.foldl (batchStepC r12) acc).1 ∧
      (ivs.foldl (batchStepC r12) acc).1.losses = acc.1.losses ∧
      (∀ k, k ∈ tkeys (ivs.foldl (batchStepC r12) acc).1.lossesC ↔
        k ∈ ivs ∨ k ∈ tkeys acc.1.lossesC) ∧
      ((tkeys acc.1.lossesC).Nodup → (tkeys (ivs.foldl (batchStepC r12) acc).1.lossesC).Nodup) := by
  induction ivs generalizing acc with
  | nil => exact ⟨Same.refl _, rfl, by simp, id⟩
  | cons iv ivs ih =>
    obtain ⟨h1, h2, h3, h4⟩ := ih (batchStepC r12 acc iv)
    obtain ⟨s, ti⟩ := acc
    have e := batchStepC_fst r12 s ti iv
    simp only [List.foldl_cons]
    refine ⟨?_, ?_, ?_, ?_⟩
    · refine Same.trans ?_ h1
      rw [e]; exact ⟨rfl, rfl, rfl, rfl⟩
    · rw [h2, e]
    · intro k
      rw [h3 k, e]
      simp only [mem_tkeys_lset, List.mem_cons]
      tauto
    · intro hn
      apply h4
      rw [e]
      exact nodup_tkeys_lset r12 _ hn

theorem inv_batchInterp {s : State α} (hi : Inv s) (ti : List (Ival α)) :
    Inv (batchInterp lossFn r12 s ti) := by
  induction ti generalizing s with
  | nil => exact hi
  | cons iv ti ih =>
    simp only [batchInterp, List.foldl_cons]
    apply ih
    split
    · rename_i h
      exact inv_updInterp lossFn r12 hi ((hi.losses_keys iv).1 (lget_isSome.1 h))
    · exact hi

theorem inv_tellManyBatch {s : State α} (hi : Inv s) (pts : List (α × List α)) :
    Inv (tellManyBatch lossFn r12 s pts) := by
  rw [tellManyBatch_eq]
  apply inv_batchInterp
  obtain ⟨hp, _⟩ := inv_iff.1 hi
  obtain ⟨a1, a2, a3, a4⟩ := batchLoss_spec lossFn r12 (batchInit s pts) (pairs (batchInit s pts).xs)
  obtain ⟨b1, b2, b3, b4⟩ := batchC_spec r12 (pairs (batchInit s pts).xsC)
    (batchLoss lossFn r12 (batchInit s pts) (pairs (batchInit s pts).xs), [])
  have hsame := a1.trans b1
  rw [inv_iff, hsame.1, hsame.2.1, hsame.2.2.1, hsame.2.2.2]
  obtain ⟨d1, d2⟩ := dkeys_foldl_dataSet pts s.data hp.data_nodup
  refine ⟨⟨sorted_sortList _, sorted_sortList _, ?_, ?_, ?_, ?_, d1⟩, ⟨?_, ?_, ?_, ?_⟩⟩
  · intro z; exact mem_sortList
  · intro z
    show z ∈ sortList _ ↔ _
    rw [mem_sortList, List.mem_append]
    exact or_comm
  · intro z hz
    have hz1 : z ∈ s.pending.filter (fun p => !(pts.any (fun kv => decide (kv.1 = p)))) := hz
    rw [List.mem_filter] at hz1
    have hz' : z ∈ s.pending ∧ z ∉ dkeys pts := by
      refine ⟨hz1.1, ?_⟩
      intro hm
      obtain ⟨kv, hkv, rfl⟩ := List.mem_map.1 hm
      have : pts.any (fun kv' => decide (kv'.1 = kv.1)) = true :=
        List.any_eq_true.2 ⟨kv, hkv, by simp⟩
      simp [this] at hz1
    show z ∉ dkeys (pts.foldl (fun d kv => dataSet d kv.1 kv.2) s.data)
    rw [d2 z, not_or]
    exact ⟨hz'.2, hp.pend_nodata z hz'.1⟩
  · exact hp.pend_nodup.filter _
  · intro k
    rw [b2, a3 k]
    show _ ∨ k ∈ tkeys [] ↔ _
    simp [tkeys]
  · intro k
    rw [b3 k]
    show _ ∨ k ∈ tkeys (batchLoss lossFn r12 (batchInit s pts) (pairs (batchInit s pts).xs)).lossesC ↔ _
    rw [a2]
    show _ ∨ k ∈ tkeys [] ↔ _
    simp [tkeys]
  · rw [b2]; exact a4 List.nodup_nil
  · apply b4
    show (tkeys (batchLoss lossFn r12 (batchInit s pts) (pairs (batchInit s pts).xs)).lossesC).Nodup
    rw [a2]; exact List.nodup_nil

theorem inv_tellMany {s : State α} (hi : Inv s) (pts : List (α × List α)) (force : Bool) :
    Inv (tellMany lossFn r12 s pts force) := by
  unfold tellMany
  split
  · exact inv_foldl_tell lossFn r12 hi pts
  · exact inv_tellManyBatch lossFn r12 hi pts

theorem inv_step {s : State α} (hi : Inv s) (op : Op α) : Inv (step lossFn r12 s op) := by
  cases op with
  | tell x y => exact inv_tell lossFn r12 hi x y
  | tellPending x => exact inv_tellPending lossFn r12 hi x
  | tellMany pts f => exact inv_tellMany lossFn r12 hi pts f
  | removeUnfinished => exact inv_removeUnfinished hi
  | ask n c => exact inv_ask lossFn r12 hi n c

theorem inv_run_of {s : State α} (hi : Inv s) (ops : List (Op α)) :
    Inv (run lossFn r12 s ops) := by
  induction ops generalizing s with
  | nil => exact hi
  | cons op ops ih => exact ih (inv_step lossFn r12 hi op)

/-- `Inv` holds in every reachable state -/
theorem inv_run (lo hi factor dxEps : α) (nn : Nat) (ops : List (Op α)) :
    Inv (run lossFn r12 (init lo hi factor dxEps nn) ops) :=
  inv_run_of lossFn r12 (inv_init lo hi factor dxEps nn) ops

/-- In every reachable state the loss table has exactly one entry per pair of neighbouring
evaluated points, and the combined table one per pair of neighbouring evaluated-or-pending points. -/
theorem losses_cover (lo hi factor dxEps : α) (nn : Nat) (ops : List (Op α)) :
    let s := run lossFn r12 (init lo hi factor dxEps nn) ops
    (∀ iv ∈ pairs s.xs, (lget iv s.losses).isSome = true) ∧
    (∀ iv, (lget iv s.losses).isSome = true → iv ∈ pairs s.xs) ∧
    (∀ iv ∈ pairs s.xsC, (lget iv s.lossesC).isSome = true) ∧
    (∀ iv, (lget iv s.lossesC).isSome = true → iv ∈ pairs s.xsC) ∧
    (tkeys s.losses).Nodup ∧ (tkeys s.lossesC).Nodup := by
  intro s
  have hi : Inv s := inv_run lossFn r12 lo hi factor dxEps nn ops
  refine ⟨?_, ?_, ?_, ?_, hi.losses_nodup, hi.lossesC_nodup⟩
  · intro iv h; exact lget_isSome.2 ((hi.losses_keys iv).2 h)
  · intro iv h; exact (hi.losses_keys iv).1 (lget_isSome.1 h)
  · intro iv h; exact lget_isSome.2 ((hi.lossesC_keys iv).2 h)
  · intro iv h; exact (hi.lossesC_keys iv).1 (lget_isSome.1 h)

end L1D
