import AdaptiveProofs.Lemmas.IntegDefs
import AdaptiveModel.Gen.IntegTables
/-!
C07 (deepening): `Nested` for the REAL Clenshaw–Curtis node tables of `adaptive.learner.integrator_coeffs`
(`AdaptiveModel/Gen/IntegTables.lean`, dumped by `harness/integ_tables.py` as bit patterns of the doubles and as exact
dyadic rationals).

* `xi_bits_num`   the two dumps agree: decoding the IEEE-754 bit patterns (decoder written here) gives `xiNum / 2^60`;
* `xi_length`     rule `d` has `ns d` nodes;
* `xi_nested_idx` node `k` of rule `d` is node `2 k` of rule `d + 1` (same bit pattern), `d = 0, 1, 2`;
* `nested_tables` hence the oracle "abscissae of `(a, b)` at depth `d` = `(a + b) / 2 + (b - a) * xi[d] / 2`"
  (the formula of `_Interval.points`, evaluated elementwise in ANY number type from the decoded table entries) satisfies
  the hypothesis `Nested` of `integ_no_internal_error`.
All by kernel evaluation (`decide`) on the concrete tables.
-/
set_option linter.unusedSectionVars false
namespace Integ
open Gen.IntegTables

/-- IEEE-754 binary64 bit pattern -> numerator over `2^60`; `none` for inf/NaN or when `2^60` is no denominator -/
def decode60 (n : Nat) : Option Int :=
  let sign := n / 2 ^ 63
  let ex := (n / 2 ^ 52) % 2 ^ 11
  let man := n % 2 ^ 52
  if ex = 2047 then none else
  let m : Nat := if ex = 0 then man else 2 ^ 52 + man
  -- value = ± m * 2^(e0 - 1075),  e0 = max ex 1;  value * 2^60 = ± m * 2^(e0 - 1015)
  let e0 : Nat := if ex = 0 then 1 else ex
  let mag : Option Nat :=
    if 1015 ≤ e0 then some (m * 2 ^ (e0 - 1015))
    else if m % 2 ^ (1015 - e0) = 0 then some (m / 2 ^ (1015 - e0)) else none
  mag.map (fun v => if sign = 1 then -(v : Int) else (v : Int))

/-- the bit patterns decode to the dyadic rationals of the second dump -/
theorem xi_bits_num : ∀ d, d ≤ 3 → (xiBits d).map decode60 = (xiNum d).map some := by decide +kernel

theorem xi_length : ∀ d, (xiBits d).length = ns d
  | 0 => by decide
  | 1 => by decide
  | 2 => by decide
  | _ + 3 => by show xiBits3.length = 33; decide

/-- the index map: node `k` of rule `d` sits at index `2 k` of rule `d + 1` -/
theorem xi_nested_idx : ∀ d, d < 3 → ∀ k, k < ns d → (xiBits d)[k]? = (xiBits (d + 1))[2 * k]? := by decide +kernel

/-- the same for the exact values -/
theorem xi_nested_idx_num : ∀ d, d < 3 → ∀ k, k < ns d → (xiNum d)[k]? = (xiNum (d + 1))[2 * k]? := by decide +kernel

/-- the nodes are antisymmetric and strictly increasing (as exact rationals) -/
theorem xi_antisymm : ∀ d, d ≤ 3 → (xiNum d).reverse = (xiNum d).map (fun v => -v) := by decide +kernel

theorem xi_increasing : ∀ d, d ≤ 3 → ∀ k, k < ns d - 1 → (xiNum d).getD k 0 < (xiNum d).getD (k + 1) 0 := by decide +kernel

theorem xi_mem_nested : ∀ d t, t ∈ xiBits d → t ∈ xiBits (d + 1)
  | 0 => by decide +kernel
  | 1 => by decide +kernel
  | 2 => by decide +kernel
  | _ + 3 => fun _ h => h

variable {α : Type} [OfNat α 0] [DecidableEq α] [Div α] [OfNat α 2] [LT α] [DecidableLT α] [Sub α] [Mul α] [Add α] [Neg α]

/-- `_Interval.points(depth)`: `(a + b) / 2 + (b - a) * xi[depth] / 2`, elementwise; `dec` turns a bit pattern into a number -/
def tablePts (dec : Nat → α) (a b : α) (d : Nat) : List α :=
  (xiBits d).map (fun t => (a + b) / 2 + (b - a) * dec t / 2)

/-- the oracle whose abscissae come from the real node tables (any numeric outcome of `complete_process`) -/
def tableOracle (dec : Nat → α) (cp : Nat → Nat → CPOut α) : Oracle α := ⟨tablePts dec, cp⟩

/-- `Nested` holds for the real tables, in every number type, for every decoding of the bit patterns -/
theorem nested_tables (dec : Nat → α) (cp : Nat → Nat → CPOut α) : Nested (tableOracle dec cp) := by
  intro a b d p hp
  simp only [tableOracle, tablePts, List.mem_map] at hp ⊢
  obtain ⟨t, ht, rfl⟩ := hp
  exact ⟨t, xi_mem_nested d t ht, rfl⟩

end Integ
