import AdaptiveProofs.Lemmas.L1DEquivBatch
import AdaptiveProofs.Lemmas.L1DEquivAsk
import AdaptiveProofs.Lemmas.L1DYInv
import Mathlib.Algebra.Order.Field.Rat

/-!
# C12 for Learner1D: rescaling inputs or outputs does not change which points are chosen

Scale factors `cx > 0`, `cy > 0`; `scaleState cx cy`, `scaleOp cx cy` (in `L1DEquivLists`) are the
images of a state / an operation under `x ↦ cx * x`, `y ↦ cy * y`; LOSS VALUES ARE NOT SCALED.
`r12` is an arbitrary function, `lossFn` is arbitrary up to ONE of the hypotheses below; list
lengths, `nn`, the number of components of the values are unbounded.

Main results (all of the form  `f (scaleState s) (scaled args) = scaleState (f s args)`):

* `step_scale_gen`        — every operation, from `GLOK` (`getLoss` agrees on the state and its
                            image) of the states in which losses are evaluated;
* `step_equivariant_strong`, `run_equivariant_strong`
                          — every state, every history, for `ScaleFreeY lossFn`
                            (loss invariant under a common positive scaling of all values);
* `step_equivariant`, `run_equivariant`, `run_equivariant_init`
                          — for `ScaleFreeAtZero lossFn` only (the common factor is invisible when
                            all values are EQUAL — true of all shipped losses), on states satisfying
                            the value invariant `YInv d` (reachable states), for histories whose
                            values all have `d` components and whose `tellMany` batches are non-empty;
* `ask_equivariant`, `loss_equivariant`, `ask_after_run_equivariant`.

Hypotheses the proofs forced:
1. The corner `scaleY = 0 ↦ yScale := 1` of `getLoss`: the two runs both divide by `1`, so the
   y-arguments handed to the loss function differ by the factor `cy`.  `scaleY ≠ 0` needs NO
   hypothesis on the loss function (`getLoss_scale_of_ne`).
2. For the weak hypothesis we need "`scaleY = 0` ⇒ all stored values are equal".  This is FALSE of the
   model after `tellMany [] true` on a learner without data: the batch path then stores the empty
   bounding box `some ([], [])`, `minL [] y = []` keeps it empty for ever and `scaleY` stays `0`
   whatever is told afterwards.  `cex_empty_batch` below is the concrete counterexample to
   equivariance (with a loss function that IS `ScaleFreeAtZero`); hence the side condition
   `pts ≠ []` of `OpY`.  (In the Python code `tell_many([], [], force=True)` on an empty learner
   raises in `min([])`/`max([])`, so the model is more permissive than the code there.)
3. Likewise all told values must have the same number `d` of components (`OpDim d`); with ragged
   values the model's bounding box is truncated by `zipWith` (`cex_ragged`).
-/
set_option linter.unusedSectionVars false
namespace L1D
variable {α : Type} [Field α] [LinearOrder α] [IsStrictOrderedRing α]
variable (lossFn : List (Option α) → List (Option (List α)) → Loss α) (r12 : α → α)

section main
variable {cx cy : α} (hx : 0 < cx) (hy : 0 < cy)
include hx hy

/-- Target 3, generic form: equivariance of one operation from `GLOK` of the states in which the
operation evaluates losses (`tellPre` for each told point along the loop, `batchBase` for the batch
path); `tellPending`, `removeUnfinished`, `ask` need nothing. -/
theorem step_scale_gen (P : State α → Prop) (s : State α) (op : Op α)
    (hP : ∀ s', P s' → ∀ kv ∈ tellsOf op, P (tell lossFn r12 s' kv.1 kv.2))
    (hG : ∀ s', P s' → ∀ kv ∈ tellsOf op, GLOK lossFn cx cy (tellPre s' kv.1 kv.2))
    (hB : ∀ pts f, op = .tellMany pts f → GLOK lossFn cx cy (batchBase s pts))
    (h0 : P s) :
    step lossFn r12 (scaleState cx cy s) (scaleOp cx cy op) =
      scaleState cx cy (step lossFn r12 s op) := by
  cases op with
  | tell x y =>
    exact tell_scale lossFn r12 hx hy s x y (fun _ => hG s h0 (x, y) (List.mem_cons_self ..))
  | tellPending x => exact tellPending_scale lossFn r12 hx s x
  | tellMany pts f => exact tellMany_scale lossFn r12 hx hy P s pts f hP hG h0 (hB pts f rfl)
  | removeUnfinished => rfl
  | ask n c => exact ask_scale lossFn r12 hx s n c

/-! ### strong hypothesis: every state, every history -/

theorem step_equivariant_strong (hsf : ScaleFreeY lossFn) (s : State α) (op : Op α) :
    step lossFn r12 (scaleState cx cy s) (scaleOp cx cy op) =
      scaleState cx cy (step lossFn r12 s op) :=
  step_scale_gen lossFn r12 hx hy (fun _ => True) s op (fun _ _ _ _ => trivial)
    (fun _ _ _ _ => glok_of_scaleFreeY lossFn hx hy hsf _)
    (fun _ _ _ => glok_of_scaleFreeY lossFn hx hy hsf _) trivial

theorem run_equivariant_strong (hsf : ScaleFreeY lossFn) (s : State α) (ops : List (Op α)) :
    run lossFn r12 (scaleState cx cy s) (ops.map (scaleOp cx cy)) =
      scaleState cx cy (run lossFn r12 s ops) := by
  unfold run
  induction ops generalizing s with
  | nil => rfl
  | cons op r ih =>
    rw [List.map_cons, List.foldl_cons, List.foldl_cons,
      step_equivariant_strong lossFn r12 hx hy hsf]
    exact ih _

/-! ### weak hypothesis: reachable states, histories with values of `d` components -/

theorem glok_of_yinv (hsf : ScaleFreeAtZero lossFn) {d : Nat} {s : State α} (h : YInv d s) :
    GLOK lossFn cx cy s :=
  glok_of_const lossFn hx hy hsf h.constAtZero

/-- Target 2 on reachable states -/
theorem getLoss_equivariant (hsf : ScaleFreeAtZero lossFn) {d : Nat} {s : State α} (h : YInv d s)
    (a b : α) :
    getLoss lossFn (scaleState cx cy s) (cx * a) (cx * b) = getLoss lossFn s a b :=
  glok_of_yinv lossFn hx hy hsf h a b

/-- Target 3. -/
theorem step_equivariant (hsf : ScaleFreeAtZero lossFn) {d : Nat} {s : State α} (hs : YInv d s)
    {op : Op α} (hop : OpY d op) :
    step lossFn r12 (scaleState cx cy s) (scaleOp cx cy op) =
      scaleState cx cy (step lossFn r12 s op) := by
  have hdim : ∀ kv ∈ tellsOf op, OpY d (Op.tell kv.1 kv.2) := by
    intro kv hkv
    refine ⟨?_, fun pts f h => by cases h⟩
    intro kv' hkv'
    rw [show kv' = (kv.1, kv.2) from List.mem_singleton.1 hkv']
    exact hop.1 kv hkv
  refine step_scale_gen lossFn r12 hx hy (YInv d) s op ?_ ?_ ?_ hs
  · intro s' hs' kv hkv
    exact yinv_step lossFn r12 hs' (hdim kv hkv)
  · intro s' hs' kv hkv
    exact glok_of_yinv lossFn hx hy hsf (yinv_tellPre hs' kv.1 (hop.1 kv hkv))
  · intro pts f he
    refine glok_of_yinv lossFn hx hy hsf (yinv_batchBase hs ?_ (hop.2 pts f he))
    intro kv hkv
    exact hop.1 kv (by rw [he]; exact hkv)

theorem run_equivariant (hsf : ScaleFreeAtZero lossFn) {d : Nat} {s : State α} (hs : YInv d s)
    (ops : List (Op α)) (hops : ∀ op ∈ ops, OpY d op) :
    run lossFn r12 (scaleState cx cy s) (ops.map (scaleOp cx cy)) =
      scaleState cx cy (run lossFn r12 s ops) := by
  unfold run
  induction ops generalizing s with
  | nil => rfl
  | cons op r ih =>
    rw [List.map_cons, List.foldl_cons, List.foldl_cons,
      step_equivariant lossFn r12 hx hy hsf hs (hops op (List.mem_cons_self ..))]
    exact ih (yinv_step lossFn r12 hs (hops op (List.mem_cons_self ..)))
      (fun op' h => hops op' (List.mem_cons_of_mem _ h))

/-- The learner on `[cx*lo, cx*hi]` fed the scaled history is, at every moment, the scaled image of
the learner on `[lo, hi]` fed the original history. -/
theorem run_equivariant_init (hsf : ScaleFreeAtZero lossFn) (d : Nat) (lo hi factor eps : α)
    (nn : Nat) (ops : List (Op α)) (hops : ∀ op ∈ ops, OpY d op) :
    run lossFn r12 (init (cx * lo) (cx * hi) factor (cx * eps) nn) (ops.map (scaleOp cx cy)) =
      scaleState cx cy (run lossFn r12 (init lo hi factor eps nn) ops) := by
  rw [← scaleState_init cx cy]
  exact run_equivariant lossFn r12 hx hy hsf (yinv_init d lo hi factor eps nn) ops hops

omit hy in
/-- Target 4: the points `ask` chooses in the scaled state are the scaled points, with equal loss
improvements — no hypothesis on the loss function. -/
theorem ask_equivariant (s : State α) (n : Nat) :
    (askPoints r12 (scaleState cx cy s) n).1 = (askPoints r12 s n).1.map (fun x => cx * x) ∧
    (askPoints r12 (scaleState cx cy s) n).2 = (askPoints r12 s n).2 := by
  rw [askPoints_scale r12 hx]
  exact ⟨rfl, rfl⟩

omit hy in
/-- Target 4: `loss()` is unchanged. -/
theorem loss_equivariant (s : State α) (real : Bool) :
    loss (scaleState cx cy s) real = loss s real :=
  loss_scale hx s real

/-- C12: after any history, the scaled learner asks for the scaled points. -/
theorem ask_after_run_equivariant (hsf : ScaleFreeAtZero lossFn) (d : Nat) (lo hi factor eps : α)
    (nn : Nat) (ops : List (Op α)) (hops : ∀ op ∈ ops, OpY d op) (n : Nat) :
    (askPoints r12 (run lossFn r12 (init (cx * lo) (cx * hi) factor (cx * eps) nn)
        (ops.map (scaleOp cx cy))) n).1 =
      (askPoints r12 (run lossFn r12 (init lo hi factor eps nn) ops) n).1.map (fun x => cx * x) ∧
    (askPoints r12 (run lossFn r12 (init (cx * lo) (cx * hi) factor (cx * eps) nn)
        (ops.map (scaleOp cx cy))) n).2 =
      (askPoints r12 (run lossFn r12 (init lo hi factor eps nn) ops) n).2 := by
  rw [run_equivariant_init lossFn r12 hx hy hsf d lo hi factor eps nn ops hops]
  exact ask_equivariant r12 hx _ n

end main

/-! ## the side condition `pts ≠ []` is needed -/

/-- a loss function that is `ScaleFreeAtZero` but not `ScaleFreeY`: `0` when all values are equal,
otherwise the sum of all components -/
def cexLoss (_ : List (Option ℚ)) (ys : List (Option (List ℚ))) : Loss ℚ :=
  let vs := ys.filterMap id
  if vs.all (fun v => vs.all (fun w => v == w)) then .fin 0 else .fin ((vs.map List.sum).sum)

theorem cexLoss_scaleFreeAtZero : ScaleFreeAtZero cexLoss := by
  intro c _ xs ys hall
  have h1 : (ys.filterMap id).all (fun v => (ys.filterMap id).all (fun w => v == w)) = true := by
    simp only [List.all_eq_true, List.mem_filterMap, id, beq_iff_eq]
    rintro v ⟨v', hv, rfl⟩ w ⟨w', hw, rfl⟩
    exact hall _ hv _ hw v w rfl rfl
  have h2 : ((ys.map (Option.map (List.map (fun t => c * t)))).filterMap id).all
      (fun v => ((ys.map (Option.map (List.map (fun t => c * t)))).filterMap id).all
        (fun w => v == w)) = true := by
    simp only [List.all_eq_true, List.mem_filterMap, List.mem_map, id, beq_iff_eq]
    rintro v ⟨v', ⟨a, ha, rfl⟩, hv⟩ w ⟨w', ⟨b, hb, rfl⟩, hw⟩
    cases a with
    | none => cases hv
    | some a =>
      cases b with
      | none => cases hw
      | some b =>
        simp only [Option.map_some, Option.some.injEq] at hv hw
        rw [← hv, ← hw, hall _ ha _ hb a b rfl rfl]
  simp only [cexLoss, h1, h2, if_true]

/-- After `tellMany [] true` on an empty learner the output scale stays `0` although the values
differ, and doubling the values changes the loss of the interval `(0, 1)` from `1` to `2`:
the run on the scaled history is NOT the scaled image of the run. -/
theorem cex_empty_batch :
    let ops : List (Op ℚ) := [.tellMany [] true, .tell 0 [0], .tell 1 [1]]
    run cexLoss id (scaleState 1 2 (init 0 1 2 0 0)) (ops.map (scaleOp 1 2)) ≠
      scaleState 1 2 (run cexLoss id (init 0 1 2 0 0) ops) := by
  intro ops h
  have h' := congrArg State.losses h
  revert h'
  decide +kernel

/-- The side condition "all values have the same number of components" (`OpDim d`) is needed too:
with ragged values the model's bounding box is truncated (`zipWith`), `scaleY = 0` although the
values differ, and doubling the values changes the loss of `(0, 1)` from `4` to `8`. -/
theorem cex_ragged :
    let ops : List (Op ℚ) := [.tell 0 [1, 2], .tell 1 [1]]
    run cexLoss id (scaleState 1 2 (init 0 1 2 0 0)) (ops.map (scaleOp 1 2)) ≠
      scaleState 1 2 (run cexLoss id (init 0 1 2 0 0) ops) := by
  intro ops h
  have h' := congrArg State.losses h
  revert h'
  decide +kernel

end L1D
