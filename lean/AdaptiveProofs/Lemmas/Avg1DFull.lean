import AdaptiveModel.Avg1DFull
import AdaptiveProofs.Lemmas.Avg1DBatch
import AdaptiveProofs.Lemmas.L1DScale
import AdaptiveProofs.Lemmas.L1DInvLists

/-!
Helper lemmas for the full AverageLearner1D model (`Avg1DFull.lean`), part 1: how every
operation acts on the sampling part (`samp`), on the evaluated abscissae (`base.xs`) and on the
running means (`base.data`).
-/
set_option linter.unusedSectionVars false
set_option linter.unusedVariables false

namespace Avg1DFull
open L1D (Loss Ival)
variable {α : Type} [Field α] [LinearOrder α] [IsStrictOrderedRing α]
variable (lossFn : List (Option α) → List (Option (List α)) → Loss α) (r12 : α → α)
variable (sqrt : α → α) (tq : Nat → α) (hypot : α → α → α)

/-! ### the sampling part -/

@[simp] theorem updateDistances_samp (s : State α) (x : α) :
    (updateDistances hypot s x).samp = s.samp := rfl

@[simp] theorem updateDistances_base (s : State α) (x : α) :
    (updateDistances hypot s x).base = s.base := rfl

@[simp] theorem updateDistances_resc (s : State α) (x : α) :
    (updateDistances hypot s x).resc = s.resc := rfl

@[simp] theorem updateDistances_pend (s : State α) (x : α) :
    (updateDistances hypot s x).pend = s.pend := rfl

theorem updateRescaled_samp (s : State α) (x : α) (r : Bool) :
    (updateRescaled s x r).samp = s.samp := by
  unfold updateRescaled
  dsimp only
  repeat' split
  all_goals rfl

theorem updateRescaled_base (s : State α) (x : α) (r : Bool) :
    (updateRescaled s x r).base = s.base := by
  unfold updateRescaled
  dsimp only
  repeat' split
  all_goals rfl

theorem updateRescaled_dist (s : State α) (x : α) (r : Bool) :
    (updateRescaled s x r).dist = s.dist := by
  unfold updateRescaled
  dsimp only
  repeat' split
  all_goals rfl

theorem updateRescaled_pend (s : State α) (x : α) (r : Bool) :
    (updateRescaled s x r).pend = s.pend := by
  unfold updateRescaled
  dsimp only
  repeat' split
  all_goals rfl

theorem popCheck_eq (s : State α) (x : α) :
    popCheck s x = s ∨ popCheck s x = { s with resc := rerase x s.resc } := by
  unfold popCheck
  dsimp only
  generalize ((match errOf s x with
    | none => false
    | some e => !(decide (s.minError < e))) || decide (s.samp.maxSamples ≤ nOf s x)) = c
  cases c
  · exact Or.inl rfl
  · exact Or.inr rfl

theorem popCheck_samp (s : State α) (x : α) : (popCheck s x).samp = s.samp := by
  rcases popCheck_eq s x with h | h <;> rw [h]

theorem popCheck_base (s : State α) (x : α) : (popCheck s x).base = s.base := by
  rcases popCheck_eq s x with h | h <;> rw [h]

theorem popCheck_dist (s : State α) (x : α) : (popCheck s x).dist = s.dist := by
  rcases popCheck_eq s x with h | h <;> rw [h]

theorem popCheck_pend (s : State α) (x : α) : (popCheck s x).pend = s.pend := by
  rcases popCheck_eq s x with h | h <;> rw [h]

theorem afterResample_samp (s : State α) (samp : Avg1D.State α) (x : α) (ys : List α) :
    (afterResample lossFn r12 hypot s samp x ys).samp = samp := by
  unfold afterResample
  dsimp only
  rw [popCheck_samp, updateRescaled_samp]
  rfl

theorem tellNew_samp (s : State α) (seed : Nat) (x y : α) :
    (tellNew lossFn r12 sqrt tq hypot s seed x y).samp = Avg1D.tell sqrt tq s.samp seed x y := by
  unfold tellNew
  dsimp only
  rw [updateRescaled_samp]
  rfl

theorem tell_samp (s : State α) (seed : Nat) (x y : α) :
    (tell lossFn r12 sqrt tq hypot s seed x y).samp = Avg1D.tell sqrt tq s.samp seed x y := by
  unfold tell
  dsimp only
  cases h : Avg1D.find? s.samp x with
  | none => exact tellNew_samp lossFn r12 sqrt tq hypot s seed x y
  | some p =>
    dsimp only
    by_cases hk : p.samples.any (fun sy => sy.1 == seed) = true
    · rw [if_pos hk]
      unfold Avg1D.tell
      simp only [h, hk, if_true]
    · rw [if_neg hk]
      exact afterResample_samp lossFn r12 hypot s _ x [y]

theorem tellManyAtPoint_samp (s : State α) (x : α) (m : List (Nat × α)) :
    (tellManyAtPoint lossFn r12 sqrt tq hypot s x m).samp =
      Avg1D.tellManyAtPoint sqrt tq s.samp x m := by
  unfold tellManyAtPoint
  dsimp only
  cases hf : Avg1D.find? s.samp x with
  | none =>
    cases m with
    | nil => rw [Avg1D.tellMany_nil]
    | cons kv rest =>
      obtain ⟨seed, y⟩ := kv
      rw [Avg1D.tellMany_none_cons _ _ _ _ _ _ _ hf]
      cases rest with
      | nil =>
        dsimp only
        rw [Avg1D.tellMany_nil, tellNew_samp]
      | cons kv2 rest2 =>
        dsimp only
        rw [afterResample_samp, tellNew_samp]
  | some p =>
    cases m with
    | nil => rw [Avg1D.tellMany_nil]
    | cons kv rest =>
      dsimp only
      rw [afterResample_samp]

theorem tellPending_samp (s : State α) (seed : Nat) (x : α) :
    (tellPending lossFn r12 s seed x).samp = s.samp := by
  unfold tellPending
  dsimp only
  split <;> rfl

theorem removeUnfinished_samp (s : State α) : (removeUnfinished s).samp = s.samp := rfl

theorem foldl_tellPending_samp (pts : List (Nat × α)) (s : State α) :
    (pts.foldl (fun s p => tellPending lossFn r12 s p.1 p.2) s).samp = s.samp := by
  induction pts generalizing s with
  | nil => rfl
  | cons p ps ih => rw [List.foldl_cons, ih, tellPending_samp]

theorem ask_samp (s : State α) (n : Nat) (c : α) (commit : Bool) (r) 
    (h : ask lossFn r12 sqrt s n c commit = some r) : r.2.samp = s.samp := by
  unfold ask at h
  cases hp : askPts r12 sqrt s n c with
  | none => rw [hp] at h; cases h
  | some q =>
    rw [hp] at h
    simp only [Option.map_some, Option.some.injEq] at h
    subst h
    dsimp only
    split
    · exact foldl_tellPending_samp lossFn r12 _ s
    · rfl

/-! ### `tell_many` is a sequence of single tells and per-abscissa batches -/

/-- the operation `tell_many` performs for one abscissa of its mapping -/
def groupOp (g : α × List (Nat × α)) : Option (Op α) :=
  match g.2 with
  | [] => none
  | [(seed, y)] => some (.tell seed g.1 y)
  | m => some (.tellManyAtPoint g.1 m)

/-- the operations `tell_many(xs, ys)` performs, in order -/
def groupOps (pts : List ((Nat × α) × α)) : List (Op α) := (groupPts pts).filterMap groupOp

theorem tellMany_eq_run (s : State α) (pts : List ((Nat × α) × α)) :
    tellMany lossFn r12 sqrt tq hypot s pts = run lossFn r12 sqrt tq hypot s (groupOps pts) := by
  unfold tellMany groupOps run
  generalize groupPts pts = gs
  induction gs generalizing s with
  | nil => rfl
  | cons g gs ih =>
    rw [List.foldl_cons, ih]
    obtain ⟨x, m⟩ := g
    cases m with
    | nil => rfl
    | cons kv rest =>
      obtain ⟨seed, y⟩ := kv
      cases rest with
      | nil => rfl
      | cons kv2 rest2 => rfl

/-- every `tell_many` replaced by the operations it performs -/
def expandOps (ops : List (Op α)) : List (Op α) :=
  ops.flatMap fun
    | .tellMany pts => groupOps pts
    | op => [op]

theorem run_append (s : State α) (a b : List (Op α)) :
    run lossFn r12 sqrt tq hypot s (a ++ b) =
      run lossFn r12 sqrt tq hypot (run lossFn r12 sqrt tq hypot s a) b := by
  unfold run; rw [List.foldl_append]

theorem run_expandOps (s : State α) (ops : List (Op α)) :
    run lossFn r12 sqrt tq hypot s ops = run lossFn r12 sqrt tq hypot s (expandOps ops) := by
  induction ops generalizing s with
  | nil => rfl
  | cons op ops ih =>
    have hcons : expandOps (op :: ops) = expandOps [op] ++ expandOps ops := by
      unfold expandOps; simp [List.flatMap_cons]
    rw [hcons, run_append, ← ih]
    show run lossFn r12 sqrt tq hypot (step lossFn r12 sqrt tq hypot s op) ops = _
    congr 1
    cases op with
    | tellMany pts =>
      show tellMany lossFn r12 sqrt tq hypot s pts = _
      rw [tellMany_eq_run]
      unfold expandOps; simp [List.flatMap_cons]
    | _ => rfl

/-- no `tell_many` left -/
def NoTellMany (ops : List (Op α)) : Prop := ∀ op ∈ ops, ∀ pts, op ≠ .tellMany pts

theorem noTellMany_groupOps (pts : List ((Nat × α) × α)) : NoTellMany (groupOps pts) := by
  intro op hop q
  unfold groupOps at hop
  obtain ⟨g, -, hg⟩ := List.mem_filterMap.1 hop
  unfold groupOp at hg
  split at hg
  · cases hg
  · cases hg; intro h; cases h
  · cases hg; intro h; cases h

theorem noTellMany_expandOps (ops : List (Op α)) : NoTellMany (expandOps ops) := by
  intro op hop q
  unfold expandOps at hop
  obtain ⟨o, -, ho⟩ := List.mem_flatMap.1 hop
  cases o with
  | tellMany pts => exact noTellMany_groupOps pts op ho q
  | tell a b c => simp at ho; subst ho; intro h; cases h
  | tellPending a b => simp at ho; subst ho; intro h; cases h
  | tellManyAtPoint a b => simp at ho; subst ho; intro h; cases h
  | removeUnfinished => simp at ho; subst ho; intro h; cases h
  | ask a b c => simp at ho; subst ho; intro h; cases h

/-! ### the sampling part of a run is a run of `Avg1D.lean` -/

/-- the action of an operation on the sampling part -/
def sampStep (t : Avg1D.State α) : Op α → Avg1D.State α
  | .tell seed x y => Avg1D.tell sqrt tq t seed x y
  | .tellManyAtPoint x m => Avg1D.tellManyAtPoint sqrt tq t x m
  | _ => t

theorem step_samp (s : State α) (op : Op α) (h : ∀ pts, op ≠ .tellMany pts) :
    (step lossFn r12 sqrt tq hypot s op).samp = sampStep sqrt tq s.samp op := by
  cases op with
  | tell seed x y => exact tell_samp lossFn r12 sqrt tq hypot s seed x y
  | tellPending seed x => exact tellPending_samp lossFn r12 s seed x
  | tellMany pts => exact absurd rfl (h pts)
  | tellManyAtPoint x m => exact tellManyAtPoint_samp lossFn r12 sqrt tq hypot s x m
  | removeUnfinished => rfl
  | ask n c commit =>
    show (match ask lossFn r12 sqrt s n c commit with
      | some r => r.2
      | none => s).samp = s.samp
    cases hr : ask lossFn r12 sqrt s n c commit with
    | none => rfl
    | some r => exact ask_samp lossFn r12 sqrt s n c commit r hr

theorem run_samp (s : State α) (ops : List (Op α)) (h : NoTellMany ops) :
    (run lossFn r12 sqrt tq hypot s ops).samp = ops.foldl (sampStep sqrt tq) s.samp := by
  induction ops generalizing s with
  | nil => rfl
  | cons op ops ih =>
    show (run lossFn r12 sqrt tq hypot (step lossFn r12 sqrt tq hypot s op) ops).samp = _
    rw [ih _ (fun o ho => h o (List.mem_cons_of_mem _ ho)), step_samp _ _ _ _ _ _ _
      (h op List.mem_cons_self)]
    rfl

/-! ### validity of batched tells, and the bookkeeping invariant of `Avg1D.lean` along a run -/

/-- the property's quantifier for a batch: distinct seeds, none of them held at that abscissa
(the batch path double counts otherwise) -/
def ValidOp (t : Avg1D.State α) : Op α → Prop
  | .tellManyAtPoint x m => (m.map Prod.fst).Nodup ∧
      ∀ p, Avg1D.find? t x = some p → ∀ k ∈ m.map Prod.fst, k ∉ p.samples.map Prod.fst
  | _ => True

def ValidFrom : Avg1D.State α → List (Op α) → Prop
  | _, [] => True
  | t, op :: ops => ValidOp t op ∧ ValidFrom (sampStep sqrt tq t op) ops

theorem stGood_sampStep (t : Avg1D.State α) (h : Avg1D.StGood t) (op : Op α) (hv : ValidOp t op) :
    Avg1D.StGood (sampStep sqrt tq t op) := by
  cases op with
  | tell seed x y => exact Avg1D.stGood_tell sqrt tq t h seed x y
  | tellManyAtPoint x m => exact Avg1D.stGood_tellMany sqrt tq t h x m hv.1 hv.2
  | tellPending _ _ => exact h
  | tellMany _ => exact h
  | removeUnfinished => exact h
  | ask _ _ _ => exact h

theorem stGood_foldl_sampStep (ops : List (Op α)) (t : Avg1D.State α) (h : Avg1D.StGood t)
    (hv : ValidFrom sqrt tq t ops) : Avg1D.StGood (ops.foldl (sampStep sqrt tq) t) := by
  induction ops generalizing t with
  | nil => exact h
  | cons op ops ih => exact ih _ (stGood_sampStep sqrt tq t h op hv.1) hv.2

/-! ### the evaluated abscissae and the running means -/

theorem core_recomputeLive (s : L1D.State α) (i : Nat) :
    L1D.core (recomputeLive lossFn r12 s i) = L1D.core s := by
  induction i generalizing s with
  | zero => unfold recomputeLive; split <;> rfl
  | succ i ih =>
    unfold recomputeLive
    split
    · rw [ih]; rfl
    · rfl

theorem maybeRescaleLive_xs (s : L1D.State α) : (maybeRescaleLive lossFn r12 s).xs = s.xs := by
  unfold maybeRescaleLive
  split
  · dsimp only
    split
    · rfl
    · have h := congrArg L1D.State.xs (core_recomputeLive lossFn r12 s (s.losses.length - 1)); exact h
  · rfl

theorem maybeRescaleLive_data (s : L1D.State α) : (maybeRescaleLive lossFn r12 s).data = s.data := by
  unfold maybeRescaleLive
  split
  · dsimp only
    split
    · rfl
    · have h := congrArg L1D.State.data (core_recomputeLive lossFn r12 s (s.losses.length - 1)); exact h
  · rfl

theorem core_updateLossesResampling (s : L1D.State α) (x : α) (real : Bool) :
    L1D.core (updateLossesResampling lossFn r12 s x real) = L1D.core s := by
  unfold updateLossesResampling L1D.findNeighbors
  dsimp only
  cases real
  · simp only [Bool.false_eq_true, if_false]
    repeat' split
    all_goals rfl
  · simp only [if_true]
    repeat' split
    all_goals first | rfl | exact L1D.core_foldl_updInterp lossFn r12 _ _

theorem foldl_updateScale_xs (ys : List α) (b : L1D.State α) (x : α) :
    (ys.foldl (fun b y => L1D.updateScale b x [y]) b).xs = b.xs := by
  induction ys generalizing b with
  | nil => rfl
  | cons y ys ih => rw [List.foldl_cons, ih]; rfl

theorem foldl_updateScale_data (ys : List α) (b : L1D.State α) (x : α) :
    (ys.foldl (fun b y => L1D.updateScale b x [y]) b).data = b.data := by
  induction ys generalizing b with
  | nil => rfl
  | cons y ys ih => rw [List.foldl_cons, ih]; rfl

theorem updateLosses_xs (b : L1D.State α) (x : α) (real : Bool) :
    (L1D.updateLosses lossFn r12 b x real).xs = b.xs := by
  have h := congrArg L1D.State.xs (L1D.core_updateLosses lossFn r12 b x real); exact h

theorem updateLosses_data (b : L1D.State α) (x : α) (real : Bool) :
    (L1D.updateLosses lossFn r12 b x real).data = b.data := by
  have h := congrArg L1D.State.data (L1D.core_updateLosses lossFn r12 b x real); exact h

theorem updateLossesResampling_xs (b : L1D.State α) (x : α) (real : Bool) :
    (updateLossesResampling lossFn r12 b x real).xs = b.xs := by
  have h := congrArg L1D.State.xs (core_updateLossesResampling lossFn r12 b x real); exact h

theorem updateLossesResampling_data (b : L1D.State α) (x : α) (real : Bool) :
    (updateLossesResampling lossFn r12 b x real).data = b.data := by
  have h := congrArg L1D.State.data (core_updateLossesResampling lossFn r12 b x real); exact h

theorem tellNew_xs (s : State α) (seed : Nat) (x y : α) :
    (tellNew lossFn r12 sqrt tq hypot s seed x y).base.xs = L1D.sinsert x s.base.xs := by
  unfold tellNew
  dsimp only
  rw [updateRescaled_base, updateDistances_base]
  dsimp only
  rw [maybeRescaleLive_xs, updateLosses_xs]
  rfl

theorem tellNew_data (s : State α) (seed : Nat) (x y : α) :
    (tellNew lossFn r12 sqrt tq hypot s seed x y).base.data = s.base.data ++ [(x, [y])] := by
  unfold tellNew
  dsimp only
  rw [updateRescaled_base, updateDistances_base]
  dsimp only
  rw [maybeRescaleLive_data, updateLosses_data]
  rfl

/-- the mean `afterResample` writes into `data` -/
def meanIn (samp : Avg1D.State α) (x : α) : α := match Avg1D.find? samp x with
  | some p => p.mean
  | none => 0

theorem afterResample_xs (s : State α) (samp : Avg1D.State α) (x : α) (ys : List α) :
    (afterResample lossFn r12 hypot s samp x ys).base.xs = s.base.xs := by
  unfold afterResample
  dsimp only
  rw [maybeRescaleLive_xs, updateLossesResampling_xs, foldl_updateScale_xs, popCheck_base,
    updateRescaled_base, updateDistances_base]

theorem afterResample_data (s : State α) (samp : Avg1D.State α) (x : α) (ys : List α) :
    (afterResample lossFn r12 hypot s samp x ys).base.data = dataPut s.base.data x [meanIn samp x] := by
  unfold afterResample
  dsimp only
  rw [maybeRescaleLive_data, updateLossesResampling_data, foldl_updateScale_data, popCheck_base,
    updateRescaled_base, updateDistances_base]
  rfl

theorem tellPending_xs (s : State α) (seed : Nat) (x : α) :
    (tellPending lossFn r12 s seed x).base.xs = s.base.xs := by
  unfold tellPending
  dsimp only
  split
  · rfl
  · dsimp only; rw [updateLosses_xs]

theorem tellPending_data (s : State α) (seed : Nat) (x : α) :
    (tellPending lossFn r12 s seed x).base.data = s.base.data := by
  unfold tellPending
  dsimp only
  split
  · rfl
  · dsimp only; rw [updateLosses_data]

theorem tellPending_dist (s : State α) (seed : Nat) (x : α) :
    (tellPending lossFn r12 s seed x).dist = s.dist := by
  unfold tellPending
  dsimp only
  split <;> rfl

theorem tellPending_resc (s : State α) (seed : Nat) (x : α) :
    (tellPending lossFn r12 s seed x).resc = s.resc := by
  unfold tellPending
  dsimp only
  split <;> rfl
