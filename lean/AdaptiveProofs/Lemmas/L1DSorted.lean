import AdaptiveProofs.Lemmas.L1DDefs

/-! The two loss tables of the Learner1D model are always in `ItemSortedDict` order, hence `loss`
returns an entry of maximal (rounded, infinity-aware) loss. -/
set_option linter.unusedSectionVars false
namespace L1D
variable {α : Type} [Field α] [LinearOrder α] [IsStrictOrderedRing α]
variable (lossFn : List (Option α) → List (Option (List α)) → Loss α) (r12 : α → α)

/-! ### `ivalLt` is a strict total order -/

theorem ivalLt_iff (a b : Ival α) :
    ivalLt a b = true ↔ (a.1 < b.1 ∨ (a.1 = b.1 ∧ a.2 < b.2)) := by
  simp [ivalLt]

theorem ivalLt_irrefl (a : Ival α) : ivalLt a a = false := by
  simp [ivalLt]

theorem ivalLt_trans {a b c : Ival α} (h1 : ivalLt a b = true) (h2 : ivalLt b c = true) :
    ivalLt a c = true := by
  rw [ivalLt_iff] at *
  rcases h1 with h1 | ⟨h1, h1'⟩ <;> rcases h2 with h2 | ⟨h2, h2'⟩
  · exact Or.inl (lt_trans h1 h2)
  · exact Or.inl (h2 ▸ h1)
  · exact Or.inl (h1 ▸ h2)
  · exact Or.inr ⟨h1.trans h2, lt_trans h1' h2'⟩

theorem ivalLt_total {a b : Ival α} (hne : a ≠ b) (h : ivalLt a b = false) :
    ivalLt b a = true := by
  rw [← Bool.not_eq_true, ivalLt_iff] at h
  rw [ivalLt_iff]
  rcases lt_trichotomy a.1 b.1 with h1 | h1 | h1
  · exact absurd (Or.inl h1) h
  · rcases lt_trichotomy a.2 b.2 with h2 | h2 | h2
    · exact absurd (Or.inr ⟨h1, h2⟩) h
    · exact absurd (Prod.ext h1 h2) hne
    · exact Or.inr ⟨h1.symm, h2⟩
  · exact Or.inl h1

/-! ### `keyLt` is a strict total order on entries with distinct intervals -/

theorem keyLt_iff (sc : α) (a b : Ival α × Loss α) :
    keyLt r12 sc a b = true ↔
      (finiteLoss r12 b.1 b.2 sc < finiteLoss r12 a.1 a.2 sc ∨
        (finiteLoss r12 a.1 a.2 sc = finiteLoss r12 b.1 b.2 sc ∧ ivalLt a.1 b.1 = true)) := by
  simp [keyLt]

theorem keyLt_irrefl (sc : α) (a : Ival α × Loss α) : keyLt r12 sc a a = false := by
  rw [← Bool.not_eq_true, keyLt_iff]
  simp [ivalLt_irrefl]

theorem keyLt_trans {sc : α} {a b c : Ival α × Loss α} (h1 : keyLt r12 sc a b = true)
    (h2 : keyLt r12 sc b c = true) : keyLt r12 sc a c = true := by
  rw [keyLt_iff] at *
  rcases h1 with h1 | ⟨h1, h1'⟩ <;> rcases h2 with h2 | ⟨h2, h2'⟩
  · exact Or.inl (lt_trans h2 h1)
  · exact Or.inl (h2 ▸ h1)
  · exact Or.inl (h1 ▸ h2)
  · exact Or.inr ⟨h1.trans h2, ivalLt_trans h1' h2'⟩

theorem keyLt_total {sc : α} {a b : Ival α × Loss α} (hne : a.1 ≠ b.1)
    (h : keyLt r12 sc a b = false) : keyLt r12 sc b a = true := by
  rw [← Bool.not_eq_true, keyLt_iff] at h
  rw [keyLt_iff]
  rcases lt_trichotomy (finiteLoss r12 a.1 a.2 sc) (finiteLoss r12 b.1 b.2 sc) with h1 | h1 | h1
  · exact Or.inl h1
  · refine Or.inr ⟨h1.symm, ivalLt_total hne ?_⟩
    rw [← Bool.not_eq_true]
    exact fun h2 => h (Or.inr ⟨h1, h2⟩)
  · exact absurd (Or.inl h1) h

/-- `keyLt` implies the (non-strict) order of the rounded losses -/
theorem keyLt_le {sc : α} {a b : Ival α × Loss α} (h : keyLt r12 sc a b = true) :
    finiteLoss r12 b.1 b.2 sc ≤ finiteLoss r12 a.1 a.2 sc := by
  rw [keyLt_iff] at h
  rcases h with h | ⟨h, _⟩
  · exact le_of_lt h
  · exact le_of_eq h.symm

/-! ### `linsert`, `lerase`, `lset` -/

theorem mem_linsert {sc : α} {e x : Ival α × Loss α} {l : List (Ival α × Loss α)} :
    x ∈ linsert r12 sc e l ↔ x = e ∨ x ∈ l := by
  induction l with
  | nil => simp [linsert]
  | cons f r ih =>
    simp only [linsert]
    split
    · simp
    · simp only [List.mem_cons, ih]
      tauto

theorem sortedT_nil (sc : α) : SortedT r12 sc [] := List.Pairwise.nil

theorem sortedT_linsert {sc : α} {e : Ival α × Loss α} {l : List (Ival α × Loss α)}
    (h : SortedT r12 sc l) (hne : ∀ f ∈ l, f.1 ≠ e.1) : SortedT r12 sc (linsert r12 sc e l) := by
  induction l with
  | nil => simp [linsert, SortedT]
  | cons f r ih =>
    have hfr := List.pairwise_cons.1 h
    simp only [linsert]
    split
    · rename_i hk
      refine List.pairwise_cons.2 ⟨?_, h⟩
      intro x hx
      rcases List.mem_cons.1 hx with rfl | hx
      · exact hk
      · exact keyLt_trans r12 hk (hfr.1 x hx)
    · rename_i hk
      refine List.pairwise_cons.2 ⟨?_, ih hfr.2 (fun g hg => hne g (List.mem_cons_of_mem _ hg))⟩
      intro x hx
      rcases (mem_linsert r12).1 hx with rfl | hx
      · exact keyLt_total r12 (fun h' => hne f List.mem_cons_self h'.symm) (by simpa using hk)
      · exact hfr.1 x hx

theorem mem_lerase {iv : Ival α} {x : Ival α × Loss α} {l : List (Ival α × Loss α)} :
    x ∈ lerase iv l ↔ x ∈ l ∧ x.1 ≠ iv := by
  simp [lerase]

theorem sortedT_lerase {sc : α} {iv : Ival α} {l : List (Ival α × Loss α)}
    (h : SortedT r12 sc l) : SortedT r12 sc (lerase iv l) :=
  List.Pairwise.sublist List.filter_sublist h

theorem mem_lset {sc : α} {iv : Ival α} {v : Loss α} {e : Ival α × Loss α}
    {l : List (Ival α × Loss α)} :
    e ∈ lset r12 sc iv v l ↔ e = (iv, v) ∨ (e ∈ l ∧ e.1 ≠ iv) := by
  simp only [lset, mem_linsert, mem_lerase]

theorem sortedT_lset {sc : α} {iv : Ival α} {v : Loss α} {l : List (Ival α × Loss α)}
    (h : SortedT r12 sc l) : SortedT r12 sc (lset r12 sc iv v l) :=
  sortedT_linsert r12 (sortedT_lerase r12 h) (fun _ hf => ((mem_lerase).1 hf).2)

theorem sortedT_foldl_lset {β : Type} {sc : α} (ki : β → Ival α) (g : β → Loss α) (ks : List β)
    {l : List (Ival α × Loss α)} (h : SortedT r12 sc l) :
    SortedT r12 sc (ks.foldl (fun lc ab => lset r12 sc (ki ab) (g ab) lc) l) := by
  induction ks generalizing l with
  | nil => exact h
  | cons k ks ih => exact ih (sortedT_lset r12 h)

/-! ### the invariant, with the scale made explicit -/

/-- both tables sorted for the scale `sc`, which is the state's `lossScale` -/
def TS (sc : α) (s : State α) : Prop :=
  s.lossScale = sc ∧ SortedT r12 sc s.losses ∧ SortedT r12 sc s.lossesC

theorem tablesSorted_iff_TS (s : State α) : TablesSorted r12 s ↔ TS r12 s.lossScale s := by
  simp [TablesSorted, TS]

theorem TS.tablesSorted {sc : α} {s : State α} (h : TS r12 sc s) : TablesSorted r12 s := by
  obtain ⟨h1, h2, h3⟩ := h
  subst h1
  exact ⟨h2, h3⟩

theorem ts_foldl {β : Type} {sc : α} (f : State α → β → State α)
    (hf : ∀ s b, TS r12 sc s → TS r12 sc (f s b)) (l : List β) {s : State α}
    (h : TS r12 sc s) : TS r12 sc (l.foldl f s) := by
  induction l generalizing s with
  | nil => exact h
  | cons b l ih => exact ih (hf s b h)

theorem ts_updInterp {sc : α} {s : State α} (xl xr : α) (h : TS r12 sc s) :
    TS r12 sc (updInterp lossFn r12 s xl xr) := by
  obtain ⟨h1, h2, h3⟩ := h
  subst h1
  refine ⟨rfl, sortedT_lset r12 h2, ?_⟩
  exact sortedT_foldl_lset r12 (fun ab => ab) _ _ h3

/-! ### `updateLosses` -/

theorem ts_setC_lset {sc : α} {s : State α} (iv : Ival α) (v : Loss α) (h : TS r12 sc s) :
    TS r12 sc { s with lossesC := lset r12 s.lossScale iv v s.lossesC } := by
  obtain ⟨h1, h2, h3⟩ := h
  subst h1
  exact ⟨rfl, h2, sortedT_lset r12 h3⟩

theorem ts_setC_lerase {sc : α} {s : State α} (iv : Ival α) (h : TS r12 sc s) :
    TS r12 sc { s with lossesC := lerase iv s.lossesC } :=
  ⟨h.1, h.2.1, sortedT_lerase r12 h.2.2⟩

theorem ts_set_lerase {sc : α} {s : State α} (iv iv' : Ival α) (h : TS r12 sc s) :
    TS r12 sc { s with losses := lerase iv s.losses, lossesC := lerase iv' s.lossesC } :=
  ⟨h.1, sortedT_lerase r12 h.2.1, sortedT_lerase r12 h.2.2⟩

/-- the stages of `updateLosses` (the model's `let`-chain, cut at the rebindings of `s`) -/
def ulStage1 (s : State α) (a b : Option α) : State α :=
  match a, b with
  | some a, some b => { s with lossesC := lerase (a, b) s.lossesC }
  | _, _ => s

def ulStage2 (s : State α) (x : α) (real : Bool) (xl xr a b : Option α) : State α :=
  if real then
    let s := (getIntervals s x).foldl (fun s iv => updInterp lossFn r12 s iv.1 iv.2) s
    match xl, xr with
    | some xl, some xr => { s with losses := lerase (xl, xr) s.losses, lossesC := lerase (xl, xr) s.lossesC }
    | _, _ => s
  else
    match xl, xr, a, b with
    | some xl, some xr, some a, some b =>
      let dx := xr - xl
      let loss := (lget (xl, xr) s.losses).getD .inf
      let lc := lset r12 s.lossScale (a, x) (Loss.mulDiv (x - a) loss dx) s.lossesC
      let lc := lset r12 s.lossScale (x, b) (Loss.mulDiv (b - x) loss dx) lc
      { s with lossesC := lc }
    | _, _, _, _ => s

def ulStage3 (s : State α) (x : α) (a : Option α) (leftUnknown : Bool) : State α :=
  match a with
  | some a => if leftUnknown then { s with lossesC := lset r12 s.lossScale (a, x) .inf s.lossesC } else s
  | none => s

def ulStage4 (s : State α) (x : α) (b : Option α) (rightUnknown : Bool) : State α :=
  match b with
  | some b => if rightUnknown then { s with lossesC := lset r12 s.lossScale (x, b) .inf s.lossesC } else s
  | none => s

theorem updateLosses_eq (s : State α) (x : α) (real : Bool) :
    updateLosses lossFn r12 s x real =
      ulStage4 r12
        (ulStage3 r12
          (ulStage2 lossFn r12 (ulStage1 s (leftOf x s.xsC) (rightOf x s.xsC)) x real
            (leftOf x s.xs) (rightOf x s.xs) (leftOf x s.xsC) (rightOf x s.xsC))
          x (leftOf x s.xsC) ((leftOf x s.xs).isNone || (!real && (rightOf x s.xs).isNone)))
        x (rightOf x s.xsC) ((rightOf x s.xs).isNone || (!real && (leftOf x s.xs).isNone)) := rfl

theorem ts_ulStage1 {sc : α} {s : State α} (a b : Option α) (h : TS r12 sc s) :
    TS r12 sc (ulStage1 s a b) := by
  unfold ulStage1
  split
  · exact ts_setC_lerase r12 _ h
  · exact h

theorem ts_ulStage2 {sc : α} {s : State α} (x : α) (real : Bool) (xl xr a b : Option α)
    (h : TS r12 sc s) : TS r12 sc (ulStage2 lossFn r12 s x real xl xr a b) := by
  unfold ulStage2
  split
  · have hf := ts_foldl r12 (fun s (iv : Ival α) => updInterp lossFn r12 s iv.1 iv.2)
      (fun s iv hs => ts_updInterp lossFn r12 iv.1 iv.2 hs) (getIntervals s x) h
    dsimp only
    split
    · exact ts_set_lerase r12 _ _ hf
    · exact hf
  · split
    · exact ts_setC_lset r12 _ _ (ts_setC_lset r12 _ _ h)
    · exact h

theorem ts_ulStage3 {sc : α} {s : State α} (x : α) (a : Option α) (lu : Bool)
    (h : TS r12 sc s) : TS r12 sc (ulStage3 r12 s x a lu) := by
  unfold ulStage3
  split
  · split
    · exact ts_setC_lset r12 _ _ h
    · exact h
  · exact h

theorem ts_ulStage4 {sc : α} {s : State α} (x : α) (b : Option α) (ru : Bool)
    (h : TS r12 sc s) : TS r12 sc (ulStage4 r12 s x b ru) := by
  unfold ulStage4
  split
  · split
    · exact ts_setC_lset r12 _ _ h
    · exact h
  · exact h

theorem ts_updateLosses {sc : α} {s : State α} (x : α) (real : Bool) (h : TS r12 sc s) :
    TS r12 sc (updateLosses lossFn r12 s x real) := by
  rw [updateLosses_eq]
  exact ts_ulStage4 r12 _ _ _ (ts_ulStage3 r12 _ _ _ (ts_ulStage2 lossFn r12 _ _ _ _ _ _
    (ts_ulStage1 r12 _ _ h)))

/-! ### the other state transformers -/

theorem foldl_inv {β γ : Type} (P : γ → Prop) (f : γ → β → γ) (hf : ∀ c b, P c → P (f c b))
    (l : List β) {c : γ} (h : P c) : P (l.foldl f c) := by
  induction l generalizing c with
  | nil => exact h
  | cons b l ih => exact ih (hf c b h)

theorem ts_congr {sc : α} {s s' : State α} (h1 : s'.lossScale = s.lossScale)
    (h2 : s'.losses = s.losses) (h3 : s'.lossesC = s.lossesC) (h : TS r12 sc s) : TS r12 sc s' := by
  unfold TS at *
  rw [h1, h2, h3]; exact h

theorem ts_updateScale {sc : α} {s : State α} (x : α) (y : List α) (h : TS r12 sc s) :
    TS r12 sc (updateScale s x y) := ts_congr r12 rfl rfl rfl h

theorem ts_recomputeLoop {sc : α} {s : State α} (keys : List (Ival α)) (h : TS r12 sc s) :
    TS r12 sc (recomputeLoop lossFn r12 s keys) :=
  ts_foldl r12 _ (fun _ iv hs => ts_updInterp lossFn r12 iv.1 iv.2 hs) keys h

theorem ts_maybeRescale {sc : α} {s : State α} (h : TS r12 sc s) :
    TS r12 sc (maybeRescale lossFn r12 s) := by
  unfold maybeRescale
  split
  · exact ts_congr r12 rfl rfl rfl (ts_recomputeLoop lossFn r12 _ h)
  · exact h

theorem ts_tell {sc : α} {s : State α} (x : α) (y : List α) (h : TS r12 sc s) :
    TS r12 sc (tell lossFn r12 s x y) := by
  unfold tell
  split
  · exact h
  · exact ts_maybeRescale lossFn r12 (ts_updateLosses lossFn r12 _ _
      (ts_updateScale r12 _ _ (ts_congr r12 rfl rfl rfl h)))

theorem ts_tellPending {sc : α} {s : State α} (x : α) (h : TS r12 sc s) :
    TS r12 sc (tellPending lossFn r12 s x) := by
  unfold tellPending
  split
  · exact h
  · exact ts_updateLosses lossFn r12 _ _ (ts_congr r12 rfl rfl rfl h)

theorem ts_removeUnfinished {sc : α} {s : State α} (h : TS r12 sc s) :
    TS r12 sc (removeUnfinished s) := ⟨h.1, h.2.1, h.2.1⟩

theorem ts_set_lset {sc : α} {s : State α} (iv : Ival α) (v : Loss α) (h : TS r12 sc s) :
    TS r12 sc { s with losses := lset r12 s.lossScale iv v s.losses } := by
  obtain ⟨h1, h2, h3⟩ := h
  subst h1
  exact ⟨rfl, sortedT_lset r12 h2, h3⟩

/-- `tellManyBatch` after the reset of the tables: fill `losses`, fill `lossesC` and collect the runs
to interpolate, interpolate them -/
def tmbTail (s : State α) (xs xsC : List α) : State α :=
  let s := (pairs xs).foldl
    (fun s iv => { s with losses := lset r12 s.lossScale iv (getLoss lossFn s iv.1 iv.2) s.losses }) s
  let (s, toInterp) := (pairs xsC).foldl
    (fun (acc : State α × List (Ival α)) iv =>
      let (s, ti) := acc
      match lget iv s.losses with
      | some v => ({ s with lossesC := lset r12 s.lossScale iv v s.lossesC }, ti)
      | none =>
        let s := { s with lossesC := lset r12 s.lossScale iv .inf s.lossesC }
        match ti.getLast? with
        | some (a, b) =>
          if b = iv.1 ∧ !(hasData s b) then (s, ti.dropLast ++ [(a, iv.2)])
          else (s, ti ++ [iv])
        | none => (s, ti ++ [iv]))
    (s, [])
  toInterp.foldl
    (fun s iv => if (lget iv s.losses).isSome then updInterp lossFn r12 s iv.1 iv.2 else s) s

theorem ts_tmbTail {sc : α} {s : State α} (xs xsC : List α) (h : TS r12 sc s) :
    TS r12 sc (tmbTail lossFn r12 s xs xsC) := by
  unfold tmbTail
  have h1 := ts_foldl r12
    (fun s (iv : Ival α) =>
      { s with losses := lset r12 s.lossScale iv (getLoss lossFn s iv.1 iv.2) s.losses })
    (fun s iv hs => ts_set_lset r12 iv _ hs) (pairs xs) h
  have h2 := foldl_inv (fun acc : State α × List (Ival α) => TS r12 sc acc.1)
    (fun (acc : State α × List (Ival α)) (iv : Ival α) =>
      let (s, ti) := acc
      match lget iv s.losses with
      | some v => ({ s with lossesC := lset r12 s.lossScale iv v s.lossesC }, ti)
      | none =>
        let s := { s with lossesC := lset r12 s.lossScale iv .inf s.lossesC }
        match ti.getLast? with
        | some (a, b) =>
          if b = iv.1 ∧ !(hasData s b) then (s, ti.dropLast ++ [(a, iv.2)])
          else (s, ti ++ [iv])
        | none => (s, ti ++ [iv])) ?_ (pairs xsC) (c := (_, [])) h1
  · dsimp only at h2 ⊢
    generalize List.foldl _ (_, []) (pairs xsC) = p at h2 ⊢
    obtain ⟨s2, ti⟩ := p
    dsimp only at h2 ⊢
    refine ts_foldl r12 _ ?_ ti h2
    intro s iv hs
    split
    · exact ts_updInterp lossFn r12 _ _ hs
    · exact hs
  · rintro ⟨s, ti⟩ iv hs
    dsimp only at hs ⊢
    split
    · exact ts_setC_lset r12 _ _ hs
    · have hs' := ts_setC_lset r12 iv .inf hs
      split
      · split
        · exact hs'
        · exact hs'
      · exact hs'

/-- the batch path re-creates both tables at the new scale, whatever they were before -/
theorem ts_tellManyBatch (s : State α) (pts : List (α × List α)) :
    ∃ sc, TS r12 sc (tellManyBatch lossFn r12 s pts) := by
  have key : ∀ (s0 : State α) (xs xsC : List α), s0.losses = [] → s0.lossesC = [] →
      TS r12 s0.lossScale (tmbTail lossFn r12 s0 xs xsC) := by
    intro s0 xs xsC h1 h2
    refine ts_tmbTail lossFn r12 _ _ ⟨rfl, ?_, ?_⟩
    · rw [h1]; exact sortedT_nil r12 _
    · rw [h2]; exact sortedT_nil r12 _
  refine ⟨_, key _ _ _ ?_ ?_⟩ <;> rfl



theorem ts_tellMany {sc : α} {s : State α} (pts : List (α × List α)) (force : Bool)
    (h : TS r12 sc s) : ∃ sc', TS r12 sc' (tellMany lossFn r12 s pts force) := by
  unfold tellMany
  split
  · exact ⟨sc, ts_foldl r12 _ (fun _ kv hs => ts_tell lossFn r12 kv.1 kv.2 hs) pts h⟩
  · exact ts_tellManyBatch lossFn r12 s pts

theorem ts_ask {sc : α} {s : State α} (n : Nat) (commit : Bool) (h : TS r12 sc s) :
    TS r12 sc (ask lossFn r12 s n commit).2 := by
  unfold ask
  dsimp only
  split
  · exact ts_foldl r12 _ (fun _ x hs => ts_tellPending lossFn r12 x hs) _ h
  · exact h

/-! ### the target theorems -/

theorem tablesSorted_init (lo hi factor dxEps : α) (nn : Nat) :
    TablesSorted r12 (init lo hi factor dxEps nn) :=
  ⟨sortedT_nil r12 _, sortedT_nil r12 _⟩

theorem tablesSorted_tell (s : State α) (x : α) (y : List α) (h : TablesSorted r12 s) :
    TablesSorted r12 (tell lossFn r12 s x y) :=
  (ts_tell lossFn r12 x y ((tablesSorted_iff_TS r12 s).1 h)).tablesSorted

theorem tablesSorted_tellPending (s : State α) (x : α) (h : TablesSorted r12 s) :
    TablesSorted r12 (tellPending lossFn r12 s x) :=
  (ts_tellPending lossFn r12 x ((tablesSorted_iff_TS r12 s).1 h)).tablesSorted

/-- the batch path needs no hypothesis: it rebuilds both tables from `[]` at the new scale -/
theorem tablesSorted_tellManyBatch (s : State α) (pts : List (α × List α)) :
    TablesSorted r12 (tellManyBatch lossFn r12 s pts) :=
  (ts_tellManyBatch lossFn r12 s pts).choose_spec.tablesSorted

theorem tablesSorted_tellMany (s : State α) (pts : List (α × List α)) (force : Bool)
    (h : TablesSorted r12 s) : TablesSorted r12 (tellMany lossFn r12 s pts force) :=
  (ts_tellMany lossFn r12 pts force ((tablesSorted_iff_TS r12 s).1 h)).choose_spec.tablesSorted

theorem tablesSorted_removeUnfinished (s : State α) (h : TablesSorted r12 s) :
    TablesSorted r12 (removeUnfinished s) :=
  (ts_removeUnfinished r12 ((tablesSorted_iff_TS r12 s).1 h)).tablesSorted

theorem tablesSorted_ask (s : State α) (n : Nat) (commit : Bool) (h : TablesSorted r12 s) :
    TablesSorted r12 (ask lossFn r12 s n commit).2 :=
  (ts_ask lossFn r12 n commit ((tablesSorted_iff_TS r12 s).1 h)).tablesSorted

theorem tablesSorted_step (s : State α) (op : Op α) (h : TablesSorted r12 s) :
    TablesSorted r12 (step lossFn r12 s op) := by
  cases op with
  | tell x y => exact tablesSorted_tell lossFn r12 s x y h
  | tellPending x => exact tablesSorted_tellPending lossFn r12 s x h
  | tellMany pts f => exact tablesSorted_tellMany lossFn r12 s pts f h
  | removeUnfinished => exact tablesSorted_removeUnfinished r12 s h
  | ask n c => exact tablesSorted_ask lossFn r12 s n c h

theorem tablesSorted_run_of (s : State α) (ops : List (Op α)) (h : TablesSorted r12 s) :
    TablesSorted r12 (run lossFn r12 s ops) :=
  foldl_inv (TablesSorted r12) (step lossFn r12) (fun s op hs => tablesSorted_step lossFn r12 s op hs)
    ops h

theorem tablesSorted_run (lo hi factor dxEps : α) (nn : Nat) (ops : List (Op α)) :
    TablesSorted r12 (run lossFn r12 (init lo hi factor dxEps nn) ops) :=
  tablesSorted_run_of lossFn r12 _ ops (tablesSorted_init r12 lo hi factor dxEps nn)

/-! ### the head of a sorted table has maximal loss; `loss` -/

theorem head_is_max {sc : α} {e : Ival α × Loss α} {l : List (Ival α × Loss α)}
    (h : SortedT r12 sc (e :: l)) :
    ∀ f ∈ l, finiteLoss r12 f.1 f.2 sc ≤ finiteLoss r12 e.1 e.2 sc :=
  fun f hf => keyLt_le r12 ((List.pairwise_cons.1 h).1 f hf)

/-- the table `loss s real` looks at -/
def lossTable (s : State α) (real : Bool) : List (Ival α × Loss α) :=
  if real then s.losses else s.lossesC

@[simp] theorem lossTable_true (s : State α) : lossTable s true = s.losses := rfl
@[simp] theorem lossTable_false (s : State α) : lossTable s false = s.lossesC := rfl

theorem sortedT_lossTable {s : State α} (real : Bool) (h : TablesSorted r12 s) :
    SortedT r12 s.lossScale (lossTable s real) := by
  cases real
  · exact h.2
  · exact h.1

theorem loss_inf_of_missing (s : State α) (real : Bool) (h : missingBounds s ≠ []) :
    loss s real = .inf := by
  unfold loss
  rw [if_pos]
  simpa [List.isEmpty_iff] using h

theorem loss_inf_of_empty (s : State α) (real : Bool) (h : lossTable s real = []) :
    loss s real = .inf := by
  unfold loss
  split
  · rfl
  · unfold lossTable at h
    rw [h]

theorem loss_eq_head (s : State α) (real : Bool) (hm : missingBounds s = [])
    {e : Ival α × Loss α} {l : List (Ival α × Loss α)} (h : lossTable s real = e :: l) :
    loss s real = e.2 := by
  unfold loss
  rw [if_neg (by simp [hm])]
  unfold lossTable at h
  rw [h]

/-- exact description of `loss s real` -/
theorem loss_spec (s : State α) (real : Bool) :
    ((missingBounds s ≠ [] ∨ lossTable s real = []) ∧ loss s real = .inf) ∨
    (missingBounds s = [] ∧ ∃ e l, lossTable s real = e :: l ∧ loss s real = e.2 ∧
      (TablesSorted r12 s → ∀ f ∈ lossTable s real,
        finiteLoss r12 f.1 f.2 s.lossScale ≤ finiteLoss r12 e.1 e.2 s.lossScale)) := by
  by_cases hm : missingBounds s = []
  · cases ht : lossTable s real with
    | nil => exact Or.inl ⟨Or.inr rfl, loss_inf_of_empty s real ht⟩
    | cons e l =>
      refine Or.inr ⟨hm, e, l, rfl, loss_eq_head s real hm ht, ?_⟩
      intro hts f hf
      have hs := sortedT_lossTable r12 real hts
      rw [ht] at hs
      rcases List.mem_cons.1 hf with rfl | hf
      · exact le_refl _
      · exact head_is_max r12 hs f hf
  · exact Or.inl ⟨Or.inl hm, loss_inf_of_missing s real hm⟩

/-- with both bounds known, a non-empty table of finite losses, and sorted tables, `loss s true` is
a finite loss whose rounding dominates the rounding of every loss in the table -/
theorem loss_real_ge_all_finite (s : State α) (hts : TablesSorted r12 s)
    (hm : missingBounds s = []) (hne : s.losses ≠ [])
    (hfin : ∀ e ∈ s.losses, ∃ w, e.2 = .fin w) :
    ∃ v, loss s true = .fin v ∧ ∀ iv w, (iv, Loss.fin w) ∈ s.losses → r12 w ≤ r12 v := by
  rcases loss_spec r12 s true with ⟨h | h, _⟩ | ⟨_, e, l, ht, hl, hmax⟩
  · exact absurd hm h
  · exact absurd h hne
  · have ht' : s.losses = e :: l := ht
    obtain ⟨v, hv⟩ := hfin e (by rw [ht']; exact List.mem_cons_self)
    refine ⟨v, hl.trans hv, ?_⟩
    intro iv w hw
    have := hmax hts (iv, .fin w) hw
    rw [hv] at this
    exact this


end L1D
