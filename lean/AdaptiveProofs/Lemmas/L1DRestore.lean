import AdaptiveProofs.Lemmas.OrderIndep
import AdaptiveProofs.Lemmas.L1DBook

/-!
# C13 — restore-bisimilarity for Learner1D (exact loss recomputation, `factor = 1`)

`Props/C13.lean` proves that the learner restored from the saved data (`setData fresh (getData s)`, i.e.
`tell_many` of all saved points into a fresh learner) holds the same `data`.  This file proves that it
BEHAVES the same for ever after:

* `SameContent s₁ s₂` : the two states hold the same results (`dataGet` agrees everywhere) and the same SET
  of pending points.
* `mem_step_pending`  : the pending set after one operation as a function of the old pending set, the old
  `hasData`, the operation and — for a committing `ask` — the points `askPoints` returns.
* `sameContent_step`  : one `step` preserves `SameContent` when both states return the same `askPoints`.
* `validOp_congr`     : `ValidOp` reads only `lo`, `hi` and `data.length`.
* `bisim_of_same_content` : (the general form) two valid histories from the same `init lo hi 1 dxEps nn`
  that end with the same content can never be told apart again: after EVERY common continuation `t` that
  is valid from the first state, `t` is valid from the second state too and the two states `Agree`
  (equal abscissa lists, equal loss tables as lists, equal scales, equal `loss`, equal `askPoints` for
  every `n`).
* `restore_bisimilar`, `restore_agrees`, `restore_same_answers` : the special case "history `h` ending with
  no pending points" versus "restored from its saved data".
* at the end: a kernel-checked instance at `Rat` (non-vacuity), and the remark why "no pending points" is
  needed.
-/
set_option linter.unusedSectionVars false
set_option linter.unusedVariables false

namespace L1D
variable {α : Type} [Field α] [LinearOrder α] [IsStrictOrderedRing α]
variable (lossFn : List (Option α) → List (Option (List α)) → Loss α) (r12 : α → α)

/-! ## runs and validity of concatenated histories -/

theorem run_append (s : State α) (a b : List (Op α)) :
    run lossFn r12 s (a ++ b) = run lossFn r12 (run lossFn r12 s a) b :=
  List.foldl_append ..

theorem run_cons (s : State α) (op : Op α) (t : List (Op α)) :
    run lossFn r12 s (op :: t) = run lossFn r12 (step lossFn r12 s op) t := rfl

theorem run_singleton (s : State α) (op : Op α) : run lossFn r12 s [op] = step lossFn r12 s op := rfl

theorem validOps_append (s : State α) (a b : List (Op α)) :
    ValidOps lossFn r12 s (a ++ b) ↔
      ValidOps lossFn r12 s a ∧ ValidOps lossFn r12 (run lossFn r12 s a) b := by
  induction a generalizing s with
  | nil => exact ⟨fun h => ⟨trivial, h⟩, fun h => h.2⟩
  | cons op a ih =>
    show ValidOp s op ∧ ValidOps lossFn r12 (step lossFn r12 s op) (a ++ b) ↔
      (ValidOp s op ∧ ValidOps lossFn r12 (step lossFn r12 s op) a) ∧
        ValidOps lossFn r12 (run lossFn r12 (step lossFn r12 s op) a) b
    rw [ih, and_assoc]

/-- `ValidOp` only reads the bounds and the number of stored points -/
theorem validOp_congr {s s' : State α} (hlo : s'.lo = s.lo) (hhi : s'.hi = s.hi)
    (hlen : s'.data.length = s.data.length) (op : Op α) (h : ValidOp s op) : ValidOp s' op := by
  cases op with
  | tell x y => unfold ValidOp at h ⊢; rw [hlo, hhi]; exact h
  | tellPending x => unfold ValidOp at h ⊢; rw [hlo, hhi]; exact h
  | tellMany pts f => unfold ValidOp at h ⊢; rw [hlo, hhi, hlen]; exact h
  | removeUnfinished => trivial
  | ask n c => trivial

/-! ## the pending set after one operation -/

theorem mem_tell_pending {s : State α} (hI : Inv s) (x : α) (y : List α) (z : α) :
    z ∈ (tell lossFn r12 s x y).pending ↔ z ∈ s.pending ∧ z ≠ x := by
  rw [tell_pending]
  by_cases h : hasData s x = true
  · rw [if_pos h]
    refine ⟨fun hz => ⟨hz, ?_⟩, fun hz => hz.1⟩
    rintro rfl
    exact (told_not_pending hI).2 _ h hz
  · rw [if_neg h, hI.pend_nodup.mem_erase_iff]
    exact and_comm

theorem mem_foldl_tell_pending {s : State α} (hI : Inv s) (pts : List (α × List α)) (z : α) :
    z ∈ (pts.foldl (fun s kv => tell lossFn r12 s kv.1 kv.2) s).pending ↔
      z ∈ s.pending ∧ z ∉ pts.map Prod.fst := by
  induction pts generalizing s with
  | nil => simp
  | cons p ps ih =>
    rw [List.foldl_cons, ih (inv_tell lossFn r12 hI p.1 p.2), mem_tell_pending lossFn r12 hI,
      List.map_cons, List.mem_cons, not_or, and_assoc]

/-- both paths of `tell_many` remove exactly the told abscissae from the pending set -/
theorem mem_tellMany_pending {s : State α} (hI : Inv s) (pts : List (α × List α)) (f : Bool) (z : α) :
    z ∈ (tellMany lossFn r12 s pts f).pending ↔ z ∈ s.pending ∧ z ∉ pts.map Prod.fst := by
  unfold tellMany
  split
  · exact mem_foldl_tell_pending lossFn r12 hI pts z
  · rw [tellManyBatch_pending, List.mem_filter, Bool.not_eq_true', ← Bool.not_eq_true, any_key_iff]
    rfl

/-- what the operation does to the pending SET, in terms of the old pending set, the old `hasData`, the
operation, and the points a committing `ask` returns -/
def pendingAfter (s : State α) (z : α) : Op α → Prop
  | .tell x _ => z ∈ s.pending ∧ z ≠ x
  | .tellPending x => z ∈ s.pending ∨ (z = x ∧ hasData s z = false)
  | .tellMany pts _ => z ∈ s.pending ∧ z ∉ pts.map Prod.fst
  | .removeUnfinished => False
  | .ask _ false => z ∈ s.pending
  | .ask n true => z ∈ s.pending ∨ (z ∈ (askPoints r12 s n).1 ∧ hasData s z = false)

theorem mem_step_pending {s : State α} (hI : Inv s) (op : Op α) (z : α) :
    z ∈ (step lossFn r12 s op).pending ↔ pendingAfter r12 s z op := by
  cases op with
  | tell x y => exact mem_tell_pending lossFn r12 hI x y z
  | tellPending x =>
    have h := mem_foldl_tellPending_pending lossFn r12 [x] s z
    rw [List.foldl_cons, List.foldl_nil, List.mem_singleton] at h
    exact h
  | tellMany pts f => exact mem_tellMany_pending lossFn r12 hI pts f z
  | removeUnfinished =>
    show z ∈ ([] : List α) ↔ False
    simp
  | ask n c =>
    cases c
    · exact Iff.rfl
    · exact mem_ask_commit_pending lossFn r12 s n z

/-! ## same content, and its preservation by one step -/

/-- the two learners hold the same results and the same set of pending points -/
def SameContent (s₁ s₂ : State α) : Prop :=
  (∀ x, dataGet s₁.data x = dataGet s₂.data x) ∧ (∀ x, x ∈ s₁.pending ↔ x ∈ s₂.pending)

theorem SameContent.refl (s : State α) : SameContent s s := ⟨fun _ => rfl, fun _ => Iff.rfl⟩

theorem SameContent.symm {s₁ s₂ : State α} (h : SameContent s₁ s₂) : SameContent s₂ s₁ :=
  ⟨fun x => (h.1 x).symm, fun x => (h.2 x).symm⟩

theorem SameContent.hasData {s₁ s₂ : State α} (h : SameContent s₁ s₂) (x : α) :
    hasData s₁ x = hasData s₂ x := by
  rw [hasData_eq, hasData_eq, h.1]

theorem Agree.sameContent {s₁ s₂ : State α} (h : Agree lossFn r12 s₁ s₂) : SameContent s₁ s₂ :=
  ⟨h.dataGet, fun _ => h.pending_perm.mem_iff⟩

/-- the new content is a function of the old content, the operation and (committing `ask`) the points
`askPoints` returns: one `step` preserves `SameContent` between two states (with the structural invariant)
that give the same answers to `ask` -/
theorem sameContent_step {s₁ s₂ : State α} (i₁ : Inv s₁) (i₂ : Inv s₂) (h : SameContent s₁ s₂)
    (ha : ∀ n, askPoints r12 s₁ n = askPoints r12 s₂ n) (op : Op α) :
    SameContent (step lossFn r12 s₁ op) (step lossFn r12 s₂ op) := by
  refine ⟨fun x => ?_, fun z => ?_⟩
  · rw [dataGet_step, dataGet_step, h.1]
  · rw [mem_step_pending lossFn r12 i₁, mem_step_pending lossFn r12 i₂]
    cases op with
    | tell x y => simp only [pendingAfter, h.2]
    | tellPending x => simp only [pendingAfter, h.2, h.hasData]
    | tellMany pts f => simp only [pendingAfter, h.2]
    | removeUnfinished => exact Iff.rfl
    | ask n c =>
      cases c
      · simp only [pendingAfter, h.2]
      · simp only [pendingAfter, h.2, h.hasData, ha]

/-! ## bisimilarity: same content now ⇒ indistinguishable for ever -/

/-- **State-is-a-function-of-content, for ever after.**  Two valid histories `h₁`, `h₂` from the same
`init lo hi 1 dxEps nn` (`lo < hi`, exact recomputation, values with `d` components) that end with the same
content: every continuation `t` that is valid from the first state is valid from the second one, and after
it the two learners still hold the same content — hence (next theorem) `Agree`. -/
theorem sameContent_run_of_same_content {lo hi : α} (hlt : lo < hi) (dxEps : α) (nn d : Nat)
    (t : List (Op α)) : ∀ (h₁ h₂ : List (Op α)),
    ValidOps lossFn r12 (init lo hi 1 dxEps nn) h₁ → ValidOps lossFn r12 (init lo hi 1 dxEps nn) h₂ →
    (∀ op ∈ h₁, OpDim d op) → (∀ op ∈ h₂, OpDim d op) →
    SameContent (run lossFn r12 (init lo hi 1 dxEps nn) h₁) (run lossFn r12 (init lo hi 1 dxEps nn) h₂) →
    ValidOps lossFn r12 (run lossFn r12 (init lo hi 1 dxEps nn) h₁) t → (∀ op ∈ t, OpDim d op) →
    ValidOps lossFn r12 (run lossFn r12 (init lo hi 1 dxEps nn) h₂) t ∧
    SameContent (run lossFn r12 (run lossFn r12 (init lo hi 1 dxEps nn) h₁) t)
      (run lossFn r12 (run lossFn r12 (init lo hi 1 dxEps nn) h₂) t) := by
  induction t with
  | nil => intro h₁ h₂ _ _ _ _ hsc _ _; exact ⟨trivial, hsc⟩
  | cons op t ih =>
    intro h₁ h₂ hv₁ hv₂ hd₁ hd₂ hsc hvt hdt
    have hag := agree_of_same_content lossFn r12 hlt dxEps nn d h₁ h₂ hv₁ hv₂ hd₁ hd₂ hsc.1 hsc.2
    obtain ⟨hvop, hvt'⟩ := hvt
    have hvop₂ : ValidOp (run lossFn r12 (init lo hi 1 dxEps nn) h₂) op :=
      validOp_congr (by rw [run_lo, run_lo]) (by rw [run_hi, run_hi]) hag.data_perm.length_eq.symm op hvop
    have hdop : OpDim d op := hdt op List.mem_cons_self
    have e₁ : run lossFn r12 (init lo hi 1 dxEps nn) (h₁ ++ [op]) =
        step lossFn r12 (run lossFn r12 (init lo hi 1 dxEps nn) h₁) op := by rw [run_append]; rfl
    have e₂ : run lossFn r12 (init lo hi 1 dxEps nn) (h₂ ++ [op]) =
        step lossFn r12 (run lossFn r12 (init lo hi 1 dxEps nn) h₂) op := by rw [run_append]; rfl
    have hdim : ∀ {h : List (Op α)}, (∀ o ∈ h, OpDim d o) → ∀ o ∈ h ++ [op], OpDim d o := by
      intro h hh o ho
      rcases List.mem_append.1 ho with ho | ho
      · exact hh o ho
      · rw [List.mem_singleton.1 ho]; exact hdop
    have key := ih (h₁ ++ [op]) (h₂ ++ [op])
      ((validOps_append lossFn r12 _ _ _).2 ⟨hv₁, hvop, trivial⟩)
      ((validOps_append lossFn r12 _ _ _).2 ⟨hv₂, hvop₂, trivial⟩)
      (hdim hd₁) (hdim hd₂)
      (by
        rw [e₁, e₂]
        exact sameContent_step lossFn r12 (inv_run lossFn r12 lo hi 1 dxEps nn h₁)
          (inv_run lossFn r12 lo hi 1 dxEps nn h₂) hsc hag.askPoints op)
      (by rw [e₁]; exact hvt')
      (fun o ho => hdt o (List.mem_cons_of_mem _ ho))
    rw [e₁, e₂] at key
    exact ⟨⟨hvop₂, key.1⟩, key.2⟩

/-- **Bisimilarity from equal content.**  Under the hypotheses of `sameContent_run_of_same_content`, after
every common continuation `t` (asks committing or not, tells, batched tells, pending marks, discards) that
is valid from the first state, the two learners `Agree`: equal abscissa lists, equal loss tables (as lists),
equal scales, equal `loss` for both flags and equal `askPoints` for every `n`.  The continuation is then
valid from the second state too. -/
theorem bisim_of_same_content {lo hi : α} (hlt : lo < hi) (dxEps : α) (nn d : Nat)
    (h₁ h₂ t : List (Op α))
    (hv₁ : ValidOps lossFn r12 (init lo hi 1 dxEps nn) h₁)
    (hv₂ : ValidOps lossFn r12 (init lo hi 1 dxEps nn) h₂)
    (hd₁ : ∀ op ∈ h₁, OpDim d op) (hd₂ : ∀ op ∈ h₂, OpDim d op)
    (hsc : SameContent (run lossFn r12 (init lo hi 1 dxEps nn) h₁)
      (run lossFn r12 (init lo hi 1 dxEps nn) h₂))
    (hvt : ValidOps lossFn r12 (run lossFn r12 (init lo hi 1 dxEps nn) h₁) t)
    (hdt : ∀ op ∈ t, OpDim d op) :
    ValidOps lossFn r12 (run lossFn r12 (init lo hi 1 dxEps nn) h₂) t ∧
    Agree lossFn r12 (run lossFn r12 (run lossFn r12 (init lo hi 1 dxEps nn) h₁) t)
      (run lossFn r12 (run lossFn r12 (init lo hi 1 dxEps nn) h₂) t) := by
  obtain ⟨hvt₂, hsc'⟩ := sameContent_run_of_same_content lossFn r12 hlt dxEps nn d t h₁ h₂ hv₁ hv₂ hd₁ hd₂
    hsc hvt hdt
  refine ⟨hvt₂, ?_⟩
  have hdim : ∀ {h : List (Op α)}, (∀ o ∈ h, OpDim d o) → ∀ o ∈ h ++ t, OpDim d o := by
    intro h hh o ho
    rcases List.mem_append.1 ho with ho | ho
    · exact hh o ho
    · exact hdt o ho
  have := agree_of_same_content lossFn r12 hlt dxEps nn d (h₁ ++ t) (h₂ ++ t)
    ((validOps_append lossFn r12 _ _ _).2 ⟨hv₁, hvt⟩) ((validOps_append lossFn r12 _ _ _).2 ⟨hv₂, hvt₂⟩)
    (hdim hd₁) (hdim hd₂)
    (by rw [run_append, run_append]; exact hsc'.1) (by rw [run_append, run_append]; exact hsc'.2)
  rw [run_append, run_append] at this
  exact this

/-! ## the restored learner -/

/-- `_set_data` on a learner is the one-operation history `tell_many(data)` -/
theorem setData_eq_run (s : State α) (data : List (α × List α)) :
    setData lossFn r12 s data = run lossFn r12 s [.tellMany data false] := rfl

/-- every stored abscissa of a state reached by a valid history lies inside the bounds -/
theorem data_in_bounds {lo hi : α} (hlt : lo < hi) (factor dxEps : α) (nn : Nat) (h : List (Op α))
    (hv : ValidOps lossFn r12 (init lo hi factor dxEps nn) h) :
    ∀ kv ∈ (run lossFn r12 (init lo hi factor dxEps nn) h).data, lo ≤ kv.1 ∧ kv.1 ≤ hi := by
  intro kv hkv
  obtain ⟨hb, hI⟩ := binv_run lossFn r12 hlt factor dxEps nn h hv
  have hd : hasData (run lossFn r12 (init lo hi factor dxEps nn) h) kv.1 = true := by
    rw [hasData_eq, dataGet_isSome_iff]
    exact List.mem_map_of_mem hkv
  have := hb.xsC_in kv.1 ((hI.xsC_mem kv.1).2 (Or.inl hd))
  rw [run_lo, run_hi] at this
  exact this

/-- the one-operation history that restores the saved data is valid -/
theorem validOps_restore {lo hi : α} (hlt : lo < hi) (factor dxEps : α) (nn : Nat) (h : List (Op α))
    (hv : ValidOps lossFn r12 (init lo hi factor dxEps nn) h) (factor' dxEps' : α) (nn' : Nat) :
    ValidOps lossFn r12 (init lo hi factor' dxEps' nn')
      [.tellMany (getData (run lossFn r12 (init lo hi factor dxEps nn) h)) false] :=
  validOps_tellMany lossFn r12 _ false _ (data_in_bounds lossFn r12 hlt factor dxEps nn h hv)
    (fun hf => by cases hf)

/-- … and all its values have `d` components -/
theorem opDim_restore (lo hi factor dxEps : α) (nn d : Nat) (h : List (Op α))
    (hd : ∀ op ∈ h, OpDim d op) :
    ∀ op ∈ [Op.tellMany (getData (run lossFn r12 (init lo hi factor dxEps nn) h)) false], OpDim d op := by
  intro op hop
  rw [List.mem_singleton.1 hop]
  exact (scaleMono_run_from lossFn r12 (scaleMono_init d lo hi factor dxEps nn) h hd).vdim

/-- the restored learner holds the content of the original, when the original has no pending points -/
theorem sameContent_restore (lo hi factor dxEps : α) (nn : Nat) (h : List (Op α))
    (hp : (run lossFn r12 (init lo hi factor dxEps nn) h).pending = []) (factor' dxEps' : α) (nn' : Nat) :
    SameContent (run lossFn r12 (init lo hi factor dxEps nn) h)
      (setData lossFn r12 (init lo hi factor' dxEps' nn')
        (getData (run lossFn r12 (init lo hi factor dxEps nn) h))) := by
  refine ⟨fun x => (setData_getData lossFn r12 lo hi factor' dxEps' nn' _ x).symm, fun z => ?_⟩
  rw [hp]
  unfold setData
  rw [mem_tellMany_pending lossFn r12 (inv_init lo hi factor' dxEps' nn')]
  constructor
  · intro hz; exact absurd hz (by simp)
  · rintro ⟨hz, -⟩; exact absurd hz (by simp [init])

section restore
variable {lo hi : α} (hlt : lo < hi) (dxEps : α) (nn d : Nat) (h : List (Op α))
  (hv : ValidOps lossFn r12 (init lo hi 1 dxEps nn) h) (hd : ∀ op ∈ h, OpDim d op)
  (hp : (run lossFn r12 (init lo hi 1 dxEps nn) h).pending = [])
include hlt hv hd hp

/-- **C13, restore-bisimilarity (Learner1D, exact recomputation).**  Let `h` be a valid history from
`init lo hi 1 dxEps nn` that ends with no pending points, and let the restored learner be
`setData fresh (getData (run … h))` (`fresh = init lo hi 1 dxEps nn`).  Then for EVERY continuation `t` that
is valid from the original, `t` is valid from the restored learner and the two learners `Agree` after it:
equal losses (both tables as lists), equal `loss()` for both flags and equal answers to `ask(n)` for every
`n`.  They can never be told apart again. -/
theorem restore_bisimilar (t : List (Op α))
    (hvt : ValidOps lossFn r12 (run lossFn r12 (init lo hi 1 dxEps nn) h) t)
    (hdt : ∀ op ∈ t, OpDim d op) :
    ValidOps lossFn r12 (setData lossFn r12 (init lo hi 1 dxEps nn)
      (getData (run lossFn r12 (init lo hi 1 dxEps nn) h))) t ∧
    Agree lossFn r12 (run lossFn r12 (run lossFn r12 (init lo hi 1 dxEps nn) h) t)
      (run lossFn r12 (setData lossFn r12 (init lo hi 1 dxEps nn)
        (getData (run lossFn r12 (init lo hi 1 dxEps nn) h))) t) := by
  rw [setData_eq_run]
  exact bisim_of_same_content lossFn r12 hlt dxEps nn d h _ t hv
    (validOps_restore lossFn r12 hlt 1 dxEps nn h hv 1 dxEps nn) hd
    (opDim_restore lossFn r12 lo hi 1 dxEps nn d h hd)
    (sameContent_restore lossFn r12 lo hi 1 dxEps nn h hp 1 dxEps nn) hvt hdt

/-- the restored learner and the original agree right away (`t = []`) -/
theorem restore_agrees :
    Agree lossFn r12 (run lossFn r12 (init lo hi 1 dxEps nn) h)
      (setData lossFn r12 (init lo hi 1 dxEps nn)
        (getData (run lossFn r12 (init lo hi 1 dxEps nn) h))) :=
  (restore_bisimilar lossFn r12 hlt dxEps nn d h hv hd hp [] trivial (fun _ ho => by cases ho)).2

/-- same later suggestions and same losses, after every common continuation -/
theorem restore_same_answers (t : List (Op α))
    (hvt : ValidOps lossFn r12 (run lossFn r12 (init lo hi 1 dxEps nn) h) t)
    (hdt : ∀ op ∈ t, OpDim d op) :
    (∀ n, askPoints r12 (run lossFn r12 (run lossFn r12 (init lo hi 1 dxEps nn) h) t) n =
      askPoints r12 (run lossFn r12 (setData lossFn r12 (init lo hi 1 dxEps nn)
        (getData (run lossFn r12 (init lo hi 1 dxEps nn) h))) t) n) ∧
    (∀ real, loss (run lossFn r12 (run lossFn r12 (init lo hi 1 dxEps nn) h) t) real =
      loss (run lossFn r12 (setData lossFn r12 (init lo hi 1 dxEps nn)
        (getData (run lossFn r12 (init lo hi 1 dxEps nn) h))) t) real) :=
  have ha := (restore_bisimilar lossFn r12 hlt dxEps nn d h hv hd hp t hvt hdt).2
  ⟨ha.askPoints, ha.loss⟩

end restore

/-! ## non-vacuity: a kernel-checked instance at `Rat`

Bounds `(0, 10)`, `nn = 0`, loss = scaled width + squared scaled height difference (`oiLoss` of
`Lemmas/OrderIndep.lean`).  The history tells out of order, marks `3` pending and tells it later, asks with
commit and discards; the continuation asks two points with commit, tells one of them and asks again. -/
section example_

instance decValidOp (s : State α) : (op : Op α) → Decidable (ValidOp s op)
  | .tell x _ => inferInstanceAs (Decidable (s.lo ≤ x ∧ x ≤ s.hi))
  | .tellPending x => inferInstanceAs (Decidable (s.lo ≤ x ∧ x ≤ s.hi))
  | .tellMany pts force => inferInstanceAs (Decidable ((∀ kv ∈ pts, s.lo ≤ kv.1 ∧ kv.1 ≤ s.hi) ∧
      ((force = true ∨ (s.data.length < 2 * pts.length ∧ 2 < pts.length)) → pts ≠ [])))
  | .removeUnfinished => inferInstanceAs (Decidable True)
  | .ask _ _ => inferInstanceAs (Decidable True)

instance decValidOps : (s : State α) → (ops : List (Op α)) → Decidable (ValidOps lossFn r12 s ops)
  | _, [] => inferInstanceAs (Decidable True)
  | s, op :: ops =>
    @instDecidableAnd _ _ (decValidOp s op) (decValidOps (step lossFn r12 s op) ops)

instance decOpDim (d : Nat) (op : Op α) : Decidable (OpDim d op) :=
  inferInstanceAs (Decidable (∀ kv ∈ tellsOf op, kv.2.length = d))

/-- the history: out-of-order tells, a pending mark told later, a committing ask, a discard -/
def exHist : List (Op Rat) :=
  [.tell 7 [2], .tell 0 [0], .tellPending 3, .tell 10 [5], .tell 3 [1], .ask 2 true, .removeUnfinished]

/-- the continuation: a committing ask of two points (`17/2` and `5`), a tell of one of them, another ask -/
def exCont : List (Op Rat) := [.ask 2 true, .tell (17/2) [4], .ask 3 false, .tellPending 1, .ask 1 true]

theorem exHist_valid : ValidOps oiLoss id (init (0 : Rat) 10 1 0 0) exHist := by decide +kernel
theorem exHist_dim : ∀ op ∈ exHist, OpDim 1 op := by decide +kernel
theorem exHist_no_pending : (run oiLoss id (init (0 : Rat) 10 1 0 0) exHist).pending = [] := by
  decide +kernel
theorem exCont_valid : ValidOps oiLoss id (run oiLoss id (init (0 : Rat) 10 1 0 0) exHist) exCont := by
  decide +kernel
theorem exCont_dim : ∀ op ∈ exCont, OpDim 1 op := by decide +kernel

/-- the conclusion instantiated: all hypotheses hold simultaneously -/
example :
    Agree oiLoss id (run oiLoss id (run oiLoss id (init (0 : Rat) 10 1 0 0) exHist) exCont)
      (run oiLoss id (setData oiLoss id (init (0 : Rat) 10 1 0 0)
        (getData (run oiLoss id (init (0 : Rat) 10 1 0 0) exHist))) exCont) :=
  (restore_bisimilar oiLoss id (by decide) 0 0 1 exHist exHist_valid exHist_dim exHist_no_pending
    exCont exCont_valid exCont_dim).2

/-- … and the objects are not trivial: the saved data has four points in arrival order, the committing
ask of the continuation returned the two points `17/2`, `5`, three points are pending after the
continuation, and the next ask answers `[2]` for both learners -/
example :
    getData (run oiLoss id (init (0 : Rat) 10 1 0 0) exHist) = [(7, [2]), (0, [0]), (10, [5]), (3, [1])] ∧
    (askPoints id (run oiLoss id (init (0 : Rat) 10 1 0 0) exHist) 2).1 = [17/2, 5] ∧
    (run oiLoss id (run oiLoss id (init (0 : Rat) 10 1 0 0) exHist) exCont).pending = [31/4, 1, 5] ∧
    (askPoints id (run oiLoss id (run oiLoss id (init (0 : Rat) 10 1 0 0) exHist) exCont) 1).1 = [2] ∧
    [2] = (askPoints id (run oiLoss id (setData oiLoss id (init (0 : Rat) 10 1 0 0)
        (getData (run oiLoss id (init (0 : Rat) 10 1 0 0) exHist))) exCont) 1).1 := by
  decide +kernel

/-- "ends with no pending points" cannot be dropped: the pending set is not saved, so a learner saved while
`3` is pending is restored without it, and the two answer the next `ask` differently. -/
example :
    (askPoints id (run oiLoss id (init (0 : Rat) 10 1 0 0) [.tell 0 [0], .tell 10 [5], .tellPending 3]) 1).1 ≠
    (askPoints id (setData oiLoss id (init (0 : Rat) 10 1 0 0)
      (getData (run oiLoss id (init (0 : Rat) 10 1 0 0) [.tell 0 [0], .tell 10 [5], .tellPending 3]))) 1).1 := by
  decide +kernel

end example_

end L1D
