import AdaptiveProofs.Lemmas.TriDelaunay2Model

/-!
From TRUTHFUL ANSWERS of `point_in_cicumcircle` to the hypotheses of `bowyerWatson_delaunay_area_2d`.
The `while len(queue)` loop of `bowyer_watson` (model: `bwLoop`, one iteration per recorded call) has the invariant
"every simplex of the current triangulation that shares `dim` vertices with a bad one is in `done` or in `queue`, and
every simplex of `done` still in the triangulation was answered `False`".  At the end the queue is empty, hence:
every deleted simplex was answered `True`, and EVERY NON-DELETED FACE-NEIGHBOUR OF A DELETED SIMPLEX WAS ASKED AND ANSWERED
`False` (`bowyerWatson_asked`).  With truthful answers this gives (i) and the "new point not strictly inside the
neighbour's circumcircle" half of (ii).
-/
namespace Tri

/-! ### list facts about `eraseDups`, `sharedCount`, `neighborsFromVertices` -/

theorem eraseDups_of_nodup : ∀ (l : List Nat), l.Nodup → l.eraseDups = l
  | [], _ => rfl
  | a :: as, h => by
    rw [List.nodup_cons] at h
    rw [List.eraseDups_cons]
    have : (as.filter fun b => !b == a) = as := by
      rw [List.filter_eq_self]
      intro b hb
      have : b ≠ a := fun hba => h.1 (hba ▸ hb)
      simpa using this
    rw [this, eraseDups_of_nodup as h.2]

/-- a positive number of shared vertices: there is a shared vertex -/
theorem exists_shared {u t : Simplex} (h : 0 < sharedCount u t) : ∃ v, v ∈ u ∧ v ∈ t := by
  unfold sharedCount at h
  obtain ⟨v, hv⟩ := List.exists_mem_of_length_pos h
  obtain ⟨h1, h2⟩ := List.mem_filter.mp hv
  exact ⟨v, List.mem_eraseDups.mp h1, by simpa using h2⟩

theorem neighborsFromVertices_mem' (vts : List (List Simplex)) : ∀ (ps : List Nat) (r : List Simplex),
    neighborsFromVertices vts ps = .ok r → ∀ p ∈ ps, ∀ l, vts[p]? = some l → ∀ u ∈ l, u ∈ r
  | [], r, _, p, hp, _, _, _, _ => by cases hp
  | q :: ps, r, hok, p, hp, l, hl, u, hu => by
    simp only [neighborsFromVertices] at hok
    split at hok
    · cases hok
    · rename_i l' hl'
      split at hok
      · cases hok
      · rename_i r' hr'
        cases hok
        rcases List.mem_cons.mp hp with rfl | hp'
        · rw [hl] at hl'
          cases hl'
          exact mem_setUnion.mpr (Or.inl hu)
        · exact mem_setUnion.mpr (Or.inr (neighborsFromVertices_mem' vts ps r' hr' p hp' l hl u hu))

/-! ### the loop -/

/-- every bad simplex was answered `True` -/
theorem bwLoop_answers (dim : Nat) : ∀ (circ : List (Simplex × Bool)) (s : State) (queue done bad : List Simplex)
    (s1 : State) (bad1 : List Simplex), bwLoop dim circ s queue done bad = .ok (s1, bad1) →
    ∀ u ∈ bad1, u ∈ bad ∨ (u, true) ∈ circ
  | [], s, queue, done, bad, s1, bad1, hok => by
    simp only [bwLoop] at hok
    split at hok
    · cases hok; exact fun u hu => Or.inl hu
    · cases hok
  | (t, ans) :: rest, s, queue, done, bad, s1, bad1, hok => by
    simp only [bwLoop] at hok
    split at hok
    · cases hok
    · split at hok
      · cases hok
      · split at hok
        · rename_i hans
          split at hok
          · cases hok
          · rename_i sd hd
            split at hok
            · cases hok
            · intro u hu
              rcases bwLoop_answers dim rest sd _ _ _ s1 bad1 hok u hu with h | h
              · rcases mem_setAdd.mp h with rfl | h'
                · right; rw [hans]; exact List.mem_cons_self
                · exact Or.inl h'
              · exact Or.inr (List.mem_cons_of_mem _ h)
        · intro u hu
          rcases bwLoop_answers dim rest s _ _ _ s1 bad1 hok u hu with h | h
          · exact Or.inl h
          · exact Or.inr (List.mem_cons_of_mem _ h)

/-- THE CLOSURE INVARIANT of the work-list.  `N`: any property of the simplices answered `False`. -/
theorem bwLoop_closure (dim : Nat) (hdim : 0 < dim) (N : Simplex → Prop) :
    ∀ (circ : List (Simplex × Bool)) (s : State) (queue done bad : List Simplex) (s1 : State) (bad1 : List Simplex),
    Inv s → (∀ u ∈ queue, u ∈ s.simplices) → bwLoop dim circ s queue done bad = .ok (s1, bad1) →
    (∀ r ∈ circ, r.2 = false → N r.1) →
    (∀ b ∈ bad, ∀ u ∈ s.simplices, sharedCount u b = dim → u ∈ done ∨ u ∈ queue) →
    (∀ u ∈ done, u ∈ s.simplices → N u) →
    ∀ b ∈ bad1, ∀ u ∈ s1.simplices, sharedCount u b = dim → N u
  | [], s, queue, done, bad, s1, bad1, _, _, hok, _, h1, h2 => by
    simp only [bwLoop] at hok
    split at hok
    · rename_i hq
      cases hok
      intro b hb u hu hsh
      rcases h1 b hb u hu hsh with h | h
      · exact h2 u h hu
      · rw [hq] at h; cases h
    · cases hok
  | (t, ans) :: rest, s, queue, done, bad, s1, bad1, hI, hq, hok, hN, h1, h2 => by
    have hN' : ∀ r ∈ rest, r.2 = false → N r.1 := fun r hr => hN r (List.mem_cons_of_mem _ hr)
    simp only [bwLoop] at hok
    split at hok
    · cases hok
    · split at hok
      · cases hok
      · rename_i hne htq
        have htq' : t ∈ queue := by simpa using htq
        have htS : t ∈ s.simplices := hq t htq'
        have hts : sortS t = t := (hI.valid t htS).sorted
        split at hok
        · split at hok
          · cases hok
          · rename_i sd hd
            obtain ⟨hId, _, _, _, hmem⟩ := deleteSimplex_spec hI hts hd
            split at hok
            · cases hok
            · rename_i nb hnb
              have hq' : ∀ u ∈ setUnion (setDel t queue)
                  (List.filter (fun u => decide (sharedCount u t = dim)) (setDiff nb (setAdd t done))), u ∈ sd.simplices := by
                intro u hu
                rcases mem_setUnion.mp hu with h | h
                · obtain ⟨h1', h2'⟩ := mem_setDel.mp h
                  exact (hmem u).mpr ⟨hq u h1', h2'⟩
                · have h' := (mem_setDiff.mp (List.mem_filter.mp h).1).1
                  obtain ⟨p, l, hl, hul⟩ := neighborsFromVertices_mem sd.vts _ nb hnb u h'
                  exact ((hId.index p l hl u).mp hul).1
              refine bwLoop_closure dim hdim N rest sd _ _ _ s1 bad1 hId hq' hok hN' ?_ ?_
              · intro b hb u hu hsh
                obtain ⟨huS, hut⟩ := (hmem u).mp hu
                rcases mem_setAdd.mp hb with rfl | hb'
                · -- the neighbours of the simplex just deleted
                  by_cases hud : u ∈ setAdd b done
                  · exact Or.inl hud
                  · right
                    obtain ⟨v, hvu, hvt⟩ := exists_shared (u := u) (t := b) (by omega)
                    have hvlt : v < sd.vts.length := by
                      rw [hId.len]
                      exact (hId.valid u hu).2.2 v hvu
                    have hl : sd.vts[v]? = some sd.vts[v] := List.getElem?_eq_getElem hvlt
                    have hul : u ∈ sd.vts[v] := (hId.index v _ hl u).mpr ⟨hu, hvu⟩
                    have hunb : u ∈ nb :=
                      neighborsFromVertices_mem' sd.vts _ nb hnb v (List.mem_eraseDups.mpr hvt) _ hl u hul
                    refine mem_setUnion.mpr (Or.inr (List.mem_filter.mpr ⟨mem_setDiff.mpr ⟨hunb, hud⟩, ?_⟩))
                    simpa using hsh
                · rcases h1 b hb' u huS hsh with h | h
                  · exact Or.inl (mem_setAdd.mpr (Or.inr h))
                  · exact Or.inr (mem_setUnion.mpr (Or.inl (mem_setDel.mpr ⟨h, hut⟩)))
              · intro u hu huS
                obtain ⟨huS', hut⟩ := (hmem u).mp huS
                rcases mem_setAdd.mp hu with rfl | hu'
                · exact absurd rfl hut
                · exact h2 u hu' huS'
        · rename_i hans
          have hans' : ans = false := by simpa using hans
          have hq' : ∀ u ∈ setDel t queue, u ∈ s.simplices := fun u hu => hq u (mem_setDel.mp hu).1
          refine bwLoop_closure dim hdim N rest s _ _ _ s1 bad1 hI hq' hok hN' ?_ ?_
          · intro b hb u hu hsh
            rcases h1 b hb u hu hsh with h | h
            · exact Or.inl (mem_setAdd.mpr (Or.inr h))
            · by_cases hut : u = t
              · exact Or.inl (mem_setAdd.mpr (Or.inl hut))
              · exact Or.inr (mem_setDel.mpr ⟨h, hut⟩)
          · intro u hu huS
            rcases mem_setAdd.mp hu with rfl | hu'
            · exact hN (u, ans) List.mem_cons_self hans'
            · exact h2 u hu' huS

/-- the hole loop only adds simplices that contain `pt` -/
theorem holeLoop_mem_light (pt : Nat) : ∀ (fs : List Simplex) (s : State) (fl : List (Simplex × Bool))
    (s2 : State) (fl2 : List (Simplex × Bool)), holeLoop pt fs s fl = .ok (s2, fl2) →
    ∀ u ∈ s2.simplices, u ∈ s.simplices ∨ pt ∈ u
  | [], s, fl, s2, fl2, hok => by
    simp only [holeLoop, Except.ok.injEq, Prod.mk.injEq] at hok
    obtain ⟨rfl, rfl⟩ := hok
    exact fun u hu => Or.inl hu
  | face :: fs, s, fl, s2, fl2, hok => by
    simp only [holeLoop] at hok
    split at hok
    · exact holeLoop_mem_light pt fs s fl s2 fl2 hok
    · split at hok
      · cases hok
      · rename_i isFlat fl' _
        split at hok
        · exact holeLoop_mem_light pt fs s fl' s2 fl2 hok
        · split at hok
          · cases hok
          · rename_i s' hadd
            intro u hu
            rcases holeLoop_mem_light pt fs s' fl' s2 fl2 hok u hu with h | h
            · unfold addSimplex at hadd
              simp only at hadd
              split at hadd
              · cases hadd
              · cases hadd
                rcases mem_setAdd.mp h with rfl | h'
                · exact Or.inr (mem_sortS.mpr (by simp))
                · exact Or.inl h'
            · exact Or.inr h

/-- WHAT THE ANSWERS SAY ABOUT THE RESULT of one accepted `bowyer_watson` (fresh vertex index, no flat answers):
every deleted simplex was answered `True` (`P`), and every simplex of the old triangulation that is NOT deleted and
shares a facet (`dim` vertices) with a deleted one was asked and answered `False` (`N`). -/
theorem bowyerWatson_asked (P N : Simplex → Prop) {s s2 : State} {pt : Nat} {start : Option Simplex}
    {circ fl fl2 : List (Simplex × Bool)} {del add : List Simplex} (hI : Inv s) (hdim : 0 < s.dim)
    (hpt : s.nVerts = pt + 1) (hfresh : ∀ t ∈ s.simplices, ∀ v ∈ t, v < pt)
    (hstart : ∀ c, start = some c → c ∈ s.simplices) (hfl : ∀ r ∈ fl, r.2 = false)
    (hok : bowyerWatson s pt start circ fl = .ok (s2, del, add, fl2))
    (hP : ∀ r ∈ circ, r.2 = true → P r.1) (hN : ∀ r ∈ circ, r.2 = false → N r.1) :
    (∀ t ∈ del, P t) ∧
    (∀ b ∈ del, ∀ u ∈ s.simplices, u ∉ del → sharedCount u b = s.dim → N u) := by
  obtain ⟨_, _, _, hA, hS2, _⟩ := bowyerWatson_exact hI hpt hfresh hstart hfl hok
  have hnpt : ∀ t ∈ s.simplices, pt ∉ t := fun t ht hp => absurd (hfresh t ht pt hp) (Nat.lt_irrefl _)
  unfold bowyerWatson at hok
  simp only at hok
  split at hok
  · cases hok
  · rename_i queue hq
    have hqS : ∀ u ∈ queue, u ∈ s.simplices := by
      cases start with
      | none =>
        simp only at hq
        intro u hu
        exact ((hI.index pt queue hq u).mp hu).1
      | some c =>
        simp only [Option.some.injEq] at hq
        subst hq
        intro u hu
        rw [List.mem_singleton] at hu
        subst hu
        exact hstart u rfl
    split at hok
    · cases hok
    · rename_i s1 bad hbw
      have hans := bwLoop_answers s.dim circ s queue [] [] s1 bad hbw
      have hclo := bwLoop_closure s.dim hdim N circ s queue [] [] s1 bad hI hqS hbw hN
        (fun b hb => by cases hb) (fun u hu => by cases hu)
      split at hok
      · cases hok
      · rename_i s2' fl' hh
        have hlight := holeLoop_mem_light pt _ s1 fl s2' fl' hh
        split at hok
        · cases hok
        · rename_i newT hnt
          simp only [Except.ok.injEq, Prod.mk.injEq] at hok
          obtain ⟨rfl, rfl, rfl, rfl⟩ := hok
          constructor
          · intro t ht
            rcases hans t (mem_setDiff.mp ht).1 with h | h
            · cases h
            · exact hP (t, true) h rfl
          · intro b hb u hu hud hsh
            have hu2 := (hS2 u).mpr (Or.inl ⟨hu, hud⟩)
            rcases hlight u hu2 with h | h
            · exact hclo b (mem_setDiff.mp hb).1 u h hsh
            · exact absurd h (hnpt u hu)

/-! ### two sorted triangles with a common edge share exactly two vertices -/

theorem sorted3_eq_of_mem {i j k i' j' k' : Nat} (hij : i < j) (hjk : j < k) (hij' : i' < j') (hjk' : j' < k')
    (h1 : i' ∈ [i, j, k]) (h2 : j' ∈ [i, j, k]) (h3 : k' ∈ [i, j, k]) : [i', j', k'] = [i, j, k] := by
  simp only [List.mem_cons, List.not_mem_nil, or_false] at h1 h2 h3
  simp only [List.cons.injEq, and_true]
  omega

theorem sharedCount_common_edge {t t' e : Simplex} (hS : t.length = 3 ∧ t.Pairwise (· < ·))
    (hS' : t'.length = 3 ∧ t'.Pairwise (· < ·)) (he : e ∈ combos 2 t) (he' : e ∈ combos 2 t') (hne : t' ≠ t) :
    sharedCount t' t = 2 := by
  obtain ⟨i, j, k, rfl, hij, hjk⟩ := sorted3 hS
  obtain ⟨i', j', k', rfl, hij', hjk'⟩ := sorted3 hS'
  obtain ⟨c', hc', hce'⟩ := exists_apex hij' hjk' he'
  have hsub := (combos_sublist 2 _ e he).1.subset
  have hnd : [i', j', k'].Nodup := by simp; omega
  unfold sharedCount
  rw [eraseDups_of_nodup _ hnd]
  rcases tri_edge_cases hij' hjk' he' hc' hce' with ⟨rfl, rfl⟩ | ⟨rfl, rfl⟩ | ⟨rfl, rfl⟩
  · have h1 : i' ∈ [i, j, k] := hsub (by simp)
    have h2 : j' ∈ [i, j, k] := hsub (by simp)
    have h3 : c' ∉ [i, j, k] := fun h => hne (sorted3_eq_of_mem hij hjk hij' hjk' h1 h2 h)
    simp only [List.mem_cons, List.not_mem_nil, or_false] at h1 h2 h3
    simp [h1, h2, h3]
  · have h1 : i' ∈ [i, j, k] := hsub (by simp)
    have h2 : k' ∈ [i, j, k] := hsub (by simp)
    have h3 : c' ∉ [i, j, k] := fun h => hne (sorted3_eq_of_mem hij hjk hij' hjk' h1 h h2)
    simp only [List.mem_cons, List.not_mem_nil, or_false] at h1 h2 h3
    simp [h1, h2, h3]
  · have h1 : j' ∈ [i, j, k] := hsub (by simp)
    have h2 : k' ∈ [i, j, k] := hsub (by simp)
    have h3 : c' ∉ [i, j, k] := fun h => hne (sorted3_eq_of_mem hij hjk hij' hjk' h h1 h2)
    simp only [List.mem_cons, List.not_mem_nil, or_false] at h1 h2 h3
    simp [h1, h2, h3]

/-! ### truthful answers ⇒ Delaunay cavity ⇒ area conserved -/
section truthful
variable {α : Type} [CommRing α] [LinearOrder α] [IsStrictOrderedRing α]

/-- every recorded answer of `point_in_cicumcircle` is the exact strict in-circle predicate -/
def CircTruthful (x : Nat → α × α) (pt : Nat) (circ : List (Simplex × Bool)) : Prop :=
  ∀ r ∈ circ, (r.2 = true ↔ InCircle2 x r.1 (x pt))

/-- what is left of `HoleEdgesDelaunay` once the answers are truthful: for every hole edge, a NON-DELETED triangle of the
old triangulation on the other side whose apex is not strictly inside the owner's circumcircle (the old triangulation
was locally Delaunay across that edge), or a hull edge with the new point not strictly outside -/
def HoleEdgesLocallyDelaunay (x : Nat → α × α) (S bad : List Simplex) (p : α × α) : Prop :=
  ∀ e ∈ hole 2 bad,
    (∃ t' ∈ S, t' ∉ bad ∧ e ∈ combos 2 t' ∧
      (∀ c' ∈ t', c' ∉ e → sve2 x (owner 2 bad e) e (x c') * sv2 x (owner 2 bad e) < 0) ∧
      (∀ c' ∈ t', c' ∉ e → ¬ InCircle2 x (owner 2 bad e) (x c'))) ∨
    0 ≤ sve2 x (owner 2 bad e) e p * sv2 x (owner 2 bad e)

theorem bowyerWatson_truthful_area_2d (x : Nat → α × α) {s s' : State} {pt : Nat} {start : Option Simplex}
    {circ fl fl' : List (Simplex × Bool)} {deleted added : List Simplex}
    (hI : Inv s) (hdim : s.dim = 2) (hpt : s.nVerts = pt + 1)
    (hfresh : ∀ t ∈ s.simplices, ∀ v ∈ t, v < pt)
    (hstart : ∀ c, start = some c → c ∈ s.simplices) (hfl : ∀ r ∈ fl, r.2 = false)
    (hok : bowyerWatson s pt start circ fl = .ok (s', deleted, added, fl'))
    (htruth : CircTruthful x pt circ)
    (hO : OppositeSides2 x deleted)
    (hedge : HoleEdgesLocallyDelaunay x s.simplices deleted (x pt)) :
    (∀ t ∈ deleted, InCircle2 x t (x pt)) ∧
    (∀ e ∈ hole 2 deleted, 0 ≤ osign (sv2 x (owner 2 deleted e)) * sve2 x (owner 2 deleted e) e (x pt)) ∧
    (added.map (fun t => |sv2 x t|)).sum = (deleted.map (fun t => |sv2 x t|)).sum ∧
    (s.simplices.Nodup →
      (s'.simplices.map (fun t => |sv2 x t|)).sum = (s.simplices.map (fun t => |sv2 x t|)).sum) := by
  obtain ⟨hin, hnb⟩ := bowyerWatson_asked (fun t => InCircle2 x t (x pt)) (fun t => ¬ InCircle2 x t (x pt))
    hI (by omega) hpt hfresh hstart hfl hok (fun r hr h => (htruth r hr).mp h)
    (fun r hr h hc => by rw [(htruth r hr).mpr hc] at h; cases h)
  obtain ⟨_, _, hDS, _⟩ := bowyerWatson_exact hI hpt hfresh hstart hfl hok
  have hS : ∀ t ∈ s.simplices, t.length = 3 ∧ t.Pairwise (· < ·) := by
    intro t ht
    have := hI.valid t ht
    rw [hdim] at this
    exact ⟨this.1, this.2.1⟩
  have hedge' : HoleEdgesDelaunay x s.simplices deleted (x pt) := by
    intro e he
    obtain ⟨ho, heo, _⟩ := mem_hole he
    rcases hedge e he with ⟨t', ht', htd, he', hopp, hdel⟩ | h
    · refine Or.inl ⟨t', ht', he', hopp, ?_, hdel⟩
      have hne : t' ≠ owner 2 deleted e := fun h => htd (h ▸ ho)
      have hsc := sharedCount_common_edge (hS _ (hDS _ ho)) (hS _ ht') heo he' hne
      exact hnb _ ho t' ht' htd (by rw [hsc, hdim])
    · exact Or.inr h
  have hstar := holeEdges_star x pt hS hDS hin hedge'
  exact ⟨hin, hstar, bowyerWatson_delaunay_area_2d x hI hdim hpt hfresh hstart hfl hok hO hin hedge'⟩

theorem addPoint_truthful_area_2d (x : Nat → α × α) {s s' : State} {hint : Option Simplex} {o : Oracle}
    {D A : List Simplex} (hI : Inv s) (hdim : s.dim = 2) (hv : ValidHint s hint) (hh : hint ≠ some [])
    (hl : o.locate ≠ some []) (hfl : ∀ r ∈ o.flat, r.2 = false)
    (hok : addPoint s hint o = .ok (s', D, A))
    (htruth : CircTruthful x s.nVerts o.circ)
    (hO : OppositeSides2 x D)
    (hedge : HoleEdgesLocallyDelaunay x s.simplices D (x s.nVerts)) :
    (∀ t ∈ D, InCircle2 x t (x s.nVerts)) ∧
    (∀ e ∈ hole 2 D, 0 ≤ osign (sv2 x (owner 2 D e)) * sve2 x (owner 2 D e) e (x s.nVerts)) ∧
    (A.map (fun t => |sv2 x t|)).sum = (D.map (fun t => |sv2 x t|)).sum ∧
    (s.simplices.Nodup →
      (s'.simplices.map (fun t => |sv2 x t|)).sum = (s.simplices.map (fun t => |sv2 x t|)).sum) := by
  obtain ⟨simplex, hsS, hbw⟩ := addPoint_interior hv hh hl hok
  exact bowyerWatson_truthful_area_2d x (s := { s with vts := s.vts ++ [[]], nVerts := s.nVerts + 1 }) (inv_push hI)
    hdim rfl (fun t ht v hv' => (hI.valid t ht).2.2 v hv') (fun c hc => by cases hc; exact hsS) hfl hbw htruth hO hedge

end truthful

end Tri
