import AdaptiveProofs.Lemmas.Avg1D

/-!
Closed forms of `Avg1D.tell` (new / known seed / re-sampled) and preservation of the
bookkeeping invariant by single tells (C16.g, C16.h).
-/

set_option linter.unusedSectionVars false

namespace Avg1D
variable {α : Type} [Field α] [LinearOrder α] [IsStrictOrderedRing α]

/-! ### closed forms of `tell` -/

/-- the point created by the first sample at an abscissa -/
def newPt (x : α) (seed : Nat) (y : α) : Pt α :=
  { x := x, samples := [(seed, y)], mean := y, n := 1, err := none }

/-- the point after one more sample -/
def resamplePt (sqrt : α → α) (tq : Nat → α) (p : Pt α) (seed : Nat) (y : α) : Pt α :=
  let k := p.samples.length
  let mean' := p.mean * (k : α) / ((k + 1 : Nat) : α) + y / ((k + 1 : Nat) : α)
  let samples' := p.samples ++ [(seed, y)]
  let n' := p.n + 1
  { p with samples := samples', mean := mean', n := n',
           err := some (calcError sqrt tq (samples'.map Prod.snd) mean' n') }

theorem tell_new (sqrt : α → α) (tq : Nat → α) (s : State α) (seed : Nat) (x y : α)
    (h : find? s x = none) :
    tell sqrt tq s seed x y =
      { s with pts := insertPt (newPt x seed y) s.pts,
               under := if x ∈ s.under then s.under else x :: s.under } := by
  unfold tell
  simp only [h]
  rfl

theorem tell_known (sqrt : α → α) (tq : Nat → α) (s : State α) (seed : Nat) (x y : α) (p : Pt α)
    (h : find? s x = some p) (hk : seed ∈ p.samples.map Prod.fst) :
    tell sqrt tq s seed x y = s := by
  have hany : p.samples.any (fun sy => sy.1 == seed) = true := by
    obtain ⟨e, he, rfl⟩ := List.mem_map.1 hk
    exact List.any_eq_true.2 ⟨e, he, by simp⟩
  unfold tell
  simp only [h, hany, if_true]

theorem tell_resample (sqrt : α → α) (tq : Nat → α) (s : State α) (seed : Nat) (x y : α) (p : Pt α)
    (h : find? s x = some p) (hk : seed ∉ p.samples.map Prod.fst) :
    ∃ u, (u = s.under ∨ (u = s.under.erase x ∧ s.minSamples ≤ p.n + 1)) ∧
      tell sqrt tq s seed x y =
        { s with pts := updatePt (resamplePt sqrt tq p seed y) s.pts, under := u } := by
  have hany : p.samples.any (fun sy => sy.1 == seed) = false := by
    rw [Bool.eq_false_iff]
    intro h
    obtain ⟨e, he, hek⟩ := List.any_eq_true.1 h
    apply hk
    have : e.1 = seed := by simpa using hek
    rw [← this]; exact List.mem_map_of_mem he
  unfold tell
  simp only [h, hany, Bool.false_eq_true, if_false]
  refine ⟨_, ?_, rfl⟩
  split
  · rename_i hc
    have key : ∀ (c : Prop) [Decidable c],
        (if c then s.under.erase x else s.under) = s.under ∨
        ((if c then s.under.erase x else s.under) = s.under.erase x ∧ s.minSamples ≤ p.n + 1) := by
      intro c _
      by_cases hcc : c
      · exact Or.inr ⟨by simp only [hcc, if_true], hc.2⟩
      · exact Or.inl (by simp only [hcc, if_false])
    generalize neighborCounts s x = nc
    obtain ⟨l, r⟩ := nc
    exact key _
  · exact Or.inl rfl

theorem ptGood_newPt (x : α) (seed : Nat) (y : α) : PtGood (newPt x seed y) := by
  refine ⟨rfl, le_refl _, by simp [newPt], ?_⟩
  simp [newPt]

theorem ptGood_resamplePt (sqrt : α → α) (tq : Nat → α) (p : Pt α) (seed : Nat) (y : α)
    (hg : PtGood p) (hk : seed ∉ p.samples.map Prod.fst) :
    PtGood (resamplePt sqrt tq p seed y) := by
  obtain ⟨h1, h2, h3, h4⟩ := hg
  refine ⟨?_, ?_, ?_, ?_⟩
  · show p.n + 1 = (p.samples ++ [(seed, y)]).length
    simp [h1]
  · show 1 ≤ p.n + 1
    omega
  · show ((p.samples ++ [(seed, y)]).map Prod.fst).Nodup
    simp only [List.map_append, List.map_cons, List.map_nil]
    rw [List.nodup_append]
    refine ⟨h3, by simp, ?_⟩
    intro a ha b hb
    simp only [List.mem_singleton] at hb
    subst hb
    intro hab; subst hab; exact hk ha
  · show (p.mean * (p.samples.length : α) / ((p.samples.length + 1 : Nat) : α)
        + y / ((p.samples.length + 1 : Nat) : α)) * ((p.n + 1 : Nat) : α)
        = ((p.samples ++ [(seed, y)]).map Prod.snd).sum
    rw [h1, running_mean, ← h1, h4]
    simp

/-- C16.g core -/
theorem stGood_tell (sqrt : α → α) (tq : Nat → α) (s : State α) (h : StGood s)
    (seed : Nat) (x y : α) : StGood (tell sqrt tq s seed x y) := by
  cases hf : find? s x with
  | none =>
    rw [tell_new sqrt tq s seed x y hf]
    apply stGood_insert s h (newPt x seed y) _ (find?_none hf) (ptGood_newPt x seed y)
    · show x ∈ _
      split
      · assumption
      · exact List.mem_cons_self
    · intro a ha
      split
      · exact ha
      · exact List.mem_cons_of_mem _ ha
  | some p =>
    obtain ⟨hp, hpx⟩ := find?_some hf
    by_cases hk : seed ∈ p.samples.map Prod.fst
    · rw [tell_known sqrt tq s seed x y p hf hk]; exact h
    · obtain ⟨u, hu, e⟩ := tell_resample sqrt tq s seed x y p hf hk
      rw [e]
      apply stGood_update s h p (resamplePt sqrt tq p seed y) u hp rfl
        (ptGood_resamplePt sqrt tq p seed y (h.2.1 p hp) hk)
      · show p.n ≤ p.n + 1
        omega
      · rw [hpx]; exact hu

/-- the point found at `x` after a re-sampling tell -/
theorem find?_tell_resample (sqrt : α → α) (tq : Nat → α) (s : State α) (seed : Nat) (x y : α)
    (p : Pt α) (h : find? s x = some p) (hk : seed ∉ p.samples.map Prod.fst) :
    find? (tell sqrt tq s seed x y) x = some (resamplePt sqrt tq p seed y) := by
  obtain ⟨u, -, e⟩ := tell_resample sqrt tq s seed x y p h hk
  rw [e]
  unfold find? at h ⊢
  exact find?_list_updatePt (resamplePt sqrt tq p seed y) x (find?_some h).2 s.pts p h

theorem find?_tell_new (sqrt : α → α) (tq : Nat → α) (s : State α) (seed : Nat) (x y : α)
    (h : find? s x = none) :
    find? (tell sqrt tq s seed x y) x = some (newPt x seed y) := by
  rw [tell_new sqrt tq s seed x y h]
  unfold find?
  exact find?_list_insertPt (newPt x seed y) s.pts (find?_none h)

end Avg1D
