import AdaptiveModel.Balancing
import Mathlib.Order.Basic
import Mathlib.Order.Defs.LinearOrder
import Mathlib.Data.List.Basic
import Mathlib.Data.Nat.Basic

/-!
# BalancingLearner: cache coherence, loss = max, routing, strategy rules

Lemmas about `AdaptiveModel/Balancing.lean`.
-/
namespace Balancing

variable {σ P V L : Type}

/-! ## `maxL` -/
section maxL
variable [LinearOrder L]

theorem foldl_max_spec (r : List L) (x : L) :
    let m := r.foldl (fun m y => if m < y then y else m) x
    (m = x ∨ m ∈ r) ∧ x ≤ m ∧ ∀ y ∈ r, y ≤ m := by
  induction r generalizing x with
  | nil => simp
  | cons a r ih =>
    simp only [List.foldl_cons]
    by_cases hxa : x < a
    · simp only [if_pos hxa]
      obtain ⟨h1, h2, h3⟩ := ih a
      refine ⟨Or.inr ?_, le_trans (le_of_lt hxa) h2, ?_⟩
      · rcases h1 with h1 | h1
        · rw [h1]; exact List.mem_cons_self
        · exact List.mem_cons_of_mem _ h1
      · intro y hy
        rcases List.mem_cons.1 hy with rfl | hy
        · exact h2
        · exact h3 y hy
    · simp only [if_neg hxa]
      obtain ⟨h1, h2, h3⟩ := ih x
      refine ⟨?_, h2, ?_⟩
      · rcases h1 with h1 | h1
        · exact Or.inl h1
        · exact Or.inr (List.mem_cons_of_mem _ h1)
      · intro y hy
        rcases List.mem_cons.1 hy with rfl | hy
        · exact le_trans (not_lt.1 hxa) h2
        · exact h3 y hy

/-- the maximum of a non-empty list is one of its elements -/
theorem maxL_mem (d : L) {l : List L} (hl : l ≠ []) : maxL d l ∈ l := by
  cases l with
  | nil => exact absurd rfl hl
  | cons x r =>
    simp only [maxL]
    rcases (foldl_max_spec r x).1 with h | h
    · rw [h]; exact List.mem_cons_self
    · exact List.mem_cons_of_mem _ h

/-- every element is below the maximum -/
theorem le_maxL (d : L) {l : List L} : ∀ x ∈ l, x ≤ maxL d l := by
  cases l with
  | nil => intro x hx; cases hx
  | cons a r =>
    intro x hx
    simp only [maxL]
    rcases List.mem_cons.1 hx with rfl | hx
    · exact (foldl_max_spec r x).2.1
    · exact (foldl_max_spec r a).2.2 x hx

theorem maxL_nil (d : L) : maxL d ([] : List L) = d := rfl

end maxL

/-! ## `argmaxKey`, `argminNat` -/
section arg
variable [LinearOrder L]

/-- the selection fold of `argmaxKey` over an arbitrary list of (key, index) pairs -/
theorem argmax_fold_spec (l : List ((L × Nat) × Nat)) (best : Option ((L × Nat) × Nat)) :
    let better (a b : L × Nat) : Bool := decide (a.1 < b.1) || (!(decide (b.1 < a.1)) && decide (b.2 < a.2))
    let res := l.foldl (fun (best : Option ((L × Nat) × Nat)) kv =>
      match best with
      | none => some kv
      | some b => if better b.1 kv.1 then some kv else some b) best
    (res = none → best = none ∧ l = []) ∧
    ∀ r, res = some r → (best = some r ∨ r ∈ l) ∧ (∀ b, best = some b → b.1.1 ≤ r.1.1) ∧
      ∀ x ∈ l, x.1.1 ≤ r.1.1 := by
  induction l generalizing best with
  | nil =>
    intro better res
    refine ⟨fun h => ⟨h, rfl⟩, ?_⟩
    intro r hr
    simp only [res, List.foldl_nil] at hr
    refine ⟨Or.inl hr, ?_, by simp⟩
    intro b hb; rw [hr] at hb; cases hb; exact le_refl _
  | cons a l ih =>
    intro better res
    refine ⟨?_, ?_⟩
    · intro hn
      simp only [res, List.foldl_cons] at hn
      have := ((ih _).1 hn).1
      cases best with
      | none => simp at this
      | some b => simp only at this; split at this <;> simp at this
    intro r hr
    simp only [res, List.foldl_cons] at hr
    cases best with
    | none =>
      simp only at hr
      obtain ⟨h1, h2, h3⟩ := (ih (some a)).2 r hr
      refine ⟨Or.inr ?_, by simp, ?_⟩
      · rcases h1 with h1 | h1
        · cases h1; exact List.mem_cons_self
        · exact List.mem_cons_of_mem _ h1
      · intro x hx
        rcases List.mem_cons.1 hx with rfl | hx
        · exact h2 _ rfl
        · exact h3 x hx
    | some b =>
      simp only at hr
      by_cases hb : better b.1 a.1 = true
      · rw [if_pos hb] at hr
        obtain ⟨h1, h2, h3⟩ := (ih (some a)).2 r hr
        have hba : b.1.1 ≤ a.1.1 := by
          simp only [better, Bool.or_eq_true, Bool.and_eq_true, decide_eq_true_eq,
            Bool.not_eq_true', decide_eq_false_iff_not] at hb
          rcases hb with hb | ⟨hb, _⟩
          · exact le_of_lt hb
          · exact not_lt.1 hb
        refine ⟨Or.inr ?_, ?_, ?_⟩
        · rcases h1 with h1 | h1
          · cases h1; exact List.mem_cons_self
          · exact List.mem_cons_of_mem _ h1
        · intro b' hb'; cases hb'; exact le_trans hba (h2 _ rfl)
        · intro x hx
          rcases List.mem_cons.1 hx with rfl | hx
          · exact h2 _ rfl
          · exact h3 x hx
      · rw [if_neg hb] at hr
        obtain ⟨h1, h2, h3⟩ := (ih (some b)).2 r hr
        have hab : a.1.1 ≤ b.1.1 := by
          simp only [better, Bool.or_eq_true, Bool.and_eq_true, decide_eq_true_eq,
            Bool.not_eq_true', decide_eq_false_iff_not, not_or] at hb
          exact not_lt.1 hb.1
        refine ⟨?_, ?_, ?_⟩
        · rcases h1 with h1 | h1
          · exact Or.inl h1
          · exact Or.inr (List.mem_cons_of_mem _ h1)
        · intro b' hb'; cases hb'; exact h2 _ rfl
        · intro x hx
          rcases List.mem_cons.1 hx with rfl | hx
          · exact le_trans hab (h2 _ rfl)
          · exact h3 x hx

/-- `argmaxKey` of a non-empty list is a valid index whose value is maximal -/
theorem argmaxKey_spec {keys : List (L × Nat)} (hk : keys ≠ []) :
    ∃ key, keys[argmaxKey keys]? = some key ∧ ∀ x ∈ keys, x.1 ≤ key.1 := by
  have h := argmax_fold_spec keys.zipIdx none
  simp only at h
  obtain ⟨h1, h2⟩ := h
  unfold argmaxKey
  simp only
  generalize hres : List.foldl _ none keys.zipIdx = res at h1 h2
  cases res with
  | none => exact absurd (List.zipIdx_eq_nil_iff.1 (h1 rfl).2) hk
  | some r =>
    obtain ⟨hm, -, hmax⟩ := h2 r rfl
    simp only [reduceCtorEq, false_or] at hm
    have hm' := List.mem_zipIdx_iff_getElem?.1 hm
    refine ⟨r.1, by simpa using hm', ?_⟩
    intro x hx
    obtain ⟨j, hj, rfl⟩ := List.getElem_of_mem hx
    exact hmax (keys[j], j) (List.mem_zipIdx_iff_getElem?.2 (by simp [hj]))

theorem argmaxKey_lt {keys : List (L × Nat)} (hk : keys ≠ []) : argmaxKey keys < keys.length := by
  obtain ⟨key, h, -⟩ := argmaxKey_spec hk
  exact (List.getElem?_eq_some_iff.1 h).1

end arg

/-- the selection fold of `argminNat` -/
theorem argmin_fold_spec (l : List (Nat × Nat)) (best : Option (Nat × Nat)) :
    let res := l.foldl (fun (best : Option (Nat × Nat)) kv =>
      match best with
      | none => some kv
      | some b => if kv.1 < b.1 then some kv else some b) best
    (res = none → best = none ∧ l = []) ∧
    ∀ r, res = some r → (best = some r ∨ r ∈ l) ∧ (∀ b, best = some b → r.1 ≤ b.1) ∧
      ∀ x ∈ l, r.1 ≤ x.1 := by
  induction l generalizing best with
  | nil =>
    intro res
    refine ⟨fun h => ⟨h, rfl⟩, ?_⟩
    intro r hr
    simp only [res, List.foldl_nil] at hr
    refine ⟨Or.inl hr, ?_, by simp⟩
    intro b hb; rw [hr] at hb; cases hb; exact Nat.le_refl _
  | cons a l ih =>
    intro res
    refine ⟨?_, ?_⟩
    · intro hn
      simp only [res, List.foldl_cons] at hn
      have := ((ih _).1 hn).1
      cases best with
      | none => simp at this
      | some b => simp only at this; split at this <;> simp at this
    intro r hr
    simp only [res, List.foldl_cons] at hr
    cases best with
    | none =>
      simp only at hr
      obtain ⟨h1, h2, h3⟩ := (ih (some a)).2 r hr
      refine ⟨Or.inr ?_, by simp, ?_⟩
      · rcases h1 with h1 | h1
        · cases h1; exact List.mem_cons_self
        · exact List.mem_cons_of_mem _ h1
      · intro x hx
        rcases List.mem_cons.1 hx with rfl | hx
        · exact h2 _ rfl
        · exact h3 x hx
    | some b =>
      simp only at hr
      by_cases hb : a.1 < b.1
      · rw [if_pos hb] at hr
        obtain ⟨h1, h2, h3⟩ := (ih (some a)).2 r hr
        refine ⟨Or.inr ?_, ?_, ?_⟩
        · rcases h1 with h1 | h1
          · cases h1; exact List.mem_cons_self
          · exact List.mem_cons_of_mem _ h1
        · intro b' hb'; cases hb'; have := h2 _ rfl; omega
        · intro x hx
          rcases List.mem_cons.1 hx with rfl | hx
          · exact h2 _ rfl
          · exact h3 x hx
      · rw [if_neg hb] at hr
        obtain ⟨h1, h2, h3⟩ := (ih (some b)).2 r hr
        refine ⟨?_, ?_, ?_⟩
        · rcases h1 with h1 | h1
          · exact Or.inl h1
          · exact Or.inr (List.mem_cons_of_mem _ h1)
        · intro b' hb'; cases hb'; exact h2 _ rfl
        · intro x hx
          rcases List.mem_cons.1 hx with rfl | hx
          · have := h2 _ rfl; omega
          · exact h3 x hx

/-- `argminNat` of a non-empty list is a valid index whose value is minimal -/
theorem argminNat_spec {l : List Nat} (hl : l ≠ []) :
    ∃ v, l[argminNat l]? = some v ∧ ∀ x ∈ l, v ≤ x := by
  have h := argmin_fold_spec l.zipIdx none
  simp only at h
  obtain ⟨h1, h2⟩ := h
  unfold argminNat
  generalize hres : List.foldl _ none l.zipIdx = res at h1 h2
  cases res with
  | none => exact absurd (List.zipIdx_eq_nil_iff.1 (h1 rfl).2) hl
  | some r =>
    obtain ⟨hm, -, hmin⟩ := h2 r rfl
    simp only [reduceCtorEq, false_or] at hm
    have hm' := List.mem_zipIdx_iff_getElem?.1 hm
    refine ⟨r.1, by simpa using hm', ?_⟩
    intro x hx
    obtain ⟨j, hj, rfl⟩ := List.getElem_of_mem hx
    exact hmin (l[j], j) (List.mem_zipIdx_iff_getElem?.2 (by simp [hj]))

theorem argminNat_lt {l : List Nat} (hl : l ≠ []) : argminNat l < l.length := by
  obtain ⟨v, h, -⟩ := argminNat_spec hl
  exact (List.getElem?_eq_some_iff.1 h).1

/-- `tot[argminNat tot]!` is the smallest entry -/
theorem argminNat_le (tot : List Nat) : ∀ j < tot.length, tot[argminNat tot]! ≤ tot[j]! := by
  intro j hj
  have hl : tot ≠ [] := by intro h; rw [h] at hj; cases hj
  obtain ⟨v, h, hmin⟩ := argminNat_spec hl
  have hlt := (List.getElem?_eq_some_iff.1 h).1
  rw [getElem!_pos tot _ hlt, getElem!_pos tot j hj]
  have : tot[argminNat tot] = v := by
    have := List.getElem?_eq_getElem hlt; rw [this] at h; exact Option.some.inj h
  rw [this]
  exact hmin _ (List.getElem_mem hj)

/-! ## list helpers -/

theorem set_of_getElem? {α : Type} {l : List α} {i : Nat} {a : α} (h : l[i]? = some a) :
    l.set i a = l := by
  apply List.ext_getElem?
  intro j
  rw [List.getElem?_set]
  by_cases hij : i = j
  · subst hij
    have hlt := (List.getElem?_eq_some_iff.1 h).1
    simp [hlt]
    exact ((List.getElem?_eq_some_iff.1 h).2).symm
  · simp [hij]

theorem modify_of_getElem? {α : Type} {l : List α} {i : Nat} {a : α} (f : α → α)
    (h : l[i]? = some a) : l.modify i f = l.set i (f a) := by
  rw [List.modify_eq_set_getElem?, h]; rfl

theorem modify_set' {α : Type} (l : List α) (i : Nat) (a : α) (f : α → α) :
    (l.set i a).modify i f = l.set i (f a) := by
  by_cases hlt : i < l.length
  · rw [modify_of_getElem? f (List.getElem?_set_self hlt), List.set_set]
  · have h1 : l.set i a = l := List.set_eq_of_length_le (by omega)
    rw [h1, List.set_eq_of_length_le (by omega)]
    rw [List.modify_eq_set_getElem?, List.getElem?_eq_none (by omega)]; rfl

/-! ## Lawful children, coherent caches -/

/-- the children behave like learners whose non-committing ask and snapshot/restore are exact -/
structure Lawful (C : Child σ P V L) : Prop where
  ask_nocommit : ∀ k, (C.ask1 k false).2 = k
  ask_commit : ∀ k, (C.ask1 k true).1 = (C.ask1 k false).1 ∧
    (C.ask1 k true).2 = C.tellPending k (C.ask1 k false).1.1
  tellPending_idem : ∀ k x, C.tellPending (C.tellPending k x) x = C.tellPending k x
  restore_id : ∀ k, C.restore k = k

/-- the caches only hold values that are current -/
structure Coh (C : Child σ P V L) (s : State σ P L) : Prop where
  len_ask : s.askCache.length = s.kids.length
  len_loss : s.lossC.length = s.kids.length
  len_ploss : s.plossC.length = s.kids.length
  loss_ok : ∀ (i : Nat) k v, s.kids[i]? = some k → s.lossC[i]? = some (some v) → v = C.loss k true
  ploss_ok : ∀ (i : Nat) k v, s.kids[i]? = some k → s.plossC[i]? = some (some v) → v = C.loss k false
  ask_ok : ∀ (i : Nat) k pl, s.kids[i]? = some k → s.askCache[i]? = some (some pl) →
    pl = (C.ask1 k false).1

/-- EXTRA hypothesis needed for `remove_unfinished` (see `coh_removeUnfinished` and the
counterexample `removeUnfinished_breaks_coh` below): dropping the pending points of a child does
not change its REAL loss.  `BalancingLearner.remove_unfinished` clears `_ask_cache` and
`_pending_loss` but keeps `_loss`. -/
def RealLossStable (C : Child σ P V L) : Prop :=
  ∀ k, C.loss (C.removeUnfinished k) true = C.loss k true

section coh
variable {C : Child σ P V L} {s : State σ P L}

theorem coh_init (kids : List σ) (st : Strategy) : Coh C (init kids st) := by
  refine ⟨by simp [init], by simp [init], by simp [init], ?_, ?_, ?_⟩ <;>
  · intro i k v _ hv
    simp only [init, List.getElem?_map] at hv
    cases hk : kids[i]? <;> rw [hk] at hv <;> simp at hv

theorem coh_setStrategy (h : Coh C s) (st : Strategy) : Coh C (setStrategy s st) :=
  ⟨h.len_ask, h.len_loss, h.len_ploss, h.loss_ok, h.ploss_ok, h.ask_ok⟩

/-- clearing the three cache entries of child `i` and changing child `i` arbitrarily keeps coherence -/
theorem coh_clear_modify (h : Coh C s) (i : Nat) (f : σ → σ) :
    Coh C { s with askCache := s.askCache.set i none, lossC := s.lossC.set i none,
                   plossC := s.plossC.set i none, kids := s.kids.modify i f } := by
  constructor
  · simp [h.len_ask]
  · simp [h.len_loss]
  · simp [h.len_ploss]
  · intro j k v hk hv
    simp only [List.getElem?_set] at hv
    by_cases hij : i = j
    · subst hij; simp only [if_true] at hv; split at hv <;> simp at hv
    · simp only [if_neg hij] at hv
      simp only [List.getElem?_modify, if_neg hij] at hk
      exact h.loss_ok j k v (by simpa using hk) hv
  · intro j k v hk hv
    simp only [List.getElem?_set] at hv
    by_cases hij : i = j
    · subst hij; simp only [if_true] at hv; split at hv <;> simp at hv
    · simp only [if_neg hij] at hv
      simp only [List.getElem?_modify, if_neg hij] at hk
      exact h.ploss_ok j k v (by simpa using hk) hv
  · intro j k v hk hv
    simp only [List.getElem?_set] at hv
    by_cases hij : i = j
    · subst hij; simp only [if_true] at hv; split at hv <;> simp at hv
    · simp only [if_neg hij] at hv
      simp only [List.getElem?_modify, if_neg hij] at hk
      exact h.ask_ok j k v (by simpa using hk) hv

theorem coh_tell (h : Coh C s) (i : Nat) (x : P) (y : V) : Coh C (tell C s i x y) :=
  coh_clear_modify h i _

theorem coh_tellPending (h : Coh C s) (i : Nat) (x : P) : Coh C (tellPending C s i x) :=
  coh_clear_modify h i _

theorem coh_removeUnfinished (_hR : RealLossStable C) (h : Coh C s) : Coh C (removeUnfinished C s) := by
  constructor
  · simp [removeUnfinished]
  · simp [removeUnfinished]
  · simp [removeUnfinished]
  · intro j k v hk hv
    simp only [removeUnfinished, List.getElem?_map] at hv
    cases hkj : s.kids[j]? <;> rw [hkj] at hv <;> simp at hv
  · intro j k v hk hv
    simp only [removeUnfinished, List.getElem?_map] at hv
    cases hkj : s.kids[j]? <;> rw [hkj] at hv <;> simp at hv
  · intro j k v hk hv
    simp only [removeUnfinished, List.getElem?_map] at hv
    cases hkj : s.kids[j]? <;> rw [hkj] at hv <;> simp at hv

theorem fill_eq_map (f : σ → L) : ∀ (kids : List σ) (cache : List (Option L)),
    cache.length = kids.length →
    (∀ (i : Nat) k v, kids[i]? = some k → cache[i]? = some (some v) → v = f k) →
    (kids.zip cache).map (fun kc => match kc.2 with | some v => v | none => f kc.1) = kids.map f := by
  intro kids
  induction kids with
  | nil => intro cache _ _; simp
  | cons k kids ih =>
    intro cache hlen hok
    cases cache with
    | nil => simp at hlen
    | cons c cache =>
      simp only [List.zip_cons_cons, List.map_cons, List.cons.injEq]
      refine ⟨?_, ih cache (by simpa using hlen) (fun i k' v hk hv => hok (i + 1) k' v (by simpa using hk) (by simpa using hv))⟩
      cases c with
      | none => rfl
      | some v => exact hok 0 k v (by simp) (by simp)

theorem losses_fst (h : Coh C s) (real : Bool) :
    (losses C s real).1 = s.kids.map (fun k => C.loss k real) := by
  simp only [losses]
  cases real with
  | true => exact fill_eq_map _ _ _ h.len_loss h.loss_ok
  | false => exact fill_eq_map _ _ _ h.len_ploss h.ploss_ok

theorem losses_snd (h : Coh C s) (real : Bool) :
    (losses C s real).2 =
      if real then { s with lossC := s.kids.map (fun k => some (C.loss k true)) }
      else { s with plossC := s.kids.map (fun k => some (C.loss k false)) } := by
  have h1 := losses_fst h real
  simp only [losses] at h1 ⊢
  rw [h1]
  cases real <;> simp

theorem coh_losses (h : Coh C s) (real : Bool) : Coh C (losses C s real).2 := by
  rw [losses_snd h]
  cases real with
  | true =>
    refine ⟨h.len_ask, by simp, h.len_ploss, ?_, h.ploss_ok, h.ask_ok⟩
    intro j k v hk hv
    simp only [if_true, List.getElem?_map] at hk hv
    rw [hk] at hv; simpa using hv.symm
  | false =>
    refine ⟨h.len_ask, h.len_loss, by simp, h.loss_ok, ?_, h.ask_ok⟩
    intro j k v hk hv
    simp only [Bool.false_eq_true, if_false, List.getElem?_map] at hk hv
    rw [hk] at hv; simpa using hv.symm

variable [LinearOrder L]

/-- the reported loss is the largest child loss at the time of the call -/
theorem loss_is_max (h : Coh C s) (d : L) (real : Bool) :
    (loss C d s real).1 = maxL d (s.kids.map (fun k => C.loss k real)) := by
  simp only [loss]
  rw [losses_fst h]

theorem loss_snd (d : L) (real : Bool) : (loss C d s real).2 = (losses C s real).2 := rfl

theorem coh_loss (h : Coh C s) (d : L) (real : Bool) : Coh C (loss C d s real).2 :=
  coh_losses h real

end coh

/-! ## routing of `tell` / `tell_pending` -/
section routing
variable (C : Child σ P V L) (s : State σ P L)

theorem tell_routes (i : Nat) (x : P) (y : V) :
    (tell C s i x y).kids = s.kids.modify i (fun k => C.tell k x y) := rfl

theorem tell_other (i : Nat) (x : P) (y : V) {j : Nat} (hj : j ≠ i) :
    (tell C s i x y).kids[j]? = s.kids[j]? := by
  simp only [tell, List.getElem?_modify, if_neg (Ne.symm hj)]
  cases s.kids[j]? <;> rfl

theorem tell_self (i : Nat) (x : P) (y : V) {k : σ} (hk : s.kids[i]? = some k) :
    (tell C s i x y).kids[i]? = some (C.tell k x y) := by
  simp [tell, hk]

theorem tellPending_routes (i : Nat) (x : P) :
    (tellPending C s i x).kids = s.kids.modify i (fun k => C.tellPending k x) := rfl

theorem tellPending_other (i : Nat) (x : P) {j : Nat} (hj : j ≠ i) :
    (tellPending C s i x).kids[j]? = s.kids[j]? := by
  simp only [tellPending, List.getElem?_modify, if_neg (Ne.symm hj)]
  cases s.kids[j]? <;> rfl

theorem tellPending_self (i : Nat) (x : P) {k : σ} (hk : s.kids[i]? = some k) :
    (tellPending C s i x).kids[i]? = some (C.tellPending k x) := by
  simp [tellPending, hk]

end routing

/-! ## `cachedAsk` -/
section cached
variable {C : Child σ P V L} {s : State σ P L}

/-- whatever `cachedAsk` did, the answer is the one the child gives now, and after the
`tell_pending` that always follows it the state is as if the cache had not been touched -/
theorem cachedAsk_spec (hL : Lawful C) (h : Coh C s) {i : Nat} {commit : Bool} {pl : P × L}
    {s2 : State σ P L} (hc : cachedAsk C s i commit = some (pl, s2)) :
    ∃ k, s.kids[i]? = some k ∧ pl = (C.ask1 k false).1 ∧
      tellPending C s2 i pl.1 = tellPending C s i pl.1 := by
  unfold cachedAsk at hc
  split at hc
  · rename_i pl' hpl
    simp only [Option.some.injEq, Prod.mk.injEq] at hc
    obtain ⟨rfl, rfl⟩ := hc
    have hlt : i < s.kids.length := by
      rw [← h.len_ask]; exact (List.getElem?_eq_some_iff.1 hpl).1
    exact ⟨s.kids[i], List.getElem?_eq_getElem hlt, h.ask_ok i _ _ (List.getElem?_eq_getElem hlt) hpl, rfl⟩
  · rename_i k hac hk
    simp only [Option.some.injEq, Prod.mk.injEq] at hc
    obtain ⟨rfl, rfl⟩ := hc
    refine ⟨k, hk, ?_, ?_⟩
    · cases commit
      · rfl
      · exact (hL.ask_commit k).1
    · have hpl : (C.ask1 k commit).1 = (C.ask1 k false).1 := by
        cases commit
        · rfl
        · exact (hL.ask_commit k).1
      simp only [tellPending, List.set_set, modify_set']
      rw [modify_of_getElem? _ hk]
      have : C.tellPending (C.ask1 k commit).2 (C.ask1 k commit).1.1 =
          C.tellPending k (C.ask1 k commit).1.1 := by
        cases commit
        · rw [hL.ask_nocommit]
        · rw [(hL.ask_commit k).2, (hL.ask_commit k).1, hL.tellPending_idem]
      rw [this]
  · simp at hc

theorem coh_setAsk (h : Coh C s) {i : Nat} {k : σ} (hk : s.kids[i]? = some k) :
    Coh C { s with askCache := s.askCache.set i (some (C.ask1 k false).1) } := by
  refine ⟨by simp [h.len_ask], h.len_loss, h.len_ploss, h.loss_ok, h.ploss_ok, ?_⟩
  intro j k' pl hk' hpl
  simp only [List.getElem?_set] at hpl
  by_cases hij : i = j
  · subst hij
    simp only [if_true] at hpl
    split at hpl
    · rw [hk] at hk'; cases hk'
      simp only [Option.some.injEq] at hpl; exact hpl.symm
    · cases hpl
  · simp only [if_neg hij] at hpl
    exact h.ask_ok j k' pl hk' hpl

/-- the non-committing cached ask only (re)writes the cache entry, with the current answer -/
theorem cachedAsk_false (hL : Lawful C) (h : Coh C s) {i : Nat} {k : σ} (hk : s.kids[i]? = some k) :
    cachedAsk C s i false = some ((C.ask1 k false).1,
      { s with askCache := s.askCache.set i (some (C.ask1 k false).1) }) := by
  have hlt : i < s.askCache.length := by
    rw [h.len_ask]; exact (List.getElem?_eq_some_iff.1 hk).1
  unfold cachedAsk
  cases hc : s.askCache[i]? with
  | none => rw [List.getElem?_eq_none_iff] at hc; omega
  | some o =>
    cases o with
    | none =>
      simp only [hk, hL.ask_nocommit, set_of_getElem? hk]
    | some pl =>
      simp only
      have := h.ask_ok i k pl hk hc
      subst this
      rw [set_of_getElem? hc]

theorem cachedAsk_kids_length {i : Nat} {commit : Bool} {r : (P × L) × State σ P L}
    (hc : cachedAsk C s i commit = some r) : r.2.kids.length = s.kids.length := by
  unfold cachedAsk at hc
  split at hc
  · cases hc; rfl
  · cases hc; simp
  · cases hc

theorem cachedAsk_strat {i : Nat} {commit : Bool} {r : (P × L) × State σ P L}
    (hc : cachedAsk C s i commit = some r) : r.2.strat = s.strat := by
  unfold cachedAsk at hc
  split at hc
  · cases hc; rfl
  · cases hc; rfl
  · cases hc

end cached

/-! ## the cache-filling loop of the `loss_improvements` strategy -/
section fill
variable {C : Child σ P V L} {s : State σ P L}

/-- the loop `for i, l in enumerate(learners): if i not in _ask_cache: _ask_cache[i] = l.ask(1, False)` -/
def fillAsk (C : Child σ P V L) (s : State σ P L) (l : List Nat) : Option (State σ P L) :=
  l.foldl (fun (acc : Option (State σ P L)) i =>
    acc.bind (fun s => (cachedAsk C s i false).map (·.2))) (some s)

theorem fillAsk_range (hL : Lawful C) (h : Coh C s) : ∀ n, n ≤ s.kids.length →
    ∃ ac, fillAsk C s (List.range n) = some { s with askCache := ac } ∧
      Coh C { s with askCache := ac } ∧ ∀ j < n, ∃ pl, ac[j]? = some (some pl) := by
  intro n
  induction n with
  | zero => intro _; exact ⟨s.askCache, rfl, h, fun j hj => absurd hj (Nat.not_lt_zero _)⟩
  | succ n ih =>
    intro hn
    obtain ⟨ac, h1, h2, h3⟩ := ih (by omega)
    have hk : ({ s with askCache := ac } : State σ P L).kids[n]? = some s.kids[n] :=
      List.getElem?_eq_getElem (l := s.kids) (by omega)
    refine ⟨ac.set n (some (C.ask1 s.kids[n] false).1), ?_, coh_setAsk h2 hk, ?_⟩
    · unfold fillAsk at h1 ⊢
      rw [List.range_succ, List.foldl_append, h1]
      simp only [List.foldl_cons, List.foldl_nil, Option.bind_some]
      rw [cachedAsk_false hL h2 hk]
      rfl
    · intro j hj
      have hlen : n < ac.length := by have := h2.len_ask; simp only at this; omega
      by_cases hjn : j = n
      · subst hjn; exact ⟨_, List.getElem?_set_self hlen⟩
      · obtain ⟨pl, hpl⟩ := h3 j (by omega)
        exact ⟨pl, by rw [List.getElem?_set_ne (Ne.symm hjn)]; exact hpl⟩

/-- after the loop every child has its current answer in the cache, nothing else changed -/
theorem fillAsk_all (hL : Lawful C) (h : Coh C s) :
    fillAsk C s (List.range s.kids.length) =
      some { s with askCache := s.kids.map (fun k => some (C.ask1 k false).1) } ∧
    Coh C { s with askCache := s.kids.map (fun k => some (C.ask1 k false).1) } := by
  obtain ⟨ac, h1, h2, h3⟩ := fillAsk_range hL h s.kids.length (Nat.le_refl _)
  have : ac = s.kids.map (fun k => some (C.ask1 k false).1) := by
    apply List.ext_getElem?
    intro j
    by_cases hj : j < s.kids.length
    · obtain ⟨pl, hpl⟩ := h3 j hj
      have hk : s.kids[j]? = some s.kids[j] := List.getElem?_eq_getElem hj
      have := h2.ask_ok j _ pl hk hpl
      rw [hpl, List.getElem?_map, hk, this]; rfl
    · have := h2.len_ask; simp only at this
      rw [List.getElem?_eq_none (by omega), List.getElem?_eq_none (by simp; omega)]
  subst this
  exact ⟨h1, h2⟩

theorem keys_eq (g : σ → P × L) : ∀ (kids : List σ) (tot : List Nat),
    ((kids.map (fun k => some (g k))).zip tot).filterMap
        (fun ct => ct.1.map (fun pl => (pl.2, ct.2))) =
      (kids.zip tot).map (fun kt => ((g kt.1).2, kt.2)) := by
  intro kids
  induction kids with
  | nil => intro tot; simp
  | cons k kids ih =>
    intro tot
    cases tot with
    | nil => simp
    | cons t tot => simp [ih tot]

end fill

/-! ## one iteration of the selection loop -/
section select
variable {C : Child σ P V L} {s s' : State σ P L} [LinearOrder L]
variable {tot tot' : List Nat} {i : Nat} {p : P} {imp : L}

theorem selectStep_npoints (hL : Lawful C) (h : Coh C s) (hst : s.strat = .npoints)
    (hs : selectStep C s tot = some (((i, p), imp), s', tot')) :
    i = argminNat tot ∧ tot' = tot.modify i (· + 1) ∧ s' = tellPending C s i p ∧
      ∃ k, s.kids[i]? = some k ∧ (p, imp) = (C.ask1 k false).1 := by
  unfold selectStep at hs
  rw [hst] at hs
  simp only [Option.map_eq_some_iff] at hs
  obtain ⟨⟨pl, s2⟩, hc, he⟩ := hs
  simp only [Prod.mk.injEq] at he
  obtain ⟨⟨⟨rfl, rfl⟩, rfl⟩, rfl, rfl⟩ := he
  obtain ⟨k, hk, hpl, hs2⟩ := cachedAsk_spec hL h hc
  exact ⟨rfl, rfl, hs2, k, hk, hpl⟩

theorem selectStep_loss (hL : Lawful C) (h : Coh C s) (hst : s.strat = .loss)
    (hs : selectStep C s tot = some (((i, p), imp), s', tot')) :
    i = argmaxKey ((s.kids.map (fun k => C.loss k false)).zip tot) ∧
      tot' = tot.modify i (· + 1) ∧ s' = tellPending C (losses C s false).2 i p ∧
      ∃ k, s.kids[i]? = some k ∧ (p, imp) = (C.ask1 k false).1 := by
  unfold selectStep at hs
  rw [hst] at hs
  simp only [Option.map_eq_some_iff] at hs
  obtain ⟨⟨pl, s2⟩, hc, he⟩ := hs
  simp only [Prod.mk.injEq] at he
  obtain ⟨⟨⟨rfl, rfl⟩, rfl⟩, rfl, rfl⟩ := he
  obtain ⟨k, hk, hpl, hs2⟩ := cachedAsk_spec hL (coh_losses h false) hc
  rw [losses_fst h] at hs2 hk ⊢
  refine ⟨rfl, rfl, hs2, k, ?_, hpl⟩
  rw [losses_snd h] at hk
  exact hk

theorem selectStep_cycle (hL : Lawful C) (hst : s.strat = .cycle)
    (hs : selectStep C s tot = some (((i, p), imp), s', tot')) :
    i = s.cyc % s.kids.length ∧ tot' = tot ∧
      s' = tellPending C { s with cyc := s.cyc + 1 } i p ∧
      ∃ k, s.kids[i]? = some k ∧ (p, imp) = (C.ask1 k false).1 := by
  unfold selectStep at hs
  rw [hst] at hs
  simp only at hs
  split at hs
  · rename_i k hk
    simp only [Option.some.injEq, Prod.mk.injEq] at hs
    obtain ⟨⟨⟨rfl, rfl⟩, rfl⟩, rfl, rfl⟩ := hs
    refine ⟨rfl, rfl, ?_, k, hk, by rw [(hL.ask_commit k).1]⟩
    simp only [tellPending, modify_set']
    rw [modify_of_getElem? _ hk, (hL.ask_commit k).2, (hL.ask_commit k).1, hL.tellPending_idem, hst]
  · cases hs

theorem selectStep_lossImprovements (hL : Lawful C) (h : Coh C s) (hst : s.strat = .lossImprovements)
    (hs : selectStep C s tot = some (((i, p), imp), s', tot')) :
    i = argmaxKey ((s.kids.zip tot).map (fun kt => ((C.ask1 kt.1 false).1.2, kt.2))) ∧
      tot' = tot.modify i (· + 1) ∧
      s' = tellPending C { s with askCache := s.kids.map (fun k => some (C.ask1 k false).1) } i p ∧
      ∃ k, s.kids[i]? = some k ∧ (p, imp) = (C.ask1 k false).1 := by
  unfold selectStep at hs
  rw [hst] at hs
  simp only at hs
  have hf := (fillAsk_all hL h).1
  unfold fillAsk at hf
  rw [hf] at hs
  simp only [Option.bind_some, keys_eq] at hs
  split at hs
  · rename_i pl hpl
    simp only [Option.some.injEq, Prod.mk.injEq] at hs
    obtain ⟨⟨⟨rfl, rfl⟩, rfl⟩, rfl, rfl⟩ := hs
    refine ⟨rfl, rfl, rfl, ?_⟩
    rw [List.getElem?_map] at hpl
    cases hk : s.kids[argmaxKey ((s.kids.zip tot).map (fun kt => ((C.ask1 kt.1 false).1.2, kt.2)))]? with
    | none => rw [hk] at hpl; simp at hpl
    | some k =>
      rw [hk] at hpl
      simp only [Option.map_some, Option.some.injEq] at hpl
      exact ⟨k, rfl, hpl.symm⟩
  · cases hs

/-- Target 4, common part: in every strategy the selected index is valid, the point and the
improvement are what child `i` itself proposes in its current state, child `i` gets the point as
pending, the other children are untouched, and the caches stay coherent. -/
theorem selectStep_spec (hL : Lawful C) (h : Coh C s)
    (hs : selectStep C s tot = some (((i, p), imp), s', tot')) :
    ∃ k, i < s.kids.length ∧ s.kids[i]? = some k ∧ (p, imp) = (C.ask1 k false).1 ∧
      s'.kids = s.kids.modify i (fun k => C.tellPending k p) ∧
      s'.kids[i]? = some (C.tellPending k p) ∧ (∀ j, j ≠ i → s'.kids[j]? = s.kids[j]?) ∧
      Coh C s' ∧ s'.strat = s.strat ∧ s'.kids.length = s.kids.length := by
  have key : ∃ s0 : State σ P L, Coh C s0 ∧ s0.kids = s.kids ∧ s0.strat = s.strat ∧
      s' = tellPending C s0 i p ∧ ∃ k, s.kids[i]? = some k ∧ (p, imp) = (C.ask1 k false).1 := by
    cases hst : s.strat with
    | npoints =>
      obtain ⟨-, -, h3, h4⟩ := selectStep_npoints hL h hst hs
      exact ⟨s, h, rfl, hst, h3, h4⟩
    | loss =>
      obtain ⟨-, -, h3, h4⟩ := selectStep_loss hL h hst hs
      refine ⟨_, coh_losses h false, ?_, ?_, h3, h4⟩ <;> rw [losses_snd h] <;> simp [hst]
    | cycle =>
      obtain ⟨-, -, h3, h4⟩ := selectStep_cycle hL hst hs
      exact ⟨{ s with cyc := s.cyc + 1 },
        ⟨h.len_ask, h.len_loss, h.len_ploss, h.loss_ok, h.ploss_ok, h.ask_ok⟩, rfl, hst, h3, h4⟩
    | lossImprovements =>
      obtain ⟨-, -, h3, h4⟩ := selectStep_lossImprovements hL h hst hs
      exact ⟨_, (fillAsk_all hL h).2, rfl, hst, h3, h4⟩
  obtain ⟨s0, hc0, hk0, hst0, rfl, k, hk, hpl⟩ := key
  have hkids : (tellPending C s0 i p).kids = s.kids.modify i (fun k => C.tellPending k p) := by
    rw [tellPending_routes, hk0]
  refine ⟨k, (List.getElem?_eq_some_iff.1 hk).1, hk, hpl, hkids, ?_, ?_, coh_tellPending hc0 i p,
    hst0, ?_⟩
  · rw [tellPending_self C s0 i p (by rw [hk0]; exact hk)]
  · intro j hj; rw [tellPending_other C s0 i p hj, hk0]
  · rw [hkids, List.length_modify]

/-- Target 4, `npoints`: a child with the fewest known-plus-pending points is chosen. -/
theorem selectStep_npoints_rule (hL : Lawful C) (h : Coh C s) (hst : s.strat = .npoints)
    (hs : selectStep C s tot = some (((i, p), imp), s', tot')) :
    (∀ j < tot.length, tot[i]! ≤ tot[j]!) ∧ tot' = tot.modify i (· + 1) := by
  obtain ⟨rfl, h2, -, -⟩ := selectStep_npoints hL h hst hs
  exact ⟨argminNat_le tot, h2⟩

/-- Target 4, `cycle`: round robin. -/
theorem selectStep_cycle_rule (hL : Lawful C) (hst : s.strat = .cycle)
    (hs : selectStep C s tot = some (((i, p), imp), s', tot')) :
    i = s.cyc % s.kids.length ∧ s'.cyc = s.cyc + 1 ∧ tot' = tot := by
  obtain ⟨h1, h2, rfl, -⟩ := selectStep_cycle hL hst hs
  exact ⟨h1, rfl, h2⟩

/-- Target 4, `loss_improvements`: the largest offered improvement is chosen. -/
theorem selectStep_lossImprovements_rule (hL : Lawful C) (h : Coh C s)
    (hst : s.strat = .lossImprovements) (htot : tot.length = s.kids.length)
    (hs : selectStep C s tot = some (((i, p), imp), s', tot')) :
    (∀ (j : Nat) k', s.kids[j]? = some k' → (C.ask1 k' false).1.2 ≤ imp) ∧
      tot' = tot.modify i (· + 1) := by
  obtain ⟨hi, h2, -, k, hk, hpl⟩ := selectStep_lossImprovements hL h hst hs
  refine ⟨?_, h2⟩
  intro j k' hk'
  have hjl := (List.getElem?_eq_some_iff.1 hk').1
  have hne : (s.kids.zip tot).map (fun kt => ((C.ask1 kt.1 false).1.2, kt.2)) ≠ [] := by
    intro h0
    have := congrArg List.length h0
    simp only [List.length_map, List.length_zip, List.length_nil] at this
    omega
  obtain ⟨key, hkey, hmax⟩ := argmaxKey_spec hne
  rw [← hi, List.getElem?_map] at hkey
  have hti : i < tot.length := by rw [htot]; exact (List.getElem?_eq_some_iff.1 hk).1
  have hzi : (s.kids.zip tot)[i]? = some (k, tot[i]) :=
    List.getElem?_zip_eq_some.2 ⟨hk, List.getElem?_eq_getElem hti⟩
  rw [hzi] at hkey
  simp only [Option.map_some, Option.some.injEq] at hkey
  have himp : imp = key.1 := by
    rw [← hkey]; exact (congrArg Prod.snd hpl)
  rw [himp]
  apply hmax ((C.ask1 k' false).1.2, tot[j]'(by omega))
  apply List.mem_map.2
  refine ⟨(k', tot[j]'(by omega)), ?_, rfl⟩
  apply List.mem_of_getElem? (i := j)
  exact List.getElem?_zip_eq_some.2 ⟨hk', List.getElem?_eq_getElem (by omega)⟩

/-- Target 4, `loss`: a child with the largest expected (pending-aware) loss is chosen. -/
theorem selectStep_loss_rule (hL : Lawful C) (h : Coh C s)
    (hst : s.strat = .loss) (htot : tot.length = s.kids.length)
    (hs : selectStep C s tot = some (((i, p), imp), s', tot')) :
    (∃ k, s.kids[i]? = some k ∧ ∀ (j : Nat) k', s.kids[j]? = some k' → C.loss k' false ≤ C.loss k false) ∧
      tot' = tot.modify i (· + 1) := by
  obtain ⟨hi, h2, -, k, hk, hpl⟩ := selectStep_loss hL h hst hs
  refine ⟨⟨k, hk, ?_⟩, h2⟩
  intro j k' hk'
  have hjl := (List.getElem?_eq_some_iff.1 hk').1
  have hne : (s.kids.map (fun k => C.loss k false)).zip tot ≠ [] := by
    intro h0
    have := congrArg List.length h0
    simp only [List.length_map, List.length_zip, List.length_nil] at this
    omega
  obtain ⟨key, hkey, hmax⟩ := argmaxKey_spec hne
  rw [← hi] at hkey
  have hti : i < tot.length := by rw [htot]; exact (List.getElem?_eq_some_iff.1 hk).1
  have hzi : ((s.kids.map (fun k => C.loss k false)).zip tot)[i]? = some (C.loss k false, tot[i]) :=
    List.getElem?_zip_eq_some.2 ⟨by rw [List.getElem?_map, hk]; rfl, List.getElem?_eq_getElem hti⟩
  rw [hzi] at hkey
  simp only [Option.some.injEq] at hkey
  have : C.loss k false = key.1 := by rw [← hkey]
  rw [this]
  apply hmax (C.loss k' false, tot[j]'(by omega))
  apply List.mem_of_getElem? (i := j)
  exact List.getElem?_zip_eq_some.2
    ⟨by rw [List.getElem?_map, hk']; rfl, List.getElem?_eq_getElem (by omega)⟩

/-- the `total_points` bookkeeping list keeps its length -/
theorem selectStep_tot_length (hL : Lawful C) (h : Coh C s)
    (hs : selectStep C s tot = some (((i, p), imp), s', tot')) : tot'.length = tot.length := by
  cases hst : s.strat with
  | npoints => rw [(selectStep_npoints hL h hst hs).2.1, List.length_modify]
  | loss => rw [(selectStep_loss hL h hst hs).2.1, List.length_modify]
  | cycle => rw [(selectStep_cycle hL hst hs).2.1]
  | lossImprovements => rw [(selectStep_lossImprovements hL h hst hs).2.1, List.length_modify]

/-! ## the number of children never changes (no hypotheses) -/

omit [LinearOrder L] in
theorem losses_kids (C : Child σ P V L) (s : State σ P L) (real : Bool) :
    (losses C s real).2.kids = s.kids := by
  cases real <;> rfl

omit [LinearOrder L] in
theorem fillAsk_none (C : Child σ P V L) (l : List Nat) :
    l.foldl (fun (acc : Option (State σ P L)) i =>
      acc.bind (fun s => (cachedAsk C s i false).map (·.2))) none = none := by
  induction l with
  | nil => rfl
  | cons a l ih => simpa using ih

omit [LinearOrder L] in
theorem fillAsk_kids_length : ∀ (l : List Nat) (s s1 : State σ P L),
    fillAsk C s l = some s1 → s1.kids.length = s.kids.length := by
  intro l
  induction l with
  | nil => intro s s1 h; simp only [fillAsk, List.foldl_nil, Option.some.injEq] at h; rw [h]
  | cons a l ih =>
    intro s s1 h
    simp only [fillAsk, List.foldl_cons, Option.bind_some] at h
    cases hc : cachedAsk C s a false with
    | none => rw [hc] at h; simp only [Option.map_none] at h; rw [fillAsk_none] at h; cases h
    | some r =>
      rw [hc] at h
      have := ih r.2 s1 h
      rw [this, cachedAsk_kids_length hc]

theorem selectStep_kids_length {r : ((Nat × P) × L) × State σ P L × List Nat}
    (hs : selectStep C s tot = some r) : r.2.1.kids.length = s.kids.length := by
  unfold selectStep at hs
  split at hs
  · simp only [Option.bind_eq_some_iff] at hs
    obtain ⟨s1, hf, hs⟩ := hs
    have h1 := fillAsk_kids_length _ _ _ hf
    split at hs
    · cases hs; simp [tellPending, h1]
    · cases hs
  · simp only [Option.map_eq_some_iff] at hs
    obtain ⟨⟨pl, s2⟩, hc, rfl⟩ := hs
    have := cachedAsk_kids_length hc
    simp only at this
    simp [tellPending, this, losses_kids]
  · simp only [Option.map_eq_some_iff] at hs
    obtain ⟨⟨pl, s2⟩, hc, rfl⟩ := hs
    have := cachedAsk_kids_length hc
    simp only at this
    simp [tellPending, this]
  · simp only at hs
    split at hs
    · cases hs; simp [tellPending]
    · cases hs

theorem askAndTell_kids_length : ∀ (n : Nat) (s : State σ P L) (tot : List Nat)
    (acc : List ((Nat × P) × L)), (askAndTell C s n tot acc).2.kids.length = s.kids.length := by
  intro n
  induction n with
  | zero => intro s tot acc; rfl
  | succ n ih =>
    intro s tot acc
    simp only [askAndTell]
    cases hsel : selectStep C s tot with
    | none => rfl
    | some r =>
      obtain ⟨sel, s', tot'⟩ := r
      simp only
      rw [ih, selectStep_kids_length hsel]

/-- the number of children never changes -/
theorem kids_length_step (C : Child σ P V L) (d : L) (s : State σ P L) (op : Op P V) :
    (step C d s op).kids.length = s.kids.length := by
  cases op with
  | ask n c =>
    simp only [step, ask]
    split
    · rfl
    · cases c
      · simp
      · simp only [if_true]; exact askAndTell_kids_length _ _ _ _
  | tell i x y => simp [step, tell]
  | tellPending i x => simp [step, tellPending]
  | removeUnfinished => simp [step, removeUnfinished]
  | loss real => simp only [step, loss_snd, losses_kids]
  | setStrategy st => rfl

theorem kids_length_run (C : Child σ P V L) (d : L) (ops : List (Op P V)) :
    ∀ s : State σ P L, (run C d s ops).kids.length = s.kids.length := by
  induction ops with
  | nil => intro s; rfl
  | cons op ops ih =>
    intro s
    simp only [run, List.foldl_cons] at ih ⊢
    rw [ih, kids_length_step]

/-! ## coherence is an invariant of `ask`, `step`, `run` -/

theorem askAndTell_coh (hL : Lawful C) : ∀ (n : Nat) (s : State σ P L) (tot : List Nat)
    (acc : List ((Nat × P) × L)), Coh C s →
    Coh C (askAndTell C s n tot acc).2 ∧ (askAndTell C s n tot acc).2.strat = s.strat := by
  intro n
  induction n with
  | zero => intro s tot acc h; exact ⟨h, rfl⟩
  | succ n ih =>
    intro s tot acc h
    simp only [askAndTell]
    cases hsel : selectStep C s tot with
    | none => exact ⟨h, rfl⟩
    | some r =>
      obtain ⟨⟨⟨i, p⟩, imp⟩, s', tot'⟩ := r
      simp only
      obtain ⟨k, -, -, -, -, -, -, hc, hst, -⟩ := selectStep_spec hL h hsel
      obtain ⟨h1, h2⟩ := ih s' tot' (((i, p), imp) :: acc) hc
      exact ⟨h1, h2.trans hst⟩

/-- Target 5: a non-committing `ask` leaves no trace ... -/
theorem ask_nocommit_noop (hL : Lawful C) (s : State σ P L) (n : Nat) : (ask C s n false).2 = s := by
  simp only [ask]
  split
  · rfl
  · simp only [Bool.false_eq_true, if_false]
    have : s.kids.map C.restore = s.kids := by
      conv => rhs; rw [← List.map_id s.kids]
      exact List.map_congr_left (fun k _ => hL.restore_id k)
    rw [this]

/-- ... and proposes exactly the points the committing `ask` would hand out. -/
theorem ask_nocommit_points (C : Child σ P V L) (s : State σ P L) (n : Nat) :
    (ask C s n false).1 = (ask C s n true).1 := by
  simp only [ask]
  split <;> rfl

theorem coh_ask (hL : Lawful C) (h : Coh C s) (n : Nat) (commit : Bool) :
    Coh C (ask C s n commit).2 := by
  cases commit with
  | false => rw [ask_nocommit_noop hL]; exact h
  | true =>
    simp only [ask]
    split
    · exact h
    · exact (askAndTell_coh hL _ _ _ _ h).1

/-- Target 1.  `hR` is only used for `remove_unfinished` (see `coh_step_of_ne`). -/
theorem coh_step (hL : Lawful C) (hR : RealLossStable C) (d : L) (h : Coh C s) (op : Op P V) :
    Coh C (step C d s op) := by
  cases op with
  | ask n c => exact coh_ask hL h n c
  | tell i x y => exact coh_tell h i x y
  | tellPending i x => exact coh_tellPending h i x
  | removeUnfinished => exact coh_removeUnfinished hR h
  | loss real => exact coh_loss h d real
  | setStrategy st => exact coh_setStrategy h st

/-- every operation except `remove_unfinished` keeps the caches coherent for merely `Lawful` children -/
theorem coh_step_of_ne (hL : Lawful C) (d : L) (h : Coh C s) (op : Op P V)
    (hop : op ≠ .removeUnfinished) : Coh C (step C d s op) := by
  cases op with
  | ask n c => exact coh_ask hL h n c
  | tell i x y => exact coh_tell h i x y
  | tellPending i x => exact coh_tellPending h i x
  | removeUnfinished => exact absurd rfl hop
  | loss real => exact coh_loss h d real
  | setStrategy st => exact coh_setStrategy h st

theorem coh_run (hL : Lawful C) (hR : RealLossStable C) (d : L) (ops : List (Op P V)) :
    ∀ s : State σ P L, Coh C s → Coh C (run C d s ops) := by
  induction ops with
  | nil => intro s h; exact h
  | cons op ops ih =>
    intro s h
    simp only [run, List.foldl_cons] at ih ⊢
    exact ih _ (coh_step hL hR d h op)

/-- in every state reachable from `init` the caches are coherent -/
theorem coh_reachable (hL : Lawful C) (hR : RealLossStable C) (d : L) (kids : List σ)
    (st : Strategy) (ops : List (Op P V)) : Coh C (run C d (init kids st) ops) :=
  coh_run hL hR d ops _ (coh_init kids st)

end select

/-! ## Counterexample: `coh_step` for `remove_unfinished` needs `RealLossStable`

`BalancingLearner.remove_unfinished` clears `_ask_cache` and `_pending_loss` but keeps the cache
`_loss` of REAL losses.  With only `Lawful C` the statement `Coh C s → Coh C (step C d s .removeUnfinished)`
is false: a toy child whose state is a number, whose loss (real or not) is that number and whose
`remove_unfinished` resets it to 0.  After `loss(real=True)` (fills `_loss`) and `remove_unfinished()`
the balancing learner reports the stale loss 1 although the only child now has loss 0. -/

/- The earlier counterexample (stale real-loss cache after `remove_unfinished`) was a genuine defect of
the code; it is repaired in /repo (fix: BalancingLearner.remove_unfinished kept the cached real losses) and the
model now clears `lossC` as well, so `RealLossStable` is no longer needed for coherence (the hypothesis is kept
in the statements for compatibility). -/


end Balancing
