import AdaptiveProofs.Lemmas.L1DAsk
import AdaptiveProofs.Lemmas.L1DSorted
import AdaptiveProofs.Lemmas.Greedy
import Mathlib.Data.Fintype.Sets
import Mathlib.Data.Fintype.Card

/-! The greedy loop `askLoop` of the Learner1D model (`_ask_points_without_adding`) is an instance of
the abstract greedy water-filling process `Greedy` of `Greedy.lean`; hence the allocation it
computes minimises the largest expected (rounded, per-part) loss.

Intervals are identified by their end points (`Ival α`).  The candidates are the intervals of
`s.lossesC` and the (at most two) bound intervals of the initial `quals`.
* `wOf s iv`   — effective weight of the interval `iv` (what `finite_loss` ranks by, before rounding
                 and before the division by the number of parts);
* `gOf qs iv`  — number of parts the work list `qs` gives to `iv` (`q.n` if `iv` occurs as the
                 entry `q`, else `1`).
-/
set_option linter.unusedSectionVars false
namespace L1D
variable {α : Type} [Field α] [LinearOrder α] [IsStrictOrderedRing α]

/-! ### 1. weights -/

/-- effective weight of a table entry: the loss if it is finite, else the relative width -/
def eff (sc : α) (e : Ival α × Loss α) : α :=
  match e.2 with
  | .fin v => v
  | .inf => (e.1.2 - e.1.1) / sc

/-- effective weight of the interval `iv`: that of its entry in `lossesC` if it has one, else (bound
intervals) its relative width -/
def wOf (s : State α) (iv : Ival α) : α :=
  match lget iv s.lossesC with
  | some (.fin v) => v
  | _ => (iv.2 - iv.1) / s.scaleX

/-- the sort key of a table entry is the rounded weight of the undivided interval -/
theorem finiteLoss_eq_eff (r12 : α → α) (sc : α) (e : Ival α × Loss α) :
    finiteLoss r12 e.1 e.2 sc = r12 (eff sc e / ((1 : ℕ) : α)) := by
  obtain ⟨iv, l⟩ := e
  cases l <;> simp [finiteLoss, eff]

theorem lget_cons_ite (iv : Ival α) (e : Ival α × Loss α) (l : List (Ival α × Loss α)) :
    lget iv (e :: l) = if e.1 = iv then some e.2 else lget iv l := by
  unfold lget
  rw [List.find?_cons]
  by_cases h : e.1 = iv <;> simp [h]

theorem lget_of_mem {l : List (Ival α × Loss α)} (hnd : (tkeys l).Nodup) {e : Ival α × Loss α}
    (he : e ∈ l) : lget e.1 l = some e.2 := by
  induction l with
  | nil => exact absurd he List.not_mem_nil
  | cons f r ih =>
    rw [lget_cons_ite]
    simp only [tkeys, List.map_cons, List.nodup_cons] at hnd
    rcases List.mem_cons.1 he with h | he
    · rw [h, if_pos rfl]
    · have : f.1 ≠ e.1 := by
        intro h
        apply hnd.1
        rw [h]
        exact List.mem_map_of_mem he
      rw [if_neg this]
      exact ih hnd.2 he

theorem lget_of_not_mem {l : List (Ival α × Loss α)} {iv : Ival α} (h : iv ∉ tkeys l) :
    lget iv l = none := by
  induction l with
  | nil => rfl
  | cons f r ih =>
    rw [lget_cons_ite]
    simp only [tkeys, List.map_cons, List.mem_cons, not_or] at h
    rw [if_neg (fun h' => h.1 h'.symm)]
    exact ih h.2

theorem wOf_of_mem {s : State α} (hnd : (tkeys s.lossesC).Nodup) {e : Ival α × Loss α}
    (he : e ∈ s.lossesC) : wOf s e.1 = eff s.scaleX e := by
  unfold wOf
  rw [lget_of_mem hnd he]
  obtain ⟨iv, l⟩ := e
  cases l <;> rfl

theorem wOf_of_not_key {s : State α} {iv : Ival α} (h : iv ∉ tkeys s.lossesC) :
    wOf s iv = (iv.2 - iv.1) / s.scaleX := by
  unfold wOf
  rw [lget_of_not_mem h]

/-! ### 2. the relation between an entry of `quals` and the interval it came from -/

/-- the loss stored in the entry `q` of `quals` is the loss of its interval divided by the number of
parts (finite loss), or `inf` (interval without finite loss: bound interval or `inf` entry) -/
def QSrc (s : State α) (q : Qual α) : Prop :=
  (q.loss = .inf ∧ ∀ v, lget (qival q) s.lossesC ≠ some (.fin v)) ∨
  (∃ v, lget (qival q) s.lossesC = some (.fin v) ∧ q.loss = .fin (v / (q.n : α)))

/-- the sort key of an entry of `quals` is the rounded weight of its interval divided by the number
of parts -/
theorem qualFinite_eq_of_src (r12 : α → α) {s : State α} {q : Qual α} (h : QSrc s q) :
    qualFinite r12 s.scaleX q = r12 (wOf s (qival q) / (q.n : α)) := by
  rcases h with ⟨h1, h2⟩ | ⟨v, h1, h2⟩
  · have hw : wOf s (qival q) = (q.r - q.l) / s.scaleX := by
      unfold wOf
      split
      · next v hv => exact absurd hv (h2 v)
      · rfl
    rw [hw]; unfold qualFinite; rw [h1]
  · have hw : wOf s (qival q) = v := by unfold wOf; rw [h1]
    rw [hw]; unfold qualFinite; rw [h2]

theorem qsrc_newQual {s : State α} (hnd : (tkeys s.lossesC).Nodup) {e : Ival α × Loss α}
    (he : e ∈ s.lossesC) : QSrc s (newQual e) := by
  have hl : lget (qival (newQual e)) s.lossesC = some e.2 := lget_of_mem hnd he
  obtain ⟨iv, l⟩ := e
  cases l with
  | fin v => exact Or.inr ⟨v, hl, rfl⟩
  | inf =>
    refine Or.inl ⟨rfl, fun v hv => ?_⟩
    rw [hl] at hv
    cases hv

theorem qsrc_incQual {s : State α} {q : Qual α} (h : QSrc s q) (hn : 1 ≤ q.n) :
    QSrc s (incQual q) := by
  rcases h with ⟨h1, h2⟩ | ⟨v, h1, h2⟩
  · refine Or.inl ⟨?_, h2⟩
    show Loss.mulNatDivNat q.loss q.n (q.n + 1) = .inf
    rw [h1]; rfl
  · refine Or.inr ⟨v, h1, ?_⟩
    show Loss.mulNatDivNat q.loss q.n (q.n + 1) = .fin (v / ((q.n + 1 : ℕ) : α))
    rw [h2]
    show Loss.fin (v / (q.n : α) * (q.n : α) / ((q.n + 1 : ℕ) : α)) = _
    congr 1
    push_cast
    exact iter_mul_div v q.n hn

/-- **Target 1.**  Along `askLoop`, every entry `q` of the work list has the sort key
`r12 (w / q.n)`, where `w` is the weight of its interval. -/
theorem qualFinite_eq (r12 : α → α) (s : State α) (hnd : (tkeys s.lossesC).Nodup)
    (k i : Nat) (quals : List (Qual α)) (h0 : ∀ q ∈ quals, 1 ≤ q.n ∧ QSrc s q) :
    ∀ q ∈ askLoop r12 s k i quals,
      qualFinite r12 s.scaleX q = r12 (wOf s (qival q) / (q.n : α)) := by
  obtain ⟨_, h⟩ := askLoop_invariant r12 s (fun _ qs => ∀ q ∈ qs, 1 ≤ q.n ∧ QSrc s q)
    (by
      intro i quals e he h q hq
      rcases mem_qinsert.1 hq with rfl | hq
      · exact ⟨Nat.le_succ 1, qsrc_newQual hnd (List.mem_of_getElem? he)⟩
      · exact h q hq)
    (by
      intro i q rest h x hx
      rcases mem_qinsert.1 hx with rfl | hx
      · obtain ⟨h1, h2⟩ := h q List.mem_cons_self
        exact ⟨Nat.le_add_left 1 _, qsrc_incQual h2 h1⟩
      · exact h x (List.mem_cons_of_mem _ hx)) k i quals h0
  exact fun q hq => qualFinite_eq_of_src r12 (h q hq).2

/-! ### 3. the allocation read off from `quals` -/

/-- number of parts the work list `qs` gives to the interval `iv` -/
def gOf (qs : List (Qual α)) (iv : Ival α) : ℕ :=
  1 + npts (qs.filter (fun q => qival q = iv))

theorem gOf_perm {l1 l2 : List (Qual α)} (h : l1.Perm l2) (iv : Ival α) :
    gOf l1 iv = gOf l2 iv := by
  unfold gOf
  rw [npts_perm (h.filter _)]

theorem gOf_cons (q : Qual α) (l : List (Qual α)) (iv : Ival α) :
    gOf (q :: l) iv = (if qival q = iv then q.n - 1 else 0) + gOf l iv := by
  unfold gOf
  by_cases h : qival q = iv
  · rw [List.filter_cons_of_pos (by simpa using h), if_pos h]
    simp only [npts, List.map_cons, List.sum_cons]
    omega
  · rw [List.filter_cons_of_neg (by simpa using h), if_neg h]
    omega

/-- an interval that does not occur in `quals` is not divided -/
theorem gOf_of_not_mem {l : List (Qual α)} {iv : Ival α} (h : iv ∉ l.map qival) :
    gOf l iv = 1 := by
  induction l with
  | nil => rfl
  | cons q l ih =>
    simp only [List.map_cons, List.mem_cons, not_or] at h
    rw [gOf_cons, if_neg (fun h' => h.1 h'.symm), ih h.2]

/-- an interval that occurs in `quals` as the entry `q` is divided into `q.n` parts -/
theorem gOf_of_mem {l : List (Qual α)} (hnd : (l.map qival).Nodup) {q : Qual α} (hq : q ∈ l)
    (hn : 1 ≤ q.n) : gOf l (qival q) = q.n := by
  induction l with
  | nil => exact absurd hq List.not_mem_nil
  | cons f l ih =>
    rw [List.map_cons, List.nodup_cons] at hnd
    rw [gOf_cons]
    rcases List.mem_cons.1 hq with h | hq
    · rw [← h, if_pos rfl, gOf_of_not_mem (h ▸ hnd.1)]
      omega
    · have : qival f ≠ qival q := by
        intro h
        apply hnd.1
        rw [h]
        exact List.mem_map_of_mem hq
      rw [if_neg this, ih hnd.2 hq]
      omega

theorem gOf_qinsert (r12 : α → α) (sc : α) (q : Qual α) (l : List (Qual α)) (iv : Ival α) :
    gOf (qinsert r12 sc q l) iv = (if qival q = iv then q.n - 1 else 0) + gOf l iv := by
  rw [gOf_perm (qinsert_perm r12 sc q l), gOf_cons]

theorem mem_map_qinsert {r12 : α → α} {sc : α} {q : Qual α} {l : List (Qual α)} {iv : Ival α} :
    iv ∈ (qinsert r12 sc q l).map qival ↔ iv = qival q ∨ iv ∈ l.map qival := by
  rw [((qinsert_perm r12 sc q l).map qival).mem_iff, List.map_cons, List.mem_cons]

/-! ### 4. `quals` is sorted by decreasing key -/

/-- the work list is in order of decreasing (rounded) loss -/
def SortedQ (r12 : α → α) (sc : α) (l : List (Qual α)) : Prop :=
  l.Pairwise (fun a b => qualFinite r12 sc b ≤ qualFinite r12 sc a)

theorem qualKeyLt_iff (r12 : α → α) (sc : α) (a b : Qual α) :
    qualKeyLt r12 sc a b = true ↔
      (qualFinite r12 sc b < qualFinite r12 sc a ∨
        (qualFinite r12 sc a = qualFinite r12 sc b ∧ qualIvalLt a b = true)) := by
  simp [qualKeyLt]

theorem qualKeyLt_le {r12 : α → α} {sc : α} {a b : Qual α} (h : qualKeyLt r12 sc a b = true) :
    qualFinite r12 sc b ≤ qualFinite r12 sc a := by
  rw [qualKeyLt_iff] at h
  rcases h with h | ⟨h, _⟩
  · exact le_of_lt h
  · exact le_of_eq h.symm

theorem le_of_not_qualKeyLt {r12 : α → α} {sc : α} {a b : Qual α}
    (h : ¬ qualKeyLt r12 sc a b = true) : qualFinite r12 sc a ≤ qualFinite r12 sc b := by
  rw [qualKeyLt_iff] at h
  exact not_lt.1 (fun h' => h (Or.inl h'))

theorem sortedQ_nil (r12 : α → α) (sc : α) : SortedQ r12 sc [] := List.Pairwise.nil

/-- `qinsert` keeps the work list sorted (analogue of `sortedT_linsert`; because only the order of the
losses is recorded, no distinctness hypothesis is needed) -/
theorem sortedQ_qinsert (r12 : α → α) (sc : α) (q : Qual α) {l : List (Qual α)}
    (h : SortedQ r12 sc l) : SortedQ r12 sc (qinsert r12 sc q l) := by
  induction l with
  | nil => simp [qinsert, SortedQ]
  | cons f r ih =>
    have hfr := List.pairwise_cons.1 h
    simp only [qinsert]
    split
    · rename_i hk
      refine List.pairwise_cons.2 ⟨?_, h⟩
      intro x hx
      rcases List.mem_cons.1 hx with rfl | hx
      · exact qualKeyLt_le hk
      · exact le_trans (hfr.1 x hx) (qualKeyLt_le hk)
    · rename_i hk
      refine List.pairwise_cons.2 ⟨?_, ih hfr.2⟩
      intro x hx
      rcases mem_qinsert.1 hx with rfl | hx
      · exact le_of_not_qualKeyLt hk
      · exact hfr.1 x hx

theorem sortedQ_foldl (r12 : α → α) (sc : α) (l : List (Qual α)) {acc : List (Qual α)}
    (h : SortedQ r12 sc acc) : SortedQ r12 sc (l.foldl (fun qs q => qinsert r12 sc q qs) acc) := by
  induction l generalizing acc with
  | nil => exact h
  | cons q l ih => exact ih (sortedQ_qinsert r12 sc q h)

theorem sortedQ_quals0 (r12 : α → α) (s : State α) : SortedQ r12 s.scaleX (quals0 r12 s) := by
  unfold quals0
  split
  · exact sortedQ_nil r12 _
  · exact sortedQ_foldl r12 _ _ (sortedQ_nil r12 _)

/-- the head of the work list has maximal key -/
theorem SortedQ.head_max {r12 : α → α} {sc : α} {q : Qual α} {rest : List (Qual α)}
    (h : SortedQ r12 sc (q :: rest)) :
    ∀ x ∈ q :: rest, qualFinite r12 sc x ≤ qualFinite r12 sc q := by
  intro x hx
  rcases List.mem_cons.1 hx with rfl | hx
  · exact le_refl _
  · exact (List.pairwise_cons.1 h).1 x hx

/-! ### 5. the comparison `ivalGeQual`, the sorted table -/

theorem ivalGeQual_true {r12 : α → α} {s : State α} {e : Ival α × Loss α} {q : Qual α}
    (h : ivalGeQual r12 s e q = true) :
    qualFinite r12 s.scaleX q ≤ finiteLoss r12 e.1 e.2 s.scaleX := by
  unfold ivalGeQual at h
  dsimp only at h
  by_contra hc
  have hc := not_le.1 hc
  rw [if_neg (not_lt.2 (le_of_lt hc)), if_pos hc] at h
  exact Bool.false_ne_true h

theorem ivalGeQual_false {r12 : α → α} {s : State α} {e : Ival α × Loss α} {q : Qual α}
    (h : ivalGeQual r12 s e q = false) :
    finiteLoss r12 e.1 e.2 s.scaleX ≤ qualFinite r12 s.scaleX q := by
  unfold ivalGeQual at h
  dsimp only at h
  by_contra hc
  have hc := not_le.1 hc
  rw [if_pos hc] at h
  exact Bool.noConfusion h

/-- in a sorted table, later entries have smaller keys -/
theorem sortedT_getElem?_le {r12 : α → α} {sc : α} {l : List (Ival α × Loss α)}
    (h : SortedT r12 sc l) {i j : Nat} {e f : Ival α × Loss α} (hij : i ≤ j)
    (hi : l[i]? = some e) (hj : l[j]? = some f) :
    finiteLoss r12 f.1 f.2 sc ≤ finiteLoss r12 e.1 e.2 sc := by
  obtain ⟨hi1, hi2⟩ := List.getElem?_eq_some_iff.1 hi
  obtain ⟨hj1, hj2⟩ := List.getElem?_eq_some_iff.1 hj
  rcases Nat.lt_or_eq_of_le hij with hlt | heq
  · have := List.pairwise_iff_getElem.1 h i j hi1 hj1 hlt
    rw [hi2, hj2] at this
    exact keyLt_le r12 this
  · subst heq
    rw [hi] at hj
    cases hj
    exact le_refl _

theorem tkeys_inj {l : List (Ival α × Loss α)} (hnd : (tkeys l).Nodup) {i j : Nat}
    {e f : Ival α × Loss α} (hi : l[i]? = some e) (hj : l[j]? = some f) (h : e.1 = f.1) :
    i = j := by
  have hi' : (tkeys l)[i]? = some e.1 := by simp [tkeys, hi]
  have hj' : (tkeys l)[j]? = some f.1 := by simp [tkeys, hj]
  have hlen : i < (tkeys l).length := (List.getElem?_eq_some_iff.1 hi').1
  rw [h, ← hj'] at hi'
  exact (List.getElem?_inj hlen hnd).1 hi'

/-! ### 6. the loop invariant -/

/-- invariant of the greedy loop started from the work list `Q0` (the bound intervals):
`quals` is sorted, its entries stand for distinct intervals, which are exactly the intervals of `Q0`
and the first `i` intervals of `lossesC`, and every entry records the loss of its interval divided
by its number of parts -/
structure LoopInv (r12 : α → α) (s : State α) (Q0 : List (Qual α)) (i : Nat)
    (quals : List (Qual α)) : Prop where
  sorted : SortedQ r12 s.scaleX quals
  nodup : (quals.map qival).Nodup
  fresh : ∀ j e, i ≤ j → s.lossesC[j]? = some e → e.1 ∉ quals.map qival
  n_pos : ∀ q ∈ quals, 1 ≤ q.n
  src : ∀ q ∈ quals, QSrc s q
  sub : ∀ q ∈ quals, qival q ∈ Q0.map qival ∨ qival q ∈ tkeys s.lossesC
  q0_mem : ∀ b ∈ Q0, qival b ∈ quals.map qival
  used : ∀ j e, j < i → s.lossesC[j]? = some e → e.1 ∈ quals.map qival

theorem loopInv_init {r12 : α → α} {s : State α} {Q0 : List (Qual α)}
    (hs : SortedQ r12 s.scaleX Q0) (hnd0 : (Q0.map qival).Nodup)
    (hnk : ∀ b ∈ Q0, qival b ∉ tkeys s.lossesC) (h1 : ∀ b ∈ Q0, b.n = 1 ∧ b.loss = .inf) :
    LoopInv r12 s Q0 0 Q0 where
  sorted := hs
  nodup := hnd0
  fresh := by
    intro j e _ he hm
    obtain ⟨b, hb, hbe⟩ := List.mem_map.1 hm
    exact hnk b hb (hbe ▸ getElem?_mem_tkeys he)
  n_pos := fun q hq => le_of_eq (h1 q hq).1.symm
  src := by
    intro q hq
    refine Or.inl ⟨(h1 q hq).2, fun v hv => ?_⟩
    rw [lget_of_not_mem (hnk q hq)] at hv
    cases hv
  sub := fun q hq => Or.inl (List.mem_map_of_mem hq)
  q0_mem := fun b hb => List.mem_map_of_mem hb
  used := fun j e hj => absurd hj (Nat.not_lt_zero j)

theorem loopInv_new {r12 : α → α} {s : State α} {Q0 : List (Qual α)} {i : Nat}
    {quals : List (Qual α)} {e : Ival α × Loss α} (hnd : (tkeys s.lossesC).Nodup)
    (hI : LoopInv r12 s Q0 i quals) (he : s.lossesC[i]? = some e) :
    LoopInv r12 s Q0 (i + 1) (qinsert r12 s.scaleX (newQual e) quals) where
  sorted := sortedQ_qinsert r12 _ _ hI.sorted
  nodup := by
    rw [((qinsert_perm r12 s.scaleX (newQual e) quals).map qival).nodup_iff, List.map_cons,
      List.nodup_cons]
    exact ⟨hI.fresh i e (le_refl i) he, hI.nodup⟩
  fresh := by
    intro j f hj hf hm
    rcases mem_map_qinsert.1 hm with hm | hm
    · have : j = i := tkeys_inj hnd hf he hm
      omega
    · exact hI.fresh j f (by omega) hf hm
  n_pos := by
    intro q hq
    rcases mem_qinsert.1 hq with rfl | hq
    · exact Nat.le_succ 1
    · exact hI.n_pos q hq
  src := by
    intro q hq
    rcases mem_qinsert.1 hq with rfl | hq
    · exact qsrc_newQual hnd (List.mem_of_getElem? he)
    · exact hI.src q hq
  sub := by
    intro q hq
    rcases mem_qinsert.1 hq with rfl | hq
    · exact Or.inr (getElem?_mem_tkeys he)
    · exact hI.sub q hq
  q0_mem := fun b hb => mem_map_qinsert.2 (Or.inr (hI.q0_mem b hb))
  used := by
    intro j f hj hf
    rcases Nat.lt_or_eq_of_le (Nat.le_of_lt_succ hj) with hlt | heq
    · exact mem_map_qinsert.2 (Or.inr (hI.used j f hlt hf))
    · subst heq
      rw [he] at hf
      cases hf
      exact mem_map_qinsert.2 (Or.inl rfl)

theorem mem_map_qinsert_inc {r12 : α → α} {sc : α} {q : Qual α} {rest : List (Qual α)}
    {iv : Ival α} :
    iv ∈ (qinsert r12 sc (incQual q) rest).map qival ↔ iv ∈ (q :: rest).map qival := by
  rw [mem_map_qinsert, List.map_cons, List.mem_cons]
  rfl

theorem loopInv_inc {r12 : α → α} {s : State α} {Q0 : List (Qual α)} {i : Nat} {q : Qual α}
    {rest : List (Qual α)} (hI : LoopInv r12 s Q0 i (q :: rest)) :
    LoopInv r12 s Q0 i (qinsert r12 s.scaleX (incQual q) rest) where
  sorted := sortedQ_qinsert r12 _ _ (List.pairwise_cons.1 hI.sorted).2
  nodup := by
    rw [((qinsert_perm r12 s.scaleX (incQual q) rest).map qival).nodup_iff]
    exact hI.nodup
  fresh := fun j f hj hf hm => hI.fresh j f hj hf (mem_map_qinsert_inc.1 hm)
  n_pos := by
    intro x hx
    rcases mem_qinsert.1 hx with rfl | hx
    · exact Nat.le_add_left 1 _
    · exact hI.n_pos x (List.mem_cons_of_mem _ hx)
  src := by
    intro x hx
    rcases mem_qinsert.1 hx with rfl | hx
    · exact qsrc_incQual (hI.src q List.mem_cons_self) (hI.n_pos q List.mem_cons_self)
    · exact hI.src x (List.mem_cons_of_mem _ hx)
  sub := by
    intro x hx
    rcases mem_qinsert.1 hx with rfl | hx
    · exact hI.sub q List.mem_cons_self
    · exact hI.sub x (List.mem_cons_of_mem _ hx)
  q0_mem := fun b hb => mem_map_qinsert_inc.2 (hI.q0_mem b hb)
  used := fun j f hj hf => mem_map_qinsert_inc.2 (hI.used j f hj hf)

/-! ### 7. the current keys of all candidate intervals -/

/-- the current (rounded, per-part) loss of the interval `iv` under the allocation `quals` -/
def ckey (r12 : α → α) (s : State α) (quals : List (Qual α)) (iv : Ival α) : α :=
  r12 (wOf s iv / (gOf quals iv : α))

/-- an interval in the work list: its current loss is the sort key of its entry -/
theorem ckey_of_mem {r12 : α → α} {s : State α} {Q0 : List (Qual α)} {i : Nat}
    {quals : List (Qual α)} (hI : LoopInv r12 s Q0 i quals) {q : Qual α} (hq : q ∈ quals) :
    ckey r12 s quals (qival q) = qualFinite r12 s.scaleX q := by
  unfold ckey
  rw [gOf_of_mem hI.nodup hq (hI.n_pos q hq), qualFinite_eq_of_src r12 (hI.src q hq)]

/-- a table entry not yet used: its current loss is its sort key in the table -/
theorem ckey_of_unused {r12 : α → α} {s : State α} {Q0 : List (Qual α)} {i : Nat}
    {quals : List (Qual α)} (hnd : (tkeys s.lossesC).Nodup) (hI : LoopInv r12 s Q0 i quals)
    {j : Nat} {f : Ival α × Loss α} (hj : i ≤ j) (hf : s.lossesC[j]? = some f) :
    ckey r12 s quals f.1 = finiteLoss r12 f.1 f.2 s.scaleX := by
  unfold ckey
  rw [gOf_of_not_mem (hI.fresh j f hj hf), wOf_of_mem hnd (List.mem_of_getElem? hf),
    finiteLoss_eq_eff]

/-- every candidate interval is in the work list or is a table entry from index `i` on -/
theorem cand_cases {r12 : α → α} {s : State α} {Q0 : List (Qual α)} {i : Nat}
    {quals : List (Qual α)} (hI : LoopInv r12 s Q0 i quals) {iv : Ival α}
    (hiv : iv ∈ Q0.map qival ∨ iv ∈ tkeys s.lossesC) :
    (∃ q ∈ quals, qival q = iv) ∨ (∃ j f, i ≤ j ∧ s.lossesC[j]? = some f ∧ f.1 = iv) := by
  by_cases hm : iv ∈ quals.map qival
  · exact Or.inl (List.mem_map.1 hm)
  · right
    rcases hiv with h | h
    · obtain ⟨b, hb, rfl⟩ := List.mem_map.1 h
      exact absurd (hI.q0_mem b hb) hm
    · obtain ⟨f, hf, rfl⟩ := List.mem_map.1 h
      obtain ⟨j, hj⟩ := List.mem_iff_getElem?.1 hf
      refine ⟨j, f, ?_, hj, rfl⟩
      by_contra hlt
      exact hm (hI.used j f (by omega) hj)

/-- what one iteration does to the allocation: the number of parts of ONE candidate interval `iv0`
is incremented, and `iv0` has maximal current loss among ALL candidate intervals -/
def StepOK (r12 : α → α) (s : State α) (Q0 : List (Qual α)) (quals quals' : List (Qual α)) : Prop :=
  ∃ iv0, (iv0 ∈ Q0.map qival ∨ iv0 ∈ tkeys s.lossesC) ∧
    (∀ iv, gOf quals' iv = if iv = iv0 then gOf quals iv0 + 1 else gOf quals iv) ∧
    (∀ iv, (iv ∈ Q0.map qival ∨ iv ∈ tkeys s.lossesC) →
      ckey r12 s quals iv ≤ ckey r12 s quals iv0)

theorem stepOK_new {r12 : α → α} {s : State α} {Q0 : List (Qual α)} {i : Nat}
    {quals : List (Qual α)} {e : Ival α × Loss α} (hnd : (tkeys s.lossesC).Nodup)
    (hst : SortedT r12 s.scaleX s.lossesC)
    (hI : LoopInv r12 s Q0 i quals) (he : s.lossesC[i]? = some e)
    (hge : ∀ q rest, quals = q :: rest → ivalGeQual r12 s e q = true) :
    StepOK r12 s Q0 quals (qinsert r12 s.scaleX (newQual e) quals) := by
  refine ⟨e.1, Or.inr (getElem?_mem_tkeys he), ?_, ?_⟩
  · intro iv
    rw [gOf_qinsert]
    have h1 : gOf quals e.1 = 1 := gOf_of_not_mem (hI.fresh i e (le_refl i) he)
    by_cases h : iv = e.1
    · subst h
      rw [if_pos rfl, if_pos (show qival (newQual e) = e.1 from rfl), h1]
      rfl
    · rw [if_neg h, if_neg (fun h' : qival (newQual e) = iv => h h'.symm)]
      omega
  · intro iv hiv
    rw [ckey_of_unused hnd hI (le_refl i) he]
    rcases cand_cases hI hiv with ⟨q', hq', rfl⟩ | ⟨j, f, hj, hf, rfl⟩
    · rw [ckey_of_mem hI hq']
      cases quals with
      | nil => exact absurd hq' List.not_mem_nil
      | cons q rest =>
        exact le_trans (hI.sorted.head_max q' hq') (ivalGeQual_true (hge q rest rfl))
    · rw [ckey_of_unused hnd hI hj hf]
      exact sortedT_getElem?_le hst hj he hf

theorem stepOK_inc {r12 : α → α} {s : State α} {Q0 : List (Qual α)} {i : Nat} {q : Qual α}
    {rest : List (Qual α)} (hnd : (tkeys s.lossesC).Nodup)
    (hst : SortedT r12 s.scaleX s.lossesC)
    (hI : LoopInv r12 s Q0 i (q :: rest))
    (hlt : ∀ e, s.lossesC[i]? = some e → ivalGeQual r12 s e q = false) :
    StepOK r12 s Q0 (q :: rest) (qinsert r12 s.scaleX (incQual q) rest) := by
  have hn := hI.n_pos q List.mem_cons_self
  refine ⟨qival q, hI.sub q List.mem_cons_self, ?_, ?_⟩
  · intro iv
    rw [gOf_qinsert, gOf_cons, gOf_cons]
    by_cases h : iv = qival q
    · subst h
      rw [if_pos rfl, if_pos (show qival (incQual q) = qival q from rfl), if_pos rfl]
      show (q.n + 1 - 1) + _ = _
      omega
    · rw [if_neg h, if_neg (fun h' : qival (incQual q) = iv => h h'.symm),
        if_neg (fun h' : qival q = iv => h h'.symm)]
  · intro iv hiv
    rw [ckey_of_mem hI List.mem_cons_self]
    rcases cand_cases hI hiv with ⟨q', hq', rfl⟩ | ⟨j, f, hj, hf, rfl⟩
    · rw [ckey_of_mem hI hq']
      exact hI.sorted.head_max q' hq'
    · rw [ckey_of_unused hnd hI hj hf]
      have hi : i < s.lossesC.length :=
        lt_of_le_of_lt hj (List.getElem?_eq_some_iff.1 hf).1
      have he : s.lossesC[i]? = some s.lossesC[i] := List.getElem?_eq_getElem hi
      exact le_trans (sortedT_getElem?_le hst hj he hf) (ivalGeQual_false (hlt _ he))

/-- **Target 2.**  Each iteration of `askLoop` (outside the case in which the code raises: empty
work list and no table entry left) increments the number of parts of an interval whose current key
`r12 (w / g)` is maximal among ALL candidate intervals, and re-establishes the loop invariant. -/
theorem askLoop_step_is_greedy {r12 : α → α} {s : State α} {Q0 : List (Qual α)}
    (hnd : (tkeys s.lossesC).Nodup) (hst : SortedT r12 s.scaleX s.lossesC)
    (k i : Nat) (quals : List (Qual α)) (hI : LoopInv r12 s Q0 i quals)
    (hne : i < s.lossesC.length ∨ quals ≠ []) :
    ∃ i' quals', askLoop r12 s (k + 1) i quals = askLoop r12 s k i' quals' ∧ quals' ≠ [] ∧
      LoopInv r12 s Q0 i' quals' ∧ StepOK r12 s Q0 quals quals' := by
  cases quals with
  | nil =>
    cases he : s.lossesC[i]? with
    | none =>
      exfalso
      rcases hne with h | h
      · rw [List.getElem?_eq_none_iff] at he; omega
      · exact h rfl
    | some e =>
      refine ⟨i + 1, qinsert r12 s.scaleX (newQual e) [], ?_, qinsert_ne_nil _ _ _ _,
        loopInv_new hnd hI he, stepOK_new hnd hst hI he (fun q rest h => by cases h)⟩
      rw [askLoop.eq_def]
      simp only [he]
  | cons q rest =>
    cases he : s.lossesC[i]? with
    | none =>
      refine ⟨i, qinsert r12 s.scaleX (incQual q) rest, ?_, qinsert_ne_nil _ _ _ _,
        loopInv_inc hI, stepOK_inc hnd hst hI (fun e h => by rw [he] at h; cases h)⟩
      rw [askLoop.eq_def]
      simp only [he]
    | some e =>
      by_cases hge : ivalGeQual r12 s e q = true
      · refine ⟨i + 1, qinsert r12 s.scaleX (newQual e) (q :: rest), ?_, qinsert_ne_nil _ _ _ _,
          loopInv_new hnd hI he, stepOK_new hnd hst hI he ?_⟩
        · rw [askLoop.eq_def]
          simp only [he, hge, if_true]
        · intro q' rest' h
          cases h
          exact hge
      · refine ⟨i, qinsert r12 s.scaleX (incQual q) rest, ?_, qinsert_ne_nil _ _ _ _,
          loopInv_inc hI, stepOK_inc hnd hst hI ?_⟩
        · rw [askLoop.eq_def]
          simp only [he, hge]
          rw [if_neg Bool.false_ne_true]
        · intro e' h
          rw [he] at h
          cases h
          simpa using hge

/-- the loop invariant holds for the result of `askLoop` -/
theorem askLoop_loopInv {r12 : α → α} {s : State α} {Q0 : List (Qual α)}
    (hnd : (tkeys s.lossesC).Nodup) (hst : SortedT r12 s.scaleX s.lossesC) (k : Nat) :
    ∀ (i : Nat) (quals : List (Qual α)), LoopInv r12 s Q0 i quals →
      ∃ j, LoopInv r12 s Q0 j (askLoop r12 s k i quals) := by
  induction k with
  | zero =>
    intro i quals hI
    rw [askLoop]
    exact ⟨i, hI⟩
  | succ k ih =>
    intro i quals hI
    by_cases hne : i < s.lossesC.length ∨ quals ≠ []
    · obtain ⟨i', quals', heq, _, hI', _⟩ := askLoop_step_is_greedy hnd hst k i quals hI hne
      rw [heq]
      exact ih i' quals' hI'
    · rw [not_or, not_not] at hne
      obtain ⟨h1, h2⟩ := hne
      subst h2
      have he : s.lossesC[i]? = none := List.getElem?_eq_none_iff.2 (by omega)
      rw [askLoop.eq_def]
      simp only [he]
      exact ⟨i, hI⟩

/-! ### 8. the loop is an instance of `Greedy` -/

/-- weights of the candidate intervals (the index type is the type of members of the list `C`) -/
def wFun (s : State α) (C : List (Ival α)) : {iv : Ival α // iv ∈ C} → α := fun x => wOf s x.1

/-- the allocation given by a work list -/
def gFun (C : List (Ival α)) (quals : List (Qual α)) : {iv : Ival α // iv ∈ C} → ℕ :=
  fun x => gOf quals x.1

theorem greedy_stepOK {r12 : α → α} {s : State α} {Q0 : List (Qual α)} {C : List (Ival α)}
    (hC : ∀ iv, iv ∈ C ↔ (iv ∈ Q0.map qival ∨ iv ∈ tkeys s.lossesC)) {m : Nat}
    {quals quals' : List (Qual α)} (hg : Greedy (wFun s C) r12 m (gFun C quals))
    (hs : StepOK r12 s Q0 quals quals') : Greedy (wFun s C) r12 (m + 1) (gFun C quals') := by
  obtain ⟨iv0, hmem, hupd, hmax⟩ := hs
  have hstep := Greedy.step (⟨iv0, (hC iv0).2 hmem⟩ : {iv : Ival α // iv ∈ C}) hg
    (fun j => hmax j.1 ((hC j.1).1 j.2))
  have heq : gFun C quals' = Function.update (gFun C quals) ⟨iv0, (hC iv0).2 hmem⟩
      (gFun C quals ⟨iv0, (hC iv0).2 hmem⟩ + 1) := by
    funext x
    by_cases hx : x = ⟨iv0, (hC iv0).2 hmem⟩
    · rw [hx, Function.update_self]
      show gOf quals' iv0 = gOf quals iv0 + 1
      rw [hupd, if_pos rfl]
    · rw [Function.update_of_ne hx]
      show gOf quals' x.1 = gOf quals x.1
      rw [hupd, if_neg (fun h => hx (Subtype.ext h))]
  rw [heq]
  exact hstep

/-- `k` iterations of the loop are `k` greedy steps -/
theorem askLoop_greedy_gen {r12 : α → α} {s : State α} {Q0 : List (Qual α)} {C : List (Ival α)}
    (hC : ∀ iv, iv ∈ C ↔ (iv ∈ Q0.map qival ∨ iv ∈ tkeys s.lossesC))
    (hnd : (tkeys s.lossesC).Nodup) (hst : SortedT r12 s.scaleX s.lossesC) (k : Nat) :
    ∀ (i : Nat) (quals : List (Qual α)) (m : Nat), LoopInv r12 s Q0 i quals →
      (i < s.lossesC.length ∨ quals ≠ []) → Greedy (wFun s C) r12 m (gFun C quals) →
      Greedy (wFun s C) r12 (m + k) (gFun C (askLoop r12 s k i quals)) := by
  induction k with
  | zero =>
    intro i quals m _ _ hg
    rw [askLoop]
    exact hg
  | succ k ih =>
    intro i quals m hI hne hg
    obtain ⟨i', quals', heq, hne', hI', hs⟩ := askLoop_step_is_greedy hnd hst k i quals hI hne
    rw [heq]
    have h := ih i' quals' (m + 1) hI' (Or.inr hne') (greedy_stepOK hC hg hs)
    have e : m + 1 + k = m + (k + 1) := by omega
    rw [e] at h
    exact h

theorem gFun_init {C : List (Ival α)} {Q0 : List (Qual α)} (h1 : ∀ b ∈ Q0, b.n = 1) :
    gFun C Q0 = fun _ => 1 := by
  funext x
  show 1 + npts (Q0.filter (fun q => qival q = x.1)) = 1
  rw [npts_eq_zero (fun q hq => h1 q (List.mem_filter.1 hq).1)]

/-- **Target 3.**  Started from a sorted work list `Q0` of undivided intervals without finite loss
that are distinct from each other and from the intervals of `lossesC`, `k` iterations of `askLoop`
(outside the crash case) produce an allocation reachable by `k` greedy steps. -/
theorem askLoop_greedy {r12 : α → α} {s : State α} {Q0 : List (Qual α)} {C : List (Ival α)}
    (hC : ∀ iv, iv ∈ C ↔ (iv ∈ Q0.map qival ∨ iv ∈ tkeys s.lossesC))
    (hnd : (tkeys s.lossesC).Nodup) (hst : SortedT r12 s.scaleX s.lossesC)
    (hs0 : SortedQ r12 s.scaleX Q0) (hnd0 : (Q0.map qival).Nodup)
    (hnk : ∀ b ∈ Q0, qival b ∉ tkeys s.lossesC) (h1 : ∀ b ∈ Q0, b.n = 1 ∧ b.loss = .inf)
    (hne : s.lossesC ≠ [] ∨ Q0 ≠ []) (k : Nat) :
    Greedy (wFun s C) r12 k (gFun C (askLoop r12 s k 0 Q0)) := by
  have h0 : Greedy (wFun s C) r12 0 (gFun C Q0) := by
    rw [gFun_init (fun b hb => (h1 b hb).1)]
    exact Greedy.zero
  have h := askLoop_greedy_gen hC hnd hst k 0 Q0 0 (loopInv_init hs0 hnd0 hnk h1)
    (hne.imp_left List.length_pos_iff.2) h0
  rw [Nat.zero_add] at h
  exact h

/-! ### 9. `ask` -/

/-- the candidate intervals of `_ask_points_without_adding`: the bound intervals and the intervals
of `losses_combined` -/
def candList (s : State α) : List (Ival α) := (boundQuals s).map qival ++ tkeys s.lossesC

/-- index type of the candidate intervals -/
abbrev Cand (s : State α) : Type := {iv : Ival α // iv ∈ candList s}

theorem mem_candList (r12 : α → α) (s : State α) (iv : Ival α) :
    iv ∈ candList s ↔ (iv ∈ (quals0 r12 s).map qival ∨ iv ∈ tkeys s.lossesC) := by
  unfold candList
  rw [List.mem_append, ((quals0_perm r12 s).map qival).mem_iff]

/-- The allocation computed by `_ask_points_without_adding(n)` is reachable by
`n - len(missing_bounds)` greedy steps.  `s.lossScale = s.scaleX` is NOT an invariant of the model
(see the counterexample at the end of this file) and is needed: the tables are sorted for
`lossScale`, the loop compares with `scaleX`. -/
theorem ask_greedy (r12 : α → α) (s : State α) (n : Nat) (hI : Inv s)
    (hd : s.data.length + s.pending.length ≠ 0) (hts : TablesSorted r12 s)
    (hsc : s.lossScale = s.scaleX) (hne : s.lossesC ≠ [] ∨ missingBounds s ≠ []) :
    Greedy (wFun s (candList s)) r12 (n - (missingBounds s).length)
      (gFun (candList s) (askQuals r12 s n)) := by
  have hst : SortedT r12 s.scaleX s.lossesC := hsc ▸ hts.2
  refine askLoop_greedy (mem_candList r12 s) hI.lossesC_nodup hst (sortedQ_quals0 r12 s) ?_ ?_ ?_
    (hne.imp_right (quals0_ne_nil r12)) _
  · rw [((quals0_perm r12 s).map qival).nodup_iff]
    exact boundQuals_nodup hI hd
  · exact fun b hb => boundQuals_not_key hI b ((quals0_perm r12 s).mem_iff.1 hb)
  · intro b hb
    have := mem_boundQuals ((quals0_perm r12 s).mem_iff.1 hb)
    exact ⟨this.1, this.2.1⟩

/-- Target 1 for `ask`: every entry `q` of the final `quals` has the sort key `r12 (w / q.n)` -/
theorem qualFinite_eq_askQuals (r12 : α → α) (s : State α) (n : Nat) (hI : Inv s) :
    ∀ q ∈ askQuals r12 s n,
      qualFinite r12 s.scaleX q = r12 (wOf s (qival q) / (q.n : α)) := by
  refine qualFinite_eq r12 s hI.lossesC_nodup _ 0 _ ?_
  intro b hb
  have hbq := (quals0_perm r12 s).mem_iff.1 hb
  have h1 := mem_boundQuals hbq
  refine ⟨le_of_eq h1.1.symm, Or.inl ⟨h1.2.1, fun v hv => ?_⟩⟩
  rw [lget_of_not_mem (boundQuals_not_key hI b hbq)] at hv
  cases hv

/-- the weights are non-negative when the finite losses are, the known points lie in `[lo, hi]` and
the x-scale is positive -/
theorem wOf_nonneg (s : State α) (hI : Inv s) (hd : s.data.length + s.pending.length ≠ 0)
    (hb : ∀ x ∈ s.xsC, s.lo ≤ x ∧ x ≤ s.hi) (hpos : 0 < s.scaleX)
    (hw : ∀ e ∈ s.lossesC, ∀ v, e.2 = .fin v → 0 ≤ v) : ∀ iv ∈ candList s, 0 ≤ wOf s iv := by
  intro iv hiv
  rcases List.mem_append.1 hiv with h | h
  · obtain ⟨b, hbq, rfl⟩ := List.mem_map.1 h
    rw [wOf_of_not_key (boundQuals_not_key hI b hbq)]
    exact div_nonneg (sub_nonneg.2 (le_of_lt (gap_of_bound hI hb hd hbq).1)) (le_of_lt hpos)
  · obtain ⟨e, he, rfl⟩ := List.mem_map.1 h
    rw [wOf_of_mem hI.lossesC_nodup he]
    obtain ⟨⟨a, b⟩, l⟩ := e
    cases l with
    | fin v => exact hw _ he v rfl
    | inf =>
      have hab := (pairs_sorted_spec hI.xsC_sorted ((hI.lossesC_keys (a, b)).1 h)).1
      exact div_nonneg (sub_nonneg.2 (le_of_lt hab)) (le_of_lt hpos)

/-- **Main theorem.**  The allocation computed by `_ask_points_without_adding(n)` minimises the
largest expected loss: every bound `M` on the (rounded) per-part losses of an alternative
allocation `a` of the same total number of parts bounds those of the computed allocation.
Here `g iv = gOf (askQuals r12 s n) iv` is `q.n` for an interval occurring as the entry `q` of the
final `quals` and `1` otherwise (`gOf_of_mem`, `gOf_of_not_mem`). -/
theorem ask_greedy_optimal (r12 : α → α) (hr : Monotone r12) (s : State α) (n : Nat) (hI : Inv s)
    (hd : s.data.length + s.pending.length ≠ 0) (hb : ∀ x ∈ s.xsC, s.lo ≤ x ∧ x ≤ s.hi)
    (hts : TablesSorted r12 s) (hsc : s.lossScale = s.scaleX) (hpos : 0 < s.scaleX)
    (hw : ∀ e ∈ s.lossesC, ∀ v, e.2 = .fin v → 0 ≤ v)
    (hne : s.lossesC ≠ [] ∨ missingBounds s ≠ [])
    (a : Cand s → ℕ) (ha : ∀ i, 1 ≤ a i)
    (hsum : ∑ i, a i = ∑ i : Cand s, gOf (askQuals r12 s n) i.1)
    (M : α) (hM : ∀ i : Cand s, r12 (wOf s i.1 / (a i : α)) ≤ M) :
    ∀ i : Cand s, r12 (wOf s i.1 / (gOf (askQuals r12 s n) i.1 : α)) ≤ M :=
  greedy_optimal (fun i => wOf_nonneg s hI hd hb hpos hw i.1 i.2) hr
    (ask_greedy r12 s n hI hd hts hsc hne) a ha hsum M hM

/-- the same with the total number of parts spelled out: number of candidate intervals plus number
of points placed by the loop -/
theorem ask_greedy_optimal_card (r12 : α → α) (hr : Monotone r12) (s : State α) (n : Nat)
    (hI : Inv s) (hd : s.data.length + s.pending.length ≠ 0)
    (hb : ∀ x ∈ s.xsC, s.lo ≤ x ∧ x ≤ s.hi)
    (hts : TablesSorted r12 s) (hsc : s.lossScale = s.scaleX) (hpos : 0 < s.scaleX)
    (hw : ∀ e ∈ s.lossesC, ∀ v, e.2 = .fin v → 0 ≤ v)
    (hne : s.lossesC ≠ [] ∨ missingBounds s ≠ [])
    (a : Cand s → ℕ) (ha : ∀ i, 1 ≤ a i)
    (hsum : ∑ i, a i = Fintype.card (Cand s) + (n - (missingBounds s).length))
    (M : α) (hM : ∀ i : Cand s, r12 (wOf s i.1 / (a i : α)) ≤ M) :
    ∀ i : Cand s, r12 (wOf s i.1 / (gOf (askQuals r12 s n) i.1 : α)) ≤ M :=
  greedy_optimal_card (fun i => wOf_nonneg s hI hd hb hpos hw i.1 i.2) hr
    (ask_greedy r12 s n hI hd hts hsc hne) a ha hsum M hM

/-- reading of `gOf` on the final work list: an interval occurring as the entry `q` gets `q.n`
parts -/
theorem gOf_askQuals_of_mem (r12 : α → α) (s : State α) (n : Nat) (hI : Inv s)
    (hd : s.data.length + s.pending.length ≠ 0) {q : Qual α} (hq : q ∈ askQuals r12 s n) :
    gOf (askQuals r12 s n) (qival q) = q.n :=
  gOf_of_mem (ask_equal_parts_inv r12 s n hI hd) hq (askQuals_spec r12 s n q hq).1

/-- the candidate intervals are pairwise distinct -/
theorem candList_nodup (s : State α) (hI : Inv s) (hd : s.data.length + s.pending.length ≠ 0) :
    (candList s).Nodup := by
  unfold candList
  rw [List.nodup_append]
  refine ⟨boundQuals_nodup hI hd, hI.lossesC_nodup, ?_⟩
  intro a ha b hb hab
  obtain ⟨q, hq, rfl⟩ := List.mem_map.1 ha
  exact boundQuals_not_key hI q hq (hab ▸ hb)

/-- the number of candidate intervals: bound intervals plus intervals of `losses_combined` -/
theorem card_cand (s : State α) (hI : Inv s) (hd : s.data.length + s.pending.length ≠ 0) :
    Fintype.card (Cand s) = (boundQuals s).length + s.lossesC.length := by
  rw [Fintype.card_of_subtype (candList s).toFinset (fun x => List.mem_toFinset),
    List.toFinset_card_of_nodup (candList_nodup s hI hd)]
  simp [candList, tkeys]

/-! ### 10. `lossScale = scaleX`

The tables are created with the x-scale of the moment (`loss_manager(self._scale[0])`) and keep it,
while `_update_scale` changes `self._scale[0]` whenever a point outside the current bounding box is
told.  Initially the bounding box is `(lo, hi)`, so points of `[lo, hi]` do not change the scale; but
the batch path of `tell_many` resets the bounding box to the hull of the known points, after which a
`tell` inside `[lo, hi]` can enlarge it.  So `lossScale = scaleX` is NOT an invariant of the model (nor
of the code), even for points inside the bounds: see `staleState` below.  It is an invariant of the
runs that tell only points of `[lo, hi]` and never take the batch path. -/

section scale
variable (lossFn : List (Option α) → List (Option (List α)) → Loss α) (r12 : α → α)

/-- the fields the x-scale bookkeeping consists of -/
def scl (s : State α) : (α × α) × α × α := (s.bboxX, s.scaleX, s.lossScale)

theorem scl_foldl {β : Type} (f : State α → β → State α) (hf : ∀ s b, scl (f s b) = scl s)
    (l : List β) (s : State α) : scl (l.foldl f s) = scl s := by
  induction l generalizing s with
  | nil => rfl
  | cons b l ih => rw [List.foldl_cons, ih, hf]

theorem scl_updInterp (s : State α) (xl xr : α) : scl (updInterp lossFn r12 s xl xr) = scl s := rfl

theorem scl_ulStage1 (s : State α) (a b : Option α) : scl (ulStage1 s a b) = scl s := by
  unfold ulStage1
  split <;> rfl

theorem scl_ulStage2 (s : State α) (x : α) (real : Bool) (xl xr a b : Option α) :
    scl (ulStage2 lossFn r12 s x real xl xr a b) = scl s := by
  have hf := scl_foldl (fun s (iv : Ival α) => updInterp lossFn r12 s iv.1 iv.2)
    (fun s iv => scl_updInterp lossFn r12 s iv.1 iv.2) (getIntervals s x) s
  unfold ulStage2
  split
  · dsimp only
    split
    · exact hf
    · exact hf
  · split <;> rfl

theorem scl_ulStage3 (s : State α) (x : α) (a : Option α) (lu : Bool) :
    scl (ulStage3 r12 s x a lu) = scl s := by
  unfold ulStage3
  split
  · split <;> rfl
  · rfl

theorem scl_ulStage4 (s : State α) (x : α) (b : Option α) (ru : Bool) :
    scl (ulStage4 r12 s x b ru) = scl s := by
  unfold ulStage4
  split
  · split <;> rfl
  · rfl

theorem scl_updateLosses (s : State α) (x : α) (real : Bool) :
    scl (updateLosses lossFn r12 s x real) = scl s := by
  rw [updateLosses_eq, scl_ulStage4, scl_ulStage3, scl_ulStage2, scl_ulStage1]

theorem scl_maybeRescale (s : State α) : scl (maybeRescale lossFn r12 s) = scl s := by
  unfold maybeRescale
  split
  · exact scl_foldl (fun s (iv : Ival α) => updInterp lossFn r12 s iv.1 iv.2)
      (fun s iv => scl_updInterp lossFn r12 s iv.1 iv.2) _ s
  · rfl

theorem scl_tellPending (s : State α) (x : α) : scl (tellPending lossFn r12 s x) = scl s := by
  unfold tellPending
  split
  · rfl
  · rw [scl_updateLosses]; rfl

/-- the x-scale bookkeeping is the initial one -/
def ScaleOK (lo hi : α) (s : State α) : Prop := scl s = ((lo, hi), hi - lo, hi - lo)

theorem scaleOK_init (lo hi factor dxEps : α) (nn : Nat) :
    ScaleOK lo hi (init lo hi factor dxEps nn) := rfl

theorem scaleOK_tell {lo hi : α} {s : State α} (x : α) (y : List α) (hx : lo ≤ x ∧ x ≤ hi)
    (h : ScaleOK lo hi s) : ScaleOK lo hi (tell lossFn r12 s x y) := by
  unfold tell
  split
  · exact h
  · unfold ScaleOK
    rw [scl_maybeRescale, scl_updateLosses]
    unfold ScaleOK scl at h
    obtain ⟨h1, h2, h3⟩ := Prod.mk.inj h |>.imp id Prod.mk.inj
    unfold scl updateScale
    dsimp only
    rw [h1, h3]
    dsimp only
    rw [if_neg (not_lt.2 hx.1), if_neg (not_lt.2 hx.2)]

/-- the operation `op`, applied in the state `s`, tells only points of `[lo, hi]` and does not take
the batch path of `tell_many` -/
def OpScaleOK (lo hi : α) (s : State α) : Op α → Prop
  | .tell x _ => lo ≤ x ∧ x ≤ hi
  | .tellMany pts force =>
      (force = false ∧ ¬ (s.data.length < 2 * pts.length ∧ 2 < pts.length)) ∧
      ∀ p ∈ pts, lo ≤ p.1 ∧ p.1 ≤ hi
  | _ => True

theorem scaleOK_step {lo hi : α} {s : State α} (op : Op α) (hop : OpScaleOK lo hi s op)
    (h : ScaleOK lo hi s) : ScaleOK lo hi (step lossFn r12 s op) := by
  cases op with
  | tell x y => exact scaleOK_tell lossFn r12 x y hop h
  | tellPending x => exact (scl_tellPending lossFn r12 s x).trans h
  | removeUnfinished => exact h
  | ask n c =>
    show ScaleOK lo hi (ask lossFn r12 s n c).2
    unfold ask
    dsimp only
    split
    · exact (scl_foldl (tellPending lossFn r12) (scl_tellPending lossFn r12) _ s).trans h
    · exact h
  | tellMany pts force =>
    obtain ⟨⟨hf, hb⟩, hp⟩ := hop
    show ScaleOK lo hi (tellMany lossFn r12 s pts force)
    unfold tellMany
    rw [if_pos (by simp [hf]; omega)]
    clear hb
    induction pts generalizing s with
    | nil => exact h
    | cons p pts ih =>
      rw [List.foldl_cons]
      exact ih (scaleOK_tell lossFn r12 p.1 p.2 (hp p List.mem_cons_self) h)
        (fun q hq => hp q (List.mem_cons_of_mem _ hq))

/-- every operation of the run satisfies `OpScaleOK` in the state it is applied in.

This is a STATIC sufficient condition for `lossScale = scaleX` that needs no invariant; it excludes
the batch path of `tell_many` altogether, which was the only safe thing to say in this file before
the repair `fix: Learner1D.tell_many batch path shrank the x-scale to the range of the points` (a
batch without the end points of the domain left `lossScale ≠ scaleX` after the next `tell`).  Since
the repair the exclusion is NOT needed: `ScaleOK` holds after every history whose points lie in
`[lo, hi]`, batches included (`scaleOK_run_of_valid` in `L1DFinal`, from `BInv`), and the property
theorems use that (`ask_optimal_run`, `ask_optimal_run_card`, `Props/C02.lean`).  The definitions
below are kept because they do not ask for `lo < hi` nor for in-bounds PENDING points. -/
def RunScaleOK (lo hi : α) : State α → List (Op α) → Prop
  | _, [] => True
  | s, op :: ops => OpScaleOK lo hi s op ∧ RunScaleOK lo hi (step lossFn r12 s op) ops

theorem scaleOK_run {lo hi : α} (ops : List (Op α)) {s : State α}
    (hops : RunScaleOK lossFn r12 lo hi s ops) (h : ScaleOK lo hi s) :
    ScaleOK lo hi (run lossFn r12 s ops) := by
  induction ops generalizing s with
  | nil => exact h
  | cons op ops ih =>
    exact ih hops.2 (scaleOK_step lossFn r12 op hops.1 h)

/-- along runs that tell only points of `[lo, hi]` and never take the batch path of `tell_many`,
the x-scale of the tables is the current x-scale -/
theorem lossScale_eq_scaleX_run (lo hi factor dxEps : α) (nn : Nat) (ops : List (Op α))
    (hops : RunScaleOK lossFn r12 lo hi (init lo hi factor dxEps nn) ops) :
    (run lossFn r12 (init lo hi factor dxEps nn) ops).lossScale =
      (run lossFn r12 (init lo hi factor dxEps nn) ops).scaleX := by
  have h := scaleOK_run lossFn r12 ops hops (scaleOK_init lo hi factor dxEps nn)
  unfold ScaleOK scl at h
  have h2 := (Prod.mk.inj (Prod.mk.inj h).2)
  rw [h2.1, h2.2]

end scale

/-- `ask_greedy_optimal` for the states reached by runs that tell only points of `[lo, hi]` and
never take the batch path of `tell_many`: sortedness of the tables and `lossScale = scaleX` hold
automatically.  (Superseded by `ask_optimal_run_card` of `L1DFinal`, which takes `ValidOps` — batches
allowed, with or without the end points of the domain — and discharges `hI`, `hb`, `hw`, `hne`.) -/
theorem ask_greedy_optimal_run (lossFn : List (Option α) → List (Option (List α)) → Loss α)
    (r12 : α → α) (hr : Monotone r12) (lo hi factor dxEps : α) (nn : Nat) (hlt : lo < hi)
    (ops : List (Op α)) (hops : RunScaleOK lossFn r12 lo hi (init lo hi factor dxEps nn) ops)
    (s : State α) (hs : s = run lossFn r12 (init lo hi factor dxEps nn) ops) (n : Nat)
    (hI : Inv s) (hd : s.data.length + s.pending.length ≠ 0)
    (hb : ∀ x ∈ s.xsC, s.lo ≤ x ∧ x ≤ s.hi)
    (hw : ∀ e ∈ s.lossesC, ∀ v, e.2 = .fin v → 0 ≤ v)
    (hne : s.lossesC ≠ [] ∨ missingBounds s ≠ [])
    (a : Cand s → ℕ) (ha : ∀ i, 1 ≤ a i)
    (hsum : ∑ i, a i = Fintype.card (Cand s) + (n - (missingBounds s).length))
    (M : α) (hM : ∀ i : Cand s, r12 (wOf s i.1 / (a i : α)) ≤ M) :
    ∀ i : Cand s, r12 (wOf s i.1 / (gOf (askQuals r12 s n) i.1 : α)) ≤ M := by
  have hok := scaleOK_run lossFn r12 ops hops (scaleOK_init lo hi factor dxEps nn)
  rw [← hs] at hok
  unfold ScaleOK scl at hok
  have h2 := (Prod.mk.inj (Prod.mk.inj hok).2)
  have hts : TablesSorted r12 s := hs ▸ tablesSorted_run lossFn r12 lo hi factor dxEps nn ops
  refine ask_greedy_optimal_card r12 hr s n hI hd hb hts (h2.2.trans h2.1.symm) ?_ hw hne a ha
    hsum M hM
  rw [h2.1]
  exact sub_pos.2 hlt

/-! ### the history that used to leave a stale x-scale in the tables

Before the repair `fix: Learner1D.tell_many batch path shrank the x-scale` the batch path took the
range of its points as bounding box: `Learner1D(bounds=(0, 1))`, `tell_many([.2, .4, .6])`,
`tell(.9)`, `tell_pending(.95)` left `lossScale = 2/5` in the tables against the current `scaleX = 7/10`,
and `ask(7)` was not optimal.  Now both stay at the width of the domain. -/

def staleState : State Rat :=
  run (fun _ _ => .fin (1 / 10)) id (init (0 : Rat) 1 2 0 0)
    [.tellMany [(1 / 5, [0]), (2 / 5, [0]), (3 / 5, [0])] false, .tell (9 / 10) [0],
     .tellPending (19 / 20)]

example : staleState.lossScale = 1 ∧ staleState.scaleX = 1 ∧ staleState.bboxX = (0, 1) := by
  decide +kernel

end L1D
