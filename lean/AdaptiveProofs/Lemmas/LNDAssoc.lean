import AdaptiveModel.LND
import Mathlib.Data.List.Basic

/-! Association-list lemmas for the LearnerND model (`get?`, `put`, `del`, `keys`). -/
set_option linter.unusedSectionVars false
set_option linter.unusedSimpArgs false
namespace LND
section assoc
variable {κ β : Type} [DecidableEq κ]

theorem mem_keys_iff (k : κ) (l : List (κ × β)) : k ∈ keys l ↔ ∃ v, (k, v) ∈ l := by
  simp [keys]

theorem mem_keys_del (k k' : κ) (l : List (κ × β)) : k' ∈ keys (del k l) ↔ k' ∈ keys l ∧ k' ≠ k := by
  simp only [keys, del, List.mem_map, List.mem_filter]
  constructor
  · rintro ⟨e, ⟨he, hk⟩, rfl⟩
    exact ⟨⟨e, he, rfl⟩, by simpa using hk⟩
  · rintro ⟨⟨e, he, rfl⟩, hk⟩
    exact ⟨e, ⟨he, by simpa using hk⟩, rfl⟩

theorem mem_keys_put (k k' : κ) (v : β) (l : List (κ × β)) :
    k' ∈ keys (put k v l) ↔ k' = k ∨ k' ∈ keys l := by
  have h := mem_keys_del k k' l
  simp only [keys] at h
  simp only [put, keys, List.map_append, List.mem_append, h, List.map_cons, List.map_nil, List.mem_singleton]
  by_cases hk : k' = k
  · simp [hk]
  · simp [hk]

theorem get?_eq_none_iff (k : κ) (l : List (κ × β)) : get? k l = none ↔ k ∉ keys l := by
  induction l with
  | nil => simp [get?, keys]
  | cons e l ih =>
    by_cases h : e.1 = k
    · simp [get?, keys, List.find?_cons, h]
    · have h' : ¬ k = e.1 := fun c => h c.symm
      simp only [get?, keys, List.find?_cons, h, decide_false, List.map_cons, List.mem_cons, h', false_or] at ih ⊢
      exact ih

theorem get?_isSome_iff (k : κ) (l : List (κ × β)) : (get? k l).isSome = true ↔ k ∈ keys l := by
  rw [← not_iff_not, ← get?_eq_none_iff]
  cases get? k l <;> simp

theorem get?_mem {k : κ} {v : β} {l : List (κ × β)} (h : get? k l = some v) : (k, v) ∈ l := by
  simp only [get?, Option.map_eq_some_iff] at h
  obtain ⟨e, he, rfl⟩ := h
  have h1 := List.mem_of_find?_eq_some he
  have h2 := List.find?_some he
  simp only [decide_eq_true_eq] at h2
  subst h2
  exact h1

theorem get?_del_self (k : κ) (l : List (κ × β)) : get? k (del k l) = none := by
  rw [get?_eq_none_iff, mem_keys_del]; simp

theorem get?_append (k : κ) (l1 l2 : List (κ × β)) :
    get? k (l1 ++ l2) = (get? k l1).or (get? k l2) := by
  simp only [get?, List.find?_append]
  cases List.find? (fun e => decide (e.1 = k)) l1 <;> simp

theorem get?_del_ne {k k' : κ} (h : k' ≠ k) (l : List (κ × β)) : get? k' (del k l) = get? k' l := by
  induction l with
  | nil => simp [del, get?]
  | cons e l ih =>
    simp only [del, get?] at ih ⊢
    by_cases h1 : e.1 = k
    · have h2 : ¬ e.1 = k' := fun c => h (c.symm.trans h1)
      have e1 : decide (e.1 ≠ k) = false := by simp [h1]
      have e2 : decide (e.1 = k') = false := by simp [h2]
      rw [List.filter_cons, e1, List.find?_cons, e2]
      simpa using ih
    · have e1 : decide (e.1 ≠ k) = true := by simp [h1]
      rw [List.filter_cons, e1]
      simp only [if_true, List.find?_cons]
      by_cases h2 : e.1 = k'
      · simp [h2]
      · have e2 : decide (e.1 = k') = false := by simp [h2]
        rw [e2]; simpa using ih

theorem get?_put_self (k : κ) (v : β) (l : List (κ × β)) : get? k (put k v l) = some v := by
  rw [put, get?_append, get?_del_self]
  simp [get?]

theorem get?_put_ne {k k' : κ} (h : k' ≠ k) (v : β) (l : List (κ × β)) :
    get? k' (put k v l) = get? k' l := by
  rw [put, get?_append, get?_del_ne h]
  have : get? k' [(k, v)] = none := by
    have e1 : decide (k = k') = false := decide_eq_false (fun c => h c.symm)
    simp [get?, List.find?_cons, e1]
  rw [this]; cases get? k' l <;> rfl

end assoc
end LND
