import AdaptiveProofs.Lemmas.L1DEquivLists
import AdaptiveProofs.Lemmas.L1DInv
import AdaptiveProofs.Lemmas.L1DScale

/-!
# Learner1D model: scale equivariance (C12), part 2 — `getLoss` and the loss updates

`GLOK lossFn cx cy s` says that `getLoss` gives the same loss for every interval of `s` and for its
scaled image in `scaleState cx cy s`.  It holds
  * unconditionally when `s.scaleY ≠ 0` (the arguments handed to `lossFn` are IDENTICAL),
  * when `s.scaleY = 0` and all stored values are equal, for a loss function that is
    `ScaleFreeAtZero` (the y-arguments differ by the factor `cy`: both runs divide by `1`),
  * for every state, for a loss function that is `ScaleFreeY`.
Everything downstream (`updInterp`, `updateLosses`, `maybeRescale`, `tell`, `tellPending`) is proved
from `GLOK` of the state in which the losses are evaluated.
-/
set_option linter.unusedSectionVars false
namespace L1D
variable {α : Type} [Field α] [LinearOrder α] [IsStrictOrderedRing α]
variable (lossFn : List (Option α) → List (Option (List α)) → Loss α) (r12 : α → α)

/-! ## hypotheses on the loss function -/

/-- WEAK hypothesis: when all the values handed to the loss function are equal, multiplying them
all by a positive constant does not change the loss.  (True of `default`, `uniform`, `triangle`,
`curvature`, `resolution`: with constant values they only see the x-extent.) -/
def ScaleFreeAtZero : Prop :=
  ∀ c : α, 0 < c → ∀ (xs : List (Option α)) (ys : List (Option (List α))),
    (∀ v ∈ ys, ∀ w ∈ ys, ∀ a b, v = some a → w = some b → a = b) →
    lossFn xs (ys.map (Option.map (List.map (fun t => c * t)))) = lossFn xs ys

/-- STRONG hypothesis: the loss is invariant under a common positive scaling of all values. -/
def ScaleFreeY : Prop :=
  ∀ c : α, 0 < c → ∀ (xs : List (Option α)) (ys : List (Option (List α))),
    lossFn xs (ys.map (Option.map (List.map (fun t => c * t)))) = lossFn xs ys

theorem ScaleFreeY.atZero (h : ScaleFreeY lossFn) : ScaleFreeAtZero lossFn :=
  fun c hc xs ys _ => h c hc xs ys

/-! ## the arguments `getLoss` hands to the loss function -/

/-- the `2 + 2·nn` abscissae around the interval starting at `xl` -/
def glPts (s : State α) (xl : α) : List (Option α) :=
  let i : Int := (s.xs.findIdx (fun y => y = xl) : Nat)
  ((List.range (2 * s.nn + 2)).map (fun (k : Nat) => i - (s.nn : Int) + (k : Int))).map (pointAt s.xs)

def glXs (s : State α) (xl : α) : List (Option α) :=
  (glPts s xl).map (Option.map (fun x => x / s.scaleX))

def glYs (s : State α) (xl ysc : α) : List (Option (List α)) :=
  (glPts s xl).map (fun p => p.bind (fun x => (dataGet s.data x).map (fun y => y.map (· / ysc))))

theorem getLoss_eq (s : State α) (xl xr : α) :
    getLoss lossFn s xl xr =
      if xr - xl < s.dxEps then .fin 0 else
        lossFn (glXs s xl) (glYs s xl (if s.scaleY = 0 then 1 else s.scaleY)) := rfl

section gl
variable {cx cy : α} (hx : 0 < cx) (hy : 0 < cy)
include hx

theorem glPts_scale (s : State α) (xl : α) :
    glPts (scaleState cx cy s) (cx * xl) = (glPts s xl).map (Option.map (fun x => cx * x)) := by
  simp only [glPts, scaleState_xs, scaleState_nn, findIdx_map (smono hx), List.map_map]
  apply List.map_congr_left
  intro k _
  simp only [Function.comp, pointAt_map]

/-- the x-arguments are identical -/
theorem glXs_scale (s : State α) (xl : α) :
    glXs (scaleState cx cy s) (cx * xl) = glXs s xl := by
  simp only [glXs, glPts_scale hx, List.map_map, scaleState_scaleX]
  apply List.map_congr_left
  intro p _
  cases p with
  | none => rfl
  | some x =>
    simp only [Function.comp, Option.map_some, mul_div_mul_left _ _ (ne_of_gt hx)]

include hy

/-- the y-arguments are identical when the scale is not the corner `0 ↦ 1` -/
theorem glYs_scale (s : State α) (xl ysc : α) :
    glYs (scaleState cx cy s) (cx * xl) (cy * ysc) = glYs s xl ysc := by
  simp only [glYs, glPts_scale hx, List.map_map, scaleState_data]
  apply List.map_congr_left
  intro p _
  cases p with
  | none => rfl
  | some x =>
    simp only [Function.comp, Option.map_some, Option.bind_some, dataGet_scale hx, Option.map_map]
    congr 1
    funext y
    simp only [Function.comp, sy, List.map_map]
    apply List.map_congr_left
    intro v _
    simp only [Function.comp, mul_div_mul_left _ _ (ne_of_gt hy)]

/-- in the corner both runs divide by `1`: the y-arguments differ by the factor `cy` -/
theorem glYs_scale_one (s : State α) (xl : α) :
    glYs (scaleState cx cy s) (cx * xl) 1 =
      (glYs s xl 1).map (Option.map (List.map (fun t => cy * t))) := by
  simp only [glYs, glPts_scale hx, List.map_map, scaleState_data]
  apply List.map_congr_left
  intro p _
  cases p with
  | none => rfl
  | some x =>
    simp only [Function.comp, Option.map_some, Option.bind_some, dataGet_scale hx, Option.map_map]
    congr 1
    funext y
    simp only [Function.comp, sy, List.map_map, div_one]
    rfl

theorem dxEps_scale (s : State α) (a b : α) :
    (cx * b - cx * a < (scaleState cx cy s).dxEps) ↔ (b - a < s.dxEps) := by
  rw [scaleState_dxEps, ← mul_sub, smul_lt hx]

end gl

/-! ## `GLOK` -/

/-- `getLoss` agrees on the state and on its scaled image -/
def GLOK (cx cy : α) (s : State α) : Prop :=
  ∀ a b, getLoss lossFn (scaleState cx cy s) (cx * a) (cx * b) = getLoss lossFn s a b

section glok
variable {cx cy : α} (hx : 0 < cx) (hy : 0 < cy)

theorem core_scaleState (s : State α) : core (scaleState cx cy s) = scaleState cx cy (core s) := rfl

theorem glok_of_core {s s' : State α} (h : core s' = core s) (hs : GLOK lossFn cx cy s) :
    GLOK lossFn cx cy s' := by
  intro a b
  rw [getLoss_congr lossFn h a b, ← hs a b]
  apply getLoss_congr
  rw [core_scaleState, core_scaleState, h]

include hx hy

/-- Target 2, generic case: the arguments of the loss function are identical. -/
theorem getLoss_scale_of_ne {s : State α} (h : s.scaleY ≠ 0) (a b : α) :
    getLoss lossFn (scaleState cx cy s) (cx * a) (cx * b) = getLoss lossFn s a b := by
  rw [getLoss_eq, getLoss_eq]
  simp only [dxEps_scale hx hy, glXs_scale hx]
  have h' : (scaleState cx cy s).scaleY ≠ 0 := mul_ne_zero (ne_of_gt hy) h
  rw [if_neg h, if_neg h', scaleState_scaleY, glYs_scale hx hy]

theorem glok_of_ne {s : State α} (h : s.scaleY ≠ 0) : GLOK lossFn cx cy s :=
  getLoss_scale_of_ne lossFn hx hy h

/-- Target 2, corner `scaleY = 0`: needs that the loss function does not see a common positive
factor of EQUAL values. -/
theorem getLoss_scale_of_const (hsf : ScaleFreeAtZero lossFn) {s : State α}
    (hc : s.scaleY = 0 → ∀ kv ∈ s.data, ∀ kv' ∈ s.data, kv.2 = kv'.2) (a b : α) :
    getLoss lossFn (scaleState cx cy s) (cx * a) (cx * b) = getLoss lossFn s a b := by
  by_cases h : s.scaleY = 0
  · rw [getLoss_eq, getLoss_eq]
    simp only [dxEps_scale hx hy, glXs_scale hx]
    have h' : (scaleState cx cy s).scaleY = 0 := by rw [scaleState_scaleY, h, mul_zero]
    rw [if_pos h, if_pos h', glYs_scale_one hx hy]
    split
    · rfl
    · apply hsf cy hy
      have key : ∀ v ∈ glYs s a 1, ∀ u, v = some u → ∃ kv ∈ s.data, u = kv.2.map (· / 1) := by
        intro v hv u hu
        simp only [glYs, List.mem_map] at hv
        obtain ⟨p, -, hp⟩ := hv
        cases p with
        | none => rw [hu] at hp; cases hp
        | some x =>
          rw [hu] at hp
          simp only [Option.bind_some, dataGet, Option.map_map, Option.map_eq_some_iff] at hp
          obtain ⟨kv, hkv, hkv'⟩ := hp
          exact ⟨kv, List.mem_of_find?_eq_some hkv, hkv'.symm⟩
      intro v hv w hw u u' hu hu'
      obtain ⟨kv, hk, rfl⟩ := key v hv u hu
      obtain ⟨kv', hk', rfl⟩ := key w hw u' hu'
      rw [hc h kv hk kv' hk']
  · exact getLoss_scale_of_ne lossFn hx hy h a b

theorem glok_of_const (hsf : ScaleFreeAtZero lossFn) {s : State α}
    (hc : s.scaleY = 0 → ∀ kv ∈ s.data, ∀ kv' ∈ s.data, kv.2 = kv'.2) : GLOK lossFn cx cy s :=
  getLoss_scale_of_const lossFn hx hy hsf hc

theorem glok_of_scaleFreeY (hsf : ScaleFreeY lossFn) (s : State α) : GLOK lossFn cx cy s := by
  intro a b
  by_cases h : s.scaleY = 0
  · rw [getLoss_eq, getLoss_eq]
    simp only [dxEps_scale hx hy, glXs_scale hx]
    have h' : (scaleState cx cy s).scaleY = 0 := by rw [scaleState_scaleY, h, mul_zero]
    rw [if_pos h, if_pos h', glYs_scale_one hx hy, hsf cy hy]
  · exact getLoss_scale_of_ne lossFn hx hy h a b

end glok

/-! ## `updInterp` and folds of it -/

/-- the `losses` table after `updInterp` -/
def uiL (s : State α) (xl xr : α) : List (Ival α × Loss α) :=
  lset r12 s.lossScale (xl, xr) (getLoss lossFn s xl xr) s.losses

/-- the `lossesC` table after `updInterp` -/
def uiLC (s : State α) (xl xr : α) : List (Ival α × Loss α) :=
  (pairs (s.xsC.filter (fun y => !(decide (y < xl)) && !(decide (xr < y))))).foldl
    (fun lc ab => lset r12 s.lossScale ab (Loss.mulDiv (ab.2 - ab.1) (getLoss lossFn s xl xr) (xr - xl)) lc)
    s.lossesC

section upd
variable {cx cy : α} (hx : 0 < cx)
include hx

theorem foldl_lset_scale (S : α) (g g' : Ival α → Loss α) (hg : ∀ ab, g' (sIv cx ab) = g ab)
    (ps : List (Ival α)) (lc : List (Ival α × Loss α)) :
    (ps.map (sIv cx)).foldl (fun lc ab => lset r12 (cx * S) ab (g' ab) lc) (sTab cx lc) =
      sTab cx (ps.foldl (fun lc ab => lset r12 S ab (g ab) lc) lc) := by
  induction ps generalizing lc with
  | nil => rfl
  | cons p ps ih =>
    simp only [List.map_cons, List.foldl_cons, hg, lset_scale r12 hx, ih]

theorem pairs_scale (l : List α) : pairs (l.map (fun x => cx * x)) = (pairs l).map (sIv cx) :=
  pairs_map _ l

omit hx in
theorem updInterp_eq (s : State α) (xl xr : α) :
    updInterp lossFn r12 s xl xr =
      { s with losses := uiL lossFn r12 s xl xr, lossesC := uiLC lossFn r12 s xl xr } := rfl

theorem uiL_scale {s : State α} (h : GLOK lossFn cx cy s) (xl xr : α) :
    uiL lossFn r12 (scaleState cx cy s) (cx * xl) (cx * xr) = sTab cx (uiL lossFn r12 s xl xr) := by
  unfold uiL
  rw [h xl xr]
  exact lset_scale r12 hx s.lossScale (xl, xr) _ s.losses

theorem uiLC_scale {s : State α} (h : GLOK lossFn cx cy s) (xl xr : α) :
    uiLC lossFn r12 (scaleState cx cy s) (cx * xl) (cx * xr) = sTab cx (uiLC lossFn r12 s xl xr) := by
  unfold uiLC
  rw [h xl xr, scaleState_xsC, between_map (smono hx), pairs_scale hx]
  exact foldl_lset_scale r12 hx s.lossScale _ _
    (fun ab => by simp only [sIv, ← mul_sub, mulDiv_scale hx]) _ _

theorem updInterp_scale {s : State α} (h : GLOK lossFn cx cy s) (xl xr : α) :
    updInterp lossFn r12 (scaleState cx cy s) (cx * xl) (cx * xr) =
      scaleState cx cy (updInterp lossFn r12 s xl xr) := by
  show ({ scaleState cx cy s with
      losses := uiL lossFn r12 (scaleState cx cy s) (cx * xl) (cx * xr),
      lossesC := uiLC lossFn r12 (scaleState cx cy s) (cx * xl) (cx * xr) } : State α) =
    { scaleState cx cy s with losses := sTab cx (uiL lossFn r12 s xl xr),
                              lossesC := sTab cx (uiLC lossFn r12 s xl xr) }
  rw [uiL_scale lossFn r12 hx h, uiLC_scale lossFn r12 hx h]

omit hx in
theorem glok_updInterp {s : State α} (h : GLOK lossFn cx cy s) (xl xr : α) :
    GLOK lossFn cx cy (updInterp lossFn r12 s xl xr) :=
  glok_of_core lossFn (core_updInterp lossFn r12 s xl xr) h

theorem foldUpd_scale {s : State α} (h : GLOK lossFn cx cy s) (ivs : List (Ival α)) :
    foldUpd lossFn r12 (scaleState cx cy s) (ivs.map (sIv cx)) =
      scaleState cx cy (foldUpd lossFn r12 s ivs) := by
  unfold foldUpd
  induction ivs generalizing s with
  | nil => rfl
  | cons iv ivs ih =>
    simp only [List.map_cons, List.foldl_cons]
    show List.foldl _ (updInterp lossFn r12 (scaleState cx cy s) (cx * iv.1) (cx * iv.2)) _ = _
    rw [updInterp_scale lossFn r12 hx h]
    exact ih (glok_updInterp lossFn r12 h iv.1 iv.2)

omit hx in
theorem glok_foldUpd {s : State α} (h : GLOK lossFn cx cy s) (ivs : List (Ival α)) :
    GLOK lossFn cx cy (foldUpd lossFn r12 s ivs) :=
  glok_of_core lossFn (core_foldl_updInterp lossFn r12 ivs s) h

/-! ## the stages of `updateLosses` -/

theorem getIntervals_scale (s : State α) (x : α) :
    getIntervals (scaleState cx cy s) (cx * x) = (getIntervals s x).map (sIv cx) := by
  unfold getIntervals
  simp only [scaleState_xs, scaleState_nn, findIdx_map (smono hx), List.length_map,
    ← List.map_drop, ← List.map_take, pairs_scale hx]

theorem ulErase_scale (s : State α) (a b : Option α) :
    ulErase (scaleState cx cy s) (a.map (fun x => cx * x)) (b.map (fun x => cx * x)) =
      scaleState cx cy (ulErase s a b) := by
  cases a with
  | none => rfl
  | some a =>
    cases b with
    | none => rfl
    | some b =>
      show ({ scaleState cx cy s with lossesC := lerase (sIv cx (a, b)) (sTab cx s.lossesC) } : State α) =
        { scaleState cx cy s with lossesC := sTab cx (lerase (a, b) s.lossesC) }
      rw [lerase_scale hx]

theorem ulErase2_scale (s : State α) (a b : Option α) :
    ulErase2 (scaleState cx cy s) (a.map (fun x => cx * x)) (b.map (fun x => cx * x)) =
      scaleState cx cy (ulErase2 s a b) := by
  cases a with
  | none => rfl
  | some a =>
    cases b with
    | none => rfl
    | some b =>
      show ({ scaleState cx cy s with losses := lerase (sIv cx (a, b)) (sTab cx s.losses),
                                      lossesC := lerase (sIv cx (a, b)) (sTab cx s.lossesC) } : State α) =
        { scaleState cx cy s with losses := sTab cx (lerase (a, b) s.losses),
                                  lossesC := sTab cx (lerase (a, b) s.lossesC) }
      rw [lerase_scale hx, lerase_scale hx]

theorem ulLeft_scale (s : State α) (x : α) (a : Option α) (u : Bool) :
    ulLeft r12 (scaleState cx cy s) (cx * x) (a.map (fun x => cx * x)) u =
      scaleState cx cy (ulLeft r12 s x a u) := by
  cases a with
  | none => rfl
  | some a =>
    cases u with
    | false => rfl
    | true =>
      show ({ scaleState cx cy s with
          lossesC := lset r12 (cx * s.lossScale) (sIv cx (a, x)) .inf (sTab cx s.lossesC) } : State α) =
        { scaleState cx cy s with lossesC := sTab cx (lset r12 s.lossScale (a, x) .inf s.lossesC) }
      rw [lset_scale r12 hx]

theorem ulRight_scale (s : State α) (x : α) (b : Option α) (u : Bool) :
    ulRight r12 (scaleState cx cy s) (cx * x) (b.map (fun x => cx * x)) u =
      scaleState cx cy (ulRight r12 s x b u) := by
  cases b with
  | none => rfl
  | some b =>
    cases u with
    | false => rfl
    | true =>
      show ({ scaleState cx cy s with
          lossesC := lset r12 (cx * s.lossScale) (sIv cx (x, b)) .inf (sTab cx s.lossesC) } : State α) =
        { scaleState cx cy s with lossesC := sTab cx (lset r12 s.lossScale (x, b) .inf s.lossesC) }
      rw [lset_scale r12 hx]

theorem ulPend_scale (s : State α) (x : α) (xl xr a b : Option α) :
    ulPend r12 (scaleState cx cy s) (cx * x) (xl.map (fun x => cx * x)) (xr.map (fun x => cx * x))
        (a.map (fun x => cx * x)) (b.map (fun x => cx * x)) =
      scaleState cx cy (ulPend r12 s x xl xr a b) := by
  cases xl with
  | none => rfl
  | some xl =>
  cases xr with
  | none => rfl
  | some xr =>
  cases a with
  | none => rfl
  | some a =>
  cases b with
  | none => rfl
  | some b =>
    show ({ scaleState cx cy s with
        lossesC := lset r12 (cx * s.lossScale) (sIv cx (x, b))
          (Loss.mulDiv (cx * b - cx * x) ((lget (sIv cx (xl, xr)) (sTab cx s.losses)).getD .inf)
            (cx * xr - cx * xl))
          (lset r12 (cx * s.lossScale) (sIv cx (a, x))
            (Loss.mulDiv (cx * x - cx * a) ((lget (sIv cx (xl, xr)) (sTab cx s.losses)).getD .inf)
              (cx * xr - cx * xl)) (sTab cx s.lossesC)) } : State α) =
      { scaleState cx cy s with
        lossesC := sTab cx (lset r12 s.lossScale (x, b)
          (Loss.mulDiv (b - x) ((lget (xl, xr) s.losses).getD .inf) (xr - xl))
          (lset r12 s.lossScale (a, x)
            (Loss.mulDiv (x - a) ((lget (xl, xr) s.losses).getD .inf) (xr - xl)) s.lossesC)) }
    rw [lget_scale hx]
    simp only [← mul_sub, mulDiv_scale hx, lset_scale r12 hx]

omit hx in
theorem core_ulErase'' (s : State α) (a b : Option α) : core (ulErase s a b) = core s := by
  unfold ulErase; split <;> rfl

theorem updateLosses_false_scale (s : State α) (x : α) :
    updateLosses lossFn r12 (scaleState cx cy s) (cx * x) false =
      scaleState cx cy (updateLosses lossFn r12 s x false) := by
  rw [updateLosses_false_eq, updateLosses_false_eq]
  simp only [scaleState_xs, scaleState_xsC, leftOf_map (smono hx), rightOf_map (smono hx),
    Option.isNone_map]
  rw [ulErase_scale hx, ulPend_scale r12 hx, ulLeft_scale r12 hx, ulRight_scale r12 hx]

theorem updateLosses_true_scale {s : State α} (h : GLOK lossFn cx cy s) (x : α) :
    updateLosses lossFn r12 (scaleState cx cy s) (cx * x) true =
      scaleState cx cy (updateLosses lossFn r12 s x true) := by
  rw [updateLosses_true_eq, updateLosses_true_eq]
  simp only [scaleState_xs, scaleState_xsC, leftOf_map (smono hx), rightOf_map (smono hx),
    Option.isNone_map]
  have hg : GLOK lossFn cx cy (ulErase s (leftOf x s.xsC) (rightOf x s.xsC)) :=
    glok_of_core lossFn (core_ulErase'' s _ _) h
  rw [ulErase_scale hx, getIntervals_scale hx, foldUpd_scale lossFn r12 hx hg, ulErase2_scale hx,
    ulLeft_scale r12 hx, ulRight_scale r12 hx]

end upd

/-! ## `updateScale`, `maybeRescale` -/

/-- the new x-bounding box of `updateScale` -/
def usBx (s : State α) (x : α) : α × α :=
  (if x < s.bboxX.1 then x else s.bboxX.1, if s.bboxX.2 < x then x else s.bboxX.2)

/-- the new y-bounding box of `updateScale` -/
def usBy (s : State α) (y : List α) : List α × List α :=
  match s.bboxY with
  | none => (y, y)
  | some (mn, mx) => (minL mn y, maxL mx y)

theorem updateScale_eq (s : State α) (x : α) (y : List α) :
    updateScale s x y =
      { s with bboxX := usBx s x, scaleX := (usBx s x).2 - (usBx s x).1, bboxY := some (usBy s y),
               scaleY := maxOf (List.zipWith (· - ·) (usBy s y).2 (usBy s y).1) } := by
  unfold updateScale usBy
  cases s.bboxY with
  | none => rfl
  | some b => rfl

section tell
variable {cx cy : α} (hx : 0 < cx) (hy : 0 < cy)
include hx

theorem usBx_scale (s : State α) (x : α) :
    usBx (scaleState cx cy s) (cx * x) = (cx * (usBx s x).1, cx * (usBx s x).2) := by
  simp only [usBx, scaleState_bboxX, smul_lt hx, Prod.mk.injEq]
  constructor <;> split <;> rfl

omit hx in
include hy in
theorem usBy_scale (s : State α) (y : List α) :
    usBy (scaleState cx cy s) (sy cy y) = (sy cy (usBy s y).1, sy cy (usBy s y).2) := by
  unfold usBy
  rw [scaleState_bboxY]
  cases s.bboxY with
  | none => rfl
  | some b =>
    obtain ⟨mn, mx⟩ := b
    simp only [Option.map_some, minL_scale hy, maxL_scale hy]

omit hx in
theorem maxOf_sy {c : α} (hc : 0 < c) (l : List α) : maxOf (sy c l) = c * maxOf l :=
  maxOf_scale hc l

include hy

theorem updateScale_scale (s : State α) (x : α) (y : List α) :
    updateScale (scaleState cx cy s) (cx * x) (sy cy y) = scaleState cx cy (updateScale s x y) := by
  rw [updateScale_eq, updateScale_eq]
  show _ = ({ scaleState cx cy s with
    bboxX := (cx * (usBx s x).1, cx * (usBx s x).2),
    scaleX := cx * ((usBx s x).2 - (usBx s x).1),
    bboxY := some (sy cy (usBy s y).1, sy cy (usBy s y).2),
    scaleY := cy * maxOf (List.zipWith (· - ·) (usBy s y).2 (usBy s y).1) } : State α)
  rw [usBx_scale hx, usBy_scale hy]
  simp only [zipSub_scale, maxOf_sy hy, mul_sub]

theorem tellPre_scale (s : State α) (x : α) (y : List α) :
    tellPre (scaleState cx cy s) (cx * x) (sy cy y) = scaleState cx cy (tellPre s x y) := by
  have e : ({ scaleState cx cy s with
        data := sData cx cy s.data ++ [(cx * x, sy cy y)],
        pending := (s.pending.map (fun x => cx * x)).erase (cx * x),
        xsC := sinsert (cx * x) (s.xsC.map (fun x => cx * x)),
        xs := sinsert (cx * x) (s.xs.map (fun x => cx * x)) } : State α) =
      scaleState cx cy { s with data := s.data ++ [(x, y)], pending := s.pending.erase x,
                                xsC := sinsert x s.xsC, xs := sinsert x s.xs } := by
    show _ = ({ scaleState cx cy s with
        data := sData cx cy (s.data ++ [(x, y)]),
        pending := (s.pending.erase x).map (fun x => cx * x),
        xsC := (sinsert x s.xsC).map (fun x => cx * x),
        xs := (sinsert x s.xs).map (fun x => cx * x) } : State α)
    rw [erase_map (smono hx), sinsert_map (smono hx), sinsert_map (smono hx)]
    simp only [sData, List.map_append, List.map_cons, List.map_nil]
  show updateScale _ (cx * x) (sy cy y) = scaleState cx cy (updateScale _ x y)
  rw [← updateScale_scale hx hy]
  exact congrArg (fun t => updateScale t (cx * x) (sy cy y)) e

theorem rescale_cond (s : State α) :
    ((scaleState cx cy s).factor * (scaleState cx cy s).oldScaleY < (scaleState cx cy s).scaleY) ↔
      (s.factor * s.oldScaleY < s.scaleY) := by
  rw [scaleState_factor, scaleState_oldScaleY, scaleState_scaleY, mul_left_comm, smul_lt hy]

omit hy in
theorem recomputeLoop_scale {s : State α} (h : GLOK lossFn cx cy s) :
    recomputeLoop lossFn r12 (scaleState cx cy s)
        (((scaleState cx cy s).losses.map Prod.fst).reverse) =
      scaleState cx cy (recomputeLoop lossFn r12 s (s.losses.map Prod.fst).reverse) := by
  rw [scaleState_losses, tkeys_sTab hx, ← List.map_reverse]
  exact foldUpd_scale lossFn r12 hx h _

theorem maybeRescale_scale {s : State α} (h : GLOK lossFn cx cy s) :
    maybeRescale lossFn r12 (scaleState cx cy s) = scaleState cx cy (maybeRescale lossFn r12 s) := by
  unfold maybeRescale
  by_cases hc : s.factor * s.oldScaleY < s.scaleY
  · rw [if_pos hc, if_pos ((rescale_cond hx hy s).2 hc)]
    dsimp only
    rw [recomputeLoop_scale lossFn r12 hx h]
    rfl
  · rw [if_neg hc, if_neg (fun h' => hc ((rescale_cond hx hy s).1 h'))]

/-- Target 3, `tell`: from `GLOK` of the state in which the losses are evaluated. -/
theorem tell_scale (s : State α) (x : α) (y : List α)
    (h : hasData s x = false → GLOK lossFn cx cy (tellPre s x y)) :
    tell lossFn r12 (scaleState cx cy s) (cx * x) (sy cy y) =
      scaleState cx cy (tell lossFn r12 s x y) := by
  rw [tell_eq, tell_eq, hasData_scale hx]
  cases hd : hasData s x with
  | true => rfl
  | false =>
    have h1 := h hd
    have h2 : GLOK lossFn cx cy (updateLosses lossFn r12 (tellPre s x y) x true) :=
      glok_of_core lossFn (core_updateLosses lossFn r12 _ _ _) h1
    simp only [Bool.false_eq_true, if_false]
    rw [tellPre_scale hx hy, updateLosses_true_scale lossFn r12 hx h1,
      maybeRescale_scale lossFn r12 hx hy h2]

omit hy in
/-- Target 3, `tellPending`: no hypothesis on the loss function (it is not called). -/
theorem tellPending_scale (s : State α) (x : α) :
    tellPending lossFn r12 (scaleState cx cy s) (cx * x) =
      scaleState cx cy (tellPending lossFn r12 s x) := by
  unfold tellPending
  rw [hasData_scale hx]
  cases hasData s x with
  | true => rfl
  | false =>
    simp only [Bool.false_eq_true, if_false]
    rw [← updateLosses_false_scale lossFn r12 hx]
    congr 1
    show ({ scaleState cx cy s with
        pending := if cx * x ∈ s.pending.map (fun x => cx * x) then s.pending.map (fun x => cx * x)
                   else cx * x :: s.pending.map (fun x => cx * x),
        xsC := sinsert (cx * x) (s.xsC.map (fun x => cx * x)) } : State α) =
      { scaleState cx cy s with
        pending := (if x ∈ s.pending then s.pending else x :: s.pending).map (fun x => cx * x),
        xsC := (sinsert x s.xsC).map (fun x => cx * x) }
    have ep : (if cx * x ∈ s.pending.map (fun x => cx * x) then s.pending.map (fun x => cx * x)
          else cx * x :: s.pending.map (fun x => cx * x)) =
        (if x ∈ s.pending then s.pending else x :: s.pending).map (fun x => cx * x) := by
      simp only [mem_map_iff (smono hx)]
      split <;> rfl
    rw [sinsert_map (smono hx), ep]

omit hx in
/-- Target 3, `removeUnfinished` -/
theorem removeUnfinished_scale (cx cy : α) (s : State α) :
    removeUnfinished (scaleState cx cy s) = scaleState cx cy (removeUnfinished s) := rfl

omit hy in
theorem foldl_tellPending_scale (pts : List α) (s : State α) :
    (pts.map (fun x => cx * x)).foldl (tellPending lossFn r12) (scaleState cx cy s) =
      scaleState cx cy (pts.foldl (tellPending lossFn r12) s) := by
  induction pts generalizing s with
  | nil => rfl
  | cons p ps ih => simp only [List.map_cons, List.foldl_cons, tellPending_scale lossFn r12 hx, ih]

end tell

end L1D
