import AdaptiveProofs.Lemmas.IntegView
/-!
C07 (deepening): the DONE-LEAVES INVARIANT and its preservation by one round of the `while ival is not None` walk of
`complete_process`, on tree views.

`RZ T none` (the invariant between operations): for every interval `j`
  * `i1`  a non-empty `done_leaves` is duplicate free and is exactly what `j` holds (`hz T none j`);
  * `i2`  either all children have handed their leaves up (`done_leaves = None`) or none has;
  * `i3`  if all children have handed up, `done_leaves` is not the empty set;
  * `i4`  an interval that has handed up has a parent.
During a walk that revives intervals that had handed up (phase B) the invariant holds of the view in which the interval
the walk comes from is regarded as handed up and the first revived interval `z` stands for itself (`BC`).
-/
set_option linter.unusedSectionVars false
set_option linter.unusedSimpArgs false
set_option linter.unusedVariables false
namespace Integ
namespace Cut

structure RZ (T : View) (z : Option Nat) : Prop where
  wf : WFv T
  i1 : ∀ j S, T.dl j = some S → S = [] ∨ (S.Nodup ∧ ∀ x, x ∈ S ↔ x ∈ hz T z j)
  i2 : ∀ j, (∀ c ∈ T.ch j, T.dl c = none) ∨ (∀ c ∈ T.ch j, T.dl c ≠ none)
  i3 : ∀ j, Hd T j → T.dl j ≠ some []
  i4 : ∀ j, T.dl j = none → ∃ q, T.par j = some q

/-- the view in which `b` is regarded as having handed up -/
def setN (T : View) (b : Nat) : View := { T with dl := fun j => if j = b then none else T.dl j }

/-- phase B: the walk is about to visit the parent of `b`; `z` is the first revived interval -/
structure BC (T : View) (b z : Nat) (old : List Nat) (Sb : List Nat) : Prop where
  rz : RZ (setN T b) (some z)
  dlb : T.dl b = some Sb
  ne : Sb ≠ []
  nd : Sb.Nodup
  mem : ∀ x, x ∈ Sb ↔ x ∈ hz (setN T b) none z
  zold : z ∈ old
  oldH : ∀ x ∈ old, Hd (setN T b) x
  chain : z ∈ hz (setN T b) (some z) b
  zN : (setN T b).dl z = none

/-- one successful round at `p`: what it does to the view -/
structure StepRel (T T' : View) (p : Nat) (old' : List Nat) (S' : List Nat) : Prop where
  len : T'.len = T.len
  ch : T'.ch = T.ch
  par : T'.par = T.par
  dl : ∀ j, T'.dl j = if j = p then some S' else if j ∈ T.ch p then none else T.dl j
  nd : ((T.dl p).getD []).Nodup → S'.Nodup
  mem : ∀ x, x ∈ S' ↔ (x ∈ (T.dl p).getD [] ∨ ∃ c ∈ T.ch p, ∃ Sc, T.dl c = some Sc ∧ x ∈ Sc) ∧ x ∉ old'

theorem hd_iff {T T' : View} (hch : T'.ch = T.ch) (x : Nat)
    (h : ∀ c ∈ T.ch x, (T'.dl c = none ↔ T.dl c = none)) : Hd T' x ↔ Hd T x := by
  unfold Hd
  rw [hch]
  constructor
  · intro ⟨h1, h2⟩; exact ⟨h1, fun c hc => (h c hc).mp (h2 c hc)⟩
  · intro ⟨h1, h2⟩; exact ⟨h1, fun c hc => (h c hc).mpr (h2 c hc)⟩

theorem WFv.of_eq {T T' : View} (hlen : T'.len = T.len) (hch : T'.ch = T.ch) (hpar : T'.par = T.par) (h : WFv T) :
    WFv T' := by
  refine ⟨?_, ?_, ?_⟩
  · intro j c hc; rw [hch] at hc; rw [hlen, hpar]; exact h.child j c hc
  · intro j p hp; rw [hpar] at hp; rw [hch]; exact h.par j p hp
  · intro j; rw [hch]; exact h.nodup j

theorem not_leaf_none {T : View} {j : Nat} (h : Hd T j) : ¬ Leaf T none j := by
  intro hl; rcases hl with hl | hl
  · cases hl
  · exact hl h

theorem leaf_none_iff {T : View} {j : Nat} : Leaf T none j ↔ ¬ Hd T j := by
  constructor
  · intro hl; rcases hl with hl | hl
    · cases hl
    · exact hl
  · exact Or.inr

/-- `hz` below an interval only depends on the view below it -/
theorem heldZ_congr_above {T T' : View} {z z' : Option Nat} (hW : WFv T) (k : Nat)
    (hl : ∀ x, k ≤ x → (Leaf T z x ↔ Leaf T' z' x)) (hc : T'.ch = T.ch) :
    ∀ fuel j, k ≤ j → heldZ T' z' fuel j = heldZ T z fuel j
  | 0, _, _ => rfl
  | fuel + 1, j, hj => by
    simp only [heldZ]
    by_cases h : Leaf T z j
    · rw [if_pos h, if_pos ((hl j hj).mp h)]
    · rw [if_neg h, if_neg (fun h' => h ((hl j hj).mpr h')), hc]
      exact flatMap_congr' _ (fun c hcm => heldZ_congr_above hW k hl hc fuel c
        (by have := (hW.child j c hcm).1; omega))

theorem hz_congr_above {T T' : View} {z z' : Option Nat} (hW : WFv T) (k : Nat) (hlen : T'.len = T.len)
    (hl : ∀ x, k ≤ x → (Leaf T z x ↔ Leaf T' z' x)) (hc : T'.ch = T.ch) (j : Nat) (hj : k ≤ j) :
    hz T' z' j = hz T z j := by
  unfold hz; rw [hlen]; exact heldZ_congr_above hW k hl hc _ j hj

/-- what a child of `p` holds does not depend on the view at `p` and above -/
theorem hz_child_congr {T U : View} (hW : WFv T) (p : Nat) (hlen : U.len = T.len) (hch : U.ch = T.ch)
    (hH : ∀ x, p < x → (Hd U x ↔ Hd T x)) (z' : Option Nat) (hz' : z' = none ∨ z' = some p) (c : Nat) (hc : p < c) :
    hz U z' c = hz T none c := by
  apply hz_congr_above hW (p + 1) hlen ?_ hch c hc
  intro x hx
  unfold Leaf
  have : ¬ (some x = z') := by
    rcases hz' with e | e
    · rw [e]; intro h; cases h
    · rw [e]; intro h; cases h; omega
  simp only [this, false_or, (hH x (by omega))]
  constructor
  · intro h; rcases h with h | h
    · cases h
    · exact h
  · intro h; exact Or.inr h

/-! ### phase A: all children of `p` carry an estimate -/
section stepA
variable {T T' : View} {p : Nat} {old old' S' : List Nat}

/-- facts common to both cases of a phase A round -/
theorem stepA_facts (hR : RZ T none) (hs : StepRel T T' p old' S') (hold : ∀ x, x ∈ old' ↔ x = p ∨ x ∈ old)
    (hb : ∃ b ∈ T.ch p, T.dl b ≠ none) (hck : ∀ c ∈ T.ch p, ∀ l, T.dl c = some l → l ≠ [])
    (hoH : ∀ x ∈ old, Hd T x) :
    WFv T' ∧ ¬ Hd T p ∧ Hd T' p ∧
    (∀ x, p < x → (Hd T' x ↔ Hd T x)) ∧
    (∀ x, x ∈ S' ↔ ∃ c ∈ T.ch p, x ∈ hz T none c) ∧ S'.Nodup ∧ S' ≠ [] := by
  have hW := hR.wf
  have hW' : WFv T' := hW.of_eq hs.len hs.ch hs.par
  obtain ⟨b, hbc, hbn⟩ := hb
  have hallC : ∀ c ∈ T.ch p, T.dl c ≠ none := by
    rcases hR.i2 p with h | h
    · exact absurd (h b hbc) hbn
    · exact h
  have hnH : ¬ Hd T p := fun h => hbn (h.2 b hbc)
  have hcN : ∀ c ∈ T.ch p, T'.dl c = none := by
    intro c hc
    rw [hs.dl, if_neg (by have := (hW.child p c hc).1; omega), if_pos hc]
  have hH' : Hd T' p := by
    refine ⟨(by rw [hs.ch]; intro h; rw [h] at hbc; cases hbc), ?_⟩
    rw [hs.ch]; exact hcN
  -- children's estimates
  have hSc : ∀ c ∈ T.ch p, ∃ Sc, T.dl c = some Sc ∧ Sc.Nodup ∧ ∀ x, x ∈ Sc ↔ x ∈ hz T none c := by
    intro c hc
    cases hd : T.dl c with
    | none => exact absurd hd (hallC c hc)
    | some Sc =>
      rcases hR.i1 c Sc hd with h | h
      · exact absurd h (hck c hc Sc hd)
      · exact ⟨Sc, rfl, h.1, h.2⟩
  -- Hd agrees strictly above p
  have hHabove : ∀ x, p < x → (Hd T' x ↔ Hd T x) := by
    intro x hx
    apply hd_iff hs.ch
    intro c hc
    have hcx := hW.child x c hc
    rw [hs.dl, if_neg (by omega), if_neg]
    intro hcp
    have := (hW.child p c hcp).2.2
    rw [hcx.2.2] at this; cases this; omega
  have hDp : ∀ x, x ∈ (T.dl p).getD [] → x = p := by
    intro x hx
    cases hd : T.dl p with
    | none => rw [hd] at hx; cases hx
    | some D =>
      rw [hd] at hx
      simp only [Option.getD_some] at hx
      rcases hR.i1 p D hd with h | h
      · rw [h] at hx; cases hx
      · have := (h.2 x).mp hx
        rw [hz_leaf hW (leaf_none_iff.mpr hnH)] at this
        simpa using this
  have hDnd : ((T.dl p).getD []).Nodup := by
    cases hd : T.dl p with
    | none => simp
    | some D =>
      simp only [Option.getD_some]
      rcases hR.i1 p D hd with h | h
      · rw [h]; simp
      · exact h.1
  have hmem : ∀ x, x ∈ S' ↔ ∃ c ∈ T.ch p, x ∈ hz T none c := by
    intro x
    rw [hs.mem]
    constructor
    · rintro ⟨h | ⟨c, hc, Sc, hd, hx⟩, hno⟩
      · exact absurd ((hold x).mpr (Or.inl (hDp x h))) hno
      · obtain ⟨Sc', hd', _, hm⟩ := hSc c hc
        rw [hd] at hd'; cases hd'
        exact ⟨c, hc, (hm x).mp hx⟩
    · rintro ⟨c, hc, hx⟩
      obtain ⟨Sc, hd, _, hm⟩ := hSc c hc
      refine ⟨Or.inr ⟨c, hc, Sc, hd, (hm x).mpr hx⟩, ?_⟩
      intro ho
      rcases (hold x).mp ho with e | ho
      · have := anc_le hW (mem_hz_anc hW none c x hx)
        have := (hW.child p c hc).1
        omega
      · exact (leaf_none_iff.mp (mem_hz_leaf hW none c x hx)) (hoH x ho)
  refine ⟨hW', hnH, hH', hHabove, hmem, hs.nd hDnd, ?_⟩
  intro he
  have hne := hz_ne_nil hW none b
  cases hb' : hz T none b with
  | nil => exact hne hb'
  | cons y r =>
    have : y ∈ S' := (hmem y).mpr ⟨b, hbc, by rw [hb']; exact List.mem_cons_self ..⟩
    rw [he] at this; cases this

theorem stepA_some (hR : RZ T none) (hs : StepRel T T' p old' S') (hold : ∀ x, x ∈ old' ↔ x = p ∨ x ∈ old)
    (hb : ∃ b ∈ T.ch p, T.dl b ≠ none) (hck : ∀ c ∈ T.ch p, ∀ l, T.dl c = some l → l ≠ [])
    (hoH : ∀ x ∈ old, Hd T x) (hD : T.dl p ≠ none) :
    RZ T' none ∧ (∀ x ∈ old', Hd T' x) ∧ T'.dl p ≠ none := by
  obtain ⟨hW', hnH, hH', hHab, hmem, hnd, hne⟩ := stepA_facts hR hs hold hb hck hoH
  have hW := hR.wf
  have hhz : ∀ c ∈ T.ch p, hz T' none c = hz T none c := fun c hc =>
    hz_child_congr hW p hs.len hs.ch hHab none (Or.inl rfl) c (hW.child p c hc).1
  have hN : ∀ c, c ∉ T.ch p → (T'.dl c = none ↔ T.dl c = none) := by
    intro c hc
    rw [hs.dl]
    by_cases hcp : c = p
    · rw [if_pos hcp, hcp]; constructor
      · intro h; cases h
      · intro h; exact absurd h hD
    · rw [if_neg hcp, if_neg hc]
  have hHx : ∀ x, x ≠ p → (Hd T' x ↔ Hd T x) := by
    intro x hx
    apply hd_iff hs.ch
    intro c hc
    apply hN
    intro hcp
    have h1 := (hW.child p c hcp).2.2
    rw [(hW.child x c hc).2.2] at h1; cases h1; exact hx rfl
  have hhzj : ∀ j, j ≠ p → hz T' none j = hz T none j := by
    refine tree_ind hW _ ?_
    intro j ih hj
    by_cases hl : Hd T j
    · rw [hz_node hW (not_leaf_none hl), hz_node hW' (not_leaf_none ((hHx j hj).mpr hl)), hs.ch]
      apply flatMap_congr'
      intro c hc
      apply ih c hc
      intro hcp
      rw [hcp] at hc
      exact hD (hl.2 p hc)
    · rw [hz_leaf hW (leaf_none_iff.mpr hl), hz_leaf hW' (leaf_none_iff.mpr (fun h => hl ((hHx j hj).mp h)))]
  refine ⟨⟨hW', ?_, ?_, ?_, ?_⟩, ?_, ?_⟩
  · intro j S hS
    rw [hs.dl] at hS
    by_cases hjp : j = p
    · rw [if_pos hjp] at hS; cases hS
      right
      refine ⟨hnd, fun x => ?_⟩
      rw [hjp, hz_node hW' (not_leaf_none hH'), hs.ch, hmem]
      simp only [List.mem_flatMap]
      constructor
      · rintro ⟨c, hc, hx⟩; exact ⟨c, hc, by rw [hhz c hc]; exact hx⟩
      · rintro ⟨c, hc, hx⟩; exact ⟨c, hc, by rw [hhz c hc] at hx; exact hx⟩
    · rw [if_neg hjp] at hS
      split at hS
      · cases hS
      · rw [hhzj j hjp]; exact hR.i1 j S hS
  · intro j
    by_cases hjp : j = p
    · left; rw [hjp]; exact hH'.2
    · rw [hs.ch]
      have hcc : ∀ c ∈ T.ch j, c ∉ T.ch p := by
        intro c hc hcp
        have h1 := (hW.child p c hcp).2.2
        rw [(hW.child j c hc).2.2] at h1; cases h1; exact hjp rfl
      rcases hR.i2 j with h | h
      · left; intro c hc; exact (hN c (hcc c hc)).mpr (h c hc)
      · right; intro c hc hn; exact h c hc ((hN c (hcc c hc)).mp hn)
  · intro j hH
    rw [hs.dl]
    by_cases hjp : j = p
    · rw [if_pos hjp]; intro h; cases h; exact hne rfl
    · rw [if_neg hjp]
      split
      · intro h; cases h
      · exact hR.i3 j ((hHx j hjp).mp hH)
  · intro j hn
    rw [hs.par]
    rw [hs.dl] at hn
    by_cases hjp : j = p
    · rw [if_pos hjp] at hn; cases hn
    · rw [if_neg hjp] at hn
      split at hn
      · rename_i hc; exact ⟨p, (hW.child p j hc).2.2⟩
      · exact hR.i4 j hn
  · intro x hx
    by_cases hxp : x = p
    · rw [hxp]; exact hH'
    · rcases (hold x).mp hx with e | ho
      · exact absurd e hxp
      · exact (hHx x hxp).mpr (hoH x ho)
  · rw [hs.dl, if_pos rfl]; intro h; cases h

theorem stepA_none (hR : RZ T none) (hs : StepRel T T' p old' S') (hold : ∀ x, x ∈ old' ↔ x = p ∨ x ∈ old)
    (hb : ∃ b ∈ T.ch p, T.dl b ≠ none) (hck : ∀ c ∈ T.ch p, ∀ l, T.dl c = some l → l ≠ [])
    (hoH : ∀ x ∈ old, Hd T x) (hD : T.dl p = none) : BC T' p p old' S' := by
  obtain ⟨hW', hnH, hH', hHab, hmem, hnd, hne⟩ := stepA_facts hR hs hold hb hck hoH
  have hW := hR.wf
  have hVdl : ∀ j, (setN T' p).dl j = if j = p then none else if j ∈ T.ch p then none else T.dl j := by
    intro j
    simp only [setN]
    by_cases hjp : j = p
    · rw [if_pos hjp, if_pos hjp]
    · rw [if_neg hjp, if_neg hjp, hs.dl, if_neg hjp]
  have hVch : (setN T' p).ch = T.ch := hs.ch
  have hWV : WFv (setN T' p) := WFv.of_eq (T := T') (T' := setN T' p) rfl rfl rfl hW'
  have hN : ∀ c, c ∉ T.ch p → ((setN T' p).dl c = none ↔ T.dl c = none) := by
    intro c hc
    rw [hVdl]
    by_cases hcp : c = p
    · rw [if_pos hcp, hcp, hD]
    · rw [if_neg hcp, if_neg hc]
  have hHx : ∀ x, x ≠ p → (Hd (setN T' p) x ↔ Hd T x) := by
    intro x hx
    apply hd_iff hVch
    intro c hc
    apply hN
    intro hcp
    have h1 := (hW.child p c hcp).2.2
    rw [(hW.child x c hc).2.2] at h1; cases h1; exact hx rfl
  have hHV : Hd (setN T' p) p := by
    refine ⟨hH'.1, fun c hc => ?_⟩
    have hc' : c ∈ T.ch p := by rw [← hVch]; exact hc
    rw [hVdl, if_neg (by have := (hW.child p c hc').1; omega), if_pos hc']
  have hleaf : ∀ x, Leaf T none x ↔ Leaf (setN T' p) (some p) x := by
    intro x
    by_cases hxp : x = p
    · rw [hxp]; exact ⟨fun _ => Or.inl rfl, fun _ => leaf_none_iff.mpr hnH⟩
    · unfold Leaf
      rw [hHx x hxp]
      constructor
      · rintro (h | h)
        · cases h
        · exact Or.inr h
      · rintro (h | h)
        · cases h; exact absurd rfl hxp
        · exact Or.inr h
  have hhzV : ∀ j, hz (setN T' p) (some p) j = hz T none j :=
    fun j => hz_congr (T := T) (T' := setN T' p) (show (setN T' p).len = T.len from hs.len) hleaf
      (fun x _ => by rw [hVch]) j
  have hhzc : ∀ c ∈ T.ch p, hz (setN T' p) none c = hz T none c := fun c hc =>
    hz_child_congr (T := T) (U := setN T' p) hW p hs.len hVch (fun x hx => hHx x (by omega)) none (Or.inl rfl) c
      (hW.child p c hc).1
  refine ⟨⟨hWV, ?_, ?_, ?_, ?_⟩, ?_, hne, hnd, ?_, ?_, ?_, ?_, ?_⟩
  · intro j S hS
    rw [hVdl] at hS
    rw [hhzV]
    split at hS
    · cases hS
    · split at hS
      · cases hS
      · exact hR.i1 j S hS
  · intro j
    by_cases hjp : j = p
    · left; rw [hjp]; exact hHV.2
    · rw [hVch]
      have hcc : ∀ c ∈ T.ch j, c ∉ T.ch p := by
        intro c hc hcp
        have h1 := (hW.child p c hcp).2.2
        rw [(hW.child j c hc).2.2] at h1; cases h1; exact hjp rfl
      rcases hR.i2 j with h | h
      · left; intro c hc; exact (hN c (hcc c hc)).mpr (h c hc)
      · right; intro c hc hn; exact h c hc ((hN c (hcc c hc)).mp hn)
  · intro j hH
    rw [hVdl]
    by_cases hjp : j = p
    · rw [if_pos hjp]; intro h; cases h
    · rw [if_neg hjp]
      split
      · intro h; cases h
      · exact hR.i3 j ((hHx j hjp).mp hH)
  · intro j hn
    show ∃ q, T'.par j = some q
    rw [hs.par]
    rw [hVdl] at hn
    by_cases hjp : j = p
    · rw [hjp]; exact hR.i4 p hD
    · rw [if_neg hjp] at hn
      split at hn
      · rename_i hc; exact ⟨p, (hW.child p j hc).2.2⟩
      · exact hR.i4 j hn
  · rw [hs.dl, if_pos rfl]
  · intro x
    rw [hmem, hz_node hWV (not_leaf_none hHV), hVch]
    simp only [List.mem_flatMap]
    constructor
    · rintro ⟨c, hc, hx⟩; exact ⟨c, hc, by rw [hhzc c hc]; exact hx⟩
    · rintro ⟨c, hc, hx⟩; exact ⟨c, hc, by rw [hhzc c hc] at hx; exact hx⟩
  · exact (hold p).mpr (Or.inl rfl)
  · intro x hx
    by_cases hxp : x = p
    · rw [hxp]; exact hHV
    · rcases (hold x).mp hx with e | ho
      · exact absurd e hxp
      · exact (hHx x hxp).mpr (hoH x ho)
  · rw [hz_leaf hWV (Or.inl rfl)]; exact List.mem_singleton.mpr rfl
  · rw [hVdl, if_pos rfl]

end stepA
end Cut
end Integ
