import AdaptiveProofs.Lemmas.LNDInv
import AdaptiveProofs.Lemmas.LNDSubSound

/-! The vertex list of a sub-triangulation (C04): in every reachable state the keys of `_subtriangulations` are
simplices of the triangulation, and the vertex list of the sub-triangulation of a simplex is the list of the
simplex' corners (in the simplex' order) followed by the points put into it.  (The builder's missing invariant;
it is what makes "the point chosen in a sub-simplex lies in the simplex" expressible.) -/
set_option linter.unusedSectionVars false
set_option linter.unusedSimpArgs false
set_option linter.unusedVariables false
namespace LND
variable {α : Type} [Sub α] [Mul α] [Div α] [LT α] [DecidableLT α]

/-- every sub-triangulation belongs to a simplex of `simps` and its vertices are that simplex' corners followed
by further points -/
def SubForm (vs : List Pt) (simps : List Simplex) (subs : List (Simplex × List Pt)) : Prop :=
  ∀ x sv, get? x subs = some sv → x ∈ simps ∧ ∃ pend, sv = ptsOf vs x ++ pend

/-- `SubForm` in a state; without triangulation there is no sub-triangulation -/
def SubVerts (env : Env α) (s : State α) : Prop :=
  (s.tri = none → s.book.subs = []) ∧
  ∀ vs, s.tri = some vs → SubForm vs (env.triSimps vs.length) s.book.subs

theorem SubForm.nil (vs : List Pt) (simps : List Simplex) : SubForm vs simps [] := by
  intro x sv h; simp [get?] at h

theorem tryAdd_subForm (env : Env α) (vs : List Pt) (simps : List Simplex) {b b' : Book α} (p : Pt)
    (t : Simplex) {r : Option (List Simplex)} (ht : t ∈ simps) (h : tryAdd env vs b p t = .ok (b', r))
    (hf : SubForm vs simps b.subs) : SubForm vs simps b'.subs := by
  obtain ⟨_, _, hcase⟩ := tryAdd_spec env vs p t h
  rcases hcase with ⟨_, hb⟩ | ⟨D, A, _, _, hsubs⟩
  · rw [hb]; exact hf
  · rw [hsubs]
    intro x sv hx
    by_cases hxt : x = t
    · rw [hxt] at hx ⊢
      rw [get?_put_self] at hx
      simp only [Option.some.injEq] at hx
      refine ⟨ht, ?_⟩
      cases hg : get? t b.subs with
      | none =>
        rw [hg] at hx
        exact ⟨[p], by rw [← hx]; rfl⟩
      | some sv0 =>
        rw [hg] at hx
        obtain ⟨_, pend, hp⟩ := hf t sv0 hg
        exact ⟨pend ++ [p], by rw [← hx, Option.getD_some, hp, List.append_assoc]⟩
    · rw [get?_put_ne hxt] at hx
      exact hf x sv hx

theorem pendLoop_subForm (env : Env α) (vs : List Pt) (simps : List Simplex) (losses : List (Simplex × α))
    (p : Pt) (ts : List Simplex) : ∀ {b b' : Book α}, (∀ t ∈ ts, t ∈ simps) →
      pendLoop env vs losses p b ts = .ok b' → SubForm vs simps b.subs → SubForm vs simps b'.subs := by
  induction ts with
  | nil => intro b b' _ h hf; simp only [pendLoop, Except.ok.injEq] at h; subst h; exact hf
  | cons t ts ih =>
    intro b b' hts h hf
    have ht := hts t (List.mem_cons_self ..)
    have hts' : ∀ t' ∈ ts, t' ∈ simps := fun t' h' => hts t' (List.mem_cons_of_mem _ h')
    unfold pendLoop at h
    split at h
    · exact absurd h (by simp)
    · rename_i b1 h1
      exact ih hts' h (tryAdd_subForm env vs simps p t ht h1 hf)
    · rename_i b1 A h1
      split at h
      · exact absurd h (by simp)
      · rename_i b2 h2
        have f1 := tryAdd_subForm env vs simps p t ht h1 hf
        obtain ⟨u1, _⟩ := updateSubLosses_spec env vs losses t A h2
        exact ih hts' h (by rw [u1]; exact f1)

theorem addPts_subForm (env : Env α) (vs : List Pt) (simps : List Simplex) (sx : Simplex) (hsx : sx ∈ simps)
    (ps : List Pt) : ∀ {b b' : Book α}, addPts env vs sx b ps = .ok b' →
      SubForm vs simps b.subs → SubForm vs simps b'.subs := by
  induction ps with
  | nil => intro b b' h hf; simp only [addPts, Except.ok.injEq] at h; subst h; exact hf
  | cons p ps ih =>
    intro b b' h hf
    unfold addPts at h
    split at h
    · exact absurd h (by simp)
    · rename_i b1 r h1
      exact ih h (tryAdd_subForm env vs simps p sx hsx h1 hf)

theorem addLoop_subForm (env : Env α) (vs : List Pt) (simps : List Simplex) (m : α) (unb : List Pt)
    (A : List Simplex) : ∀ {losses l' : List (Simplex × α)} {b b' : Book α}, (∀ x ∈ A, x ∈ simps) →
      addLoop env vs m unb losses b A = .ok (l', b') → SubForm vs simps b.subs → SubForm vs simps b'.subs := by
  induction A with
  | nil =>
    intro losses l' b b' _ h hf
    simp only [addLoop, Except.ok.injEq, Prod.mk.injEq] at h
    obtain ⟨_, h2⟩ := h; subst h2; exact hf
  | cons sx rest ih =>
    intro losses l' b b' hA h hf
    have hsx := hA sx (List.mem_cons_self ..)
    have hA' : ∀ x ∈ rest, x ∈ simps := fun x hx => hA x (List.mem_cons_of_mem _ hx)
    unfold addLoop at h
    simp only at h
    split at h
    · exact absurd h (by simp)
    · rename_i b1 hb1
      have f1 := addPts_subForm env vs simps sx hsx unb hb1 hf
      split at h
      · exact ih hA' h f1
      · split at h
        · exact absurd h (by simp)
        · rename_i b2 h2
          obtain ⟨u1, _⟩ := updateSubLosses_spec env vs _ sx _ h2
          exact ih hA' h (by rw [u1]; exact f1)

/-- the first loop of `_update_losses` only removes sub-triangulations, those of the deleted simplices -/
theorem dropDeleted_subs (D : List Simplex) : ∀ (losses : List (Simplex × α)) (subs : List (Simplex × List Pt))
    (unb : List Pt) (x : Simplex) (sv : List Pt),
      get? x (dropDeleted losses subs unb D).2.1 = some sv → get? x subs = some sv ∧ x ∉ D := by
  induction D with
  | nil => intro losses subs unb x sv h; simp only [dropDeleted] at h; exact ⟨h, by simp⟩
  | cons sx rest ih =>
    intro losses subs unb x sv h
    unfold dropDeleted at h
    cases hg : get? sx subs with
    | none =>
      rw [hg] at h
      simp only at h
      obtain ⟨a, b⟩ := ih _ _ _ x sv h
      refine ⟨a, ?_⟩
      intro c
      rcases List.mem_cons.1 c with c | c
      · rw [c, hg] at a; exact absurd a (by simp)
      · exact b c
    | some sv' =>
      rw [hg] at h
      simp only at h
      obtain ⟨a, b⟩ := ih _ _ _ x sv h
      have hne : x ≠ sx := by
        intro c; rw [c, get?_del_self] at a; exact absurd a (by simp)
      rw [get?_del_ne hne] at a
      refine ⟨a, ?_⟩
      intro c
      rcases List.mem_cons.1 c with c | c
      · exact hne c
      · exact b c

theorem updateLosses_subForm (env : Env α) {s s' : State α} {vs : List Pt} (simps : List Simplex)
    (D A : List Simplex) (ht : s.tri = some vs) (h : updateLosses env s D A = .ok s')
    (hpre : ∀ x sv, get? x s.book.subs = some sv → x ∉ D → x ∈ simps ∧ ∃ pend, sv = ptsOf vs x ++ pend)
    (hA : ∀ x ∈ A, x ∈ simps) : SubForm vs simps s'.book.subs := by
  unfold updateLosses at h
  rw [ht] at h
  simp only at h
  split at h
  · exact absurd h (by simp)
  · rename_i l b hl
    simp only [Except.ok.injEq] at h
    subst h
    refine addLoop_subForm env vs simps s.mult _ A hA hl ?_
    intro x sv hx
    obtain ⟨h1, h2⟩ := dropDeleted_subs D s.losses s.book.subs [] x sv hx
    exact hpre x sv h1 h2

theorem touchTri_subVerts (env : Env α) {s s' : State α} (hs : SubVerts env s)
    (h : touchTri env s = .ok s') : SubVerts env s' := by
  unfold touchTri at h
  cases ht : s.tri with
  | some vs => rw [ht] at h; simp only [Except.ok.injEq] at h; subst h; exact hs
  | none =>
    rw [ht] at h
    simp only at h
    split at h
    · obtain ⟨⟨_, _, c, _, _, _⟩, _⟩ :=
        updateLosses_spec (s := { s with tri := some s.data }) env [] (env.triSimps s.data.length) rfl h
      have c' : s'.tri = some s.data := c
      have hsub : s.book.subs = [] := hs.1 ht
      refine ⟨fun hn => by rw [c'] at hn; exact absurd hn (by simp), ?_⟩
      intro vs hvs
      rw [c'] at hvs
      simp only [Option.some.injEq] at hvs
      subst hvs
      refine updateLosses_subForm (s := { s with tri := some s.data }) env _ [] _ rfl h ?_ (fun x hx => hx)
      intro x sv hx
      have hx' : get? x s.book.subs = some sv := hx
      rw [hsub] at hx'
      simp [get?] at hx'
    · simp only [Except.ok.injEq] at h; subst h; exact hs

theorem recomputeAll_subVerts (env : Env α) {s s' : State α} (hs : SubVerts env s)
    (h : recomputeAll env s = .ok s') : SubVerts env s' := by
  unfold recomputeAll at h
  split at h
  · exact absurd h (by simp)
  · rename_i s1 h1
    have k1 := touchTri_subVerts env hs h1
    split at h
    · simp only [Except.ok.injEq] at h; subst h; exact k1
    · rename_i vs hvs
      split at h
      · exact absurd h (by simp)
      · rename_i l b hl
        simp only [Except.ok.injEq] at h; subst h
        refine ⟨fun hn => ?_, ?_⟩
        · have hn' : s1.tri = none := hn
          rw [hvs] at hn'; exact absurd hn' (by simp)
        · intro vs' hvs'
          have hvs'' : s1.tri = some vs' := hvs'
          rw [hvs] at hvs''
          simp only [Option.some.injEq] at hvs''
          subst hvs''
          exact addLoop_subForm env vs _ s1.mult [] _ (fun x hx => hx) hl (k1.2 vs hvs)

theorem updateRange_subVerts (env : Env α) {s s' : State α} (a b : α) (hs : SubVerts env s)
    (h : updateRange env s a b = .ok s') : SubVerts env s' := by
  obtain ⟨r, m, hf | hf⟩ := updateRange_form env s a b
  · rw [hf] at h
    exact recomputeAll_subVerts env (s := { s with range := r, mult := m }) hs h
  · rw [hf] at h; simp only [Except.ok.injEq] at h; subst h; exact hs

theorem tellPending_subVerts (env : Env α) {s s' : State α} (p : Pt) (hint : Option Simplex)
    (hs : SubVerts env s) (h : tellPending env s p hint = .ok s') : SubVerts env s' := by
  rcases tellPending_form env p hint h with ⟨_, rfl⟩ | ⟨_, s1, b, h1, rfl, hb⟩
  · exact hs
  · have k1 : SubVerts env s1 := touchTri_subVerts env (s := { s with pending := addPending s.pending p }) hs h1
    rcases hb with rfl | ⟨vs, sx, hvs, hb⟩
    · exact k1
    · refine ⟨fun hn => ?_, ?_⟩
      · have hn' : s1.tri = none := hn
        rw [hvs] at hn'; exact absurd hn' (by simp)
      · intro vs' hvs'
        have hvs'' : s1.tri = some vs' := hvs'
        rw [hvs] at hvs''
        simp only [Option.some.injEq] at hvs''
        subst hvs''
        exact pendLoop_subForm env vs _ s1.losses p _ (fun t ht => mem_neighborsOf ht) hb (k1.2 vs hvs)

theorem tell_subVerts (env : Env α) (hT : TriGeom env) {s s' : State α} (p : Pt) (a b : α)
    (hs : SubVerts env s) (h : tell env s p a b = .ok s') : SubVerts env s' := by
  rcases tell_form env p a b h with ⟨_, rfl⟩ | ⟨_, s1, h1, hcase⟩
  · exact hs
  · have k1 : SubVerts env s1 :=
      touchTri_subVerts env (s := { s with pending := s.pending.filter (· ≠ p) }) hs h1
    rcases hcase with ⟨_, rfl⟩ | ⟨_, s3, h3, hcase⟩
    · exact k1
    · have k3 : SubVerts env s3 := updateRange_subVerts env (s := { s1 with data := s1.data ++ [p] }) a b k1 h3
      rcases hcase with ⟨_, rfl⟩ | ⟨vs, hint, D, A, hvs, hadd, hu⟩
      · exact k3
      · obtain ⟨_, _, _, f3⟩ := updateRange_frame env a b h3
        have t3 : s3.tri = some vs := by
          rcases f3 with f | ⟨f, _⟩
          · rw [f]; exact hvs
          · simp only [hvs] at f; exact absurd f (by simp)
        obtain ⟨⟨_, _, c, _, _, _⟩, _⟩ :=
          updateLosses_spec (s := { s3 with tri := some (vs ++ [p]) }) env D A rfl hu
        have c' : s'.tri = some (vs ++ [p]) := c
        have hR := hT.report _ _ _ _ hadd
        refine ⟨fun hn => by rw [c'] at hn; exact absurd hn (by simp), ?_⟩
        intro vs' hvs'
        rw [c'] at hvs'
        simp only [Option.some.injEq] at hvs'
        subst hvs'
        have hlen : (vs ++ [p]).length = vs.length + 1 := by simp
        rw [hlen]
        refine updateLosses_subForm (s := { s3 with tri := some (vs ++ [p]) }) env _ D A rfl hu ?_ ?_
        · intro x sv hx hD
          have hx' : get? x s3.book.subs = some sv := hx
          obtain ⟨m1, pend, hp⟩ := k3.2 vs t3 x sv hx'
          refine ⟨(hR x).2 (Or.inl ⟨m1, hD⟩), pend, ?_⟩
          rw [ptsOf_append_of_lt [p] (hT.idx _ _ m1)]
          exact hp
        · intro x hx
          exact (hR x).2 (Or.inr hx)

theorem askBest_subVerts (env : Env α) {s s' : State α} {vs : List Pt} {r : Pt × α}
    (hs : SubVerts env s) (h : askBest env s vs = .ok (r, s')) : SubVerts env s' := by
  obtain ⟨e, q, s2, _, _, h2, rfl⟩ := askBest_form env h
  have kq : SubVerts env
      { s with book := { s.book with queue := q, p2s := put r.1 e.simplex s.book.p2s } } := ⟨hs.1, hs.2⟩
  have k2 : SubVerts env s2 := tellPending_subVerts env r.1 (some e.simplex) kq h2
  exact ⟨k2.1, k2.2⟩

theorem subVerts_preserved (env : Env α) (hT : TriGeom env) : Preserved env (SubVerts env) where
  hTouch := fun hi h => touchTri_subVerts env hi h
  hPend := fun p hint hi h => tellPending_subVerts env p hint hi h
  hTell := fun p a b hi h => tell_subVerts env hT p a b hi h
  hBest := fun hi _ h => askBest_subVerts env hi h
  hRemove := fun {s} _ => ⟨fun _ => rfl, fun vs _ => SubForm.nil vs _⟩
  hRand := fun hi => ⟨hi.1, hi.2⟩

theorem init_subVerts (env : Env α) : SubVerts env (init env) :=
  ⟨fun _ => rfl, fun vs h => absurd h (by simp [init])⟩

/-- in every reachable state every sub-triangulation belongs to a simplex of the triangulation and its vertex
list is that simplex' corners followed by the points put into it -/
theorem run_subVerts (env : Env α) (hT : TriGeom env) (ops : List (Op α)) {s : State α}
    (h : run env (init env) ops = .ok s) : SubVerts env s :=
  run_inv env (subVerts_preserved env hT) ops (init_subVerts env) h

end LND
