import AdaptiveProofs.Lemmas.Seq

/-! Partition invariant of the SequenceLearner model and its preservation. -/
namespace Seq

variable {β : Type}

/-- `todo`, `pending`, `keys data` partition `range ntotal`. -/
structure Inv (s : State β) : Prop where
  todo_sorted : s.todo.Pairwise (· < ·)
  pending_nodup : s.pending.Nodup
  data_sorted : (keys s).Pairwise (· < ·)
  cover : ∀ i, i < s.ntotal ↔ (i ∈ s.todo ∨ i ∈ s.pending ∨ i ∈ keys s)
  disj_tp : ∀ i, i ∈ s.todo → i ∉ s.pending
  disj_td : ∀ i, i ∈ s.todo → i ∉ keys s
  disj_pd : ∀ i, i ∈ s.pending → i ∉ keys s

theorem range_sorted (n : Nat) : (List.range n).Pairwise (· < ·) := by
  simp [List.pairwise_lt_range]

theorem inv_init (n : Nat) : Inv (init n : State β) := by
  refine ⟨range_sorted n, by simp [init], by simp [init, keys], ?_, ?_, ?_, ?_⟩ <;>
    simp [init, keys]

theorem mem_erase_sorted {l : List Nat} (h : l.Pairwise (· < ·)) {i x : Nat} :
    i ∈ l.erase x ↔ i ≠ x ∧ i ∈ l :=
  (lt_pairwise_nodup h).mem_erase_iff

theorem inv_tellPending {s : State β} (h : Inv s) {i : Nat} (hi : i ∈ s.todo) :
    Inv (tellPending s i) := by
  have hip : i ∉ s.pending := h.disj_tp i hi
  have hid : i ∉ keys s := h.disj_td i hi
  refine ⟨?_, ?_, ?_, ?_, ?_, ?_, ?_⟩
  · exact h.todo_sorted.sublist List.erase_sublist
  · simp only [tellPending, hip, if_false]
    exact List.nodup_cons.2 ⟨hip, h.pending_nodup⟩
  · exact h.data_sorted
  · intro j
    simp only [tellPending, hip, if_false, keys, mem_erase_sorted h.todo_sorted,
      List.mem_cons]
    rw [h.cover j]
    simp only [keys]
    by_cases hji : j = i
    · subst hji; simp [hi]
    · simp [hji]
  · intro j hj
    simp only [tellPending, hip, if_false, mem_erase_sorted h.todo_sorted] at hj ⊢
    simp only [List.mem_cons, not_or]
    exact ⟨hj.1, h.disj_tp j hj.2⟩
  · intro j hj
    simp only [tellPending, mem_erase_sorted h.todo_sorted] at hj
    exact h.disj_td j hj.2
  · intro j hj
    simp only [tellPending, hip, if_false, List.mem_cons] at hj
    rcases hj with rfl | hj
    · exact hid
    · exact h.disj_pd j hj

theorem inv_tell {s : State β} (h : Inv s) {i : Nat} (v : β) (hi : i < s.ntotal) :
    Inv (tell s i v) := by
  refine ⟨?_, ?_, ?_, ?_, ?_, ?_, ?_⟩
  · exact h.todo_sorted.sublist List.erase_sublist
  · exact h.pending_nodup.sublist List.erase_sublist
  · exact dinsert_sorted h.data_sorted
  · intro j
    simp only [tell, keys, mem_erase_sorted h.todo_sorted, h.pending_nodup.mem_erase_iff,
      mem_keys_dinsert]
    by_cases hji : j = i
    · subst hji; simp [hi]
    · have := h.cover j; simp only [keys] at this; simp [hji, this]
  · intro j hj
    simp only [tell, mem_erase_sorted h.todo_sorted, h.pending_nodup.mem_erase_iff] at hj ⊢
    exact fun hp => h.disj_tp j hj.2 hp.2
  · intro j hj
    simp only [tell, keys, mem_erase_sorted h.todo_sorted, mem_keys_dinsert] at hj ⊢
    rintro (hji | hjd)
    · exact hj.1 hji
    · exact h.disj_td j hj.2 hjd
  · intro j hj
    simp only [tell, keys, h.pending_nodup.mem_erase_iff, mem_keys_dinsert] at hj ⊢
    rintro (hji | hjd)
    · exact hj.1 hji
    · exact h.disj_pd j hj.2 hjd

/-- folding `tellPending` over a prefix of `todo` -/
theorem foldl_tellPending_spec :
    ∀ (pts : List Nat) (s : State β), Inv s → pts.Nodup → (∀ i ∈ pts, i ∈ s.todo) →
      let s' := pts.foldl tellPending s
      Inv s' ∧ s'.ntotal = s.ntotal ∧ s'.data = s.data ∧
      (∀ j, j ∈ s'.todo ↔ j ∈ s.todo ∧ j ∉ pts) ∧
      (∀ j, j ∈ s'.pending ↔ j ∈ s.pending ∨ j ∈ pts) := by
  intro pts
  induction pts with
  | nil => intro s h _ _; simp [h]
  | cons p ps ih =>
    intro s h hnd hmem
    have hp : p ∈ s.todo := hmem p (by simp)
    have hip : p ∉ s.pending := h.disj_tp p hp
    have h1 := inv_tellPending h hp
    rw [List.nodup_cons] at hnd
    have hmem' : ∀ i ∈ ps, i ∈ (tellPending s p).todo := by
      intro i hi
      simp only [tellPending, mem_erase_sorted h.todo_sorted]
      exact ⟨fun e => hnd.1 (e ▸ hi), hmem i (by simp [hi])⟩
    obtain ⟨a, b, c, d, e⟩ := ih (tellPending s p) h1 hnd.2 hmem'
    refine ⟨a, by simpa [tellPending] using b, by simpa [tellPending] using c, ?_, ?_⟩
    · intro j
      simp only [List.foldl_cons]
      rw [d j]
      simp only [tellPending, mem_erase_sorted h.todo_sorted, List.mem_cons, not_or]
      constructor
      · rintro ⟨⟨x, y⟩, z⟩; exact ⟨y, x, z⟩
      · rintro ⟨y, x, z⟩; exact ⟨⟨x, y⟩, z⟩
    · intro j
      simp only [List.foldl_cons]
      rw [e j]
      simp only [tellPending, hip, if_false, List.mem_cons]
      constructor
      · rintro ((x | x) | x) <;> simp [x]
      · rintro (x | x | x) <;> simp [x]

theorem take_sorted_nodup {l : List Nat} (h : l.Pairwise (· < ·)) (n : Nat) :
    (l.take n).Nodup :=
  lt_pairwise_nodup (h.sublist (List.take_sublist n l))

theorem inv_ask {s : State β} (h : Inv s) (n : Nat) (c : Bool) : Inv (ask s n c).2 := by
  cases c with
  | false => simpa [ask] using h
  | true =>
    simp only [ask, if_true]
    exact (foldl_tellPending_spec (askPoints s n) s h (take_sorted_nodup h.todo_sorted n)
      (fun i hi => List.mem_of_mem_take hi)).1

/-- folding sorted insertion -/
theorem foldl_sinsert_spec (ps : List Nat) :
    ∀ t : List Nat, t.Pairwise (· < ·) →
      (ps.foldl (fun t i => sinsert i t) t).Pairwise (· < ·) ∧
      ∀ j, j ∈ ps.foldl (fun t i => sinsert i t) t ↔ j ∈ t ∨ j ∈ ps := by
  induction ps with
  | nil => intro t ht; simp [ht]
  | cons p ps ih =>
    intro t ht
    obtain ⟨a, b⟩ := ih (sinsert p t) (sinsert_sorted ht)
    refine ⟨a, ?_⟩
    intro j
    simp only [List.foldl_cons]
    rw [b j, mem_sinsert]
    simp only [List.mem_cons]
    constructor
    · rintro ((x | x) | x) <;> simp [x]
    · rintro (x | x | x) <;> simp [x]

theorem inv_removeUnfinished {s : State β} (h : Inv s) : Inv (removeUnfinished s) := by
  obtain ⟨a, b⟩ := foldl_sinsert_spec s.pending s.todo h.todo_sorted
  refine ⟨a, by simp [removeUnfinished], h.data_sorted, ?_, ?_, ?_, ?_⟩
  · intro j
    simp only [removeUnfinished, keys, b j]
    have := h.cover j; simp only [keys] at this
    rw [this]; simp [or_assoc]
  · intro j _; simp [removeUnfinished]
  · intro j hj
    simp only [removeUnfinished, b j] at hj
    rcases hj with hj | hj
    · exact h.disj_td j hj
    · exact h.disj_pd j hj
  · intro j hj; simp [removeUnfinished] at hj

theorem ntotal_step (s : State β) (op : Op β) : (step s op).ntotal = s.ntotal := by
  cases op with
  | ask n c =>
    cases c
    · simp [step, ask]
    · simp only [step, ask, if_true]
      generalize askPoints s n = pts
      induction pts generalizing s with
      | nil => rfl
      | cons p ps ih => simp only [List.foldl_cons]; rw [ih]; rfl
  | tell i v => rfl
  | tellPending i => rfl
  | removeUnfinished => rfl

/-- marking an already pending index pending again changes nothing -/
theorem tellPending_of_mem_pending {s : State β} (h : Inv s) {i : Nat} (hi : i ∈ s.pending) :
    tellPending s i = s := by
  have hnt : i ∉ s.todo := fun ht => h.disj_tp i ht hi
  simp [tellPending, hi, List.erase_of_not_mem hnt]

theorem inv_tellPending_valid {s : State β} (h : Inv s) {i : Nat} (hi : i < s.ntotal)
    (hd : i ∉ keys s) : Inv (tellPending s i) := by
  rcases (h.cover i).1 hi with ht | hp | hk
  · exact inv_tellPending h ht
  · rw [tellPending_of_mem_pending h hp]; exact h
  · exact absurd hk hd

theorem inv_step {s : State β} (h : Inv s) (op : Op β) (hv : ValidOp s op) :
    Inv (step s op) := by
  cases op with
  | ask n c => exact inv_ask h n c
  | tell i v => exact inv_tell h v hv
  | tellPending i => exact inv_tellPending_valid h hv.1 hv.2
  | removeUnfinished => exact inv_removeUnfinished h

/-- every op of the list is valid in the state it is applied to -/
def ValidOps (s : State β) : List (Op β) → Prop
  | [] => True
  | op :: ops => ValidOp s op ∧ ValidOps (step s op) ops

instance (s : State β) (op : Op β) : Decidable (ValidOp s op) := by
  cases op <;> simp only [ValidOp] <;> infer_instance

instance decValidOps : (s : State β) → (ops : List (Op β)) → Decidable (ValidOps s ops)
  | _, [] => isTrue trivial
  | s, op :: ops =>
    have := decValidOps (step s op) ops
    by simp only [ValidOps]; infer_instance

theorem inv_run : ∀ (ops : List (Op β)) (s : State β), Inv s → ValidOps s ops → Inv (run s ops)
  | [], _, h, _ => h
  | op :: ops, s, h, hv => inv_run ops (step s op) (inv_step h op hv.1) hv.2

/-- counting: the three classes add up to `ntotal` -/
theorem seq_count {s : State β} (h : Inv s) :
    s.todo.length + s.pending.length + (npoints s) = s.ntotal := by
  have hnd : (s.todo ++ (s.pending ++ keys s)).Nodup := by
    refine List.nodup_append.2 ⟨lt_pairwise_nodup h.todo_sorted, ?_, ?_⟩
    · refine List.nodup_append.2 ⟨h.pending_nodup, lt_pairwise_nodup h.data_sorted, ?_⟩
      intro a ha b hb hab; subst hab; exact h.disj_pd a ha hb
    · intro a ha b hb hab
      subst hab
      rcases List.mem_append.1 hb with x | x
      · exact h.disj_tp a ha x
      · exact h.disj_td a ha x
  have hperm : List.Perm (s.todo ++ (s.pending ++ keys s)) (List.range s.ntotal) := by
    rw [List.perm_ext_iff_of_nodup hnd (lt_pairwise_nodup List.pairwise_lt_range)]
    intro a
    simp only [List.mem_append, List.mem_range]
    exact (h.cover a).symm
  have := hperm.length_eq
  simp only [List.length_append, List.length_range, keys, List.length_map] at this
  simp only [npoints]; omega

theorem data_ask (s : State β) (n : Nat) (c : Bool) : (ask s n c).2.data = s.data := by
  cases c
  · simp [ask]
  · simp only [ask, if_true]
    generalize askPoints s n = pts
    induction pts generalizing s with
    | nil => rfl
    | cons p ps ih => simp only [List.foldl_cons]; rw [ih]; rfl

/-- generalised form: what `data` holds for `i` after a run -/
theorem lookup_run :
    ∀ (ops : List (Op β)) (s : State β) (i : Nat), Inv s → ValidOps s ops →
      lookup i (run s ops).data = lastToldFrom (lookup i s.data) ops i := by
  intro ops
  induction ops with
  | nil => intro s i _ _; rfl
  | cons op ops ih =>
    intro s i h hv
    simp only [run, lastToldFrom, List.foldl_cons]
    have := ih (step s op) i (inv_step h op hv.1) hv.2
    simp only [run, lastToldFrom] at this
    rw [this]
    congr 1
    cases op with
    | ask n c => simp [step, data_ask]
    | removeUnfinished => simp [step, removeUnfinished]
    | tellPending j => simp [step, tellPending]
    | tell j v =>
      simp only [step, tell]
      by_cases hji : j = i
      · subst hji; simp [lookup_dinsert_self h.data_sorted]
      · simp [hji, lookup_dinsert_other (Ne.symm hji)]


end Seq
