import AdaptiveProofs.Lemmas.IntegReach
/-!
C07 (deepening): the PATH formulation of a cut — every way down from the interval to a childless interval meets the cut
exactly once — from the recursive formulation `IsCut`, on well-formed forests.
-/
set_option linter.unusedSectionVars false
set_option linter.unusedSimpArgs false
set_option linter.unusedVariables false
namespace Integ
namespace Cut
open Safe
variable {α : Type} [OfNat α 0] [DecidableEq α] [Div α] [OfNat α 2] [LT α] [DecidableLT α] [Sub α] [Mul α] [Add α] [Neg α]

/-- a way down from `i`, child by child, to a childless interval -/
inductive DownPath (F : Forest α) : Nat → List Nat → Prop
  | stop (i : Nat) : (getI F i).children = [] → DownPath F i [i]
  | down (i c : Nat) (r : List Nat) : c ∈ (getI F i).children → DownPath F c r → DownPath F i (i :: r)

theorem isCut_anc {F : Forest α} (hW : WF F) {i : Nat} {S : List Nat} (h : IsCut F i S) :
    ∀ x ∈ S, Anc (view F) i x := by
  induction h with
  | leaf i => intro x hx; rw [List.mem_singleton.mp hx]; exact Anc.refl i
  | node i S T hc hT hS ih =>
    intro x hx
    obtain ⟨c, hcm, hxc⟩ := List.mem_flatMap.mp (hS.mem_iff.mp hx)
    exact anc_trans (anc_child (view_wf hW) hcm) (ih c hcm x hxc)

theorem downPath_anc {F : Forest α} (hW : WF F) {i : Nat} {p : List Nat} (h : DownPath F i p) :
    ∀ x ∈ p, Anc (view F) i x := by
  induction h with
  | stop i _ => intro x hx; rw [List.mem_singleton.mp hx]; exact Anc.refl i
  | down i c r hc _ ih =>
    intro x hx
    rcases List.mem_cons.mp hx with e | hx
    · rw [e]; exact Anc.refl i
    · exact anc_trans (anc_child (view_wf hW) hc) (ih x hx)

/-- every way down from `i` to a childless interval meets a cut of the subtree of `i` exactly once -/
theorem isCut_path {F : Forest α} (hW : WF F) {i : Nat} {S : List Nat} (h : IsCut F i S) :
    ∀ p, DownPath F i p → p.countP (fun x => decide (x ∈ S)) = 1 := by
  have hWv := view_wf hW
  induction h with
  | leaf i =>
    intro p hp
    cases hp with
    | stop _ _ => simp
    | down _ c r hc hr =>
      have : r.countP (fun x => decide (x ∈ [i])) = 0 := by
        rw [List.countP_eq_zero]
        intro x hx
        have := anc_le hWv (downPath_anc hW hr x hx)
        have := (hW.child i c hc).1
        simp only [List.mem_singleton, decide_eq_true_eq]
        omega
      rw [List.countP_cons, this]
      simp
  | node i S T hc hT hS ih =>
    intro p hp
    cases hp with
    | stop _ h0 => exact absurd h0 hc
    | down _ c r hcm hr =>
      have hiS : i ∉ S := by
        intro hi
        obtain ⟨c', hc', hx⟩ := List.mem_flatMap.mp (hS.mem_iff.mp hi)
        have := anc_le hWv (isCut_anc hW (hT c' hc') i hx)
        have := (hW.child i c' hc').1
        omega
      have hcongr : r.countP (fun x => decide (x ∈ S)) = r.countP (fun x => decide (x ∈ T c)) := by
        apply List.countP_congr
        intro y hy
        simp only [decide_eq_true_eq]
        constructor
        · intro hyS
          obtain ⟨c', hc', hx⟩ := List.mem_flatMap.mp (hS.mem_iff.mp hyS)
          have e := sib_anc_eq hWv hc' hcm (isCut_anc hW (hT c' hc') y hx) (downPath_anc hW hr y hy)
          rw [← e]; exact hx
        · intro hyT
          exact hS.mem_iff.mpr (List.mem_flatMap.mpr ⟨c, hcm, hyT⟩)
      rw [List.countP_cons, hcongr, ih c hcm r hr]
      simp [hiS]

end Cut
end Integ
