import Mathlib.Algebra.Ring.Defs
import AdaptiveModel.Tri

/-! Definitions used by `Props/C03.lean`: signed volumes (determinant form, as `Triangulation.volume` up to the
`1/dim!` prefactor and the absolute value) and the concrete states of the non-vacuity examples. -/
namespace Tri

/-- twice the signed area of the triangle `a b c` -/
def area2 {α : Type} [CommRing α] (a b c : α × α) : α :=
  (b.1 - a.1) * (c.2 - a.2) - (b.2 - a.2) * (c.1 - a.1)

/-- six times the signed volume of the tetrahedron `a b c e` -/
def vol6 {α : Type} [CommRing α] (a b c e : α × α × α) : α :=
  (b.1 - a.1) * ((c.2.1 - a.2.1) * (e.2.2 - a.2.2) - (c.2.2 - a.2.2) * (e.2.1 - a.2.1))
  - (b.2.1 - a.2.1) * ((c.1 - a.1) * (e.2.2 - a.2.2) - (c.2.2 - a.2.2) * (e.1 - a.1))
  + (b.2.2 - a.2.2) * ((c.1 - a.1) * (e.2.1 - a.2.1) - (c.2.1 - a.2.1) * (e.1 - a.1))

/-- one triangle -/
def exS0 : State := ⟨2, 3, [[0, 1, 2]], [[[0, 1, 2]], [[0, 1, 2]], [[0, 1, 2]]]⟩
/-- interior insertion (no hint): located in the triangle, all three hole faces get a new triangle -/
def exO1 : Oracle :=
  { locate := some [0, 1, 2], reduced := some [0, 1, 2],
    flat := [([0, 1, 3], false), ([0, 2, 3], false), ([1, 2, 3], false)], circ := [([0, 1, 2], true)] }
/-- exterior insertion (no hint): the new point sees face `[1,2]` only -/
def exO2 : Oracle :=
  { locate := some [], orient := [([0, 1], 1, 1), ([0, 2], -1, -1), ([1, 2], 1, -1)],
    flat := [([1, 2, 3], false), ([1, 2, 3], false)], circ := [([1, 2, 3], true), ([0, 1, 2], false)] }

end Tri
