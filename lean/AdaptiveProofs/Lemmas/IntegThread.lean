import AdaptiveProofs.Lemmas.IntegFrame
/-!
C07 (deepening): GENERIC THREADING of a forest invariant through every operation of the model.
A predicate `RF` on forests that (1) only depends on the structural part (`Sk`), (2) is preserved by the done-leaves
propagation `propagateDone` and (3) by `split` of a childless interval of the forest, holds in every reachable state.
-/
set_option linter.unusedSectionVars false
namespace Integ
namespace Cut
open Safe
variable {α : Type} [OfNat α 0] [DecidableEq α] [Div α] [OfNat α 2] [LT α] [DecidableLT α] [Sub α] [Mul α] [Add α] [Neg α]

/-- the child `[a, b]` made by `split` of interval `i` -/
def mkChild (I : Ival α) (i : Nat) (a b : α) : Ival α :=
  { a := a, b := b, depth := 0, rdepth := I.rdepth + 1, ndiv := I.ndiv, parent := some i,
    err := half I.err, igral := 0 }

/-- `split` on the forest: `i` gets the children `len`, `len + 1`, appended with the midpoint `m` -/
def splitF (F : Forest α) (i : Nat) (m : α) : Forest α :=
  modAt F i (fun I => { I with children := [F.length, F.length + 1] }) ++
    [mkChild (getI F i) i (getI F i).a m, mkChild (getI F i) i m (getI F i).b]

theorem split_F (s : St α) (i : Nat) (pts : List α) :
    (split s i pts).1.F = splitF s.F i (pts.getD (pts.length / 2) 0) := rfl
theorem split_ivals (s : St α) (i : Nat) (pts : List α) : (split s i pts).1.ivals = s.ivals := rfl
theorem split_l (s : St α) (i : Nat) (pts : List α) : (split s i pts).2.1 = s.F.length := rfl
theorem split_r (s : St α) (i : Nat) (pts : List α) : (split s i pts).2.2 = s.F.length + 1 := rfl

theorem splitF_length (F : Forest α) (i : Nat) (m : α) : (splitF F i m).length = F.length + 2 := by
  simp [splitF, modAt_length]

/-- what a forest invariant must satisfy to hold in every reachable state -/
structure Pres (RF : Forest α → Prop) : Prop where
  frame : ∀ {F F' : Forest α}, Sk F F' → RF F → RF F'
  prop : ∀ (F : Forest α) (i : Nat), RF F → RF (propagateDone F i)
  split : ∀ (F : Forest α) (i : Nat) (m : α), RF F → i < F.length → (getI F i).children = [] → RF (splitF F i m)

/-- state invariant: the forest invariant, and live intervals are intervals of the forest -/
def SInv (RF : Forest α → Prop) (s : St α) : Prop := RF s.F ∧ ∀ i ∈ s.ivals, i < s.F.length

/-- invariant kept, forest not shorter than `n` -/
def Keep (RF : Forest α → Prop) (n : Nat) (s : St α) : Prop := SInv RF s ∧ n ≤ s.F.length

theorem Keep.mono {RF : Forest α → Prop} {n m : Nat} {s : St α} (h : Keep RF n s) (hm : m ≤ n) : Keep RF m s :=
  ⟨h.1, Nat.le_trans hm h.2⟩

/-! ### lengths -/
theorem walkStep_length (F : Forest α) (p : Nat) (old : List Nat) (F' : Forest α) (old' : List Nat)
    (h : walkStep F p old = some (F', old')) : F'.length = F.length := by
  simp only [walkStep] at h
  split at h
  · simp only [Option.some.injEq, Prod.mk.injEq] at h
    rw [← h.1, modAt_length]
    refine foldl_inv (fun (r : List Nat × Forest α) => r.2.length = F.length) _ ?_ _ _ rfl
    intro r c hr
    split
    · exact hr
    · simp only [modAt_length]; exact hr
  · cases h

theorem walkUp_length : ∀ (fuel : Nat) (F : Forest α) (p : Option Nat) (old : List Nat),
    (walkUp fuel F p old).length = F.length
  | 0, F, _, _ => by simp only [walkUp]
  | fuel + 1, F, none, _ => by simp only [walkUp]
  | fuel + 1, F, some p, old => by
    simp only [walkUp]
    split
    · rfl
    · rename_i F' old' h
      rw [walkUp_length fuel F' _ old', walkStep_length F p old F' old' h]

theorem propagateDone_length (F : Forest α) (i : Nat) : (propagateDone F i).length = F.length := by
  simp only [propagateDone]
  split
  · rw [walkUp_length, modAt_length]
  · rfl

/-! ### `completeProcess` -/
theorem cp_keep {RF : Forest α → Prop} (hP : Pres RF) (O : Oracle α) (P : Params α) (F : Forest α) (i d : Nat)
    (h : RF F) : RF (completeProcess O P F i d).F ∧ (completeProcess O P F i d).F.length = F.length := by
  rw [completeProcess_eq]
  split
  · exact ⟨h, rfl⟩
  · split
    · exact ⟨hP.frame (modAt_sk _ _ _ (fun I => rfl)) h, modAt_length _ _ _⟩
    · have h1 : Sk F (modAt (modAt F i (fun I => { I with depthComplete := some d })) i
          (fun I => { I with igral := (O.cp i d).igral })) :=
        (modAt_sk F i (fun I => { I with depthComplete := some d }) (fun I => rfl)).trans
          (modAt_sk _ i (fun I => { I with igral := (O.cp i d).igral }) (fun I => rfl))
      have h2 := h1.trans (cpR_sk P (O.cp i d) _ i d (getI F i).parent)
      generalize cpR P (O.cp i d) _ i d (getI F i).parent = r at h2
      rcases r with ⟨G, _ | e, fs⟩
      · simp only [cpFin]
        exact ⟨hP.prop _ _ (hP.frame h2 h), by rw [propagateDone_length]; exact h2.1⟩
      · simp only [cpFin]
        exact ⟨hP.frame h2 h, h2.1⟩

/-! ### the learner -/
theorem depthStep_keep {RF : Forest α → Prop} (hP : Pres RF) (O : Oracle α) (P : Params α) (i : Nat) (s : St α) (d : Nat)
    (h : SInv RF s) : Keep RF s.F.length (depthStep O P i s d).1 := by
  unfold depthStep
  split
  · obtain ⟨c1, c2⟩ := cp_keep hP O P s.F i d h.1
    generalize completeProcess O P s.F i d = r at c1 c2
    rcases r with ⟨rF, rerr, rfs, rrm⟩
    simp only at c1 c2 ⊢
    have hiv : ∀ j ∈ s.ivals, j < rF.length := fun j hj => c2 ▸ h.2 j hj
    cases rerr with
    | some e => exact ⟨⟨c1, hiv⟩, Nat.le_of_eq c2.symm⟩
    | none =>
      simp only
      split
      · have hs := removeDown_sk rF.length rF i
        refine ⟨⟨hP.frame hs c1, ?_⟩, by simp only [hs.1]; exact Nat.le_of_eq c2.symm⟩
        intro j hj
        simp only [hs.1]
        exact hiv j (List.mem_filter.mp hj).1
      · split
        · exact ⟨⟨c1, hiv⟩, Nat.le_of_eq c2.symm⟩
        · exact ⟨⟨c1, hiv⟩, Nat.le_of_eq c2.symm⟩
  · exact ⟨h, Nat.le_refl _⟩

theorem forEach_keep {RF : Forest α → Prop} {β : Type} (f : St α → β → St α × Option Err)
    (hf : ∀ s x, SInv RF s → Keep RF s.F.length (f s x).1) (l : List β) (s : St α) (h : SInv RF s) :
    Keep RF s.F.length (forEach f l s).1 :=
  (forEach_inv (fun s' => Keep RF s.F.length s') (fun _ => True) trivial f
    (fun s' x h' => ⟨⟨(hf s' x h'.1).1, Nat.le_trans h'.2 (hf s' x h'.1).2⟩, trivial⟩) l s ⟨h, Nat.le_refl _⟩).1

theorem tellIval_keep {RF : Forest α → Prop} (hP : Pres RF) (O : Oracle α) (P : Params α) (x : α) (s : St α) (i : Nat)
    (h : SInv RF s) : Keep RF s.F.length (tellIval O P x s i).1 := by
  have hs : Sk s.F (modAt s.F i (fun I => { I with data := sadd x I.data })) := modAt_sk _ _ _ (fun I => rfl)
  have h1 : SInv RF { s with F := modAt s.F i (fun I => { I with data := sadd x I.data }) } :=
    ⟨hP.frame hs h.1, fun j hj => by simp only [hs.1]; exact h.2 j hj⟩
  have := forEach_keep (RF := RF) (depthStep O P i) (fun s' d h' => depthStep_keep hP O P i s' d h')
    (List.range' (match (getI (modAt s.F i (fun I => { I with data := sadd x I.data })) i).depthComplete with
      | none => if (getI (modAt s.F i (fun I => { I with data := sadd x I.data })) i).parent.isSome then 0 else 2
      | some d => d + 1)
      ((getI (modAt s.F i (fun I => { I with data := sadd x I.data })) i).depth + 1 -
        (match (getI (modAt s.F i (fun I => { I with data := sadd x I.data })) i).depthComplete with
      | none => if (getI (modAt s.F i (fun I => { I with data := sadd x I.data })) i).parent.isSome then 0 else 2
      | some d => d + 1))) _ h1
  simp only [hs.1] at this
  exact this

theorem tell_keep {RF : Forest α → Prop} (hP : Pres RF) (O : Oracle α) (P : Params α) (s : St α) (x : α)
    (h : SInv RF s) : Keep RF s.F.length (tell O P s x).1 := by
  unfold tell
  split
  · exact ⟨h, Nat.le_refl _⟩
  · exact forEach_keep (RF := RF) (tellIval O P x) (fun s' i h' => tellIval_keep hP O P x s' i h') _
      { s with data := sadd x s.data, pending := s.pending.filter (fun y => y ≠ x) } h

theorem addPoint_keep {RF : Forest α → Prop} (hP : Pres RF) (O : Oracle α) (P : Params α) (i : Nat) (s : St α) (x : α)
    (h : SInv RF s) : Keep RF s.F.length (addPoint O P i s x).1 := by
  unfold addPoint
  simp only
  split
  · exact tell_keep hP O P { s with xmap := xmapAdd s.F x i s.xmap } x h
  · split
    · exact ⟨h, Nat.le_refl _⟩
    · exact ⟨h, Nat.le_refl _⟩

theorem addIval_keep {RF : Forest α → Prop} (hP : Pres RF) (O : Oracle α) (P : Params α) (s : St α) (i : Nat)
    (h : SInv RF s) (hi : i < s.F.length) : Keep RF s.F.length (addIval O P s i).1 := by
  unfold addIval
  have key := forEach_keep (RF := RF) (addPoint O P i) (fun s' x h' => addPoint_keep hP O P i s' x h')
    (O.pts (getI s.F i).a (getI s.F i).b (getI s.F i).depth) s h
  simp only
  split
  · rename_i s' e heq; rw [heq] at key; exact key
  · rename_i s' heq; rw [heq] at key
    refine ⟨⟨key.1.1, fun j hj => ?_⟩, key.2⟩
    rcases mem_sadd hj with e | hj
    · rw [e]; exact Nat.lt_of_lt_of_le hi key.2
    · exact key.1.2 j hj

theorem fsR_keep {RF : Forest α → Prop} (hP : Pres RF) (O : Oracle α) (P : Params α) (s : St α) (i : Nat) (force : Bool)
    (h : SInv RF s) (hi : i ∈ s.ivals) (hc : (getI s.F i).children = []) :
    Keep RF s.F.length (fsR O P s i force).1 := by
  have hrem : removeIval s i = ({ s with ivals := s.ivals.filter (fun j => j ≠ i) }, none) := by
    simp only [removeIval, hi, if_true]
  have h2 : SInv RF { s with ivals := s.ivals.filter (fun j => j ≠ i) } :=
    ⟨h.1, fun j hj => h.2 j (List.mem_filter.mp hj).1⟩
  unfold fsR
  simp only
  split
  · rw [hrem]; exact ⟨h2, Nat.le_refl _⟩
  · split
    · rw [hrem]
      simp only
      have b1 : SInv RF (split ({ s with ivals := s.ivals.filter (fun j => j ≠ i) } : St α) i
          (O.pts (getI s.F i).a (getI s.F i).b (getI s.F i).depth)).1 := by
        refine ⟨?_, ?_⟩
        · rw [split_F]; exact hP.split _ _ _ h.1 (h.2 i hi) hc
        · intro j hj
          rw [split_F, splitF_length]
          rw [split_ivals] at hj
          exact Nat.lt_of_lt_of_le (h2.2 j hj) (Nat.le_add_right _ _)
      have bl := split_l ({ s with ivals := s.ivals.filter (fun j => j ≠ i) } : St α) i
          (O.pts (getI s.F i).a (getI s.F i).b (getI s.F i).depth)
      have br := split_r ({ s with ivals := s.ivals.filter (fun j => j ≠ i) } : St α) i
          (O.pts (getI s.F i).a (getI s.F i).b (getI s.F i).depth)
      have blen : (split ({ s with ivals := s.ivals.filter (fun j => j ≠ i) } : St α) i
          (O.pts (getI s.F i).a (getI s.F i).b (getI s.F i).depth)).1.F.length = s.F.length + 2 := by
        rw [split_F, splitF_length]
      rcases hsp : split ({ s with ivals := s.ivals.filter (fun j => j ≠ i) } : St α) i
        (O.pts (getI s.F i).a (getI s.F i).b (getI s.F i).depth) with ⟨s3, l, r⟩
      rw [hsp] at b1 bl br blen
      simp only at b1 bl br blen ⊢
      have c := addIval_keep hP O P s3 l b1 (by omega)
      rcases had : addIval O P s3 l with ⟨s4, _ | e⟩
      · rw [had] at c
        simp only at c ⊢
        have c2 := addIval_keep hP O P s4 r c.1 (by have := c.2; omega)
        exact ⟨c2.1, by have := c.2; have := c2.2; omega⟩
      · rw [had] at c
        simp only at c ⊢
        exact ⟨c.1, by have := c.2; omega⟩
    · have hs : Sk s.F (modAt s.F i (fun I => { I with depth := I.depth + 1 })) := modAt_sk _ _ _ (fun I => rfl)
      have h3 : SInv RF { s with F := modAt s.F i (fun I => { I with depth := I.depth + 1 }) } :=
        ⟨hP.frame hs h.1, fun j hj => by simp only [hs.1]; exact h.2 j hj⟩
      have c := addIval_keep hP O P _ i h3 (by simp only [hs.1]; exact h.2 i hi)
      simp only [hs.1] at c
      exact c

theorem fsFin_keep {RF : Forest α → Prop} (P : Params α) (n : Nat) (r : St α × Option Err) (h : Keep RF n r.1) :
    Keep RF n (fsFin P r).1 := by
  rcases r with ⟨s, _ | e⟩
  · simp only [fsFin]
    split
    · split
      · exact ⟨⟨h.1.1, fun j hj => h.1.2 j (List.mem_filter.mp hj).1⟩, h.2⟩
      · exact h
    · exact h
  · exact h

theorem fsBody_keep {RF : Forest α → Prop} (hP : Pres RF) (O : Oracle α) (P : Params α) (s : St α) (i : Nat) (force : Bool)
    (h : SInv RF s) (hi : i ∈ s.ivals) : Keep RF s.F.length (fsBody O P s i force).1 := by
  unfold fsBody
  split
  · exact ⟨h, Nat.le_refl _⟩
  · rename_i hc
    have hc' : (getI s.F i).children = [] := by
      cases hch : (getI s.F i).children with
      | nil => rfl
      | cons a r => simp [hch] at hc
    exact fsFin_keep P _ _ (fsR_keep hP O P s i force h hi hc')

theorem fillStack_keep {RF : Forest α → Prop} (hP : Pres RF) (O : Oracle α) (P : Params α) (s : St α) (h : SInv RF s) :
    Keep RF s.F.length (fillStack O P s).1 := by
  rw [fillStack_eq]
  have hpick : ∀ i pr, fsPick { s with prio := dropDead s.ivals s.prio } = (some i, pr) → i ∈ s.ivals := by
    intro i pr h
    simp only [fsPick] at h
    split at h
    · simp only [Prod.mk.injEq] at h
      exact dropDead_last _ _ _ h.1
    · simp only [Prod.mk.injEq] at h
      exact argmax_mem _ _ _ h.1
  split
  · exact ⟨h, Nat.le_refl _⟩
  · rename_i i pr heq
    exact fsBody_keep hP O P { s with prio := pr } i _ h (hpick i pr heq)

theorem askLoop_keep {RF : Forest α → Prop} (hP : Pres RF) (O : Oracle α) (P : Params α) :
    ∀ (fuel : Nat) (s : St α) (nLeft : Nat) (pts imps : List α), SInv RF s →
      SInv RF (askLoop O P fuel s nLeft pts imps).1
  | 0, s, nLeft, pts, imps, h => by simp only [askLoop]; exact h
  | fuel + 1, s, nLeft, pts, imps, h => by
    simp only [askLoop]
    split
    · exact h
    · have key := (fillStack_keep hP O P s h).1
      split
      · rename_i heq; rw [heq] at key; exact key
      · rename_i heq; rw [heq] at key; exact key
      · rename_i heq; rw [heq] at key; exact key
      · rename_i heq; rw [heq] at key
        simp only [popFromStack]
        exact askLoop_keep hP O P fuel _ _ _ _ key

theorem askCommit_keep {RF : Forest α → Prop} (hP : Pres RF) (O : Oracle α) (P : Params α) (fuel : Nat) (s : St α) (n : Nat)
    (h : SInv RF s) : SInv RF (askCommit O P fuel s n).1 := by
  simp only [askCommit, popFromStack]
  exact askLoop_keep hP O P fuel _ _ _ _ h

theorem ask_keep {RF : Forest α → Prop} (hP : Pres RF) (O : Oracle α) (P : Params α) (fuel : Nat) (s : St α) (n : Nat) (c : Bool)
    (h : SInv RF s) : SInv RF (ask O P fuel s n c).1 := by
  have key := askCommit_keep hP O P fuel s n h
  unfold ask
  split
  · rename_i heq; rw [heq] at key
    split
    · exact key
    · exact h
  · rename_i heq; rw [heq] at key
    split
    · exact key
    · exact h

theorem reorder_keep {RF : Forest α → Prop} (s : St α) (x : α) (ids : List Nat) (h : SInv RF s) :
    SInv RF (reorder s x ids) := by
  unfold reorder
  split
  · exact h
  · split
    · exact h
    · exact h

theorem step_keep {RF : Forest α → Prop} (hP : Pres RF) (O : Oracle α) (P : Params α) (s : St α) (op : Op α)
    (h : SInv RF s) : SInv RF (step O P s op) := by
  cases op with
  | tell x => exact (tell_keep hP O P s x h).1
  | ask fuel n c => exact ask_keep hP O P fuel s n c h
  | reorder x ids => exact reorder_keep s x ids h

theorem run_keep {RF : Forest α → Prop} (hP : Pres RF) (O : Oracle α) (P : Params α) :
    ∀ (ops : List (Op α)) (s : St α), SInv RF s → SInv RF (run O P s ops)
  | [], _, h => h
  | op :: ops, s, h => run_keep hP O P ops _ (step_keep hP O P s op h)

/-- the root interval alone -/
def rootF (a b e : α) : Forest α := [{ a := a, b := b, depth := 2, rdepth := 1, err := e, igral := 0 }]

theorem start_keep {RF : Forest α → Prop} (hP : Pres RF) (O : Oracle α) (P : Params α) (a b e : α)
    (h0 : RF (rootF a b e)) : SInv RF (start O P a b e) := by
  have h1 : SInv RF ({ F := rootF a b e } : St α) := ⟨h0, fun i hi => by cases hi⟩
  exact (addIval_keep hP O P _ 0 h1 (by simp [rootF])).1

/-- a forest invariant with `Pres` that holds of the root alone holds in every reachable state -/
theorem reach_keep {RF : Forest α → Prop} (hP : Pres RF) (O : Oracle α) (P : Params α) (a b e : α)
    (h0 : RF (rootF a b e)) (ops : List (Op α)) : SInv RF (run O P (start O P a b e) ops) :=
  run_keep hP O P ops _ (start_keep hP O P a b e h0)

end Cut
end Integ
