import AdaptiveProofs.Lemmas.TriAddPoint

/-! `add_point` of the Triangulation model: index invariant, exact report, rejections leave the state unchanged. -/
namespace Tri

/-- a hint a caller may pass: nothing, the empty tuple, or a simplex of the triangulation -/
def ValidHint (s : State) (hint : Option Simplex) : Prop :=
  ∀ h, hint = some h → h = [] ∨ h ∈ s.simplices

/-- the set algebra behind `deleted - temporary`, `added | (temporary - deleted)`, per simplex `u`
(`nu`: the new vertex belongs to `u`) -/
theorem report_algebra {S T S2 bad S3 del add D A nu : Prop}
    (F1 : S → ¬nu) (h2 : S2 ↔ S ∨ T) (hT : T → nu) (b1 : bad → S2) (b2 : S2 → ¬bad → S3)
    (b3 : S3 → (S2 ∧ ¬bad) ∨ nu) (b4 : del ↔ bad ∧ ¬(S3 ∧ nu)) (b5 : add ↔ (S3 ∧ nu) ∧ ¬bad)
    (hD : D ↔ del ∧ ¬T) (hA : A ↔ add ∨ (T ∧ ¬del)) :
    (D → S) ∧ (A → ¬S) ∧ (S3 ↔ (S ∧ ¬D) ∨ A) := by
  refine ⟨?_, ?_, ?_⟩
  · intro hd
    obtain ⟨hdel, hnT⟩ := hD.mp hd
    rcases h2.mp (b1 (b4.mp hdel).1) with h | h
    · exact h
    · exact absurd h hnT
  · intro ha hs
    rcases hA.mp ha with h | ⟨h, _⟩
    · exact F1 hs (b5.mp h).1.2
    · exact F1 hs (hT h)
  · constructor
    · intro h3
      by_cases hn : nu
      · by_cases hb : bad
        · have hT' : T := by
            rcases h2.mp (b1 hb) with h | h
            · exact absurd hn (F1 h)
            · exact h
          have hnd : ¬del := fun hd => (b4.mp hd).2 ⟨h3, hn⟩
          exact Or.inr (hA.mpr (Or.inr ⟨hT', hnd⟩))
        · exact Or.inr (hA.mpr (Or.inl (b5.mpr ⟨⟨h3, hn⟩, hb⟩)))
      · rcases b3 h3 with ⟨hs2, hb⟩ | h
        · have hS : S := by
            rcases h2.mp hs2 with h | h
            · exact h
            · exact absurd (hT h) hn
          exact Or.inl ⟨hS, fun hd => hb (b4.mp (hD.mp hd).1).1⟩
        · exact absurd h hn
    · rintro (⟨hS, hnD⟩ | ha)
      · have hn : ¬nu := F1 hS
        have hs2 : S2 := h2.mpr (Or.inl hS)
        by_cases hb : bad
        · exfalso
          exact hnD (hD.mpr ⟨b4.mpr ⟨hb, fun h => hn h.2⟩, fun hT' => hn (hT hT')⟩)
        · exact b2 hs2 hb
      · rcases hA.mp ha with h | ⟨hT', hnd⟩
        · exact (b5.mp h).1.1
        · have hs2 : S2 := h2.mpr (Or.inr hT')
          by_cases hb : bad
          · by_contra h3
            exact hnd (b4.mpr ⟨hb, fun h => h3 h.1⟩)
          · exact b2 hs2 hb

theorem addPoint_resolve {s : State} {hint : Option Simplex} {o : Oracle} {simplex : Simplex} (hv : ValidHint s hint)
    (h : (match hint with
      | some h => if o.locate = none then (Except.ok h : Except Err Simplex)
                  else .error (.diverged "add_point: locate_point called although a simplex was given")
      | none => match o.locate with
        | none => .error (.diverged "add_point: no recorded locate_point call")
        | some l => if l = [] ∨ l ∈ s.simplices then .ok l
                    else .error (.diverged "add_point: locate_point returned something that is not a simplex")) = .ok simplex) :
    simplex = [] ∨ simplex ∈ s.simplices := by
  cases hint with
  | some h' =>
    simp only at h
    split at h
    · cases h; exact hv _ rfl
    · cases h
  | none =>
    simp only at h
    split at h
    · cases h
    · split at h
      · rename_i hl; cases h; exact hl
      · cases h

theorem addPoint_spec {s s' : State} {hint : Option Simplex} {o : Oracle} {D A : List Simplex}
    (hI : Inv s) (hv : ValidHint s hint) (hok : addPoint s hint o = .ok (s', D, A)) :
    Inv s' ∧ s'.dim = s.dim ∧ s'.nVerts = s.nVerts + 1 ∧
      (∀ u ∈ D, u ∈ s.simplices) ∧ (∀ u ∈ A, u ∉ s.simplices) ∧
      (∀ u, u ∈ s'.simplices ↔ ((u ∈ s.simplices ∧ u ∉ D) ∨ u ∈ A)) := by
  have F1 : ∀ u, u ∈ s.simplices → s.nVerts ∉ u := fun u hu hn =>
    absurd ((hI.valid u hu).2.2 _ hn) (Nat.lt_irrefl _)
  unfold addPoint at hok
  simp only at hok
  split at hok
  · cases hok
  · rename_i simplex hres
    have hsx := addPoint_resolve hv hres
    split at hok
    · -- hull extension
      split at hok
      · cases hok
      · split at hok
        · cases hok
        · rename_i s2 temp fl hext
          obtain ⟨hI2, hd2, hn2, hS2, hT⟩ := (extendHull_spec hI).1 s2 temp fl hext
          split at hok
          · cases hok
          · rename_i s3 del add fl' hbw
            split at hok
            · cases hok
            · simp only [Except.ok.injEq, Prod.mk.injEq] at hok
              obtain ⟨rfl, rfl, rfl⟩ := hok
              have hpt : s2.nVerts = (s2.nVerts - 1) + 1 := by omega
              have hpt' : s2.nVerts - 1 = s.nVerts := by omega
              obtain ⟨hI3, hd3, hn3, bad, b1, b2, b3, b4, b5⟩ :=
                bowyerWatson_spec hI2 hpt (fun c hc => by cases hc) hbw
              rw [hpt'] at b3 b4 b5
              have key : ∀ u, (u ∈ setDiff del temp → u ∈ s.simplices) ∧
                  (u ∈ setUnion add (setDiff temp del) → u ∉ s.simplices) ∧
                  (u ∈ s3.simplices ↔ ((u ∈ s.simplices ∧ u ∉ setDiff del temp) ∨ u ∈ setUnion add (setDiff temp del))) :=
                fun u => report_algebra (F1 u) (hS2 u) (hT u) (b1 u) (b2 u) (b3 u) (b4 u) (b5 u)
                  mem_setDiff (by rw [mem_setUnion, mem_setDiff])
              exact ⟨hI3, hd3.trans hd2, hn3.trans hn2, fun u hu => (key u).1 hu, fun u hu => (key u).2.1 hu,
                fun u => (key u).2.2⟩
    · -- interior path
      rename_i hne
      have hsS : simplex ∈ s.simplices := by
        rcases hsx with h | h
        · exact absurd h hne
        · exact h
      split at hok
      · cases hok
      · rename_i red _
        split at hok
        · cases hok
        · split at hok
          · split at hok <;> cases hok
          · split at hok
            · split at hok <;> cases hok
            · split at hok
              · cases hok
              · rename_i s3 del add fl' hbw
                split at hok
                · cases hok
                · simp only [Except.ok.injEq, Prod.mk.injEq] at hok
                  obtain ⟨rfl, rfl, rfl⟩ := hok
                  have hpush := inv_push hI
                  obtain ⟨hI3, hd3, hn3, bad, b1, b2, b3, b4, b5⟩ :=
                    bowyerWatson_spec (s := { s with vts := s.vts ++ [[]], nVerts := s.nVerts + 1 }) hpush rfl
                      (fun c hc => by cases hc; exact hsS) hbw
                  have key : ∀ u, (u ∈ del → u ∈ s.simplices) ∧ (u ∈ add → u ∉ s.simplices) ∧
                      (u ∈ s3.simplices ↔ ((u ∈ s.simplices ∧ u ∉ del) ∨ u ∈ add)) :=
                    fun u => report_algebra (T := False) (F1 u) (by simp) (fun h => h.elim) (b1 u) (b2 u) (b3 u)
                      (b4 u) (b5 u) (by simp) (by simp)
                  exact ⟨hI3, hd3, hn3, fun u hu => (key u).1 hu, fun u hu => (key u).2.1 hu, fun u => (key u).2.2⟩

theorem addPoint_reject {s s' : State} {hint : Option Simplex} {o : Oracle} {w : Reject}
    (hI : Inv s) (hok : addPoint s hint o = .error (.reject w s')) : s' = s := by
  unfold addPoint at hok
  simp only at hok
  split at hok
  · rename_i e he
    cases hok
    cases hint with
    | some h' =>
      simp only at he
      split at he <;> cases he
    | none =>
      simp only at he
      split at he
      · cases he
      · split at he <;> cases he
  · split at hok
    · split at hok
      · cases hok
      · split at hok
        · rename_i e he
          cases hok
          exact (extendHull_spec hI).2 w s' he
        · split at hok
          · rename_i e he
            cases hok
            exact absurd he (bowyerWatson_noReject _ _ _ _ _ _ _)
          · split at hok <;> cases hok
    · split at hok
      · cases hok
      · split at hok
        · cases hok
        · split at hok
          · split at hok
            · cases hok
            · simp only [Except.error.injEq, Err.reject.injEq] at hok
              obtain ⟨_, rfl⟩ := hok
              simp
          · split at hok
            · split at hok
              · cases hok
              · simp only [Except.error.injEq, Err.reject.injEq] at hok
                obtain ⟨_, rfl⟩ := hok
                simp
            · split at hok
              · rename_i e he
                cases hok
                exact absurd he (bowyerWatson_noReject _ _ _ _ _ _ _)
              · split at hok <;> cases hok

end Tri
