import AdaptiveProofs.Lemmas.L1DScale

/-!
# Learner1D model: the output bounding box covers the data

`YInv d s`: the stored output bounding box has exactly `d` components, is ordered, bounds every
stored value componentwise, and `scaleY` is its largest extent.  Consequence (`ConstAtZero`): when
`scaleY = 0` all stored values coincide.

The invariant is preserved by every operation whose told values have `d` components, provided
`tell_many` is never called with an empty batch (`OpY`): the batch path called with no points on a
learner without data stores the EMPTY box `some ([], [])`, after which `minL [] y = []` keeps it
empty forever and `scaleY` stays `0` while the data vary.

All statements are for arbitrary `lossFn`, `r12`, over an arbitrary linearly ordered field.
-/
set_option linter.unusedSectionVars false
namespace L1D
variable {α : Type} [Field α] [LinearOrder α] [IsStrictOrderedRing α]

variable (lossFn : List (Option α) → List (Option (List α)) → Loss α) (r12 : α → α)

/-- when the output scale is 0, all stored values are equal -/
def ConstAtZero (s : State α) : Prop :=
  s.scaleY = 0 → ∀ kv ∈ s.data, ∀ kv' ∈ s.data, kv.2 = kv'.2

/-- every told value has `d` components, and a `tellMany` is never called with an empty batch -/
def OpY (d : Nat) (op : Op α) : Prop :=
  OpDim d op ∧ ∀ pts f, op = Op.tellMany pts f → pts ≠ []

/-- the output bounding box is ordered with `scaleY` its largest extent (`BoxOK`), all stored
values have `d` components, there is a box as soon as there are data, and the box has exactly `d`
components and bounds every stored value componentwise -/
structure YInv (d : Nat) (s : State α) : Prop where
  box : BoxOK s
  vdim : VDim d s
  none_empty : s.bboxY = none → s.data = []
  cover : ∀ mn mx, s.bboxY = some (mn, mx) → mn.length = d ∧ mx.length = d ∧
    ∀ kv ∈ s.data, List.Forall₂ (· ≤ ·) mn kv.2 ∧ List.Forall₂ (· ≤ ·) kv.2 mx

/-! ### `maxOf` bounds every element -/

theorem le_foldl_max (l : List α) (m : α) :
    ∀ x ∈ l, x ≤ l.foldl (fun m x => if m < x then x else m) m := by
  induction l generalizing m with
  | nil => intro x hx; simp at hx
  | cons a r ih =>
    intro x hx
    simp only [List.foldl_cons]
    rcases List.mem_cons.1 hx with hxa | hxr
    · rw [hxa]
      refine le_trans ?_ (foldl_max_ge r _)
      split
      · exact le_refl _
      · exact not_lt.1 ‹_›
    · exact ih _ x hxr

theorem le_maxOf {l : List α} {x : α} (hx : x ∈ l) : x ≤ maxOf l := by
  unfold maxOf
  exact le_foldl_max l _ x hx

/-! ### componentwise order on lists -/

theorem forall₂_le_antisymm {a b : List α} (h : List.Forall₂ (· ≤ ·) a b)
    (h' : List.Forall₂ (· ≤ ·) b a) : a = b := by
  induction h with
  | nil => rfl
  | @cons x y l l' hxy _ ih =>
    cases h' with
    | cons hyx ht => rw [le_antisymm hxy hyx, ih ht]

theorem eq_of_zipWith_sub_eq_zero {mn mx : List α} (h : List.Forall₂ (· ≤ ·) mn mx)
    (hz : ∀ x ∈ List.zipWith (· - ·) mx mn, x = 0) : mn = mx := by
  induction h with
  | nil => rfl
  | @cons a b l l' hab _ ih =>
    have h1 : b - a = 0 := hz (b - a) (by simp)
    have h2 : l = l' := ih (fun x hx => hz x (by
      simp only [List.zipWith_cons_cons, List.mem_cons]; exact Or.inr hx))
    rw [h2, sub_eq_zero.1 h1]

/-- an ordered box whose largest extent is `0` is a point -/
theorem eq_of_maxOf_eq_zero {mn mx : List α} (h : List.Forall₂ (· ≤ ·) mn mx)
    (hz : maxOf (List.zipWith (· - ·) mx mn) = 0) : mn = mx := by
  apply eq_of_zipWith_sub_eq_zero h
  intro x hx
  apply le_antisymm
  · have := le_maxOf hx
    rw [hz] at this; exact this
  · exact zipWith_sub_nonneg h x hx

/-! ### `minL` / `maxL` -/

theorem length_minL_eq {d : Nat} {a y : List α} (ha : a.length = d) (hy : y.length = d) :
    (minL a y).length = d := by
  simp [minL, ha, hy]

theorem length_maxL_eq {d : Nat} {a y : List α} (ha : a.length = d) (hy : y.length = d) :
    (maxL a y).length = d := by
  simp [maxL, ha, hy]

theorem forall₂_minL_of_left {a v : List α} (h : List.Forall₂ (· ≤ ·) a v) {y : List α}
    (hl : a.length = y.length) : List.Forall₂ (· ≤ ·) (minL a y) v := by
  induction h generalizing y with
  | nil => simp [minL]
  | @cons p q l l' hpq _ ih =>
    cases y with
    | nil => simp at hl
    | cons c ys =>
      simp only [minL, List.zipWith_cons_cons] at ih ⊢
      refine .cons ?_ (ih (by simpa using hl))
      split
      · exact le_trans (le_of_lt ‹_›) hpq
      · exact hpq

theorem forall₂_minL_right {a y : List α} (hl : a.length = y.length) :
    List.Forall₂ (· ≤ ·) (minL a y) y := by
  induction a generalizing y with
  | nil =>
    cases y with
    | nil => simp [minL]
    | cons c ys => simp at hl
  | cons p l ih =>
    cases y with
    | nil => simp at hl
    | cons c ys =>
      simp only [minL, List.zipWith_cons_cons] at ih ⊢
      refine .cons ?_ (ih (by simpa using hl))
      split
      · exact le_refl _
      · exact not_lt.1 ‹_›

theorem forall₂_maxL_of_left {v b : List α} (h : List.Forall₂ (· ≤ ·) v b) {y : List α}
    (hl : b.length = y.length) : List.Forall₂ (· ≤ ·) v (maxL b y) := by
  induction h generalizing y with
  | nil => simp [maxL]
  | @cons q p l l' hqp _ ih =>
    cases y with
    | nil => simp at hl
    | cons c ys =>
      simp only [maxL, List.zipWith_cons_cons] at ih ⊢
      refine .cons ?_ (ih (by simpa using hl))
      split
      · exact le_trans hqp (le_of_lt ‹_›)
      · exact hqp

theorem forall₂_maxL_right {b y : List α} (hl : b.length = y.length) :
    List.Forall₂ (· ≤ ·) y (maxL b y) := by
  induction b generalizing y with
  | nil =>
    cases y with
    | nil => simp [maxL]
    | cons c ys => simp at hl
  | cons p l ih =>
    cases y with
    | nil => simp at hl
    | cons c ys =>
      simp only [maxL, List.zipWith_cons_cons] at ih ⊢
      refine .cons ?_ (ih (by simpa using hl))
      split
      · exact le_refl _
      · exact not_lt.1 ‹_›

/-- folding `minL` over values of the same length: the result has that length, is below the
start value (and everything above it) and below every folded value -/
theorem foldl_minL_spec {d : Nat} (vals : List (List α)) (hv : ∀ v ∈ vals, v.length = d)
    (a : List α) (ha : a.length = d) :
    (vals.foldl minL a).length = d ∧
    (∀ w, List.Forall₂ (· ≤ ·) a w → List.Forall₂ (· ≤ ·) (vals.foldl minL a) w) ∧
    (∀ v ∈ vals, List.Forall₂ (· ≤ ·) (vals.foldl minL a) v) := by
  induction vals generalizing a with
  | nil => exact ⟨ha, fun w hw => hw, fun v hv' => by simp at hv'⟩
  | cons v vs ih =>
    have hvl : v.length = d := hv v (List.mem_cons_self ..)
    have hl : a.length = v.length := ha.trans hvl.symm
    obtain ⟨h1, h2, h3⟩ := ih (fun v' hv' => hv v' (List.mem_cons_of_mem _ hv')) (minL a v)
      (length_minL_eq ha hvl)
    simp only [List.foldl_cons]
    refine ⟨h1, fun w hw => h2 w (forall₂_minL_of_left hw hl), ?_⟩
    intro v' hv'
    rcases List.mem_cons.1 hv' with hv' | hv'
    · rw [hv']; exact h2 _ (forall₂_minL_right hl)
    · exact h3 v' hv'

theorem foldl_maxL_spec {d : Nat} (vals : List (List α)) (hv : ∀ v ∈ vals, v.length = d)
    (b : List α) (hb : b.length = d) :
    (vals.foldl maxL b).length = d ∧
    (∀ w, List.Forall₂ (· ≤ ·) w b → List.Forall₂ (· ≤ ·) w (vals.foldl maxL b)) ∧
    (∀ v ∈ vals, List.Forall₂ (· ≤ ·) v (vals.foldl maxL b)) := by
  induction vals generalizing b with
  | nil => exact ⟨hb, fun w hw => hw, fun v hv' => by simp at hv'⟩
  | cons v vs ih =>
    have hvl : v.length = d := hv v (List.mem_cons_self ..)
    have hl : b.length = v.length := hb.trans hvl.symm
    obtain ⟨h1, h2, h3⟩ := ih (fun v' hv' => hv v' (List.mem_cons_of_mem _ hv')) (maxL b v)
      (length_maxL_eq hb hvl)
    simp only [List.foldl_cons]
    refine ⟨h1, fun w hw => h2 w (forall₂_maxL_of_left hw hl), ?_⟩
    intro v' hv'
    rcases List.mem_cons.1 hv' with hv' | hv'
    · rw [hv']; exact h2 _ (forall₂_maxL_right hl)
    · exact h3 v' hv'

/-! ### the batch path stores at least one point when it is given one -/

theorem dataSet_ne_nil (d : List (α × List α)) (x : α) (y : List α) : dataSet d x y ≠ [] := by
  unfold dataSet
  split
  · rename_i h
    intro hd
    rw [hd] at h
    simp [dataGet] at h
  · simp

theorem foldl_dataSet_ne_nil_of_ne_nil (pts : List (α × List α)) {d : List (α × List α)}
    (hd : d ≠ []) : pts.foldl (fun d kv => dataSet d kv.1 kv.2) d ≠ [] := by
  induction pts generalizing d with
  | nil => exact hd
  | cons p r ih => exact ih (dataSet_ne_nil _ _ _)

theorem foldl_dataSet_ne_nil {pts : List (α × List α)} (hne : pts ≠ [])
    (d : List (α × List α)) : pts.foldl (fun d kv => dataSet d kv.1 kv.2) d ≠ [] := by
  cases pts with
  | nil => exact absurd rfl hne
  | cons p r => exact foldl_dataSet_ne_nil_of_ne_nil r (dataSet_ne_nil _ _ _)

/-! ### `YInv` -/

theorem YInv.constAtZero {d : Nat} {s : State α} (h : YInv d s) : ConstAtZero s := by
  intro h0 kv hkv kv' hkv'
  rcases hb : s.bboxY with _ | ⟨mn, mx⟩
  · rw [h.none_empty hb] at hkv
    simp at hkv
  · have hbox := h.box
    unfold BoxOK at hbox
    rw [hb] at hbox
    obtain ⟨hle, hs⟩ := hbox
    have he : mn = mx := eq_of_maxOf_eq_zero hle (by rw [← hs, h0])
    subst he
    obtain ⟨-, -, hc⟩ := h.cover _ _ hb
    have e1 := forall₂_le_antisymm (hc kv hkv).2 (hc kv hkv).1
    have e2 := forall₂_le_antisymm (hc kv' hkv').2 (hc kv' hkv').1
    exact e1.trans e2.symm

theorem yinv_init (d : Nat) (lo hi factor dxEps : α) (nn : Nat) :
    YInv d (init lo hi factor dxEps nn) :=
  ⟨boxOK_init .., fun _ hkv => by simp [init] at hkv, fun _ => rfl,
    fun _ _ hb => by simp [init] at hb⟩

theorem sviewProp_yinv (d : Nat) : SViewProp (YInv (α := α) d) := by
  intro s s' h hs
  simp only [sview, Prod.mk.injEq] at h
  obtain ⟨-, h2, h3, h4, -⟩ := h
  refine ⟨boxOK_congr h3 h4 hs.box, ?_, ?_, ?_⟩
  · unfold VDim; rw [h2]; exact hs.vdim
  · rw [h2, h3]; exact hs.none_empty
  · rw [h2, h3]; exact hs.cover

theorem fireProp_yinv (d : Nat) : FireProp (YInv (α := α) d) :=
  fun _ hu _ => ⟨boxOK_congr rfl rfl hu.box, hu.vdim, hu.none_empty, hu.cover⟩

theorem yinv_tellPre {d : Nat} {s : State α} (h : YInv d s) (x : α) {y : List α}
    (hy : y.length = d) : YInv d (tellPre s x y) := by
  refine ⟨boxOK_tellPre h.box x y, ?_, ?_, ?_⟩
  · intro kv hkv
    have : kv ∈ s.data ++ [(x, y)] := hkv
    rcases List.mem_append.1 this with hk | hk
    · exact h.vdim kv hk
    · rw [List.mem_singleton.1 hk]; exact hy
  · intro hb
    exact absurd hb (Option.some_ne_none _)
  · intro mn mx hb
    have hmem : ∀ kv ∈ (tellPre s x y).data, kv ∈ s.data ∨ kv = (x, y) := by
      intro kv hkv
      have : kv ∈ s.data ++ [(x, y)] := hkv
      rcases List.mem_append.1 this with hk | hk
      · exact Or.inl hk
      · exact Or.inr (List.mem_singleton.1 hk)
    unfold tellPre updateScale at hb
    dsimp only at hb
    rcases hs : s.bboxY with _ | ⟨mn0, mx0⟩
    · rw [hs] at hb
      obtain ⟨e1, e2⟩ := Prod.mk.inj (Option.some.inj hb)
      subst e1 e2
      refine ⟨hy, hy, ?_⟩
      intro kv hkv
      rcases hmem kv hkv with hk | hk
      · rw [h.none_empty hs] at hk; simp at hk
      · rw [hk]; exact ⟨forall₂_le_refl _, forall₂_le_refl _⟩
    · rw [hs] at hb
      obtain ⟨e1, e2⟩ := Prod.mk.inj (Option.some.inj hb)
      subst e1 e2
      obtain ⟨l1, l2, hc⟩ := h.cover mn0 mx0 hs
      refine ⟨length_minL_eq l1 hy, length_maxL_eq l2 hy, ?_⟩
      intro kv hkv
      rcases hmem kv hkv with hk | hk
      · exact ⟨forall₂_minL_of_left (hc kv hk).1 (l1.trans hy.symm),
          forall₂_maxL_of_left (hc kv hk).2 (l2.trans hy.symm)⟩
      · rw [hk]
        exact ⟨forall₂_minL_right (l1.trans hy.symm), forall₂_maxL_right (l2.trans hy.symm)⟩

theorem yinv_batchBase {d : Nat} {s : State α} (h : YInv d s) {pts : List (α × List α)}
    (hp : ∀ kv ∈ pts, kv.2.length = d) (hne : pts ≠ []) : YInv d (batchBase s pts) := by
  have hv : VDim d (batchBase s pts) := by
    intro kv hkv
    rcases mem_foldl_dataSet pts hkv with hk | hk
    · exact h.vdim kv hk
    · exact hp kv hk
  have hne' : (batchBase s pts).data ≠ [] := foldl_dataSet_ne_nil hne s.data
  refine ⟨boxOK_batchBase s pts, hv, fun hb => absurd hb (Option.some_ne_none _), ?_⟩
  intro mn mx hb
  have hvals : ∀ v ∈ (batchBase s pts).data.map Prod.snd, v.length = d := by
    intro v hv'
    obtain ⟨kv, hk, rfl⟩ := List.mem_map.1 hv'
    exact hv kv hk
  have hhead : (List.headD ((batchBase s pts).data.map Prod.snd) []).length = d := by
    rcases hd : (batchBase s pts).data with _ | ⟨kv, r⟩
    · exact absurd hd hne'
    · exact hv kv (hd ▸ List.mem_cons_self ..)
  obtain ⟨a1, -, a3⟩ := foldl_minL_spec _ hvals _ hhead
  obtain ⟨b1, -, b3⟩ := foldl_maxL_spec _ hvals _ hhead
  obtain ⟨e1, e2⟩ := Prod.mk.inj (Option.some.inj hb)
  subst e1 e2
  exact ⟨a1, b1, fun kv hkv =>
    ⟨a3 _ (List.mem_map_of_mem hkv), b3 _ (List.mem_map_of_mem hkv)⟩⟩

theorem yinv_step {d : Nat} {s : State α} (h : YInv d s) {op : Op α} (hop : OpY d op) :
    YInv d (step lossFn r12 s op) :=
  step_preserves lossFn r12 (sviewProp_yinv d) (fireProp_yinv d) op h
    (fun _ hs' kv hkv => yinv_tellPre hs' kv.1 (hop.1 kv hkv))
    (fun pts f he => yinv_batchBase h (fun kv hkv => hop.1 kv (by rw [he]; exact hkv))
      (hop.2 pts f he))

theorem yinv_run_from {d : Nat} {s : State α} (h : YInv d s) (ops : List (Op α))
    (hops : ∀ op ∈ ops, OpY d op) : YInv d (run lossFn r12 s ops) := by
  unfold run
  induction ops generalizing s with
  | nil => exact h
  | cons op r ih =>
    exact ih (yinv_step lossFn r12 h (hops op (List.mem_cons_self ..)))
      (fun op' ho => hops op' (List.mem_cons_of_mem _ ho))

end L1D
