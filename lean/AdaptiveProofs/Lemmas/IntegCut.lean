import AdaptiveProofs.Lemmas.IntegDefs
/-!
Soundness of the decidable cut check of `AdaptiveModel/Integ.lean` (`descend`, `isCutB`, `cutOK`) with respect to
the inductive cut predicate `IsCut`.
-/
namespace Integ
variable {α : Type} [OfNat α 0]

theorem IsCut.perm {F : Forest α} {i : Nat} {S S' : List Nat} (h : IsCut F i S) (hp : S'.Perm S) : IsCut F i S' := by
  cases h with
  | leaf => rw [List.perm_singleton.mp hp]; exact IsCut.leaf i
  | node _ _ T hc hT hS => exact IsCut.node i S' T hc hT (hp.trans hS)

theorem joinOpts_map_some {g : Nat → Option (List Nat)} :
    ∀ (cs : List Nat) (L : List Nat), joinOpts (cs.map g) = some L →
      L = cs.flatMap (fun c => (g c).getD []) ∧ ∀ c ∈ cs, (g c).isSome
  | [], L, h => by
    simp [joinOpts] at h
    subst h
    simp
  | c :: r, L, h => by
    simp only [List.map_cons] at h
    cases hg : g c with
    | none => simp [hg, joinOpts] at h
    | some x =>
      simp only [hg, joinOpts, Option.map_eq_some_iff] at h
      obtain ⟨y, hy, rfl⟩ := h
      obtain ⟨e, hs⟩ := joinOpts_map_some r y hy
      refine ⟨by simp [List.flatMap_cons, hg, e], ?_⟩
      intro c' hc'
      rcases List.mem_cons.mp hc' with rfl | h'
      · simp [hg]
      · exact hs c' h'

theorem descend_isCut (F : Forest α) (S : List Nat) :
    ∀ (fuel i : Nat) (L : List Nat), descend F S fuel i = some L → IsCut F i L
  | 0, _, _, h => by simp [descend] at h
  | fuel + 1, i, L, h => by
    simp only [descend] at h
    split at h
    · cases h; exact IsCut.leaf i
    · split at h
      · cases h
      · rename_i hc
        obtain ⟨e, hs⟩ := joinOpts_map_some _ L h
        refine IsCut.node i L (fun c => (descend F S fuel c).getD []) hc ?_ (by rw [e])
        intro c hcm
        have := hs c hcm
        cases hd : descend F S fuel c with
        | none => simp [hd] at this
        | some x => simpa [hd] using descend_isCut F S fuel c x hd

theorem isCutB_sound {F : Forest α} {i : Nat} {S : List Nat} (h : isCutB F i S = true) : IsCut F i S := by
  unfold isCutB at h
  split at h
  · rename_i L hL
    exact (descend_isCut F S _ i L hL).perm (List.isPerm_iff.mp h).symm
  · cases h

/-- if the decidable check `cutOK` accepts a forest, every interval's non-empty `done_leaves` is a cut of its subtree -/
theorem cutOK_sound {F : Forest α} (h : cutOK F = true) (i : Nat) (hi : i < F.length) (S : List Nat)
    (hS : (getI F i).doneLeaves = some S) (hne : S ≠ []) : IsCut F i S := by
  unfold cutOK at h
  rw [List.all_eq_true] at h
  have := h i (List.mem_range.mpr hi)
  cases S with
  | nil => exact absurd rfl hne
  | cons x r =>
    simp only [hS] at this
    exact isCutB_sound this

end Integ
