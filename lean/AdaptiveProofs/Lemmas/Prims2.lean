import AdaptiveModel.Prims2
import AdaptiveProofs.Props.C20
import Mathlib.Tactic.Ring
import Mathlib.Tactic.LinearCombination
import Mathlib.Tactic.Linarith
import Mathlib.Tactic.FieldSimp
import Mathlib.Tactic.NormNum
import Mathlib.Algebra.Order.Ring.Abs

/-!
Algebra of the hand-modelled primitives of `AdaptiveModel/Prims2.lean` (property C20): Learner2D per-triangle
area / uniform loss / surface loss / `choose_point_in_triangle`, the Learner1D resolution cut-offs and curvature loss,
the LearnerND default loss on a 2-D domain, `triangulation.orientation`.  Headlines: `Props/C20More.lean`.

Over every linearly ordered field; `sqrt` is any function with `Prims.SqrtLaw`; `abs` is `|·|` where it matters.
-/
set_option linter.unusedSectionVars false
set_option linter.unusedVariables false

namespace Prims2
open Gen.Prims Prims

variable {α : Type} [Field α] [LinearOrder α] [IsStrictOrderedRing α]

/-! ## generalities about `sqrt` -/

/-- a `sqrt` with `SqrtLaw` is determined on non-negative arguments: the non-negative root -/
theorem sqrt_unique {sqrt : α → α} (hs : SqrtLaw sqrt) {x r : α} (hx : 0 ≤ x) (hr : 0 ≤ r) (h : r * r = x) :
    sqrt x = r := by
  obtain ⟨s0, s1⟩ := hs x hx
  exact (mul_self_inj s0 hr).mp (s1.trans h.symm)

/-- `sqrt (x²) = |x|` -/
theorem sqrt_mul_self {sqrt : α → α} (hs : SqrtLaw sqrt) (x : α) : sqrt (x * x) = |x| :=
  sqrt_unique hs (mul_self_nonneg x) (abs_nonneg x) (abs_mul_abs_self x)

/-- `sqrt (k² x) = |k| sqrt x` -/
theorem sqrt_scale {sqrt : α → α} (hs : SqrtLaw sqrt) (k : α) {x : α} (hx : 0 ≤ x) :
    sqrt (k * k * x) = |k| * sqrt x := by
  obtain ⟨s0, s1⟩ := hs x hx
  refine sqrt_unique hs (mul_nonneg (mul_self_nonneg k) hx) (mul_nonneg (abs_nonneg k) s0) ?_
  rw [mul_mul_mul_comm, abs_mul_abs_self, s1]

/-- `sqrt` is monotone on non-negative arguments (strictly) -/
theorem sqrt_lt_sqrt_iff {sqrt : α → α} (hs : SqrtLaw sqrt) {x y : α} (hx : 0 ≤ x) (hy : 0 ≤ y) :
    sqrt x < sqrt y ↔ x < y := by
  obtain ⟨a0, a1⟩ := hs x hx
  obtain ⟨b0, b1⟩ := hs y hy
  rw [mul_self_lt_mul_self_iff a0 b0, a1, b1]

theorem sqrt_le_sqrt_iff {sqrt : α → α} (hs : SqrtLaw sqrt) {x y : α} (hx : 0 ≤ x) (hy : 0 ≤ y) :
    sqrt x ≤ sqrt y ↔ x ≤ y := by
  obtain ⟨a0, a1⟩ := hs x hx
  obtain ⟨b0, b1⟩ := hs y hy
  rw [mul_self_le_mul_self_iff a0 b0, a1, b1]

/-! ## A.1 `learner2D.areas` / `uniform_loss`, one triangle -/

/-- the area of `learner2D.areas` is the generated `learnerND.volume` of the same three points (for every `abs`) -/
theorem l2d_area_eq_nd_volume2 (abs : α → α) (x0 y0 x1 y1 x2 y2 : α) :
    l2d_area abs x0 y0 x1 y1 x2 y2 = nd_volume2 abs x0 y0 x1 y1 x2 y2 := by
  simp only [l2d_area, nd_volume2]; congr 2; ring

/-- … `= |det of the edge vectors| / 2` -/
theorem l2d_area_eq_abs_det (x0 y0 x1 y1 x2 y2 : α) :
    l2d_area (fun x => |x|) x0 y0 x1 y1 x2 y2 = |Matrix.det !![x0 - x2, y0 - y2; x1 - x2, y1 - y2]| / 2 := by
  rw [l2d_area_eq_nd_volume2, C20.nd_volume2_eq_abs_det_div_fact]; norm_num [Nat.factorial]

theorem l2d_area_eq_cross2 (x0 y0 x1 y1 x2 y2 : α) :
    l2d_area (fun x => |x|) x0 y0 x1 y1 x2 y2 = |cross2 x0 y0 x1 y1 x2 y2| / 2 := by
  rw [l2d_area_eq_nd_volume2, C20.nd_volume2_eq_cross2]

theorem l2d_area_nonneg (x0 y0 x1 y1 x2 y2 : α) : 0 ≤ l2d_area (fun x => |x|) x0 y0 x1 y1 x2 y2 := by
  rw [l2d_area_eq_cross2]; exact div_nonneg (abs_nonneg _) (by norm_num)

/-- relabelling: all six orders of the vertices give the same area -/
theorem l2d_area_perm (x0 y0 x1 y1 x2 y2 : α) :
    l2d_area (fun x => |x|) x1 y1 x0 y0 x2 y2 = l2d_area (fun x => |x|) x0 y0 x1 y1 x2 y2 ∧
    l2d_area (fun x => |x|) x0 y0 x2 y2 x1 y1 = l2d_area (fun x => |x|) x0 y0 x1 y1 x2 y2 ∧
    l2d_area (fun x => |x|) x2 y2 x1 y1 x0 y0 = l2d_area (fun x => |x|) x0 y0 x1 y1 x2 y2 ∧
    l2d_area (fun x => |x|) x1 y1 x2 y2 x0 y0 = l2d_area (fun x => |x|) x0 y0 x1 y1 x2 y2 ∧
    l2d_area (fun x => |x|) x2 y2 x0 y0 x1 y1 = l2d_area (fun x => |x|) x0 y0 x1 y1 x2 y2 := by
  simp only [l2d_area]
  refine ⟨?_, ?_, ?_, ?_, ?_⟩
  · congr 1; rw [← abs_neg]; congr 1; ring
  · congr 1; rw [← abs_neg]; congr 1; ring
  · congr 1; rw [← abs_neg]; congr 1; ring
  · congr 2; ring
  · congr 2; ring

/-- translation invariance (every `abs`) -/
theorem l2d_area_translate (abs : α → α) (s t x0 y0 x1 y1 x2 y2 : α) :
    l2d_area abs (x0 + s) (y0 + t) (x1 + s) (y1 + t) (x2 + s) (y2 + t) = l2d_area abs x0 y0 x1 y1 x2 y2 := by
  simp only [l2d_area_eq_nd_volume2, C20.nd_volume2_translate]

/-- rigid motions fixing the origin (orthogonal matrices: rotations and reflections) -/
theorem l2d_area_orthogonal (a b c d : α) (h1 : a * a + c * c = 1) (h2 : b * b + d * d = 1) (h3 : a * b + c * d = 0)
    (x0 y0 x1 y1 x2 y2 : α) :
    l2d_area (fun x => |x|) (a * x0 + b * y0) (c * x0 + d * y0) (a * x1 + b * y1) (c * x1 + d * y1)
        (a * x2 + b * y2) (c * x2 + d * y2) = l2d_area (fun x => |x|) x0 y0 x1 y1 x2 y2 := by
  simp only [l2d_area_eq_nd_volume2, C20.nd_volume2_orthogonal a b c d h1 h2 h3]

/-- homogeneity of degree 2 -/
theorem l2d_area_scale (k x0 y0 x1 y1 x2 y2 : α) :
    l2d_area (fun x => |x|) (k * x0) (k * y0) (k * x1) (k * y1) (k * x2) (k * y2)
      = k ^ 2 * l2d_area (fun x => |x|) x0 y0 x1 y1 x2 y2 := by
  simp only [l2d_area_eq_nd_volume2, C20.nd_volume2_scale, sq_abs]

/-- `uniform_loss` squares to the area -/
theorem l2d_uniform_loss_sq (sqrt : α → α) (hs : SqrtLaw sqrt) (x0 y0 x1 y1 x2 y2 : α) :
    0 ≤ l2d_uniform_loss sqrt (fun x => |x|) x0 y0 x1 y1 x2 y2 ∧
    l2d_uniform_loss sqrt (fun x => |x|) x0 y0 x1 y1 x2 y2 * l2d_uniform_loss sqrt (fun x => |x|) x0 y0 x1 y1 x2 y2
      = l2d_area (fun x => |x|) x0 y0 x1 y1 x2 y2 :=
  hs _ (l2d_area_nonneg x0 y0 x1 y1 x2 y2)

/-- `uniform_loss` is homogeneous of degree 1 (`|k|`) -/
theorem l2d_uniform_loss_scale (sqrt : α → α) (hs : SqrtLaw sqrt) (k x0 y0 x1 y1 x2 y2 : α) :
    l2d_uniform_loss sqrt (fun x => |x|) (k * x0) (k * y0) (k * x1) (k * y1) (k * x2) (k * y2)
      = |k| * l2d_uniform_loss sqrt (fun x => |x|) x0 y0 x1 y1 x2 y2 := by
  simp only [l2d_uniform_loss]
  rw [l2d_area_scale, pow_two, sqrt_scale hs k (l2d_area_nonneg x0 y0 x1 y1 x2 y2)]

/-- relabelling, translation, rigid motions carry over to `uniform_loss` (it is a function of the area) -/
theorem l2d_uniform_loss_eq (sqrt abs : α → α) (x0 y0 x1 y1 x2 y2 : α) :
    l2d_uniform_loss sqrt abs x0 y0 x1 y1 x2 y2 = sqrt (l2d_area abs x0 y0 x1 y1 x2 y2) := rfl

/-! ## A.2 `minimize_triangle_surface_loss`, one triangle -/

/-- squared norm of the cross product of `u` and `v` = Gram determinant `|u|²|v|² − (u·v)²` -/
def gram3 (ux uy uz vx vy vz : α) : α :=
  (ux * ux + uy * uy + uz * uz) * (vx * vx + vy * vy + vz * vz) - (ux * vx + uy * vy + uz * vz) * (ux * vx + uy * vy + uz * vz)

theorem gram3_eq_cross_sq (ux uy uz vx vy vz : α) :
    gram3 ux uy uz vx vy vz
      = (uy * vz - uz * vy) * (uy * vz - uz * vy) + (uz * vx - ux * vz) * (uz * vx - ux * vz)
        + (ux * vy - uy * vx) * (ux * vy - uy * vx) := by
  simp only [gram3]; ring

theorem gram3_nonneg (ux uy uz vx vy vz : α) : 0 ≤ gram3 ux uy uz vx vy vz := by
  rw [gram3_eq_cross_sq]
  exact add_nonneg (add_nonneg (mul_self_nonneg _) (mul_self_nonneg _)) (mul_self_nonneg _)

/-- the radicand is the Gram determinant of the embedded edge vectors `(p_i − p_2, (v_i − v_2)/c)` over 4, i.e.
`(|a × b| / 2)²` -/
theorem l2d_surface_radicand_eq_gram (x0 y0 x1 y1 x2 y2 v0 v1 v2 c : α) :
    l2d_surface_loss_radicand x0 y0 x1 y1 x2 y2 v0 v1 v2 c
      = gram3 (x0 - x2) (y0 - y2) (v0 / c - v2 / c) (x1 - x2) (y1 - y2) (v1 / c - v2 / c) / 4 := by
  simp only [l2d_surface_loss_radicand, l2d_surface_cross, gram3]; ring

theorem l2d_surface_radicand_nonneg (x0 y0 x1 y1 x2 y2 v0 v1 v2 c : α) :
    0 ≤ l2d_surface_loss_radicand x0 y0 x1 y1 x2 y2 v0 v1 v2 c := by
  rw [l2d_surface_radicand_eq_gram]; exact div_nonneg (gram3_nonneg _ _ _ _ _ _) (by norm_num)

/-- the loss is HALF THE NORM OF THE CROSS PRODUCT of the embedded edges: non-negative, and its square is
`|a × b|² / 4` -/
theorem l2d_surface_loss_sq (sqrt : α → α) (hs : SqrtLaw sqrt) (x0 y0 x1 y1 x2 y2 v0 v1 v2 c : α) :
    0 ≤ l2d_surface_loss sqrt x0 y0 x1 y1 x2 y2 v0 v1 v2 c ∧
    l2d_surface_loss sqrt x0 y0 x1 y1 x2 y2 v0 v1 v2 c * l2d_surface_loss sqrt x0 y0 x1 y1 x2 y2 v0 v1 v2 c
      = gram3 (x0 - x2) (y0 - y2) (v0 / c - v2 / c) (x1 - x2) (y1 - y2) (v1 / c - v2 / c) / 4 := by
  rw [← l2d_surface_radicand_eq_gram]
  exact hs _ (l2d_surface_radicand_nonneg _ _ _ _ _ _ _ _ _ _)

/-- relabelling: the radicand (hence the loss, for every `sqrt`) does not depend on the order of the vertices -/
theorem l2d_surface_radicand_perm (x0 y0 x1 y1 x2 y2 v0 v1 v2 c : α) :
    l2d_surface_loss_radicand x1 y1 x0 y0 x2 y2 v1 v0 v2 c = l2d_surface_loss_radicand x0 y0 x1 y1 x2 y2 v0 v1 v2 c ∧
    l2d_surface_loss_radicand x0 y0 x2 y2 x1 y1 v0 v2 v1 c = l2d_surface_loss_radicand x0 y0 x1 y1 x2 y2 v0 v1 v2 c ∧
    l2d_surface_loss_radicand x2 y2 x1 y1 x0 y0 v2 v1 v0 c = l2d_surface_loss_radicand x0 y0 x1 y1 x2 y2 v0 v1 v2 c ∧
    l2d_surface_loss_radicand x1 y1 x2 y2 x0 y0 v1 v2 v0 c = l2d_surface_loss_radicand x0 y0 x1 y1 x2 y2 v0 v1 v2 c ∧
    l2d_surface_loss_radicand x2 y2 x0 y0 x1 y1 v2 v0 v1 c = l2d_surface_loss_radicand x0 y0 x1 y1 x2 y2 v0 v1 v2 c := by
  simp only [l2d_surface_loss_radicand, l2d_surface_cross]
  refine ⟨by ring, by ring, by ring, by ring, by ring⟩

theorem l2d_surface_loss_perm (sqrt : α → α) (x0 y0 x1 y1 x2 y2 v0 v1 v2 c : α) :
    l2d_surface_loss sqrt x1 y1 x0 y0 x2 y2 v1 v0 v2 c = l2d_surface_loss sqrt x0 y0 x1 y1 x2 y2 v0 v1 v2 c ∧
    l2d_surface_loss sqrt x0 y0 x2 y2 x1 y1 v0 v2 v1 c = l2d_surface_loss sqrt x0 y0 x1 y1 x2 y2 v0 v1 v2 c ∧
    l2d_surface_loss sqrt x2 y2 x1 y1 x0 y0 v2 v1 v0 c = l2d_surface_loss sqrt x0 y0 x1 y1 x2 y2 v0 v1 v2 c ∧
    l2d_surface_loss sqrt x1 y1 x2 y2 x0 y0 v1 v2 v0 c = l2d_surface_loss sqrt x0 y0 x1 y1 x2 y2 v0 v1 v2 c ∧
    l2d_surface_loss sqrt x2 y2 x0 y0 x1 y1 v2 v0 v1 c = l2d_surface_loss sqrt x0 y0 x1 y1 x2 y2 v0 v1 v2 c := by
  obtain ⟨a, b, c', d, e⟩ := l2d_surface_radicand_perm x0 y0 x1 y1 x2 y2 v0 v1 v2 c
  simp only [l2d_surface_loss, a, b, c', d, e, and_self]

/-- translation of the points and a common shift of the values do not change the loss -/
theorem l2d_surface_loss_translate (sqrt : α → α) (s t r x0 y0 x1 y1 x2 y2 v0 v1 v2 c : α) :
    l2d_surface_loss sqrt (x0 + s) (y0 + t) (x1 + s) (y1 + t) (x2 + s) (y2 + t) (v0 + r) (v1 + r) (v2 + r) c
      = l2d_surface_loss sqrt x0 y0 x1 y1 x2 y2 v0 v1 v2 c := by
  simp only [l2d_surface_loss, l2d_surface_loss_radicand, l2d_surface_cross]; congr 1; ring

/-- homogeneity of degree 2 when `x`, `y` and the values are scaled together (normalisation constant `c` fixed):
radicand degree 4 … -/
theorem l2d_surface_radicand_scale (k x0 y0 x1 y1 x2 y2 v0 v1 v2 c : α) :
    l2d_surface_loss_radicand (k * x0) (k * y0) (k * x1) (k * y1) (k * x2) (k * y2) (k * v0) (k * v1) (k * v2) c
      = (k * k) * (k * k) * l2d_surface_loss_radicand x0 y0 x1 y1 x2 y2 v0 v1 v2 c := by
  simp only [l2d_surface_loss_radicand, l2d_surface_cross]; ring

/-- … loss degree 2 -/
theorem l2d_surface_loss_scale (sqrt : α → α) (hs : SqrtLaw sqrt) (k x0 y0 x1 y1 x2 y2 v0 v1 v2 c : α) :
    l2d_surface_loss sqrt (k * x0) (k * y0) (k * x1) (k * y1) (k * x2) (k * y2) (k * v0) (k * v1) (k * v2) c
      = k ^ 2 * l2d_surface_loss sqrt x0 y0 x1 y1 x2 y2 v0 v1 v2 c := by
  simp only [l2d_surface_loss]
  rw [l2d_surface_radicand_scale, sqrt_scale hs (k * k) (l2d_surface_radicand_nonneg _ _ _ _ _ _ _ _ _ _),
    abs_mul_self, pow_two]

/-- what the normalisation is for: scaling the values AND the normalisation constant by the same `k ≠ 0` changes
nothing -/
theorem l2d_surface_loss_value_scale (sqrt : α → α) (k : α) (hk : k ≠ 0) (x0 y0 x1 y1 x2 y2 v0 v1 v2 c : α) :
    l2d_surface_loss sqrt x0 y0 x1 y1 x2 y2 (k * v0) (k * v1) (k * v2) (k * c)
      = l2d_surface_loss sqrt x0 y0 x1 y1 x2 y2 v0 v1 v2 c := by
  simp only [l2d_surface_loss, l2d_surface_loss_radicand, l2d_surface_cross, mul_div_mul_left _ _ hk]

/-- constant values: the surface loss is the area of the triangle of the plane -/
theorem l2d_surface_loss_flat (sqrt : α → α) (hs : SqrtLaw sqrt) (x0 y0 x1 y1 x2 y2 v c : α) :
    l2d_surface_loss sqrt x0 y0 x1 y1 x2 y2 v v v c = l2d_area (fun x => |x|) x0 y0 x1 y1 x2 y2 := by
  have e : l2d_surface_loss_radicand x0 y0 x1 y1 x2 y2 v v v c
      = (((x0 - x2) * (y1 - y2) - (y0 - y2) * (x1 - x2)) / 2) * (((x0 - x2) * (y1 - y2) - (y0 - y2) * (x1 - x2)) / 2) := by
    simp only [l2d_surface_loss_radicand, l2d_surface_cross]; ring
  simp only [l2d_surface_loss, l2d_area]
  rw [e, sqrt_mul_self hs, abs_div, abs_two]

/-- the surface loss is at least the area of the plane triangle (the values only add) -/
theorem l2d_area_le_surface_loss (sqrt : α → α) (hs : SqrtLaw sqrt) (x0 y0 x1 y1 x2 y2 v0 v1 v2 c : α) :
    l2d_area (fun x => |x|) x0 y0 x1 y1 x2 y2 ≤ l2d_surface_loss sqrt x0 y0 x1 y1 x2 y2 v0 v1 v2 c := by
  obtain ⟨s0, s1⟩ := hs _ (l2d_surface_radicand_nonneg x0 y0 x1 y1 x2 y2 v0 v1 v2 c)
  have a0 := l2d_area_nonneg x0 y0 x1 y1 x2 y2
  simp only [l2d_surface_loss]
  rw [mul_self_le_mul_self_iff a0 s0, s1]
  simp only [l2d_area, l2d_surface_loss_radicand, l2d_surface_cross]
  rw [div_mul_div_comm, abs_mul_abs_self]
  have : ((x0 - x2) * (y1 - y2) - (y0 - y2) * (x1 - x2)) * ((x0 - x2) * (y1 - y2) - (y0 - y2) * (x1 - x2)) / (2 * 2)
      = ((x0 - x2) * (y1 - y2) - (y0 - y2) * (x1 - x2)) / 2 * (((x0 - x2) * (y1 - y2) - (y0 - y2) * (x1 - x2)) / 2) := by ring
  rw [this]
  nlinarith [mul_self_nonneg (((y0 - y2) * (v1 / c - v2 / c) - (v0 / c - v2 / c) * (y1 - y2)) / 2),
    mul_self_nonneg (((v0 / c - v2 / c) * (x1 - x2) - (x0 - x2) * (v1 / c - v2 / c)) / 2)]

/-- `np.ptp(values).max() or 1`: the range of the values, or 1 when all values are equal -/
theorem l2d_value_scale_eq (vmin vmax : α) (h : vmin ≤ vmax) :
    l2d_value_scale vmin vmax = (if vmin = vmax then 1 else vmax - vmin) ∧ 0 < l2d_value_scale vmin vmax := by
  simp only [l2d_value_scale]
  by_cases e : vmin = vmax
  · subst e; simp
  · have : 0 < vmax - vmin := sub_pos.2 (lt_of_le_of_ne h e)
    simp [this, e]

/-! ## D. `triangulation.orientation` -/

theorem sgn_neg (d : α) : sgn (-d) = -sgn d := by
  simp only [sgn, gt_iff_lt, neg_pos, neg_neg_iff_pos]
  rcases lt_trichotomy d 0 with h | h | h
  · simp [h, not_lt.2 (le_of_lt h)]
  · subst h; simp
  · simp [h, not_lt.2 (le_of_lt h)]

theorem sgn_eq (d : α) : (sgn d = 1 ↔ 0 < d) ∧ (sgn d = -1 ↔ d < 0) ∧ (sgn d = 0 ↔ d = 0) := by
  simp only [sgn, gt_iff_lt]
  rcases lt_trichotomy d 0 with h | h | h
  · simp [h, not_lt.2 (le_of_lt h), ne_of_lt h]
  · subst h; simp
  · simp [h, not_lt.2 (le_of_lt h), ne_of_gt h]

/-- multiplying by a positive number does not change the sign -/
theorem sgn_mul_pos (k d : α) (hk : 0 < k) : sgn (k * d) = sgn d := by
  have h1 : 0 < k * d ↔ 0 < d := mul_pos_iff_of_pos_left hk
  have h2 : k * d < 0 ↔ d < 0 := by
    constructor
    · intro h; by_contra hn; exact absurd (mul_nonneg hk.le (not_lt.1 hn)) (not_le.2 h)
    · intro h; exact mul_neg_of_pos_of_neg hk h
  simp only [sgn, gt_iff_lt, h1, h2]

/-- the decision taken from the determinant: `0` below the cut, the sign of the determinant from the cut on -/
theorem orientation_of_det_eq (thr d : α) :
    (|d| < thr → orientation_of_det (fun x => |x|) thr d = 0) ∧
    (thr ≤ |d| → orientation_of_det (fun x => |x|) thr d = sgn d) := by
  simp only [orientation_of_det]
  exact ⟨fun h => by simp [h], fun h => by simp [not_lt.2 h]⟩

/-- with a positive cut: the answer is `0` exactly when `|det| < thr` -/
theorem orientation_of_det_eq_zero_iff (thr d : α) (ht : 0 < thr) :
    orientation_of_det (fun x => |x|) thr d = 0 ↔ |d| < thr := by
  constructor
  · intro h
    by_contra hn
    have := (orientation_of_det_eq thr d).2 (not_lt.1 hn)
    rw [this, (sgn_eq d).2.2] at h
    subst h; simp at hn; exact absurd ht (not_lt.2 hn)
  · exact (orientation_of_det_eq thr d).1

theorem orientation_of_det_neg (thr d : α) :
    orientation_of_det (fun x => |x|) thr (-d) = -orientation_of_det (fun x => |x|) thr d := by
  simp only [orientation_of_det, abs_neg, sgn_neg]
  split_ifs <;> simp

/-- the determinant of the rows `face_i − origin` is (minus) the orientation determinant `cross2` of origin, f0, f1 -/
theorem orientation_det2_eq_cross2 (f0x f0y f1x f1y ox oy : α) :
    orientation_det2 f0x f0y f1x f1y ox oy = cross2 ox oy f0x f0y f1x f1y := by
  simp only [orientation_det2, fast_det2, cross2]

theorem orientation_det2_eq_det (f0x f0y f1x f1y ox oy : α) :
    orientation_det2 f0x f0y f1x f1y ox oy = Matrix.det !![f0x - ox, f0y - oy; f1x - ox, f1y - oy] :=
  C20.fast_det2_eq_det _ _ _ _

theorem orientation_det3_eq_det (f0x f0y f0z f1x f1y f1z f2x f2y f2z ox oy oz : α) :
    orientation_det3 f0x f0y f0z f1x f1y f1z f2x f2y f2z ox oy oz
      = Matrix.det !![f0x - ox, f0y - oy, f0z - oz; f1x - ox, f1y - oy, f1z - oz; f2x - ox, f2y - oy, f2z - oz] :=
  C20.fast_det3_eq_det _ _ _ _ _ _ _ _ _

theorem orientation_det3_eq_cross3 (f0x f0y f0z f1x f1y f1z f2x f2y f2z ox oy oz : α) :
    orientation_det3 f0x f0y f0z f1x f1y f1z f2x f2y f2z ox oy oz
      = cross3 ox oy oz f0x f0y f0z f1x f1y f1z f2x f2y f2z := by
  simp only [orientation_det3, fast_det3, cross3]

/-- antisymmetry: exchanging the two face points flips the orientation -/
theorem orientation2_swap (thr f0x f0y f1x f1y ox oy : α) :
    orientation2 (fun x => |x|) thr f1x f1y f0x f0y ox oy = -orientation2 (fun x => |x|) thr f0x f0y f1x f1y ox oy := by
  simp only [orientation2]
  rw [← orientation_of_det_neg]; congr 1
  simp only [orientation_det2, fast_det2]; ring

theorem orientation3_swap01 (thr f0x f0y f0z f1x f1y f1z f2x f2y f2z ox oy oz : α) :
    orientation3 (fun x => |x|) thr f1x f1y f1z f0x f0y f0z f2x f2y f2z ox oy oz
      = -orientation3 (fun x => |x|) thr f0x f0y f0z f1x f1y f1z f2x f2y f2z ox oy oz := by
  simp only [orientation3]
  rw [← orientation_of_det_neg]; congr 1
  simp only [orientation_det3, fast_det3]; ring

theorem orientation3_swap12 (thr f0x f0y f0z f1x f1y f1z f2x f2y f2z ox oy oz : α) :
    orientation3 (fun x => |x|) thr f0x f0y f0z f2x f2y f2z f1x f1y f1z ox oy oz
      = -orientation3 (fun x => |x|) thr f0x f0y f0z f1x f1y f1z f2x f2y f2z ox oy oz := by
  simp only [orientation3]
  rw [← orientation_of_det_neg]; congr 1
  simp only [orientation_det3, fast_det3]; ring

theorem orientation3_swap02 (thr f0x f0y f0z f1x f1y f1z f2x f2y f2z ox oy oz : α) :
    orientation3 (fun x => |x|) thr f2x f2y f2z f1x f1y f1z f0x f0y f0z ox oy oz
      = -orientation3 (fun x => |x|) thr f0x f0y f0z f1x f1y f1z f2x f2y f2z ox oy oz := by
  simp only [orientation3]
  rw [← orientation_of_det_neg]; congr 1
  simp only [orientation_det3, fast_det3]; ring

/-- a cyclic relabelling of the three face points (an even permutation) keeps the orientation -/
theorem orientation3_cycle (thr f0x f0y f0z f1x f1y f1z f2x f2y f2z ox oy oz : α) :
    orientation3 (fun x => |x|) thr f1x f1y f1z f2x f2y f2z f0x f0y f0z ox oy oz
      = orientation3 (fun x => |x|) thr f0x f0y f0z f1x f1y f1z f2x f2y f2z ox oy oz := by
  rw [orientation3_swap12 thr f1x f1y f1z f0x f0y f0z f2x f2y f2z, orientation3_swap01 thr f0x f0y f0z f1x f1y f1z, neg_neg]

/-- translating face and origin together changes nothing (every `abs`) -/
theorem orientation2_translate (abs : α → α) (thr s t f0x f0y f1x f1y ox oy : α) :
    orientation2 abs thr (f0x + s) (f0y + t) (f1x + s) (f1y + t) (ox + s) (oy + t)
      = orientation2 abs thr f0x f0y f1x f1y ox oy := by
  simp only [orientation2, orientation_det2]; congr 1; simp only [fast_det2]; ring

theorem orientation3_translate (abs : α → α) (thr s t r f0x f0y f0z f1x f1y f1z f2x f2y f2z ox oy oz : α) :
    orientation3 abs thr (f0x + s) (f0y + t) (f0z + r) (f1x + s) (f1y + t) (f1z + r) (f2x + s) (f2y + t) (f2z + r)
        (ox + s) (oy + t) (oz + r)
      = orientation3 abs thr f0x f0y f0z f1x f1y f1z f2x f2y f2z ox oy oz := by
  simp only [orientation3, orientation_det3]; congr 1; simp only [fast_det3]; ring

/-- the two sides of a face: for origins on opposite sides (determinants of opposite sign, both above the cut) the
orientations are opposite and non-zero; on the same side they are equal -/
theorem orientation2_sign (thr f0x f0y f1x f1y ox oy : α) (h : thr ≤ |orientation_det2 f0x f0y f1x f1y ox oy|) :
    orientation2 (fun x => |x|) thr f0x f0y f1x f1y ox oy = sgn (cross2 ox oy f0x f0y f1x f1y) := by
  simp only [orientation2]
  rw [(orientation_of_det_eq thr _).2 h, orientation_det2_eq_cross2]

theorem orientation3_sign (thr f0x f0y f0z f1x f1y f1z f2x f2y f2z ox oy oz : α)
    (h : thr ≤ |orientation_det3 f0x f0y f0z f1x f1y f1z f2x f2y f2z ox oy oz|) :
    orientation3 (fun x => |x|) thr f0x f0y f0z f1x f1y f1z f2x f2y f2z ox oy oz
      = sgn (cross3 ox oy oz f0x f0y f0z f1x f1y f1z f2x f2y f2z) := by
  simp only [orientation3]
  rw [(orientation_of_det_eq thr _).2 h, orientation_det3_eq_cross3]

/-- scaling by `k` multiplies the determinant by `k²` / `k³` -/
theorem orientation_det2_scale (k f0x f0y f1x f1y ox oy : α) :
    orientation_det2 (k * f0x) (k * f0y) (k * f1x) (k * f1y) (k * ox) (k * oy)
      = k * k * orientation_det2 f0x f0y f1x f1y ox oy := by
  simp only [orientation_det2, fast_det2]; ring

theorem orientation_det3_scale (k f0x f0y f0z f1x f1y f1z f2x f2y f2z ox oy oz : α) :
    orientation_det3 (k * f0x) (k * f0y) (k * f0z) (k * f1x) (k * f1y) (k * f1z) (k * f2x) (k * f2y) (k * f2z)
        (k * ox) (k * oy) (k * oz)
      = k * k * k * orientation_det3 f0x f0y f0z f1x f1y f1z f2x f2y f2z ox oy oz := by
  simp only [orientation_det3, fast_det3]; ring

/-- scaling UP by `k ≥ 1` keeps a non-zero answer -/
theorem orientation2_scale_up (thr k f0x f0y f1x f1y ox oy : α) (hk : 1 ≤ k)
    (h : thr ≤ |orientation_det2 f0x f0y f1x f1y ox oy|) :
    orientation2 (fun x => |x|) thr (k * f0x) (k * f0y) (k * f1x) (k * f1y) (k * ox) (k * oy)
      = orientation2 (fun x => |x|) thr f0x f0y f1x f1y ox oy := by
  have k0 : 0 < k := lt_of_lt_of_le one_pos hk
  have kk : 1 ≤ k * k := by nlinarith
  simp only [orientation2]
  rw [orientation_det2_scale, (orientation_of_det_eq thr _).2 h, (orientation_of_det_eq thr _).2,
    sgn_mul_pos _ _ (mul_pos k0 k0)]
  rw [abs_mul, abs_of_pos (mul_pos k0 k0)]
  calc thr ≤ |orientation_det2 f0x f0y f1x f1y ox oy| := h
    _ = 1 * |orientation_det2 f0x f0y f1x f1y ox oy| := (one_mul _).symm
    _ ≤ k * k * |orientation_det2 f0x f0y f1x f1y ox oy| := mul_le_mul_of_nonneg_right kk (abs_nonneg _)

/-- NOT scale invariant: for every positive cut, EVERY configuration can be scaled down (factor `0 < k ≤ 1`) until
the cut reports `0` — also the non-degenerate ones, whose orientation was `±1` -/
theorem orientation2_not_scale_invariant (thr f0x f0y f1x f1y ox oy : α) (ht : 0 < thr) :
    ∃ k : α, 0 < k ∧ k ≤ 1 ∧
      orientation2 (fun x => |x|) thr (k * f0x) (k * f0y) (k * f1x) (k * f1y) (k * ox) (k * oy) = 0 := by
  set d := orientation_det2 f0x f0y f1x f1y ox oy with hd
  have hpos : (0 : α) < 2 * |d| + thr := by have := abs_nonneg d; linarith
  refine ⟨thr / (2 * |d| + thr), div_pos ht hpos, (div_le_one hpos).2 (by have := abs_nonneg d; linarith), ?_⟩
  set k := thr / (2 * |d| + thr) with hk
  have k0 : 0 < k := div_pos ht hpos
  have k1 : k ≤ 1 := (div_le_one hpos).2 (by have := abs_nonneg d; linarith)
  simp only [orientation2]
  rw [orientation_det2_scale]
  apply (orientation_of_det_eq thr _).1
  rw [abs_mul, abs_of_pos (mul_pos k0 k0)]
  have e : k * (2 * |d| + thr) = thr := div_mul_cancel₀ _ (ne_of_gt hpos)
  have h1 : k * |d| < thr := by nlinarith [abs_nonneg d]
  calc k * k * |d| = k * (k * |d|) := by ring
    _ ≤ 1 * (k * |d|) := mul_le_mul_of_nonneg_right k1 (mul_nonneg k0.le (abs_nonneg d))
    _ = k * |d| := one_mul _
    _ < thr := h1

theorem orientation3_not_scale_invariant (thr f0x f0y f0z f1x f1y f1z f2x f2y f2z ox oy oz : α) (ht : 0 < thr) :
    ∃ k : α, 0 < k ∧ k ≤ 1 ∧
      orientation3 (fun x => |x|) thr (k * f0x) (k * f0y) (k * f0z) (k * f1x) (k * f1y) (k * f1z)
        (k * f2x) (k * f2y) (k * f2z) (k * ox) (k * oy) (k * oz) = 0 := by
  set d := orientation_det3 f0x f0y f0z f1x f1y f1z f2x f2y f2z ox oy oz with hd
  have hpos : (0 : α) < 2 * |d| + thr := by have := abs_nonneg d; linarith
  set k := thr / (2 * |d| + thr) with hk
  have k0 : 0 < k := div_pos ht hpos
  have k1 : k ≤ 1 := (div_le_one hpos).2 (by have := abs_nonneg d; linarith)
  refine ⟨k, k0, k1, ?_⟩
  simp only [orientation3]
  rw [orientation_det3_scale]
  apply (orientation_of_det_eq thr _).1
  have kk : 0 < k * k * k := mul_pos (mul_pos k0 k0) k0
  rw [abs_mul, abs_of_pos kk]
  have e : k * (2 * |d| + thr) = thr := div_mul_cancel₀ _ (ne_of_gt hpos)
  have h1 : k * |d| < thr := by nlinarith [abs_nonneg d]
  have k2 : k * k ≤ 1 := by nlinarith
  calc k * k * k * |d| = (k * k) * (k * |d|) := by ring
    _ ≤ 1 * (k * |d|) := mul_le_mul_of_nonneg_right k2 (mul_nonneg k0.le (abs_nonneg d))
    _ = k * |d| := one_mul _
    _ < thr := h1


/-! ## A.3 `choose_point_in_triangle` -/

/-- `np.argmax` of three numbers: the index of the FIRST maximum -/
theorem argmax3_spec (e0 e1 e2 : α) :
    (argmax3 e0 e1 e2 = 0 ∧ e1 ≤ e0 ∧ e2 ≤ e0) ∨ (argmax3 e0 e1 e2 = 1 ∧ e0 < e1 ∧ e2 ≤ e1) ∨
    (argmax3 e0 e1 e2 = 2 ∧ e0 < e2 ∧ e1 < e2) := by
  simp only [argmax3, gt_iff_lt]
  split_ifs with h1 h2 h3
  · right; right; exact ⟨rfl, lt_trans h1 h2, h2⟩
  · right; left; exact ⟨rfl, h1, not_lt.1 h2⟩
  · right; right; exact ⟨rfl, h3, lt_of_le_of_lt (not_lt.1 h1) h3⟩
  · left; exact ⟨rfl, not_lt.1 h1, not_lt.1 h3⟩

theorem argmax3_lt (e0 e1 e2 : α) : argmax3 e0 e1 e2 < 3 := by
  rcases argmax3_spec e0 e1 e2 with ⟨h, _⟩ | ⟨h, _⟩ | ⟨h, _⟩ <;> rw [h] <;> decide

/-- the selected entry is the maximum -/
theorem sel3_argmax3 (e0 e1 e2 : α) : sel3 (argmax3 e0 e1 e2) (e0, e1, e2) = max (max e0 e1) e2 := by
  rcases argmax3_spec e0 e1 e2 with ⟨h, a, b⟩ | ⟨h, a, b⟩ | ⟨h, a, b⟩ <;> rw [h] <;> simp only [sel3]
  · rw [max_eq_left a, max_eq_left b]
  · rw [max_eq_right a.le, max_eq_left b]
  · rw [max_eq_right (max_le a.le b.le)]

/-- the edge lengths are the square roots of the squared distances `|a−c|², |b−a|², |c−b|²` -/
theorem l2d_edge_lengths_eq (sqrt : α → α) (ax ay bx by' cx cy : α) :
    l2d_edge_lengths sqrt ax ay bx by' cx cy
      = (sqrt (dsq2 ax ay cx cy), sqrt (dsq2 bx by' ax ay), sqrt (dsq2 cx cy bx by')) := rfl

/-- `area` of `choose_point_in_triangle` is the area of the triangle -/
theorem l2d_choose_area_eq (ax ay bx by' cx cy : α) :
    l2d_choose_area (fun x => |x|) ax ay bx by' cx cy = |cross2 ax ay bx by' cx cy| / 2 := by
  simp only [l2d_choose_area, cross2]
  rw [one_div, mul_comm, div_eq_mul_inv]; congr 2; ring

theorem l2d_choose_area_eq_area (ax ay bx by' cx cy : α) :
    l2d_choose_area (fun x => |x|) ax ay bx by' cx cy = l2d_area (fun x => |x|) ax ay bx by' cx cy := by
  rw [l2d_choose_area_eq, l2d_area_eq_cross2]

/-- which edge `argmax` selects: the FIRST of the longest edges in the order `ca, ab, bc` -/
theorem l2d_longest_spec (sqrt : α → α) (hs : SqrtLaw sqrt) (ax ay bx by' cx cy : α) :
    (l2d_longest sqrt ax ay bx by' cx cy = 0 ∧ dsq2 bx by' ax ay ≤ dsq2 ax ay cx cy ∧ dsq2 cx cy bx by' ≤ dsq2 ax ay cx cy) ∨
    (l2d_longest sqrt ax ay bx by' cx cy = 1 ∧ dsq2 ax ay cx cy < dsq2 bx by' ax ay ∧ dsq2 cx cy bx by' ≤ dsq2 bx by' ax ay) ∨
    (l2d_longest sqrt ax ay bx by' cx cy = 2 ∧ dsq2 ax ay cx cy < dsq2 cx cy bx by' ∧ dsq2 bx by' ax ay < dsq2 cx cy bx by') := by
  have n0 := dsq2_nonneg ax ay cx cy
  have n1 := dsq2_nonneg bx by' ax ay
  have n2 := dsq2_nonneg cx cy bx by'
  simp only [l2d_longest, l2d_edge_lengths_eq]
  rcases argmax3_spec (sqrt (dsq2 ax ay cx cy)) (sqrt (dsq2 bx by' ax ay)) (sqrt (dsq2 cx cy bx by')) with
    ⟨h, a, b⟩ | ⟨h, a, b⟩ | ⟨h, a, b⟩
  · left; exact ⟨h, (sqrt_le_sqrt_iff hs n1 n0).1 a, (sqrt_le_sqrt_iff hs n2 n0).1 b⟩
  · right; left; exact ⟨h, (sqrt_lt_sqrt_iff hs n0 n1).1 a, (sqrt_le_sqrt_iff hs n2 n1).1 b⟩
  · right; right; exact ⟨h, (sqrt_lt_sqrt_iff hs n0 n2).1 a, (sqrt_lt_sqrt_iff hs n1 n2).1 b⟩

/-- the badness in closed form: the largest squared edge length over the area, times `sqrt 3 / 4` -/
theorem l2d_badness_eq (sqrt : α → α) (hs : SqrtLaw sqrt) (ax ay bx by' cx cy : α) :
    l2d_badness sqrt (fun x => |x|) ax ay bx by' cx cy
      = max (max (dsq2 ax ay cx cy) (dsq2 bx by' ax ay)) (dsq2 cx cy bx by') / (|cross2 ax ay bx by' cx cy| / 2)
          * (sqrt 3 / 4) := by
  have n0 := dsq2_nonneg ax ay cx cy
  have n1 := dsq2_nonneg bx by' ax ay
  have n2 := dsq2_nonneg cx cy bx by'
  simp only [l2d_badness, l2d_choose_area_eq, l2d_edge_lengths_eq]
  congr 2
  rcases argmax3_spec (sqrt (dsq2 ax ay cx cy)) (sqrt (dsq2 bx by' ax ay)) (sqrt (dsq2 cx cy bx by')) with
    ⟨h, a, b⟩ | ⟨h, a, b⟩ | ⟨h, a, b⟩ <;> rw [h] <;> simp only [sel3]
  · rw [(hs _ n0).2, max_eq_left ((sqrt_le_sqrt_iff hs n1 n0).1 a), max_eq_left ((sqrt_le_sqrt_iff hs n2 n0).1 b)]
  · rw [(hs _ n1).2, max_eq_right ((sqrt_lt_sqrt_iff hs n0 n1).1 a).le, max_eq_left ((sqrt_le_sqrt_iff hs n2 n1).1 b)]
  · rw [(hs _ n2).2, max_eq_right (max_le ((sqrt_lt_sqrt_iff hs n0 n2).1 a).le ((sqrt_lt_sqrt_iff hs n1 n2).1 b).le)]

/-- the two branches -/
theorem l2d_choose_cases (sqrt abs : α → α) (mb ax ay bx by' cx cy : α) :
    (l2d_badness sqrt abs ax ay bx by' cx cy ≤ mb ∧
      l2d_choose sqrt abs mb ax ay bx by' cx cy = l2d_centroid ax ay bx by' cx cy) ∨
    (mb < l2d_badness sqrt abs ax ay bx by' cx cy ∧
      l2d_choose sqrt abs mb ax ay bx by' cx cy
        = l2d_edge_mid (l2d_longest sqrt ax ay bx by' cx cy) ax ay bx by' cx cy) := by
  simp only [l2d_choose, gt_iff_lt]
  split_ifs with h
  · right; exact ⟨h, rfl⟩
  · left; exact ⟨not_lt.1 h, rfl⟩

/-- WHICH BRANCH, as a function of the threshold (non-degenerate triangle): the edge branch is taken exactly when
`max_badness · 2 |cross2| < (longest edge)² · sqrt 3`, i.e. `longest² / area · sqrt 3 / 4 > max_badness` -/
theorem l2d_choose_edge_iff (sqrt : α → α) (hs : SqrtLaw sqrt) (mb ax ay bx by' cx cy : α)
    (h : cross2 ax ay bx by' cx cy ≠ 0) :
    l2d_badness sqrt (fun x => |x|) ax ay bx by' cx cy > mb ↔
      mb * (2 * |cross2 ax ay bx by' cx cy|)
        < max (max (dsq2 ax ay cx cy) (dsq2 bx by' ax ay)) (dsq2 cx cy bx by') * sqrt 3 := by
  rw [l2d_badness_eq sqrt hs]
  have hc : 0 < |cross2 ax ay bx by' cx cy| := abs_pos.2 h
  set M := max (max (dsq2 ax ay cx cy) (dsq2 bx by' ax ay)) (dsq2 cx cy bx by') with hM
  have e : M / (|cross2 ax ay bx by' cx cy| / 2) * (sqrt 3 / 4) = M * sqrt 3 / (2 * |cross2 ax ay bx by' cx cy|) := by
    field_simp; ring
  rw [e, gt_iff_lt, lt_div_iff₀ (by positivity)]

/-- a larger threshold sends more triangles to the centroid -/
theorem l2d_choose_mono (sqrt abs : α → α) (mb mb' ax ay bx by' cx cy : α) (hm : mb ≤ mb')
    (h : l2d_choose sqrt abs mb ax ay bx by' cx cy = l2d_centroid ax ay bx by' cx cy ∧
         l2d_badness sqrt abs ax ay bx by' cx cy ≤ mb) :
    l2d_choose sqrt abs mb' ax ay bx by' cx cy = l2d_centroid ax ay bx by' cx cy := by
  simp only [l2d_choose, gt_iff_lt, not_lt.2 (le_trans h.2 hm), if_false]

/-- in a field a degenerate triangle has badness `0` (`x / 0 = 0`), whereas the code divides by zero (`inf`, edge
branch; `nan` for three equal points, centroid): statements about the branch carry `cross2 ≠ 0` -/
theorem l2d_badness_degenerate (sqrt : α → α) (ax ay bx by' cx cy : α) (h : cross2 ax ay bx by' cx cy = 0) :
    l2d_badness sqrt (fun x => |x|) ax ay bx by' cx cy = 0 := by
  simp only [l2d_badness, l2d_choose_area_eq, h, abs_zero, zero_div, div_zero, zero_mul]

theorem l2d_edge_mid_convex (i : Nat) (ax ay bx by' cx cy : α) :
    ∃ l0 l1 l2 : α, 0 ≤ l0 ∧ 0 ≤ l1 ∧ 0 ≤ l2 ∧ l0 + l1 + l2 = 1 ∧
      (l2d_edge_mid i ax ay bx by' cx cy).1 = l0 * ax + l1 * bx + l2 * cx ∧
      (l2d_edge_mid i ax ay bx by' cx cy).2 = l0 * ay + l1 * by' + l2 * cy := by
  rcases i with _ | _ | i
  · exact ⟨1 / 2, 0, 1 / 2, by norm_num, le_refl _, by norm_num, by norm_num, by simp only [l2d_edge_mid]; ring,
      by simp only [l2d_edge_mid]; ring⟩
  · exact ⟨1 / 2, 1 / 2, 0, by norm_num, by norm_num, le_refl _, by norm_num, by simp only [l2d_edge_mid]; ring,
      by simp only [l2d_edge_mid]; ring⟩
  · exact ⟨0, 1 / 2, 1 / 2, le_refl _, by norm_num, by norm_num, by norm_num, by simp only [l2d_edge_mid]; ring,
      by simp only [l2d_edge_mid]; ring⟩

/-- the chosen point is a CONVEX COMBINATION of the vertices (weights `1/3, 1/3, 1/3` or `1/2, 1/2, 0`) -/
theorem l2d_choose_convex (sqrt abs : α → α) (mb ax ay bx by' cx cy : α) :
    ∃ l0 l1 l2 : α, 0 ≤ l0 ∧ 0 ≤ l1 ∧ 0 ≤ l2 ∧ l0 + l1 + l2 = 1 ∧
      (l2d_choose sqrt abs mb ax ay bx by' cx cy).1 = l0 * ax + l1 * bx + l2 * cx ∧
      (l2d_choose sqrt abs mb ax ay bx by' cx cy).2 = l0 * ay + l1 * by' + l2 * cy := by
  rcases l2d_choose_cases sqrt abs mb ax ay bx by' cx cy with ⟨_, e⟩ | ⟨_, e⟩ <;> rw [e]
  · exact ⟨1 / 3, 1 / 3, 1 / 3, by norm_num, by norm_num, by norm_num, by norm_num,
      by simp only [l2d_centroid]; ring, by simp only [l2d_centroid]; ring⟩
  · exact l2d_edge_mid_convex _ _ _ _ _ _ _

/-- the midpoint returned in the edge branch is the midpoint of the selected edge: `0 ↦ ca`, `1 ↦ ab`, `2 ↦ bc` -/
theorem l2d_edge_mid_eq (ax ay bx by' cx cy : α) :
    l2d_edge_mid 0 ax ay bx by' cx cy = ((cx + ax) / 2, (cy + ay) / 2) ∧
    l2d_edge_mid 1 ax ay bx by' cx cy = ((ax + bx) / 2, (ay + by') / 2) ∧
    l2d_edge_mid 2 ax ay bx by' cx cy = ((bx + cx) / 2, (by' + cy) / 2) := ⟨rfl, rfl, rfl⟩

/-- translation: edge lengths, area, badness, selected edge do not change (every `sqrt`, `abs`) -/
theorem l2d_choose_parts_translate (sqrt abs : α → α) (s t ax ay bx by' cx cy : α) :
    l2d_edge_lengths sqrt (ax + s) (ay + t) (bx + s) (by' + t) (cx + s) (cy + t) = l2d_edge_lengths sqrt ax ay bx by' cx cy ∧
    l2d_choose_area abs (ax + s) (ay + t) (bx + s) (by' + t) (cx + s) (cy + t) = l2d_choose_area abs ax ay bx by' cx cy ∧
    l2d_badness sqrt abs (ax + s) (ay + t) (bx + s) (by' + t) (cx + s) (cy + t) = l2d_badness sqrt abs ax ay bx by' cx cy ∧
    l2d_longest sqrt (ax + s) (ay + t) (bx + s) (by' + t) (cx + s) (cy + t) = l2d_longest sqrt ax ay bx by' cx cy := by
  have e1 : l2d_edge_lengths sqrt (ax + s) (ay + t) (bx + s) (by' + t) (cx + s) (cy + t)
      = l2d_edge_lengths sqrt ax ay bx by' cx cy := by
    simp only [l2d_edge_lengths, add_sub_add_right_eq_sub]
  have e2 : l2d_choose_area abs (ax + s) (ay + t) (bx + s) (by' + t) (cx + s) (cy + t)
      = l2d_choose_area abs ax ay bx by' cx cy := by
    simp only [l2d_choose_area, add_sub_add_right_eq_sub]
  refine ⟨e1, e2, ?_, ?_⟩
  · simp only [l2d_badness, e1, e2]
  · simp only [l2d_longest, e1]

/-- TRANSLATION EQUIVARIANCE: the chosen point moves with the triangle -/
theorem l2d_choose_translate (sqrt abs : α → α) (mb s t ax ay bx by' cx cy : α) :
    l2d_choose sqrt abs mb (ax + s) (ay + t) (bx + s) (by' + t) (cx + s) (cy + t)
      = ((l2d_choose sqrt abs mb ax ay bx by' cx cy).1 + s, (l2d_choose sqrt abs mb ax ay bx by' cx cy).2 + t) := by
  obtain ⟨_, _, e3, e4⟩ := l2d_choose_parts_translate sqrt abs s t ax ay bx by' cx cy
  simp only [l2d_choose, e3, e4]
  split_ifs with h
  · generalize l2d_longest sqrt ax ay bx by' cx cy = i
    rcases i with _ | _ | i <;> simp only [l2d_edge_mid] <;> refine Prod.ext ?_ ?_ <;> simp only <;> ring
  · simp only [l2d_centroid]; refine Prod.ext ?_ ?_ <;> simp only <;> ring

/-- positive scaling: the edge lengths scale by `k` -/
theorem l2d_edge_lengths_scale (sqrt : α → α) (hs : SqrtLaw sqrt) (k : α) (hk : 0 < k) (ax ay bx by' cx cy : α) :
    l2d_edge_lengths sqrt (k * ax) (k * ay) (k * bx) (k * by') (k * cx) (k * cy)
      = (k * (l2d_edge_lengths sqrt ax ay bx by' cx cy).1, k * (l2d_edge_lengths sqrt ax ay bx by' cx cy).2.1,
         k * (l2d_edge_lengths sqrt ax ay bx by' cx cy).2.2) := by
  have sc : ∀ a b c d : α, sqrt (dsq2 (k * a) (k * b) (k * c) (k * d)) = k * sqrt (dsq2 a b c d) := by
    intro a b c d
    have : dsq2 (k * a) (k * b) (k * c) (k * d) = k * k * dsq2 a b c d := by simp only [dsq2]; ring
    rw [this, sqrt_scale hs k (dsq2_nonneg a b c d), abs_of_pos hk]
  simp only [l2d_edge_lengths_eq, sc]

theorem argmax3_scale (k : α) (hk : 0 < k) (e0 e1 e2 : α) :
    argmax3 (k * e0) (k * e1) (k * e2) = argmax3 e0 e1 e2 := by
  simp only [argmax3, gt_iff_lt, mul_lt_mul_iff_right₀ hk]

theorem sel3_scale (k : α) (i : Nat) (e0 e1 e2 : α) : sel3 i (k * e0, k * e1, k * e2) = k * sel3 i (e0, e1, e2) := by
  rcases i with _ | _ | i <;> rfl

/-- positive scaling: the area scales by `k²`, the badness and the selected edge do not change -/
theorem l2d_choose_parts_scale (sqrt : α → α) (hs : SqrtLaw sqrt) (k : α) (hk : 0 < k) (ax ay bx by' cx cy : α) :
    l2d_choose_area (fun x => |x|) (k * ax) (k * ay) (k * bx) (k * by') (k * cx) (k * cy)
      = k * k * l2d_choose_area (fun x => |x|) ax ay bx by' cx cy ∧
    l2d_badness sqrt (fun x => |x|) (k * ax) (k * ay) (k * bx) (k * by') (k * cx) (k * cy)
      = l2d_badness sqrt (fun x => |x|) ax ay bx by' cx cy ∧
    l2d_longest sqrt (k * ax) (k * ay) (k * bx) (k * by') (k * cx) (k * cy) = l2d_longest sqrt ax ay bx by' cx cy := by
  have e2 : l2d_choose_area (fun x => |x|) (k * ax) (k * ay) (k * bx) (k * by') (k * cx) (k * cy)
      = k * k * l2d_choose_area (fun x => |x|) ax ay bx by' cx cy := by
    have c : cross2 (k * ax) (k * ay) (k * bx) (k * by') (k * cx) (k * cy) = k * k * cross2 ax ay bx by' cx cy := by
      simp only [cross2]; ring
    rw [l2d_choose_area_eq, l2d_choose_area_eq, c, abs_mul, abs_of_pos (mul_pos hk hk), mul_div_assoc]
  have e1 := l2d_edge_lengths_scale sqrt hs k hk ax ay bx by' cx cy
  refine ⟨e2, ?_, ?_⟩
  · simp only [l2d_badness, e1, e2, argmax3_scale k hk, sel3_scale]
    rw [mul_mul_mul_comm, mul_div_mul_left _ _ (ne_of_gt (mul_pos hk hk))]
  · simp only [l2d_longest, e1, argmax3_scale k hk]

/-- POSITIVE SCALING EQUIVARIANCE: the chosen point scales with the triangle (the badness is scale free) -/
theorem l2d_choose_scale (sqrt : α → α) (hs : SqrtLaw sqrt) (k : α) (hk : 0 < k) (mb ax ay bx by' cx cy : α) :
    l2d_choose sqrt (fun x => |x|) mb (k * ax) (k * ay) (k * bx) (k * by') (k * cx) (k * cy)
      = (k * (l2d_choose sqrt (fun x => |x|) mb ax ay bx by' cx cy).1,
         k * (l2d_choose sqrt (fun x => |x|) mb ax ay bx by' cx cy).2) := by
  obtain ⟨_, e3, e4⟩ := l2d_choose_parts_scale sqrt hs k hk ax ay bx by' cx cy
  simp only [l2d_choose, e3, e4]
  split_ifs with h
  · generalize l2d_longest sqrt ax ay bx by' cx cy = i
    rcases i with _ | _ | i <;> simp only [l2d_edge_mid] <;> refine Prod.ext ?_ ?_ <;> simp only <;> ring
  · simp only [l2d_centroid]; refine Prod.ext ?_ ?_ <;> simp only <;> ring

/-- an equilateral triangle (three equal squared edge lengths `L ≠ 0`) has badness exactly `1` — the reason for the
factor `sqrt 3 / 4` -/
theorem l2d_badness_equilateral (sqrt : α → α) (hs : SqrtLaw sqrt) (ax ay bx by' cx cy : α)
    (h1 : dsq2 bx by' ax ay = dsq2 ax ay cx cy) (h2 : dsq2 cx cy bx by' = dsq2 ax ay cx cy)
    (h0 : dsq2 ax ay cx cy ≠ 0) :
    l2d_badness sqrt (fun x => |x|) ax ay bx by' cx cy = 1 := by
  rw [l2d_badness_eq sqrt hs, h1, h2, max_self, max_self]
  set L := dsq2 ax ay cx cy with hL
  obtain ⟨s0, s1⟩ := hs 3 (by norm_num)
  have Lpos : 0 < L := lt_of_le_of_ne (dsq2_nonneg _ _ _ _) (Ne.symm h0)
  -- 4 cross2² = 16 area² = 2(ab+bc+ca) − a² − b² − c² = 3 L²
  have g := gram_poly ax ay bx by' cx cy
  have e01 : dsq2 ax ay bx by' = L := by rw [← h1]; simp only [dsq2]; ring
  have e12 : dsq2 bx by' cx cy = L := by rw [← h2]; simp only [dsq2]; ring
  rw [e01, ← hL, e12] at g
  have cs : cross2 ax ay bx by' cx cy * cross2 ax ay bx by' cx cy = 3 * L * L / 4 := by linear_combination (-4 : α) * g
  have ca : |cross2 ax ay bx by' cx cy| = sqrt 3 * L / 2 := by
    have hn : 0 ≤ sqrt 3 * L / 2 := div_nonneg (mul_nonneg s0 Lpos.le) (by norm_num)
    refine (mul_self_inj (abs_nonneg _) hn).mp ?_
    rw [abs_mul_abs_self, cs]
    have : sqrt 3 * L / 2 * (sqrt 3 * L / 2) = (sqrt 3 * sqrt 3) * L * L / 4 := by ring
    rw [this, s1]
  rw [ca]
  have s3 : sqrt 3 ≠ 0 := by
    intro h; rw [h] at s1; norm_num at s1
  field_simp
  norm_num

/-! ## B. Learner1D: resolution cut-offs, curvature loss -/

/-- the result is one of `0`, `inf`, `default_loss` -/
theorem l1d_resolution_cut_cases (sqrt : α → α) (lo hi x0 x1 y0 y1 : α) :
    l1d_resolution_cut sqrt lo hi x0 x1 y0 y1 = Cut.zero ∨ l1d_resolution_cut sqrt lo hi x0 x1 y0 y1 = Cut.infinite ∨
    l1d_resolution_cut sqrt lo hi x0 x1 y0 y1 = Cut.loss (l1d_default_loss sqrt x0 x1 y0 y1) := by
  simp only [l1d_resolution_cut]
  split_ifs <;> simp

/-- `0` exactly when the width is STRICTLY below `min_length` -/
theorem l1d_resolution_cut_zero_iff (sqrt : α → α) (lo hi x0 x1 y0 y1 : α) :
    l1d_resolution_cut sqrt lo hi x0 x1 y0 y1 = Cut.zero ↔ x1 - x0 < lo := by
  simp only [l1d_resolution_cut, l1d_uniform_loss, gt_iff_lt]
  by_cases h1 : x1 - x0 < lo
  · simp [h1]
  · by_cases h2 : hi < x1 - x0 <;> simp [h1, h2]

/-- `inf` exactly when the width is not below `min_length` and STRICTLY above `max_length` -/
theorem l1d_resolution_cut_inf_iff (sqrt : α → α) (lo hi x0 x1 y0 y1 : α) :
    l1d_resolution_cut sqrt lo hi x0 x1 y0 y1 = Cut.infinite ↔ lo ≤ x1 - x0 ∧ hi < x1 - x0 := by
  simp only [l1d_resolution_cut, l1d_uniform_loss, gt_iff_lt]
  split_ifs with h1 h2
  · simp [not_le.2 h1]
  · simp [not_lt.1 h1, h2]
  · simp [h2]

/-- … with consistent thresholds (`min_length ≤ max_length`): `inf` exactly when the width exceeds `max_length` -/
theorem l1d_resolution_cut_inf_iff' (sqrt : α → α) (lo hi x0 x1 y0 y1 : α) (h : lo ≤ hi) :
    l1d_resolution_cut sqrt lo hi x0 x1 y0 y1 = Cut.infinite ↔ hi < x1 - x0 := by
  rw [l1d_resolution_cut_inf_iff]
  exact ⟨fun a => a.2, fun a => ⟨le_trans h a.le, a⟩⟩

/-- the loss itself exactly on the closed band `min_length ≤ width ≤ max_length` -/
theorem l1d_resolution_cut_loss_iff (sqrt : α → α) (lo hi x0 x1 y0 y1 : α) :
    l1d_resolution_cut sqrt lo hi x0 x1 y0 y1 = Cut.loss (l1d_default_loss sqrt x0 x1 y0 y1) ↔
      lo ≤ x1 - x0 ∧ x1 - x0 ≤ hi := by
  simp only [l1d_resolution_cut, l1d_uniform_loss, gt_iff_lt]
  split_ifs with h1 h2
  · simp [not_le.2 h1]
  · simp [not_le.2 h2]
  · simp [not_lt.1 h1, not_lt.1 h2]

/-- monotone in the thresholds: lowering `min_length` / raising `max_length` only moves intervals into the band -/
theorem l1d_resolution_cut_mono (sqrt : α → α) (lo hi lo' hi' x0 x1 y0 y1 : α) (h1 : lo' ≤ lo) (h2 : hi ≤ hi')
    (h : l1d_resolution_cut sqrt lo hi x0 x1 y0 y1 = Cut.loss (l1d_default_loss sqrt x0 x1 y0 y1)) :
    l1d_resolution_cut sqrt lo' hi' x0 x1 y0 y1 = Cut.loss (l1d_default_loss sqrt x0 x1 y0 y1) := by
  rw [l1d_resolution_cut_loss_iff] at h ⊢
  exact ⟨le_trans h1 h.1, le_trans h.2 h2⟩

/-- raising `min_length` keeps a `0`; lowering both thresholds keeps an `inf` -/
theorem l1d_resolution_cut_mono_zero (sqrt : α → α) (lo hi lo' hi' x0 x1 y0 y1 : α) (h1 : lo ≤ lo')
    (h : l1d_resolution_cut sqrt lo hi x0 x1 y0 y1 = Cut.zero) :
    l1d_resolution_cut sqrt lo' hi' x0 x1 y0 y1 = Cut.zero := by
  rw [l1d_resolution_cut_zero_iff] at h ⊢
  exact lt_of_lt_of_le h h1

theorem l1d_resolution_cut_mono_inf (sqrt : α → α) (lo hi lo' hi' x0 x1 y0 y1 : α) (h1 : lo' ≤ lo) (h2 : hi' ≤ hi)
    (h : l1d_resolution_cut sqrt lo hi x0 x1 y0 y1 = Cut.infinite) :
    l1d_resolution_cut sqrt lo' hi' x0 x1 y0 y1 = Cut.infinite := by
  rw [l1d_resolution_cut_inf_iff] at h ⊢
  exact ⟨le_trans h1 h.1, lt_of_le_of_lt h2 h.2⟩

/-- the number returned: `0`, `inf` or the default loss -/
theorem l1d_resolution_loss_cases (sqrt : α → α) (inf lo hi x0 x1 y0 y1 : α) :
    (x1 - x0 < lo ∧ l1d_resolution_loss sqrt inf lo hi x0 x1 y0 y1 = 0) ∨
    (lo ≤ x1 - x0 ∧ hi < x1 - x0 ∧ l1d_resolution_loss sqrt inf lo hi x0 x1 y0 y1 = inf) ∨
    (lo ≤ x1 - x0 ∧ x1 - x0 ≤ hi ∧
      l1d_resolution_loss sqrt inf lo hi x0 x1 y0 y1 = l1d_default_loss sqrt x0 x1 y0 y1) := by
  simp only [l1d_resolution_loss]
  rcases l1d_resolution_cut_cases sqrt lo hi x0 x1 y0 y1 with e | e | e
  · left; exact ⟨(l1d_resolution_cut_zero_iff sqrt lo hi x0 x1 y0 y1).1 e, by rw [e]; rfl⟩
  · right; left
    obtain ⟨a, b⟩ := (l1d_resolution_cut_inf_iff sqrt lo hi x0 x1 y0 y1).1 e
    exact ⟨a, b, by rw [e]; rfl⟩
  · right; right
    obtain ⟨a, b⟩ := (l1d_resolution_cut_loss_iff sqrt lo hi x0 x1 y0 y1).1 e
    exact ⟨a, b, by rw [e]; rfl⟩

/-- the loss inside the band is homogeneous of degree 1 and translation invariant together with the thresholds … -/
theorem l1d_default_loss_scale (sqrt : α → α) (hs : SqrtLaw sqrt) (k x0 x1 y0 y1 : α) :
    l1d_default_loss sqrt (k * x0) (k * x1) (k * y0) (k * y1) = |k| * l1d_default_loss sqrt x0 x1 y0 y1 := by
  simp only [l1d_default_loss]
  have : (k * x1 - k * x0) * (k * x1 - k * x0) + (k * y1 - k * y0) * (k * y1 - k * y0)
      = k * k * ((x1 - x0) * (x1 - x0) + (y1 - y0) * (y1 - y0)) := by ring
  rw [this, sqrt_scale hs k (add_nonneg (mul_self_nonneg _) (mul_self_nonneg _))]

/-- … so the whole cut-off loss is equivariant under a positive rescaling of the abscissae, the values and both
thresholds -/
theorem l1d_resolution_cut_scale (sqrt : α → α) (hs : SqrtLaw sqrt) (k : α) (hk : 0 < k) (lo hi x0 x1 y0 y1 : α) :
    l1d_resolution_cut sqrt (k * lo) (k * hi) (k * x0) (k * x1) (k * y0) (k * y1)
      = match l1d_resolution_cut sqrt lo hi x0 x1 y0 y1 with
        | Cut.zero => Cut.zero
        | Cut.infinite => Cut.infinite
        | Cut.loss v => Cut.loss (k * v) := by
  have e : k * x1 - k * x0 = k * (x1 - x0) := by ring
  simp only [l1d_resolution_cut, l1d_uniform_loss, gt_iff_lt, e, mul_lt_mul_iff_right₀ hk,
    l1d_default_loss_scale sqrt hs, abs_of_pos hk]
  split_ifs <;> rfl

/-- the three parts of the curvature loss -/
theorem l1d_curvature_loss_eq (sqrt abs : α → α) (af ef hf x0 x1 x2 x3 y0 y1 y2 y3 : α) :
    l1d_curvature_loss4 sqrt abs af ef hf x0 x1 x2 x3 y0 y1 y2 y3
      = af * sqrt (l1d_triangle_loss4 abs x0 x1 x2 x3 y0 y1 y2 y3) + ef * l1d_default_loss sqrt x1 x2 y1 y2
        + hf * l1d_uniform_loss x1 x2 y1 y2 ∧
    l1d_curvature_loss3l sqrt abs af ef hf x1 x2 x3 y1 y2 y3
      = af * sqrt (l1d_triangle_loss3l abs x1 x2 x3 y1 y2 y3) + ef * l1d_default_loss sqrt x1 x2 y1 y2
        + hf * l1d_uniform_loss x1 x2 y1 y2 ∧
    l1d_curvature_loss3r sqrt abs af ef hf x0 x1 x2 y0 y1 y2
      = af * sqrt (l1d_triangle_loss3r abs x0 x1 x2 y0 y1 y2) + ef * l1d_default_loss sqrt x1 x2 y1 y2
        + hf * l1d_uniform_loss x1 x2 y1 y2 ∧
    l1d_curvature_loss2 sqrt af ef hf x1 x2 y1 y2
      = af * sqrt (x2 - x1) + ef * l1d_default_loss sqrt x1 x2 y1 y2 + hf * (x2 - x1) :=
  ⟨rfl, rfl, rfl, rfl⟩

theorem nd_volume2_nonneg (x0 y0 x1 y1 x2 y2 : α) : 0 ≤ nd_volume2 (fun x => |x|) x0 y0 x1 y1 x2 y2 := by
  rw [C20.nd_volume2_eq_cross2]; exact div_nonneg (abs_nonneg _) (by norm_num)

theorem l1d_triangle_loss4_nonneg (x0 x1 x2 x3 y0 y1 y2 y3 : α) :
    0 ≤ l1d_triangle_loss4 (fun x => |x|) x0 x1 x2 x3 y0 y1 y2 y3 := by
  rw [(C20.l1d_triangle_loss_eq (fun x => |x|) x0 x1 x2 x3 y0 y1 y2 y3).1]
  have a := nd_volume2_nonneg x0 y0 x1 y1 x2 y2
  have b := nd_volume2_nonneg x1 y1 x2 y2 x3 y3
  exact div_nonneg (by linarith) (by norm_num)

/-- homogeneity degrees of the three parts: triangle loss (an area) 2, default loss (a length) 1, width 1 -/
theorem l1d_curvature_parts_scale (sqrt : α → α) (hs : SqrtLaw sqrt) (k x0 x1 x2 x3 y0 y1 y2 y3 : α) :
    l1d_triangle_loss4 (fun x => |x|) (k * x0) (k * x1) (k * x2) (k * x3) (k * y0) (k * y1) (k * y2) (k * y3)
      = k ^ 2 * l1d_triangle_loss4 (fun x => |x|) x0 x1 x2 x3 y0 y1 y2 y3 ∧
    l1d_default_loss sqrt (k * x1) (k * x2) (k * y1) (k * y2) = |k| * l1d_default_loss sqrt x1 x2 y1 y2 ∧
    l1d_uniform_loss (k * x1) (k * x2) (k * y1) (k * y2) = k * l1d_uniform_loss x1 x2 y1 y2 := by
  refine ⟨?_, l1d_default_loss_scale sqrt hs k x1 x2 y1 y2, by simp only [l1d_uniform_loss]; ring⟩
  rw [(C20.l1d_triangle_loss_eq (fun x => |x|) _ _ _ _ _ _ _ _).1, (C20.l1d_triangle_loss_eq (fun x => |x|) x0 x1 x2 x3 y0 y1 y2 y3).1,
    C20.nd_volume2_scale, C20.nd_volume2_scale, sq_abs]
  ring

/-- … hence the curvature loss (square root of the triangle loss) is homogeneous of degree 1 under a joint
non-negative rescaling of abscissae and values -/
theorem l1d_curvature_loss4_scale (sqrt : α → α) (hs : SqrtLaw sqrt) (k : α) (hk : 0 ≤ k)
    (af ef hf x0 x1 x2 x3 y0 y1 y2 y3 : α) :
    l1d_curvature_loss4 sqrt (fun x => |x|) af ef hf (k * x0) (k * x1) (k * x2) (k * x3) (k * y0) (k * y1) (k * y2) (k * y3)
      = k * l1d_curvature_loss4 sqrt (fun x => |x|) af ef hf x0 x1 x2 x3 y0 y1 y2 y3 := by
  obtain ⟨e1, e2, e3⟩ := l1d_curvature_parts_scale sqrt hs k x0 x1 x2 x3 y0 y1 y2 y3
  simp only [l1d_uniform_loss] at e3
  simp only [l1d_curvature_loss4, l1d_curvature_combine, e1, e2, e3]
  rw [pow_two, sqrt_scale hs k (l1d_triangle_loss4_nonneg _ _ _ _ _ _ _ _), abs_of_nonneg hk]
  ring

/-- translation of the abscissae and of the values leaves the curvature loss unchanged (every `sqrt`, `abs`) -/
theorem l1d_curvature_loss4_translate (sqrt abs : α → α) (af ef hf s t x0 x1 x2 x3 y0 y1 y2 y3 : α) :
    l1d_curvature_loss4 sqrt abs af ef hf (x0 + s) (x1 + s) (x2 + s) (x3 + s) (y0 + t) (y1 + t) (y2 + t) (y3 + t)
      = l1d_curvature_loss4 sqrt abs af ef hf x0 x1 x2 x3 y0 y1 y2 y3 := by
  simp only [l1d_curvature_loss4, l1d_curvature_combine, l1d_triangle_loss4, l1d_default_loss, add_sub_add_right_eq_sub]

/-! ## C. LearnerND `default_loss`, triangle of the plane, scalar values -/

/-- the Cayley-Menger determinant of three points in the squared distances (`−16 area²`) -/
theorem cayleyMenger3_eq (d01 d02 d12 : α) :
    cayleyMenger3 d01 d02 d12
      = -(2 * (d01 * d02 + d01 * d12 + d02 * d12) - d01 * d01 - d02 * d02 - d12 * d12) := by
  simp only [cayleyMenger3, det4, fast_det3]; ring

/-- `vol_square` is the Gram determinant of the embedded edges `(p_i − p_0, v_i − v_0)` over 4: the squared area of
the embedded triangle, `(|u × v| / 2)²` -/
theorem nd_default_loss2_volsq_eq_gram (x0 y0 x1 y1 x2 y2 v0 v1 v2 : α) :
    nd_default_loss2_volsq x0 y0 x1 y1 x2 y2 v0 v1 v2
      = gram3 (x1 - x0) (y1 - y0) (v1 - v0) (x2 - x0) (y2 - y0) (v2 - v0) / 4 := by
  simp only [nd_default_loss2_volsq, cayleyMenger3_eq, sqeuclid3, gram3]
  rw [div_eq_div_iff (by norm_num) (by norm_num)]; ring

theorem nd_default_loss2_volsq_nonneg (x0 y0 x1 y1 x2 y2 v0 v1 v2 : α) :
    0 ≤ nd_default_loss2_volsq x0 y0 x1 y1 x2 y2 v0 v1 v2 := by
  rw [nd_default_loss2_volsq_eq_gram]; exact div_nonneg (gram3_nonneg _ _ _ _ _ _) (by norm_num)

/-- in exact arithmetic the `return 0` and `raise ValueError` branches are never taken (they answer rounding
errors): the loss is the square root of `vol_square` -/
theorem nd_default_loss2_eq (sqrt : α → α) (negtol x0 y0 x1 y1 x2 y2 v0 v1 v2 sc : α) :
    nd_default_loss2 sqrt negtol x0 y0 x1 y1 x2 y2 v0 v1 v2 sc
      = some (sqrt (nd_default_loss2_volsq x0 y0 x1 y1 x2 y2 v0 v1 v2)) := by
  simp only [nd_default_loss2, nd_default_loss2_of_volsq,
    not_lt.2 (nd_default_loss2_volsq_nonneg x0 y0 x1 y1 x2 y2 v0 v1 v2), if_false]

/-- THE AREA OF THE EMBEDDED TRIANGLE: non-negative, squares to `|u × v|² / 4` -/
theorem nd_default_loss2_sq (sqrt : α → α) (hs : SqrtLaw sqrt) (negtol x0 y0 x1 y1 x2 y2 v0 v1 v2 sc : α) :
    ∃ r : α, nd_default_loss2 sqrt negtol x0 y0 x1 y1 x2 y2 v0 v1 v2 sc = some r ∧ 0 ≤ r ∧
      r * r = gram3 (x1 - x0) (y1 - y0) (v1 - v0) (x2 - x0) (y2 - y0) (v2 - v0) / 4 := by
  refine ⟨_, nd_default_loss2_eq sqrt negtol x0 y0 x1 y1 x2 y2 v0 v1 v2 sc, ?_⟩
  rw [← nd_default_loss2_volsq_eq_gram]
  exact hs _ (nd_default_loss2_volsq_nonneg _ _ _ _ _ _ _ _ _)

/-- the same number as Learner2D's `minimize_triangle_surface_loss` with normalisation constant `1` (both are the
area of the embedded triangle; every `sqrt`) -/
theorem nd_default_loss2_eq_surface_loss (sqrt : α → α) (negtol x0 y0 x1 y1 x2 y2 v0 v1 v2 sc : α) :
    nd_default_loss2 sqrt negtol x0 y0 x1 y1 x2 y2 v0 v1 v2 sc
      = some (l2d_surface_loss sqrt x0 y0 x1 y1 x2 y2 v0 v1 v2 1) := by
  rw [nd_default_loss2_eq]
  simp only [l2d_surface_loss]
  congr 2
  rw [nd_default_loss2_volsq_eq_gram, l2d_surface_radicand_eq_gram]
  simp only [gram3, div_one]; ring

/-- relabelling of the vertices (with their values) -/
theorem nd_default_loss2_volsq_perm (x0 y0 x1 y1 x2 y2 v0 v1 v2 : α) :
    nd_default_loss2_volsq x1 y1 x0 y0 x2 y2 v1 v0 v2 = nd_default_loss2_volsq x0 y0 x1 y1 x2 y2 v0 v1 v2 ∧
    nd_default_loss2_volsq x0 y0 x2 y2 x1 y1 v0 v2 v1 = nd_default_loss2_volsq x0 y0 x1 y1 x2 y2 v0 v1 v2 ∧
    nd_default_loss2_volsq x2 y2 x1 y1 x0 y0 v2 v1 v0 = nd_default_loss2_volsq x0 y0 x1 y1 x2 y2 v0 v1 v2 ∧
    nd_default_loss2_volsq x1 y1 x2 y2 x0 y0 v1 v2 v0 = nd_default_loss2_volsq x0 y0 x1 y1 x2 y2 v0 v1 v2 ∧
    nd_default_loss2_volsq x2 y2 x0 y0 x1 y1 v2 v0 v1 = nd_default_loss2_volsq x0 y0 x1 y1 x2 y2 v0 v1 v2 := by
  simp only [nd_default_loss2_volsq_eq_gram, gram3]
  refine ⟨by ring, by ring, by ring, by ring, by ring⟩

theorem nd_default_loss2_perm (sqrt : α → α) (negtol x0 y0 x1 y1 x2 y2 v0 v1 v2 sc : α) :
    nd_default_loss2 sqrt negtol x1 y1 x0 y0 x2 y2 v1 v0 v2 sc = nd_default_loss2 sqrt negtol x0 y0 x1 y1 x2 y2 v0 v1 v2 sc ∧
    nd_default_loss2 sqrt negtol x0 y0 x2 y2 x1 y1 v0 v2 v1 sc = nd_default_loss2 sqrt negtol x0 y0 x1 y1 x2 y2 v0 v1 v2 sc ∧
    nd_default_loss2 sqrt negtol x2 y2 x1 y1 x0 y0 v2 v1 v0 sc = nd_default_loss2 sqrt negtol x0 y0 x1 y1 x2 y2 v0 v1 v2 sc ∧
    nd_default_loss2 sqrt negtol x1 y1 x2 y2 x0 y0 v1 v2 v0 sc = nd_default_loss2 sqrt negtol x0 y0 x1 y1 x2 y2 v0 v1 v2 sc ∧
    nd_default_loss2 sqrt negtol x2 y2 x0 y0 x1 y1 v2 v0 v1 sc = nd_default_loss2 sqrt negtol x0 y0 x1 y1 x2 y2 v0 v1 v2 sc := by
  obtain ⟨a, b, c, d, e⟩ := nd_default_loss2_volsq_perm x0 y0 x1 y1 x2 y2 v0 v1 v2
  simp only [nd_default_loss2_eq, a, b, c, d, e, and_self]

/-- translation of the points, common shift of the values -/
theorem nd_default_loss2_translate (sqrt : α → α) (negtol s t r x0 y0 x1 y1 x2 y2 v0 v1 v2 sc : α) :
    nd_default_loss2 sqrt negtol (x0 + s) (y0 + t) (x1 + s) (y1 + t) (x2 + s) (y2 + t) (v0 + r) (v1 + r) (v2 + r) sc
      = nd_default_loss2 sqrt negtol x0 y0 x1 y1 x2 y2 v0 v1 v2 sc := by
  simp only [nd_default_loss2_eq, nd_default_loss2_volsq_eq_gram, add_sub_add_right_eq_sub]

/-- DEGREE-2 HOMOGENEITY under a joint scaling of the points and the values -/
theorem nd_default_loss2_volsq_scale (k x0 y0 x1 y1 x2 y2 v0 v1 v2 : α) :
    nd_default_loss2_volsq (k * x0) (k * y0) (k * x1) (k * y1) (k * x2) (k * y2) (k * v0) (k * v1) (k * v2)
      = (k * k) * (k * k) * nd_default_loss2_volsq x0 y0 x1 y1 x2 y2 v0 v1 v2 := by
  simp only [nd_default_loss2_volsq_eq_gram, gram3]; ring

theorem nd_default_loss2_scale (sqrt : α → α) (hs : SqrtLaw sqrt) (negtol k x0 y0 x1 y1 x2 y2 v0 v1 v2 sc sc' : α) :
    nd_default_loss2 sqrt negtol (k * x0) (k * y0) (k * x1) (k * y1) (k * x2) (k * y2) (k * v0) (k * v1) (k * v2) sc'
      = (nd_default_loss2 sqrt negtol x0 y0 x1 y1 x2 y2 v0 v1 v2 sc).map (fun r => k ^ 2 * r) := by
  simp only [nd_default_loss2_eq, Option.map_some, nd_default_loss2_volsq_scale]
  rw [sqrt_scale hs (k * k) (nd_default_loss2_volsq_nonneg _ _ _ _ _ _ _ _ _), abs_mul_self, pow_two]

/-- constant values: the loss is the area of the triangle of the plane (`learnerND.volume`, `uniform_loss`) -/
theorem nd_default_loss2_flat (sqrt : α → α) (hs : SqrtLaw sqrt) (negtol x0 y0 x1 y1 x2 y2 v sc : α) :
    nd_default_loss2 sqrt negtol x0 y0 x1 y1 x2 y2 v v v sc = some (nd_volume2 (fun x => |x|) x0 y0 x1 y1 x2 y2) := by
  rw [nd_default_loss2_eq_surface_loss, l2d_surface_loss_flat sqrt hs, l2d_area_eq_nd_volume2]

end Prims2
