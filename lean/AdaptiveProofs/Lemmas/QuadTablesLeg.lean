import AdaptiveProofs.Lemmas.QuadTablesPoly

/-!
Kernel computations over the generated Legendre table (`Gen.QuadTables.legNum / legDen`, i.e. `legendre(34)` of
`integrator_coeffs.py`).  Each `decide +kernel` below is an exact rational computation done by the Lean kernel; nothing is
compiled or trusted beyond the kernel (no `native_decide`).

Orthogonality is not checked pair by pair (34² products of polynomials) but through the moments:
`∫ x^a P_j = 0` for `a < j` (561 moments), which gives `∫ P_i P_j = 0` for `i < j` by linearity (`inner_eq_zero`) and for
`i > j` by symmetry (`inner_comm`); the 34 diagonal values are computed directly.
-/
namespace QuadPoly
open Gen.QuadTables

/-- `∫_{-1}^{1} x^a P_j = 0` for all `a < j` -/
def legVanishOK (j : Nat) : Bool := (List.range j).all fun a => integFrom a (legP j) == 0

/-- `∫_{-1}^{1} P_j² = 2/(2j+1)` -/
def legDiagOK (j : Nat) : Bool := inner (legP j) (legP j) == 2 / (2 * (j : Rat) + 1)

/-- `P_j` has `j+1` coefficients -/
def legLenOK (j : Nat) : Bool := (legP j).length == j + 1

/-- Bonnet's recursion at `n ≥ 1`, as an identity of coefficient lists -/
def legBonnetOK (n : Nat) : Bool :=
  n == 0 ||
  pscale ((n : Rat) + 1) (legP (n + 1))
    == padd (pscale (2 * (n : Rat) + 1) (pshift (legP n))) (pscale (-(n : Rat)) (legP (n - 1)))

def legRecOK (n : Nat) : Bool := legP n == legRec n

set_option maxRecDepth 100000 in
theorem legVanish_check : (List.range 34).all legVanishOK = true := by decide +kernel

set_option maxRecDepth 100000 in
theorem legDiag_check : (List.range 34).all legDiagOK = true := by decide +kernel

set_option maxRecDepth 100000 in
theorem legLen_check : (List.range 34).all legLenOK = true := by decide +kernel

set_option maxRecDepth 100000 in
theorem legBonnet_check : (List.range 33).all legBonnetOK = true := by decide +kernel

set_option maxRecDepth 100000 in
theorem legRec_check : (List.range 34).all legRecOK = true := by decide +kernel

theorem legCount_check : legCount = 34 ∧ legNum.length = 34 ∧ legDen.length = 34 := by decide +kernel

lemma legP_length {j : Nat} (hj : j < 34) : (legP j).length = j + 1 := by
  have := all_range legLen_check j hj
  simpa [legLenOK] using this

lemma legP_moment_zero {j : Nat} (hj : j < 34) {a : Nat} (ha : a < j) : integFrom a (legP j) = 0 := by
  have := all_range legVanish_check j hj
  have := all_range this a ha
  simpa using this

lemma legP_diag {j : Nat} (hj : j < 34) : inner (legP j) (legP j) = 2 / (2 * (j : ℚ) + 1) := by
  have := all_range legDiag_check j hj
  simpa [legDiagOK] using this

lemma legP_inner_lt {i j : Nat} (hj : j < 34) (hij : i < j) : inner (legP i) (legP j) = 0 := by
  apply inner_eq_zero
  intro a ha
  rw [legP_length (by omega)] at ha
  exact legP_moment_zero hj (by omega)

lemma legP_inner {i j : Nat} (hi : i < 34) (hj : j < 34) :
    inner (legP i) (legP j) = if i = j then 2 / (2 * (i : ℚ) + 1) else 0 := by
  rcases Nat.lt_trichotomy i j with h | h | h
  · rw [if_neg (by omega), legP_inner_lt hj h]
  · subst h; rw [if_pos rfl, legP_diag hi]
  · rw [if_neg (by omega), inner_comm, legP_inner_lt hi h]

lemma legP_bonnet {n : Nat} (h1 : 1 ≤ n) (hn : n + 1 < 34) :
    pscale ((n : ℚ) + 1) (legP (n + 1))
      = padd (pscale (2 * (n : ℚ) + 1) (pshift (legP n))) (pscale (-(n : ℚ)) (legP (n - 1))) := by
  have := all_range legBonnet_check n (by omega)
  have hn0 : n ≠ 0 := by omega
  simpa [legBonnetOK, hn0] using this

lemma legP_eq_legRec {n : Nat} (hn : n < 34) : legP n = legRec n := by
  have := all_range legRec_check n hn
  simpa [legRecOK] using this

end QuadPoly
