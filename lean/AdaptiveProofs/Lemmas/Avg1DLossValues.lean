import AdaptiveProofs.Lemmas.Avg1DLoss
import AdaptiveProofs.Lemmas.L1DYInv

/-!
Helper lemmas for the full AverageLearner1D model, part 5: the VALUES of the inherited loss table
`losses` for loss functions that do not grow when the output scale grows.

* `liveKeys_complete_of_nonincreasing` — the LIVE reverse iteration
  `for interval in reversed(self.losses): …` visits EVERY key if no re-inserted entry has a larger
  (rounded, infinity-aware) loss than the entry it replaces.
* `ScaleMonotone`, `FlatScaleFree` — the two conditions on the loss function.
* `VInv` — the run-level invariant, `vinv_run`.
-/
set_option linter.unusedSectionVars false
set_option linter.unusedVariables false
set_option linter.unusedSimpArgs false

namespace L1D
variable {α : Type} [Field α] [LinearOrder α] [IsStrictOrderedRing α]
variable (r12 : α → α)

/-! ### list level: re-inserting an entry whose loss did not grow keeps the prefix before it -/

theorem linsert_append_of_not_lt {sc : α} {e : Ival α × Loss α} (A B : List (Ival α × Loss α))
    (h : ∀ f ∈ A, keyLt r12 sc e f = false) :
    linsert r12 sc e (A ++ B) = A ++ linsert r12 sc e B := by
  induction A with
  | nil => rfl
  | cons f A ih =>
    have hf : keyLt r12 sc e f = false := h f List.mem_cons_self
    show (if keyLt r12 sc e f then e :: f :: (A ++ B) else f :: linsert r12 sc e (A ++ B)) = _
    rw [hf, ih (fun g hg => h g (List.mem_cons_of_mem _ hg))]
    rfl

theorem length_linsert (sc : α) (e : Ival α × Loss α) (l : List (Ival α × Loss α)) :
    (linsert r12 sc e l).length = l.length + 1 := by
  induction l with
  | nil => rfl
  | cons f l ih =>
    show (if keyLt r12 sc e f then e :: f :: l else f :: linsert r12 sc e l).length = _
    split
    · rfl
    · simp [ih]

theorem lerase_mid {A B : List (Ival α × Loss α)} {e : Ival α × Loss α}
    (hA : ∀ f ∈ A, f.1 ≠ e.1) (hB : ∀ f ∈ B, f.1 ≠ e.1) :
    lerase e.1 (A ++ e :: B) = A ++ B := by
  unfold lerase
  rw [List.filter_append, List.filter_cons]
  have h1 : A.filter (fun f => !(decide (f.1 = e.1))) = A := by
    apply List.filter_eq_self.2
    intro f hf
    simp [hA f hf]
  have h2 : B.filter (fun f => !(decide (f.1 = e.1))) = B := by
    apply List.filter_eq_self.2
    intro f hf
    simp [hB f hf]
  rw [h1, h2]
  simp

/-- an entry `f` sorted before `e` stays before the re-inserted `(e.1, v)` when the new loss is not
larger than the old one (ties are broken by the interval, which did not change) -/
theorem keyLt_reinsert_false {sc : α} {e f : Ival α × Loss α} {v : Loss α}
    (hfe : keyLt r12 sc f e = true)
    (hle : finiteLoss r12 e.1 v sc ≤ finiteLoss r12 e.1 e.2 sc) :
    keyLt r12 sc (e.1, v) f = false := by
  rw [← Bool.not_eq_true, keyLt_iff]
  rw [keyLt_iff] at hfe
  rintro (h | ⟨h1, h2⟩)
  · rcases hfe with h' | ⟨h', _⟩
    · exact absurd (lt_trans (lt_of_lt_of_le h hle) h') (lt_irrefl _)
    · rw [h'] at h; exact absurd (lt_of_lt_of_le h hle) (lt_irrefl _)
  · rcases hfe with h' | ⟨h', h''⟩
    · dsimp only at h1
      rw [← h1] at h'
      exact absurd (lt_of_lt_of_le h' hle) (lt_irrefl _)
    · have := ivalLt_trans h2 h''
      rw [ivalLt_irrefl] at this
      exact absurd this (by simp)

/-- `d[ival] = v` on a sorted table without duplicate keys, `v` not larger than the stored loss:
the entries before position `i` are untouched and the length is the same -/
theorem lset_prefix {sc : α} {l : List (Ival α × Loss α)} (hs : SortedT r12 sc l)
    (hn : (tkeys l).Nodup) {i : Nat} {e : Ival α × Loss α} (he : l[i]? = some e) {v : Loss α}
    (hle : finiteLoss r12 e.1 v sc ≤ finiteLoss r12 e.1 e.2 sc) :
    (lset r12 sc e.1 v l).take i = l.take i ∧ (lset r12 sc e.1 v l).length = l.length := by
  obtain ⟨hi, hei⟩ := List.getElem?_eq_some_iff.1 he
  have hl : l = l.take i ++ e :: l.drop (i + 1) := by
    conv_lhs => rw [← List.take_append_drop i l]
    rw [List.drop_eq_getElem_cons hi, hei]
  generalize hA : l.take i = A at hl
  generalize l.drop (i + 1) = B at hl
  have hAl : A.length = i := by rw [← hA, List.length_take]; omega
  subst hl
  unfold SortedT at hs
  rw [List.pairwise_append] at hs
  obtain ⟨_, _, hAB⟩ := hs
  have hnd : ((A ++ e :: B).map Prod.fst).Nodup := hn
  rw [List.map_append, List.map_cons, List.nodup_append] at hnd
  obtain ⟨_, hnB, hdis⟩ := hnd
  rw [List.nodup_cons] at hnB
  have hAne : ∀ f ∈ A, f.1 ≠ e.1 := by
    intro f hf
    exact hdis f.1 (List.mem_map_of_mem hf) e.1 List.mem_cons_self
  have hBne : ∀ f ∈ B, f.1 ≠ e.1 := by
    intro f hf h
    exact hnB.1 (h ▸ List.mem_map_of_mem hf)
  have hins : lset r12 sc e.1 v (A ++ e :: B) = A ++ linsert r12 sc (e.1, v) B := by
    unfold lset
    rw [lerase_mid hAne hBne]
    apply linsert_append_of_not_lt
    intro f hf
    exact keyLt_reinsert_false r12 (hAB f hf e List.mem_cons_self) hle
  rw [hins]
  refine ⟨?_, ?_⟩
  · rw [← hAl, List.take_left]
  · simp [length_linsert]

end L1D


/-! ### the two conditions on the loss function -/
namespace L1D
variable {α : Type} [Field α] [LinearOrder α] [IsStrictOrderedRing α]
variable (lossFn : List (Option α) → List (Option (List α)) → Loss α) (r12 : α → α)

/-- the values handed to `loss_per_interval`, divided by the output scale `t` -/
def scaleVals (t : α) (vals : List (Option (List α))) : List (Option (List α)) :=
  vals.map (Option.map (List.map (· / t)))

/-- all present values are the same -/
def AllEq (vals : List (Option (List α))) : Prop := ∀ a b, some a ∈ vals → some b ∈ vals → a = b

/-- THE LOSS DOES NOT GROW WHEN THE OUTPUT SCALE GROWS: for the same scaled abscissae and the same
raw values, dividing the values by a larger positive scale gives a loss that is not larger in the
order the loss container is sorted by (`finite_loss`: rounded, an infinite loss is replaced by the
scaled interval width).  The x-scale does not occur: the bounds of an AverageLearner1D are fixed
and every told abscissa lies inside them, so `_scale[0]` is constant. -/
def ScaleMonotone : Prop :=
  ∀ (xsS : List (Option α)) (vals : List (Option (List α))) (t t' : α), 0 < t → t ≤ t' →
    ∀ (iv : Ival α) (sc : α),
      finiteLoss r12 iv (lossFn xsS (scaleVals t' vals)) sc ≤
        finiteLoss r12 iv (lossFn xsS (scaleVals t vals)) sc

/-- on constant data the loss does not depend on the output scale (needed for the step in which
`_scale[1]` leaves `0`: the code divides by `1` while the scale is `0`, and the new scale may be
smaller than `1`) -/
def FlatScaleFree : Prop :=
  ∀ (xsS : List (Option α)) (vals : List (Option (List α))) (t t' : α), 0 < t → 0 < t' →
    AllEq vals → lossFn xsS (scaleVals t' vals) = lossFn xsS (scaleVals t vals)

/-- the raw values in the index window of the interval with left end `p` -/
def rawVals (s : State α) (p : α) : List (Option (List α)) :=
  (win s.xs s.nn (s.xs.findIdx (fun y => y = p))).map (fun pt => pt.bind (dataGet s.data))

theorem getLossAt_eq_raw (s : State α) (sy p q : α) :
    getLossAt lossFn s sy p q =
      if q - p < s.dxEps then .fin 0 else
        lossFn ((win s.xs s.nn (s.xs.findIdx (fun y => y = p))).map
            (Option.map (fun x => x / s.scaleX)))
          (scaleVals (if sy = 0 then 1 else sy) (rawVals s p)) := by
  unfold getLossAt
  rw [getLoss_eq_win]
  have hv : ∀ (e : α) (w : List (Option α)),
      w.map (fun p => p.bind (fun x => (dataGet s.data x).map (fun y => y.map (· / e)))) =
        scaleVals e (w.map (fun pt => pt.bind (dataGet s.data))) := by
    intro e w
    unfold scaleVals
    rw [List.map_map]
    apply List.map_congr_left
    intro pt _
    cases pt <;> rfl
  dsimp only
  rw [hv]
  rfl

theorem mem_of_dataGet {d : List (α × List α)} {z : α} {a : List α} (h : dataGet d z = some a) :
    ∃ kv ∈ d, kv.2 = a := by
  unfold dataGet at h
  obtain ⟨kv, hkv, rfl⟩ := Option.map_eq_some_iff.1 h
  exact ⟨kv, List.mem_of_find?_eq_some hkv, rfl⟩

theorem allEq_rawVals {s : State α} (hc : ∀ kv ∈ s.data, ∀ kv' ∈ s.data, kv.2 = kv'.2) (p : α) :
    AllEq (rawVals s p) := by
  have key : ∀ a, some a ∈ rawVals s p → ∃ kv ∈ s.data, kv.2 = a := by
    intro a ha
    unfold rawVals at ha
    obtain ⟨pt, _, hpt⟩ := List.mem_map.1 ha
    cases pt with
    | none => cases hpt
    | some z => exact mem_of_dataGet hpt
  intro a b ha hb
  obtain ⟨kv, hkv, rfl⟩ := key a ha
  obtain ⟨kv', hkv', rfl⟩ := key b hb
  exact hc kv hkv kv' hkv'

/-- the loss function's value on the same data at a larger output scale is not larger -/
theorem finiteLoss_getLossAt_le (hm : ScaleMonotone lossFn r12) (hfl : FlatScaleFree lossFn)
    (s : State α) {sy sy' : α} (h0 : 0 ≤ sy) (hle : sy ≤ sy') (p q : α)
    (hflat : sy = 0 → AllEq (rawVals s p)) (iv : Ival α) (sc : α) :
    finiteLoss r12 iv (getLossAt lossFn s sy' p q) sc ≤
      finiteLoss r12 iv (getLossAt lossFn s sy p q) sc := by
  rw [getLossAt_eq_raw, getLossAt_eq_raw]
  split
  · exact le_refl _
  · by_cases h1 : sy' = 0
    · have h2 : sy = 0 := le_antisymm (h1 ▸ hle) h0
      rw [h1, h2]
    · have hpos' : 0 < sy' := lt_of_le_of_ne (le_trans h0 hle) (Ne.symm h1)
      rw [if_neg h1]
      by_cases h2 : sy = 0
      · rw [if_pos h2, hfl _ _ 1 sy' one_pos hpos' (hflat h2)]
      · rw [if_neg h2]
        exact hm _ _ sy sy' (lt_of_le_of_ne h0 (Ne.symm h2)) hle iv sc

theorem lget_of_mem_nodup {l : List (Ival α × Loss α)} (hnd : (tkeys l).Nodup)
    {e : Ival α × Loss α} (he : e ∈ l) : lget e.1 l = some e.2 := by
  induction l with
  | nil => cases he
  | cons f l ih =>
    rw [lget_cons]
    have hnd' : (f.1 :: tkeys l).Nodup := hnd
    rw [List.nodup_cons] at hnd'
    rcases List.mem_cons.1 he with rfl | h
    · rw [if_pos rfl]
    · rw [if_neg, ih hnd'.2 h]
      intro hfe
      exact hnd'.1 (hfe ▸ List.mem_map_of_mem h)

end L1D

namespace Avg1DFull
open L1D (Loss Ival)
variable {α : Type} [Field α] [LinearOrder α] [IsStrictOrderedRing α]
variable (lossFn : List (Option α) → List (Option (List α)) → Loss α) (r12 : α → α)
variable (sqrt : α → α) (tq : Nat → α) (hypot : α → α → α)

/-! ### (1) the live loop is complete when no visited entry moves towards the front -/

theorem liveKeys_complete_aux {sc : α} (i : Nat) : ∀ (s : L1D.State α), L1D.NodupT s →
    L1D.TS r12 sc s → i < s.losses.length →
    (∀ j ≤ i, ∀ e, s.losses[j]? = some e →
      L1D.finiteLoss r12 e.1 (L1D.getLoss lossFn s e.1.1 e.1.2) sc ≤ L1D.finiteLoss r12 e.1 e.2 sc) →
    ∀ j ≤ i, ∀ e, s.losses[j]? = some e → e.1 ∈ liveKeys lossFn r12 s i := by
  induction i with
  | zero =>
    intro s _ _ _ _ j hj e he
    have : j = 0 := by omega
    subst this
    unfold liveKeys
    rw [he]
    simp
  | succ i ih =>
    intro s hn ht hlen hle j hj e he
    obtain ⟨e0, he0⟩ : ∃ e0, s.losses[i + 1]? = some e0 :=
      ⟨s.losses[i + 1], List.getElem?_eq_getElem hlen⟩
    unfold liveKeys
    rw [he0]
    dsimp only
    by_cases hji : j = i + 1
    · subst hji
      rw [he0] at he
      cases he
      exact List.mem_cons_self
    · have hj' : j ≤ i := by omega
      apply List.mem_cons_of_mem
      obtain ⟨hsc, hsl, _⟩ := ht
      have hpre := L1D.lset_prefix r12 (sc := sc) hsl hn.1 he0
        (hle (i + 1) (le_refl _) e0 he0)
      have hlosses : (L1D.updInterp lossFn r12 s e0.1.1 e0.1.2).losses =
          L1D.lset r12 sc e0.1 (L1D.getLoss lossFn s e0.1.1 e0.1.2) s.losses := by
        rw [← hsc]; rfl
      have hget : ∀ j' ≤ i, (L1D.updInterp lossFn r12 s e0.1.1 e0.1.2).losses[j']? = s.losses[j']? := by
        intro j' hj'
        have h1 := congrArg (fun l => l[j']?) hpre.1
        simp only [List.getElem?_take] at h1
        rw [if_pos (by omega), if_pos (by omega)] at h1
        rw [hlosses]; exact h1
      apply ih (L1D.updInterp lossFn r12 s e0.1.1 e0.1.2) (L1D.nodupT_updInterp lossFn r12 hn)
        (L1D.ts_updInterp lossFn r12 _ _ ⟨hsc, hsl, by assumption⟩)
        (by rw [hlosses, hpre.2]; omega) ?_ j hj' e (by rw [hget j hj']; exact he)
      intro j' hj'' e' he'
      rw [hget j' hj''] at he'
      rw [L1D.getLoss_updInterp]
      exact hle j' (by omega) e' he'

/-- (1) THE LIVE LOOP IS COMPLETE for a table in `ItemSortedDict` order without duplicate keys in
which the loss function's value on the current state is, for every entry, not larger (in the order
the container is sorted by: `finite_loss`, rounded) than the stored loss: the reverse iterator then
reaches every key.  Ties are harmless: an entry with an unchanged loss is re-inserted at its old
place (the interval breaks the tie), an entry with a smaller loss moves towards the back, where the
iterator has already been. -/
theorem liveKeys_complete_of_nonincreasing {sc : α} {s : L1D.State α} (hn : L1D.NodupT s)
    (ht : L1D.TS r12 sc s)
    (hle : ∀ e ∈ s.losses,
      L1D.finiteLoss r12 e.1 (L1D.getLoss lossFn s e.1.1 e.1.2) sc ≤ L1D.finiteLoss r12 e.1 e.2 sc) :
    ∀ k ∈ L1D.tkeys s.losses, k ∈ liveKeys lossFn r12 s (s.losses.length - 1) := by
  intro k hk
  obtain ⟨e, he, rfl⟩ := List.mem_map.1 hk
  obtain ⟨j, hj⟩ := List.getElem?_of_mem he
  have hjl : j < s.losses.length := (List.getElem?_eq_some_iff.1 hj).1
  exact liveKeys_complete_aux lossFn r12 (s.losses.length - 1) s hn ht (by omega)
    (fun j' _ e' he' => hle e' (List.mem_of_getElem? he')) j (by omega) e hj


/-! ### the (possibly firing) live re-computation, when no stored loss is too small -/

/-- if every interval either holds the loss of the current state already, or the live loop fires and
the loss of the current state is not larger than the stored one, the table is exact afterwards -/
theorem exact_maybeRescaleLive_of_le {sc : α} {s : L1D.State α} (hi : L1D.PNInv s)
    (ht : L1D.TS r12 sc s)
    (h : ∀ k ∈ L1D.pairs s.xs, ∃ l, L1D.lget k s.losses = some l ∧
      (l = L1D.getLoss lossFn s k.1 k.2 ∨
        (s.factor * s.oldScaleY < s.scaleY ∧
          L1D.finiteLoss r12 k (L1D.getLoss lossFn s k.1 k.2) sc ≤ L1D.finiteLoss r12 k l sc))) :
    Exact lossFn (maybeRescaleLive lossFn r12 s) := by
  apply exact_maybeRescaleLive lossFn r12 hi.t.losses_keys
  intro k hk
  obtain ⟨l, hl, hcase⟩ := h k hk
  by_cases hf : s.factor * s.oldScaleY < s.scaleY
  · left
    refine ⟨hf, ?_⟩
    apply liveKeys_complete_of_nonincreasing lossFn r12 hi.nodupT ht ?_ k ((hi.t.losses_keys k).2 hk)
    intro e he
    have hek : e.1 ∈ L1D.pairs s.xs := (hi.t.losses_keys e.1).1 (List.mem_map_of_mem he)
    obtain ⟨l', hl', hc'⟩ := h e.1 hek
    have hl'e : l' = e.2 := by
      rw [L1D.lget_of_mem_nodup hi.t.losses_nodup he] at hl'
      exact (Option.some.inj hl').symm
    subst hl'e
    rcases hc' with h1 | ⟨_, h2⟩
    · rw [← h1]
    · exact h2
  · right
    rcases hcase with h1 | ⟨h2, _⟩
    · rw [hl, h1]
    · exact absurd h2 hf

theorem resPre_fields2 (b : L1D.State α) (m x : α) (ys : List α) :
    (resPre b m x ys).factor = b.factor ∧ (resPre b m x ys).oldScaleY = b.oldScaleY ∧
    (resPre b m x ys).lossScale = b.lossScale := by
  unfold resPre
  have : ∀ b0 : L1D.State α,
      (ys.foldl (fun b y => L1D.updateScale b x [y]) b0).factor = b0.factor ∧
      (ys.foldl (fun b y => L1D.updateScale b x [y]) b0).oldScaleY = b0.oldScaleY ∧
      (ys.foldl (fun b y => L1D.updateScale b x [y]) b0).lossScale = b0.lossScale := by
    induction ys with
    | nil => intro b0; exact ⟨rfl, rfl, rfl⟩
    | cons y ys ih => intro b0; exact ih (L1D.updateScale b0 x [y])
  exact this _

/-- (2) VALUE STEP FOR THE RE-SAMPLE BRANCH without the `liveKeys` guard: `factor = 1`,
`_oldscale[1] = _scale[1]`, a loss function that does not grow with the output scale, the x-scale
unchanged (abscissa inside the bounds), the y-scale not smaller than before (always true, see
`scaleY_le_resPre`). -/
theorem exact_resBase_mono {sc : α} {b : L1D.State α} (hm : L1D.ScaleMonotone lossFn r12)
    (hfl : L1D.FlatScaleFree lossFn) (hd : DInv b) (ht : L1D.TS r12 sc b) (he : Exact lossFn b)
    (hfac : b.factor = 1) (hold : b.oldScaleY = b.scaleY) (h0 : 0 ≤ b.scaleY)
    (hc : L1D.ConstAtZero b) {x : α} (hx : x ∈ L1D.dkeys b.data) (m : α) (ys : List α)
    (hX : (resPre b m x ys).scaleX = b.scaleX) (hY : b.scaleY ≤ (resPre b m x ys).scaleY) :
    Exact lossFn (resBase lossFn r12 b m x ys) := by
  obtain ⟨g1, g2, g3, g4, g5, g6, g7⟩ := resPre_fields b m x ys
  obtain ⟨g8, g9, g10⟩ := resPre_fields2 b m x ys
  have hxs : x ∈ b.xs := (hd.xs_mem x).2 hx
  have hb1 : L1D.PNInv (resPre b m x ys) := hd.bi.congr g2 g6 g5 g7
  have hb2 := pninv_updateLossesResampling lossFn r12 hb1 (x := x) (by rw [g2]; exact hxs)
  have ht1 : L1D.TS r12 sc (resPre b m x ys) := L1D.ts_congr r12 g10 g5 g7 ht
  have ht2 := ts_updateLossesResampling lossFn r12 ht1 x
  have hsame := same_updateLossesResampling lossFn r12 (resPre b m x ys) x
  have hR := resample_losses lossFn r12 hd.bi.xs_sorted he hxs [m] g1 hX g2 g3 g4 g5
  have hcore := core_updateLossesResampling lossFn r12 (resPre b m x ys) x true
  have e1 : (updateLossesResampling lossFn r12 (resPre b m x ys) x true).factor = (resPre b m x ys).factor :=
    by have h := congrArg L1D.State.factor hcore; exact h
  have e2 : (updateLossesResampling lossFn r12 (resPre b m x ys) x true).oldScaleY = (resPre b m x ys).oldScaleY :=
    by have h := congrArg L1D.State.oldScaleY hcore; exact h
  have e3 : (updateLossesResampling lossFn r12 (resPre b m x ys) x true).scaleY = (resPre b m x ys).scaleY :=
    by have h := congrArg L1D.State.scaleY hcore; exact h
  rw [resBase_eq]
  apply exact_maybeRescaleLive_of_le lossFn r12 hb2 ht2
  intro k hk
  rw [hsame.1, g2] at hk
  obtain ⟨r1, r2, r3⟩ := hR k hk
  by_cases hin : k ∈ L1D.getIntervals b x
  · exact ⟨_, r1 hin, Or.inl rfl⟩
  · rcases eq_or_lt_of_le hY with heq | hlt
    · exact ⟨_, r2 hin heq.symm, Or.inl rfl⟩
    · refine ⟨_, (r3 hin).trans (he k hk), Or.inr ⟨?_, ?_⟩⟩
      · rw [e1, e2, e3, g8, g9, hfac, one_mul, hold]; exact hlt
      · rw [getLoss_updateLossesResampling]
        have e : L1D.getLoss lossFn (resPre b m x ys) k.1 k.2 =
            L1D.getLossAt lossFn b (resPre b m x ys).scaleY k.1 k.2 :=
          getLoss_dataPut_outside lossFn (b := { b with scaleY := (resPre b m x ys).scaleY })
            (b' := resPre b m x ys) hd.bi.xs_sorted hxs [m] g1 hX rfl g2 g3 g4
            (p := k.1) (q := k.2) hk hin
        rw [e]
        exact L1D.finiteLoss_getLossAt_le lossFn r12 hm hfl b h0 hY k.1 k.2
          (fun hz => L1D.allEq_rawVals (hc hz) k.1) k sc

/-! ### (3) the "new abscissa" branch -/

/-- the state `_update_losses` works on in `newBase` -/
def newPre (b : L1D.State α) (x y : α) : L1D.State α :=
  L1D.updateScale { b with data := b.data ++ [(x, [y])], xsC := L1D.sinsert x b.xsC,
                           xs := L1D.sinsert x b.xs } x [y]

theorem newBase_eq (b : L1D.State α) (x y : α) :
    newBase lossFn r12 b x y =
      maybeRescaleLive lossFn r12 (L1D.updateLosses lossFn r12 (newPre b x y) x true) := rfl

/-- (3) VALUE STEP FOR THE "NEW ABSCISSA" BRANCH (any `nn`): `_update_losses` recomputes the intervals
of `_get_intervals(x)` and pops the split one; every other interval is an old one whose index window
and data did not change (`L1D.getLossAt_tellPre`), so only the output scale can have moved, upwards. -/
theorem exact_newBase_mono {sc : α} {b : L1D.State α} (hm : L1D.ScaleMonotone lossFn r12)
    (hfl : L1D.FlatScaleFree lossFn) (hd : DInv b) (ht : L1D.TS r12 sc b) (he : Exact lossFn b)
    (hfac : b.factor = 1) (hold : b.oldScaleY = b.scaleY) (h0 : 0 ≤ b.scaleY)
    (hc : L1D.ConstAtZero b) {x : α} (hx : x ∉ L1D.dkeys b.data) (y : α)
    (hX : (newPre b x y).scaleX = b.scaleX) (hY : b.scaleY ≤ (newPre b x y).scaleY) :
    Exact lossFn (newBase lossFn r12 b x y) := by
  have hxs : x ∉ b.xs := fun h => hx ((hd.xs_mem x).1 h)
  have hb2 : L1D.PNInv (L1D.updateLosses lossFn r12 (newPre b x y) x true) :=
    L1D.pninv_updateLosses_true lossFn r12 hd.bi rfl rfl rfl rfl
  have ht2 : L1D.TS r12 sc (L1D.updateLosses lossFn r12 (newPre b x y) x true) :=
    L1D.ts_updateLosses lossFn r12 _ _
      (L1D.ts_updateScale r12 _ _ (L1D.ts_congr r12 rfl rfl rfl ht))
  have hsame := L1D.same_updateLosses lossFn r12 (newPre b x y) x true
  have hcore := L1D.core_updateLosses lossFn r12 (newPre b x y) x true
  have e1 : (L1D.updateLosses lossFn r12 (newPre b x y) x true).factor = b.factor :=
    by have h := congrArg L1D.State.factor hcore; exact h
  have e2 : (L1D.updateLosses lossFn r12 (newPre b x y) x true).oldScaleY = b.oldScaleY :=
    by have h := congrArg L1D.State.oldScaleY hcore; exact h
  have e3 : (L1D.updateLosses lossFn r12 (newPre b x y) x true).scaleY = (newPre b x y).scaleY :=
    by have h := congrArg L1D.State.scaleY hcore; exact h
  have hs1 : (newPre b x y).xs.Pairwise (· < ·) := L1D.sorted_sinsert (x := x) hd.bi.xs_sorted
  have hx1 : x ∈ (newPre b x y).xs := L1D.mem_sinsert.2 (Or.inl rfl)
  rw [newBase_eq]
  apply exact_maybeRescaleLive_of_le lossFn r12 hb2 ht2
  intro k hk
  rw [hsame.1] at hk
  rw [L1D.updateLosses_true_losses lossFn r12 hs1 hx1 hk, L1D.getLoss_congr lossFn hcore]
  by_cases hin : k ∈ L1D.getIntervals (newPre b x y) x
  · rw [if_pos hin]
    exact ⟨_, rfl, Or.inl rfl⟩
  · rw [if_neg hin]
    obtain ⟨hold', hK⟩ := L1D.getLossAt_tellPre lossFn hd.bi.xs_sorted hxs [y] (x := x) hX
      (p := k.1) (q := k.2) hk hin
    have hst : L1D.lget k (newPre b x y).losses = some (L1D.getLoss lossFn b k.1 k.2) := he k hold'
    have e : L1D.getLoss lossFn (newPre b x y) k.1 k.2 =
        L1D.getLossAt lossFn b (newPre b x y).scaleY k.1 k.2 := by
      rw [← hK]
      exact L1D.getLoss_ext lossFn rfl rfl rfl rfl (fun _ _ => rfl)
    rcases eq_or_lt_of_le hY with heq | hlt
    · refine ⟨_, hst, Or.inl ?_⟩
      rw [e, ← heq]; rfl
    · refine ⟨_, hst, Or.inr ⟨?_, ?_⟩⟩
      · rw [e1, e2, e3, hfac, one_mul, hold]; exact hlt
      · rw [e]
        exact L1D.finiteLoss_getLossAt_le lossFn r12 hm hfl b h0 hY k.1 k.2
          (fun hz => L1D.allEq_rawVals (hc hz) k.1) k sc


/-! ### (4) the run-level invariant -/

/-- scale bookkeeping of the embedded Learner1D state: recomputation factor 1, `_oldscale[1] =
_scale[1]`, the output box is ordered with `_scale[1]` its extent and has one component, the x-box is
the domain -/
structure BV (lo hi : α) (b : L1D.State α) : Prop where
  fac : b.factor = 1
  old : b.oldScaleY = b.scaleY
  box : L1D.BoxOK b
  bdim : L1D.BoxDim 1 b
  bx : b.bboxX = (lo, hi)
  sx : b.scaleX = hi - lo

/-- the part of `BV` that `_update_scale` maintains -/
def StaticOK (lo hi : α) (b : L1D.State α) : Prop :=
  L1D.BoxOK b ∧ L1D.BoxDim 1 b ∧ b.bboxX = (lo, hi) ∧ b.scaleX = hi - lo

/-- (2a) `_update_scale(x, y)` with `x` inside the bounds: the x-scale stays, the y-scale (range of
the RAW samples) never shrinks -/
theorem static_updateScale {lo hi : α} {b : L1D.State α} (h : StaticOK lo hi b) {x : α}
    (hx : lo ≤ x ∧ x ≤ hi) (y : α) :
    StaticOK lo hi (L1D.updateScale b x [y]) ∧ b.scaleY ≤ (L1D.updateScale b x [y]).scaleY := by
  obtain ⟨h1, h2, h3, h4⟩ := h
  refine ⟨⟨L1D.boxOK_updateScale h1 x [y], ?_, ?_, ?_⟩, ?_⟩
  · intro bb hbb
    unfold L1D.BoxDim at h2
    unfold L1D.updateScale at hbb
    dsimp only at hbb
    rcases hs : b.bboxY with _ | ⟨mn, mx⟩
    · rw [hs] at hbb
      rw [← Option.some.inj hbb]; exact le_refl _
    · rw [hs] at hbb
      rw [← Option.some.inj hbb]
      exact le_trans (L1D.length_minL_le mn [y]) (h2 _ hs)
  · unfold L1D.updateScale
    dsimp only
    rw [h3]
    dsimp only
    rw [if_neg (not_lt.2 hx.1), if_neg (not_lt.2 hx.2)]
  · unfold L1D.updateScale
    dsimp only
    rw [h3]
    dsimp only
    rw [if_neg (not_lt.2 hx.1), if_neg (not_lt.2 hx.2)]
  · exact L1D.scaleY_le_updateScale h1 x [y] (fun bb hbb => h2 bb hbb)

theorem static_foldl_updateScale {lo hi : α} {x : α} (hx : lo ≤ x ∧ x ≤ hi) (ys : List α) :
    ∀ {b : L1D.State α}, StaticOK lo hi b →
      StaticOK lo hi (ys.foldl (fun b y => L1D.updateScale b x [y]) b) ∧
        b.scaleY ≤ (ys.foldl (fun b y => L1D.updateScale b x [y]) b).scaleY := by
  induction ys with
  | nil => intro b h; exact ⟨h, le_refl _⟩
  | cons y ys ih =>
    intro b h
    obtain ⟨h1, h2⟩ := static_updateScale h hx y
    obtain ⟨h3, h4⟩ := ih h1
    exact ⟨h3, le_trans h2 h4⟩

theorem maybeRescaleLive_static (s : L1D.State α) :
    (maybeRescaleLive lossFn r12 s).factor = s.factor ∧
    (maybeRescaleLive lossFn r12 s).bboxX = s.bboxX ∧
    (maybeRescaleLive lossFn r12 s).scaleX = s.scaleX ∧
    (maybeRescaleLive lossFn r12 s).bboxY = s.bboxY ∧
    (maybeRescaleLive lossFn r12 s).scaleY = s.scaleY := by
  unfold maybeRescaleLive
  split
  · dsimp only
    split
    · exact ⟨rfl, rfl, rfl, rfl, rfl⟩
    · have hc := core_recomputeLive lossFn r12 s (s.losses.length - 1)
      refine ⟨?_, ?_, ?_, ?_, ?_⟩
      · have h := congrArg L1D.State.factor hc; exact h
      · have h := congrArg L1D.State.bboxX hc; exact h
      · have h := congrArg L1D.State.scaleX hc; exact h
      · have h := congrArg L1D.State.bboxY hc; exact h
      · have h := congrArg L1D.State.scaleY hc; exact h
  · exact ⟨rfl, rfl, rfl, rfl, rfl⟩

/-- after `_update_losses…` (anything that keeps the `core`) and the live re-computation -/
theorem bv_finish {lo hi : α} {b1 b2 : L1D.State α} (hc : L1D.core b2 = L1D.core b1)
    (hs : StaticOK lo hi b1) (hfac : b1.factor = 1) (hle : b1.oldScaleY ≤ b1.scaleY) :
    BV lo hi (maybeRescaleLive lossFn r12 b2) := by
  obtain ⟨m1, m2, m3, m4, m5⟩ := maybeRescaleLive_static lossFn r12 b2
  have c1 : b2.factor = b1.factor := by have h := congrArg L1D.State.factor hc; exact h
  have c2 : b2.bboxX = b1.bboxX := by have h := congrArg L1D.State.bboxX hc; exact h
  have c3 : b2.scaleX = b1.scaleX := by have h := congrArg L1D.State.scaleX hc; exact h
  have c4 : b2.bboxY = b1.bboxY := by have h := congrArg L1D.State.bboxY hc; exact h
  have c5 : b2.scaleY = b1.scaleY := by have h := congrArg L1D.State.scaleY hc; exact h
  have c6 : b2.oldScaleY = b1.oldScaleY := by have h := congrArg L1D.State.oldScaleY hc; exact h
  obtain ⟨h1, h2, h3, h4⟩ := hs
  refine ⟨by rw [m1, c1]; exact hfac, ?_, ?_, ?_, by rw [m2, c2]; exact h3, by rw [m3, c3]; exact h4⟩
  · exact maybeRescaleLive_old lossFn r12 b2 (by rw [c1]; exact hfac) (by rw [c6, c5]; exact hle)
  · exact L1D.boxOK_congr (m4.trans c4) (m5.trans c5) h1
  · intro bb hbb
    rw [m4, c4] at hbb
    exact h2 bb hbb

theorem BV.static {lo hi : α} {b : L1D.State α} (h : BV lo hi b) : StaticOK lo hi b :=
  ⟨h.box, h.bdim, h.bx, h.sx⟩

theorem newBase_scaleY (b : L1D.State α) (x y : α) :
    (newBase lossFn r12 b x y).scaleY = (newPre b x y).scaleY := by
  rw [newBase_eq, (maybeRescaleLive_static lossFn r12 _).2.2.2.2]
  have h := congrArg L1D.State.scaleY (L1D.core_updateLosses lossFn r12 (newPre b x y) x true)
  exact h

/-- base level, "new abscissa" -/
theorem base_new {lo hi sc : α} {b : L1D.State α} (hm : L1D.ScaleMonotone lossFn r12)
    (hfl : L1D.FlatScaleFree lossFn) (hd : DInv b) (ht : L1D.TS r12 sc b) (he : Exact lossFn b)
    (hbv : BV lo hi b) (hc : L1D.ConstAtZero b) {x : α} (hx : x ∉ L1D.dkeys b.data)
    (hin : lo ≤ x ∧ x ≤ hi) (y : α) :
    Exact lossFn (newBase lossFn r12 b x y) ∧ BV lo hi (newBase lossFn r12 b x y) := by
  have hs0 : StaticOK lo hi { b with data := b.data ++ [(x, [y])], xsC := L1D.sinsert x b.xsC, xs := L1D.sinsert x b.xs } :=
    ⟨L1D.boxOK_congr rfl rfl hbv.box, hbv.bdim, hbv.bx, hbv.sx⟩
  obtain ⟨hs1, hle⟩ := static_updateScale hs0 hin y
  have hs1' : StaticOK lo hi (newPre b x y) := hs1
  have hle' : b.scaleY ≤ (newPre b x y).scaleY := hle
  refine ⟨?_, ?_⟩
  · exact exact_newBase_mono lossFn r12 hm hfl hd ht he hbv.fac hbv.old hbv.box.scaleY_nonneg hc hx y
      (hs1'.2.2.2.trans hbv.sx.symm) hle'
  · rw [newBase_eq]
    apply bv_finish lossFn r12 (L1D.core_updateLosses lossFn r12 (newPre b x y) x true) hs1' hbv.fac
    show b.oldScaleY ≤ (newPre b x y).scaleY
    rw [hbv.old]; exact hle'

/-- base level, re-sample -/
theorem base_res {lo hi sc : α} {b : L1D.State α} (hm : L1D.ScaleMonotone lossFn r12)
    (hfl : L1D.FlatScaleFree lossFn) (hd : DInv b) (ht : L1D.TS r12 sc b) (he : Exact lossFn b)
    (hbv : BV lo hi b) (hc : L1D.ConstAtZero b) {x : α} (hx : x ∈ L1D.dkeys b.data)
    (hin : lo ≤ x ∧ x ≤ hi) (m : α) (ys : List α) :
    Exact lossFn (resBase lossFn r12 b m x ys) ∧ BV lo hi (resBase lossFn r12 b m x ys) := by
  have hs0 : StaticOK lo hi { b with data := dataPut b.data x [m] } :=
    ⟨L1D.boxOK_congr rfl rfl hbv.box, hbv.bdim, hbv.bx, hbv.sx⟩
  obtain ⟨hs1, hle⟩ := static_foldl_updateScale hin ys hs0
  have hs1' : StaticOK lo hi (resPre b m x ys) := hs1
  have hle' : b.scaleY ≤ (resPre b m x ys).scaleY := hle
  obtain ⟨g8, g9, _⟩ := resPre_fields2 b m x ys
  refine ⟨?_, ?_⟩
  · exact exact_resBase_mono lossFn r12 hm hfl hd ht he hbv.fac hbv.old hbv.box.scaleY_nonneg hc hx m ys
      (hs1'.2.2.2.trans hbv.sx.symm) hle'
  · rw [resBase_eq]
    apply bv_finish lossFn r12 (core_updateLossesResampling lossFn r12 (resPre b m x ys) x true) hs1'
      (g8.trans hbv.fac)
    rw [g9, hbv.old]; exact hle'

/-- operations whose abscissa must lie inside the bounds (`tell_many` is the sequence of `tell` /
`tell_many_at_point` calls it performs: `expandOps`) -/
def OpIn (lo hi : α) : Op α → Prop
  | .tell _ x _ => lo ≤ x ∧ x ≤ hi
  | .tellManyAtPoint x _ => lo ≤ x ∧ x ≤ hi
  | .tellMany _ => False
  | _ => True

/-- the intermediate state of a `tell_many_at_point` that starts with a NEW abscissa -/
def OpFlat (s : State α) : Op α → Prop
  | .tellManyAtPoint x ((_, y) :: _ :: _) =>
    Avg1D.find? s.samp x = none → (newPre s.base x y).scaleY = 0 → ∀ kv ∈ s.base.data, kv.2 = [y]
  | _ => True

/-- while the output scale is 0 all running means are equal — in every state the history passes
through.  (TRUE for every history: the scale is the range of the raw samples and a mean of equal
samples is that sample; not proved here, see NOTES.) -/
def FlatHist : State α → List (Op α) → Prop
  | _, [] => True
  | s, op :: ops => L1D.ConstAtZero s.base ∧ OpFlat s op ∧
      FlatHist (step lossFn r12 sqrt tq hypot s op) ops

structure VInv (lo hi sc : α) (s : State α) : Prop where
  f : FInv hypot s
  si : SInv s
  ts : L1D.TS r12 sc s.base
  ex : Exact lossFn s.base
  bv : BV lo hi s.base

theorem exact_of_same {b b' : L1D.State α} (hxs : b'.xs = b.xs) (hl : b'.losses = b.losses)
    (hg : ∀ p q, L1D.getLoss lossFn b' p q = L1D.getLoss lossFn b p q) (he : Exact lossFn b) :
    Exact lossFn b' := by
  intro k hk
  rw [hxs] at hk
  rw [hl, hg]; exact he k hk

theorem bv_of_core {lo hi : α} {b b' : L1D.State α} (hc : L1D.core b' = L1D.core b)
    (h : BV lo hi b) : BV lo hi b' := by
  have c1 : b'.factor = b.factor := by have h := congrArg L1D.State.factor hc; exact h
  have c2 : b'.bboxX = b.bboxX := by have h := congrArg L1D.State.bboxX hc; exact h
  have c3 : b'.scaleX = b.scaleX := by have h := congrArg L1D.State.scaleX hc; exact h
  have c4 : b'.bboxY = b.bboxY := by have h := congrArg L1D.State.bboxY hc; exact h
  have c5 : b'.scaleY = b.scaleY := by have h := congrArg L1D.State.scaleY hc; exact h
  have c6 : b'.oldScaleY = b.oldScaleY := by have h := congrArg L1D.State.oldScaleY hc; exact h
  refine ⟨by rw [c1]; exact h.fac, by rw [c6, c5]; exact h.old, L1D.boxOK_congr c4 c5 h.box, ?_,
    by rw [c2]; exact h.bx, by rw [c3]; exact h.sx⟩
  intro bb hbb
  rw [c4] at hbb
  exact h.bdim bb hbb

theorem base_tellPending {lo hi : α} {s : State α} (he : Exact lossFn s.base) (hbv : BV lo hi s.base)
    (seed : Nat) (x : α) :
    Exact lossFn (tellPending lossFn r12 s seed x).base ∧ BV lo hi (tellPending lossFn r12 s seed x).base := by
  unfold tellPending
  dsimp only
  split
  · exact ⟨he, hbv⟩
  · have hc := L1D.core_updateLosses lossFn r12 { s.base with xsC := L1D.sinsert x s.base.xsC } x false
    refine ⟨?_, ?_⟩
    · apply exact_of_same lossFn (b := s.base) _ _ _ he
      · have h := congrArg L1D.State.xs hc; exact h
      · show (L1D.updateLosses lossFn r12 { s.base with xsC := L1D.sinsert x s.base.xsC } x false).losses = _
        rw [L1D.updateLosses_false_eq, L1D.ulRight_losses, L1D.ulLeft_losses, L1D.ulPend_losses,
          L1D.ulErase_losses]
      · intro p q
        rw [L1D.getLoss_congr lossFn hc]
        exact L1D.getLoss_ext lossFn rfl rfl rfl rfl (fun _ _ => rfl)
    · exact bv_of_core hc ⟨hbv.fac, hbv.old, L1D.boxOK_congr rfl rfl hbv.box, hbv.bdim, hbv.bx, hbv.sx⟩

theorem base_foldl_tellPending {lo hi : α} (pts : List (Nat × α)) {s : State α}
    (he : Exact lossFn s.base) (hbv : BV lo hi s.base) :
    Exact lossFn (pts.foldl (fun s p => tellPending lossFn r12 s p.1 p.2) s).base ∧
      BV lo hi (pts.foldl (fun s p => tellPending lossFn r12 s p.1 p.2) s).base := by
  induction pts generalizing s with
  | nil => exact ⟨he, hbv⟩
  | cons p ps ih =>
    obtain ⟨h1, h2⟩ := base_tellPending lossFn r12 he hbv p.1 p.2
    exact ih h1 h2

theorem constAtZero_newBase {b : L1D.State α} {x y : α}
    (h : (newPre b x y).scaleY = 0 → ∀ kv ∈ b.data, kv.2 = [y]) :
    L1D.ConstAtZero (newBase lossFn r12 b x y) := by
  intro h0 kv hkv kv' hkv'
  rw [newBase_scaleY] at h0
  rw [(newBase_fields lossFn r12 b x y).2.2] at hkv hkv'
  have key : ∀ k ∈ b.data ++ [(x, [y])], k.2 = [y] := by
    intro k hk
    rcases List.mem_append.1 hk with h1 | h1
    · exact h h0 k h1
    · rw [List.mem_singleton.1 h1]
  rw [key kv hkv, key kv' hkv']

/-- the value part of the step (structure, order and sampling invariants are the existing
`finv_step`, `sinv_step`, `ts_step`) -/
theorem base_step {lo hi sc : α} {s : State α} (hm : L1D.ScaleMonotone lossFn r12)
    (hfl : L1D.FlatScaleFree lossFn) (h : VInv lossFn r12 hypot lo hi sc s) (op : Op α)
    (hin : OpIn lo hi op) (hc : L1D.ConstAtZero s.base) (hof : OpFlat s op) :
    Exact lossFn (step lossFn r12 sqrt tq hypot s op).base ∧
      BV lo hi (step lossFn r12 sqrt tq hypot s op).base := by
  cases op with
  | tell seed x y =>
    show Exact lossFn (tell lossFn r12 sqrt tq hypot s seed x y).base ∧
      BV lo hi (tell lossFn r12 sqrt tq hypot s seed x y).base
    unfold tell
    dsimp only
    cases hfx : Avg1D.find? s.samp x with
    | none =>
      dsimp only
      have hx : x ∉ L1D.dkeys s.base.data := by
        rw [finv_mem_dkeys hypot h.f, hfx]; simp
      rw [tellNew_base]
      exact base_new lossFn r12 hm hfl h.si.d h.ts h.ex h.bv hc hx hin y
    | some p =>
      dsimp only
      have hx : x ∈ L1D.dkeys s.base.data := by
        rw [finv_mem_dkeys hypot h.f, hfx]; rfl
      split
      · exact ⟨h.ex, h.bv⟩
      · unfold tellResampled
        rw [afterResample_base]
        exact base_res lossFn r12 hm hfl h.si.d h.ts h.ex h.bv hc hx hin _ _
  | tellPending seed x => exact base_tellPending lossFn r12 h.ex h.bv seed x
  | tellMany pts => exact absurd hin (by simp [OpIn])
  | tellManyAtPoint x m =>
    show Exact lossFn (tellManyAtPoint lossFn r12 sqrt tq hypot s x m).base ∧
      BV lo hi (tellManyAtPoint lossFn r12 sqrt tq hypot s x m).base
    unfold tellManyAtPoint
    dsimp only
    cases m with
    | nil => cases Avg1D.find? s.samp x <;> exact ⟨h.ex, h.bv⟩
    | cons kv rest =>
      cases hfx : Avg1D.find? s.samp x with
      | none =>
        obtain ⟨seed, y⟩ := kv
        have hx : x ∉ L1D.dkeys s.base.data := by
          rw [finv_mem_dkeys hypot h.f, hfx]; simp
        have h1 := base_new lossFn r12 hm hfl h.si.d h.ts h.ex h.bv hc hx hin y
        cases rest with
        | nil =>
          dsimp only
          rw [tellNew_base]; exact h1
        | cons kv2 rest2 =>
          dsimp only
          rw [afterResample_base, tellNew_base]
          have hof' : (newPre s.base x y).scaleY = 0 → ∀ kv ∈ s.base.data, kv.2 = [y] := hof hfx
          apply base_res lossFn r12 hm hfl (dinv_newBase lossFn r12 h.si.d hx y)
            (ts_newBase lossFn r12 h.ts x y) h1.1 h1.2 (constAtZero_newBase lossFn r12 hof') _ hin
          rw [(newBase_fields lossFn r12 s.base x y).2.2]
          simp [L1D.dkeys]
      | some p =>
        dsimp only
        have hx : x ∈ L1D.dkeys s.base.data := by
          rw [finv_mem_dkeys hypot h.f, hfx]; rfl
        rw [afterResample_base]
        exact base_res lossFn r12 hm hfl h.si.d h.ts h.ex h.bv hc hx hin _ _
  | removeUnfinished =>
    refine ⟨?_, ?_⟩
    · exact exact_of_same lossFn (b := s.base) rfl rfl
        (fun p q => L1D.getLoss_ext lossFn rfl rfl rfl rfl (fun _ _ => rfl)) h.ex
    · exact ⟨h.bv.fac, h.bv.old, L1D.boxOK_congr rfl rfl h.bv.box, h.bv.bdim, h.bv.bx, h.bv.sx⟩
  | ask n c commit =>
    show Exact lossFn (match ask lossFn r12 sqrt s n c commit with
      | some r => r.2
      | none => s).base ∧ BV lo hi (match ask lossFn r12 sqrt s n c commit with
      | some r => r.2
      | none => s).base
    unfold ask
    cases askPts r12 sqrt s n c with
    | none => exact ⟨h.ex, h.bv⟩
    | some q =>
      dsimp only [Option.map_some]
      split
      · exact base_foldl_tellPending lossFn r12 _ h.ex h.bv
      · exact ⟨h.ex, h.bv⟩

theorem vinv_step {lo hi sc : α} {s : State α} (hm : L1D.ScaleMonotone lossFn r12)
    (hfl : L1D.FlatScaleFree lossFn) (h : VInv lossFn r12 hypot lo hi sc s) (op : Op α)
    (hin : OpIn lo hi op) (hc : L1D.ConstAtZero s.base) (hof : OpFlat s op) :
    VInv lossFn r12 hypot lo hi sc (step lossFn r12 sqrt tq hypot s op) := by
  have hop : ∀ pts, op ≠ .tellMany pts := by
    intro pts e; rw [e] at hin; exact hin
  obtain ⟨h1, h2⟩ := base_step lossFn r12 sqrt tq hypot hm hfl h op hin hc hof
  exact ⟨finv_step lossFn r12 sqrt tq hypot h.f op hop, sinv_step lossFn r12 sqrt tq hypot h.f h.si op hop,
    ts_step lossFn r12 sqrt tq hypot h.ts op hop, h1, h2⟩

theorem vinv_run {lo hi sc : α} (hm : L1D.ScaleMonotone lossFn r12) (hfl : L1D.FlatScaleFree lossFn)
    (ops : List (Op α)) : ∀ {s : State α}, VInv lossFn r12 hypot lo hi sc s →
    (∀ op ∈ ops, OpIn lo hi op) → FlatHist lossFn r12 sqrt tq hypot s ops →
    VInv lossFn r12 hypot lo hi sc (run lossFn r12 sqrt tq hypot s ops) := by
  induction ops with
  | nil => intro s h _ _; exact h
  | cons op ops ih =>
    intro s h hin hfh
    obtain ⟨f1, f2, f3⟩ := hfh
    exact ih (vinv_step lossFn r12 sqrt tq hypot hm hfl h op (hin op List.mem_cons_self) f1 f2)
      (fun o ho => hin o (List.mem_cons_of_mem _ ho)) f3

theorem vinv_init (lo hi dxEps : α) (nn : Nat) (delta minError : α) (minS maxS : Nat) (ns : α) :
    VInv lossFn r12 hypot lo hi (hi - lo) (init lo hi 1 dxEps nn delta minError minS maxS ns) := by
  refine ⟨finv_init hypot lo hi 1 dxEps nn delta minError minS maxS ns,
    sinv_init lo hi 1 dxEps nn delta minError minS maxS ns, ⟨rfl, List.Pairwise.nil, List.Pairwise.nil⟩,
    ?_, ⟨rfl, rfl, L1D.boxOK_init .., ?_, rfl, rfl⟩⟩
  · intro k hk; simp [init, L1D.init, L1D.pairs] at hk
  · intro bb hbb; simp [init, L1D.init] at hbb

end Avg1DFull
