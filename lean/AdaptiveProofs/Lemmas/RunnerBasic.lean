import AdaptiveModel.Runner

/-!
Basic lemmas for the runner model (core Lean only): association lists, projections of
the ghost trace, closed forms of the helper functions of `Runner.step`.
-/
namespace Runner

/-! ### association lists -/

theorem mem_of_aget {k v : Nat} {l : List (Nat × Nat)} (h : aget k l = some v) : (k, v) ∈ l := by
  induction l with
  | nil => simp [aget] at h
  | cons a r ih =>
    obtain ⟨k', v'⟩ := a
    unfold aget at h
    split at h
    · simp_all
    · simp [ih h]

theorem aget_eq_none_iff {k : Nat} {l : List (Nat × Nat)} :
    aget k l = none ↔ k ∉ l.map Prod.fst := by
  induction l with
  | nil => simp [aget]
  | cons a r ih =>
    obtain ⟨k', v'⟩ := a
    unfold aget
    split
    · simp_all
    · simp_all

theorem aget_isSome_iff {k : Nat} {l : List (Nat × Nat)} :
    (aget k l).isSome = true ↔ k ∈ l.map Prod.fst := by
  rw [Option.isSome_iff_ne_none, Ne, aget_eq_none_iff, Classical.not_not]

theorem aget_of_mem {k v : Nat} {l : List (Nat × Nat)} (hnd : (l.map Prod.fst).Nodup)
    (h : (k, v) ∈ l) : aget k l = some v := by
  induction l with
  | nil => simp at h
  | cons a r ih =>
    obtain ⟨k', v'⟩ := a
    simp only [List.map_cons, List.nodup_cons] at hnd
    unfold aget
    rcases List.mem_cons.1 h with e | h'
    · simp only [Prod.mk.injEq] at e
      simp [e.1, e.2]
    · have : k ≠ k' := by
        intro e; subst e
        exact hnd.1 (List.mem_map.2 ⟨(k, v), h', rfl⟩)
      simp [this, ih hnd.2 h']

theorem aget_iff_mem {k v : Nat} {l : List (Nat × Nat)} (hnd : (l.map Prod.fst).Nodup) :
    aget k l = some v ↔ (k, v) ∈ l :=
  ⟨mem_of_aget, aget_of_mem hnd⟩

theorem aerase_sublist (k : Nat) (l : List (Nat × Nat)) : (aerase k l).Sublist l := by
  induction l with
  | nil => simp [aerase]
  | cons a r ih =>
    obtain ⟨k', v'⟩ := a
    unfold aerase
    split
    · simp
    · exact ih.cons_cons _

theorem mem_of_mem_aerase {k : Nat} {l : List (Nat × Nat)} {a : Nat × Nat}
    (h : a ∈ aerase k l) : a ∈ l :=
  (aerase_sublist k l).subset h

theorem aerase_keys_nodup {k : Nat} {l : List (Nat × Nat)} (h : (l.map Prod.fst).Nodup) :
    ((aerase k l).map Prod.fst).Nodup :=
  h.sublist ((aerase_sublist k l).map _)

theorem aerase_vals_nodup {k : Nat} {l : List (Nat × Nat)} (h : (l.map Prod.snd).Nodup) :
    ((aerase k l).map Prod.snd).Nodup :=
  h.sublist ((aerase_sublist k l).map _)

theorem aget_aerase_ne {k k' : Nat} {l : List (Nat × Nat)} (h : k ≠ k') :
    aget k (aerase k' l) = aget k l := by
  induction l with
  | nil => simp [aerase]
  | cons a r ih =>
    obtain ⟨k2, v2⟩ := a
    unfold aerase
    split
    · subst_vars; simp [aget, h]
    · simp [aget, ih]

theorem aget_aerase_self {k : Nat} {l : List (Nat × Nat)} (hnd : (l.map Prod.fst).Nodup) :
    aget k (aerase k l) = none := by
  induction l with
  | nil => simp [aerase, aget]
  | cons a r ih =>
    obtain ⟨k2, v2⟩ := a
    simp only [List.map_cons, List.nodup_cons] at hnd
    unfold aerase
    split
    · subst_vars; exact aget_eq_none_iff.2 hnd.1
    · rename_i hne; simp [aget, hne, ih hnd.2]

theorem mem_aerase_iff {k : Nat} {l : List (Nat × Nat)} (hnd : (l.map Prod.fst).Nodup)
    {a b : Nat} : (a, b) ∈ aerase k l ↔ a ≠ k ∧ (a, b) ∈ l := by
  rw [← aget_iff_mem (aerase_keys_nodup hnd), ← aget_iff_mem hnd]
  by_cases h : a = k
  · subst h; simp [aget_aerase_self hnd]
  · simp [aget_aerase_ne h, h]

theorem aget_aset {k k' v : Nat} {l : List (Nat × Nat)} :
    aget k (aset k' v l) = if k = k' then some v else aget k l := by
  induction l with
  | nil => simp [aset, aget]
  | cons a r ih =>
    obtain ⟨k2, v2⟩ := a
    unfold aset
    split
    · rename_i hk; subst hk
      by_cases h : k = k' <;> simp [aget, h]
    · rename_i hne
      by_cases h : k = k'
      · subst h; simp [aget, hne, ih]
      · simp only [aget, ih, h, if_false]

theorem keys_aset {k v : Nat} {l : List (Nat × Nat)} :
    (aset k v l).map Prod.fst = if k ∈ l.map Prod.fst then l.map Prod.fst else l.map Prod.fst ++ [k] := by
  induction l with
  | nil => simp [aset]
  | cons a r ih =>
    obtain ⟨k2, v2⟩ := a
    unfold aset
    split
    · subst_vars; simp
    · rename_i hne
      simp only [List.map_cons, ih, List.mem_cons, hne, false_or]
      split <;> simp

theorem aset_keys_nodup {k v : Nat} {l : List (Nat × Nat)} (h : (l.map Prod.fst).Nodup) :
    ((aset k v l).map Prod.fst).Nodup := by
  rw [keys_aset]
  split
  · exact h
  · rename_i hk
    exact List.nodup_append.2 ⟨h, by simp, by intro a ha b hb; simp at hb; subst hb; intro e; subst e; exact hk ha⟩

theorem aerase_aset_self {k v : Nat} {l : List (Nat × Nat)} :
    aerase k (aset k v l) = aerase k l := by
  induction l with
  | nil => simp [aset, aerase]
  | cons a r ih =>
    obtain ⟨k2, v2⟩ := a
    unfold aset
    split
    · subst_vars; simp [aerase]
    · rename_i hne; simp [aerase, hne, ih]

theorem length_aerase_le (k : Nat) (l : List (Nat × Nat)) : (aerase k l).length ≤ l.length :=
  (aerase_sublist k l).length_le

theorem length_aerase {k v : Nat} {l : List (Nat × Nat)} (h : aget k l = some v) :
    (aerase k l).length + 1 = l.length := by
  induction l with
  | nil => simp [aget] at h
  | cons a r ih =>
    obtain ⟨k2, v2⟩ := a
    unfold aget at h
    unfold aerase
    split
    · simp
    · rename_i hne; simp only [hne, if_false] at h; simp [ih h]

theorem aget_append {k : Nat} {l1 l2 : List (Nat × Nat)} :
    aget k (l1 ++ l2) = match aget k l1 with | some v => some v | none => aget k l2 := by
  induction l1 with
  | nil => simp [aget]
  | cons a r ih =>
    obtain ⟨k2, v2⟩ := a
    simp only [List.cons_append, aget]
    split
    · rfl
    · exact ih

theorem aget_append_of_some {k v : Nat} {l1 l2 : List (Nat × Nat)} (h : aget k l1 = some v) :
    aget k (l1 ++ l2) = some v := by
  rw [aget_append, h]

theorem aget_append_of_none {k : Nat} {l1 l2 : List (Nat × Nat)} (h : aget k l1 = none) :
    aget k (l1 ++ l2) = aget k l2 := by
  rw [aget_append, h]

/-- the dictionary of freshly asked points -/
theorem aget_zip_range' {k x : Nat} {pts : List Nat} {n : Nat}
    (h : aget k ((List.range' n pts.length).zip pts) = some x) :
    n ≤ k ∧ pts[k - n]? = some x := by
  induction pts generalizing n with
  | nil => simp [aget] at h
  | cons p r ih =>
    simp only [List.length_cons, List.range'_succ, List.zip_cons_cons, aget] at h
    split at h
    · subst_vars; simp_all
    · rename_i hne
      obtain ⟨a, b⟩ := ih h
      refine ⟨by omega, ?_⟩
      have : k - n = (k - (n + 1)) + 1 := by omega
      rw [this]; simpa using b

theorem keys_zip_range' (pts : List Nat) (n : Nat) :
    ((List.range' n pts.length).zip pts).map Prod.fst = List.range' n pts.length := by
  rw [List.map_fst_zip]; simp

theorem any_pid_iff {pend : List (Nat × Nat)} {pid : Nat} :
    (pend.any (fun fp => fp.2 == pid)) = true ↔ pid ∈ pend.map Prod.snd := by
  simp [List.any_eq_true]

/-! ### projections of the trace -/

theorem askedPts_append (a b : List Call) : askedPts (a ++ b) = askedPts a ++ askedPts b := by
  induction a with
  | nil => simp [askedPts]
  | cons c r ih => cases c <;> simp [askedPts, ih]

@[simp] theorem askedPts_snoc (tr : List Call) (c : Call) :
    askedPts (tr ++ [c]) = askedPts tr ++ (match c with | .ask _ pts => pts | _ => []) := by
  rw [askedPts_append]; cases c <;> simp [askedPts]

@[simp] theorem nSubmit_snoc (pid : Nat) (tr : List Call) (c : Call) :
    nSubmit pid (tr ++ [c]) =
      nSubmit pid tr + (match c with | .submit _ p _ => if p = pid then 1 else 0 | _ => 0) := by
  cases c <;> simp [nSubmit, List.filter_append, List.filter_cons]
  split <;> simp

@[simp] theorem nFail_snoc (pid : Nat) (tr : List Call) (c : Call) :
    nFail pid (tr ++ [c]) =
      nFail pid tr + (match c with | .evalFailed _ p => if p = pid then 1 else 0 | _ => 0) := by
  cases c <;> simp [nFail, List.filter_append, List.filter_cons]
  split <;> simp

@[simp] theorem nTell_snoc (pid : Nat) (tr : List Call) (c : Call) :
    nTell pid (tr ++ [c]) =
      nTell pid tr + (match c with | .tell _ p _ _ => if p = pid then 1 else 0 | _ => 0) := by
  cases c <;> simp [nTell, List.filter_append, List.filter_cons]
  split <;> simp

@[simp] theorem nSubmit_nil (pid : Nat) : nSubmit pid [] = 0 := rfl
@[simp] theorem nFail_nil (pid : Nat) : nFail pid [] = 0 := rfl
@[simp] theorem nTell_nil (pid : Nat) : nTell pid [] = 0 := rfl
@[simp] theorem askedPts_nil : askedPts [] = [] := rfl

theorem logProj_append (a b : List Call) : logProj (a ++ b) = logProj a ++ logProj b := by
  induction a with
  | nil => simp [logProj]
  | cons c r ih => cases c <;> simp [logProj, ih]

/-! ### `logIf`, `emit` only touch their own field -/

@[simp] theorem logIf_cfg (s : State) (e) : (logIf s e).cfg = s.cfg := by unfold logIf; split <;> rfl
@[simp] theorem logIf_pending (s : State) (e) : (logIf s e).pending = s.pending := by unfold logIf; split <;> rfl
@[simp] theorem logIf_idToPoint (s : State) (e) : (logIf s e).idToPoint = s.idToPoint := by unfold logIf; split <;> rfl
@[simp] theorem logIf_toRetry (s : State) (e) : (logIf s e).toRetry = s.toRetry := by unfold logIf; split <;> rfl
@[simp] theorem logIf_tracebacks (s : State) (e) : (logIf s e).tracebacks = s.tracebacks := by unfold logIf; split <;> rfl
@[simp] theorem logIf_nextId (s : State) (e) : (logIf s e).nextId = s.nextId := by unfold logIf; split <;> rfl
@[simp] theorem logIf_nextFut (s : State) (e) : (logIf s e).nextFut = s.nextFut := by unfold logIf; split <;> rfl
@[simp] theorem logIf_trace (s : State) (e) : (logIf s e).trace = s.trace := by unfold logIf; split <;> rfl
@[simp] theorem logIf_phase (s : State) (e) : (logIf s e).phase = s.phase := by unfold logIf; split <;> rfl
@[simp] theorem logIf_cleaned (s : State) (e) : (logIf s e).cleaned = s.cleaned := by unfold logIf; split <;> rfl
theorem logIf_log (s : State) (e) :
    (logIf s e).log = if s.cfg.doLog then s.log ++ [e] else s.log := by
  unfold logIf; split <;> rfl

@[simp] theorem retryPids_logIf (s : State) (e) : retryPids (logIf s e) = retryPids s := by
  simp [retryPids]

/-! ### closed forms -/

def submitCalls (idp : List (Nat × Nat)) : Nat → List Nat → List Call
  | _, [] => []
  | nf, pid :: r => .submit nf pid ((aget pid idp).getD 0) :: submitCalls idp (nf + 1) r

theorem submitAll_eq (l : List Nat) : ∀ s : State, submitAll s l =
    { s with trace := s.trace ++ submitCalls s.idToPoint s.nextFut l,
             pending := s.pending ++ (List.range' s.nextFut l.length).zip l,
             nextFut := s.nextFut + l.length } := by
  induction l with
  | nil => intro s; simp [submitAll, submitCalls]
  | cons p r ih =>
    intro s
    simp only [submitAll, emit, ih, submitCalls, List.length_cons, List.range'_succ,
      List.zip_cons_cons, List.append_assoc, List.cons_append, List.nil_append]
    congr 1; omega

theorem submitCalls_length (idp : List (Nat × Nat)) (l : List Nat) :
    ∀ nf, (submitCalls idp nf l).length = l.length := by
  induction l with
  | nil => intro nf; rfl
  | cons p r ih => intro nf; simp [submitCalls, ih]

theorem submitCalls_pids (idp : List (Nat × Nat)) (l : List Nat) :
    ∀ nf, (submitCalls idp nf l).map (fun c => match c with | .submit _ p _ => p | _ => 0) = l := by
  induction l with
  | nil => intro nf; rfl
  | cons p r ih => intro nf; simp [submitCalls, ih]

theorem submitCalls_append (idp : List (Nat × Nat)) (a b : List Nat) :
    ∀ nf, submitCalls idp nf (a ++ b) = submitCalls idp nf a ++ submitCalls idp (nf + a.length) b := by
  induction a with
  | nil => intro nf; simp [submitCalls]
  | cons p r ih =>
    intro nf
    simp only [List.cons_append, submitCalls, ih, List.length_cons]
    congr 3; omega

theorem submitCalls_take_pids (idp : List (Nat × Nat)) (a b : List Nat) (nf : Nat) :
    ((submitCalls idp nf (a ++ b)).take a.length).map
      (fun c => match c with | .submit _ p _ => p | _ => 0) = a := by
  rw [submitCalls_append]
  have := submitCalls_length idp a nf
  rw [List.take_append_of_le_length (by omega), List.take_of_length_le (by omega)]
  exact submitCalls_pids idp a nf

theorem cancelAll_eq (l : List (Nat × Nat)) : ∀ s : State, cancelAll s l =
    { s with trace := s.trace ++ l.map (fun fp => Call.cancel fp.1) } := by
  induction l with
  | nil => intro s; simp [cancelAll]
  | cons p r ih =>
    intro s
    obtain ⟨f, q⟩ := p
    simp [cancelAll, emit, ih]

theorem beginExit_eq (s : State) (st : Status) : beginExit s st =
    { s with trace := s.trace ++ Call.removeUnfinished :: s.pending.map (fun fp => Call.cancel fp.1),
             phase := if s.pending.isEmpty then .stopped st else .exitWait st,
             cleaned := if s.pending.isEmpty then true else s.cleaned } := by
  unfold beginExit
  simp only [cancelAll_eq, emit]
  split <;> simp_all

/-! ### closed forms of `processOne` -/

theorem processOne_none {s : State} {fut : Nat} {o : Outcome} (h : aget fut s.pending = none) :
    processOne s fut o = ({ s with phase := .stuck }, none) := by
  simp [processOne, h]

theorem processOne_ok {s : State} {fut pid : Nat} {y : Int} (h : aget fut s.pending = some pid) :
    processOne s fut (.ok y) =
      (emit (logIf { s with pending := aerase fut s.pending, toRetry := aerase pid s.toRetry,
                            tracebacks := s.tracebacks.erase pid,
                            idToPoint := aerase pid s.idToPoint }
              (.tell ((aget pid s.idToPoint).getD 0) y))
        (.tell fut pid ((aget pid s.idToPoint).getD 0) y), none) := by
  simp [processOne, h]

theorem processOne_fail {s : State} {fut pid : Nat} (h : aget fut s.pending = some pid) :
    processOne s fut .fail =
      if (aget pid s.toRetry).getD 0 + 1 > s.cfg.retries then
        if s.cfg.raiseIf then
          ({ s with pending := aerase fut s.pending,
                    trace := s.trace ++ [.evalFailed fut pid, .raise pid ((aget pid s.idToPoint).getD 0)],
                    tracebacks := if pid ∈ s.tracebacks then s.tracebacks else s.tracebacks ++ [pid],
                    toRetry := aerase pid s.toRetry }, some (pid, (aget pid s.idToPoint).getD 0))
        else
          ({ s with pending := aerase fut s.pending,
                    trace := s.trace ++ [.evalFailed fut pid],
                    tracebacks := if pid ∈ s.tracebacks then s.tracebacks else s.tracebacks ++ [pid],
                    toRetry := aerase pid s.toRetry }, none)
      else
        ({ s with pending := aerase fut s.pending,
                  trace := s.trace ++ [.evalFailed fut pid],
                  tracebacks := if pid ∈ s.tracebacks then s.tracebacks else s.tracebacks ++ [pid],
                  toRetry := aset pid ((aget pid s.toRetry).getD 0 + 1) s.toRetry }, none) := by
  simp only [processOne, h, emit, aerase_aset_self]
  split
  · split <;> (simp; rfl)
  · rfl

/-! ### induction principle for `processFutures` -/

theorem processFutures_induct (P : State → Prop) (l : List (Nat × Outcome))
    (hstep : ∀ s fut o, (fut, o) ∈ l → P s → P (processOne s fut o).1) :
    ∀ s, P s → P (processFutures s l).1 := by
  induction l with
  | nil => intro s h; exact h
  | cons a r ih =>
    intro s h
    obtain ⟨fut, o⟩ := a
    have h1 := hstep s fut o (by simp) h
    have ih' := ih (fun s f o hm => hstep s f o (by simp [hm]))
    unfold processFutures
    split
    · rename_i s' e heq; rw [heq] at h1; exact h1
    · rename_i s' heq; rw [heq] at h1
      split
      · exact h1
      · exact ih' s' h1

end Runner
