import Mathlib.Algebra.Order.Field.Basic
import Mathlib.Algebra.Order.BigOperators.Group.Finset
import Mathlib.Algebra.BigOperators.Group.Finset.Basic
import Mathlib.Algebra.BigOperators.Group.Finset.Piecewise
import Mathlib.Data.Finset.Lattice.Fold
import Mathlib.Data.Finset.Max
import Mathlib.Data.Fintype.Basic
import Mathlib.Data.Nat.Cast.Order.Field
import Mathlib.Tactic.Ring
import Mathlib.Tactic.Linarith

/-! Optimality of greedy "water-filling" allocation: the mathematical core of
`Learner1D._ask_points_without_adding`.

Intervals `i : ι` with weights (losses) `w i ≥ 0`; an allocation `g : ι → ℕ`, `1 ≤ g i`, says that
interval `i` is divided into `g i` equal parts, each of which then has loss `r (w i / g i)` where
`r` is a monotone rounding function (`finite_loss` in the Python code).  A greedy step picks ANY
interval maximising the current per-part loss and divides it into one more part.  After `k` steps
the maximal per-part loss is the least possible among all allocations using the same total number
of parts.

This file does not depend on the L1D model. -/
namespace L1D

section Algebra

variable {α : Type} [Field α] [LinearOrder α] [IsStrictOrderedRing α]

/-- The recurrence used by the code: the per-part loss of an interval divided into `n` parts,
multiplied by `n / (n + 1)`, is the per-part loss of the interval divided into `n + 1` parts. -/
theorem iter_mul_div (v : α) (n : ℕ) (hn : 1 ≤ n) :
    (v / n) * n / (n + 1) = v / (n + 1) := by
  have h : (n : α) ≠ 0 := by
    have : (0 : α) < n := by exact_mod_cast hn
    exact ne_of_gt this
  rw [div_mul_cancel₀ v h]

/-- Closed form of the iteration `v ↦ v * n / (n + 1)` started from `v / 2` at `n = 2`:
`iterLoss v m` is the value after `m` iterations. -/
def iterLoss (v : α) : ℕ → α
  | 0 => v / 2
  | m + 1 => iterLoss v m * ((m + 2 : ℕ) : α) / (((m + 2 : ℕ) : α) + 1)

theorem iterLoss_eq (v : α) (m : ℕ) : iterLoss v m = v / ((m + 2 : ℕ) : α) := by
  induction m with
  | zero => simp [iterLoss]
  | succ m ih =>
    rw [iterLoss, ih, iter_mul_div v (m + 2) (by omega)]
    push_cast
    ring_nf

/-- Dividing into one more part does not increase the per-part loss. -/
theorem div_succ_le (w : α) (hw : 0 ≤ w) (n : ℕ) (hn : 1 ≤ n) :
    w / ((n : α) + 1) ≤ w / n := by
  have h : (0 : α) < n := by exact_mod_cast hn
  exact div_le_div_of_nonneg_left hw h (by linarith)

/-- More parts, smaller per-part loss. -/
theorem div_nat_anti (w : α) (hw : 0 ≤ w) {m n : ℕ} (hm : 1 ≤ m) (hmn : m ≤ n) :
    w / (n : α) ≤ w / (m : α) := by
  have h : (0 : α) < m := by exact_mod_cast hm
  exact div_le_div_of_nonneg_left hw h (by exact_mod_cast hmn)

end Algebra

section Greedy

variable {α : Type} [Field α] [LinearOrder α] [IsStrictOrderedRing α]
variable {ι : Type} [Fintype ι] [DecidableEq ι]

/-- `Greedy w r k g`: the allocation `g` is reachable from the all-ones allocation by `k` greedy
steps; a step increments `g i` for an arbitrary maximiser `i` of `r (w i / g i)`. -/
inductive Greedy (w : ι → α) (r : α → α) : ℕ → (ι → ℕ) → Prop
  | zero : Greedy w r 0 (fun _ => 1)
  | step {k : ℕ} {g : ι → ℕ} (i : ι) : Greedy w r k g →
      (∀ j, r (w j / (g j : α)) ≤ r (w i / (g i : α))) →
      Greedy w r (k + 1) (Function.update g i (g i + 1))

omit [Fintype ι] [IsStrictOrderedRing α] in
theorem Greedy.one_le {w : ι → α} {r : α → α} {k : ℕ} {g : ι → ℕ} (h : Greedy w r k g) :
    ∀ i, 1 ≤ g i := by
  induction h with
  | zero => intro i; exact le_refl 1
  | step i _ _ ih =>
    intro j
    by_cases hj : j = i
    · subst hj; simp
    · simp only [Function.update_of_ne hj]; exact ih j

omit [IsStrictOrderedRing α] in
/-- A greedy allocation after `k` steps uses `card ι + k` parts. -/
theorem Greedy.sum_eq {w : ι → α} {r : α → α} {k : ℕ} {g : ι → ℕ} (h : Greedy w r k g) :
    ∑ i, g i = Fintype.card ι + k := by
  induction h with
  | zero => simp
  | @step k g i _ _ ih =>
    rw [Finset.sum_update_of_mem (Finset.mem_univ i)]
    have h2 : ∑ x ∈ Finset.univ \ {i}, g x + ∑ x ∈ {i}, g x = ∑ x, g x :=
      Finset.sum_sdiff (Finset.singleton_subset_iff.mpr (Finset.mem_univ i))
    rw [Finset.sum_singleton] at h2
    omega

omit [IsStrictOrderedRing α] in
/-- Non-vacuity: the greedy process can always continue (a maximiser exists). -/
theorem Greedy.exists [Nonempty ι] (w : ι → α) (r : α → α) (k : ℕ) : ∃ g, Greedy w r k g := by
  induction k with
  | zero => exact ⟨_, Greedy.zero⟩
  | succ k ih =>
    obtain ⟨g, hg⟩ := ih
    obtain ⟨i, _, hi⟩ := Finset.exists_max_image Finset.univ
      (fun j => r (w j / (g j : α))) Finset.univ_nonempty
    exact ⟨_, Greedy.step i hg (fun j => hi j (Finset.mem_univ j))⟩

omit [Fintype ι] in
/-- Exchange invariant: the per-part loss of `i` just before its last increment dominates every
current per-part loss. -/
theorem Greedy.exchange {w : ι → α} {r : α → α} (hw : ∀ i, 0 ≤ w i) (hr : Monotone r)
    {k : ℕ} {g : ι → ℕ} (h : Greedy w r k g) :
    ∀ i n, 1 ≤ n → g i = n + 1 → ∀ j, r (w j / (g j : α)) ≤ r (w i / (n : α)) := by
  induction h with
  | zero =>
    intro i n hn hg
    have : (1 : ℕ) = n + 1 := hg
    omega
  | @step k g i0 hg hmax ih =>
    have h1 := hg.one_le
    -- the incremented entry does not increase
    have hdec : r (w i0 / ((g i0 + 1 : ℕ) : α)) ≤ r (w i0 / (g i0 : α)) := by
      apply hr
      push_cast
      exact div_succ_le (w i0) (hw i0) (g i0) (h1 i0)
    -- every new per-part loss is below the old maximum
    have hall : ∀ j, r (w j / ((Function.update g i0 (g i0 + 1) j : ℕ) : α))
        ≤ r (w i0 / (g i0 : α)) := by
      intro j
      by_cases hj : j = i0
      · subst hj; rw [Function.update_self]; exact hdec
      · rw [Function.update_of_ne hj]; exact hmax j
    intro i n hn hgi j
    by_cases hi : i = i0
    · subst hi
      rw [Function.update_self] at hgi
      have : n = g i := by omega
      subst this
      exact hall j
    · rw [Function.update_of_ne hi] at hgi
      by_cases hj : j = i0
      · subst hj
        rw [Function.update_self]
        exact le_trans hdec (ih i n hn hgi j)
      · rw [Function.update_of_ne hj]; exact ih i n hn hgi j

/-- Optimality of greedy water-filling: among all allocations `a` (each interval divided into at
least one part) using the same total number of parts, the greedy allocation minimises the maximal
per-part loss.  Stated without `Finset.sup`: every upper bound `M` on the per-part losses of `a`
is an upper bound on those of `g`. -/
theorem greedy_optimal {w : ι → α} {r : α → α} (hw : ∀ i, 0 ≤ w i) (hr : Monotone r)
    {k : ℕ} {g : ι → ℕ} (hg : Greedy w r k g)
    (a : ι → ℕ) (ha : ∀ i, 1 ≤ a i) (hsum : ∑ i, a i = ∑ i, g i)
    (M : α) (hM : ∀ i, r (w i / (a i : α)) ≤ M) :
    ∀ j, r (w j / (g j : α)) ≤ M := by
  intro j
  by_cases hex : ∃ i, a i < g i
  · obtain ⟨i, hi⟩ := hex
    obtain ⟨n, hn⟩ : ∃ n, g i = n + 1 := ⟨g i - 1, by have := ha i; omega⟩
    have hn1 : 1 ≤ n := by have := ha i; omega
    have h1 := hg.exchange hw hr i n hn1 hn j
    have h2 : r (w i / (n : α)) ≤ r (w i / (a i : α)) :=
      hr (div_nat_anti (w i) (hw i) (ha i) (by omega))
    exact le_trans h1 (le_trans h2 (hM i))
  · have hle : ∀ i ∈ Finset.univ, g i ≤ a i := fun i _ => not_lt.mp (fun h => hex ⟨i, h⟩)
    have heq := (Finset.sum_eq_sum_iff_of_le hle).mp hsum.symm
    rw [heq j (Finset.mem_univ j)]
    exact hM j

/-- `greedy_optimal` with the total spelled out: `a` uses `card ι + k` parts. -/
theorem greedy_optimal_card {w : ι → α} {r : α → α} (hw : ∀ i, 0 ≤ w i) (hr : Monotone r)
    {k : ℕ} {g : ι → ℕ} (hg : Greedy w r k g)
    (a : ι → ℕ) (ha : ∀ i, 1 ≤ a i) (hsum : ∑ i, a i = Fintype.card ι + k)
    (M : α) (hM : ∀ i, r (w i / (a i : α)) ≤ M) :
    ∀ j, r (w j / (g j : α)) ≤ M :=
  greedy_optimal hw hr hg a ha (hsum.trans hg.sum_eq.symm) M hM

/-- `Finset.sup'` form of `greedy_optimal`. -/
theorem greedy_optimal_sup [Nonempty ι] {w : ι → α} {r : α → α} (hw : ∀ i, 0 ≤ w i)
    (hr : Monotone r) {k : ℕ} {g : ι → ℕ} (hg : Greedy w r k g)
    (a : ι → ℕ) (ha : ∀ i, 1 ≤ a i) (hsum : ∑ i, a i = ∑ i, g i) :
    Finset.univ.sup' Finset.univ_nonempty (fun i => r (w i / (g i : α)))
      ≤ Finset.univ.sup' Finset.univ_nonempty (fun i => r (w i / (a i : α))) := by
  apply Finset.sup'_le
  intro j _
  exact greedy_optimal hw hr hg a ha hsum _
    (fun i => Finset.le_sup' (fun i => r (w i / (a i : α))) (Finset.mem_univ i)) j

end Greedy

end L1D
