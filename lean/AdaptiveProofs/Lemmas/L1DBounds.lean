import AdaptiveProofs.Lemmas.L1DInv
import AdaptiveProofs.Lemmas.L1DAsk
import AdaptiveProofs.Lemmas.L1DScale

/-!
# Learner1D model: the in-bounds invariants along valid histories

A *valid history* is a list of operations in which every told / pending point lies inside the
domain `[lo, hi]`, and in which the batch path of `tell_many` is never taken with an empty list of
points (`ValidOp`, `ValidOps`; the real code raises on a forced empty batch of an empty learner:
`np.array([]).min()`).  Along such histories

* `lo`, `hi` never change (`step_lo`, `step_hi`, `run_lo`, `run_hi`);
* `BInv` holds: `lo < hi`, every evaluated-or-pending point is in `[lo, hi]`, the abscissa bounding
  box is the domain, and both the input scale `scaleX` and the scale captured by the loss tables
  `lossScale` are the domain width (`binv_init`, `binv_step`, `binv_run`);
* `ask` returns, for every `n`, exactly `n` pairwise distinct new points of `[lo, hi]`
  (`ask_props`, `ask_proviso`, `ask_props_run`, `ask_length_run`).

All statements are for arbitrary `lossFn`, `r12`, over an arbitrary linearly ordered field.

History of the definition.  Before the repair `fix: Learner1D.tell_many batch path shrank the x-scale
to the range of the points` the batch path set the x bounding box to the range of the points it knew,
and `ValidOp` had to carry the proviso "the batch path is only taken once both end points of the
domain are known, pending, or told in the batch itself" to keep `scaleX = lossScale = hi - lo`.  Since
the repair the box of the batch path always contains the domain (like `_update_scale`), and the
proviso is gone: for a non-empty list `xsC` all of whose elements lie in `[lo, hi]`,
`lo ≤ head`, `last ≤ hi`, hence `bboxX = (lo, hi)` (`box_of_in_bounds`, `binv_batchBase`).
-/
set_option linter.unusedSectionVars false
namespace L1D
variable {α : Type} [Field α] [LinearOrder α] [IsStrictOrderedRing α]

/-! ## statement-level definitions -/

/-- an operation of a valid history in state `s`: every told / pending point lies inside the domain,
and the batch path of `tell_many` is not taken with an empty list of points (the real code raises
on `tell_many([], [], force=True)` of an empty learner; `pts ≠ []` makes the abscissa list `xsC` of
the batch state non-empty, which is all `binv_batchBase` needs).  There is NO condition on the end
points of the domain any more (it was needed before the repair
`fix: Learner1D.tell_many batch path shrank the x-scale to the range of the points`). -/
def ValidOp (s : State α) : Op α → Prop
  | .tell x _ => s.lo ≤ x ∧ x ≤ s.hi
  | .tellPending x => s.lo ≤ x ∧ x ≤ s.hi
  | .tellMany pts force => (∀ kv ∈ pts, s.lo ≤ kv.1 ∧ kv.1 ≤ s.hi) ∧
      -- when the batch path is taken the batch is not empty
      ((force = true ∨ (s.data.length < 2 * pts.length ∧ 2 < pts.length)) → pts ≠ [])
  | .removeUnfinished => True
  | .ask _ _ => True

/-- the in-bounds invariant -/
structure BInv (s : State α) : Prop where
  lt : s.lo < s.hi
  xsC_in : ∀ x ∈ s.xsC, s.lo ≤ x ∧ x ≤ s.hi
  bbox : s.bboxX = (s.lo, s.hi)
  scaleX : s.scaleX = s.hi - s.lo
  lossScale : s.lossScale = s.hi - s.lo

variable (lossFn : List (Option α) → List (Option (List α)) → Loss α) (r12 : α → α)

/-- every operation of the list is valid in the state it is applied to -/
def ValidOps (s : State α) : List (Op α) → Prop
  | [] => True
  | op :: ops => ValidOp s op ∧ ValidOps (step lossFn r12 s op) ops

/-! ## the fields `BInv` looks at -/

/-- `(lo, hi, xsC, bboxX, scaleX, lossScale)` -/
def bview (s : State α) : α × α × List α × (α × α) × α × α :=
  (s.lo, s.hi, s.xsC, s.bboxX, s.scaleX, s.lossScale)

theorem bview_of_core {s s' : State α} (h : core s' = core s) : bview s' = bview s := by
  show bview (core s') = bview (core s)
  rw [h]

theorem binv_congr {s s' : State α} (h : bview s' = bview s) (hb : BInv s) : BInv s' := by
  simp only [bview, Prod.mk.injEq] at h
  obtain ⟨h1, h2, h3, h4, h5, h6⟩ := h
  refine ⟨?_, ?_, ?_, ?_, ?_⟩
  · rw [h1, h2]; exact hb.lt
  · rw [h1, h2, h3]; exact hb.xsC_in
  · rw [h1, h2, h4]; exact hb.bbox
  · rw [h1, h2, h5]; exact hb.scaleX
  · rw [h1, h2, h6]; exact hb.lossScale

theorem bview_maybeRescale (s : State α) : bview (maybeRescale lossFn r12 s) = bview s := by
  have hc := core_maybeRescale lossFn r12 s
  split at hc
  · exact (bview_of_core hc).trans rfl
  · exact bview_of_core hc

theorem bview_tell (s : State α) (x : α) (y : List α) :
    bview (tell lossFn r12 s x y) = if hasData s x then bview s else bview (tellPre s x y) := by
  rw [tell_eq]
  split
  · rfl
  · rw [bview_maybeRescale, bview_of_core (core_updateLosses lossFn r12 _ _ _)]

theorem bview_tellPending (s : State α) (x : α) :
    bview (tellPending lossFn r12 s x) =
      if hasData s x then bview s else (s.lo, s.hi, sinsert x s.xsC, s.bboxX, s.scaleX, s.lossScale) := by
  have hc := core_tellPending lossFn r12 s x
  by_cases h : hasData s x = true
  · rw [if_pos h] at hc ⊢; exact bview_of_core hc
  · rw [if_neg h] at hc ⊢; exact (bview_of_core hc).trans rfl

/-! ## 1. `lo`, `hi` never change -/

theorem tell_lo (s : State α) (x : α) (y : List α) : (tell lossFn r12 s x y).lo = s.lo := by
  have h := bview_tell lossFn r12 s x y
  split at h <;> exact congrArg Prod.fst h

theorem tell_hi (s : State α) (x : α) (y : List α) : (tell lossFn r12 s x y).hi = s.hi := by
  have h := bview_tell lossFn r12 s x y
  split at h <;> exact congrArg (fun v => v.2.1) h

theorem tellPending_lo (s : State α) (x : α) : (tellPending lossFn r12 s x).lo = s.lo := by
  have h := bview_tellPending lossFn r12 s x
  split at h <;> exact congrArg Prod.fst h

theorem tellPending_hi (s : State α) (x : α) : (tellPending lossFn r12 s x).hi = s.hi := by
  have h := bview_tellPending lossFn r12 s x
  split at h <;> exact congrArg (fun v => v.2.1) h

theorem foldl_lo_hi {β : Type} (F : State α → β → State α)
    (hF : ∀ s b, (F s b).lo = s.lo ∧ (F s b).hi = s.hi) (l : List β) (s : State α) :
    (l.foldl F s).lo = s.lo ∧ (l.foldl F s).hi = s.hi := by
  induction l generalizing s with
  | nil => exact ⟨rfl, rfl⟩
  | cons b bs ih =>
    rw [List.foldl_cons]
    exact ⟨(ih _).1.trans (hF s b).1, (ih _).2.trans (hF s b).2⟩

theorem tellManyBatch_lo_hi (s : State α) (pts : List (α × List α)) :
    (tellManyBatch lossFn r12 s pts).lo = s.lo ∧ (tellManyBatch lossFn r12 s pts).hi = s.hi := by
  have h := bview_of_core (core_tellManyBatch lossFn r12 s pts)
  exact ⟨congrArg Prod.fst h, congrArg (fun v => v.2.1) h⟩

theorem tellMany_lo_hi (s : State α) (pts : List (α × List α)) (f : Bool) :
    (tellMany lossFn r12 s pts f).lo = s.lo ∧ (tellMany lossFn r12 s pts f).hi = s.hi := by
  unfold tellMany
  split
  · exact foldl_lo_hi _ (fun s kv => ⟨tell_lo lossFn r12 s _ _, tell_hi lossFn r12 s _ _⟩) _ _
  · exact tellManyBatch_lo_hi lossFn r12 s pts

theorem ask_lo_hi (s : State α) (n : Nat) (c : Bool) :
    (ask lossFn r12 s n c).2.lo = s.lo ∧ (ask lossFn r12 s n c).2.hi = s.hi := by
  unfold ask
  dsimp only
  split
  · exact foldl_lo_hi _
      (fun s x => ⟨tellPending_lo lossFn r12 s x, tellPending_hi lossFn r12 s x⟩) _ _
  · exact ⟨rfl, rfl⟩

theorem step_lo_hi (s : State α) (op : Op α) :
    (step lossFn r12 s op).lo = s.lo ∧ (step lossFn r12 s op).hi = s.hi := by
  cases op with
  | tell x y => exact ⟨tell_lo lossFn r12 s x y, tell_hi lossFn r12 s x y⟩
  | tellPending x => exact ⟨tellPending_lo lossFn r12 s x, tellPending_hi lossFn r12 s x⟩
  | tellMany pts f => exact tellMany_lo_hi lossFn r12 s pts f
  | removeUnfinished => exact ⟨rfl, rfl⟩
  | ask n c => exact ask_lo_hi lossFn r12 s n c

/-- Target 1. -/
theorem step_lo (s : State α) (op : Op α) : (step lossFn r12 s op).lo = s.lo :=
  (step_lo_hi lossFn r12 s op).1

theorem step_hi (s : State α) (op : Op α) : (step lossFn r12 s op).hi = s.hi :=
  (step_lo_hi lossFn r12 s op).2

theorem run_lo (s : State α) (ops : List (Op α)) : (run lossFn r12 s ops).lo = s.lo :=
  (foldl_lo_hi _ (step_lo_hi lossFn r12) ops s).1

theorem run_hi (s : State α) (ops : List (Op α)) : (run lossFn r12 s ops).hi = s.hi :=
  (foldl_lo_hi _ (step_lo_hi lossFn r12) ops s).2

/-! ## 2. the initial state -/

/-- Target 2. -/
theorem binv_init {lo hi : α} (h : lo < hi) (factor dxEps : α) (nn : Nat) :
    BInv (init lo hi factor dxEps nn) :=
  ⟨h, fun _ hx => absurd hx List.not_mem_nil, rfl, rfl, rfl⟩

/-! ## 3. preservation by the operations -/

theorem binv_tellPre {s : State α} (hb : BInv s) {x : α} (h1 : s.lo ≤ x) (h2 : x ≤ s.hi)
    (y : List α) : BInv (tellPre s x y) := by
  have hb1 : s.bboxX.1 = s.lo := by rw [hb.bbox]
  have hb2 : s.bboxX.2 = s.hi := by rw [hb.bbox]
  have e : (tellPre s x y).bboxX = (s.lo, s.hi) := by
    show ((if x < s.bboxX.1 then x else s.bboxX.1), (if s.bboxX.2 < x then x else s.bboxX.2)) = _
    rw [hb1, hb2, if_neg (not_lt.2 h1), if_neg (not_lt.2 h2)]
  refine ⟨hb.lt, ?_, e, ?_, hb.lossScale⟩
  · intro z hz
    rcases mem_sinsert.1 hz with rfl | hz
    · exact ⟨h1, h2⟩
    · exact hb.xsC_in z hz
  · show (tellPre s x y).bboxX.2 - (tellPre s x y).bboxX.1 = _
    rw [e]
    rfl

/-- `tell` of an in-bounds point keeps `BInv` (no structural invariant needed) -/
theorem binv_tell {s : State α} (hb : BInv s) {x : α} (h1 : s.lo ≤ x) (h2 : x ≤ s.hi)
    (y : List α) : BInv (tell lossFn r12 s x y) := by
  have h := bview_tell lossFn r12 s x y
  split at h
  · exact binv_congr h hb
  · exact binv_congr h (binv_tellPre hb h1 h2 y)

/-- `tell_pending` of an in-bounds point keeps `BInv` -/
theorem binv_tellPending {s : State α} (hb : BInv s) {x : α} (h1 : s.lo ≤ x) (h2 : x ≤ s.hi) :
    BInv (tellPending lossFn r12 s x) := by
  have hc := core_tellPending lossFn r12 s x
  split at hc
  · exact binv_congr (bview_of_core hc) hb
  · refine binv_congr (bview_of_core hc) ⟨hb.lt, ?_, hb.bbox, hb.scaleX, hb.lossScale⟩
    intro z hz
    rcases mem_sinsert.1 hz with rfl | hz
    · exact ⟨h1, h2⟩
    · exact hb.xsC_in z hz

theorem binv_foldl_tellPending {s : State α} (hb : BInv s) (pts : List α)
    (h : ∀ x ∈ pts, s.lo ≤ x ∧ x ≤ s.hi) : BInv (pts.foldl (tellPending lossFn r12) s) := by
  induction pts generalizing s with
  | nil => exact hb
  | cons p pts ih =>
    rw [List.foldl_cons]
    have hp := h p List.mem_cons_self
    apply ih (binv_tellPending lossFn r12 hb hp.1 hp.2)
    intro x hx
    rw [tellPending_lo, tellPending_hi]
    exact h x (List.mem_cons_of_mem _ hx)

theorem binv_foldl_tell {s : State α} (hb : BInv s) (pts : List (α × List α))
    (h : ∀ kv ∈ pts, s.lo ≤ kv.1 ∧ kv.1 ≤ s.hi) :
    BInv (pts.foldl (fun s kv => tell lossFn r12 s kv.1 kv.2) s) := by
  induction pts generalizing s with
  | nil => exact hb
  | cons p pts ih =>
    rw [List.foldl_cons]
    have hp := h p List.mem_cons_self
    apply ih (binv_tell lossFn r12 hb hp.1 hp.2 p.2)
    intro x hx
    rw [tell_lo, tell_hi]
    exact h x (List.mem_cons_of_mem _ hx)

theorem binv_removeUnfinished {s : State α} (hI : Inv s) (hb : BInv s) :
    BInv (removeUnfinished s) := by
  refine ⟨hb.lt, ?_, hb.bbox, hb.scaleX, hb.lossScale⟩
  intro x hx
  exact hb.xsC_in x ((hI.xsC_mem x).2 (Or.inl ((hI.xs_mem x).1 hx)))

/-- committed `ask`: the suggested points are in bounds by `ask_fresh` -/
theorem binv_ask {s : State α} (hI : Inv s) (hb : BInv s) (n : Nat) (c : Bool) :
    BInv (ask lossFn r12 s n c).2 := by
  unfold ask
  dsimp only
  split
  · apply binv_foldl_tellPending lossFn r12 hb
    intro x hx
    exact ((ask_fresh r12 s n hI hb.lt hb.xsC_in).1 x hx).2
  · exact hb

/-! ### the batch path -/

/-- the x bounding box computed by the batch path from a NON-EMPTY list all of whose elements lie in
`[lo, hi]` is the domain: `lo ≤ head`, `last ≤ hi` (no sortedness needed) -/
theorem box_of_in_bounds {l : List α} (hne : l ≠ []) {lo hi : α}
    (hin : ∀ z ∈ l, lo ≤ z ∧ z ≤ hi) (d : α) :
    ((if lo < l.headD d then lo else l.headD d), (if l.getLastD d < hi then hi else l.getLastD d)) =
      (lo, hi) := by
  have h1 : l.headD d ∈ l := by
    cases l with
    | nil => exact absurd rfl hne
    | cons a r => exact List.mem_cons_self
  have h2 : l.getLastD d ∈ l := by
    rw [List.getLastD_eq_getLast?]
    cases hl : l.getLast? with
    | none => exact absurd (List.getLast?_eq_none_iff.1 hl) hne
    | some z => exact List.mem_of_getLast? hl
  have e1 : (if lo < l.headD d then lo else l.headD d) = lo := by
    split
    · rfl
    · rename_i h
      exact le_antisymm (not_lt.1 h) (hin _ h1).1
  have e2 : (if l.getLastD d < hi then hi else l.getLastD d) = hi := by
    split
    · rfl
    · rename_i h
      exact le_antisymm (hin _ h2).2 (not_lt.1 h)
  rw [e1, e2]

theorem any_key_iff {pts : List (α × List α)} {p : α} :
    pts.any (fun kv => decide (kv.1 = p)) = true ↔ p ∈ dkeys pts := by
  simp only [List.any_eq_true, decide_eq_true_eq, dkeys, List.mem_map]

theorem mem_batchBase_xsC {s : State α} (hI : Inv s) (pts : List (α × List α)) (z : α) :
    z ∈ (batchBase s pts).xsC ↔
      (z ∈ s.pending ∧ z ∉ dkeys pts) ∨ z ∈ dkeys pts ∨ z ∈ dkeys s.data := by
  obtain ⟨hp, _⟩ := inv_iff.1 hI
  obtain ⟨_, d2⟩ := dkeys_foldl_dataSet pts s.data hp.data_nodup
  have hx : (batchBase s pts).xsC =
      sortList (s.pending.filter (fun p => !(pts.any (fun kv => decide (kv.1 = p)))) ++
        dkeys (pts.foldl (fun d kv => dataSet d kv.1 kv.2) s.data)) := rfl
  rw [hx, mem_sortList, List.mem_append, List.mem_filter, d2 z, Bool.not_eq_true', ← any_key_iff,
    Bool.not_eq_true]

/-- a non-empty batch gives a non-empty abscissa list -/
theorem batchBase_xsC_ne_nil {s : State α} (hI : Inv s) {pts : List (α × List α)}
    (hne : pts ≠ []) : (batchBase s pts).xsC ≠ [] := by
  obtain ⟨kv, hkv⟩ := List.exists_mem_of_ne_nil _ hne
  have : kv.1 ∈ (batchBase s pts).xsC :=
    (mem_batchBase_xsC hI pts kv.1).2 (Or.inr (Or.inl (List.mem_map.2 ⟨kv, hkv, rfl⟩)))
  exact List.ne_nil_of_mem this

/-- The batch base state of a batch of in-bounds points has `BInv`, as soon as it holds at least one
point (`hne`; for `pts ≠ []` see `batchBase_xsC_ne_nil`).  No condition on the end points of the
domain: the x bounding box of the batch path contains the domain since the repair
`fix: Learner1D.tell_many batch path shrank the x-scale to the range of the points`. -/
theorem binv_batchBase {s : State α} (hI : Inv s) (hb : BInv s) (pts : List (α × List α))
    (hin : ∀ kv ∈ pts, s.lo ≤ kv.1 ∧ kv.1 ≤ s.hi)
    (hne : (batchBase s pts).xsC ≠ []) :
    BInv (batchBase s pts) := by
  have hmem := mem_batchBase_xsC hI pts
  -- everything is in bounds
  have hall : ∀ z ∈ (batchBase s pts).xsC, s.lo ≤ z ∧ z ≤ s.hi := by
    intro z hz
    rcases (hmem z).1 hz with ⟨h, _⟩ | h | h
    · exact hb.xsC_in z ((hI.xsC_mem z).2 (Or.inr h))
    · obtain ⟨kv, hkv, rfl⟩ := List.mem_map.1 h
      exact hin kv hkv
    · exact hb.xsC_in z ((hI.xsC_mem z).2 (Or.inl (hasData_iff_ask.2 h)))
  have eb : (batchBase s pts).bboxX = (s.lo, s.hi) := by
    show ((if s.lo < (batchBase s pts).xsC.headD 0 then s.lo else (batchBase s pts).xsC.headD 0),
      (if (batchBase s pts).xsC.getLastD 0 < s.hi then s.hi else (batchBase s pts).xsC.getLastD 0)) = _
    exact box_of_in_bounds hne hall 0
  have es : (batchBase s pts).scaleX = s.hi - s.lo := by
    show (batchBase s pts).bboxX.2 - (batchBase s pts).bboxX.1 = _
    rw [eb]
  exact ⟨hb.lt, hall, eb, es, es⟩

theorem binv_tellManyBatch {s : State α} (hI : Inv s) (hb : BInv s) (pts : List (α × List α))
    (hin : ∀ kv ∈ pts, s.lo ≤ kv.1 ∧ kv.1 ≤ s.hi)
    (hne : (batchBase s pts).xsC ≠ []) :
    BInv (tellManyBatch lossFn r12 s pts) :=
  binv_congr (bview_of_core (core_tellManyBatch lossFn r12 s pts))
    (binv_batchBase hI hb pts hin hne)

theorem binv_tellMany {s : State α} (hI : Inv s) (hb : BInv s) {pts : List (α × List α)}
    {force : Bool} (hv : ValidOp s (.tellMany pts force)) :
    BInv (tellMany lossFn r12 s pts force) := by
  obtain ⟨hin, hbatch⟩ := hv
  unfold tellMany
  split
  · exact binv_foldl_tell lossFn r12 hb pts hin
  · rename_i hc
    have hcond : force = true ∨ (s.data.length < 2 * pts.length ∧ 2 < pts.length) := by
      cases force with
      | true => exact Or.inl rfl
      | false => right; simpa using hc
    exact binv_tellManyBatch lossFn r12 hI hb pts hin (batchBase_xsC_ne_nil hI (hbatch hcond))

/-- Target 3. -/
theorem binv_step {s : State α} (hI : Inv s) (hb : BInv s) {op : Op α} (hv : ValidOp s op) :
    BInv (step lossFn r12 s op) := by
  cases op with
  | tell x y => exact binv_tell lossFn r12 hb hv.1 hv.2 y
  | tellPending x => exact binv_tellPending lossFn r12 hb hv.1 hv.2
  | tellMany pts f => exact binv_tellMany lossFn r12 hI hb hv
  | removeUnfinished => exact binv_removeUnfinished hI hb
  | ask n c => exact binv_ask lossFn r12 hI hb n c

/-! ## 4. valid histories -/

theorem binv_run_of : ∀ (ops : List (Op α)) (s : State α), Inv s → BInv s →
    ValidOps lossFn r12 s ops → BInv (run lossFn r12 s ops) ∧ Inv (run lossFn r12 s ops)
  | [], _, hI, hb, _ => ⟨hb, hI⟩
  | op :: ops, s, hI, hb, hv =>
    binv_run_of ops (step lossFn r12 s op) (inv_step lossFn r12 hI op)
      (binv_step lossFn r12 hI hb hv.1) hv.2

/-- Target 4. -/
theorem binv_run {lo hi : α} (hlt : lo < hi) (factor dxEps : α) (nn : Nat) (ops : List (Op α))
    (hv : ValidOps lossFn r12 (init lo hi factor dxEps nn) ops) :
    BInv (run lossFn r12 (init lo hi factor dxEps nn) ops) ∧
      Inv (run lossFn r12 (init lo hi factor dxEps nn) ops) :=
  binv_run_of lossFn r12 ops _ (inv_init lo hi factor dxEps nn) (binv_init hlt factor dxEps nn) hv

/-! ## 5. the properties of `ask` in reachable valid states -/

/-- The proviso of `ask_length` holds in every state with `Inv` and `BInv`: if no bound is missing,
both `lo < hi` are evaluated or pending, so there is at least one combined interval. -/
theorem ask_proviso {s : State α} (hI : Inv s) (hb : BInv s) :
    s.data.length + s.pending.length = 0 ∨ s.lossesC ≠ [] ∨ missingBounds s ≠ [] := by
  by_cases hm : missingBounds s = []
  · right; left
    have hne : s.lo ≠ s.hi := ne_of_lt hb.lt
    have hmem : ∀ b, (b = s.lo ∨ b = s.hi) → b ∈ s.xsC := by
      intro b hbb
      have hbl : b ∈ (if s.lo = s.hi then [s.lo] else [s.lo, s.hi]) := by
        rw [if_neg hne]
        rcases hbb with rfl | rfl
        · exact List.mem_cons_self
        · exact List.mem_cons_of_mem _ List.mem_cons_self
      unfold missingBounds at hm
      have := List.filter_eq_nil_iff.1 hm b hbl
      rw [hI.xsC_mem]
      by_cases hd : hasData s b = true
      · exact Or.inl hd
      · right
        simpa [hd] using this
    have hlo := hmem s.lo (Or.inl rfl)
    have hhi := hmem s.hi (Or.inr rfl)
    have hp : pairs s.xsC ≠ [] := by
      cases hx : s.xsC with
      | nil => rw [hx] at hlo; exact absurd hlo List.not_mem_nil
      | cons a r =>
        cases r with
        | nil =>
          rw [hx, List.mem_singleton] at hlo hhi
          exact absurd (hlo.trans hhi.symm) hne
        | cons b r => simp [pairs]
    obtain ⟨iv, hiv⟩ := List.exists_mem_of_ne_nil _ hp
    have hk := (hI.lossesC_keys iv).2 hiv
    intro hnil
    rw [hnil] at hk
    exact absurd hk List.not_mem_nil
  · exact Or.inr (Or.inr hm)

/-- State-level package: in a state with the structural and the in-bounds invariant, `ask` returns
exactly `n` pairwise distinct points of `[lo, hi]`, none of which is evaluated or pending, and `n`
loss improvements. -/
theorem ask_props {s : State α} (hI : Inv s) (hb : BInv s) (n : Nat) :
    (askPoints r12 s n).1.Nodup ∧
    (∀ x ∈ (askPoints r12 s n).1,
      s.lo ≤ x ∧ x ≤ s.hi ∧ x ∉ s.xsC ∧ hasData s x = false ∧ x ∉ s.pending) ∧
    (askPoints r12 s n).1.length = n ∧ (askPoints r12 s n).2.length = n := by
  obtain ⟨h1, h2⟩ := ask_fresh r12 s n hI hb.lt hb.xsC_in
  obtain ⟨h3, h4⟩ := ask_length r12 s n (ask_proviso hI hb)
  refine ⟨h2, ?_, h3, h4⟩
  intro x hx
  obtain ⟨a, b, c⟩ := h1 x hx
  have hn : ¬ (hasData s x = true ∨ x ∈ s.pending) := fun h => a ((hI.xsC_mem x).2 h)
  refine ⟨b, c, a, ?_, fun h => hn (Or.inr h)⟩
  cases hd : hasData s x with
  | false => rfl
  | true => exact absurd (Or.inl hd) hn

/-- Target 5.  In every state reachable by a valid history, for every `n`, the points returned by
`ask(n)` are pairwise distinct, lie in `[lo, hi]`, are neither evaluated nor pending, and there are
exactly `n` of them (and `n` loss improvements). -/
theorem ask_props_run {lo hi : α} (hlt : lo < hi) (factor dxEps : α) (nn : Nat)
    (ops : List (Op α)) (hv : ValidOps lossFn r12 (init lo hi factor dxEps nn) ops) (n : Nat) :
    let s := run lossFn r12 (init lo hi factor dxEps nn) ops
    (askPoints r12 s n).1.Nodup ∧
    (∀ x ∈ (askPoints r12 s n).1,
      lo ≤ x ∧ x ≤ hi ∧ x ∉ s.xsC ∧ hasData s x = false ∧ x ∉ s.pending) ∧
    (askPoints r12 s n).1.length = n ∧ (askPoints r12 s n).2.length = n := by
  intro s
  obtain ⟨hb, hI⟩ := binv_run lossFn r12 hlt factor dxEps nn ops hv
  have h := ask_props r12 hI hb n
  have elo : s.lo = lo := run_lo lossFn r12 _ ops
  have ehi : s.hi = hi := run_hi lossFn r12 _ ops
  rw [elo, ehi] at h
  exact h

/-- `ask(n)` returns exactly `n` points in every state reachable by a valid history: the proviso of
`ask_length` (`ask_proviso`) holds automatically there. -/
theorem ask_length_run {lo hi : α} (hlt : lo < hi) (factor dxEps : α) (nn : Nat)
    (ops : List (Op α)) (hv : ValidOps lossFn r12 (init lo hi factor dxEps nn) ops) (n : Nat) :
    ((askPoints r12 (run lossFn r12 (init lo hi factor dxEps nn) ops) n).1).length = n :=
  (ask_props_run lossFn r12 hlt factor dxEps nn ops hv n).2.2.1

/-! ## the batch path of `tell_many` and the input scale

Since the repair `fix: Learner1D.tell_many batch path shrank the x-scale` the batch path keeps the
domain inside the x bounding box, like `tell`: on `[0, 1]` a batch of three interior points leaves
`bboxX = (0, 1)` and `scaleX = lossScale = 1`.  (Before the repair it gave `(1/4, 3/4)` and `1/2`.) -/
example :
    let s := step (fun _ _ => Loss.fin 0) (id : Rat → Rat) (init (0 : Rat) 1 2 0 0)
      (.tellMany [(1/4, [0]), (1/2, [0]), (3/4, [0])] false)
    s.bboxX = (0, 1) ∧ s.scaleX = 1 ∧ s.lossScale = 1 := by decide +kernel

example :
    let s := step (fun _ _ => Loss.fin 0) (id : Rat → Rat) (init (0 : Rat) 1 2 0 0)
      (.tellMany [(1/4, [0]), (3/4, [0])] false)
    s.bboxX = (0, 1) ∧ s.scaleX = 1 ∧ s.lossScale = 1 := by decide +kernel

/-- the history of the non-vacuity example of the brief: bounds `(0, 10)`, a forced batch of the
interior points 2, 3, 4 only — the box, the input scale and the scale of the tables are the domain's -/
example :
    let s := step (fun _ _ => Loss.fin 0) (id : Rat → Rat) (init (0 : Rat) 10 2 0 0)
      (.tellMany [(2, [0]), (3, [0]), (4, [0])] true)
    s.bboxX = (0, 10) ∧ s.scaleX = 10 ∧ s.lossScale = 10 := by decide +kernel

/-! ## why `ValidOp` keeps `pts ≠ []` for the batch path

The conjunct is NEEDED in the model: for an empty learner a forced empty batch leaves `xsC = []`, and
the model's `headD 0` / `getLastD 0` then put the default `0` into the box.  On the domain `[1, 2]`
this gives `bboxX = (0, 2)` and `scaleX = lossScale = 2 ≠ hi - lo`, so `BInv` fails.  (The real code
does not get that far: `np.array([]).min()` raises `ValueError`; the model does not mirror the
exception, so the history is excluded by the quantifier instead.)  A forced empty batch of a learner
that already holds a point is harmless, which is why `binv_batchBase` asks only for a non-empty
batch state. -/
example :
    let s := step (fun _ _ => Loss.fin 0) (id : Rat → Rat) (init (1 : Rat) 2 2 0 0)
      (.tellMany [] true)
    s.bboxX = (0, 2) ∧ s.scaleX = 2 ∧ s.lossScale = 2 ∧ s.hi - s.lo = 1 := by decide +kernel

end L1D
