import AdaptiveProofs.Lemmas.PrimsDefs
import Mathlib.Tactic.Ring
import Mathlib.Tactic.LinearCombination
import Mathlib.Tactic.Linarith

/-!
Closed forms of the generated circumcircle / circumsphere definitions and the algebra behind
"the returned centre is equidistant from all vertices" (Cramer's rule, denominators cleared by
hand: DESIGN.md 2.6).
-/
set_option linter.unusedSectionVars false
namespace Prims
open Gen.Prims
variable {α : Type} [Field α]

/-! ### 2-D -/

/-- numerators of the relative circumcentre (the code's `dx`, `dy`) -/
def c2dx (x0 y0 x1 y1 x2 y2 : α) : α :=
  ((x1 - x0) * (x1 - x0) + (y1 - y0) * (y1 - y0)) * (y2 - y0)
    - ((x2 - x0) * (x2 - x0) + (y2 - y0) * (y2 - y0)) * (y1 - y0)
def c2dy (x0 y0 x1 y1 x2 y2 : α) : α :=
  -((x1 - x0) * (x1 - x0) + (y1 - y0) * (y1 - y0)) * (x2 - x0)
    + ((x2 - x0) * (x2 - x0) + (y2 - y0) * (y2 - y0)) * (x1 - x0)

/-- the generated `fast_2d_circumcircle`, read off its definition -/
theorem circ2_closed (sqrt : α → α) (x0 y0 x1 y1 x2 y2 : α) :
    fast_2d_circumcircle sqrt x0 y0 x1 y1 x2 y2 =
      ((c2dx x0 y0 x1 y1 x2 y2 / (2 * cross2 x0 y0 x1 y1 x2 y2) + x0,
        c2dy x0 y0 x1 y1 x2 y2 / (2 * cross2 x0 y0 x1 y1 x2 y2) + y0),
       sqrt (c2dx x0 y0 x1 y1 x2 y2 / (2 * cross2 x0 y0 x1 y1 x2 y2) * (c2dx x0 y0 x1 y1 x2 y2 / (2 * cross2 x0 y0 x1 y1 x2 y2))
           + c2dy x0 y0 x1 y1 x2 y2 / (2 * cross2 x0 y0 x1 y1 x2 y2) * (c2dy x0 y0 x1 y1 x2 y2 / (2 * cross2 x0 y0 x1 y1 x2 y2)))) :=
  rfl

/-- relative form: centre = `p0 + (u, v)`, radius = `sqrt (u² + v²)`, with `u·a = dx`, `v·a = dy` -/
theorem circ2_rel (sqrt : α → α) (x0 y0 x1 y1 x2 y2 : α) (h : (2 : α) * cross2 x0 y0 x1 y1 x2 y2 ≠ 0) :
    ∃ u v : α, fast_2d_circumcircle sqrt x0 y0 x1 y1 x2 y2 = ((u + x0, v + y0), sqrt (u * u + v * v)) ∧
      u * (2 * cross2 x0 y0 x1 y1 x2 y2) = c2dx x0 y0 x1 y1 x2 y2 ∧
      v * (2 * cross2 x0 y0 x1 y1 x2 y2) = c2dy x0 y0 x1 y1 x2 y2 :=
  ⟨_, _, circ2_closed sqrt x0 y0 x1 y1 x2 y2, div_mul_cancel₀ _ h, div_mul_cancel₀ _ h⟩

/-- Cramer: the point `p0 + (u, v)` is equidistant from `p0`, `p1`, `p2` -/
theorem circ2_core {x0 y0 x1 y1 x2 y2 u v : α} (h : (2 : α) * cross2 x0 y0 x1 y1 x2 y2 ≠ 0)
    (hu : u * (2 * cross2 x0 y0 x1 y1 x2 y2) = c2dx x0 y0 x1 y1 x2 y2)
    (hv : v * (2 * cross2 x0 y0 x1 y1 x2 y2) = c2dy x0 y0 x1 y1 x2 y2) :
    dsq2 (u + x0) (v + y0) x1 y1 = u * u + v * v ∧ dsq2 (u + x0) (v + y0) x2 y2 = u * u + v * v := by
  have k1 : (2 * cross2 x0 y0 x1 y1 x2 y2) * (dsq2 (u + x0) (v + y0) x1 y1 - (u * u + v * v)) = 0 := by
    simp only [dsq2, cross2, c2dx, c2dy] at *
    linear_combination (-2 * (x1 - x0)) * hu + (-2 * (y1 - y0)) * hv
  have k2 : (2 * cross2 x0 y0 x1 y1 x2 y2) * (dsq2 (u + x0) (v + y0) x2 y2 - (u * u + v * v)) = 0 := by
    simp only [dsq2, cross2, c2dx, c2dy] at *
    linear_combination (-2 * (x2 - x0)) * hu + (-2 * (y2 - y0)) * hv
  exact ⟨sub_eq_zero.mp ((mul_eq_zero.mp k1).resolve_left h), sub_eq_zero.mp ((mul_eq_zero.mp k2).resolve_left h)⟩

/-- uniqueness: a point equidistant from the three vertices is `p0 + (u, v)` -/
theorem circ2_unique {x0 y0 x1 y1 x2 y2 u v p q : α} (h : (2 : α) * cross2 x0 y0 x1 y1 x2 y2 ≠ 0)
    (hu : u * (2 * cross2 x0 y0 x1 y1 x2 y2) = c2dx x0 y0 x1 y1 x2 y2)
    (hv : v * (2 * cross2 x0 y0 x1 y1 x2 y2) = c2dy x0 y0 x1 y1 x2 y2)
    (e1 : dsq2 p q x0 y0 = dsq2 p q x1 y1) (e2 : dsq2 p q x0 y0 = dsq2 p q x2 y2) :
    p = u + x0 ∧ q = v + y0 := by
  have k1 : (2 * cross2 x0 y0 x1 y1 x2 y2) * (p - (u + x0)) = 0 := by
    simp only [dsq2, cross2, c2dx, c2dy] at *
    linear_combination (-1 : α) * hu + (y2 - y0) * e1 - (y1 - y0) * e2
  have k2 : (2 * cross2 x0 y0 x1 y1 x2 y2) * (q - (v + y0)) = 0 := by
    simp only [dsq2, cross2, c2dx, c2dy] at *
    linear_combination (-1 : α) * hv - (x2 - x0) * e1 + (x1 - x0) * e2
  exact ⟨sub_eq_zero.mp ((mul_eq_zero.mp k1).resolve_left h), sub_eq_zero.mp ((mul_eq_zero.mp k2).resolve_left h)⟩

/-! ### 3-D -/
section three
variable (x0 y0 z0 x1 y1 z1 x2 y2 z2 x3 y3 z3 : α)

/-- the code's `aa` (expansion along the first column of the edge-vector matrix) -/
def c3aa : α :=
  (x1 - x0) * ((y2 - y0) * (z3 - z0) - (z2 - z0) * (y3 - y0))
  - (x2 - x0) * ((y1 - y0) * (z3 - z0) - (z1 - z0) * (y3 - y0))
  + (x3 - x0) * ((y1 - y0) * (z2 - z0) - (z1 - z0) * (y2 - y0))
def c3l1 : α := (x1 - x0) * (x1 - x0) + (y1 - y0) * (y1 - y0) + (z1 - z0) * (z1 - z0)
def c3l2 : α := (x2 - x0) * (x2 - x0) + (y2 - y0) * (y2 - y0) + (z2 - z0) * (z2 - z0)
def c3l3 : α := (x3 - x0) * (x3 - x0) + (y3 - y0) * (y3 - y0) + (z3 - z0) * (z3 - z0)
def c3dx : α :=
  c3l1 x0 y0 z0 x1 y1 z1 * ((y2 - y0) * (z3 - z0) - (z2 - z0) * (y3 - y0))
  - c3l2 x0 y0 z0 x2 y2 z2 * ((y1 - y0) * (z3 - z0) - (z1 - z0) * (y3 - y0))
  + c3l3 x0 y0 z0 x3 y3 z3 * ((y1 - y0) * (z2 - z0) - (z1 - z0) * (y2 - y0))
def c3dy : α :=
  c3l1 x0 y0 z0 x1 y1 z1 * ((x2 - x0) * (z3 - z0) - (z2 - z0) * (x3 - x0))
  - c3l2 x0 y0 z0 x2 y2 z2 * ((x1 - x0) * (z3 - z0) - (z1 - z0) * (x3 - x0))
  + c3l3 x0 y0 z0 x3 y3 z3 * ((x1 - x0) * (z2 - z0) - (z1 - z0) * (x2 - x0))
def c3dz : α :=
  c3l1 x0 y0 z0 x1 y1 z1 * ((x2 - x0) * (y3 - y0) - (y2 - y0) * (x3 - x0))
  - c3l2 x0 y0 z0 x2 y2 z2 * ((x1 - x0) * (y3 - y0) - (y1 - y0) * (x3 - x0))
  + c3l3 x0 y0 z0 x3 y3 z3 * ((x1 - x0) * (y2 - y0) - (y1 - y0) * (x2 - x0))

/-- the code's denominator is the determinant of the edge vectors (transpose expansion) -/
theorem c3aa_eq_cross3 : c3aa x0 y0 z0 x1 y1 z1 x2 y2 z2 x3 y3 z3 = cross3 x0 y0 z0 x1 y1 z1 x2 y2 z2 x3 y3 z3 := by
  simp only [c3aa, cross3]; ring

/-- the generated `fast_3d_circumcircle`, read off its definition -/
theorem circ3_closed (sqrt : α → α) :
    fast_3d_circumcircle sqrt x0 y0 z0 x1 y1 z1 x2 y2 z2 x3 y3 z3 =
      ((c3dx x0 y0 z0 x1 y1 z1 x2 y2 z2 x3 y3 z3 / (2 * c3aa x0 y0 z0 x1 y1 z1 x2 y2 z2 x3 y3 z3) + x0,
        -c3dy x0 y0 z0 x1 y1 z1 x2 y2 z2 x3 y3 z3 / (2 * c3aa x0 y0 z0 x1 y1 z1 x2 y2 z2 x3 y3 z3) + y0,
        c3dz x0 y0 z0 x1 y1 z1 x2 y2 z2 x3 y3 z3 / (2 * c3aa x0 y0 z0 x1 y1 z1 x2 y2 z2 x3 y3 z3) + z0),
       sqrt (c3dx x0 y0 z0 x1 y1 z1 x2 y2 z2 x3 y3 z3 / (2 * c3aa x0 y0 z0 x1 y1 z1 x2 y2 z2 x3 y3 z3)
               * (c3dx x0 y0 z0 x1 y1 z1 x2 y2 z2 x3 y3 z3 / (2 * c3aa x0 y0 z0 x1 y1 z1 x2 y2 z2 x3 y3 z3))
             + -c3dy x0 y0 z0 x1 y1 z1 x2 y2 z2 x3 y3 z3 / (2 * c3aa x0 y0 z0 x1 y1 z1 x2 y2 z2 x3 y3 z3)
               * (-c3dy x0 y0 z0 x1 y1 z1 x2 y2 z2 x3 y3 z3 / (2 * c3aa x0 y0 z0 x1 y1 z1 x2 y2 z2 x3 y3 z3))
             + c3dz x0 y0 z0 x1 y1 z1 x2 y2 z2 x3 y3 z3 / (2 * c3aa x0 y0 z0 x1 y1 z1 x2 y2 z2 x3 y3 z3)
               * (c3dz x0 y0 z0 x1 y1 z1 x2 y2 z2 x3 y3 z3 / (2 * c3aa x0 y0 z0 x1 y1 z1 x2 y2 z2 x3 y3 z3)))) :=
  rfl

theorem circ3_rel (sqrt : α → α) (h : (2 : α) * c3aa x0 y0 z0 x1 y1 z1 x2 y2 z2 x3 y3 z3 ≠ 0) :
    ∃ u v w : α, fast_3d_circumcircle sqrt x0 y0 z0 x1 y1 z1 x2 y2 z2 x3 y3 z3
        = ((u + x0, v + y0, w + z0), sqrt (u * u + v * v + w * w)) ∧
      u * (2 * c3aa x0 y0 z0 x1 y1 z1 x2 y2 z2 x3 y3 z3) = c3dx x0 y0 z0 x1 y1 z1 x2 y2 z2 x3 y3 z3 ∧
      v * (2 * c3aa x0 y0 z0 x1 y1 z1 x2 y2 z2 x3 y3 z3) = -c3dy x0 y0 z0 x1 y1 z1 x2 y2 z2 x3 y3 z3 ∧
      w * (2 * c3aa x0 y0 z0 x1 y1 z1 x2 y2 z2 x3 y3 z3) = c3dz x0 y0 z0 x1 y1 z1 x2 y2 z2 x3 y3 z3 :=
  ⟨_, _, _, circ3_closed x0 y0 z0 x1 y1 z1 x2 y2 z2 x3 y3 z3 sqrt, div_mul_cancel₀ _ h, div_mul_cancel₀ _ h, div_mul_cancel₀ _ h⟩

variable {x0 y0 z0 x1 y1 z1 x2 y2 z2 x3 y3 z3}

theorem circ3_core {u v w : α} (h : (2 : α) * c3aa x0 y0 z0 x1 y1 z1 x2 y2 z2 x3 y3 z3 ≠ 0)
    (hu : u * (2 * c3aa x0 y0 z0 x1 y1 z1 x2 y2 z2 x3 y3 z3) = c3dx x0 y0 z0 x1 y1 z1 x2 y2 z2 x3 y3 z3)
    (hv : v * (2 * c3aa x0 y0 z0 x1 y1 z1 x2 y2 z2 x3 y3 z3) = -c3dy x0 y0 z0 x1 y1 z1 x2 y2 z2 x3 y3 z3)
    (hw : w * (2 * c3aa x0 y0 z0 x1 y1 z1 x2 y2 z2 x3 y3 z3) = c3dz x0 y0 z0 x1 y1 z1 x2 y2 z2 x3 y3 z3) :
    dsq3 (u + x0) (v + y0) (w + z0) x1 y1 z1 = u * u + v * v + w * w ∧
    dsq3 (u + x0) (v + y0) (w + z0) x2 y2 z2 = u * u + v * v + w * w ∧
    dsq3 (u + x0) (v + y0) (w + z0) x3 y3 z3 = u * u + v * v + w * w := by
  have k1 : (2 * c3aa x0 y0 z0 x1 y1 z1 x2 y2 z2 x3 y3 z3) * (dsq3 (u + x0) (v + y0) (w + z0) x1 y1 z1 - (u * u + v * v + w * w)) = 0 := by
    simp only [dsq3, c3aa, c3dx, c3dy, c3dz, c3l1, c3l2, c3l3] at *
    linear_combination (-2 * (x1 - x0)) * hu + (-2 * (y1 - y0)) * hv + (-2 * (z1 - z0)) * hw
  have k2 : (2 * c3aa x0 y0 z0 x1 y1 z1 x2 y2 z2 x3 y3 z3) * (dsq3 (u + x0) (v + y0) (w + z0) x2 y2 z2 - (u * u + v * v + w * w)) = 0 := by
    simp only [dsq3, c3aa, c3dx, c3dy, c3dz, c3l1, c3l2, c3l3] at *
    linear_combination (-2 * (x2 - x0)) * hu + (-2 * (y2 - y0)) * hv + (-2 * (z2 - z0)) * hw
  have k3 : (2 * c3aa x0 y0 z0 x1 y1 z1 x2 y2 z2 x3 y3 z3) * (dsq3 (u + x0) (v + y0) (w + z0) x3 y3 z3 - (u * u + v * v + w * w)) = 0 := by
    simp only [dsq3, c3aa, c3dx, c3dy, c3dz, c3l1, c3l2, c3l3] at *
    linear_combination (-2 * (x3 - x0)) * hu + (-2 * (y3 - y0)) * hv + (-2 * (z3 - z0)) * hw
  exact ⟨sub_eq_zero.mp ((mul_eq_zero.mp k1).resolve_left h), sub_eq_zero.mp ((mul_eq_zero.mp k2).resolve_left h),
    sub_eq_zero.mp ((mul_eq_zero.mp k3).resolve_left h)⟩

theorem circ3_unique {u v w p q r : α} (h : (2 : α) * c3aa x0 y0 z0 x1 y1 z1 x2 y2 z2 x3 y3 z3 ≠ 0)
    (hu : u * (2 * c3aa x0 y0 z0 x1 y1 z1 x2 y2 z2 x3 y3 z3) = c3dx x0 y0 z0 x1 y1 z1 x2 y2 z2 x3 y3 z3)
    (hv : v * (2 * c3aa x0 y0 z0 x1 y1 z1 x2 y2 z2 x3 y3 z3) = -c3dy x0 y0 z0 x1 y1 z1 x2 y2 z2 x3 y3 z3)
    (hw : w * (2 * c3aa x0 y0 z0 x1 y1 z1 x2 y2 z2 x3 y3 z3) = c3dz x0 y0 z0 x1 y1 z1 x2 y2 z2 x3 y3 z3)
    (e1 : dsq3 p q r x0 y0 z0 = dsq3 p q r x1 y1 z1) (e2 : dsq3 p q r x0 y0 z0 = dsq3 p q r x2 y2 z2)
    (e3 : dsq3 p q r x0 y0 z0 = dsq3 p q r x3 y3 z3) :
    p = u + x0 ∧ q = v + y0 ∧ r = w + z0 := by
  have k1 : (2 * c3aa x0 y0 z0 x1 y1 z1 x2 y2 z2 x3 y3 z3) * (p - (u + x0)) = 0 := by
    simp only [dsq3, c3aa, c3dx, c3dy, c3dz, c3l1, c3l2, c3l3] at *
    linear_combination (-1 : α) * hu + ((y2 - y0) * (z3 - z0) - (z2 - z0) * (y3 - y0)) * e1
      - ((y1 - y0) * (z3 - z0) - (z1 - z0) * (y3 - y0)) * e2 + ((y1 - y0) * (z2 - z0) - (z1 - z0) * (y2 - y0)) * e3
  have k2 : (2 * c3aa x0 y0 z0 x1 y1 z1 x2 y2 z2 x3 y3 z3) * (q - (v + y0)) = 0 := by
    simp only [dsq3, c3aa, c3dx, c3dy, c3dz, c3l1, c3l2, c3l3] at *
    linear_combination (-1 : α) * hv - ((x2 - x0) * (z3 - z0) - (z2 - z0) * (x3 - x0)) * e1
      + ((x1 - x0) * (z3 - z0) - (z1 - z0) * (x3 - x0)) * e2 - ((x1 - x0) * (z2 - z0) - (z1 - z0) * (x2 - x0)) * e3
  have k3 : (2 * c3aa x0 y0 z0 x1 y1 z1 x2 y2 z2 x3 y3 z3) * (r - (w + z0)) = 0 := by
    simp only [dsq3, c3aa, c3dx, c3dy, c3dz, c3l1, c3l2, c3l3] at *
    linear_combination (-1 : α) * hw + ((x2 - x0) * (y3 - y0) - (y2 - y0) * (x3 - x0)) * e1
      - ((x1 - x0) * (y3 - y0) - (y1 - y0) * (x3 - x0)) * e2 + ((x1 - x0) * (y2 - y0) - (y1 - y0) * (x2 - x0)) * e3
  exact ⟨sub_eq_zero.mp ((mul_eq_zero.mp k1).resolve_left h), sub_eq_zero.mp ((mul_eq_zero.mp k2).resolve_left h),
    sub_eq_zero.mp ((mul_eq_zero.mp k3).resolve_left h)⟩

end three

end Prims
