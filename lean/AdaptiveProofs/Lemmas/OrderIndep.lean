import AdaptiveProofs.Lemmas.OrderIndepSeqAvg
import AdaptiveProofs.Lemmas.OrderIndepAux

/-!
# C11 — "what a learner knows depends on the set of results, not on how they arrived"

* Part A (SequenceLearner): `Seq.run_tells_perm`, `Seq.setData_eq_run`   (in `OrderIndepSeqAvg`)
* Part B (AverageLearner):  `Avg.run_tells_perm`, `Avg.order_indep`     (in `OrderIndepSeqAvg`)
* Part C (Learner1D, exact loss recomputation `factor = 1`): this file.

## Part C

`Canon lossFn r12 s` collects the invariants of a state reached by a VALID history from
`init lo hi 1 dxEps nn` whose told values all have `d` components (`canon_run`).
`agree_of_canon` is the core of C11: two `Canon` states with the same constants that hold the same
results (`dataGet` agrees everywhere) and the same pending SET agree on everything observable —
(i) `xs`, `xsC`; (ii) `dataGet`; (iii) `bboxX`, `bboxY`, `scaleX`, `scaleY`, `oldScaleY`,
`lossScale`; (iv) `getLoss` for all `a b`; (v) the key→value map of `losses`; (vi) `losses` and
`lossesC` AS LISTS (also WITH pending points); (vii) `loss real` and `askPoints r12 · n` for all `n`
(structure `Agree`).  Nothing about HOW the histories look is used: they may contain `tell`,
`tell_many` (loop or batch path), `tell_pending`, `remove_unfinished`, `ask`.

`order_indep` / `order_indep_tells` / `tells_vs_tellMany` specialise this to the histories named in the property:
the same pairwise-distinct-abscissa results arriving as single `tell`s in any order, or cut into
`tell_many` batches (forced or not) in any way.
-/
set_option linter.unusedSectionVars false
set_option linter.unusedVariables false

namespace L1D
variable {α : Type} [Field α] [LinearOrder α] [IsStrictOrderedRing α]
variable (lossFn : List (Option α) → List (Option (List α)) → Loss α) (r12 : α → α)

/-- the invariants of a state reached by a valid history with exact recomputation (`factor = 1`) -/
structure Canon (s : State α) : Prop where
  inv : Inv s
  binv : BInv s
  box : BoxOK s
  bvals : BoxVals s
  exact : ∀ iv ∈ pairs s.xs, lget iv s.losses = some (getLoss lossFn s iv.1 iv.2)
  comb : CombVals s
  sorted : TablesSorted r12 s
  old : s.oldScaleY = s.scaleY

/-- every state reached from `init lo hi 1 dxEps nn` (`lo < hi`) by a valid history whose told
values all have `d` components is canonical -/
theorem canon_run {lo hi : α} (hlt : lo < hi) (dxEps : α) (nn d : Nat) (ops : List (Op α))
    (hv : ValidOps lossFn r12 (init lo hi 1 dxEps nn) ops) (hd : ∀ op ∈ ops, OpDim d op) :
    Canon lossFn r12 (run lossFn r12 (init lo hi 1 dxEps nn) ops) := by
  obtain ⟨hb, hi'⟩ := binv_run lossFn r12 hlt 1 dxEps nn ops hv
  exact ⟨hi', hb, boxOK_run lossFn r12 lo hi 1 dxEps nn ops,
    boxVals_run lossFn r12 lo hi 1 dxEps nn ops hv,
    exact_values_of_factor_one lossFn r12 lo hi 1 dxEps nn rfl d ops hd
      (runInBox_of_valid_init lossFn r12 hlt 1 dxEps nn ops hv),
    combVals_run lossFn r12 lo hi 1 dxEps nn ops,
    tablesSorted_run lossFn r12 lo hi 1 dxEps nn ops,
    exact_of_factor_one lossFn r12 lo hi 1 dxEps nn rfl d ops hd⟩

/-- the two states agree on everything observable -/
structure Agree (s₁ s₂ : State α) : Prop where
  /-- (i) -/
  xs : s₁.xs = s₂.xs
  xsC : s₁.xsC = s₂.xsC
  /-- (ii) -/
  dataGet : ∀ x, dataGet s₁.data x = dataGet s₂.data x
  data_perm : s₁.data.Perm s₂.data
  pending_perm : s₁.pending.Perm s₂.pending
  /-- (iii) -/
  bboxX : s₁.bboxX = s₂.bboxX
  bboxY : s₁.bboxY = s₂.bboxY
  scaleX : s₁.scaleX = s₂.scaleX
  scaleY : s₁.scaleY = s₂.scaleY
  oldScaleY : s₁.oldScaleY = s₂.oldScaleY
  lossScale : s₁.lossScale = s₂.lossScale
  /-- (iv) -/
  getLoss : ∀ a b, getLoss lossFn s₁ a b = getLoss lossFn s₂ a b
  /-- (v) -/
  lget_losses : ∀ iv, lget iv s₁.losses = lget iv s₂.losses
  /-- (vi) -/
  losses : s₁.losses = s₂.losses
  lossesC : s₁.lossesC = s₂.lossesC
  /-- (vii) -/
  missingBounds : missingBounds s₁ = missingBounds s₂
  loss : ∀ real, loss s₁ real = loss s₂ real
  askPoints : ∀ n, askPoints r12 s₁ n = askPoints r12 s₂ n

section core
variable {s₁ s₂ : State α}

/-- (iii) `scaleY` is determined by the box -/
theorem scaleY_eq_of_box (b₁ : BoxOK s₁) (b₂ : BoxOK s₂) (h : s₁.bboxY = s₂.bboxY) :
    s₁.scaleY = s₂.scaleY := by
  unfold BoxOK at b₁ b₂
  rw [h] at b₁
  rcases hb : s₂.bboxY with _ | ⟨mn, mx⟩
  · rw [hb] at b₁ b₂; rw [b₁, b₂]
  · rw [hb] at b₁ b₂; rw [b₁.2, b₂.2]

/-- (iv) `getLoss` only reads `dxEps`, `nn`, `xs`, the scales and `dataGet` -/
theorem getLoss_eq_of_fields (hdx : s₁.dxEps = s₂.dxEps) (hnn : s₁.nn = s₂.nn)
    (hxs : s₁.xs = s₂.xs) (hsx : s₁.scaleX = s₂.scaleX) (hsy : s₁.scaleY = s₂.scaleY)
    (hd : ∀ x, L1D.dataGet s₁.data x = L1D.dataGet s₂.data x) (a b : α) :
    L1D.getLoss lossFn s₁ a b = L1D.getLoss lossFn s₂ a b :=
  getLoss_ext lossFn (s := s₂) (s' := s₁) hdx hsx hsy (by rw [hxs, hnn]) (fun z _ => hd z)

/-- (v) the key→value maps of the real loss tables agree -/
theorem lget_losses_eq (i₁ : Inv s₁) (i₂ : Inv s₂) (hxs : s₁.xs = s₂.xs)
    (e₁ : ∀ iv ∈ pairs s₁.xs, lget iv s₁.losses = some (L1D.getLoss lossFn s₁ iv.1 iv.2))
    (e₂ : ∀ iv ∈ pairs s₂.xs, lget iv s₂.losses = some (L1D.getLoss lossFn s₂ iv.1 iv.2))
    (hg : ∀ a b, L1D.getLoss lossFn s₁ a b = L1D.getLoss lossFn s₂ a b) (iv : Ival α) :
    lget iv s₁.losses = lget iv s₂.losses := by
  by_cases h : iv ∈ pairs s₁.xs
  · rw [e₁ iv h, e₂ iv (hxs ▸ h), hg]
  · have n₁ : lget iv s₁.losses = none := by
      rw [← Option.not_isSome_iff_eq_none, lget_isSome, i₁.losses_keys]; exact h
    have n₂ : lget iv s₂.losses = none := by
      rw [← Option.not_isSome_iff_eq_none, lget_isSome, i₂.losses_keys, ← hxs]; exact h
    rw [n₁, n₂]

/-- (vi, combined table): with the same `xs`, `xsC` and the same real table, `CombVals` determines
the key→value map of the combined table — also when points are pending -/
theorem lget_lossesC_eq (i₁ : Inv s₁) (i₂ : Inv s₂) (hxs : s₁.xs = s₂.xs) (hxsC : s₁.xsC = s₂.xsC)
    (hl : s₁.losses = s₂.losses) (c₁ : CombVals s₁) (c₂ : CombVals s₂) (iv : Ival α) :
    lget iv s₁.lossesC = lget iv s₂.lossesC := by
  obtain ⟨a, b⟩ := iv
  by_cases h : (a, b) ∈ pairs s₁.xsC
  · have hab : a < b := pairs_lt i₁.xsC_sorted h
    rcases c₁ a b h with ⟨l, r, L, p1, p2, p3, p4, p5⟩ | ⟨q1, q2⟩
    · rcases c₂ a b (hxsC ▸ h) with ⟨l', r', L', p1', p2', p3', p4', p5'⟩ | ⟨q1', q2'⟩
      · rw [← hxs] at p1'
        have e := encl_unique i₁.xs_sorted p1 p1' hab p2 p3 p2' p3'
        simp only [Prod.mk.injEq] at e
        obtain ⟨rfl, rfl⟩ := e
        rw [← hl, p4] at p4'
        obtain rfl := Option.some.inj p4'
        rw [p5, p5']
      · exfalso
        obtain ⟨ml, mr⟩ := mem_of_mem_pairs p1
        rw [← hxs] at q1'
        rcases q1' with q | q
        · exact absurd (q l ml) (not_lt.2 p2)
        · exact absurd (q r mr) (not_lt.2 p3)
    · rcases c₂ a b (hxsC ▸ h) with ⟨l', r', L', p1', p2', p3', p4', p5'⟩ | ⟨q1', q2'⟩
      · exfalso
        rw [← hxs] at p1'
        obtain ⟨ml, mr⟩ := mem_of_mem_pairs p1'
        rcases q1 with q | q
        · exact absurd (q l' ml) (not_lt.2 p2')
        · exact absurd (q r' mr) (not_lt.2 p3')
      · rw [q2, q2']
  · have n₁ : lget (a, b) s₁.lossesC = none := by
      rw [← Option.not_isSome_iff_eq_none, lget_isSome, i₁.lossesC_keys]; exact h
    have n₂ : lget (a, b) s₂.lossesC = none := by
      rw [← Option.not_isSome_iff_eq_none, lget_isSome, i₂.lossesC_keys, ← hxsC]; exact h
    rw [n₁, n₂]

/-- **C11 for Learner1D, core form.**  Two canonical states with the same constants that hold the
same results (`dataGet` agrees for every abscissa) and the same set of pending points agree on
everything observable; in particular the loss tables are equal as lists and `ask` returns the same
points for every `n`. -/
theorem agree_of_canon (c₁ : Canon lossFn r12 s₁) (c₂ : Canon lossFn r12 s₂)
    (hlo : s₁.lo = s₂.lo) (hhi : s₁.hi = s₂.hi) (hnn : s₁.nn = s₂.nn)
    (hdx : s₁.dxEps = s₂.dxEps)
    (hd : ∀ x, L1D.dataGet s₁.data x = L1D.dataGet s₂.data x)
    (hp : ∀ x, x ∈ s₁.pending ↔ x ∈ s₂.pending) : Agree lossFn r12 s₁ s₂ := by
  have i₁ := c₁.inv
  have i₂ := c₂.inv
  have hhd : ∀ x, hasData s₁ x = hasData s₂ x := hasData_eq_of_dataGet hd
  -- (i)
  have hxs : s₁.xs = s₂.xs := sorted_ext i₁.xs_sorted i₂.xs_sorted (fun x => by
    rw [i₁.xs_mem, i₂.xs_mem, hhd])
  have hxsC : s₁.xsC = s₂.xsC := sorted_ext i₁.xsC_sorted i₂.xsC_sorted (fun x => by
    rw [i₁.xsC_mem, i₂.xsC_mem, hhd, hp])
  -- (ii)
  have hdp : s₁.data.Perm s₂.data := perm_of_dataGet_eq i₁.data_nodup i₂.data_nodup hd
  have hpp : s₁.pending.Perm s₂.pending :=
    (List.perm_ext_iff_of_nodup i₁.pend_nodup i₂.pend_nodup).2 hp
  -- (iii)
  have hbx : s₁.bboxX = s₂.bboxX := by rw [c₁.binv.bbox, c₂.binv.bbox, hlo, hhi]
  have hsx : s₁.scaleX = s₂.scaleX := by rw [c₁.binv.scaleX, c₂.binv.scaleX, hlo, hhi]
  have hls : s₁.lossScale = s₂.lossScale := by rw [c₁.binv.lossScale, c₂.binv.lossScale, hlo, hhi]
  have hby : s₁.bboxY = s₂.bboxY := by
    rw [c₁.bvals, c₂.bvals]; exact boxOf_perm (hdp.map Prod.snd)
  have hsy : s₁.scaleY = s₂.scaleY := scaleY_eq_of_box c₁.box c₂.box hby
  have hoy : s₁.oldScaleY = s₂.oldScaleY := by rw [c₁.old, c₂.old, hsy]
  -- (iv)
  have hg := getLoss_eq_of_fields lossFn hdx hnn hxs hsx hsy hd
  -- (v)
  have hlg := lget_losses_eq lossFn i₁ i₂ hxs c₁.exact c₂.exact hg
  -- (vi)
  have hl : s₁.losses = s₂.losses :=
    table_ext r12 s₂.lossScale (hls ▸ c₁.sorted.1) c₂.sorted.1 i₁.losses_nodup i₂.losses_nodup hlg
  have hlc : s₁.lossesC = s₂.lossesC :=
    table_ext r12 s₂.lossScale (hls ▸ c₁.sorted.2) c₂.sorted.2 i₁.lossesC_nodup i₂.lossesC_nodup
      (lget_lossesC_eq i₁ i₂ hxs hxsC hl c₁.comb c₂.comb)
  -- (vii)
  have hmb : L1D.missingBounds s₁ = L1D.missingBounds s₂ := missingBounds_congr hlo hhi hd hp
  have hall : (s₁.data.map Prod.fst ++ s₁.pending).Perm (s₂.data.map Prod.fst ++ s₂.pending) :=
    (hdp.map Prod.fst).append hpp
  exact ⟨hxs, hxsC, hd, hdp, hpp, hbx, hby, hsx, hsy, hoy, hls, hg, hlg, hl, hlc, hmb,
    loss_congr hmb hl hlc,
    askPoints_congr r12 hlo hhi hmb (by rw [hdp.length_eq, hpp.length_eq])
      (minOfL_perm hall) (maxOfL_perm hall) hlc hsx⟩

end core

/-- **C11 for Learner1D, history form.**  Two VALID histories from the same
`init lo hi 1 dxEps nn` (`lo < hi`, exact recomputation) whose told values all have `d` components
and which end with the same results (`dataGet` agrees everywhere) and the same set of pending
points lead to states that agree on everything observable. -/
theorem agree_of_same_content {lo hi : α} (hlt : lo < hi) (dxEps : α) (nn d : Nat)
    (ops₁ ops₂ : List (Op α))
    (hv₁ : ValidOps lossFn r12 (init lo hi 1 dxEps nn) ops₁)
    (hv₂ : ValidOps lossFn r12 (init lo hi 1 dxEps nn) ops₂)
    (hd₁ : ∀ op ∈ ops₁, OpDim d op) (hd₂ : ∀ op ∈ ops₂, OpDim d op)
    (hdata : ∀ x, dataGet (run lossFn r12 (init lo hi 1 dxEps nn) ops₁).data x =
      dataGet (run lossFn r12 (init lo hi 1 dxEps nn) ops₂).data x)
    (hpend : ∀ x, x ∈ (run lossFn r12 (init lo hi 1 dxEps nn) ops₁).pending ↔
      x ∈ (run lossFn r12 (init lo hi 1 dxEps nn) ops₂).pending) :
    Agree lossFn r12 (run lossFn r12 (init lo hi 1 dxEps nn) ops₁)
      (run lossFn r12 (init lo hi 1 dxEps nn) ops₂) := by
  apply agree_of_canon lossFn r12 (canon_run lossFn r12 hlt dxEps nn d ops₁ hv₁ hd₁)
    (canon_run lossFn r12 hlt dxEps nn d ops₂ hv₂ hd₂) _ _ _ _ hdata hpend
  · rw [run_lo, run_lo]
  · rw [run_hi, run_hi]
  · rw [run_nn, run_nn]
  · rw [run_dxEps, run_dxEps]

/-- what a history of `tell` / `tell_many` operations with pairwise distinct abscissae leaves behind:
`data` is the list of told pairs in arrival order, nothing is pending -/
theorem run_tells_data (lo hi factor dxEps : α) (nn : Nat) (ops : List (Op α))
    (ht : ∀ op ∈ ops, IsTell op) (hnd : ((toldOf ops).map Prod.fst).Nodup) :
    (run lossFn r12 (init lo hi factor dxEps nn) ops).data = toldOf ops ∧
      (run lossFn r12 (init lo hi factor dxEps nn) ops).pending = [] := by
  have h := dview_run_tells lossFn r12 ops (init lo hi factor dxEps nn) rfl ht
  have e : (toldOf ops).foldl (fun d kv => dataSet d kv.1 kv.2) (init lo hi factor dxEps nn).data =
      toldOf ops := by
    have := foldl_dataSet_of_nodup (toldOf ops) [] (by simpa [dkeys] using hnd)
    simpa [init] using this
  rw [e] at h
  exact ⟨congrArg Prod.fst h, congrArg Prod.snd h⟩

/-- **C11 for Learner1D (i)–(vii).**  Two valid histories consisting only of `tell` and `tell_many`
operations (single tells in any order, or any cutting into forced / unforced batches) that deliver
the same results — the told pairs of one are a permutation of the told pairs of the other, with
pairwise distinct abscissae, all values with `d` components — lead, with `factor = 1`, to states
that agree on `xs`, `xsC`, `dataGet`, the bounding boxes and scales, `getLoss`, both loss tables
(as lists), `loss` and `askPoints` for every `n`. -/
theorem order_indep {lo hi : α} (hlt : lo < hi) (dxEps : α) (nn d : Nat)
    (ops₁ ops₂ : List (Op α))
    (ht₁ : ∀ op ∈ ops₁, IsTell op) (ht₂ : ∀ op ∈ ops₂, IsTell op)
    (hperm : (toldOf ops₁).Perm (toldOf ops₂))
    (hnd : ((toldOf ops₁).map Prod.fst).Nodup)
    (hdim : ∀ kv ∈ toldOf ops₁, kv.2.length = d)
    (hv₁ : ValidOps lossFn r12 (init lo hi 1 dxEps nn) ops₁)
    (hv₂ : ValidOps lossFn r12 (init lo hi 1 dxEps nn) ops₂) :
    Agree lossFn r12 (run lossFn r12 (init lo hi 1 dxEps nn) ops₁)
      (run lossFn r12 (init lo hi 1 dxEps nn) ops₂) := by
  have hnd₂ : ((toldOf ops₂).map Prod.fst).Nodup := (hperm.map Prod.fst).nodup_iff.1 hnd
  obtain ⟨d₁, p₁⟩ := run_tells_data lossFn r12 lo hi 1 dxEps nn ops₁ ht₁ hnd
  obtain ⟨d₂, p₂⟩ := run_tells_data lossFn r12 lo hi 1 dxEps nn ops₂ ht₂ hnd₂
  have hd₁ : ∀ op ∈ ops₁, OpDim d op := fun op hop kv hkv =>
    hdim kv (List.mem_flatMap.2 ⟨op, hop, hkv⟩)
  have hd₂ : ∀ op ∈ ops₂, OpDim d op := fun op hop kv hkv =>
    hdim kv (hperm.symm.subset (List.mem_flatMap.2 ⟨op, hop, hkv⟩))
  apply agree_of_same_content lossFn r12 hlt dxEps nn d ops₁ ops₂ hv₁ hv₂ hd₁ hd₂
  · intro x
    rw [d₁, d₂]
    exact dataGet_perm hnd hperm x
  · intro x
    rw [p₁, p₂]

/-- the operation "tell the value `p.2` at `p.1`" -/
def tellOp (p : α × List α) : Op α := .tell p.1 p.2

theorem toldOf_map_tellOp (ts : List (α × List α)) : toldOf (ts.map tellOp) = ts := by
  induction ts with
  | nil => rfl
  | cons p r ih =>
    simp only [toldOf, List.map_cons, List.flatMap_cons] at ih ⊢
    rw [ih]; rfl

theorem isTell_map_tellOp (ts : List (α × List α)) : ∀ op ∈ ts.map tellOp, IsTell op := by
  intro op hop
  obtain ⟨p, _, rfl⟩ := List.mem_map.1 hop
  trivial

/-- single `tell`s of points inside the domain always form a valid history -/
theorem validOps_tells (ts : List (α × List α)) (s : State α)
    (hin : ∀ kv ∈ ts, s.lo ≤ kv.1 ∧ kv.1 ≤ s.hi) : ValidOps lossFn r12 s (ts.map tellOp) := by
  induction ts generalizing s with
  | nil => trivial
  | cons p r ih =>
    refine ⟨hin p (List.mem_cons_self ..), ih _ ?_⟩
    intro kv hkv
    rw [step_lo, step_hi]
    exact hin kv (List.mem_cons_of_mem _ hkv)

/-- **C11, the same results told one by one in two different orders** (points inside the domain:
validity is then automatic). -/
theorem order_indep_tells {lo hi : α} (hlt : lo < hi) (dxEps : α) (nn d : Nat)
    {ts₁ ts₂ : List (α × List α)} (hperm : ts₁.Perm ts₂) (hnd : (ts₁.map Prod.fst).Nodup)
    (hdim : ∀ kv ∈ ts₁, kv.2.length = d) (hin : ∀ kv ∈ ts₁, lo ≤ kv.1 ∧ kv.1 ≤ hi) :
    Agree lossFn r12 (run lossFn r12 (init lo hi 1 dxEps nn) (ts₁.map tellOp))
      (run lossFn r12 (init lo hi 1 dxEps nn) (ts₂.map tellOp)) := by
  apply order_indep lossFn r12 hlt dxEps nn d _ _ (isTell_map_tellOp ts₁) (isTell_map_tellOp ts₂)
  · rw [toldOf_map_tellOp, toldOf_map_tellOp]; exact hperm
  · rw [toldOf_map_tellOp]; exact hnd
  · rw [toldOf_map_tellOp]; exact hdim
  · exact validOps_tells lossFn r12 ts₁ _ hin
  · exact validOps_tells lossFn r12 ts₂ _ (fun kv hkv => hin kv (hperm.symm.subset hkv))

/-- one `tell_many` of points inside the domain is a valid history, provided a FORCED batch is not
empty (an unforced call takes the batch path only with more than two points).  No condition on the
end points of the domain. -/
theorem validOps_tellMany (ts : List (α × List α)) (force : Bool) (s : State α)
    (hin : ∀ kv ∈ ts, s.lo ≤ kv.1 ∧ kv.1 ≤ s.hi) (hne : force = true → ts ≠ []) :
    ValidOps lossFn r12 s [.tellMany ts force] := by
  refine ⟨⟨hin, ?_⟩, trivial⟩
  rintro (hf | ⟨-, h2⟩)
  · exact hne hf
  · intro e
    rw [e] at h2
    exact absurd h2 (by simp)

/-- **C11, one by one versus one `tell_many`** (forced or not, loop or batch path) of a permutation
of the same results.  The only side condition left is that a FORCED batch is not empty (see
`ValidOp` and the example at the end of the file: a forced empty batch of an empty learner puts the
model's default `0` into the x-box; the real code raises).  Before the repair
`fix: Learner1D.tell_many batch path shrank the x-scale to the range of the points` validity of the
`tell_many` was a hypothesis that required, on the batch path, both end points of the domain among
the told abscissae. -/
theorem tells_vs_tellMany {lo hi : α} (hlt : lo < hi) (dxEps : α) (nn d : Nat)
    {ts₁ ts₂ : List (α × List α)} (force : Bool) (hperm : ts₁.Perm ts₂)
    (hnd : (ts₁.map Prod.fst).Nodup)
    (hdim : ∀ kv ∈ ts₁, kv.2.length = d) (hin : ∀ kv ∈ ts₁, lo ≤ kv.1 ∧ kv.1 ≤ hi)
    (hne : force = true → ts₂ ≠ []) :
    Agree lossFn r12 (run lossFn r12 (init lo hi 1 dxEps nn) (ts₁.map tellOp))
      (run lossFn r12 (init lo hi 1 dxEps nn) [.tellMany ts₂ force]) := by
  have ht : toldOf [Op.tellMany ts₂ force] = ts₂ := by simp [toldOf, tellsOf]
  apply order_indep lossFn r12 hlt dxEps nn d _ _ (isTell_map_tellOp ts₁)
    (by intro op hop; rw [List.mem_singleton.1 hop]; trivial)
  · rw [toldOf_map_tellOp, ht]; exact hperm
  · rw [toldOf_map_tellOp]; exact hnd
  · rw [toldOf_map_tellOp]; exact hdim
  · exact validOps_tells lossFn r12 ts₁ _ hin
  · exact validOps_tellMany lossFn r12 ts₂ force _
      (fun kv hkv => hin kv (hperm.symm.subset hkv)) hne

/-- with nothing pending the combined view coincides with the real one: `xsC = xs` and
`lossesC = losses` as lists -/
theorem lossesC_eq_losses_of_no_pending {s : State α} (c : Canon lossFn r12 s)
    (hp : s.pending = []) : s.xsC = s.xs ∧ s.lossesC = s.losses := by
  have i := c.inv
  have hx : s.xsC = s.xs := sorted_ext i.xsC_sorted i.xs_sorted (fun x => by
    rw [i.xsC_mem, i.xs_mem, hp]; simp)
  refine ⟨hx, table_ext r12 s.lossScale c.sorted.2 c.sorted.1 i.lossesC_nodup i.losses_nodup ?_⟩
  rintro ⟨a, b⟩
  by_cases h : (a, b) ∈ pairs s.xs
  · have hab : a < b := pairs_lt i.xs_sorted h
    obtain ⟨ma, mb⟩ := mem_of_mem_pairs h
    rcases c.comb a b (hx ▸ h) with ⟨l, r, L, p1, p2, p3, p4, p5⟩ | ⟨q1, q2⟩
    · have e := encl_unique i.xs_sorted h p1 hab (le_refl a) (le_refl b) p2 p3
      simp only [Prod.mk.injEq] at e
      obtain ⟨rfl, rfl⟩ := e
      rw [p5, p4, mulDiv_sub_self (ne_of_lt hab)]
    · exfalso
      rcases q1 with q | q
      · exact lt_irrefl _ (q a ma)
      · exact lt_irrefl _ (q b mb)
  · have n₁ : lget (a, b) s.lossesC = none := by
      rw [← Option.not_isSome_iff_eq_none, lget_isSome, i.lossesC_keys, hx]; exact h
    have n₂ : lget (a, b) s.losses = none := by
      rw [← Option.not_isSome_iff_eq_none, lget_isSome, i.losses_keys]; exact h
    rw [n₁, n₂]

/-! ## the hypotheses cannot be dropped

`nn = 0`, bounds `[0, 10]`, loss = scaled width + squared scaled height difference.

* `factor = 1` is needed: with `factor = 2` the interval `(0, 1)` keeps the loss computed with the
  output scale `1` in the order `0, 1, 10` (the scale grows to `3/2 < 2 · 1`, no recomputation), but
  is computed with `3/2` in the order `10, 0, 1`.
* before the repair `fix: Learner1D.tell_many batch path shrank the x-scale to the range of the points`
  a forced `tell_many` that did not contain the end points of the domain set `scaleX` to the extent of
  the data (`2`) instead of the domain width (`10`), and single tells and the batch disagreed; the
  second example records that they agree now — it is an instance of `tells_vs_tellMany`, which no
  longer has an end-point hypothesis (third example).
* `force = true → ts₂ ≠ []` of `tells_vs_tellMany` is needed in the model: on the domain `[1, 2]` no
  tell at all leaves `bboxX = (1, 2)`, a forced empty batch leaves `(0, 2)` (fourth example; the real
  code raises `ValueError` there). -/
section counterexamples

def oiLoss : List (Option Rat) → List (Option (List Rat)) → Loss Rat
  | [some a, some b], [some [ya], some [yb]] => .fin ((b - a) + (yb - ya) * (yb - ya))
  | _, _ => .inf

example :
    (run oiLoss id (init (0 : Rat) 10 2 0 0) ([(0, [0]), (1, [1]), (10, [3/2])].map tellOp)).losses ≠
    (run oiLoss id (init (0 : Rat) 10 2 0 0) ([(10, [3/2]), (0, [0]), (1, [1])].map tellOp)).losses := by
  decide +kernel

example :
    (run oiLoss id (init (0 : Rat) 10 1 0 0) ([(2, [0]), (3, [1]), (4, [10])].map tellOp)).losses =
    (run oiLoss id (init (0 : Rat) 10 1 0 0) [.tellMany [(2, [0]), (3, [1]), (4, [10])] true]).losses := by
  decide +kernel

/-- `tells_vs_tellMany` applied to a forced batch of interior points only -/
example :
    Agree oiLoss id
      (run oiLoss id (init (0 : Rat) 10 1 0 0) ([(2, [0]), (3, [1]), (4, [10])].map tellOp))
      (run oiLoss id (init (0 : Rat) 10 1 0 0) [.tellMany [(4, [10]), (2, [0]), (3, [1])] true]) :=
  tells_vs_tellMany oiLoss id (by decide) 0 0 1 true (by decide +kernel) (by decide +kernel)
    (by decide +kernel) (by decide +kernel) (fun _ => by decide)

example :
    (run oiLoss id (init (1 : Rat) 2 1 0 0) (([] : List (Rat × List Rat)).map tellOp)).bboxX = (1, 2) ∧
    (run oiLoss id (init (1 : Rat) 2 1 0 0) [.tellMany [] true]).bboxX = (0, 2) := by
  decide +kernel

end counterexamples

end L1D
