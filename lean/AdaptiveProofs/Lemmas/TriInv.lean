import AdaptiveProofs.Lemmas.TriBasic

/-! The index invariant of the Triangulation model and its preservation by `add_simplex` / `delete_simplex`. -/
namespace Tri

/-- a simplex of the triangulation: `dim+1` strictly increasing vertex indices below `n` -/
def ValidSimplex (dim n : Nat) (t : Simplex) : Prop :=
  t.length = dim + 1 ∧ t.Pairwise (· < ·) ∧ ∀ v ∈ t, v < n

/-- `reference_invariant` and more: `vertex_to_simplices` has one entry per vertex, entry `v` is exactly the set of
simplices containing `v`, and every simplex is a sorted tuple of `dim+1` distinct vertex indices in range -/
structure Inv (s : State) : Prop where
  len : s.vts.length = s.nVerts
  valid : ∀ t ∈ s.simplices, ValidSimplex s.dim s.nVerts t
  index : ∀ (v : Nat) (l : List Simplex), s.vts[v]? = some l → ∀ t, t ∈ l ↔ (t ∈ s.simplices ∧ v ∈ t)

theorem ValidSimplex.sorted {dim n : Nat} {t : Simplex} (h : ValidSimplex dim n t) : sortS t = t :=
  sortS_of_sorted h.2.1

theorem addTo_spec (t : Simplex) : ∀ (vs : List Nat) (vts vts' : List (List Simplex)),
    addTo t vs vts = .ok vts' →
    vts'.length = vts.length ∧
    ∀ v l', vts'[v]? = some l' → ∃ l, vts[v]? = some l ∧ ∀ u, u ∈ l' ↔ (u ∈ l ∨ (u = t ∧ v ∈ vs))
  | [], vts, vts', hok => by
    simp only [addTo, Except.ok.injEq] at hok
    subst hok
    exact ⟨rfl, fun v l' hl => ⟨l', hl, fun u => by simp⟩⟩
  | w :: ws, vts, vts', hok => by
    simp only [addTo] at hok
    split at hok
    · cases hok
    · rename_i l hl
      obtain ⟨h1, h2⟩ := addTo_spec t ws _ _ hok
      refine ⟨by simpa using h1, fun v l' hv => ?_⟩
      obtain ⟨l0, hl0, hmem⟩ := h2 v l' hv
      by_cases hvw : w = v
      · subst hvw
        have hw : w < vts.length := by
          rcases Nat.lt_or_ge w vts.length with h' | h'
          · exact h'
          · rw [List.getElem?_eq_none h'] at hl; cases hl
        rw [List.getElem?_set_self hw] at hl0
        cases hl0
        refine ⟨l, hl, fun u => ?_⟩
        rw [hmem, mem_setAdd]
        simp only [List.mem_cons, true_or, and_true]
        constructor
        · rintro ((rfl | h) | ⟨rfl, _⟩)
          · exact Or.inr rfl
          · exact Or.inl h
          · exact Or.inr rfl
        · rintro (h | rfl)
          · exact Or.inl (Or.inr h)
          · exact Or.inl (Or.inl rfl)
      · rw [List.getElem?_set_ne hvw] at hl0
        refine ⟨l0, hl0, fun u => ?_⟩
        rw [hmem]
        simp only [List.mem_cons]
        constructor
        · rintro (h | ⟨rfl, h⟩)
          · exact Or.inl h
          · exact Or.inr ⟨rfl, Or.inr h⟩
        · rintro (h | ⟨rfl, h | h⟩)
          · exact Or.inl h
          · exact absurd h.symm hvw
          · exact Or.inr ⟨rfl, h⟩

theorem delFrom_spec (t : Simplex) : ∀ (vs : List Nat) (vts vts' : List (List Simplex)),
    delFrom t vs vts = .ok vts' →
    vts'.length = vts.length ∧
    ∀ v l', vts'[v]? = some l' → ∃ l, vts[v]? = some l ∧ ∀ u, u ∈ l' ↔ (u ∈ l ∧ ¬(u = t ∧ v ∈ vs))
  | [], vts, vts', hok => by
    simp only [delFrom, Except.ok.injEq] at hok
    subst hok
    exact ⟨rfl, fun v l' hl => ⟨l', hl, fun u => by simp⟩⟩
  | w :: ws, vts, vts', hok => by
    simp only [delFrom] at hok
    split at hok
    · cases hok
    · rename_i l hl
      split at hok
      · obtain ⟨h1, h2⟩ := delFrom_spec t ws _ _ hok
        refine ⟨by simpa using h1, fun v l' hv => ?_⟩
        obtain ⟨l0, hl0, hmem⟩ := h2 v l' hv
        by_cases hvw : w = v
        · subst hvw
          have hw : w < vts.length := by
            rcases Nat.lt_or_ge w vts.length with h' | h'
            · exact h'
            · rw [List.getElem?_eq_none h'] at hl; cases hl
          rw [List.getElem?_set_self hw] at hl0
          cases hl0
          refine ⟨l, hl, fun u => ?_⟩
          rw [hmem, mem_setDel]
          simp only [List.mem_cons, true_or, and_true]
          constructor
          · rintro ⟨⟨h, hne⟩, _⟩
            exact ⟨h, hne⟩
          · rintro ⟨h, hne⟩
            exact ⟨⟨h, hne⟩, fun hh => hne hh.1⟩
        · rw [List.getElem?_set_ne hvw] at hl0
          refine ⟨l0, hl0, fun u => ?_⟩
          rw [hmem]
          simp only [List.mem_cons]
          constructor
          · rintro ⟨h, hn⟩
            refine ⟨h, ?_⟩
            rintro ⟨rfl, h' | h'⟩
            · exact hvw h'.symm
            · exact hn ⟨rfl, h'⟩
          · rintro ⟨h, hn⟩
            exact ⟨h, fun hh => hn ⟨hh.1, Or.inr hh.2⟩⟩
      · cases hok

theorem addSimplex_spec {s s' : State} {t : Simplex} (hI : Inv s) (ht : ValidSimplex s.dim s.nVerts t)
    (hok : addSimplex s t = .ok s') :
    Inv s' ∧ s'.dim = s.dim ∧ s'.nVerts = s.nVerts ∧ ∀ u, u ∈ s'.simplices ↔ (u = t ∨ u ∈ s.simplices) := by
  unfold addSimplex at hok
  simp only [ht.sorted] at hok
  split at hok
  · cases hok
  · rename_i vts' hv
    cases hok
    obtain ⟨h1, h2⟩ := addTo_spec t t s.vts vts' hv
    refine ⟨⟨by simpa [hI.len] using h1, ?_, ?_⟩, rfl, rfl, fun u => mem_setAdd⟩
    · intro u hu
      rcases mem_setAdd.mp hu with rfl | hu
      · exact ht
      · exact hI.valid u hu
    · intro v l' hl' u
      obtain ⟨l, hl, hmem⟩ := h2 v l' hl'
      rw [hmem, hI.index v l hl u]
      simp only [mem_setAdd]
      constructor
      · rintro (⟨h, hv'⟩ | ⟨rfl, hv'⟩)
        · exact ⟨Or.inr h, hv'⟩
        · exact ⟨Or.inl rfl, hv'⟩
      · rintro ⟨rfl | h, hv'⟩
        · exact Or.inr ⟨rfl, hv'⟩
        · exact Or.inl ⟨h, hv'⟩

theorem deleteSimplex_spec {s s' : State} {t : Simplex} (hI : Inv s) (hs : sortS t = t)
    (hok : deleteSimplex s t = .ok s') :
    Inv s' ∧ s'.dim = s.dim ∧ s'.nVerts = s.nVerts ∧ t ∈ s.simplices ∧
      ∀ u, u ∈ s'.simplices ↔ (u ∈ s.simplices ∧ u ≠ t) := by
  unfold deleteSimplex at hok
  simp only [hs] at hok
  split at hok
  · rename_i hin
    split at hok
    · cases hok
    · rename_i vts' hv
      cases hok
      obtain ⟨h1, h2⟩ := delFrom_spec t t s.vts vts' hv
      refine ⟨⟨by simpa [hI.len] using h1, ?_, ?_⟩, rfl, rfl, hin, fun u => mem_setDel⟩
      · intro u hu
        exact hI.valid u (mem_setDel.mp hu).1
      · intro v l' hl' u
        obtain ⟨l, hl, hmem⟩ := h2 v l' hl'
        rw [hmem, hI.index v l hl u]
        simp only [mem_setDel]
        constructor
        · rintro ⟨⟨h, hv'⟩, hn⟩
          refine ⟨⟨h, ?_⟩, hv'⟩
          rintro rfl
          exact hn ⟨rfl, hv'⟩
        · rintro ⟨⟨h, hne⟩, hv'⟩
          exact ⟨⟨h, hv'⟩, fun hh => hne hh.1⟩
  · cases hok

end Tri
