import AdaptiveProofs.Lemmas.TriInv

/-! The loops of `bowyer_watson` and `_extend_hull` preserve the index invariant; what they do to `simplices`. -/
namespace Tri

theorem neighborsFromVertices_mem (vts : List (List Simplex)) : ∀ (ps : List Nat) (r : List Simplex),
    neighborsFromVertices vts ps = .ok r → ∀ u ∈ r, ∃ (p : Nat) (l : List Simplex), vts[p]? = some l ∧ u ∈ l
  | [], r, hok, u, hu => by
    simp only [neighborsFromVertices, Except.ok.injEq] at hok
    subst hok
    cases hu
  | p :: ps, r, hok, u, hu => by
    simp only [neighborsFromVertices] at hok
    split at hok
    · cases hok
    · rename_i l hl
      split at hok
      · cases hok
      · rename_i r' hr'
        cases hok
        rcases mem_setUnion.mp hu with h | h
        · exact ⟨p, l, hl, h⟩
        · exact neighborsFromVertices_mem vts ps r' hr' u h

theorem bwLoop_spec (dim : Nat) : ∀ (circ : List (Simplex × Bool)) (s : State) (queue done bad : List Simplex)
    (s1 : State) (bad1 : List Simplex),
    Inv s → (∀ u ∈ queue, u ∈ s.simplices) → bwLoop dim circ s queue done bad = .ok (s1, bad1) →
    Inv s1 ∧ s1.dim = s.dim ∧ s1.nVerts = s.nVerts ∧ (∀ u, u ∈ s1.simplices → u ∈ s.simplices) ∧
      (∀ u, u ∈ bad1 ↔ (u ∈ bad ∨ (u ∈ s.simplices ∧ u ∉ s1.simplices)))
  | [], s, queue, done, bad, s1, bad1, hI, _, hok => by
    simp only [bwLoop] at hok
    split at hok
    · cases hok
      exact ⟨hI, rfl, rfl, fun _ h => h, fun u => by simp⟩
    · cases hok
  | (t, ans) :: rest, s, queue, done, bad, s1, bad1, hI, hq, hok => by
    simp only [bwLoop] at hok
    split at hok
    · cases hok
    · split at hok
      · cases hok
      · rename_i hne htq
        have htq' : t ∈ queue := by simpa using htq
        have htS : t ∈ s.simplices := hq t htq'
        have hts : sortS t = t := (hI.valid t htS).sorted
        split at hok
        · -- the point is in the circumsphere: delete, expand
          split at hok
          · cases hok
          · rename_i sd hd
            obtain ⟨hId, hdim, hn, _, hmem⟩ := deleteSimplex_spec hI hts hd
            split at hok
            · cases hok
            · rename_i nb hnb
              have hq' : ∀ u ∈ setUnion (setDel t queue)
                  (List.filter (fun u => decide (sharedCount u t = dim)) (setDiff nb (setAdd t done))), u ∈ sd.simplices := by
                intro u hu
                rcases mem_setUnion.mp hu with h | h
                · obtain ⟨h1, h2⟩ := mem_setDel.mp h
                  exact (hmem u).mpr ⟨hq u h1, h2⟩
                · have h' := (mem_setDiff.mp (List.mem_filter.mp h).1).1
                  obtain ⟨p, l, hl, hul⟩ := neighborsFromVertices_mem sd.vts _ nb hnb u h'
                  exact ((hId.index p l hl u).mp hul).1
              obtain ⟨hI1, hd1, hn1, hsub, hbad⟩ := bwLoop_spec dim rest sd _ _ _ s1 bad1 hId hq' hok
              refine ⟨hI1, hd1.trans hdim, hn1.trans hn, fun u hu => ((hmem u).mp (hsub u hu)).1, fun u => ?_⟩
              rw [hbad u, mem_setAdd, hmem u]
              constructor
              · rintro ((rfl | h) | ⟨⟨h, _⟩, h2⟩)
                · exact Or.inr ⟨htS, fun hc => ((hmem u).mp (hsub u hc)).2 rfl⟩
                · exact Or.inl h
                · exact Or.inr ⟨h, h2⟩
              · rintro (h | ⟨h, h2⟩)
                · exact Or.inl (Or.inr h)
                · by_cases hut : u = t
                  · exact Or.inl (Or.inl hut)
                  · exact Or.inr ⟨⟨h, hut⟩, h2⟩
        · -- not in the circumsphere
          have hq' : ∀ u ∈ setDel t queue, u ∈ s.simplices := fun u hu => hq u (mem_setDel.mp hu).1
          exact bwLoop_spec dim rest s _ _ _ s1 bad1 hI hq' hok

theorem holeLoop_spec (pt dim n : Nat) : ∀ (fs : List Simplex) (s : State) (fl : List (Simplex × Bool))
    (s2 : State) (fl2 : List (Simplex × Bool)),
    Inv s → s.dim = dim → s.nVerts = n →
    (∀ f ∈ fs, pt ∉ f → ValidSimplex dim n (f ++ [pt])) →
    holeLoop pt fs s fl = .ok (s2, fl2) →
    Inv s2 ∧ s2.dim = dim ∧ s2.nVerts = n ∧ (∀ u ∈ s.simplices, u ∈ s2.simplices) ∧
      (∀ u ∈ s2.simplices, u ∈ s.simplices ∨ pt ∈ u)
  | [], s, fl, s2, fl2, hI, hd, hn, _, hok => by
    simp only [holeLoop, Except.ok.injEq, Prod.mk.injEq] at hok
    obtain ⟨rfl, rfl⟩ := hok
    exact ⟨hI, hd, hn, fun _ h => h, fun _ h => Or.inl h⟩
  | face :: fs, s, fl, s2, fl2, hI, hd, hn, hv, hok => by
    have hv' : ∀ f ∈ fs, pt ∉ f → ValidSimplex dim n (f ++ [pt]) := fun f hf => hv f (List.mem_cons_of_mem _ hf)
    simp only [holeLoop] at hok
    split at hok
    · exact holeLoop_spec pt dim n fs s fl s2 fl2 hI hd hn hv' hok
    · rename_i hpt
      split at hok
      · cases hok
      · rename_i isFlat fl' _
        split at hok
        · exact holeLoop_spec pt dim n fs s fl' s2 fl2 hI hd hn hv' hok
        · split at hok
          · cases hok
          · rename_i sa ha
            have hval : ValidSimplex s.dim s.nVerts (face ++ [pt]) := by
              rw [hd, hn]; exact hv face List.mem_cons_self hpt
            obtain ⟨hIa, hda, hna, hma⟩ := addSimplex_spec hI hval ha
            obtain ⟨hI2, hd2, hn2, hsub, hsup⟩ :=
              holeLoop_spec pt dim n fs sa fl' s2 fl2 hIa (hda.trans hd) (hna.trans hn) hv' hok
            refine ⟨hI2, hd2, hn2, fun u hu => hsub u ((hma u).mpr (Or.inr hu)), fun u hu => ?_⟩
            rcases hsup u hu with h | h
            · rcases (hma u).mp h with rfl | h
              · exact Or.inr (by simp)
              · exact Or.inl h
            · exact Or.inr h

theorem hullLoop_spec (pt dim n : Nat) : ∀ (fs : List Simplex) (s : State) (new : List Simplex)
    (ori : List (Simplex × Int × Int)) (fl : List (Simplex × Bool))
    (s2 : State) (new2 : List Simplex) (ori2 : List (Simplex × Int × Int)) (fl2 : List (Simplex × Bool)),
    Inv s → s.dim = dim → s.nVerts = n →
    (∀ f ∈ fs, ValidSimplex dim n (f ++ [pt])) →
    (∀ u ∈ new, u ∈ s.simplices ∧ pt ∈ u) →
    hullLoop pt fs s new ori fl = .ok (s2, new2, ori2, fl2) →
    Inv s2 ∧ s2.dim = dim ∧ s2.nVerts = n ∧
      (∀ u, u ∈ s2.simplices ↔ (u ∈ s.simplices ∨ u ∈ new2)) ∧
      (∀ u ∈ new2, pt ∈ u) ∧ (∀ u ∈ new, u ∈ new2) ∧ (new2 = [] → s2 = s)
  | [], s, new, ori, fl, s2, new2, ori2, fl2, hI, hd, hn, _, hnew, hok => by
    simp only [hullLoop, Except.ok.injEq, Prod.mk.injEq] at hok
    obtain ⟨rfl, rfl, rfl, rfl⟩ := hok
    refine ⟨hI, hd, hn, fun u => ⟨Or.inl, ?_⟩, fun u hu => (hnew u hu).2, fun _ h => h, fun _ => rfl⟩
    rintro (h | h)
    · exact h
    · exact (hnew u h).1
  | face :: fs, s, new, ori, fl, s2, new2, ori2, fl2, hI, hd, hn, hv, hnew, hok => by
    have hv' : ∀ f ∈ fs, ValidSimplex dim n (f ++ [pt]) := fun f hf => hv f (List.mem_cons_of_mem _ hf)
    simp only [hullLoop] at hok
    split at hok
    · cases hok
    · rename_i oI oN ori' _
      split at hok
      · split at hok
        · cases hok
        · rename_i isFlat fl' _
          split at hok
          · exact hullLoop_spec pt dim n fs s new ori' fl' s2 new2 ori2 fl2 hI hd hn hv' hnew hok
          · split at hok
            · cases hok
            · rename_i sa ha
              have hval : ValidSimplex s.dim s.nVerts (face ++ [pt]) := by
                rw [hd, hn]; exact hv face List.mem_cons_self
              obtain ⟨hIa, hda, hna, hma⟩ := addSimplex_spec hI hval ha
              have hnew' : ∀ u ∈ setAdd (face ++ [pt]) new, u ∈ sa.simplices ∧ pt ∈ u := by
                intro u hu
                rcases mem_setAdd.mp hu with rfl | h
                · exact ⟨(hma _).mpr (Or.inl rfl), by simp⟩
                · exact ⟨(hma u).mpr (Or.inr (hnew u h).1), (hnew u h).2⟩
              obtain ⟨hI2, hd2, hn2, hmem, hpt, hmono, _⟩ :=
                hullLoop_spec pt dim n fs sa _ ori' fl' s2 new2 ori2 fl2 hIa (hda.trans hd) (hna.trans hn) hv' hnew' hok
              refine ⟨hI2, hd2, hn2, fun u => ?_, hpt, fun u hu => hmono u (mem_setAdd.mpr (Or.inr hu)), fun hnil => ?_⟩
              · rw [hmem u, hma u]
                constructor
                · rintro ((rfl | h) | h)
                  · exact Or.inr (hmono _ (mem_setAdd.mpr (Or.inl rfl)))
                  · exact Or.inl h
                  · exact Or.inr h
                · rintro (h | h)
                  · exact Or.inl (Or.inr h)
                  · exact Or.inr h
              · have := hmono (face ++ [pt]) (mem_setAdd.mpr (Or.inl rfl))
                rw [hnil] at this
                cases this
      · exact hullLoop_spec pt dim n fs s new ori' fl s2 new2 ori2 fl2 hI hd hn hv' hnew hok

end Tri
