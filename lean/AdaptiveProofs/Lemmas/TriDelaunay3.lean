import AdaptiveProofs.Lemmas.TriDelaunay2
import Mathlib.Algebra.Group.Prod
import Mathlib.Tactic.Ring
import Mathlib.Tactic.Linarith
import Mathlib.Tactic.LinearCombination

/-!
# The Delaunay cavity is star-shaped with respect to the new point (dimension 3, exact predicates)

The dimension-3 analogue of `Lemmas/TriDelaunay2.lean`: what `cavity_conserved_3d` (`Lemmas/TriCavity.lean`) assumes
(`hstar`) is proved here from the in-sphere test.  Points are `α × α × α`, everything is a polynomial (no division),
over any ordered commutative ring.

* `det3 u v w`, `nsq u`           – the 3×3 determinant of three vectors and the squared norm;
* `pow0 u v w y`                  – the 4×4 determinant with the rows `(u,|u|²) (v,|v|²) (w,|w|²) (y,|y|²)`, expanded along
  the last column: the (orientation ×) power of `y` w.r.t. the sphere through `0, u, v, w`;
* `sideP a b c x = det3 (b-a) (c-a) (x-a)` – the affine "signed side of the plane `abc`" function (`= vol6 a b c x`, `rfl`);
* `power3 a b c d x = pow0 (b-a) (c-a) (d-a) (x-a)` – (orientation determinant `sideP a b c d`) × (power of `x` w.r.t. the
  circumsphere of `a b c d`); it is the lifted 5×5 in-sphere determinant (`power3_eq_inSphereDet`), vanishes at the four
  vertices, is antisymmetric under the exchange of two vertices;
* `InSphere a b c d x := sideP a b c d * power3 a b c d x < 0` – `x` STRICTLY inside the circumsphere, orientation-normalised,
  invariant under every permutation of `a b c d`.

THE PENCIL IDENTITY (`power3_pencil`, a Grassmann–Plücker relation): the circumspheres of `abcd` and `abce` differ by a
multiple of the plane `abc`, the multiple being the power of `e` w.r.t. `abcd`.  Key lemma
`far_side_in_neighbour_sphere`, corollaries `not_far_side3`, `strictly_near_side3`; list level `cavity_star_3d`.
-/
namespace Tri

/-! ## A. the core polynomials (vectors from the first vertex) -/
section core
variable {α : Type} [CommRing α]

/-- the determinant of the three vectors `u v w` (Laplace expansion along the first row, as `vol6`) -/
def det3 (u v w : α × α × α) : α :=
  u.1 * (v.2.1 * w.2.2 - v.2.2 * w.2.1) - u.2.1 * (v.1 * w.2.2 - v.2.2 * w.1)
    + u.2.2 * (v.1 * w.2.1 - v.2.1 * w.1)

/-- squared norm -/
def nsq (u : α × α × α) : α := u.1 * u.1 + u.2.1 * u.2.1 + u.2.2 * u.2.2

/-- the 4×4 determinant with rows `(u,|u|²) (v,|v|²) (w,|w|²) (y,|y|²)` (expanded along the last column): as a function
of `y` the equation of the sphere through `0, u, v, w`, with leading coefficient `det3 u v w` -/
def pow0 (u v w y : α × α × α) : α :=
  nsq y * det3 u v w - nsq w * det3 u v y + nsq v * det3 u w y - nsq u * det3 v w y

theorem det3_swap12 (u v w : α × α × α) : det3 v u w = -det3 u v w := by simp only [det3]; ring
theorem det3_swap23 (u v w : α × α × α) : det3 u w v = -det3 u v w := by simp only [det3]; ring
theorem det3_self_left (u w : α × α × α) : det3 u u w = 0 := by simp only [det3]; ring
theorem det3_self_right (u v : α × α × α) : det3 u v v = 0 := by simp only [det3]; ring
theorem det3_self_outer (u v : α × α × α) : det3 u v u = 0 := by simp only [det3]; ring
theorem det3_zero_right (u v : α × α × α) : det3 u v 0 = 0 := by simp [det3]

/-- moving the origin to `u` -/
theorem det3_shift (u v w : α × α × α) : det3 (-u) (v - u) (w - u) = -det3 u v w := by
  simp only [det3, Prod.fst_sub, Prod.snd_sub, Prod.fst_neg, Prod.snd_neg]; ring

theorem pow0_swap12 (u v w y : α × α × α) : pow0 v u w y = -pow0 u v w y := by
  simp only [pow0, det3, nsq]; ring
theorem pow0_swap23 (u v w y : α × α × α) : pow0 u w v y = -pow0 u v w y := by
  simp only [pow0, det3, nsq]; ring
/-- antisymmetric in (fourth vertex, argument) as well -/
theorem pow0_swap34 (u v w y : α × α × α) : pow0 u v y w = -pow0 u v w y := by
  simp only [pow0, det3, nsq]; ring

theorem pow0_zero (u v w : α × α × α) : pow0 u v w 0 = 0 := by simp [pow0, det3, nsq]
theorem pow0_first (u v w : α × α × α) : pow0 u v w u = 0 := by simp only [pow0, det3, nsq]; ring
theorem pow0_second (u v w : α × α × α) : pow0 u v w v = 0 := by simp only [pow0, det3, nsq]; ring
theorem pow0_third (u v w : α × α × α) : pow0 u v w w = 0 := by simp only [pow0, det3, nsq]; ring

/-- moving the origin to `u` -/
theorem pow0_shift (u v w y : α × α × α) : pow0 (-u) (v - u) (w - u) (y - u) = -pow0 u v w y := by
  simp only [pow0, det3, nsq, Prod.fst_sub, Prod.snd_sub, Prod.fst_neg, Prod.snd_neg]; ring

/-- THE PENCIL IDENTITY in vector form (a three-term Grassmann–Plücker relation between the 4×4 lifted determinants and
the 3×3 orientation determinants with the common columns `u`, `v`). -/
theorem pow0_pencil (u v w e y : α × α × α) :
    det3 u v e * pow0 u v w y - det3 u v w * pow0 u v e y = pow0 u v w e * det3 u v y := by
  simp only [pow0, det3, nsq]; ring

end core

/-! ## B. the predicates on points -/
section defs
variable {α : Type} [CommRing α]

/-- signed side of the plane `abc`: the determinant of `(b - a, c - a, x - a)` -/
def sideP (a b c x : α × α × α) : α := det3 (b - a) (c - a) (x - a)

/-- (orientation determinant `sideP a b c d`) × (power of `x` with respect to the circumsphere of `a b c d`) -/
def power3 (a b c d x : α × α × α) : α := pow0 (b - a) (c - a) (d - a) (x - a)

/-- squared distance -/
def dist3 (x m : α × α × α) : α :=
  (x.1 - m.1) * (x.1 - m.1) + (x.2.1 - m.2.1) * (x.2.1 - m.2.1) + (x.2.2 - m.2.2) * (x.2.2 - m.2.2)

/-- the classical lifted in-sphere determinant: the 5×5 determinant with the rows `(p, |p|², 1)` for
`p = a, b, c, d, x`, expanded along the last two columns -/
def inSphereDet (a b c d x : α × α × α) : α :=
  nsq x * (det3 b c d - det3 a c d + det3 a b d - det3 a b c)
  - nsq d * (det3 b c x - det3 a c x + det3 a b x - det3 a b c)
  + nsq c * (det3 b d x - det3 a d x + det3 a b x - det3 a b d)
  - nsq b * (det3 c d x - det3 a d x + det3 a c x - det3 a c d)
  + nsq a * (det3 c d x - det3 b d x + det3 b c x - det3 b c d)

theorem sideP_eq_vol6 (a b c x : α × α × α) : sideP a b c x = vol6 a b c x := rfl

theorem power3_eq_inSphereDet (a b c d x : α × α × α) : power3 a b c d x = inSphereDet a b c d x := by
  obtain ⟨a1, a2, a3⟩ := a; obtain ⟨b1, b2, b3⟩ := b; obtain ⟨c1, c2, c3⟩ := c
  obtain ⟨d1, d2, d3⟩ := d; obtain ⟨x1, x2, x3⟩ := x
  simp only [power3, inSphereDet, pow0, det3, nsq, Prod.mk_sub_mk]; ring

/-- `sideP` of the tetrahedron is the leading coefficient: `power3 a b c d x = sideP a b c d * |x|² + (affine in x)` -/
theorem power3_leading (a b c d x : α × α × α) :
    power3 a b c d x = sideP a b c d * nsq (x - a) - nsq (d - a) * sideP a b c x
      + nsq (c - a) * sideP a b d x - nsq (b - a) * det3 (c - a) (d - a) (x - a) := by
  simp only [power3, sideP, pow0]; ring

private theorem sub_shift (a b c : α × α × α) : c - b = (c - a) - (b - a) := (sub_sub_sub_cancel_right c b a).symm
private theorem neg_shift (a b : α × α × α) : a - b = -(b - a) := (neg_sub b a).symm

theorem sideP_a (a b c : α × α × α) : sideP a b c a = 0 := by
  simp only [sideP, sub_self]; exact det3_zero_right _ _
theorem sideP_b (a b c : α × α × α) : sideP a b c b = 0 := det3_self_outer _ _
theorem sideP_c (a b c : α × α × α) : sideP a b c c = 0 := det3_self_right _ _

/-- exchanging two vertices of the face reverses the side function -/
theorem sideP_swap12 (a b c x : α × α × α) : sideP b a c x = -sideP a b c x := by
  unfold sideP
  rw [neg_shift a b, sub_shift a b c, sub_shift a b x]
  exact det3_shift _ _ _
theorem sideP_swap23 (a b c x : α × α × α) : sideP a c b x = -sideP a b c x := det3_swap12 _ _ _
theorem sideP_swap34 (a b c x : α × α × α) : sideP a b x c = -sideP a b c x := det3_swap23 _ _ _

/-- the power function vanishes at the four vertices: it IS (a multiple of) the circumsphere equation -/
theorem power3_a (a b c d : α × α × α) : power3 a b c d a = 0 := by
  simp only [power3, sub_self]; exact pow0_zero _ _ _
theorem power3_b (a b c d : α × α × α) : power3 a b c d b = 0 := pow0_first _ _ _
theorem power3_c (a b c d : α × α × α) : power3 a b c d c = 0 := pow0_second _ _ _
theorem power3_d (a b c d : α × α × α) : power3 a b c d d = 0 := pow0_third _ _ _

/-- ANTISYMMETRY under the exchange of two neighbouring vertices (the three generators of the symmetric group) -/
theorem power3_swap12 (a b c d x : α × α × α) : power3 b a c d x = -power3 a b c d x := by
  unfold power3
  rw [neg_shift a b, sub_shift a b c, sub_shift a b d, sub_shift a b x]
  exact pow0_shift _ _ _ _
theorem power3_swap23 (a b c d x : α × α × α) : power3 a c b d x = -power3 a b c d x := pow0_swap12 _ _ _ _
theorem power3_swap34 (a b c d x : α × α × α) : power3 a b d c x = -power3 a b c d x := pow0_swap23 _ _ _ _
/-- … and of the fourth vertex with the argument -/
theorem power3_swap_arg (a b c d x : α × α × α) : power3 a b c x d = -power3 a b c d x := pow0_swap34 _ _ _ _

/-- THE SAME quadratic seen from the other three faces (even permutations) -/
theorem power3_face_abd (a b c d x : α × α × α) : power3 a b d c x = -power3 a b c d x := power3_swap34 a b c d x
theorem power3_face_acd (a b c d x : α × α × α) : power3 a c d b x = power3 a b c d x := by
  rw [power3_swap34, power3_swap23, neg_neg]
theorem power3_face_bcd (a b c d x : α × α × α) : power3 b c d a x = -power3 a b c d x := by
  rw [power3_swap34, power3_swap23, power3_swap12, neg_neg]

theorem sideP_face_acd (a b c d : α × α × α) : sideP a c d b = sideP a b c d := by
  rw [sideP_swap34, sideP_swap23, neg_neg]
theorem sideP_face_bcd (a b c d : α × α × α) : sideP b c d a = -sideP a b c d := by
  rw [sideP_swap34, sideP_swap23, sideP_swap12, neg_neg]

/-- THE PENCIL IDENTITY: the circumspheres of `abcd` and `abce` differ by a multiple of the plane `abc`, and the multiple
is the power of `e` with respect to `abcd`. -/
theorem power3_pencil (a b c d e x : α × α × α) :
    sideP a b c e * power3 a b c d x - sideP a b c d * power3 a b c e x = power3 a b c d e * sideP a b c x :=
  pow0_pencil _ _ _ _ _

/-- the cofactor expansion of the lifted determinant along the column `|p - m|² - r2` (any `m`, `r2`: subtracting the
affine function `2 m·p - |m|² + r2` from the lifted coordinate `|p|²` is a column operation) -/
theorem power3_expand (a b c d x m : α × α × α) (r2 : α) :
    power3 a b c d x = sideP a b c d * (dist3 x m - r2) - sideP a b c x * (dist3 d m - r2)
      + sideP a b d x * (dist3 c m - r2) - sideP a c d x * (dist3 b m - r2)
      + sideP b c d x * (dist3 a m - r2) := by
  obtain ⟨a1, a2, a3⟩ := a; obtain ⟨b1, b2, b3⟩ := b; obtain ⟨c1, c2, c3⟩ := c
  obtain ⟨d1, d2, d3⟩ := d; obtain ⟨x1, x2, x3⟩ := x; obtain ⟨m1, m2, m3⟩ := m
  simp only [power3, sideP, pow0, det3, nsq, dist3, Prod.mk_sub_mk]; ring

/-- THE PENCIL OF SPHERES THROUGH `a b c`, division-free: for EVERY sphere `S(x) = |x - m|² - r2` through `a`, `b`, `c`
the power function of `a b c d` is `sideP a b c d * S(x) - S(d) * sideP a b c x` (the member of the pencil
`S + lam * sideP a b c` that passes through `d`, multiplied through by `sideP a b c d`) -/
theorem power3_eq_pencil (a b c d x m : α × α × α) (r2 : α)
    (ha : dist3 a m = r2) (hb : dist3 b m = r2) (hc : dist3 c m = r2) :
    power3 a b c d x = sideP a b c d * (dist3 x m - r2) - (dist3 d m - r2) * sideP a b c x := by
  rw [power3_expand a b c d x m r2, ha, hb, hc]; ring

/-- CENTRE FORM: if `m` is at squared distance `r2` from the four vertices, the power function is
`sideP a b c d * (|x - m|² - r2)` -/
theorem power3_eq_dist (a b c d x m : α × α × α) (r2 : α)
    (ha : dist3 a m = r2) (hb : dist3 b m = r2) (hc : dist3 c m = r2) (hd : dist3 d m = r2) :
    power3 a b c d x = sideP a b c d * (dist3 x m - r2) := by
  rw [power3_eq_pencil a b c d x m r2 ha hb hc, hd]; ring

end defs

/-! ## C. order: the in-sphere predicate and the key lemma -/
section order
set_option linter.unusedSectionVars false
variable {α : Type} [CommRing α] [LinearOrder α] [IsStrictOrderedRing α]

/-- `x` is STRICTLY inside the circumsphere of the tetrahedron `a b c d` (orientation-normalised polynomial predicate) -/
def InSphere (a b c d x : α × α × α) : Prop := sideP a b c d * power3 a b c d x < 0

instance (a b c d x : α × α × α) : Decidable (InSphere a b c d x) := by unfold InSphere; infer_instance

omit [LinearOrder α] [IsStrictOrderedRing α] in
theorem sideP_mul_power3_swap12 (a b c d x : α × α × α) :
    sideP b a c d * power3 b a c d x = sideP a b c d * power3 a b c d x := by
  rw [power3_swap12, sideP_swap12]; ring
omit [LinearOrder α] [IsStrictOrderedRing α] in
theorem sideP_mul_power3_swap23 (a b c d x : α × α × α) :
    sideP a c b d * power3 a c b d x = sideP a b c d * power3 a b c d x := by
  rw [power3_swap23, sideP_swap23]; ring
omit [LinearOrder α] [IsStrictOrderedRing α] in
theorem sideP_mul_power3_swap34 (a b c d x : α × α × α) :
    sideP a b d c * power3 a b d c x = sideP a b c d * power3 a b c d x := by
  rw [power3_swap34, sideP_swap34]; ring

/-- the in-sphere predicate does not depend on the order of the vertices (the three generators of `S₄`) -/
theorem inSphere_swap12 (a b c d x : α × α × α) : InSphere b a c d x ↔ InSphere a b c d x := by
  unfold InSphere; rw [sideP_mul_power3_swap12]
theorem inSphere_swap23 (a b c d x : α × α × α) : InSphere a c b d x ↔ InSphere a b c d x := by
  unfold InSphere; rw [sideP_mul_power3_swap23]
theorem inSphere_swap34 (a b c d x : α × α × α) : InSphere a b d c x ↔ InSphere a b c d x := by
  unfold InSphere; rw [sideP_mul_power3_swap34]
/-- … hence seen from every face -/
theorem inSphere_face_acd (a b c d x : α × α × α) : InSphere a c d b x ↔ InSphere a b c d x := by
  rw [inSphere_swap34, inSphere_swap23]
theorem inSphere_face_bcd (a b c d x : α × α × α) : InSphere b c d a x ↔ InSphere a b c d x := by
  rw [inSphere_swap34, inSphere_swap23, inSphere_swap12]

/-- a vertex is never strictly inside, and nothing is strictly inside a degenerate tetrahedron -/
theorem not_inSphere_vertex (a b c d : α × α × α) :
    ¬ InSphere a b c d a ∧ ¬ InSphere a b c d b ∧ ¬ InSphere a b c d c ∧ ¬ InSphere a b c d d := by
  unfold InSphere
  rw [power3_a, power3_b, power3_c, power3_d, mul_zero]
  exact ⟨lt_irrefl _, lt_irrefl _, lt_irrefl _, lt_irrefl _⟩
theorem not_inSphere_degenerate (a b c d x : α × α × α) (h : sideP a b c d = 0) : ¬ InSphere a b c d x := by
  unfold InSphere; rw [h, zero_mul]; exact lt_irrefl _
theorem sideP_ne_zero_of_inSphere {a b c d x : α × α × α} (h : InSphere a b c d x) : sideP a b c d ≠ 0 :=
  fun h0 => not_inSphere_degenerate a b c d x h0 h

/-- CENTRE FORM of the predicate: if `m` is at squared distance `r2` from the four vertices of a non-degenerate
tetrahedron, `x` is strictly inside (polynomial predicate) iff its squared distance to `m` is smaller than `r2`. -/
theorem inSphere_iff_dist (a b c d x m : α × α × α) (r2 : α) (hnd : sideP a b c d ≠ 0)
    (ha : dist3 a m = r2) (hb : dist3 b m = r2) (hc : dist3 c m = r2) (hd : dist3 d m = r2) :
    InSphere a b c d x ↔ dist3 x m < r2 := by
  unfold InSphere
  rw [power3_eq_dist a b c d x m r2 ha hb hc hd, ← mul_assoc]
  have h2 : 0 < sideP a b c d * sideP a b c d := mul_self_pos.mpr hnd
  constructor
  · intro h1
    by_contra h3
    have := mul_nonneg h2.le (sub_nonneg.mpr (not_lt.mp h3))
    linarith
  · intro h1
    exact mul_neg_of_pos_of_neg h2 (sub_neg.mpr h1)

/-- the sign argument shared by the 2-D and the 3-D key lemma: `Lc, Ld, Lp` the side function at the two apexes and at
the new point, `Pc, Pd` the two power functions at the new point, `Q` the power of the second apex w.r.t. the first
circle/sphere, `hid` the pencil identity -/
theorem pencil_sign {Lc Ld Lp Pc Pd Q : α} (hid : Ld * Pc - Lc * Pd = Q * Lp)
    (hopp : Lc * Ld < 0) (hp : Lc * Pc < 0) (hQ : 0 ≤ Lc * Q) (hfar : Lc * Lp < 0) : Ld * Pd < 0 := by
  have hLc : Lc ≠ 0 := by rintro rfl; simp at hopp
  have hLd : Ld ≠ 0 := by rintro rfl; simp at hopp
  have hLc2 : 0 < Lc * Lc := mul_self_pos.mpr hLc
  have hLd2 : 0 < Ld * Ld := mul_self_pos.mpr hLd
  have h1 : 0 < Ld * Lp := by
    by_contra h
    have h2 := mul_nonpos_of_nonneg_of_nonpos hLc2.le (not_lt.mp h)
    have h3 := mul_pos_of_neg_of_neg hopp hfar
    have e : Lc * Ld * (Lc * Lp) = Lc * Lc * (Ld * Lp) := by ring
    linarith
  have h2 : 0 ≤ (Lc * Q) * (Ld * Lp) := mul_nonneg hQ h1.le
  have h3 : (Ld * Ld) * (Lc * Pc) < 0 := mul_neg_of_pos_of_neg hLd2 hp
  have e : (Lc * Lc) * (Ld * Pd) = (Ld * Ld) * (Lc * Pc) - (Lc * Q) * (Ld * Lp) := by
    linear_combination (-(Lc * Ld)) * hid
  have h4 : (Lc * Lc) * (Ld * Pd) < 0 := by rw [e]; linarith
  by_contra h
  have := mul_nonneg hLc2.le (not_lt.mp h)
  linarith

/-- KEY LEMMA.  Tetrahedra `abcd` and `abce` on strictly opposite sides of their common face `abc`; `p` strictly inside the
circumsphere of `abcd`; `e` not strictly inside the circumsphere of `abcd` (the pair is locally Delaunay); `p` strictly
on the far side of the plane `abc` (the side of `e`).  Then `p` is strictly inside the circumsphere of `abce`. -/
theorem far_side_in_neighbour_sphere {a b c d e p : α × α × α}
    (hopp : sideP a b c d * sideP a b c e < 0) (hp : InSphere a b c d p) (hdel : ¬ InSphere a b c d e)
    (hfar : sideP a b c d * sideP a b c p < 0) : InSphere a b c e p :=
  pencil_sign (power3_pencil a b c d e p) hopp hp (not_lt.mp hdel) hfar

/-- COROLLARY (what Bowyer–Watson needs): if moreover `p` is NOT strictly inside the circumsphere of the neighbour `abce`
(the neighbour is not deleted), then `p` is not strictly on the far side of the plane `abc`: it is on the side of `d`, or
in the plane. -/
theorem not_far_side3 {a b c d e p : α × α × α}
    (hopp : sideP a b c d * sideP a b c e < 0) (hp : InSphere a b c d p) (hdel : ¬ InSphere a b c d e)
    (hnp : ¬ InSphere a b c e p) : 0 ≤ sideP a b c d * sideP a b c p :=
  not_lt.mp (fun hfar => hnp (far_side_in_neighbour_sphere hopp hp hdel hfar))

/-- a point of the plane `abc` that is strictly inside one sphere through `a`, `b`, `c` is strictly inside every sphere
through `a`, `b`, `c` (it is strictly inside the circumcircle of the triangle `abc` in that plane) -/
theorem in_plane_in_both {a b c d e p : α × α × α} (he : sideP a b c e ≠ 0) (hl : sideP a b c p = 0)
    (hp : InSphere a b c d p) : InSphere a b c e p := by
  have hd := sideP_ne_zero_of_inSphere hp
  unfold InSphere at hp ⊢
  have hid := power3_pencil a b c d e p
  rw [hl, mul_zero] at hid
  have h1 : 0 < sideP a b c d * sideP a b c d := mul_self_pos.mpr hd
  have h2 : 0 < sideP a b c e * sideP a b c e := mul_self_pos.mpr he
  have h3 := mul_neg_of_pos_of_neg h2 hp
  have e1 : (sideP a b c d * sideP a b c d) * (sideP a b c e * power3 a b c e p) =
      (sideP a b c e * sideP a b c e) * (sideP a b c d * power3 a b c d p) := by
    linear_combination (-(sideP a b c d * sideP a b c e)) * hid
  by_contra h
  have := mul_nonneg h1.le (not_lt.mp h)
  linarith

/-- STRICT FORM: under the same hypotheses `p` is STRICTLY on the side of `d` – the new tetrahedron `a b c p` over a hole
face that has a neighbour is never degenerate.  (Only hull faces can give a flat new tetrahedron.) -/
theorem strictly_near_side3 {a b c d e p : α × α × α}
    (hopp : sideP a b c d * sideP a b c e < 0) (hp : InSphere a b c d p) (hdel : ¬ InSphere a b c d e)
    (hnp : ¬ InSphere a b c e p) : 0 < sideP a b c d * sideP a b c p := by
  refine lt_of_le_of_ne (not_far_side3 hopp hp hdel hnp) (fun h => ?_)
  have he : sideP a b c e ≠ 0 := by rintro h0; rw [h0, mul_zero] at hopp; exact lt_irrefl _ hopp
  rcases mul_eq_zero.mp h.symm with h0 | h0
  · rw [h0, zero_mul] at hopp; exact lt_irrefl _ hopp
  · exact hnp (in_plane_in_both he h0 hp)

end order

/-! ## D. the vocabulary of `TriCavity.lean`: tetrahedra and faces as index lists -/
section lists
variable {α : Type} [CommRing α]

/-- the (orientation × power) function of the tetrahedron with the vertex indices `t = [i, j, k, l]` -/
def pwT3 (x : Nat → α × α × α) (t : Simplex) (q : α × α × α) : α :=
  match t with
  | [i, j, k, l] => power3 (x i) (x j) (x k) (x l) q
  | _ => 0

/-- the same for the tetrahedron over the face `e = [a, b, c]` with apex `d` -/
def pwF3 (x : Nat → α × α × α) (e : Simplex) (d q : α × α × α) : α :=
  match e with
  | [a, b, c] => power3 (x a) (x b) (x c) d q
  | _ => 0

/-- relation to the vocabulary of `TriCavity.lean`: `sv3`, `flux3` (hence `sve3 = esign3 * flux3`, `sve3_eq`) are `sideP` -/
theorem sv3_eq_sideP (x : Nat → α × α × α) (i j k l : Nat) :
    sv3 x [i, j, k, l] = sideP (x i) (x j) (x k) (x l) := rfl
theorem flux3_eq_sideP (x : Nat → α × α × α) (a b c : Nat) (q : α × α × α) :
    flux3 x [a, b, c] q = sideP (x a) (x b) (x c) q := rfl
theorem sve3_eq_sideP (x : Nat → α × α × α) (t : Simplex) (a b c : Nat) (q : α × α × α) :
    sve3 x t [a, b, c] q = esign3 t [a, b, c] * sideP (x a) (x b) (x c) q := sve3_eq x t [a, b, c] q

/-- the four (face, opposite vertex) pairs of a tetrahedron -/
theorem tet_face_cases {i j k l : Nat} {e : Simplex} (he : e ∈ combos 3 [i, j, k, l])
    {c : Nat} (hc : c ∈ [i, j, k, l]) (hce : c ∉ e) :
    (e = [i, j, k] ∧ c = l) ∨ (e = [i, j, l] ∧ c = k) ∨ (e = [i, k, l] ∧ c = j) ∨ (e = [j, k, l] ∧ c = i) := by
  simp only [combos, List.map_cons, List.map_nil, List.append_nil, List.cons_append, List.nil_append,
    List.mem_cons, List.not_mem_nil, or_false] at he hc
  rcases he with rfl | rfl | rfl | rfl <;> simp only [List.mem_cons, List.not_mem_nil, or_false, not_or] at hce
  · rcases hc with rfl | rfl | rfl | rfl
    · exact absurd rfl hce.1
    · exact absurd rfl hce.2.1
    · exact absurd rfl hce.2.2
    · exact Or.inl ⟨rfl, rfl⟩
  · rcases hc with rfl | rfl | rfl | rfl
    · exact absurd rfl hce.1
    · exact absurd rfl hce.2.1
    · exact Or.inr (Or.inl ⟨rfl, rfl⟩)
    · exact absurd rfl hce.2.2
  · rcases hc with rfl | rfl | rfl | rfl
    · exact absurd rfl hce.1
    · exact Or.inr (Or.inr (Or.inl ⟨rfl, rfl⟩))
    · exact absurd rfl hce.2.1
    · exact absurd rfl hce.2.2
  · rcases hc with rfl | rfl | rfl | rfl
    · exact Or.inr (Or.inr (Or.inr ⟨rfl, rfl⟩))
    · exact absurd rfl hce.1
    · exact absurd rfl hce.2.1
    · exact absurd rfl hce.2.2

/-- every face of a sorted tetrahedron has an opposite vertex -/
theorem exists_apex3 {i j k l : Nat} {e : Simplex} (hij : i < j) (hjk : j < k) (hkl : k < l)
    (he : e ∈ combos 3 [i, j, k, l]) : ∃ c, c ∈ [i, j, k, l] ∧ c ∉ e := by
  simp only [combos, List.map_cons, List.map_nil, List.append_nil, List.cons_append, List.nil_append,
    List.mem_cons, List.not_mem_nil, or_false] at he
  rcases he with rfl | rfl | rfl | rfl
  · exact ⟨l, by simp, by simp; omega⟩
  · exact ⟨k, by simp, by simp; omega⟩
  · exact ⟨j, by simp, by simp; omega⟩
  · exact ⟨i, by simp, by simp; omega⟩

/-- a sorted tetrahedron seen from one of its faces `e` with opposite vertex `c`: signed volume and power function are
the parity `esign3 t e` times those of "`e` with apex `x c`" -/
theorem tet_face_decomp (x : Nat → α × α × α) {i j k l : Nat} (hij : i < j) (hjk : j < k) (hkl : k < l) {e : Simplex}
    (he : e ∈ combos 3 [i, j, k, l]) {c : Nat} (hc : c ∈ [i, j, k, l]) (hce : c ∉ e) (q : α × α × α) :
    sv3 x [i, j, k, l] = esign3 [i, j, k, l] e * flux3 x e (x c) ∧
    pwT3 x [i, j, k, l] q = esign3 [i, j, k, l] e * pwF3 x e (x c) q := by
  have h1 : ¬ ([i, j, l] = [i, j, k]) := by simp; omega
  have h2 : ¬ ([i, k, l] = [i, j, k]) := by simp; omega
  have h3 : ¬ ([i, k, l] = [i, j, l]) := by simp; omega
  have h4 : ¬ ([j, k, l] = [i, j, k]) := by simp; omega
  have h5 : ¬ ([j, k, l] = [i, j, l]) := by simp; omega
  have h6 : ¬ ([j, k, l] = [i, k, l]) := by simp; omega
  rcases tet_face_cases he hc hce with ⟨rfl, rfl⟩ | ⟨rfl, rfl⟩ | ⟨rfl, rfl⟩ | ⟨rfl, rfl⟩
  · simp [esign3, flux3, sv3, pwT3, pwF3]
  · constructor
    · simp only [esign3, flux3, sv3, h1, if_false, if_true, vol6]; ring
    · simp only [esign3, pwT3, pwF3, h1, if_false, if_true]; rw [power3_swap34 (x i) (x j) (x c) (x l)]; ring
  · constructor
    · simp only [esign3, flux3, sv3, h2, h3, if_false, if_true, vol6]; ring
    · simp only [esign3, pwT3, pwF3, h2, h3, if_false, if_true]; rw [power3_face_acd (x i) (x c) (x k) (x l)]; ring
  · constructor
    · simp only [esign3, flux3, sv3, h4, h5, h6, if_false, if_true, vol6]; ring
    · simp only [esign3, pwT3, pwF3, h4, h5, h6, if_false, if_true]; rw [power3_face_bcd (x c) (x j) (x k) (x l)]; ring

end lists

section listsOrder
set_option linter.unusedSectionVars false
variable {α : Type} [CommRing α] [LinearOrder α] [IsStrictOrderedRing α]

/-- `q` is strictly inside the circumsphere of the tetrahedron with the vertex indices `t` (any vertex order; `False` for
a degenerate tetrahedron and for lists that are not tetrahedra) -/
def InSphere3 (x : Nat → α × α × α) (t : Simplex) (q : α × α × α) : Prop := sv3 x t * pwT3 x t q < 0

instance (x : Nat → α × α × α) (t : Simplex) (q : α × α × α) : Decidable (InSphere3 x t q) := by
  unfold InSphere3; infer_instance

theorem inSphere3_quad (x : Nat → α × α × α) (i j k l : Nat) (q : α × α × α) :
    InSphere3 x [i, j, k, l] q ↔ InSphere (x i) (x j) (x k) (x l) q := Iff.rfl

omit [IsStrictOrderedRing α] in
/-- strictly inside the circumsphere ⇒ the tetrahedron is not degenerate -/
theorem sv3_ne_zero_of_inSphere3 (x : Nat → α × α × α) {t : Simplex} {q : α × α × α} (h : InSphere3 x t q) :
    sv3 x t ≠ 0 := by
  intro h0
  unfold InSphere3 at h
  rw [h0, zero_mul] at h
  exact lt_irrefl _ h

/-- the list-level predicate seen from a face `[a, b, c]` of the (sorted) tetrahedron, opposite vertex `d` -/
theorem inSphere3_face (x : Nat → α × α × α) {i j k l : Nat} (hij : i < j) (hjk : j < k) (hkl : k < l) {a b c : Nat}
    (he : [a, b, c] ∈ combos 3 [i, j, k, l]) {d : Nat} (hd : d ∈ [i, j, k, l]) (hde : d ∉ [a, b, c]) (q : α × α × α) :
    InSphere3 x [i, j, k, l] q ↔ InSphere (x a) (x b) (x c) (x d) q := by
  obtain ⟨e1, e2⟩ := tet_face_decomp x hij hjk hkl he hd hde q
  unfold InSphere3 InSphere
  rw [e1, e2, unit_mul_mul (esign3_unit he)]
  rfl

/-- ONE HOLE FACE.  `t` a sorted tetrahedron with `p` strictly inside its circumsphere, `e` one of its faces, `t'` a sorted
tetrahedron with the same face whose fourth vertex is strictly on the other side of `e`, `p` not strictly inside the
circumsphere of `t'`, the fourth vertex of `t'` not strictly inside the circumsphere of `t`.  Then `p` is on the inner
side of `e` (in the very terms of `cavity_conserved_3d`). -/
theorem star_face_3d (x : Nat → α × α × α) {t t' e : Simplex} (p : α × α × α)
    (hS : t.length = 4 ∧ t.Pairwise (· < ·)) (hS' : t'.length = 4 ∧ t'.Pairwise (· < ·))
    (he : e ∈ combos 3 t) (he' : e ∈ combos 3 t')
    (hopp : ∀ c' ∈ t', c' ∉ e → sve3 x t e (x c') * sv3 x t < 0)
    (hin : InSphere3 x t p) (hnin : ¬ InSphere3 x t' p)
    (hdel : ∀ c' ∈ t', c' ∉ e → ¬ InSphere3 x t (x c')) :
    0 ≤ sve3 x t e p * sv3 x t := by
  obtain ⟨i, j, k, l, rfl, hij, hjk, hkl⟩ := sorted4 hS
  obtain ⟨i', j', k', l', rfl, hij', hjk', hkl'⟩ := sorted4 hS'
  obtain ⟨c, hc, hce⟩ := exists_apex3 hij hjk hkl he
  obtain ⟨c', hc', hce'⟩ := exists_apex3 hij' hjk' hkl' he'
  have hl := (combos_sublist 3 _ e he).2
  match e, hl with
  | [a, b, d], _ =>
    have hu := esign3_unit (α := α) he
    have h1 := (inSphere3_face x hij hjk hkl he hc hce p).mp hin
    have h2 := fun h => hnin ((inSphere3_face x hij' hjk' hkl' he' hc' hce' p).mpr h)
    have h3 := fun h => hdel c' hc' hce' ((inSphere3_face x hij hjk hkl he hc hce (x c')).mpr h)
    have h4 := hopp c' hc' hce'
    obtain ⟨e1, _⟩ := tet_face_decomp x hij hjk hkl he hc hce p
    rw [sve3_eq, e1, unit_mul_mul hu] at h4 ⊢
    have h5 : sideP (x a) (x b) (x d) (x c) * sideP (x a) (x b) (x d) (x c') < 0 := by
      rw [mul_comm]; exact h4
    have := not_far_side3 h5 h1 h3 h2
    rw [mul_comm]; exact this

/-- … and STRICTLY so: the new tetrahedron over a hole face that has a neighbour is not flat -/
theorem star_face_3d_strict (x : Nat → α × α × α) {t t' e : Simplex} (p : α × α × α)
    (hS : t.length = 4 ∧ t.Pairwise (· < ·)) (hS' : t'.length = 4 ∧ t'.Pairwise (· < ·))
    (he : e ∈ combos 3 t) (he' : e ∈ combos 3 t')
    (hopp : ∀ c' ∈ t', c' ∉ e → sve3 x t e (x c') * sv3 x t < 0)
    (hin : InSphere3 x t p) (hnin : ¬ InSphere3 x t' p)
    (hdel : ∀ c' ∈ t', c' ∉ e → ¬ InSphere3 x t (x c')) :
    0 < sve3 x t e p * sv3 x t := by
  obtain ⟨i, j, k, l, rfl, hij, hjk, hkl⟩ := sorted4 hS
  obtain ⟨i', j', k', l', rfl, hij', hjk', hkl'⟩ := sorted4 hS'
  obtain ⟨c, hc, hce⟩ := exists_apex3 hij hjk hkl he
  obtain ⟨c', hc', hce'⟩ := exists_apex3 hij' hjk' hkl' he'
  have hl := (combos_sublist 3 _ e he).2
  match e, hl with
  | [a, b, d], _ =>
    have hu := esign3_unit (α := α) he
    have h1 := (inSphere3_face x hij hjk hkl he hc hce p).mp hin
    have h2 := fun h => hnin ((inSphere3_face x hij' hjk' hkl' he' hc' hce' p).mpr h)
    have h3 := fun h => hdel c' hc' hce' ((inSphere3_face x hij hjk hkl he hc hce (x c')).mpr h)
    have h4 := hopp c' hc' hce'
    obtain ⟨e1, _⟩ := tet_face_decomp x hij hjk hkl he hc hce p
    rw [sve3_eq, e1, unit_mul_mul hu] at h4 ⊢
    have h5 : sideP (x a) (x b) (x d) (x c) * sideP (x a) (x b) (x d) (x c') < 0 := by
      rw [mul_comm]; exact h4
    have := strictly_near_side3 h5 h1 h3 h2
    rw [mul_comm]; exact this

/-- THE DELAUNAY CAVITY IS STAR-SHAPED (dimension 3, exact predicates), in the vocabulary of `cavity_conserved_3d`.
`bad`: sorted tetrahedra with `x pt` strictly inside each circumsphere.  For every hole face `e` (owner `t ∈ bad`):
EITHER some sorted tetrahedron `t'` (in the application: a tetrahedron of the triangulation that is not deleted) has the
face `e`, lies strictly on the other side of `e`, does not have `x pt` strictly inside its circumsphere, and its
fourth vertex is not strictly inside the circumsphere of `t` (locally Delaunay pair); OR (`e` on the convex hull)
`x pt` is not strictly outside `e`. -/
theorem cavity_star_3d (x : Nat → α × α × α) (bad : List Simplex) (pt : Nat)
    (hS : ∀ t ∈ bad, t.length = 4 ∧ t.Pairwise (· < ·))
    (hin : ∀ t ∈ bad, InSphere3 x t (x pt))
    (hface : ∀ e ∈ hole 3 bad,
      (∃ t' : Simplex, (t'.length = 4 ∧ t'.Pairwise (· < ·)) ∧ e ∈ combos 3 t' ∧
        (∀ c' ∈ t', c' ∉ e → sve3 x (owner 3 bad e) e (x c') * sv3 x (owner 3 bad e) < 0) ∧
        ¬ InSphere3 x t' (x pt) ∧
        (∀ c' ∈ t', c' ∉ e → ¬ InSphere3 x (owner 3 bad e) (x c'))) ∨
      0 ≤ sve3 x (owner 3 bad e) e (x pt) * sv3 x (owner 3 bad e)) :
    ∀ e ∈ hole 3 bad, 0 ≤ osign (sv3 x (owner 3 bad e)) * sve3 x (owner 3 bad e) e (x pt) := by
  intro e he
  obtain ⟨ho, heo, _⟩ := mem_hole he
  apply osign_mul_nonneg
  rcases hface e he with ⟨t', hS', he', hopp, hnin, hdel⟩ | h
  · exact star_face_3d x (x pt) (hS _ ho) hS' heo he' hopp (hin _ ho) hnin hdel
  · exact h

end listsOrder

end Tri
