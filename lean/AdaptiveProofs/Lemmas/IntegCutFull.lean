import AdaptiveProofs.Lemmas.IntegWalk
import AdaptiveProofs.Lemmas.IntegCut
/-!
C07 (deepening): from the done-leaves invariant to the decidable cut check `cutOK`, in every reachable state; and
contiguity of a cut from the midpoint relation of `split`.
-/
set_option linter.unusedSectionVars false
set_option linter.unusedSimpArgs false
set_option linter.unusedVariables false
namespace Integ
namespace Cut
open Safe
variable {α : Type} [OfNat α 0] [DecidableEq α] [Div α] [OfNat α 2] [LT α] [DecidableLT α] [Sub α] [Mul α] [Add α] [Neg α]

theorem joinOpts_map_of {g : Nat → Option (List Nat)} {h : Nat → List Nat} :
    ∀ (cs : List Nat), (∀ c ∈ cs, g c = some (h c)) → joinOpts (cs.map g) = some (cs.flatMap h)
  | [], _ => rfl
  | c :: r, hh => by
    simp only [List.map_cons, List.flatMap_cons]
    rw [hh c (List.mem_cons_self ..)]
    simp only [joinOpts]
    rw [joinOpts_map_of r (fun c' hc' => hh c' (List.mem_cons_of_mem _ hc'))]
    rfl

/-- walking down from `j` and stopping at members of `S0` finds exactly what `j` holds, if `S0` contains it and
consists of intervals that stand for themselves -/
theorem descend_held {F : Forest α} (hW : WF F) (S0 : List Nat) (hS : ∀ y ∈ S0, ¬ Hd (view F) y) :
    ∀ j, j < F.length → (∀ y ∈ hz (view F) none j, y ∈ S0) → ∀ fuel, F.length - j ≤ fuel →
      descend F S0 fuel j = some (hz (view F) none j) := by
  have hWv := view_wf hW
  refine tree_ind hWv _ ?_
  intro j ih hj hsub fuel hf
  cases fuel with
  | zero => omega
  | succ f =>
    simp only [descend]
    by_cases hjS : j ∈ S0
    · rw [if_pos hjS, hz_leaf hWv (leaf_none_iff.mpr (hS j hjS))]
    · rw [if_neg hjS]
      have hH : Hd (view F) j := by
        apply Classical.not_not.mp
        intro hn
        apply hjS
        apply hsub
        rw [hz_leaf hWv (leaf_none_iff.mpr hn)]
        exact List.mem_singleton.mpr rfl
      have hne : (getI F j).children ≠ [] := hH.1
      rw [if_neg hne, hz_node hWv (not_leaf_none hH)]
      apply joinOpts_map_of
      intro c hc
      have hcc := hW.child j c hc
      apply ih c hc hcc.2.1
      · intro y hy
        apply hsub
        rw [hz_node hWv (not_leaf_none hH)]
        exact List.mem_flatMap.mpr ⟨c, hc, hy⟩
      · omega

/-- the decidable cut check holds of every forest with the done-leaves invariant -/
theorem cutOK_of_RF {F : Forest α} (h : RF F) : cutOK F = true := by
  obtain ⟨hW, hR⟩ := h
  have hWv := view_wf hW
  unfold cutOK
  rw [List.all_eq_true]
  intro i hi
  have hi' := List.mem_range.mp hi
  split
  · rename_i x S heq
    rcases hR.i1 i (x :: S) heq with h | ⟨hnd, hmem⟩
    · cases h
    · have hS0 : ∀ y ∈ x :: S, ¬ Hd (view F) y := fun y hy =>
        leaf_none_iff.mp (mem_hz_leaf hWv none i y ((hmem y).mp hy))
      have hd := descend_held hW (x :: S) hS0 i hi' (fun y hy => (hmem y).mpr hy) F.length (by omega)
      unfold isCutB
      rw [hd]
      simp only
      exact List.isPerm_iff.mpr ((List.perm_ext_iff_of_nodup (hz_nodup hWv none i) hnd).mpr (fun y => (hmem y).symm))
  · rfl

/-- `cutOK` holds in every reachable state -/
theorem cutOK_reach (O : Oracle α) (P : Params α) (a b e : α) (ops : List (Op α)) :
    cutOK (run O P (start O P a b e) ops).F = true :=
  cutOK_of_RF (rf_reach O P a b e ops)

/-! ### contiguity -/
/-- the intervals of `L`, in this order, are adjacent and lead from `a` to `b` -/
def chain (F : Forest α) : α → List Nat → α → Prop
  | a, [], b => a = b
  | a, x :: r, b => (getI F x).a = a ∧ chain F (getI F x).b r b

theorem chain_append {F : Forest α} : ∀ (L1 L2 : List Nat) (a m b : α), chain F a L1 m → chain F m L2 b →
    chain F a (L1 ++ L2) b
  | [], L2, a, m, b, h1, h2 => by
    simp only [chain] at h1
    rw [h1]; exact h2
  | x :: r, L2, a, m, b, h1, h2 => by
    simp only [chain, List.cons_append] at h1 ⊢
    exact ⟨h1.1, chain_append r L2 _ m b h1.2 h2⟩

/-- with the midpoint relation of `split`, the intervals of a cut of the subtree of `i` can be listed so that each ends
where the next begins, from `i.a` to `i.b` -/
theorem isCut_contig {F : Forest α} (hW : WF F) {i : Nat} {S : List Nat} (h : IsCut F i S) :
    ∃ L : List Nat, L.Perm S ∧ L ≠ [] ∧ chain F (getI F i).a L (getI F i).b := by
  induction h with
  | leaf i => exact ⟨[i], List.Perm.refl _, by simp, by simp [chain]⟩
  | node i S T hc hT hS ih =>
    rcases hW.geo i with h0 | ⟨c1, c2, h1, h2, h3, h4⟩
    · exact absurd h0 hc
    · obtain ⟨L1, p1, n1, ch1⟩ := ih c1 (by rw [h1]; simp)
      obtain ⟨L2, p2, n2, ch2⟩ := ih c2 (by rw [h1]; simp)
      refine ⟨L1 ++ L2, ?_, by simp [n1], ?_⟩
      · rw [h1] at hS
        simp only [List.flatMap_cons, List.flatMap_nil, List.append_nil] at hS
        exact (List.Perm.append p1 p2).trans hS.symm
      · rw [h2] at ch1
        rw [h3.symm, ] at ch2
        rw [h4] at ch2
        exact chain_append L1 L2 _ _ _ ch1 ch2

end Cut
end Integ
