import AdaptiveModel.Seq

/-! Helper lemmas for the SequenceLearner model (core Lean only). -/
namespace Seq

theorem lt_pairwise_nodup {l : List Nat} (h : l.Pairwise (· < ·)) : l.Nodup := by
  unfold List.Nodup
  exact h.imp (fun hab => Nat.ne_of_lt hab)

theorem mem_sinsert {x i : Nat} {l : List Nat} : i ∈ sinsert x l ↔ i = x ∨ i ∈ l := by
  induction l with
  | nil => simp [sinsert]
  | cons y ys ih =>
    unfold sinsert
    split
    · simp
    · split
      · subst_vars; simp
      · simp [ih]; constructor <;> rintro (h | h | h) <;> simp [h]

theorem sinsert_sorted {x : Nat} {l : List Nat} (h : l.Pairwise (· < ·)) :
    (sinsert x l).Pairwise (· < ·) := by
  induction l with
  | nil => simp [sinsert]
  | cons y ys ih =>
    rw [List.pairwise_cons] at h
    unfold sinsert
    split
    · rename_i hxy
      refine List.pairwise_cons.2 ⟨?_, List.pairwise_cons.2 h⟩
      intro a ha
      rcases List.mem_cons.1 ha with rfl | ha
      · exact hxy
      · exact Nat.lt_trans hxy (h.1 a ha)
    · split
      · exact List.pairwise_cons.2 h
      · rename_i h1 h2
        refine List.pairwise_cons.2 ⟨?_, ih h.2⟩
        intro a ha
        rcases mem_sinsert.1 ha with rfl | ha
        · omega
        · exact h.1 a ha

theorem mem_keys_dinsert {β : Type} {k i : Nat} {v : β} {d : List (Nat × β)} :
    i ∈ (dinsert k v d).map Prod.fst ↔ i = k ∨ i ∈ d.map Prod.fst := by
  induction d with
  | nil => simp [dinsert]
  | cons kv r ih =>
    obtain ⟨k', v'⟩ := kv
    unfold dinsert
    split
    · simp
    · split
      · subst_vars; simp
      · simp only [List.map_cons, List.mem_cons, ih]
        constructor <;> rintro (h | h | h) <;> simp [h]

theorem dinsert_sorted {β : Type} {k : Nat} {v : β} {d : List (Nat × β)}
    (h : (d.map Prod.fst).Pairwise (· < ·)) :
    ((dinsert k v d).map Prod.fst).Pairwise (· < ·) := by
  induction d with
  | nil => simp [dinsert]
  | cons kv r ih =>
    obtain ⟨k', v'⟩ := kv
    simp only [List.map_cons, List.pairwise_cons] at h
    unfold dinsert
    split
    · rename_i hk
      simp only [List.map_cons]
      refine List.pairwise_cons.2 ⟨?_, List.pairwise_cons.2 h⟩
      intro a ha
      rcases List.mem_cons.1 ha with rfl | ha
      · exact hk
      · exact Nat.lt_trans hk (h.1 a ha)
    · split
      · subst_vars
        simp only [List.map_cons]
        exact List.pairwise_cons.2 h
      · rename_i h1 h2
        simp only [List.map_cons]
        refine List.pairwise_cons.2 ⟨?_, ih h.2⟩
        intro a ha
        rcases mem_keys_dinsert.1 ha with rfl | ha
        · omega
        · exact h.1 a ha

/-- lookup in the sorted dict -/
def lookup {β : Type} (i : Nat) : List (Nat × β) → Option β
  | [] => none
  | (k, v) :: r => if i = k then some v else lookup i r

theorem lookup_dinsert_self {β : Type} {k : Nat} {v : β} {d : List (Nat × β)}
    (h : (d.map Prod.fst).Pairwise (· < ·)) : lookup k (dinsert k v d) = some v := by
  induction d with
  | nil => simp [dinsert, lookup]
  | cons kv r ih =>
    obtain ⟨k', v'⟩ := kv
    simp only [List.map_cons, List.pairwise_cons] at h
    unfold dinsert
    split
    · simp [lookup]
    · split
      · simp [lookup]
      · rename_i h1 h2
        simp [lookup, h2, ih h.2]

theorem lookup_dinsert_other {β : Type} {k i : Nat} {v : β} {d : List (Nat × β)}
    (hik : i ≠ k) : lookup i (dinsert k v d) = lookup i d := by
  induction d with
  | nil => simp [dinsert, lookup, hik]
  | cons kv r ih =>
    obtain ⟨k', v'⟩ := kv
    unfold dinsert
    split
    · simp [lookup, hik]
    · split
      · subst_vars; simp [lookup, hik]
      · simp [lookup, ih]

theorem dinsert_length_of_mem {β : Type} {k : Nat} {v : β} {d : List (Nat × β)}
    (hk : k ∈ d.map Prod.fst) (h : (d.map Prod.fst).Pairwise (· < ·)) :
    (dinsert k v d).length = d.length := by
  induction d with
  | nil => simp at hk
  | cons kv r ih =>
    obtain ⟨k', v'⟩ := kv
    simp only [List.map_cons, List.pairwise_cons] at h
    simp only [List.map_cons, List.mem_cons] at hk
    unfold dinsert
    split
    · rename_i hlt
      rcases hk with rfl | hk
      · omega
      · have := h.1 k hk; omega
    · split
      · simp
      · rename_i h1 h2
        rcases hk with rfl | hk
        · exact absurd rfl h2
        · simp [ih hk h.2]

theorem dinsert_length_of_not_mem {β : Type} {k : Nat} {v : β} {d : List (Nat × β)}
    (hk : k ∉ d.map Prod.fst) : (dinsert k v d).length = d.length + 1 := by
  induction d with
  | nil => simp [dinsert]
  | cons kv r ih =>
    obtain ⟨k', v'⟩ := kv
    simp only [List.map_cons, List.mem_cons, not_or] at hk
    unfold dinsert
    split
    · simp
    · split
      · exact absurd ‹k = k'› hk.1
      · simp [ih hk.2]

end Seq
