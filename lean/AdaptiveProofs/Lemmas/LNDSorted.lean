import AdaptiveProofs.Lemmas.LNDCover

/-! The `_simplex_queue` of the LearnerND model stays in `SortedKeyList` order along every run: the queue is
only ever changed by `qinsert`, folds of `qinsert`, a reset to `[]` and `popHighest`. -/
set_option linter.unusedSectionVars false
set_option linter.unusedSimpArgs false
set_option linter.unusedVariables false
namespace LND
variable {α : Type} [Sub α] [Mul α] [Div α] [LT α] [DecidableLT α]

theorem updateSubLosses_sorted (env : Env α) (vs : List Pt) (losses : List (Simplex × α)) {b b' : Book α}
    (sx : Simplex) (news : List Simplex) (hs : QSorted env b.queue)
    (h : updateSubLosses env vs losses b sx news = .ok b') : QSorted env b'.queue := by
  unfold updateSubLosses at h
  split at h
  · simp only [Except.ok.injEq] at h
    subst h
    exact foldl_qinsert_sorted env _ news hs
  · exact absurd h (by simp)

theorem tryAdd_sorted (env : Env α) (vs : List Pt) {b b' : Book α} (p : Pt) (t : Simplex)
    {r : Option (List Simplex)} (hs : QSorted env b.queue) (h : tryAdd env vs b p t = .ok (b', r)) :
    QSorted env b'.queue := by
  rw [(tryAdd_spec env vs p t h).1]; exact hs

theorem addPts_sorted (env : Env α) (vs : List Pt) (sx : Simplex) (ps : List Pt) {b b' : Book α}
    (hs : QSorted env b.queue) (h : addPts env vs sx b ps = .ok b') : QSorted env b'.queue := by
  rw [(addPts_spec env vs sx ps h).1]; exact hs

theorem pendLoop_sorted (env : Env α) (vs : List Pt) (losses : List (Simplex × α)) (p : Pt) (ts : List Simplex) :
    ∀ {b b' : Book α}, QSorted env b.queue → pendLoop env vs losses p b ts = .ok b' → QSorted env b'.queue := by
  induction ts with
  | nil => intro b b' hs h; simp only [pendLoop, Except.ok.injEq] at h; subst h; exact hs
  | cons t ts ih =>
    intro b b' hs h
    unfold pendLoop at h
    split at h
    · exact absurd h (by simp)
    · rename_i b1 h1
      exact ih (tryAdd_sorted env vs p t hs h1) h
    · rename_i b1 A h1
      split at h
      · exact absurd h (by simp)
      · rename_i b2 h2
        exact ih (updateSubLosses_sorted env vs losses t A (tryAdd_sorted env vs p t hs h1) h2) h

theorem addLoop_sorted (env : Env α) (vs : List Pt) (m : α) (unb : List Pt) (A : List Simplex) :
    ∀ {losses l' : List (Simplex × α)} {b b' : Book α}, QSorted env b.queue →
      addLoop env vs m unb losses b A = .ok (l', b') → QSorted env b'.queue := by
  induction A with
  | nil =>
    intro losses l' b b' hs h
    simp only [addLoop, Except.ok.injEq, Prod.mk.injEq] at h
    rw [← h.2]; exact hs
  | cons sx rest ih =>
    intro losses l' b b' hs h
    unfold addLoop at h
    simp only at h
    split at h
    · exact absurd h (by simp)
    · rename_i b1 hb1
      have s1 : QSorted env b1.queue := addPts_sorted env vs sx unb hs hb1
      split at h
      · exact ih (b := { b1 with queue := qinsert env _ b1.queue }) (qinsert_sorted env _ s1) h
      · split at h
        · exact absurd h (by simp)
        · rename_i b2 h2
          exact ih (updateSubLosses_sorted env vs _ sx _ s1 h2) h

theorem updateLosses_sorted (env : Env α) {s s' : State α} (D A : List Simplex) (hs : QSorted env s.book.queue)
    (h : updateLosses env s D A = .ok s') : QSorted env s'.book.queue := by
  unfold updateLosses at h
  split at h
  · simp only [Except.ok.injEq] at h; subst h; exact hs
  · rename_i vs hvs
    simp only at h
    split at h
    · exact absurd h (by simp)
    · rename_i l b hl
      simp only [Except.ok.injEq] at h
      subst h
      exact addLoop_sorted env vs s.mult _ A (by exact hs) hl

theorem touchTri_sorted (env : Env α) {s s' : State α} (hs : QSorted env s.book.queue)
    (h : touchTri env s = .ok s') : QSorted env s'.book.queue := by
  unfold touchTri at h
  split at h
  · simp only [Except.ok.injEq] at h; subst h; exact hs
  · split at h
    · exact updateLosses_sorted env (s := { s with tri := some s.data }) _ _ hs h
    · simp only [Except.ok.injEq] at h; subst h; exact hs

theorem recomputeAll_sorted (env : Env α) {s s' : State α} (hs : QSorted env s.book.queue)
    (h : recomputeAll env s = .ok s') : QSorted env s'.book.queue := by
  unfold recomputeAll at h
  split at h
  · exact absurd h (by simp)
  · rename_i s1 h1
    have k1 := touchTri_sorted env hs h1
    split at h
    · simp only [Except.ok.injEq] at h; subst h; exact k1
    · rename_i vs hvs
      split at h
      · exact absurd h (by simp)
      · rename_i l b hl
        simp only [Except.ok.injEq] at h; subst h
        exact addLoop_sorted env vs s1.mult [] _ (b := { s1.book with queue := [] }) (qsorted_nil env) hl

theorem updateRange_sorted (env : Env α) {s s' : State α} (a b : α) (hs : QSorted env s.book.queue)
    (h : updateRange env s a b = .ok s') : QSorted env s'.book.queue := by
  obtain ⟨r, m, hf | hf⟩ := updateRange_form env s a b
  · rw [hf] at h
    exact recomputeAll_sorted env (s := { s with range := r, mult := m }) hs h
  · rw [hf] at h; simp only [Except.ok.injEq] at h; subst h; exact hs

theorem tellPending_sorted (env : Env α) {s s' : State α} (p : Pt) (hint : Option Simplex)
    (hs : QSorted env s.book.queue) (h : tellPending env s p hint = .ok s') : QSorted env s'.book.queue := by
  rcases tellPending_form env p hint h with ⟨hin, rfl⟩ | ⟨hin, s1, b, h1, rfl, hb⟩
  · exact hs
  · have k1 : QSorted env s1.book.queue :=
      touchTri_sorted env (s := { s with pending := addPending s.pending p }) hs h1
    rcases hb with rfl | ⟨vs, sx, _, hb⟩
    · exact k1
    · exact pendLoop_sorted env vs s1.losses p _ k1 hb

theorem tell_sorted (env : Env α) {s s' : State α} (p : Pt) (a b : α) (hs : QSorted env s.book.queue)
    (h : tell env s p a b = .ok s') : QSorted env s'.book.queue := by
  rcases tell_form env p a b h with ⟨_, rfl⟩ | ⟨_, s1, h1, hcase⟩
  · exact hs
  · have k1 : QSorted env s1.book.queue :=
      touchTri_sorted env (s := { s with pending := s.pending.filter (· ≠ p) }) hs h1
    rcases hcase with ⟨_, rfl⟩ | ⟨_, s3, h3, hcase⟩
    · exact k1
    · have k3 : QSorted env s3.book.queue :=
        updateRange_sorted env (s := { s1 with data := s1.data ++ [p] }) a b k1 h3
      rcases hcase with ⟨_, rfl⟩ | ⟨vs, hint, D, A, hvs, hadd, hu⟩
      · exact k3
      · exact updateLosses_sorted env (s := { s3 with tri := some (vs ++ [p]) }) D A k3 hu

theorem askBest_sorted (env : Env α) {s s' : State α} {vs : List Pt} {r : Pt × α} (hs : QSorted env s.book.queue)
    (h : askBest env s vs = .ok (r, s')) : QSorted env s'.book.queue := by
  obtain ⟨e, q, s2, hp, _, h2, rfl⟩ := askBest_form env h
  have kq : QSorted env q := popHighest_sorted env _ _ hs hp
  have k2 : QSorted env s2.book.queue :=
    tellPending_sorted env (s := { s with book := { s.book with queue := q, p2s := put r.1 e.simplex s.book.p2s } })
      r.1 (some e.simplex) kq h2
  exact k2

theorem askOne_sorted (env : Env α) {s s' : State α} {r : Pt × α} (hs : QSorted env s.book.queue)
    (h : askOne env s = .ok (r, s')) : QSorted env s'.book.queue := by
  rcases askOne_form env h with ⟨p, _, _, h1⟩ | ⟨_, s1, h1, hcase⟩
  · exact tellPending_sorted env p none hs h1
  · have k1 := touchTri_sorted env hs h1
    rcases hcase with ⟨_, _, h2⟩ | ⟨vs, _, h2⟩
    · exact tellPending_sorted env (s := { s1 with nrand := s1.nrand + 1 }) _ none k1 h2
    · exact askBest_sorted env k1 h2

theorem askLoop_sorted (env : Env α) (n : Nat) : ∀ {s s' : State α} {rs : List (Pt × α)},
    QSorted env s.book.queue → askLoop env n s = .ok (rs, s') → QSorted env s'.book.queue := by
  induction n with
  | zero =>
    intro s s' rs hs h
    simp only [askLoop, Except.ok.injEq, Prod.mk.injEq] at h
    rw [← h.2]; exact hs
  | succ n ih =>
    intro s s' rs hs h
    unfold askLoop at h
    split at h
    · exact absurd h (by simp)
    · rename_i r s1 h1
      split at h
      · exact absurd h (by simp)
      · rename_i rs' s2 h2
        simp only [Except.ok.injEq, Prod.mk.injEq] at h
        rw [← h.2]
        exact ih (askOne_sorted env hs h1) h2

theorem ask_sorted (env : Env α) {s s' : State α} {rs : List (Pt × α)} (n : Nat) (c : Bool)
    (hs : QSorted env s.book.queue) (h : ask env s n c = .ok (rs, s')) : QSorted env s'.book.queue := by
  unfold ask at h
  split at h
  · exact absurd h (by simp)
  · rename_i rs' s1 h1
    simp only [Except.ok.injEq, Prod.mk.injEq] at h
    rw [← h.2]
    cases c
    · exact hs
    · exact askLoop_sorted env n hs h1

theorem lossOp_sorted (env : Env α) {s s' : State α} {v : α} (hs : QSorted env s.book.queue)
    (h : lossOp env s = .ok (v, s')) : QSorted env s'.book.queue := by
  unfold lossOp at h
  split at h
  · exact absurd h (by simp)
  · rename_i s1 h1
    have k1 := touchTri_sorted env hs h1
    split at h <;> (simp only [Except.ok.injEq, Prod.mk.injEq] at h; rw [← h.2]; exact k1)

theorem step_sorted (env : Env α) {s s' : State α} (op : Op α) (hs : QSorted env s.book.queue)
    (h : step env s op = .ok s') : QSorted env s'.book.queue := by
  cases op with
  | tell p a b => exact tell_sorted env p a b hs h
  | tellPending p => exact tellPending_sorted env p none hs h
  | ask n c =>
    simp only [step] at h
    cases ha : ask env s n c with
    | error e => rw [ha] at h; simp [Except.map] at h
    | ok r =>
      rw [ha] at h
      simp only [Except.map, Except.ok.injEq] at h
      subst h
      exact ask_sorted env (rs := r.1) n c hs (by rw [ha])
  | removeUnfinished =>
    simp only [step, Except.ok.injEq] at h
    subst h
    exact foldl_qinsert_sorted env (fun e => e) (requeueEntries s.losses) (qsorted_nil env)
  | loss =>
    simp only [step] at h
    cases ha : lossOp env s with
    | error e => rw [ha] at h; simp [Except.map] at h
    | ok r =>
      rw [ha] at h
      simp only [Except.map, Except.ok.injEq] at h
      subst h
      exact lossOp_sorted env (v := r.1) hs (by rw [ha])

theorem run_sorted (env : Env α) (ops : List (Op α)) : ∀ {s s' : State α}, QSorted env s.book.queue →
    run env s ops = .ok s' → QSorted env s'.book.queue := by
  induction ops with
  | nil => intro s s' hs h; simp only [run, Except.ok.injEq] at h; subst h; exact hs
  | cons op ops ih =>
    intro s s' hs h
    unfold run at h
    split at h
    · exact absurd h (by simp)
    · rename_i s1 h1
      exact ih (step_sorted env op hs h1) h

theorem init_sorted (env : Env α) : QSorted env (init env).book.queue := qsorted_nil env

end LND
