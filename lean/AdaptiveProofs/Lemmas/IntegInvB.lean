import AdaptiveProofs.Lemmas.IntegInv
/-!
C07 (deepening): phase B of the done-leaves walk — the walk passes through intervals that had handed their leaves up
(`done_leaves = None`): each gets the new leaves of the revived interval `z` and hands them up again, until the interval
that holds `z` in its own `done_leaves` is reached; there `z` is replaced by the new leaves and the invariant is restored.
-/
set_option linter.unusedSectionVars false
set_option linter.unusedSimpArgs false
set_option linter.unusedVariables false
namespace Integ
namespace Cut

theorem View.ext' {T T' : View} (hl : T'.len = T.len) (hc : T'.ch = T.ch) (hp : T'.par = T.par)
    (hd : ∀ j, T'.dl j = T.dl j) : T' = T := by
  cases T; cases T'
  simp only at hl hc hp hd
  subst hl hc hp
  have : ‹Nat → Option (List Nat)› = _ := funext hd
  simp only [View.mk.injEq, true_and]
  exact funext hd

section stepB
variable {T T' : View} {b z q : Nat} {old old' Sb S' : List Nat}

theorem BC.wfT (hB : BC T b z old Sb) : WFv T :=
  WFv.of_eq (T := setN T b) (T' := T) rfl rfl rfl hB.rz.wf

theorem BC.facts (hB : BC T b z old Sb) (hq : T.par b = some q) :
    q < b ∧ b ∈ T.ch q ∧ b ≤ z ∧ (∀ c ∈ T.ch q, c ≠ b → T.dl c = none) ∧ Hd (setN T b) q ∧
    (∀ c ∈ T.ch q, ∀ l, T.dl c = some l → l ≠ []) := by
  have hWV := hB.rz.wf
  have hW := hB.wfT
  have hqb := hW.par b q hq
  have hsib : ∀ c ∈ T.ch q, c ≠ b → T.dl c = none := by
    intro c hc hcb
    rcases hB.rz.i2 q with h | h
    · have := h c hc
      simp only [setN, if_neg hcb] at this
      exact this
    · exact absurd (by simp [setN]) (h b hqb.2)
  refine ⟨hqb.1, hqb.2, anc_le hWV (mem_hz_anc hWV (some z) b z hB.chain), hsib, ?_, ?_⟩
  · refine ⟨fun h => ?_, fun c hc => ?_⟩
    · have := hqb.2
      rw [show (setN T b).ch q = T.ch q from rfl] at h
      rw [h] at this; cases this
    · by_cases hcb : c = b
      · simp [setN, hcb]
      · simp only [setN, if_neg hcb]; exact hsib c hc hcb
  · intro c hc l hl
    by_cases hcb : c = b
    · rw [hcb, hB.dlb] at hl; cases hl; exact hB.ne
    · rw [hsib c hc hcb] at hl; cases hl

/-- the new `done_leaves` of `q`: its old ones and those coming from `b`, minus the intervals visited -/
theorem stepB_mem (hB : BC T b z old Sb) (hq : T.par b = some q) (hs : StepRel T T' q old' S')
    (hold : ∀ x, x ∈ old' ↔ x = q ∨ x ∈ old) :
    (∀ x, x ∈ S' ↔ (x ∈ (T.dl q).getD [] ∨ x ∈ Sb) ∧ x ∉ old') ∧ (∀ x ∈ Sb, x ∉ old') := by
  obtain ⟨hqb, hbq, hbz, hsib, hHq, hck⟩ := hB.facts hq
  have hWV := hB.rz.wf
  constructor
  · intro x
    rw [hs.mem]
    constructor
    · rintro ⟨h | ⟨c, hc, Sc, hd, hx⟩, hno⟩
      · exact ⟨Or.inl h, hno⟩
      · by_cases hcb : c = b
        · rw [hcb, hB.dlb] at hd; cases hd; exact ⟨Or.inr hx, hno⟩
        · rw [hsib c hc hcb] at hd; cases hd
    · rintro ⟨h | h, hno⟩
      · exact ⟨Or.inl h, hno⟩
      · exact ⟨Or.inr ⟨b, hbq, Sb, hB.dlb, h⟩, hno⟩
  · intro x hx ho
    have hxz := (hB.mem x).mp hx
    rcases (hold x).mp ho with e | ho
    · have := anc_le hWV (mem_hz_anc hWV none z x hxz)
      omega
    · exact (leaf_none_iff.mp (mem_hz_leaf hWV none z x hxz)) (hB.oldH x ho)

theorem stepB_none (hB : BC T b z old Sb) (hq : T.par b = some q) (hs : StepRel T T' q old' S')
    (hold : ∀ x, x ∈ old' ↔ x = q ∨ x ∈ old) (hD : T.dl q = none) : BC T' q z old' S' := by
  obtain ⟨hqb, hbq, hbz, hsib, hHq, hck⟩ := hB.facts hq
  obtain ⟨hmem, hSb⟩ := stepB_mem hB hq hs hold
  have hWV := hB.rz.wf
  have hW := hB.wfT
  have hEq : setN T' q = setN T b := by
    refine View.ext' (T := setN T b) (T' := setN T' q) hs.len hs.ch hs.par ?_
    intro j
    simp only [setN]
    by_cases hjq : j = q
    · rw [if_pos hjq, if_neg (by omega), hjq, hD]
    · rw [if_neg hjq, hs.dl, if_neg hjq]
      by_cases hjb : j = b
      · rw [if_pos hjb, hjb, if_pos hbq]
      · rw [if_neg hjb]
        split
        · rename_i hc; exact (hsib j hc hjb).symm
        · rfl
  have hS'Sb : ∀ x, x ∈ S' ↔ x ∈ Sb := by
    intro x
    rw [hmem, hD]
    simp only [Option.getD_none, List.not_mem_nil, false_or]
    exact ⟨fun h => h.1, fun h => ⟨h, hSb x h⟩⟩
  refine ⟨hEq ▸ hB.rz, ?_, ?_, ?_, ?_, ?_, ?_, ?_, ?_⟩
  · rw [hs.dl, if_pos rfl]
  · intro he
    cases hSbe : Sb with
    | nil => exact hB.ne hSbe
    | cons y r =>
      have : y ∈ S' := (hS'Sb y).mpr (by rw [hSbe]; exact List.mem_cons_self ..)
      rw [he] at this; cases this
  · apply hs.nd; rw [hD]; simp
  · intro x; rw [hEq, hS'Sb]; exact hB.mem x
  · exact (hold z).mpr (Or.inr hB.zold)
  · intro x hx
    rw [hEq]
    rcases (hold x).mp hx with e | ho
    · rw [e]; exact hHq
    · exact hB.oldH x ho
  · rw [hEq]
    have hnl : ¬ Leaf (setN T b) (some z) q := by
      rintro (h | h)
      · cases h; omega
      · exact h hHq
    rw [hz_node hWV hnl]
    exact List.mem_flatMap.mpr ⟨b, hbq, hB.chain⟩
  · rw [hEq]; exact hB.zN

theorem stepB_some (hB : BC T b z old Sb) (hq : T.par b = some q) (hs : StepRel T T' q old' S')
    (hold : ∀ x, x ∈ old' ↔ x = q ∨ x ∈ old) {Sh : List Nat} (hD : T.dl q = some Sh) :
    RZ T' none ∧ (∀ x ∈ old', Hd T' x) ∧ T'.dl q ≠ none := by
  obtain ⟨hqb, hbq, hbz, hsib, hHq, hck⟩ := hB.facts hq
  obtain ⟨hmem, hSb⟩ := stepB_mem hB hq hs hold
  have hWV := hB.rz.wf
  have hW := hB.wfT
  have hW' : WFv T' := hW.of_eq hs.len hs.ch hs.par
  have hVq : (setN T b).dl q = some Sh := by simp only [setN, if_neg (show ¬ q = b by omega)]; exact hD
  have hT'dl : ∀ j, T'.dl j = if j = q then some S' else (setN T b).dl j := by
    intro j
    rw [hs.dl]
    by_cases hjq : j = q
    · rw [if_pos hjq, if_pos hjq]
    · rw [if_neg hjq, if_neg hjq]
      simp only [setN]
      by_cases hjb : j = b
      · rw [if_pos hjb, hjb, if_pos hbq]
      · rw [if_neg hjb]
        split
        · rename_i hc; exact (hsib j hc hjb).symm
        · rfl
  have hNeq : ∀ c, T'.dl c = none ↔ (setN T b).dl c = none := by
    intro c
    rw [hT'dl]
    by_cases hcq : c = q
    · rw [if_pos hcq, hcq, hVq]
      exact ⟨fun h => (by cases h), fun h => (by cases h)⟩
    · rw [if_neg hcq]
  have hHeq : ∀ x, Hd T' x ↔ Hd (setN T b) x := fun x =>
    hd_iff (T := setN T b) (T' := T') hs.ch x (fun c _ => hNeq c)
  have hleq : ∀ (z' : Option Nat) x, Leaf (setN T b) z' x ↔ Leaf T' z' x := by
    intro z' x; unfold Leaf; rw [hHeq]
  have hhz : ∀ (z' : Option Nat) j, hz T' z' j = hz (setN T b) z' j := fun z' j =>
    hz_congr (T := setN T b) (T' := T') hs.len (hleq z') (fun x _ => by rw [hs.ch]; rfl) j
  -- z is held by q (in the view where z stands for itself)
  have hnl : ¬ Leaf (setN T b) (some z) q := by
    rintro (h | h)
    · cases h; omega
    · exact h hHq
  have hzq : z ∈ hz (setN T b) (some z) q := by
    rw [hz_node hWV hnl]
    exact List.mem_flatMap.mpr ⟨b, hbq, hB.chain⟩
  have hSh : Sh.Nodup ∧ ∀ x, x ∈ Sh ↔ x ∈ hz (setN T b) (some z) q := by
    rcases hB.rz.i1 q Sh hVq with h | h
    · exact absurd (by rw [hVq, h]) (hB.rz.i3 q hHq)
    · exact h
  have hS'mem : ∀ x, x ∈ S' ↔ x ∈ hz (setN T b) none q := by
    intro x
    rw [hmem, hD, hz_expand hWV z q x]
    simp only [Option.getD_some]
    constructor
    · rintro ⟨h | h, hno⟩
      · left
        refine ⟨(hSh.2 x).mp h, fun e => hno ?_⟩
        rw [e]; exact (hold z).mpr (Or.inr hB.zold)
      · exact Or.inr ⟨hzq, (hB.mem x).mp h⟩
    · rintro (⟨h1, h2⟩ | ⟨_, h2⟩)
      · refine ⟨Or.inl ((hSh.2 x).mpr h1), fun ho => ?_⟩
        have hl := mem_hz_leaf hWV (some z) q x h1
        rcases (hold x).mp ho with e | ho
        · rw [e] at hl; exact hnl hl
        · rcases hl with hl | hl
          · cases hl; exact h2 rfl
          · exact hl (hB.oldH x ho)
      · have := (hB.mem x).mpr h2
        exact ⟨Or.inr this, hSb x this⟩
  have hS'ne : S' ≠ [] := by
    intro he
    have hne := hz_ne_nil hWV none q
    cases hh : hz (setN T b) none q with
    | nil => exact hne hh
    | cons y r =>
      have : y ∈ S' := (hS'mem y).mpr (by rw [hh]; exact List.mem_cons_self ..)
      rw [he] at this; cases this
  refine ⟨⟨hW', ?_, ?_, ?_, ?_⟩, ?_, ?_⟩
  · intro j S hS
    rw [hT'dl] at hS
    rw [hhz]
    by_cases hjq : j = q
    · rw [if_pos hjq] at hS; cases hS
      right
      refine ⟨hs.nd (by rw [hD]; exact hSh.1), fun x => ?_⟩
      rw [hjq]; exact hS'mem x
    · rw [if_neg hjq] at hS
      rcases hB.rz.i1 j S hS with h | h
      · exact Or.inl h
      · right
        refine ⟨h.1, fun x => ?_⟩
        rw [h.2 x, hz_expand hWV z j x]
        have hzj : z ∉ hz (setN T b) (some z) j := by
          intro hzj
          have a1 := mem_hz_anc hWV (some z) j z hzj
          have a2 := mem_hz_anc hWV (some z) q z hzq
          rcases anc_linear a1 a2 with hjq' | hqj
          · have := (mem_hz_path hWV (some z) j z q hzj hjq' a2 (fun e => hjq e.symm)).1
            rw [hVq] at this; cases this
          · have := (mem_hz_path hWV (some z) q z j hzq hqj a1 hjq).1
            rw [hS] at this; cases this
        constructor
        · intro hx; exact Or.inl ⟨hx, fun e => hzj (e ▸ hx)⟩
        · rintro (⟨h1, _⟩ | ⟨h1, _⟩)
          · exact h1
          · exact absurd h1 hzj
  · intro j
    rw [hs.ch]
    rcases hB.rz.i2 j with h | h
    · left; intro c hc; exact (hNeq c).mpr (h c hc)
    · right; intro c hc hn; exact h c hc ((hNeq c).mp hn)
  · intro j hH
    rw [hT'dl]
    by_cases hjq : j = q
    · rw [if_pos hjq]; intro h; cases h; exact hS'ne rfl
    · rw [if_neg hjq]; exact hB.rz.i3 j ((hHeq j).mp hH)
  · intro j hn
    rw [hs.par]
    exact hB.rz.i4 j ((hNeq j).mp hn)
  · intro x hx
    rw [hHeq]
    rcases (hold x).mp hx with e | ho
    · rw [e]; exact hHq
    · exact hB.oldH x ho
  · rw [hT'dl, if_pos rfl]; intro h; cases h

end stepB
end Cut
end Integ
