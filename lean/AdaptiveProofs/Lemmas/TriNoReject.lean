import AdaptiveModel.Tri

/-! Only `_extend_hull` and `add_point` themselves raise the deliberate `ValueError`s (`Err.reject`); none of the
helpers does. -/
namespace Tri

theorem addTo_noReject (t : Simplex) : ∀ (vs : List Nat) (vts : List (List Simplex)) (w : Reject) (s' : State),
    addTo t vs vts ≠ .error (.reject w s')
  | [], vts, w, s', h => by simp [addTo] at h
  | v :: vs, vts, w, s', h => by
    simp only [addTo] at h
    split at h
    · cases h
    · exact addTo_noReject t vs _ w s' h

theorem addSimplex_noReject (s : State) (t : Simplex) (w : Reject) (s' : State) :
    addSimplex s t ≠ .error (.reject w s') := by
  intro h
  unfold addSimplex at h
  simp only at h
  split at h
  · rename_i e he
    cases h
    exact addTo_noReject _ _ _ w s' he
  · cases h

theorem delFrom_noReject (t : Simplex) : ∀ (vs : List Nat) (vts : List (List Simplex)) (w : Reject) (s' : State),
    delFrom t vs vts ≠ .error (.reject w s')
  | [], vts, w, s', h => by simp [delFrom] at h
  | v :: vs, vts, w, s', h => by
    simp only [delFrom] at h
    split at h
    · cases h
    · split at h
      · exact delFrom_noReject t vs _ w s' h
      · cases h

theorem deleteSimplex_noReject (s : State) (t : Simplex) (w : Reject) (s' : State) :
    deleteSimplex s t ≠ .error (.reject w s') := by
  intro h
  unfold deleteSimplex at h
  simp only at h
  split at h
  · split at h
    · rename_i e he
      cases h
      exact delFrom_noReject _ _ _ w s' he
    · cases h
  · cases h

theorem neighborsFromVertices_noReject (vts : List (List Simplex)) : ∀ (ps : List Nat) (w : Reject) (s' : State),
    neighborsFromVertices vts ps ≠ .error (.reject w s')
  | [], w, s', h => by simp [neighborsFromVertices] at h
  | p :: ps, w, s', h => by
    simp only [neighborsFromVertices] at h
    split at h
    · cases h
    · split at h
      · rename_i e he
        cases h
        exact neighborsFromVertices_noReject vts ps w s' he
      · cases h

theorem bwLoop_noReject (dim : Nat) : ∀ (circ : List (Simplex × Bool)) (s : State) (queue done bad : List Simplex)
    (w : Reject) (s' : State), bwLoop dim circ s queue done bad ≠ .error (.reject w s')
  | [], s, queue, done, bad, w, s', h => by
    simp only [bwLoop] at h
    split at h <;> cases h
  | (t, ans) :: rest, s, queue, done, bad, w, s', h => by
    simp only [bwLoop] at h
    split at h
    · cases h
    · split at h
      · cases h
      · split at h
        · split at h
          · rename_i e he
            cases h
            exact deleteSimplex_noReject _ _ w s' he
          · split at h
            · rename_i e he
              cases h
              exact neighborsFromVertices_noReject _ _ w s' he
            · exact bwLoop_noReject dim rest _ _ _ _ w s' h
        · exact bwLoop_noReject dim rest _ _ _ _ w s' h

theorem holeLoop_noReject (pt : Nat) : ∀ (fs : List Simplex) (s : State) (fl : List (Simplex × Bool))
    (w : Reject) (s' : State), holeLoop pt fs s fl ≠ .error (.reject w s')
  | [], s, fl, w, s', h => by simp [holeLoop] at h
  | face :: fs, s, fl, w, s', h => by
    simp only [holeLoop] at h
    split at h
    · exact holeLoop_noReject pt fs _ _ w s' h
    · split at h
      · cases h
      · split at h
        · exact holeLoop_noReject pt fs _ _ w s' h
        · split at h
          · rename_i e he
            cases h
            exact addSimplex_noReject _ _ w s' he
          · exact holeLoop_noReject pt fs _ _ w s' h

theorem hullLoop_noReject (pt : Nat) : ∀ (fs : List Simplex) (s : State) (new : List Simplex)
    (ori : List (Simplex × Int × Int)) (fl : List (Simplex × Bool)) (w : Reject) (s' : State),
    hullLoop pt fs s new ori fl ≠ .error (.reject w s')
  | [], s, new, ori, fl, w, s', h => by simp [hullLoop] at h
  | face :: fs, s, new, ori, fl, w, s', h => by
    simp only [hullLoop] at h
    split at h
    · cases h
    · split at h
      · split at h
        · cases h
        · split at h
          · exact hullLoop_noReject pt fs _ _ _ _ w s' h
          · split at h
            · rename_i e he
              cases h
              exact addSimplex_noReject _ _ w s' he
            · exact hullLoop_noReject pt fs _ _ _ _ w s' h
      · exact hullLoop_noReject pt fs _ _ _ _ w s' h

theorem removeAll_noReject : ∀ (ts sx : List Simplex) (w : Reject) (s' : State),
    removeAll ts sx ≠ .error (.reject w s')
  | [], sx, w, s', h => by simp [removeAll] at h
  | t :: ts, sx, w, s', h => by
    simp only [removeAll] at h
    split at h
    · exact removeAll_noReject ts _ w s' h
    · cases h

theorem bowyerWatson_noReject (s : State) (pt : Nat) (start : Option Simplex) (circ fl : List (Simplex × Bool))
    (w : Reject) (s' : State) : bowyerWatson s pt start circ fl ≠ .error (.reject w s') := by
  intro h
  unfold bowyerWatson at h
  simp only at h
  split at h
  · cases h
  · split at h
    · rename_i e he
      cases h
      exact bwLoop_noReject _ _ _ _ _ _ w s' he
    · split at h
      · rename_i e he
        cases h
        exact holeLoop_noReject _ _ _ _ w s' he
      · split at h <;> cases h

end Tri
