import AdaptiveProofs.Lemmas.SeqInv

/-! Extensionality of strictly increasing lists; `tell` commutes with `remove_unfinished`. -/
namespace Seq

/-- two strictly increasing lists with the same members are equal -/
theorem sorted_ext {l1 l2 : List Nat} (h1 : l1.Pairwise (· < ·)) (h2 : l2.Pairwise (· < ·))
    (h : ∀ j, j ∈ l1 ↔ j ∈ l2) : l1 = l2 := by
  have hperm : List.Perm l1 l2 :=
    (List.perm_ext_iff_of_nodup (lt_pairwise_nodup h1) (lt_pairwise_nodup h2)).2 h
  exact List.Perm.eq_of_pairwise (le := (· < ·))
    (fun a b _ _ hab hba => absurd hab (Nat.lt_asymm hba)) h1 h2 hperm

theorem tell_comm_removeUnfinished {β : Type} (s : State β) (i : Nat) (v : β)
    (h1 : s.todo.Pairwise (· < ·)) (h2 : s.pending.Nodup) :
    removeUnfinished (tell s i v) = tell (removeUnfinished s) i v := by
  obtain ⟨a, b⟩ := foldl_sinsert_spec s.pending s.todo h1
  have h1' : (s.todo.erase i).Pairwise (· < ·) := h1.sublist List.erase_sublist
  obtain ⟨a', b'⟩ := foldl_sinsert_spec (s.pending.erase i) (s.todo.erase i) h1'
  have htodo : (s.pending.erase i).foldl (fun t j => sinsert j t) (s.todo.erase i) =
      (s.pending.foldl (fun t j => sinsert j t) s.todo).erase i := by
    apply sorted_ext a' (a.sublist List.erase_sublist)
    intro j
    rw [b' j, mem_erase_sorted a, b j, mem_erase_sorted h1, h2.mem_erase_iff]
    constructor
    · rintro (⟨x, y⟩ | ⟨x, y⟩)
      · exact ⟨x, Or.inl y⟩
      · exact ⟨x, Or.inr y⟩
    · rintro ⟨x, y | y⟩
      · exact Or.inl ⟨x, y⟩
      · exact Or.inr ⟨x, y⟩
  simp only [removeUnfinished, tell, htodo, List.erase_nil]

end Seq
